#!/bin/bash
# usage: tools/mutant.sh <patch.diff> <ID> [<ID>...]   — applies the patch to a scratch worktree of /repo and runs the checks on it
set -u
P=$(realpath "$1"); shift
W=/tmp/verif-mut-$$
git -C /repo worktree add --detach -q "$W" HEAD || exit 3
trap 'git -C /repo worktree remove --force "$W" >/dev/null 2>&1; rm -rf "$W"' EXIT
if ! git -C "$W" apply "$P"; then echo "PATCH-DOES-NOT-APPLY $P"; exit 3; fi
for id in "$@"; do
  out=$(cd /verif && VERIF_REPO="$W" VERIF_REPLAYS_SUFFIX=mut ./vcheck "$id" --tier ${VERIF_TIER:-quick} 2>&1); rc=$?
  sig=$(echo "$out" | grep -m3 "signature:" | tr '\n' ';')
  echo "MUTANT $(basename "$P") check=$id exit=$rc $( [ $rc = 1 ] && echo DETECTED || ([ $rc = 0 ] && echo MISSED || echo BROKEN) ) $sig"
  [ $rc = 2 ] && echo "$out" | tail -15
done
