#!/usr/bin/env python3
"""Rewrites the block between <!-- seedtable:begin --> and <!-- seedtable:end --> in DESIGN.md from /verif/seeded/*/meta.json."""
import json, glob, os
V = os.path.dirname(os.path.dirname(os.path.abspath(__file__)))
rows = []; tot = missed_first = still = 0; props = {}; r2props = set()
for d in sorted(glob.glob(os.path.join(V, "seeded", "*"))):
    m = json.load(open(os.path.join(d, "meta.json")))
    name = os.path.basename(d)
    needs = " ".join(str(m.get("needs_to_manifest", "")).split())
    if len(needs) > 150: needs = needs[:147] + "…"
    prop = m["property"]; own = str(m.get("checks", {}).get(prop, "")); tot += 1
    props[prop] = props.get(prop, 0) + 1
    if "-r2-" in name: r2props.add(prop)
    if own.startswith("DETECTED"): res = "caught"
    elif own.startswith("MISSED before") and "DETECTED afterwards" in own:
        missed_first += 1
        how = own[len("MISSED before"):own.index("DETECTED afterwards")].strip(" ;:,")
        if len(how) > 190: how = how[:187] + "…"
        res = "**missed at first**; caught after " + how
    else:
        still += 1; res = "**MISSED**: " + own[:160]
    others = [k for k, v in m.get("checks", {}).items() if k != prop and str(v).startswith("DETECTED")]
    if others: res += " (also " + ", ".join(sorted(others)) + ")"
    rows.append("| %s | %s | %s |" % (name, needs.replace("|", "\\|"), res.replace("|", "\\|")))
intro = ("%d changes are kept, for %d of the 38 properties (two rounds: every property once, %d properties a\n"
         "second time with a hint to prefer other mechanisms). %d of them (%d %%) were **missed by the owning\n"
         "check when they arrived**; each miss was answered by generalising the workload or sharpening the\n"
         "attribution of a recorded finding — never by special-casing the patch — and the change was then\n"
         "caught in the quick tier; %d kept change(s) are missed now. Some second-round changes coincide with\n"
         "first-round ones (found independently); they are kept as they are. `tools/seedtable.py` prints the\n"
         "full table from the `meta.json` files, which are authoritative; the compact view:\n\n") % (
    tot, len(props), len(r2props), missed_first, round(100 * missed_first / max(tot, 1)), still)
tab = "| seeded change (`/verif/seeded/<name>/`) | needs in order to manifest | owning check |\n|---|---|---|\n" + "\n".join(rows) + "\n"
p = os.path.join(V, "DESIGN.md"); s = open(p).read()
a = s.index("<!-- seedtable:begin -->") + len("<!-- seedtable:begin -->"); b = s.index("<!-- seedtable:end -->")
open(p, "w").write(s[:a] + "\n" + intro + tab + s[b:])
print(tot, len(props), len(r2props), missed_first, still)
