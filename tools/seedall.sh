#!/bin/bash
# usage: tools/seedall.sh <parallel> <out summary> [property ids...]   (no ids = all kept seeds)
# Re-runs tools/seedconfirm.sh for every kept seeded change of the given properties against its owning check.
P=$1; OUT=$2; shift 2
cd /verif
ls -d seeded/* | while read d; do
  prop=$(jq -r .property $d/meta.json)
  if [ $# -gt 0 ]; then case " $* " in *" $prop "*) ;; *) continue;; esac; fi
  echo "$d $prop"
done | xargs -P $P -L1 sh -c 'r=$(tools/seedconfirm.sh $0 $1 2>&1 | grep -E "CONFIRMED|CHECK" | tr "\n" " " | cut -c1-260); echo "$(basename $0): $r"' >> $OUT
echo finished >> $OUT
