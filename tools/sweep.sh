#!/bin/bash
# usage: sweep.sh <name> <P> <seeds...> -- <ids...>
name=$1; P=$2; shift 2
seeds=(); while [ "$1" != "--" ]; do seeds+=($1); shift; done; shift
cd /verif
for s in "${seeds[@]}"; do for id in "$@"; do echo "$s $id"; done; done | xargs -P $P -L1 sh -c 'VERIF_SEED=$0 ./vcheck $1 --tier quick > logs/'$name'-$1-s$0.log 2>&1; echo "$1 seed=$0 rc=$? $(grep -c KNOWN-FINDING logs/'$name'-$1-s$0.log)kf $(grep -o "wall=[0-9.]*s" logs/'$name'-$1-s$0.log)" >> logs/'$name'.summary'
echo finished >> logs/$name.summary
