#!/usr/bin/env python3
import json,sys
for f in sys.argv[1:]:
    d=json.load(open(f))
    w=d.get('witness') or {}
    print('=====',f); print('SIG:',d['signature']); print('WHAT:',d['what'][:1500])
    if not isinstance(w,dict):
        print(json.dumps(w)[:3000]); continue
    for k,v in w.items():
        if k in('corpus','layout'): continue
        print(k+':',json.dumps(v,ensure_ascii=False)[:1500] if not isinstance(v,str) else v[:3000])
    for r in w.get('corpus',[]):
        print(' repo',r['Name'],r['ID'],'tenant',r.get('Tenant'),r['Branches'],'TOMB' if r.get('Tomb') else '', r.get('FileTomb'),r.get('Raw'),r.get('Meta'))
        for x in r['Docs'][:60]:
            print('    ',repr(x['Name']),x['Branches'],x['Lang'],x['Skip'],x.get('Sub',''),[(s['Start'],s['End']) for s in x.get('Syms') or []],repr(x['Content'][:300]))
    print('layout',w.get('layout'))
