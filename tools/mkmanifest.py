#!/usr/bin/env python3
"""Regenerates MANIFEST.json from checks.json (claimed checks) and properties.jsonl."""
import json, os
V = os.path.dirname(os.path.dirname(os.path.abspath(__file__)))
checks = json.load(open(os.path.join(V, "checks.json")))
import glob
for _f in sorted(glob.glob(os.path.join(V, "checks.d", "*.json"))):
    checks.update(json.load(open(_f)))
props = [json.loads(l) for l in open(os.path.join(V, "properties.jsonl")) if l.strip()]
na_path = os.path.join(V, "not_applicable.json")
na = json.load(open(na_path)) if os.path.exists(na_path) else {}
hooks_path = os.path.join(V, "MANIFEST.hooks")
hook_commits = []
if os.path.exists(hooks_path):
    for l in open(hooks_path):
        l = l.strip()
        if l and not l.startswith("#"):
            hook_commits.append(l.split()[0])
baseline = json.load(open("/root/.vp/BASELINE.json"))["cmd"] if os.path.exists("/root/.vp/BASELINE.json") else ""
m = {
    "version": 1,
    "setup_cmd": "./vcheck --setup",
    "hooks": {
        "guard": "verif",
        "enable": "go build/test -tags verif (the driver ./vcheck passes it; harness sources are injected with -overlay, /repo is never written)",
        "baseline_off_cmd": "cd /repo && GOFLAGS=-mod=mod GOPROXY=off GOTOOLCHAIN=local /root/go/pkg/mod/golang.org/toolchain@v0.0.1-go1.25.9.linux-amd64/bin/go test -json -vet=off -count=1 -timeout 25m ./...",
        "source_commits": hook_commits,
        "add_only": True,
    },
    "engines": [],
    "checks": [],
    "notes": "Runtime monitoring only: every check executes the real zoekt code from /repo's working tree (rebuilt on each run with -tags verif) under generated workloads, with differential oracles, invariant monitors, history checkers, the Go race detector and kill/fault injection through build-tag guarded hooks. Exit 2 = broken/inconclusive run (no verdict). See DESIGN.md.",
    "not_applicable": [],
}
reg_path = os.path.join(V, "registered.json")
registered = set(json.load(open(reg_path))) if os.path.exists(reg_path) else set(checks)
engines = {}
for cid in sorted(checks):
    if cid not in registered:
        continue
    c = checks[cid]
    eng = c.get("engine", c["pkg"].split("/")[-1])
    engines.setdefault(eng, {"name": eng, "path": c.get("path", "harness/"), "serves_properties": [], "kind_free_text": c.get("engine_kind", "go test binary built from /repo + overlay harness")})
    engines[eng]["serves_properties"].append(cid)
    entry = {
        "property_id": cid,
        "quick_cmd": "./vcheck %s --tier quick" % cid,
        "thorough_cmd": "./vcheck %s --tier thorough" % cid,
        "evidence_file": "/verif/evidence/%s.json" % cid,
        "replay_cmd_template": "./vcheck %s --replay {path}" % cid,
        "engine": eng,
        "level_claimed": {"category": c.get("level", "exploration"), "text": c.get("level_text", c.get("rule", "")), "design_ref": "DESIGN.md §4 " + cid},
        "level_note": c.get("level_note", "; ".join(c.get("assumptions", [])) or "trusted: harness oracle and Go runtime"),
        "technique": c.get("technique", "runtime monitoring: differential oracle over generated workloads"),
    }
    m["checks"].append(entry)
m["engines"] = list(engines.values())
for p in props:
    if p["id"] not in checks or p["id"] not in registered:
        why = "check not built yet (in progress; the property is within reach of runtime monitoring, see DESIGN.md §4)"
        if p["id"] in checks:
            why = "a check exists (./vcheck %s) but is not claimed yet: it has not been confirmed silent on the unchanged tree over the required seeds / its alarms are still being triaged" % p["id"]
        m["not_applicable"].append({"property_id": p["id"], "reason": na.get(p["id"], why)})
json.dump(m, open(os.path.join(V, "MANIFEST.json"), "w"), indent=1)
print("MANIFEST.json: %d checks, %d not_applicable" % (len(m["checks"]), len(m["not_applicable"])))
