#!/bin/bash
# usage: tools/mkmutant.sh <name> <file> <sed-expr> [<file> <sed-expr> ...] — writes /verif/mutants/<name>.diff
set -eu
N=$1; shift
W=/tmp/verif-mk-$$
git -C /repo worktree add --detach -q "$W" HEAD
trap 'git -C /repo worktree remove --force "$W" >/dev/null 2>&1; rm -rf "$W"' EXIT
while [ $# -gt 0 ]; do sed -i -E "$2" "$W/$1"; shift 2; done
git -C "$W" diff > /verif/mutants/$N.diff
if [ ! -s /verif/mutants/$N.diff ]; then echo "EMPTY mutant $N"; rm /verif/mutants/$N.diff; exit 1; fi
(cd "$W" && GOFLAGS=-mod=mod GOPROXY=off GOTOOLCHAIN=local /root/go/pkg/mod/golang.org/toolchain@v0.0.1-go1.25.9.linux-amd64/bin/go build ./... ) || { echo "DOES NOT COMPILE $N"; exit 1; }
echo "ok $N: $(grep -c '^[-+][^-+]' /verif/mutants/$N.diff) changed lines"
