#!/bin/bash
# usage: tools/seedconfirm.sh <seed dir> [check ids...]
#   <seed dir> holds patch.diff, demo *_test.go / *.go files and RUN.md (from a seeding sub-agent, or /verif/seeded/<id>/).
# Confirms on a scratch worktree of /repo HEAD: patch applies and compiles; demo passes without it and fails with it;
# the touched package's own tests still pass with it. Then runs the given checks against the patched tree
# (VERIF_REPO=<scratch>) and prints one line per check. The worktree is removed at the end.
set -u
D=$(realpath "$1"); shift
export GOFLAGS=-mod=mod GOPROXY=off GOSUMDB=off GOTOOLCHAIN=local
GO=/root/go/pkg/mod/golang.org/toolchain@v0.0.1-go1.25.9.linux-amd64/bin/go
W=/tmp/seedchk-$$
git -C /repo worktree add --detach -q "$W" HEAD || exit 3
trap 'git -C /repo worktree remove --force "$W" >/dev/null 2>&1; rm -rf "$W"' EXIT
# where the demo goes and how it is run: meta.json may say (demo_dir, demo_run), else RUN.md is parsed
PKG=$(jq -r '.demo_dir // empty' "$D/meta.json" 2>/dev/null)
RUN=$(jq -r '.demo_run // empty' "$D/meta.json" 2>/dev/null)
if [ -z "$PKG" ]; then
  PKG=$(grep -m1 -E '^\s*cp .*_test\.go' "$D/RUN.md" | sed 's/[[:space:]]#.*$//' | awk '{print $NF}' | sed 's#^/tmp/seed2\?-[A-Z0-9]*/##; s#/$##')
fi
if [ -z "$RUN" ]; then
  RUN=$(grep -m1 -oE -- "-run[ =]'?[^' ]+" "$D/RUN.md" | sed -E "s/-run[ =]'?//")
fi
case "$PKG" in *.go) PKG=$(dirname "$PKG");; esac
[ -z "$PKG" ] && { echo "SEED $D: cannot find demo dir"; exit 3; }
[ -z "$RUN" ] && RUN=.
echo "SEED $(basename $(dirname $D))/$(basename $D): demo dir=$PKG run=$RUN"
demos=$(ls "$D"/*_test.go 2>/dev/null)
mkdir -p "$W/$PKG"; cp $demos "$W/$PKG/" || exit 3
( cd "$W" && $GO test -vet=off -count=1 -run "$RUN" "./$PKG/" >"$W/.demo0.log" 2>&1 ); r0=$?
if ! git -C "$W" apply "$D/patch.diff"; then echo "  PATCH-DOES-NOT-APPLY"; exit 3; fi
( cd "$W" && $GO build ./... >"$W/.build.log" 2>&1 ) || { echo "  DOES-NOT-COMPILE"; tail -5 "$W/.build.log"; exit 3; }
( cd "$W" && $GO test -vet=off -count=1 -run "$RUN" "./$PKG/" >"$W/.demo1.log" 2>&1 ); r1=$?
for f in $demos; do rm -f "$W/$PKG/$(basename $f)"; done
pk=$(git -C "$W" diff --name-only | xargs -n1 dirname | sort -u | sed 's#^#./#' | tr '\n' ' ')
( cd "$W" && $GO test -vet=off -count=1 $pk >"$W/.pkg.log" 2>&1 ); r2=$?
echo "  demo without patch: $([ $r0 = 0 ] && echo PASS || echo FAIL)   demo with patch: $([ $r1 = 0 ] && echo PASS || echo FAIL)   own tests of [$pk] with patch: $([ $r2 = 0 ] && echo PASS || echo FAIL)"
[ $r0 = 0 ] || tail -5 "$W/.demo0.log"
[ $r2 = 0 ] || grep -E "^(--- FAIL|FAIL)" "$W/.pkg.log" | head
ok=1; [ $r0 = 0 ] && [ $r1 != 0 ] && [ $r2 = 0 ] || ok=0
echo "  CONFIRMED=$ok"
for id in "$@"; do
  out=$(cd /verif && VERIF_REPO="$W" ./vcheck "$id" --tier ${VERIF_TIER:-quick} 2>&1); rc=$?
  sig=$(echo "$out" | grep -m3 "signature:" | sed 's/^ *//' | tr '\n' ';')
  echo "  CHECK $id exit=$rc $( [ $rc = 1 ] && echo DETECTED || ([ $rc = 0 ] && echo MISSED || echo BROKEN) ) $sig"
  [ $rc = 2 ] && echo "$out" | tail -8
done
exit 0
