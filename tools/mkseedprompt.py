#!/usr/bin/env python3
"""mkseedprompt.py <ID> [N] -> prints the seeder prompt for one property (property text only, nothing from /verif)."""
import json, sys, os
pid = sys.argv[1]; n = sys.argv[2] if len(sys.argv) > 2 else "2"
here = os.path.dirname(os.path.abspath(__file__))
prop = None
for line in open(os.path.join(here, "..", "properties.jsonl")):
    p = json.loads(line)
    if p["id"] == pid:
        prop = p
text = "**%s — %s**\n\nStatement: %s\n\nQuantified over: %s\n\nWhy example-based tests cannot settle it: %s\n\nWhere the mechanism lives: files %s; mechanisms: %s" % (
    prop["id"], prop["title"], prop["statement"], prop["quantifier"]["text"], prop.get("why_tests_cant", ""),
    ", ".join(prop["anchors"].get("files", [])),
    "; ".join("%s (%s)" % (m["name"], m["where"]) for m in prop["anchors"].get("mechanism", [])))
t = open(os.path.join(here, "seeder_template.md")).read()
print(t.replace("@PROPERTY@", text).replace("@WT@", "/tmp/seed-" + pid).replace("@OUT@", "/tmp/seedout/" + pid).replace("@ID@", pid).replace("@N@", n))
