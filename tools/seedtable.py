#!/usr/bin/env python3
"""Prints the markdown table of /verif/seeded (for DESIGN.md §8.1) from the meta.json files."""
import json, os, glob
V = os.path.dirname(os.path.dirname(os.path.abspath(__file__)))
print("| seeded change | needs in order to manifest | result |")
print("|---|---|---|")
for d in sorted(glob.glob(os.path.join(V, "seeded", "*"))):
    m = json.load(open(os.path.join(d, "meta.json")))
    needs = " ".join(str(m.get("needs_to_manifest", "")).split())
    if len(needs) > 230:
        needs = needs[:227] + "…"
    res = []
    for k, v in sorted(m.get("checks", {}).items()):
        v = " ".join(str(v).split())
        if len(v) > 200:
            v = v[:197] + "…"
        res.append("%s: %s" % (k, v))
    print("| %s | %s | %s |" % (os.path.basename(d), needs.replace("|", "\\|"), "; ".join(res).replace("|", "\\|")))
