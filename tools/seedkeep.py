#!/usr/bin/env python3
"""seedkeep.py <src dir> <property> <slug> <json: {"checks": {"C01": "DETECTED ..."}, "ran": "..."}>
Copies a confirmed seeded change to /verif/seeded/<property>-<slug>/ (patch.diff, demonstration, RUN.md, meta.json)."""
import json, os, shutil, sys
src, prop, slug, extra = sys.argv[1], sys.argv[2], sys.argv[3], json.loads(sys.argv[4])
V = os.path.dirname(os.path.dirname(os.path.abspath(__file__)))
dst = os.path.join(V, "seeded", "%s-%s" % (prop, slug))
os.makedirs(dst, exist_ok=True)
for f in os.listdir(src):
    if f.endswith(".log"):
        continue
    shutil.copy(os.path.join(src, f), os.path.join(dst, f))
mp = os.path.join(dst, "meta.json")
m = json.load(open(mp)) if os.path.exists(mp) else {}
m["property"] = prop
m.setdefault("needs_to_manifest", "")
m["origin"] = "independent sub-agent given only the property text and a scratch worktree (tools/seeder_template.md)"
m["lead_confirmation"] = extra.get("ran", "tools/seedconfirm.sh on a scratch worktree of /repo HEAD: patch applies and compiles, demonstration passes without and fails with the patch, the touched package's own tests pass with the patch")
m["checks"] = extra.get("checks", {})
json.dump(m, open(mp, "w"), indent=1, ensure_ascii=False)
print(dst)
