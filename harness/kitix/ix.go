// Package ix (overlaid as internal/verifkit/ix) turns the corpus model into real
// shards on disk through zoekt's production writer and opens them through the
// production mmap loader.
package ix

import (
	"context"
	"fmt"
	"net/url"
	"os"
	"path/filepath"
	"sort"
	"strings"

	"github.com/sourcegraph/zoekt"
	"github.com/sourcegraph/zoekt/index"
	kit "github.com/sourcegraph/zoekt/internal/verifkit"
	"github.com/sourcegraph/zoekt/query"
)

func ZRepo(r *kit.Repo) *zoekt.Repository {
	z := &zoekt.Repository{
		TenantID:             r.TenantID,
		ID:                   r.ID,
		Name:                 r.Name,
		URL:                  "http://" + r.Name,
		Source:               "/src/" + r.Name,
		Rank:                 r.Rank,
		FileURLTemplate:      r.FileURL,
		LineFragmentTemplate: r.LineFrag,
		CommitURLTemplate:    "http://" + r.Name + "/commit/{{.Version}}",
		Tombstone:            r.Tombstone,
	}
	for _, b := range r.Branches {
		z.Branches = append(z.Branches, zoekt.RepositoryBranch{Name: b.Name, Version: b.Version})
	}
	if r.RawConfig != nil {
		z.RawConfig = map[string]string{}
		for k, v := range r.RawConfig {
			z.RawConfig[k] = v
		}
	}
	if r.Metadata != nil {
		z.Metadata = map[string]string{}
		for k, v := range r.Metadata {
			z.Metadata[k] = v
		}
	}
	if len(r.SubRepos) > 0 {
		z.SubRepoMap = map[string]*zoekt.Repository{}
		for p, n := range r.SubRepos {
			sub := &zoekt.Repository{Name: n, URL: "http://" + n, FileURLTemplate: "http://" + n + "/{{.Path}}", LineFragmentTemplate: "#l{{.LineNumber}}"}
			for _, b := range r.Branches {
				sub.Branches = append(sub.Branches, zoekt.RepositoryBranch{Name: b.Name, Version: "sub" + b.Version[3:]})
			}
			z.SubRepoMap[p] = sub
		}
	}
	if len(r.FileTomb) > 0 {
		z.FileTombstones = map[string]struct{}{}
		for k := range r.FileTomb {
			z.FileTombstones[k] = struct{}{}
		}
	}
	return z
}

var skipReasons = map[string]index.SkipReason{
	"toolarge": index.SkipReasonTooLarge,
	"toosmall": index.SkipReasonTooSmall,
	"binary":   index.SkipReasonBinary,
	"trigrams": index.SkipReasonTooManyTrigrams,
	"missing":  index.SkipReasonMissing,
}

var SkipExplanation = map[string]string{
	"toolarge": "NOT-INDEXED: exceeds the maximum size limit",
	"toosmall": "NOT-INDEXED: contains too few trigrams",
	"binary":   "NOT-INDEXED: contains binary content",
	"trigrams": "NOT-INDEXED: contains too many trigrams",
	"missing":  "NOT-INDEXED: object missing from repository",
}

func ZDoc(d *kit.Doc) index.Document {
	z := index.Document{
		Name:              d.Name,
		Content:           []byte(d.Content),
		Branches:          append([]string(nil), d.Branches...),
		SubRepositoryPath: d.SubRepo,
		Language:          d.Language,
	}
	if d.Skip != "" {
		z.SkipReason = skipReasons[d.Skip]
	}
	for _, s := range d.Symbols {
		z.Symbols = append(z.Symbols, index.DocumentSection{Start: uint32(s.Start), End: uint32(s.End)})
		z.SymbolsMetaData = append(z.SymbolsMetaData, &zoekt.Symbol{Kind: s.Kind, Parent: s.Parent, ParentKind: s.ParentKind})
	}
	return z
}

// MarkSkips turns some documents of c into skipped ones (model side).
func MarkSkips(g *kit.Gen, c *kit.Corpus) {
	for _, r := range c.Repos {
		for _, d := range r.Docs {
			if g.R.IntN(10) == 0 {
				ks := []string{"toolarge", "toosmall", "binary", "trigrams"}
				d.Skip = ks[g.R.IntN(len(ks))]
				d.Marker = SkipExplanation[d.Skip]
			}
		}
	}
}

func ShardName(dir, repo string, version, n int) string {
	return filepath.Join(dir, fmt.Sprintf("%s_v%d.%05d.zoekt", url.QueryEscape(repo), version, n))
}

// WriteBuilder writes b to path through a temp file + rename.
func WriteBuilder(b *index.ShardBuilder, path string) error {
	f, err := os.Create(path + ".tmp")
	if err != nil {
		return err
	}
	if err := b.Write(f); err != nil {
		f.Close()
		return err
	}
	if err := f.Close(); err != nil {
		return err
	}
	return os.Rename(path+".tmp", path)
}

// NewShardBuilder makes a ShardBuilder holding all documents of r.
func NewShardBuilder(r *kit.Repo) (*index.ShardBuilder, error) {
	b, err := index.NewShardBuilder(ZRepo(r))
	if err != nil {
		return nil, err
	}
	for _, d := range r.Docs {
		if err := b.Add(ZDoc(d)); err != nil {
			return nil, fmt.Errorf("add %q: %w", d.Name, err)
		}
	}
	return b, nil
}

// BuildSimple writes one simple shard for r and returns its path.
func BuildSimple(dir string, r *kit.Repo) (string, error) {
	b, err := NewShardBuilder(r)
	if err != nil {
		return "", err
	}
	p := ShardName(dir, r.Name, index.IndexFormatVersion, 0)
	if _, err := os.Stat(p); err == nil {
		// a repository of the same name (another tenant) already has this file name:
		// name the shard by id, as multi-tenant zoekt does
		for n := 0; ; n++ {
			p = ShardName(dir, fmt.Sprintf("%s_id%d_t%d_%d", r.Name, r.ID, r.TenantID, n), index.IndexFormatVersion, 0)
			if _, err := os.Stat(p); err != nil {
				break
			}
		}
	}
	return p, WriteBuilder(b, p)
}

// OpenFile opens a shard through the production mmap path.
func OpenFile(path string) (index.IndexFile, error) {
	f, err := os.Open(path)
	if err != nil {
		return nil, err
	}
	return index.NewIndexFile(f)
}

// Open returns a single-shard searcher for path.
func Open(path string) (zoekt.Searcher, error) {
	f, err := OpenFile(path)
	if err != nil {
		return nil, err
	}
	s, err := index.NewSearcher(f)
	if err != nil {
		f.Close()
		return nil, err
	}
	return s, nil
}

// BuildCompound builds simple shards for repos in a scratch dir, merges them into
// one compound shard in dir and returns its path. Repositories marked Tombstone in
// the model are tombstoned *after* merging through the sidecar (merging drops
// tombstoned repositories).
func BuildCompound(dir string, repos []*kit.Repo) (string, error) {
	tmp, err := os.MkdirTemp(dir, "simple-*")
	if err != nil {
		return "", err
	}
	defer os.RemoveAll(tmp)
	var files []index.IndexFile
	defer func() {
		for _, f := range files {
			f.Close()
		}
	}()
	for _, r := range repos {
		rr := *r
		rr.Tombstone = false
		p, err := BuildSimple(tmp, &rr)
		if err != nil {
			return "", err
		}
		f, err := OpenFile(p)
		if err != nil {
			return "", err
		}
		files = append(files, f)
	}
	tmpName, dstName, err := index.Merge(dir, files...)
	if err != nil {
		return "", err
	}
	if err := os.Rename(tmpName, dstName); err != nil {
		return "", err
	}
	for _, r := range repos {
		if r.Tombstone {
			if err := index.SetTombstone(dstName, r.ID); err != nil {
				return "", err
			}
		}
	}
	return dstName, nil
}

// Layout says how a corpus is spread over shards.
type Layout struct {
	// Groups: each group is a list of repo indices; a group of one is written as a
	// simple shard, larger groups as one compound shard.
	Groups [][]int
}

// RandomLayout partitions the repositories of c.
func RandomLayout(g *kit.Gen, c *kit.Corpus) Layout {
	var l Layout
	idx := g.R.Perm(len(c.Repos))
	for len(idx) > 0 {
		n := 1
		if g.R.IntN(2) == 0 {
			n = 1 + g.R.IntN(len(idx))
		}
		l.Groups = append(l.Groups, idx[:n])
		idx = idx[n:]
	}
	return l
}

// BuildLayout writes c into dir according to l and returns the shard paths.
func BuildLayout(dir string, c *kit.Corpus, l Layout) ([]string, error) {
	var paths []string
	for _, grp := range l.Groups {
		if len(grp) == 1 {
			p, err := BuildSimple(dir, c.Repos[grp[0]])
			if err != nil {
				return nil, err
			}
			paths = append(paths, p)
			continue
		}
		var rs []*kit.Repo
		for _, i := range grp {
			rs = append(rs, c.Repos[i])
		}
		p, err := BuildCompound(dir, rs)
		if err != nil {
			return nil, err
		}
		paths = append(paths, p)
	}
	return paths, nil
}

// ---------------------------------------------------------------------------
// Normaliser

// NFile is the order/score independent view of a FileMatch.
type NFile struct {
	Repo, Name string
	Content    string // only when Whole was requested
	Branches   []string
	Ranges     []kit.IV // content ranges (byte offsets)
	NameRanges []kit.IV
	Language   string
	SubRepo    string
	SubPath    string
	Version    string
}

func (f *NFile) Key() string { return kit.DocKey(f.Repo, f.Name, f.Content) }

// Normalise extracts files with their ranges from either result mode.
func Normalise(sr *zoekt.SearchResult) []NFile {
	var out []NFile
	for i := range sr.Files {
		out = append(out, NormFile(&sr.Files[i]))
	}
	sort.SliceStable(out, func(i, j int) bool {
		if out[i].Repo != out[j].Repo {
			return out[i].Repo < out[j].Repo
		}
		if out[i].Name != out[j].Name {
			return out[i].Name < out[j].Name
		}
		return out[i].Content < out[j].Content
	})
	return out
}

func NormFile(f *zoekt.FileMatch) NFile {
	n := NFile{Repo: f.Repository, Name: f.FileName, Content: string(f.Content), Branches: append([]string(nil), f.Branches...),
		Language: f.Language, SubRepo: f.SubRepositoryName, SubPath: f.SubRepositoryPath, Version: f.Version}
	for _, lm := range f.LineMatches {
		for _, lf := range lm.LineFragments {
			iv := kit.IV{S: int(lf.Offset), E: int(lf.Offset) + lf.MatchLength}
			if lm.FileName {
				n.NameRanges = append(n.NameRanges, iv)
			} else {
				n.Ranges = append(n.Ranges, iv)
			}
		}
	}
	for _, cm := range f.ChunkMatches {
		for _, r := range cm.Ranges {
			iv := kit.IV{S: int(r.Start.ByteOffset), E: int(r.End.ByteOffset)}
			if cm.FileName {
				n.NameRanges = append(n.NameRanges, iv)
			} else {
				n.Ranges = append(n.Ranges, iv)
			}
		}
	}
	sortIV(n.Ranges)
	sortIV(n.NameRanges)
	return n
}

func sortIV(l []kit.IV) {
	sort.Slice(l, func(i, j int) bool {
		if l[i].S != l[j].S {
			return l[i].S < l[j].S
		}
		return l[i].E < l[j].E
	})
}

// FileSet is the multiset of (repo,name,content) keys of a result.
func FileSet(sr *zoekt.SearchResult) map[string]int {
	out := map[string]int{}
	for i := range sr.Files {
		f := &sr.Files[i]
		out[kit.DocKey(f.Repository, f.FileName, string(f.Content))]++
	}
	return out
}

// DiffSets describes the difference of two multisets ("" when equal).
func DiffSets(want, got map[string]int) string {
	var miss, extra []string
	for k, n := range want {
		if got[k] < n {
			miss = append(miss, short(k))
		}
	}
	for k, n := range got {
		if want[k] < n {
			extra = append(extra, short(k))
		}
	}
	if len(miss) == 0 && len(extra) == 0 {
		return ""
	}
	sort.Strings(miss)
	sort.Strings(extra)
	return fmt.Sprintf("missing=%q extra=%q", miss, extra)
}

func short(k string) string {
	p := strings.SplitN(k, "\x00", 3)
	c := p[2]
	if len(c) > 40 {
		c = c[:40] + "…"
	}
	return p[0] + ":" + p[1] + ":" + c
}

// SearchAll runs q with Whole content and no limits.
func SearchAll(s zoekt.Searcher, q query.Q, opts *zoekt.SearchOptions) (*zoekt.SearchResult, error) {
	o := zoekt.SearchOptions{Whole: true}
	if opts != nil {
		o = *opts
		o.Whole = true
	}
	return s.Search(context.Background(), q, &o)
}

// Dump renders a corpus compactly for witnesses.
func Dump(c *kit.Corpus) any {
	type dd struct {
		Name, Content string
		Branches      []string
		Lang, Skip    string
		Syms          []kit.Sym `json:",omitempty"`
		Sub           string    `json:",omitempty"`
	}
	type rr struct {
		Name     string
		ID       uint32
		Tenant   int `json:",omitempty"`
		Branches []string
		Raw      map[string]string `json:",omitempty"`
		Meta     map[string]string `json:",omitempty"`
		Tomb     bool              `json:",omitempty"`
		FileTomb []string          `json:",omitempty"`
		Docs     []dd
	}
	var out []rr
	for _, r := range c.Repos {
		x := rr{Name: r.Name, ID: r.ID, Tenant: r.TenantID, Branches: r.BranchNames(), Raw: r.RawConfig, Meta: r.Metadata, Tomb: r.Tombstone}
		for k := range r.FileTomb {
			x.FileTomb = append(x.FileTomb, k)
		}
		for _, d := range r.Docs {
			x.Docs = append(x.Docs, dd{d.Name, d.Content, d.Branches, d.Language, d.Skip, d.Symbols, d.SubRepo})
		}
		out = append(out, x)
	}
	return out
}

// BuilderOpts selects how index.Builder is driven.
type BuilderOpts struct {
	ShardMax    int
	Parallelism int
	SizeMax     int
	TrigramMax  int
	Order       []int // permutation of document indices (nil = model order)
	LargeFiles  []string
}

// BuildWithBuilder indexes r through the production index.Builder (skip decisions,
// sharding, buffer pools, Finish) and returns the shard paths it produced.
func BuildWithBuilder(dir string, r *kit.Repo, o BuilderOpts) ([]string, error) {
	opts := index.Options{
		IndexDir:              dir,
		RepositoryDescription: *ZRepo(r),
		DisableCTags:          true,
		ShardMax:              o.ShardMax,
		Parallelism:           o.Parallelism,
		SizeMax:               o.SizeMax,
		TrigramMax:            o.TrigramMax,
		LargeFiles:            o.LargeFiles,
	}
	if len(r.SubRepos) > 0 {
		opts.SubRepositories = opts.RepositoryDescription.SubRepoMap
	}
	b, err := index.NewBuilder(opts)
	if err != nil {
		return nil, err
	}
	order := o.Order
	if order == nil {
		for i := range r.Docs {
			order = append(order, i)
		}
	}
	for _, i := range order {
		d := ZDoc(r.Docs[i])
		if err := b.Add(d); err != nil {
			b.Finish()
			return nil, fmt.Errorf("add %q: %w", d.Name, err)
		}
	}
	if err := b.Finish(); err != nil {
		return nil, err
	}
	paths := opts.FindAllShards()
	sort.Strings(paths)
	return paths, nil
}
