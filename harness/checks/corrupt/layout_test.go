// Package corrupt holds C11: corrupt shard files never crash the searcher.
package corrupt

import (
	"encoding/binary"
	"fmt"
	"sort"
)

// layout_test.go: an independent reader of the shard file layout (trailer, tagged table
// of contents, compound index tables). It is used only to aim corruptions at the
// structural regions; it never decides a verdict.
//
//	[section data ...][TOC: u32 0, {varint taglen, tag, varint kind, off/sz pairs}...][u32 tocOff, u32 tocSz]

type span struct{ Off, Sz int }

func (s span) end() int { return s.Off + s.Sz }

// u32 fields of the file that hold a file offset or a size.
type u32Field struct {
	Name string // e.g. "toc/postings/index.off", "trailer/off", "idx/fileNames[3]"
	Pos  int    // position of the big-endian u32 in the file
	Val  uint32
	IsSz bool
}

type tocEntry struct {
	Tag    string
	Kind   int  // 0 simple, 1 compound, 2 lazy compound
	TagPos int  // position of the tag-length varint
	Data   span // simple: the section; compound: the item data
	Index  span // compound only: table of u32 item offsets
	// positions of the off/sz fields inside the TOC
	DataPos, IndexPos int
	Items             []span // compound: the items (from the index table)
}

type layout struct {
	Size    int
	TOC     span // the table of contents proper
	Trailer span // last 8 bytes
	Entries []tocEntry
	Fields  []u32Field // every offset/size field of TOC, trailer and index tables
}

func be32(b []byte, p int) uint32 { return binary.BigEndian.Uint32(b[p : p+4]) }

func parseLayout(b []byte) (*layout, error) {
	if len(b) < 12 {
		return nil, fmt.Errorf("short file")
	}
	l := &layout{Size: len(b), Trailer: span{len(b) - 8, 8}}
	tocOff, tocSz := int(be32(b, len(b)-8)), int(be32(b, len(b)-4))
	if tocOff+tocSz != len(b)-8 || tocOff < 0 {
		return nil, fmt.Errorf("trailer does not point at a TOC ending in front of it: off %d sz %d size %d", tocOff, tocSz, len(b))
	}
	l.TOC = span{tocOff, tocSz}
	l.Fields = append(l.Fields, u32Field{"trailer/off", len(b) - 8, uint32(tocOff), false}, u32Field{"trailer/sz", len(b) - 4, uint32(tocSz), true})
	p := tocOff
	if be32(b, p) != 0 {
		return nil, fmt.Errorf("untagged TOC (section count %d)", be32(b, p))
	}
	l.Fields = append(l.Fields, u32Field{"toc/sectionCount", p, 0, true})
	p += 4
	end := tocOff + tocSz
	for p < end {
		e := tocEntry{TagPos: p}
		n, m := binary.Uvarint(b[p:end])
		if m <= 0 || p+m+int(n) > end {
			return nil, fmt.Errorf("bad tag at %d", p)
		}
		e.Tag = string(b[p+m : p+m+int(n)])
		p += m + int(n)
		k, m := binary.Uvarint(b[p:end])
		if m <= 0 {
			return nil, fmt.Errorf("bad kind at %d", p)
		}
		e.Kind = int(k)
		p += m
		rd := func(what string) (span, int) {
			pos := p
			s := span{int(be32(b, p)), int(be32(b, p+4))}
			l.Fields = append(l.Fields, u32Field{"toc/" + e.Tag + "/" + what + ".off", p, uint32(s.Off), false}, u32Field{"toc/" + e.Tag + "/" + what + ".sz", p + 4, uint32(s.Sz), true})
			p += 8
			return s, pos
		}
		switch e.Kind {
		case 0:
			e.Data, e.DataPos = rd("data")
		case 1, 2:
			e.Data, e.DataPos = rd("data")
			e.Index, e.IndexPos = rd("index")
			if e.Index.end() > len(b) || e.Index.Sz%4 != 0 {
				return nil, fmt.Errorf("bad index table of %s", e.Tag)
			}
			var offs []int
			for i := 0; i < e.Index.Sz/4; i++ {
				pos := e.Index.Off + 4*i
				v := be32(b, pos)
				offs = append(offs, int(v))
				l.Fields = append(l.Fields, u32Field{fmt.Sprintf("idx/%s[%d]", e.Tag, i), pos, v, false})
			}
			for i, o := range offs {
				nx := e.Data.end()
				if i+1 < len(offs) {
					nx = offs[i+1]
				}
				e.Items = append(e.Items, span{o, nx - o})
			}
		default:
			return nil, fmt.Errorf("section kind %d", e.Kind)
		}
		if e.Data.end() > len(b) {
			return nil, fmt.Errorf("section %s out of file", e.Tag)
		}
		l.Entries = append(l.Entries, e)
	}
	return l, nil
}

func (l *layout) entry(tag string) *tocEntry {
	for i := range l.Entries {
		if l.Entries[i].Tag == tag {
			return &l.Entries[i]
		}
	}
	return nil
}

// structural returns the byte ranges in which every single bit is flipped: TOC and
// trailer, the index tables of the compound sections ("section tables") and the two
// JSON metadata sections. The ranges are sorted and disjoint.
func (l *layout) structural() []span {
	rs := []span{{l.TOC.Off, l.TOC.Sz + 8}}
	for _, e := range l.Entries {
		if e.Kind != 0 && e.Index.Sz > 0 {
			rs = append(rs, e.Index)
		}
		if (e.Tag == "metaData" || e.Tag == "repoMetaData") && e.Data.Sz > 0 {
			rs = append(rs, e.Data)
		}
	}
	sort.Slice(rs, func(i, j int) bool { return rs[i].Off < rs[j].Off })
	return rs
}

func inSpans(rs []span, p int) bool {
	for _, r := range rs {
		if p >= r.Off && p < r.end() {
			return true
		}
	}
	return false
}

// varintRegions lists the byte ranges that the reader decodes as a length-prefixed
// ("sized") delta list: a count varint followed by delta varints.
func (l *layout) sizedRegions() []struct {
	Name string
	R    span
} {
	var out []struct {
		Name string
		R    span
	}
	add := func(n string, r span) {
		if r.Sz > 0 {
			out = append(out, struct {
				Name string
				R    span
			}{n, r})
		}
	}
	for _, tag := range []string{"runeOffsets", "nameRuneOffsets", "fileEndRunes", "nameEndRunes", "subRepos", "runeDocSections", "repos"} {
		if e := l.entry(tag); e != nil {
			add(tag, e.Data)
		}
	}
	for _, tag := range []string{"newlines", "fileSections"} {
		if e := l.entry(tag); e != nil {
			for i, it := range e.Items {
				add(fmt.Sprintf("%s[%d]", tag, i), it)
			}
		}
	}
	return out
}

// resize returns orig with the bytes [p, p+del) replaced by ins and every offset and
// size field of the file that the edit moves patched, so that the file stays
// well-formed around the edit.
func (l *layout) resize(orig []byte, p, del int, ins []byte) []byte {
	delta := len(ins) - del
	out := make([]byte, 0, len(orig)+delta)
	out = append(out, orig[:p]...)
	out = append(out, ins...)
	out = append(out, orig[p+del:]...)
	if delta == 0 {
		return out
	}
	np := func(pos int) int { // new position of an old position behind the edit
		if pos >= p+del {
			return pos + delta
		}
		return pos
	}
	put := func(pos int, v uint32) { binary.BigEndian.PutUint32(out[np(pos):], v) }
	for _, e := range l.Entries {
		fix := func(s span, pos int) {
			if s.Off > p {
				put(pos, uint32(s.Off+delta))
			} else if s.Off <= p && p < s.end() {
				put(pos+4, uint32(s.Sz+delta))
			}
		}
		fix(e.Data, e.DataPos)
		if e.Kind != 0 {
			fix(e.Index, e.IndexPos)
			for i, it := range e.Items {
				if it.Off > p {
					put(e.Index.Off+4*i, uint32(it.Off+delta))
				}
			}
		}
	}
	if l.TOC.Off > p {
		put(l.Trailer.Off, uint32(l.TOC.Off+delta))
	} else {
		put(l.Trailer.Off+4, uint32(l.TOC.Sz+delta))
	}
	return out
}
