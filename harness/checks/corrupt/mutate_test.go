package corrupt

import (
	"bytes"
	"encoding/binary"
	"fmt"
	"math/rand/v2"
	"sort"
	"strings"
)

// mutate_test.go: the corruptions. The list of one subject shard is a pure function
// of (shard bytes, seed, tier); children regenerate it and run a slice of it.

type edit struct {
	Off, Del int
	Ins      []byte
}

type mutation struct {
	ID    string // "<kind>/<detail>", unique within the subject
	Kind  string
	Trunc int    // >= 0: the file is cut to this length (after the edits)
	Edits []edit // applied to the original bytes; disjoint
	Whole []byte // non-nil: the whole file content (Edits/Trunc ignored)
	Meta  []byte // non-nil: content of the sidecar <shard>.meta
	// HasMeta distinguishes an empty sidecar from no sidecar
	HasMeta bool
}

func (m *mutation) apply(orig []byte) []byte {
	if m.Whole != nil {
		return m.Whole
	}
	out := orig
	if len(m.Edits) > 0 {
		es := append([]edit(nil), m.Edits...)
		sort.Slice(es, func(i, j int) bool { return es[i].Off < es[j].Off })
		var b bytes.Buffer
		p := 0
		for _, e := range es {
			b.Write(orig[p:e.Off])
			b.Write(e.Ins)
			p = e.Off + e.Del
		}
		b.Write(orig[p:])
		out = b.Bytes()
	}
	if m.Trunc >= 0 && m.Trunc < len(out) {
		out = out[:m.Trunc]
	}
	return out
}

func uvar(v uint64) []byte {
	var b [binary.MaxVarintLen64]byte
	return append([]byte(nil), b[:binary.PutUvarint(b[:], v)]...)
}

func u32b(v uint32) []byte {
	var b [4]byte
	binary.BigEndian.PutUint32(b[:], v)
	return b[:]
}

type subjectSpec struct {
	Name    string
	Bytes   []byte
	Meta    []byte // valid sidecar content for the meta corruptions (nil: none)
	Lay     *layout
	Level   int    // 0: full enumeration, 1: reduced (thorough tier's many shards), 2: light
	Stream  uint64 // random stream of this subject
	Compact bool
}

type enumOpts struct {
	truncEvery  int // 1: every truncation length
	flipStruct  int // every n-th bit of the structural regions (1 = all)
	flipElse    int // bits per byte elsewhere: one bit of every flipElse-th byte... see below
	splices     int
	swaps       int
	idxPerTable int
	metaFlip    int  // every n-th bit of the sidecar
	metaTrunc   int  // every n-th truncation length of the sidecar
	light       bool // fewer hostile values per field / length prefix
	lenEvery    int  // every n-th length-prefixed region / TOC entry gets the length corruptions
}

// enumerate lists the corruptions of one subject.
func enumerate(s *subjectSpec, seed uint64, o enumOpts, r *rand.Rand) []mutation {
	orig, l := s.Bytes, s.Lay
	var out []mutation
	add := func(m mutation) { out = append(out, m) }
	none := -1

	// 1. truncations: every length 0..size-1 (0 = the zero-length file)
	for n := 0; n < len(orig); n += o.truncEvery {
		add(mutation{ID: fmt.Sprintf("trunc/%d", n), Kind: "trunc", Trunc: n})
	}
	// the lengths around the structural boundaries are always present
	if o.truncEvery > 1 {
		seen := map[int]bool{}
		for _, e := range l.Entries {
			for _, p := range []int{e.Data.Off, e.Data.end(), e.Index.Off, e.Index.end()} {
				for d := -1; d <= 1; d++ {
					n := p + d
					if n >= 0 && n < len(orig) && n%o.truncEvery != 0 && !seen[n] {
						seen[n] = true
						add(mutation{ID: fmt.Sprintf("trunc/%d", n), Kind: "trunc", Trunc: n})
					}
				}
			}
		}
		for n := max(0, len(orig)-16); n < len(orig); n++ {
			if n%o.truncEvery != 0 && !seen[n] {
				add(mutation{ID: fmt.Sprintf("trunc/%d", n), Kind: "trunc", Trunc: n})
			}
		}
	}

	// 1b. page-aligned files whose trailer (the last 8 bytes: offset and size of the table
	// of contents) points just past the end of the file. The shard is mmapped in whole
	// pages, so reads are bounds-checked against a length rounded to the page size: a file
	// of exactly k pages has no slack page, and an offset into the page behind it must be
	// refused, not read (SIGBUS is not recoverable).
	for _, k := range []int{1, 2, 3} {
		n := k * 4096
		body := make([]byte, n)
		copy(body, orig)
		for _, off := range []int{n - 1, n, n + 1, n + 8, n + 4095, n + 4096} {
			for _, sz := range []int{8, 64, 4096} {
				w := append([]byte(nil), body...)
				copy(w[n-8:], append(u32b(uint32(off)), u32b(uint32(sz))...))
				add(mutation{ID: fmt.Sprintf("pagesize/%d/%d/%d", k, off-n, sz), Kind: "page-aligned", Trunc: none, Whole: w})
			}
		}
	}

	// 2. single bit flips: all bits of the structural regions, one bit in eight elsewhere
	st := l.structural()
	k := 0
	for p := 0; p < len(orig); p++ {
		if inSpans(st, p) {
			for bit := 0; bit < 8; bit++ {
				k++
				if k%o.flipStruct != 0 {
					continue
				}
				add(mutation{ID: fmt.Sprintf("flip/%d.%d", p, bit), Kind: "flip-structural", Trunc: none, Edits: []edit{{p, 1, []byte{orig[p] ^ (1 << bit)}}}})
			}
			continue
		}
		bit := r.IntN(8)
		if o.flipElse > 1 && r.IntN(o.flipElse) != 0 {
			continue
		}
		add(mutation{ID: fmt.Sprintf("flip/%d.%d", p, bit), Kind: "flip-data", Trunc: none, Edits: []edit{{p, 1, []byte{orig[p] ^ (1 << bit)}}}})
	}

	// 3. garbage splices of 1..16 bytes: overwrite, insert, delete
	for i := 0; i < o.splices; i++ {
		n := 1 + r.IntN(16)
		g := make([]byte, n)
		switch r.IntN(6) {
		case 0:
			for j := range g {
				g[j] = 0xff
			}
		case 1:
			for j := range g {
				g[j] = 0x80
			}
		case 2: // zeros
		default:
			for j := range g {
				g[j] = byte(r.IntN(256))
			}
		}
		p := r.IntN(len(orig))
		if r.IntN(3) == 0 { // aim at a structural region
			sp := st[r.IntN(len(st))]
			p = sp.Off + r.IntN(sp.Sz)
		}
		switch i % 3 {
		case 0:
			d := min(n, len(orig)-p)
			add(mutation{ID: fmt.Sprintf("splice/%d/overwrite@%d+%d", i, p, n), Kind: "splice-overwrite", Trunc: none, Edits: []edit{{p, d, g}}})
		case 1:
			add(mutation{ID: fmt.Sprintf("splice/%d/insert@%d+%d", i, p, n), Kind: "splice-insert", Trunc: none, Edits: []edit{{p, 0, g}}})
		default:
			d := min(n, len(orig)-p)
			add(mutation{ID: fmt.Sprintf("splice/%d/delete@%d+%d", i, p, d), Kind: "splice-delete", Trunc: none, Edits: []edit{{p, d, nil}}})
		}
	}
	// trailing garbage and pure garbage files
	for i, n := range []int{1, 7, 8, 9, 16, 4096} {
		g := make([]byte, n)
		for j := range g {
			g[j] = byte(r.IntN(256))
		}
		add(mutation{ID: fmt.Sprintf("extend/%d", n), Kind: "extend", Trunc: none, Edits: []edit{{len(orig), 0, g}}})
		if i < 4 {
			z := make([]byte, n)
			add(mutation{ID: fmt.Sprintf("extend-zero/%d", n), Kind: "extend", Trunc: none, Edits: []edit{{len(orig), 0, z}}})
		}
	}
	for _, n := range []int{1, 7, 8, 9, 12, 64, 4096, 4097, 70000} {
		g := make([]byte, n)
		for j := range g {
			g[j] = byte(r.IntN(256))
		}
		add(mutation{ID: fmt.Sprintf("garbage/%d", n), Kind: "garbage-file", Whole: g})
		add(mutation{ID: fmt.Sprintf("zeros/%d", n), Kind: "garbage-file", Whole: make([]byte, n)})
		ff := bytes.Repeat([]byte{0xff}, n)
		add(mutation{ID: fmt.Sprintf("ones/%d", n), Kind: "garbage-file", Whole: ff})
	}

	// 4. every offset / size field of TOC and trailer set to hostile values; a sample of
	// the index table entries likewise
	vals := func(f u32Field) []uint32 {
		v := []uint32{0, 1 << 31, 1<<32 - 1, uint32(len(orig)), uint32(len(orig)) - f.Val}
		if f.IsSz {
			v = append(v, f.Val+1, f.Val+4, f.Val+8, 1<<31-1, 1<<32-4, 1<<32-8)
			if f.Val > 0 {
				v = append(v, f.Val-1)
			}
		} else {
			v = append(v, f.Val+1, -f.Val)
			if f.Val > 0 {
				v = append(v, f.Val-1)
			}
		}
		if o.light {
			v = []uint32{0, 1<<32 - 1, f.Val + 1}
		}
		return v
	}
	perTable := map[string]int{}
	for _, f := range l.Fields {
		if strings.HasPrefix(f.Name, "idx/") {
			tag := f.Name[4:strings.IndexByte(f.Name, '[')]
			e := l.entry(tag)
			n := len(e.Items)
			i := perTable[tag]
			perTable[tag]++
			// first two, last two and a deterministic spread of the rest
			if !(i < 2 || i >= n-2 || (o.idxPerTable > 0 && i%max(1, n/o.idxPerTable) == 0)) {
				continue
			}
		}
		seenV := map[uint32]bool{f.Val: true}
		for _, v := range vals(f) {
			if seenV[v] {
				continue
			}
			seenV[v] = true
			add(mutation{ID: fmt.Sprintf("field/%s=%d", f.Name, v), Kind: "field", Trunc: none, Edits: []edit{{f.Pos, 4, u32b(v)}}})
		}
	}

	// 5. swapped section descriptors (off,sz pairs of the TOC)
	type desc struct {
		name string
		pos  int
	}
	var ds []desc
	for _, e := range l.Entries {
		ds = append(ds, desc{e.Tag + ".data", e.DataPos})
		if e.Kind != 0 {
			ds = append(ds, desc{e.Tag + ".index", e.IndexPos})
		}
	}
	type pair struct{ a, b int }
	var pairs []pair
	for i := range ds {
		for j := i + 1; j < len(ds); j++ {
			pairs = append(pairs, pair{i, j})
		}
	}
	r.Shuffle(len(pairs), func(i, j int) { pairs[i], pairs[j] = pairs[j], pairs[i] })
	if len(pairs) > o.swaps {
		pairs = pairs[:o.swaps]
	}
	for _, pr := range pairs {
		a, b := ds[pr.a], ds[pr.b]
		if bytes.Equal(orig[a.pos:a.pos+8], orig[b.pos:b.pos+8]) {
			continue
		}
		add(mutation{ID: fmt.Sprintf("swap/%s<->%s", a.name, b.name), Kind: "swap", Trunc: none, Edits: []edit{
			{a.pos, 8, append([]byte(nil), orig[b.pos:b.pos+8]...)}, {b.pos, 8, append([]byte(nil), orig[a.pos:a.pos+8]...)}}})
		// offsets only
		add(mutation{ID: fmt.Sprintf("swap-off/%s<->%s", a.name, b.name), Kind: "swap", Trunc: none, Edits: []edit{
			{a.pos, 4, append([]byte(nil), orig[b.pos:b.pos+4]...)}, {b.pos, 4, append([]byte(nil), orig[a.pos:a.pos+4]...)}}})
	}

	// 6. length prefixes / varints set to huge values
	huge := []uint64{1 << 31, 1<<32 - 1, 1 << 62, 1<<64 - 1, 1 << 20, 1 << 28}
	if o.light {
		huge = []uint64{1<<32 - 1, 1<<64 - 1}
	}
	for ri, reg := range l.sizedRegions() {
		_, m := binary.Uvarint(orig[reg.R.Off:reg.R.end()])
		if m <= 0 {
			continue
		}
		if o.light && strings.Contains(reg.Name, "[") && ri%5 != 0 {
			continue // per-document lists: a sample
		}
		if ri%max(1, o.lenEvery) != 0 {
			continue
		}
		for _, v := range huge {
			enc := uvar(v)
			// (a) the file stays well-formed: TOC and tables are patched around the longer prefix
			add(mutation{ID: fmt.Sprintf("len/%s=%d", reg.Name, v), Kind: "length-prefix", Whole: l.resize(orig, reg.R.Off, m, enc)})
			// (b) in place, clobbering what follows
			if reg.R.Off+len(enc) <= len(orig) && !(o.light && v != huge[0]) {
				add(mutation{ID: fmt.Sprintf("len-inplace/%s=%d", reg.Name, v), Kind: "length-prefix", Trunc: none, Edits: []edit{{reg.R.Off, len(enc), enc}}})
			}
		}
		// continuation bit on the last byte of the list (a varint that runs off the end)
		last := reg.R.end() - 1
		add(mutation{ID: fmt.Sprintf("len/%s/unterminated", reg.Name), Kind: "length-prefix", Trunc: none, Edits: []edit{{last, 1, []byte{orig[last] | 0x80}}}})
		// an over-long varint (11 continuation bytes) at the start of the deltas
		add(mutation{ID: fmt.Sprintf("len/%s/overlong", reg.Name), Kind: "length-prefix", Whole: l.resize(orig, reg.R.Off+m, 0, bytes.Repeat([]byte{0xff}, 11))})
	}
	// posting lists are bare delta varints: huge delta, unterminated varint
	for _, tag := range []string{"postings", "namePostings"} {
		e := l.entry(tag)
		if e == nil {
			continue
		}
		n := len(e.Items)
		for i, it := range e.Items {
			if it.Sz == 0 || !(i < 2 || i >= n-2 || i%max(1, n/max(1, o.idxPerTable)) == 0) {
				continue
			}
			for _, v := range huge[:2] {
				add(mutation{ID: fmt.Sprintf("len/%s[%d]=%d", tag, i, v), Kind: "length-prefix", Whole: l.resize(orig, it.Off, 0, uvar(v))})
			}
			last := it.end() - 1
			add(mutation{ID: fmt.Sprintf("len/%s[%d]/unterminated", tag, i), Kind: "length-prefix", Trunc: none, Edits: []edit{{last, 1, []byte{orig[last] | 0x80}}}})
		}
	}
	// the posting lists of the trigrams the battery searches for, in every tier
	if nt, ps := l.entry("ngramText"), l.entry("postings"); nt != nil && ps != nil {
		for _, w := range []string{"abc", "bca", "Abc"} {
			code := uint64(w[0])<<42 | uint64(w[1])<<21 | uint64(w[2])
			for i := 0; i*8+8 <= nt.Data.Sz && i < len(ps.Items); i++ {
				if binary.BigEndian.Uint64(orig[nt.Data.Off+8*i:]) != code || ps.Items[i].Sz == 0 {
					continue
				}
				it := ps.Items[i]
				last := it.end() - 1
				add(mutation{ID: fmt.Sprintf("len/postings(%s)/unterminated", w), Kind: "length-prefix", Trunc: none, Edits: []edit{{last, 1, []byte{orig[last] | 0x80}}}})
				add(mutation{ID: fmt.Sprintf("len/postings(%s)=2^32-1", w), Kind: "length-prefix", Whole: l.resize(orig, it.Off, 0, uvar(1<<32-1))})
				add(mutation{ID: fmt.Sprintf("len/postings(%s)/overlong", w), Kind: "length-prefix", Whole: l.resize(orig, it.Off, 0, bytes.Repeat([]byte{0xff}, 11))})
			}
		}
	}

	// the TOC's own varints: tag lengths and section kinds
	for ei, e := range l.Entries {
		if o.light && ei%4 != 0 {
			continue
		}
		_, m := binary.Uvarint(orig[e.TagPos:])
		for _, v := range huge[:2] {
			add(mutation{ID: fmt.Sprintf("len/toc-taglen/%s=%d", e.Tag, v), Kind: "length-prefix", Whole: l.resize(orig, e.TagPos, m, uvar(v))})
		}
		kp := e.TagPos + m + len(e.Tag)
		for _, v := range []uint64{0, 1, 2, 3, 1 << 31, 1<<64 - 1} {
			if int(v) == e.Kind {
				continue
			}
			add(mutation{ID: fmt.Sprintf("len/toc-kind/%s=%d", e.Tag, v), Kind: "length-prefix", Whole: l.resize(orig, kp, 1, uvar(v))})
		}
	}

	// 7. the sidecar .meta file (the shard itself is intact)
	if s.Meta != nil {
		mm := func(id string, b []byte) {
			add(mutation{ID: "meta/" + id, Kind: "meta-sidecar", Trunc: none, Meta: append([]byte{}, b...), HasMeta: true})
		}
		mm("valid", s.Meta)
		for n := 0; n < len(s.Meta); n += max(1, o.metaTrunc) {
			mm(fmt.Sprintf("trunc/%d", n), s.Meta[:n])
		}
		k := 0
		for p := range s.Meta {
			for bit := 0; bit < 8; bit++ {
				k++
				if k%o.metaFlip != 0 {
					continue
				}
				b := append([]byte(nil), s.Meta...)
				b[p] ^= 1 << bit
				mm(fmt.Sprintf("flip/%d.%d", p, bit), b)
			}
		}
		list := s.Meta[0] == '['
		one := s.Meta
		if list {
			one = s.Meta[1 : len(s.Meta)-1] // possibly several objects; good enough as an element list
		}
		for i, v := range []string{"null", "[]", "[null]", "{}", "[{}]", "[{},{}]", "[null,null]", "0", `"x"`, "true", "[[]]", "[" + string(one) + "," + string(one) + "]", "[" + string(one) + ",null]", "[null," + string(one) + "]",
			string(one), "[" + string(one) + "]", " ", "\n", "\x00", "\xff\xfe", strings.Repeat("[", 10000), strings.Repeat("[", 100000) + strings.Repeat("]", 100000), strings.Repeat(`{"SubRepoMap":{"a":`, 400) + "null" + strings.Repeat("}}", 400),
			`{"ID":4294967296}`, `{"ID":-1}`, `{"ID":1e99}`, `{"Name":null,"Branches":null}`, `{"Branches":[{"Name":"HEAD"}],"ID":"7"}`, `[{"Branches":null,"SubRepoMap":{"":null}}]`, `{"SubRepoMap":{"sub":null}}`, `[{"SubRepoMap":{"sub":null}}]`,
			`{"Name":"x","Branches":[` + strings.Repeat(`{"Name":"b","Version":"v"},`, 70) + `{"Name":"z","Version":"v"}]}`, `{"RawConfig":{"priority":"1e999"}}`, `{"LatestCommitDate":"not a date"}`, `{"Metadata":{"k":null}}`, `{"Rank":65536}`, `{"TenantID":-1}`} {
			mm(fmt.Sprintf("special/%d", i), []byte(v))
		}
		for i := 0; i < 40; i++ {
			n := 1 + r.IntN(16)
			g := make([]byte, n)
			for j := range g {
				g[j] = byte(r.IntN(256))
			}
			p := r.IntN(len(s.Meta))
			b := append(append(append([]byte{}, s.Meta[:p]...), g...), s.Meta[min(len(s.Meta), p+n*(i%2)):]...)
			mm(fmt.Sprintf("splice/%d@%d+%d", i, p, n), b)
		}
	}
	return out
}
