package corrupt

import (
	"bytes"
	"encoding/json"
	"fmt"
	"os"
	"path/filepath"
	"regexp"
	"strings"
	"time"

	"github.com/sourcegraph/zoekt/index"
	kit "github.com/sourcegraph/zoekt/internal/verifkit"
	"github.com/sourcegraph/zoekt/internal/verifkit/ix"
)

// world_test.go: the healthy shards and the subject shards. Everything is a pure
// function of the seed: index times are pinned, names and ids are fixed.
//
// Repository names and ids of healthy and subject repositories differ in many bits, so
// that no single bit flip in a subject's metadata can make it claim a healthy
// repository's name or id (the results of a repository that two shards claim are merged
// by design).

var c11Time = time.Date(2026, 1, 2, 3, 4, 5, 123456789, time.UTC)

var healthyNames = []string{"healthy/alpha", "healthy/bravo-xx", "cmp/one-1", "cmp/two-22-z"}
var healthyIDs = []uint32{0x11111, 0x22222, 0x44444, 0x88888}
var subjectIDs = []uint32{0x33333, 0x55555, 0x66666}

type subjectFile struct {
	Name     string   `json:"name"`  // s0, s1 ...
	Shape    string   `json:"shape"` // simple-with-id | compound | simple
	File     string   `json:"file"`  // base name of the shard file
	Repos    []string `json:"repos"`
	MetaFile string   `json:"meta_file,omitempty"` // valid sidecar content (file under the world root)
	Size     int      `json:"size"`
}

type worldFile struct {
	Healthy  []string      `json:"healthy"` // base names under <root>/healthy
	Subjects []subjectFile `json:"subjects"`
}

func genRepo(g *kit.Gen, name string, id uint32, docs int, branches []string) *kit.Repo {
	r := g.Repo(0)
	r.Name, r.ID = name, id
	r.FileURL = "http://" + name + "/{{.Version}}/{{.Path}}"
	if branches != nil {
		r.Branches = nil
		for i, b := range branches {
			r.Branches = append(r.Branches, kit.BranchV{Name: b, Version: fmt.Sprintf("%040x", uint64(id)*31+uint64(i))})
		}
	}
	if r.SubRepos != nil {
		r.SubRepos = map[string]string{"sub": name + "-sub"}
	}
	used := map[string]bool{}
	for i := 0; i < docs; i++ {
		r.Docs = append(r.Docs, g.Doc(r, used))
	}
	// every shard has the words the battery looks for, symbols and a .go file
	d := &kit.Doc{Name: fmt.Sprintf("lib/ab%d.go", len(r.Docs)), Content: "abc Abc ab\nfunc bca() {}\nxx abab a.b\nдa éa\n", Language: "Go", Branches: []string{r.Branches[0].Name}}
	d.Symbols = []kit.Sym{{Start: 0, End: 3, Kind: "variable"}, {Start: 16, End: 19, Kind: "function", Parent: "P", ParentKind: "class"}}
	r.Docs = append(r.Docs, d)
	if len(r.Branches) > 1 {
		r.Docs = append(r.Docs, &kit.Doc{Name: "dev/only.txt", Content: "abc on another branch\nab ab\n", Language: "Text", Branches: []string{r.Branches[1].Name}})
	}
	return r
}

func buildSimpleFixed(dir string, r *kit.Repo, id string) (string, error) {
	b, err := ix.NewShardBuilder(r)
	if err != nil {
		return "", err
	}
	b.IndexTime = c11Time
	b.ID = id
	p := ix.ShardName(dir, r.Name, index.IndexFormatVersion, 0)
	return p, ix.WriteBuilder(b, p)
}

var timeRe = regexp.MustCompile(`"IndexTime":"[0-9T:.\-]+Z"`)

// buildCompoundFixed merges the repositories and pins the index time (index.Merge
// stamps the wall clock) by overwriting it in place with a value of equal length.
func buildCompoundFixed(dir string, repos []*kit.Repo) (string, error) {
	want := []byte(`"IndexTime":"` + c11Time.Format(time.RFC3339Nano) + `"`)
	for try := 0; try < 200; try++ {
		p, err := ix.BuildCompound(dir, repos)
		if err != nil {
			return "", err
		}
		b, err := os.ReadFile(p)
		if err != nil {
			return "", err
		}
		loc := timeRe.FindIndex(b)
		if loc == nil {
			return "", fmt.Errorf("no IndexTime in %s", p)
		}
		if loc[1]-loc[0] != len(want) {
			os.Remove(p)
			time.Sleep(time.Microsecond)
			continue
		}
		copy(b[loc[0]:], want)
		if timeRe.Find(b[loc[1]:]) != nil {
			return "", fmt.Errorf("several IndexTime in %s", p)
		}
		return p, os.WriteFile(p, b, 0o644)
	}
	return "", fmt.Errorf("cannot pin the index time")
}

// subjectRepos makes the repositories of subject k.
func subjectRepos(seed uint64, k int) (shape string, repos []*kit.Repo) {
	g := kit.NewGen(kit.NewRand(seed, 1100+uint64(k)))
	g.MaxLen = 70
	g.SubRepos = true
	switch k % 3 {
	case 0:
		r := genRepo(g, fmt.Sprintf("subject/s%d/first", k), subjectIDs[0], 2+g.R.IntN(3), []string{"HEAD", "dev", "b1"})
		r.Metadata = map[string]string{"k": "ab", "team": "a"}
		r.SubRepos = map[string]string{"sub": r.Name + "-sub"}
		r.Docs = append(r.Docs, &kit.Doc{Name: "sub/in.c", Content: "abc in a sub repository ab\n", Language: "C", Branches: []string{"HEAD", "dev"}, SubRepo: "sub"})
		return "simple-with-id", []*kit.Repo{r}
	case 1:
		a := genRepo(g, fmt.Sprintf("subject/s%d/left", k), subjectIDs[1], 1+g.R.IntN(3), []string{"main", "dev"})
		b := genRepo(g, fmt.Sprintf("subject/s%d/right-r", k), subjectIDs[2], 1+g.R.IntN(2), nil)
		a.RawConfig["priority"], b.RawConfig["priority"] = "2", "2"
		return "compound", []*kit.Repo{a, b}
	default:
		g.MaxLen = 160
		r := genRepo(g, fmt.Sprintf("subject/s%d/plain", k), subjectIDs[0], 3+g.R.IntN(4), nil)
		r.Docs = append(r.Docs, &kit.Doc{Name: "long.txt", Content: strings.Repeat("abcab é ", 40) + "\n" + strings.Repeat("x1 ", 30), Language: "Text", Branches: []string{r.Branches[0].Name}})
		return "simple", []*kit.Repo{r}
	}
}

// buildWorld writes the healthy and subject shards under root.
func buildWorld(root string, seed uint64, nSubjects int) (*worldFile, error) {
	hdir, sdir := filepath.Join(root, "healthy"), filepath.Join(root, "subjects")
	for _, d := range []string{hdir, sdir} {
		if err := os.MkdirAll(d, 0o755); err != nil {
			return nil, err
		}
	}
	w := &worldFile{}
	g := kit.NewGen(kit.NewRand(seed, 1000))
	g.MaxLen = 80
	g.SubRepos = true
	var hr []*kit.Repo
	for i := range healthyNames {
		br := [][]string{{"HEAD", "dev"}, {"main", "dev", "b1"}, {"main", "dev"}, {"HEAD", "dev", "release/ab"}}[i]
		r := genRepo(g, healthyNames[i], healthyIDs[i], 3+g.R.IntN(3), br)
		if i == 0 {
			r.Metadata = map[string]string{"k": "ab"}
		}
		hr = append(hr, r)
	}
	hr[2].RawConfig["priority"], hr[3].RawConfig["priority"] = "1", "1"
	for i, r := range hr[:2] {
		p, err := buildSimpleFixed(hdir, r, []string{"", "c11healthyshardid00"}[i])
		if err != nil {
			return nil, err
		}
		w.Healthy = append(w.Healthy, filepath.Base(p))
	}
	p, err := buildCompoundFixed(hdir, hr[2:])
	if err != nil {
		return nil, err
	}
	w.Healthy = append(w.Healthy, filepath.Base(p))

	for k := 0; k < nSubjects; k++ {
		shape, repos := subjectRepos(seed, k)
		dir := filepath.Join(sdir, fmt.Sprintf("s%d", k))
		if err := os.MkdirAll(dir, 0o755); err != nil {
			return nil, err
		}
		var p string
		var err error
		switch shape {
		case "compound":
			p, err = buildCompoundFixed(dir, repos)
		case "simple-with-id":
			p, err = buildSimpleFixed(dir, repos[0], "c11subjectshardid00")
		default:
			p, err = buildSimpleFixed(dir, repos[0], "")
		}
		if err != nil {
			return nil, fmt.Errorf("subject %d: %w", k, err)
		}
		sf := subjectFile{Name: fmt.Sprintf("s%d", k), Shape: shape, File: filepath.Base(p)}
		for _, r := range repos {
			sf.Repos = append(sf.Repos, r.Name)
		}
		fi, err := os.Stat(p)
		if err != nil {
			return nil, err
		}
		sf.Size = int(fi.Size())
		if shape != "simple" {
			// the sidecar the way index.SetTombstone writes it: the repository list read
			// back from the shard (one object for a simple shard, a list for a compound one)
			zr, _, err := index.ReadMetadataPath(p)
			if err != nil {
				return nil, err
			}
			var v any = zr
			if shape != "compound" {
				v = zr[0]
			}
			mb, err := json.Marshal(v)
			if err != nil {
				return nil, err
			}
			sf.MetaFile = filepath.Join("subjects", sf.Name, "valid.meta.json")
			if err := os.WriteFile(filepath.Join(root, sf.MetaFile), mb, 0o644); err != nil {
				return nil, err
			}
		}
		w.Subjects = append(w.Subjects, sf)
	}
	b, _ := json.Marshal(w)
	return w, os.WriteFile(filepath.Join(root, "world.json"), b, 0o644)
}

func loadWorld(root string) (*worldFile, error) {
	b, err := os.ReadFile(filepath.Join(root, "world.json"))
	if err != nil {
		return nil, err
	}
	var w worldFile
	return &w, json.Unmarshal(b, &w)
}

// loadSubject reads a subject shard, parses its layout and lists its corruptions.
func loadSubject(root string, w *worldFile, k int, seed uint64, quick bool) (*subjectSpec, []mutation, error) {
	sf := w.Subjects[k]
	b, err := os.ReadFile(filepath.Join(root, "subjects", sf.Name, sf.File))
	if err != nil {
		return nil, nil, err
	}
	l, err := parseLayout(b)
	if err != nil {
		return nil, nil, fmt.Errorf("layout of %s: %w", sf.File, err)
	}
	s := &subjectSpec{Name: sf.Name, Bytes: b, Lay: l, Stream: 1200 + uint64(k)}
	if sf.MetaFile != "" {
		if s.Meta, err = os.ReadFile(filepath.Join(root, sf.MetaFile)); err != nil {
			return nil, nil, err
		}
	}
	o := enumOptsFor(k, quick)
	muts := enumerate(s, seed, o, kit.NewRand(seed, s.Stream))
	seen := map[string]bool{}
	for _, m := range muts {
		if seen[m.ID] {
			return nil, nil, fmt.Errorf("duplicate corruption id %s", m.ID)
		}
		seen[m.ID] = true
	}
	return s, muts, nil
}

// enumOptsFor: thorough enumerates every truncation length of every subject and every
// second structural bit; quick does every truncation length of the first subject and
// deterministic sub-samples of the rest.
func enumOptsFor(k int, quick bool) enumOpts {
	if quick {
		if k == 0 { // every truncation length
			return enumOpts{truncEvery: 1, flipStruct: 24, flipElse: 12, splices: 60, swaps: 10, idxPerTable: 1, metaFlip: 64, metaTrunc: 8, light: true, lenEvery: 1}
		}
		return enumOpts{truncEvery: 16, flipStruct: 48, flipElse: 16, splices: 40, swaps: 8, idxPerTable: 1, metaFlip: 64, metaTrunc: 12, light: true, lenEvery: 2}
	}
	return enumOpts{truncEvery: 1, flipStruct: 2, flipElse: 1, splices: 300, swaps: 100, idxPerTable: 6, metaFlip: 3, metaTrunc: 1, lenEvery: 1}
}

func describe(m *mutation, orig []byte) map[string]any {
	d := map[string]any{"id": m.ID, "kind": m.Kind}
	if m.Whole != nil {
		d["whole_file_bytes"] = len(m.Whole)
	}
	if m.Trunc >= 0 && m.Whole == nil {
		d["truncated_to"] = m.Trunc
	}
	var es []string
	for _, e := range m.Edits {
		was := orig[e.Off:min(len(orig), e.Off+e.Del)]
		es = append(es, fmt.Sprintf("at %d: %x -> %x", e.Off, was, e.Ins))
	}
	if es != nil {
		d["edits"] = es
	}
	if m.HasMeta {
		s := string(m.Meta)
		if len(s) > 600 {
			s = s[:300] + fmt.Sprintf(" …(%d bytes)… ", len(s)) + s[len(s)-200:]
		}
		d["sidecar_meta"] = s
	}
	return d
}

var _ = bytes.Equal
