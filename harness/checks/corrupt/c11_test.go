package corrupt

import (
	"context"
	"crypto/sha1"
	"encoding/base64"
	"encoding/json"
	"fmt"
	"io"
	"log"
	"os"
	"path/filepath"
	"regexp"
	"runtime"
	"runtime/debug"
	"runtime/metrics"
	"runtime/pprof"
	"sort"
	"strings"
	"sync"
	"syscall"
	"testing"
	"time"

	"github.com/RoaringBitmap/roaring/v2"

	"github.com/sourcegraph/zoekt"
	"github.com/sourcegraph/zoekt/index"
	kit "github.com/sourcegraph/zoekt/internal/verifkit"
	"github.com/sourcegraph/zoekt/query"
	"github.com/sourcegraph/zoekt/search"
)

// C11: a shard file with any corruption never crashes or hangs the serving process;
// results from the other shards of the directory are unaffected.
//
// Every corruption of a subject shard is put, together with the healthy shards, into a
// fresh directory and served by search.NewDirectorySearcher in a child process that
// logs the case before touching the file. Per case the child
//
//  1. runs the loader's code path on the corrupt file (os.Open, index.NewIndexFile,
//     index.NewSearcher, then List(TRUE) as mkRankedShard does) under recover(). A panic
//     here is what kills a server (loadShard runs in a goroutine without recover); it
//     is recorded and later confirmed by letting a directory searcher in a child of
//     its own die on the same file. The directory searcher is not started in the
//     batch child for such a case (the child would be lost for the rest of the batch).
//  2. starts the directory searcher over {healthy shards + corrupt file}, runs the
//     battery of searches and lists, and compares what it returns for the healthy
//     repositories with the baseline (the same battery without the corrupt file).
//  3. runs the battery on the corrupt shard's own searcher when it loaded. Panics here
//     are recovered: the sharded searcher contains them by design (Stats.Crashes), so
//     they are evidence, not violations. Fatal errors are not recoverable and kill
//     the child whichever way the shard is reached.
//
// A dead child (exit status, last logged case) is a violation; a case that exceeds its
// in-child time budget is re-run alone with a 20x budget and reported only if it still
// does not finish.
func TestVerif_C11(t *testing.T) {
	rec := kit.Open("C11")
	if mode := kit.ChildMode(); mode != "" {
		c11Child(rec, mode, kit.ChildArg())
		rec.ChildDone()
		return
	}
	defer rec.Done()

	root := filepath.Join(rec.Work, "c11world")
	nSubj := rec.N(3, 3)
	w, err := buildWorld(root, rec.Seed, nSubj)
	if err != nil {
		rec.Violation("harness/world", err.Error(), nil)
		return
	}
	p := &parent{rec: rec, root: root, w: w, loadPanics: map[string]*sideRec{}, hangs: map[string]bool{}}
	type job struct{ subj, start, end int }
	var jobs []job
	batch := rec.N(192, 256)
	for k := range w.Subjects {
		s, muts, err := loadSubject(root, w, k, rec.Seed, rec.Quick())
		if err != nil {
			rec.Violation("harness/subject", err.Error(), nil)
			return
		}
		p.subj = append(p.subj, s)
		p.muts = append(p.muts, muts)
		rec.Count("subject_shards", 1)
		rec.Count("subject_shards_"+w.Subjects[k].Shape, 1)
		rec.Max("max_subject_bytes", int64(len(s.Bytes)))
		rec.Note("subject", fmt.Sprintf("%s %s %d bytes, %d corruptions (TOC %d bytes, %d sections)", s.Name, w.Subjects[k].Shape, len(s.Bytes), len(muts), s.Lay.TOC.Sz, len(s.Lay.Entries)))
		for i := 0; i < len(muts); i += batch {
			jobs = append(jobs, job{k, i, min(len(muts), i+batch)})
		}
	}
	if os.Getenv("C11_ENUM_ONLY") != "" { // debugging aid: list the subjects and stop
		return
	}
	// interleave the subjects so that the slow kinds do not all end up at the end
	sort.SliceStable(jobs, func(i, j int) bool { return jobs[i].start < jobs[j].start })
	rec.Count("batches", int64(len(jobs)))

	ch := make(chan job)
	var wg sync.WaitGroup
	for i := 0; i < 12; i++ {
		wg.Add(1)
		go func() {
			defer wg.Done()
			for j := range ch {
				p.runBatch(j.subj, j.start, j.end)
			}
		}()
	}
	for _, j := range jobs {
		ch <- j
	}
	close(ch)
	wg.Wait()
	p.confirmLoadPanics()
}

const (
	exitHang       = 97
	exitRunaway    = 98
	caseBudgetEnv  = "C11_CASE_BUDGET_MS"
	allocBudgetEnv = "C11_ALLOC_BUDGET_MIB"
)

type parent struct {
	rec  *kit.Rec
	root string
	w    *worldFile
	subj []*subjectSpec
	muts [][]mutation

	mu         sync.Mutex
	deaths     int                 // children lost to a case (death, hang, runaway allocation)
	loadPanics map[string]*sideRec // signature -> first case
	hangs      map[string]bool     // confirmed hang signatures
	nside      int
}

// sideRec is what a child tells the parent about a case outside the record stream.
type sideRec struct {
	Type  string `json:"type"` // loadpanic
	Sig   string `json:"sig"`
	Subj  int    `json:"subj"`
	I     int    `json:"i"`
	ID    string `json:"id"`
	Step  string `json:"step"`
	Msg   string `json:"msg"`
	Stack string `json:"stack"`
}

type loggedCase struct {
	Subj  int    `json:"subj"`
	I     int    `json:"i"`
	ID    string `json:"id"`
	Phase string `json:"phase"`
	Op    string `json:"op,omitempty"`
}

// env prepares one child run: the batch file (the corruptions [start,end) of subject k,
// so that children do not enumerate), the side channel and the case budget.
func (p *parent) env(k, start, end, budgetMS int) (env []string, side string, cleanup func()) {
	p.mu.Lock()
	p.nside++
	n := p.nside
	p.mu.Unlock()
	side = filepath.Join(p.rec.Work, fmt.Sprintf("side-%d.jsonl", n))
	bf := filepath.Join(p.rec.Work, fmt.Sprintf("batch-%d.json", n))
	b, err := json.Marshal(batchFile{Subj: k, Start: start, Muts: p.muts[k][start:end]})
	if err == nil {
		err = os.WriteFile(bf, b, 0o644)
	}
	if err != nil {
		p.rec.Violation("harness/batch file", err.Error(), nil)
	}
	return []string{"C11_WORLD=" + p.root, "C11_SIDE=" + side, "C11_BATCH=" + bf, "GOMAXPROCS=2", fmt.Sprintf("%s=%d", caseBudgetEnv, budgetMS), "SRC_DEVELOPMENT=false"}, side,
		func() { os.Remove(bf); os.Remove(side) }
}

type batchFile struct {
	Subj  int        `json:"subj"`
	Start int        `json:"start"`
	Muts  []mutation `json:"muts"`
}

func (p *parent) caseBudgetMS() int { return p.rec.N(4000, 8000) }

// sigPhase: the corrupt shard's own searcher runs the code the sharded searcher runs
// on it; a death there gets the signature of the search / list phase (the witness says
// which way the shard was reached).
func sigPhase(phase string) string { return strings.TrimPrefix(phase, "direct-") }

func (p *parent) witness(k, i int, extra map[string]any) map[string]any {
	m := &p.muts[k][i]
	s := p.subj[k]
	w := map[string]any{
		"subject": s.Name, "subject_shape": p.w.Subjects[k].Shape, "subject_file": p.w.Subjects[k].File, "case_index": i,
		"corruption":         describe(m, s.Bytes),
		"subject_shard_b64":  base64.StdEncoding.EncodeToString(s.Bytes),
		"how_to_replay":      "write the subject shard (base64) under its file name, apply the corruption (edits are 'at <offset>: <old hex> -> <new hex>' on the original bytes, then the truncation), put it into an index directory and start search.NewDirectorySearcher / zoekt-webserver on it",
		"healthy_repos_also": healthyNames,
	}
	if f := m.apply(s.Bytes); len(f) <= 8192 {
		w["corrupt_file_b64"] = base64.StdEncoding.EncodeToString(f)
	}
	for k, v := range extra {
		w[k] = v
	}
	return w
}

func clip(s string, n int) string {
	if len(s) > n {
		return s[:n] + "…"
	}
	return s
}

// crashSig turns a dead child's output into "<class>/<site>".
func crashSig(res kit.ChildResult) string {
	cc := res.CrashClass()
	kind, site, _ := strings.Cut(cc, " @ ")
	if site == "" {
		site = "?"
	}
	return panicClass(kind) + "/" + strings.TrimPrefix(site, "/")
}

// panicClass coarsens a panic / fatal error message to its kind, so that one crash
// site does not get one signature per message variant.
func panicClass(msg string) string {
	msg = strings.TrimPrefix(msg, "panic: ")
	switch {
	case strings.Contains(msg, "out of memory") || strings.Contains(msg, "cannot allocate memory"):
		return "out-of-memory"
	case strings.Contains(msg, "index out of range"):
		return "index-out-of-range"
	case strings.Contains(msg, "slice bounds out of range"):
		return "slice-bounds-out-of-range"
	case strings.Contains(msg, "nil pointer dereference"):
		return "nil-dereference"
	case strings.Contains(msg, "makeslice") || strings.Contains(msg, "makemap") || strings.Contains(msg, "growslice"):
		return "allocation-size-out-of-range"
	case strings.Contains(msg, "integer divide by zero"):
		return "divide-by-zero"
	case strings.Contains(msg, "stack overflow") || strings.Contains(msg, "stack exceeds"):
		return "stack-overflow"
	case strings.Contains(msg, "unexpected fault address") || strings.Contains(msg, "SIGSEGV") || strings.Contains(msg, "SIGBUS"):
		return "memory-fault"
	case strings.Contains(msg, "checkptr"):
		return "checkptr"
	}
	return kit.MsgClass(msg)
}

func (p *parent) readSide(path string) {
	b, err := os.ReadFile(path)
	if err != nil {
		return
	}
	for _, line := range strings.Split(string(b), "\n") {
		var r sideRec
		if json.Unmarshal([]byte(line), &r) != nil || r.Type != "loadpanic" {
			continue
		}
		p.mu.Lock()
		if p.loadPanics[r.Sig] == nil {
			rr := r
			p.loadPanics[r.Sig] = &rr
		}
		p.mu.Unlock()
	}
}

// runBatch runs the cases [start,end) of subject k in children, restarting behind every
// case that killed or stalled one.
func (p *parent) runBatch(k, start, end int) {
	rec := p.rec
	watchdog := time.Duration(rec.N(240, 900)) * time.Second
	for start < end {
		p.mu.Lock()
		tooMany := p.deaths >= rec.N(300, 4000)
		p.mu.Unlock()
		if tooMany {
			// every death costs a process; a tree on which this many cases are fatal has
			// been reported often enough. The rest is not run (and counted).
			rec.Count("cases_not_run_after_too_many_deaths", int64(end-start))
			return
		}
		env, side, cleanup := p.env(k, start, end, p.caseBudgetMS())
		res := rec.RunChild("TestVerif_C11", "batch", fmt.Sprintf("%d:%d:%d", k, start, end), env, watchdog)
		p.readSide(side)
		cleanup()
		if !res.TimedOut && !res.Crashed() {
			return
		}
		var lc loggedCase
		if res.LastCase == "" || json.Unmarshal([]byte(res.LastCase), &lc) != nil || lc.I < start || lc.I >= end {
			if res.TimedOut {
				rec.Count("child_watchdog_fired_inconclusive", 1)
				rec.Count("cases_not_run", int64(end-start))
				return
			}
			rec.Violation("harness/child died outside a case", res.CrashClass(), map[string]any{"subject": k, "start": start, "end": end, "last_case": res.LastCase, "tail": clip(res.Tail, 4000)})
			return
		}
		p.mu.Lock()
		p.deaths++
		p.mu.Unlock()
		// the child's own record of the case it died in is lost
		fm := &p.muts[k][lc.I]
		rec.Count("corruptions", 1)
		rec.Count("corruptions_"+fm.Kind, 1)
		rec.Case(p.subj[k].Name+"/"+fm.ID, true, nil)
		switch {
		case res.TimedOut:
			// the outer watchdog: the in-child budget did not fire, so this is the box, not the case
			rec.Count("child_watchdog_fired_inconclusive", 1)
			rec.Note("inconclusive", fmt.Sprintf("watchdog fired on %s case %d %s in phase %s", p.subj[k].Name, lc.I, lc.ID, lc.Phase))
		case res.Exit == exitHang:
			p.hang(k, lc, res)
		case res.Exit == exitRunaway:
			p.runaway(k, lc, res)
		default:
			sig := sigPhase(lc.Phase) + "/" + crashSig(res)
			rec.Count("cases_that_killed_the_process", 1)
			rec.Count("killed_by_kind_"+p.muts[k][lc.I].Kind, 1)
			rec.Violation(sig, fmt.Sprintf("the serving process died (%s) in phase %s%s on shard %s with corruption %s", res.CrashClass(), lc.Phase, opText(lc.Op), p.w.Subjects[k].File, lc.ID),
				p.witness(k, lc.I, map[string]any{"phase": lc.Phase, "op": lc.Op, "exit": res.Exit, "signal": res.Signal, "child_output": clip(res.Tail, 6000)}))
		}
		start = lc.I + 1
	}
}

// runaway: the child's monitor ended a case that had allocated more than its budget
// and was still running.
func (p *parent) runaway(k int, lc loggedCase, res kit.ChildResult) {
	rec := p.rec
	site := "?"
	if m := hangSiteRe.FindStringSubmatch(res.Tail); m != nil {
		site = m[1]
	}
	sig := sigPhase(lc.Phase) + "/runaway-allocation/" + site
	why := ""
	if m := giveUpRe.FindStringSubmatch(res.Tail); m != nil {
		why = m[1]
	}
	rec.Count("cases_with_runaway_allocation", 1)
	rec.Count("killed_by_kind_"+p.muts[k][lc.I].Kind, 1)
	rec.Violation(sig, fmt.Sprintf("phase %s%s on the %d-byte shard %s with corruption %s %s and was still running in %s: allocation is driven by the corrupt content, the process runs out of memory", lc.Phase, opText(lc.Op), len(p.subj[k].Bytes), p.w.Subjects[k].File, lc.ID, why, site),
		p.witness(k, lc.I, map[string]any{"phase": lc.Phase, "op": lc.Op, "goroutines_at_give_up": clip(res.Tail, 6000)}))
}

var giveUpRe = regexp.MustCompile(`(?m)^C11-GIVE-UP [^:]*: (.*)$`)

func opText(op string) string {
	if op == "" {
		return ""
	}
	return " (" + op + ")"
}

var hangSiteRe = regexp.MustCompile(`(?m)^C11-SITE (.*)$`)

// hang: the child gave up on a case after its budget. Re-run the case alone with 20x
// the budget; only a case that does not finish then is reported.
func (p *parent) hang(k int, lc loggedCase, res kit.ChildResult) {
	rec := p.rec
	site := "?"
	if m := hangSiteRe.FindStringSubmatch(res.Tail); m != nil {
		site = m[1]
	}
	sig := "hang/" + sigPhase(lc.Phase) + "/" + site
	// one confirmation per site: the site is claimed before the re-run so that the other
	// workers do not pay for the same 20x budget meanwhile (released if not confirmed)
	p.mu.Lock()
	known := p.hangs[sig]
	p.hangs[sig] = true
	p.mu.Unlock()
	if known {
		rec.Count("cases_that_stall_again_at_a_site_being_or_already_confirmed", 1)
		return
	}
	claimed := sig
	release := func() {
		p.mu.Lock()
		delete(p.hangs, claimed)
		p.mu.Unlock()
	}
	budget := 20 * p.caseBudgetMS()
	env, side, cleanup := p.env(k, lc.I, lc.I+1, budget)
	r2 := rec.RunChild("TestVerif_C11", "single", fmt.Sprintf("%d:%d:%d", k, lc.I, lc.I+1), env, 10*time.Duration(budget)*time.Millisecond+60*time.Second)
	p.readSide(side)
	cleanup()
	switch {
	case r2.Exit == exitHang || r2.TimedOut:
		if m := hangSiteRe.FindStringSubmatch(r2.Tail); m != nil {
			site = m[1]
			sig = "hang/" + sigPhase(lc.Phase) + "/" + site
		}
		p.mu.Lock()
		p.hangs[sig] = true
		p.mu.Unlock()
		rec.Count("cases_that_hang", 1)
		rec.Violation(sig, fmt.Sprintf("phase %s%s does not finish within %d s of CPU time (alone in a fresh process; a healthy shard of this size takes milliseconds) on shard %s with corruption %s", lc.Phase, opText(lc.Op), budget/1000, p.w.Subjects[k].File, lc.ID),
			p.witness(k, lc.I, map[string]any{"phase": lc.Phase, "op": lc.Op, "budget_ms": budget, "goroutines_at_give_up": clip(r2.Tail, 6000)}))
	case r2.Exit == exitRunaway:
		release()
		var l2 loggedCase
		if json.Unmarshal([]byte(r2.LastCase), &l2) != nil {
			l2 = lc
		}
		p.runaway(k, l2, r2)
	case r2.Crashed():
		release()
		var l2 loggedCase
		_ = json.Unmarshal([]byte(r2.LastCase), &l2)
		sig := sigPhase(l2.Phase) + "/" + crashSig(r2)
		rec.Count("cases_that_killed_the_process", 1)
		rec.Violation(sig, fmt.Sprintf("the serving process died (%s) in phase %s%s on shard %s with corruption %s (the case first exceeded its time budget in a batch)", r2.CrashClass(), l2.Phase, opText(l2.Op), p.w.Subjects[k].File, lc.ID),
			p.witness(k, lc.I, map[string]any{"phase": l2.Phase, "op": l2.Op, "exit": r2.Exit, "child_output": clip(r2.Tail, 6000)}))
	default:
		release()
		rec.Count("budget_exceeded_but_finished_alone_inconclusive", 1)
	}
}

// confirmLoadPanics: for every distinct loader panic seen under recover() in the
// batch children, one child starts a directory searcher on that file without any
// recover of ours. The violation is the death of that process.
func (p *parent) confirmLoadPanics() {
	rec := p.rec
	var sigs []string
	for s := range p.loadPanics {
		sigs = append(sigs, s)
	}
	sort.Strings(sigs)
	var wg sync.WaitGroup
	sem := make(chan struct{}, 8)
	for _, sig := range sigs {
		r := p.loadPanics[sig]
		wg.Add(1)
		sem <- struct{}{}
		go func() {
			defer wg.Done()
			defer func() { <-sem }()
			env, _, cleanup := p.env(r.Subj, r.I, r.I+1, 20*p.caseBudgetMS())
			res := rec.RunChild("TestVerif_C11", "confirm", fmt.Sprintf("%d:%d:%d", r.Subj, r.I, r.I+1), env, 10*time.Minute)
			cleanup()
			switch {
			case res.TimedOut || res.Exit == exitHang:
				rec.Count("load_panic_confirmation_timed_out_inconclusive", 1)
			case res.Crashed():
				rec.Count("load_panic_sites_confirmed_by_a_dead_directory_searcher", 1)
				rec.Violation(sig, fmt.Sprintf("search.NewDirectorySearcher on a directory holding the corrupt shard kills the process (%s); the loader step %s panics with %q on shard %s with corruption %s", res.CrashClass(), r.Step, clip(r.Msg, 200), p.w.Subjects[r.Subj].File, r.ID),
					p.witness(r.Subj, r.I, map[string]any{"phase": "load", "loader_step": r.Step, "panic": r.Msg, "stack_under_recover": clip(r.Stack, 4000), "directory_searcher_child_output": clip(res.Tail, 5000)}))
			default:
				rec.Count("load_panic_not_fatal_for_the_directory_searcher", 1)
				rec.Note("load_panic_survived", fmt.Sprintf("%s: %s case %d %s", sig, p.subj[r.Subj].Name, r.I, r.ID))
			}
		}()
	}
	wg.Wait()
}

// ---------------------------------------------------------------------------
// child side

type child struct {
	rec      *kit.Rec
	root     string
	w        *worldFile
	k        int
	s        *subjectSpec
	muts     []mutation // the child's slice of the subject's list
	base     int        // index of muts[0] in the subject's list
	work     string
	caseLog  *os.File
	side     *os.File
	sideSeen map[string]bool
	healthyN map[string]bool
	healthyI map[uint32]bool
	full     []op
	reduced  []op
	// quick tier economies
	directOps     []op
	rejectedEvery int
	baseline      map[string]opResult

	// the in-child monitor: time and allocation budget of the running case
	budget      time.Duration
	allocBudget uint64
	tmu         sync.Mutex
	armed       bool
	caseStart   time.Time
	cpuBase     time.Duration
	allocBase   uint64
	cur         loggedCase
}

func c11Child(rec *kit.Rec, mode, arg string) {
	// runaway allocation must be a dead child, not a dead box
	capAddressSpace(1 << 30)
	log.SetOutput(io.Discard)                     // the loader logs every rejected shard
	if pp := os.Getenv("C11_CPUPROF"); pp != "" { // debugging aid for stalled cases
		if f, err := os.Create(pp); err == nil {
			_ = pprof.StartCPUProfile(f)
			defer pprof.StopCPUProfile()
		}
	}

	var k, start, end int
	if _, err := fmt.Sscanf(arg, "%d:%d:%d", &k, &start, &end); err != nil {
		rec.Violation("harness/child arg", arg, nil)
		return
	}
	root := os.Getenv("C11_WORLD")
	w, err := loadWorld(root)
	if err != nil {
		rec.Violation("harness/world", err.Error(), nil)
		return
	}
	var bf batchFile
	bb, err := os.ReadFile(os.Getenv("C11_BATCH"))
	if err == nil {
		err = json.Unmarshal(bb, &bf)
	}
	if err != nil || bf.Subj != k || bf.Start != start || bf.Start+len(bf.Muts) != end {
		rec.Violation("harness/batch file", fmt.Sprintf("%v (arg %s)", err, arg), nil)
		return
	}
	sb, err := os.ReadFile(filepath.Join(root, "subjects", w.Subjects[k].Name, w.Subjects[k].File))
	if err != nil {
		rec.Violation("harness/subject", err.Error(), nil)
		return
	}
	s := &subjectSpec{Name: w.Subjects[k].Name, Bytes: sb}
	c := &child{rec: rec, root: root, w: w, k: k, s: s, muts: bf.Muts, base: bf.Start, work: rec.Work, sideSeen: map[string]bool{}, healthyN: map[string]bool{}, healthyI: map[uint32]bool{}}
	for i, n := range healthyNames {
		c.healthyN[n] = true
		c.healthyI[healthyIDs[i]] = true
	}
	if sp := os.Getenv("C11_SIDE"); sp != "" {
		c.side, _ = os.OpenFile(sp, os.O_CREATE|os.O_WRONLY|os.O_APPEND, 0o644)
	}
	ms := 6000
	fmt.Sscanf(os.Getenv(caseBudgetEnv), "%d", &ms)
	c.budget = time.Duration(ms) * time.Millisecond
	mib := 48
	fmt.Sscanf(os.Getenv(allocBudgetEnv), "%d", &mib)
	c.allocBudget = uint64(mib) << 20
	go c.monitor()
	c.full, c.reduced = battery()
	c.directOps, c.rejectedEvery = c.full, 2
	if rec.Quick() {
		// quick tier: the battery without the entries that repeat a code path
		extra := map[string]bool{"content regexp word chunks": true, "file name regexp chunks": true, "branch exact": true, "repo set": true, "type:file": true, "everything whole": true,
			"language": true, "negation": true, "bm25": true, "limits": true, "list all, repos": true, "list repo ids": true}
		var keep []op
		for _, o := range c.full {
			if !extra[o.Name] {
				keep = append(keep, o)
			}
		}
		c.full = keep
		c.rejectedEvery = 8
		c.directOps = nil
		for i, o := range c.full {
			if i%3 == 0 || o.Kind == "list" && i%2 == 0 {
				c.directOps = append(c.directOps, o)
			}
		}
	}
	_ = os.MkdirAll(c.work, 0o755)
	defer os.RemoveAll(c.work)

	if mode == "confirm" {
		c.confirm(0)
		return
	}
	if err := c.makeBaseline(); err != nil {
		rec.Violation("harness/baseline", err.Error(), nil)
		return
	}
	// the evidence of a child that dies is lost unless it was flushed: the cases are
	// recorded in chunks, each with a record stream of its own that is closed (and so
	// merged by the parent) before the next chunk starts
	const chunk = 8
	for i := range c.muts {
		if i%chunk == 0 {
			c.rec = kit.Open("C11")
		}
		c.oneCase(i)
		if i%chunk == chunk-1 || i == len(c.muts)-1 {
			c.stopTimer()
			c.rec.ChildDone()
			c.rec = rec
		}
	}
	c.stopTimer()
}

// capAddressSpace limits the address space to what the process has now plus extra
// (a healthy case needs a few MiB): an allocation driven by a corrupt length ends the
// child with "fatal error: out of memory" instead of eating the box.
func capAddressSpace(extra uint64) {
	var pages uint64
	if b, err := os.ReadFile("/proc/self/statm"); err == nil {
		fmt.Sscanf(string(b), "%d", &pages)
	}
	cur := pages * uint64(os.Getpagesize())
	if cur == 0 {
		cur = 3 << 30
	}
	lim := syscall.Rlimit{Cur: cur + extra, Max: cur + extra}
	_ = syscall.Setrlimit(syscall.RLIMIT_AS, &lim)
	debug.SetGCPercent(100)
}

// phase logs the case and (re)arms the in-child time budget.
func (c *child) phase(i int, phase, op string) {
	lc := loggedCase{c.k, c.base + i, c.muts[i].ID, phase, op}
	c.logCase(lc)
	c.tmu.Lock()
	c.cur = lc
	c.tmu.Unlock()
}

// logCase is kit.LogCase with a descriptor that stays open: one pwrite of a padded
// record per phase instead of open/write/close.
func (c *child) logCase(lc loggedCase) {
	if c.caseLog == nil {
		p := os.Getenv("VERIF_CASELOG")
		if p == "" {
			return
		}
		f, err := os.OpenFile(p, os.O_CREATE|os.O_WRONLY|os.O_TRUNC, 0o644)
		if err != nil {
			kit.LogCase(lc)
			return
		}
		c.caseLog = f
	}
	b, _ := json.Marshal(lc)
	const width = 400
	if len(b) < width {
		b = append(b, strings.Repeat(" ", width-len(b))...)
	}
	c.caseLog.WriteAt(b, 0)
}

// heapAllocated: bytes of heap objects (live ones and garbage not yet swept). A loop
// that keeps what it allocates makes it grow without bound; garbage churn does not.
func heapAllocated() uint64 {
	sm := []metrics.Sample{{Name: "/memory/classes/heap/objects:bytes"}}
	metrics.Read(sm)
	if sm[0].Value.Kind() == metrics.KindUint64 {
		return sm[0].Value.Uint64()
	}
	return 0
}

// armTimer starts the budgets of a case.
func (c *child) armTimer() {
	c.tmu.Lock()
	defer c.tmu.Unlock()
	c.armed, c.caseStart, c.cpuBase, c.allocBase = true, time.Now(), cpuTime(), heapAllocated()
}

// cpuTime is the CPU time (user + system) the process has used so far.
func cpuTime() time.Duration {
	var ru syscall.Rusage
	if syscall.Getrusage(syscall.RUSAGE_SELF, &ru) != nil {
		return 0
	}
	return time.Duration(ru.Utime.Nano() + ru.Stime.Nano())
}

// stopTimer ends a case; it reports what the finished case allocated.
func (c *child) stopTimer() {
	c.tmu.Lock()
	defer c.tmu.Unlock()
	if c.armed {
		if h := heapAllocated(); h > c.allocBase {
			c.rec.Max("max_heap_growth_kib_of_a_finished_case", int64((h-c.allocBase)>>10))
		}
		c.rec.Max("max_wall_ms_of_a_finished_case", time.Since(c.caseStart).Milliseconds())
		c.rec.Max("max_cpu_ms_of_a_finished_case", (cpuTime() - c.cpuBase).Milliseconds())
	}
	c.armed = false
}

// monitor is the child's watchdog goroutine. A case that exceeds its time budget ends
// the child with exitHang, one whose heap grows by more than its allocation budget (a
// healthy case needs a few MiB; the shards are < 10 KB) with exitRunaway. The time
// budget is CPU time of the process (a loop that does not end burns it whatever the
// load of the box); ten times the budget in wall-clock time is the backstop for a
// case that blocks without using the CPU.
func (c *child) monitor() {
	overCase, overAt := -1, uint64(0)
	for {
		time.Sleep(5 * time.Millisecond)
		c.tmu.Lock()
		armed, t0, cpu0, a0, lc := c.armed, c.caseStart, c.cpuBase, c.allocBase, c.cur
		c.tmu.Unlock()
		if !armed {
			continue
		}
		// runaway allocation = the heap is over the budget AND keeps growing. One big
		// allocation sized by a corrupt length that the process survives is not a crash
		// (it shows in max_heap_growth_kib_of_a_finished_case); beyond the address space
		// cap it is an out-of-memory death.
		if h := heapAllocated(); h > a0 && h-a0 > c.allocBudget {
			switch {
			case overCase != lc.I || overAt == 0:
				overCase, overAt = lc.I, h
			case h > overAt+c.allocBudget/2:
				c.giveUp(lc, exitRunaway, fmt.Sprintf("heap grew by %d MiB so far and is still growing (budget %d MiB)", (h-a0)>>20, c.allocBudget>>20))
			}
		}
		if used := cpuTime() - cpu0; used > c.budget {
			c.giveUp(lc, exitHang, fmt.Sprintf("used %v of CPU time (budget %v)", used.Round(time.Millisecond), c.budget))
		}
		if time.Since(t0) > 10*c.budget {
			c.giveUp(lc, exitHang, fmt.Sprintf("not finished after %v (10x the CPU budget of %v in wall-clock time)", time.Since(t0).Round(time.Millisecond), c.budget))
		}
	}
}

var zoektFrameRe = regexp.MustCompile(`(?m)^github\.com/sourcegraph/zoekt/(\S+)\(`)

var blockedStates = []string{"chan receive", "chan send", "select", "semacquire", "sync.", "IO wait", "sleep", "syscall", "finalizer wait", "GC worker", "force gc", "GC sweep wait", "GC scavenge wait", "trace reader", "debug call", "cleanup wait"}

// stalledSites scores the zoekt frames on top of the goroutines that are not blocked in a
// goroutine dump: the goroutine that is busy inside zoekt, preferably allocating.
func stalledSites(dump string, votes map[string]int) {
	for _, blk := range strings.Split(dump, "\n\n") {
		head, _, _ := strings.Cut(blk, "\n")
		blocked := false
		for _, st := range blockedStates {
			if strings.Contains(head, "["+st) {
				blocked = true
			}
		}
		if blocked || strings.Contains(blk, "(*child).giveUp") || strings.Contains(blk, "(*child).monitor") || strings.Contains(blk, "runtime.runFinalizers") || strings.Contains(blk, "runtime.runfinq") {
			continue
		}
		lines := strings.Split(blk, "\n")
		for _, m := range zoektFrameRe.FindAllStringSubmatch(blk, -1) {
			f := m[1]
			if strings.Contains(f, "verifkit") || strings.Contains(f, "verifcheck") {
				continue
			}
			if i := strings.Index(f, "[...]"); i >= 0 {
				f = f[:i]
			}
			score := 1
			top := strings.Join(lines[:min(len(lines), 14)], "\n")
			for _, a := range []string{"runtime.growslice", "runtime.mallocgc", "runtime.makeslice", "runtime.memmove", "runtime.memclr"} {
				if strings.Contains(top, a) {
					score = 3
				}
			}
			if strings.Contains(top, m[0]) {
				score++
			}
			if strings.HasPrefix(f, "index.") {
				score += 2 // the readers and decoders live there; search.* frames are the callers
			}
			votes[f] += score
			break
		}
	}
}

// biggestHolder reads the heap profile (allocations of 512 KiB and more are always
// sampled) and returns the innermost zoekt frame of the allocation site that holds
// the most live memory, "" when nothing holds 16 MiB.
func biggestHolder() string {
	runtime.GC() // the profile is as of the last completed cycle
	n, _ := runtime.MemProfile(nil, true)
	recs := make([]runtime.MemProfileRecord, n+100)
	n, ok := runtime.MemProfile(recs, true)
	if !ok {
		return ""
	}
	held := map[string]int64{}
	for _, r := range recs[:n] {
		if r.InUseBytes() < 1<<20 {
			continue
		}
		frames := runtime.CallersFrames(r.Stack())
		for {
			f, more := frames.Next()
			if fn, ok := strings.CutPrefix(f.Function, "github.com/sourcegraph/zoekt/"); ok && !strings.Contains(fn, "verifkit") && !strings.Contains(fn, "verifcheck") {
				if i := strings.Index(fn, "[...]"); i >= 0 {
					fn = fn[:i]
				}
				held[fn] += r.InUseBytes()
				break
			}
			if !more {
				break
			}
		}
	}
	site, most := "", int64(16<<20)
	for f, b := range held {
		if b > most || (b == most && f < site) {
			site, most = f, b
		}
	}
	return site
}

// giveUp dumps the goroutines (the parent takes the stalled zoekt frame from the
// C11-SITE line) and ends the child with a status of its own.
func (c *child) giveUp(lc loggedCase, status int, why string) {
	pprof.StopCPUProfile()
	votes := map[string]int{}
	var first string
	for i := 0; i < 5; i++ {
		var sb strings.Builder
		_ = pprof.Lookup("goroutine").WriteTo(&sb, 2)
		stalledSites(sb.String(), votes)
		if i == 0 {
			first = sb.String()
		}
		time.Sleep(3 * time.Millisecond)
	}
	site, best := "?", 0
	for f, n := range votes {
		if n > best || (n == best && f < site) {
			site, best = f, n
		}
	}
	if status == exitRunaway {
		// who holds the memory says more than who happens to be running: the site is
		// the zoekt frame of the allocation that holds most of the live heap
		if f := biggestHolder(); f != "" {
			site = f
		}
	}
	fmt.Fprintf(os.Stderr, "\nC11-GIVE-UP case %d %s phase %s %s: %s\nC11-SITE %s\n%s\n", lc.I, lc.ID, lc.Phase, lc.Op, why, site, clip(first, 20000))
	os.Exit(status)
}

func (c *child) tellParent(r sideRec) {
	if c.side == nil || c.sideSeen[r.Sig] {
		return
	}
	c.sideSeen[r.Sig] = true
	b, _ := json.Marshal(r)
	c.side.Write(append(b, '\n'))
}

func linkOrCopy(src, dst string) error {
	if err := os.Link(src, dst); err == nil {
		return nil
	}
	b, err := os.ReadFile(src)
	if err != nil {
		return err
	}
	return os.WriteFile(dst, b, 0o644)
}

// caseDir makes a fresh directory holding the healthy shards and, when m is not nil,
// the corrupted subject. Files are never modified once written.
func (c *child) caseDir(name string, m *mutation) (dir, shard string, err error) {
	dir = filepath.Join(c.work, name)
	if err = os.MkdirAll(dir, 0o755); err != nil {
		return
	}
	for _, h := range c.w.Healthy {
		if err = linkOrCopy(filepath.Join(c.root, "healthy", h), filepath.Join(dir, h)); err != nil {
			return
		}
	}
	if m != nil {
		shard = filepath.Join(dir, c.w.Subjects[c.k].File)
		if err = os.WriteFile(shard, m.apply(c.s.Bytes), 0o644); err != nil {
			return
		}
		if m.HasMeta {
			err = os.WriteFile(shard+".meta", m.Meta, 0o644)
		}
	}
	return
}

func (c *child) makeBaseline() error {
	dir, _, err := c.caseDir("baseline", nil)
	if err != nil {
		return err
	}
	defer os.RemoveAll(dir)
	ds, err := search.NewDirectorySearcher(dir)
	if err != nil {
		return err
	}
	defer ds.Close()
	c.baseline = map[string]opResult{}
	for _, o := range c.full {
		r := c.run(ds, o)
		if r.Err != "" {
			return fmt.Errorf("baseline %s: %s", o.Name, r.Err)
		}
		if r.Crashes != 0 {
			return fmt.Errorf("baseline %s: %d crashes", o.Name, r.Crashes)
		}
		c.baseline[o.Name] = r
	}
	return nil
}

// errClass makes a stable class of an error message: paths, numbers and quoted text go.
var pathRe = regexp.MustCompile(`/[^\s:,]+`)

func errClass(s string) string {
	return clip(kit.MsgClass(pathRe.ReplaceAllString(s, "<path>")), 80)
}

// loadDirect is the loader's code path (search.loadShard, then mkRankedShard's List).
func loadDirect(path string) (s zoekt.Searcher, step string, err error) {
	step = "os.Open"
	f, err := os.Open(path)
	if err != nil {
		return nil, step, err
	}
	step = "index.NewIndexFile"
	iFile, err := index.NewIndexFile(f)
	if err != nil {
		return nil, step, err
	}
	step = "index.NewSearcher"
	s, err = index.NewSearcher(iFile)
	if err != nil {
		iFile.Close()
		return nil, step, err
	}
	return s, "", nil
}

func (c *child) oneCase(i int) {
	rec := c.rec
	m := &c.muts[i]
	c.phase(i, "load", "direct")
	c.armTimer()
	dir, shard, err := c.caseDir(fmt.Sprintf("c%d", c.base+i), m)
	if err != nil {
		rec.Violation("harness/case dir", err.Error(), nil)
		return
	}
	defer os.RemoveAll(dir)
	rec.Count("corruptions", 1)
	rec.Count("corruptions_"+m.Kind, 1)
	changed := m.HasMeta || string(m.apply(c.s.Bytes)) != string(c.s.Bytes)
	rec.Case(c.s.Name+"/"+m.ID, changed, func() any {
		return map[string]any{"subject": c.s.Name, "shape": c.w.Subjects[c.k].Shape, "corruption": describe(m, c.s.Bytes)}
	})

	// 1. the loader's code path under recover
	var direct zoekt.Searcher
	var step string
	var lerr error
	msg, stack, panicked := kit.Guard(func() {
		direct, step, lerr = loadDirect(shard)
		if lerr == nil {
			step = "mkRankedShard: Searcher.List(TRUE, nil)"
			_, _ = direct.List(context.Background(), &query.Const{Value: true}, nil)
			step = ""
		}
	})
	switch {
	case panicked:
		sig := "load/" + panicClass(msg) + "/" + strings.TrimPrefix(kit.PanicSite(stack), "/")
		rec.Count("load_panicked", 1)
		rec.Count("load_panicked_kind_"+m.Kind, 1)
		rec.Count("cases_at "+sig, 1)
		c.tellParent(sideRec{Type: "loadpanic", Sig: sig, Subj: c.k, I: c.base + i, ID: m.ID, Step: step, Msg: msg, Stack: stack})
		rec.Count("directory_searcher_not_started_after_loader_panic", 1)
		return
	case lerr != nil:
		rec.Count("rejected_at_load", 1)
		rec.Count("rejected_at_load_kind_"+m.Kind, 1)
		rec.Seen("load_error_classes", step+": "+errClass(lerr.Error()))
	default:
		rec.Count("loaded", 1)
		rec.Count("loaded_kind_"+m.Kind, 1)
		defer direct.Close()
	}
	loaded := direct != nil
	if !loaded && c.rejectedEvery > 1 && (c.base+i)%c.rejectedEvery != 0 {
		// quick tier: a rejected shard takes the same path through the loader every time
		// (error logged, shard skipped); the directory searcher is started for a sample
		rec.Count("rejected_cases_without_directory_searcher", 1)
		c.stopTimer()
		return
	}

	// 2. the directory searcher over healthy + corrupt
	c.phase(i, "load", "search.NewDirectorySearcher")
	ds, err := search.NewDirectorySearcher(dir)
	if err != nil {
		rec.Count("directory_searcher_errors", 1)
		rec.Seen("directory_searcher_error_classes", errClass(err.Error()))
		return
	}
	ops := c.reduced
	if loaded {
		ops = c.full
	}
	for _, o := range ops {
		c.phase(i, o.Kind, o.Name)
		r := c.run(ds, o)
		c.judge(i, o, r, loaded)
	}
	c.phase(i, "close", "")
	ds.Close()

	// 3. the corrupt shard's own searcher
	if loaded {
		for _, o := range c.directOps {
			c.phase(i, "direct-"+o.Kind, o.Name)
			var r opResult
			msg, stack, p := kit.Guard(func() { r = c.run(direct, o) })
			rec.Count("direct_ops_on_loaded_corrupt_shard", 1)
			switch {
			case p:
				rec.Count("direct_ops_panicked_contained_by_design", 1)
				rec.Seen("contained_panic_sites", o.Kind+": "+panicClass(msg)+" @ "+strings.TrimPrefix(kit.PanicSite(stack), "/"))
			case r.Err != "":
				rec.Count("direct_ops_returned_error", 1)
				rec.Seen("direct_op_error_classes", o.Kind+": "+errClass(r.Err))
			}
		}
	}
	c.stopTimer()
}

// confirm starts the directory searcher on the corrupt case without any recover.
func (c *child) confirm(i int) {
	m := &c.muts[i]
	c.phase(i, "load", "search.NewDirectorySearcher")
	c.armTimer()
	dir, _, err := c.caseDir(fmt.Sprintf("confirm%d", i), m)
	if err != nil {
		c.rec.Violation("harness/case dir", err.Error(), nil)
		return
	}
	defer os.RemoveAll(dir)
	ds, err := search.NewDirectorySearcher(dir)
	if err == nil {
		for _, o := range c.reduced {
			c.run(ds, o)
		}
		ds.Close()
	}
	c.stopTimer()
}

// judge compares what the directory searcher returned for the healthy repositories.
func (c *child) judge(i int, o op, r opResult, loaded bool) {
	rec := c.rec
	m := &c.muts[i]
	rec.Count("directory_ops", 1)
	if loaded {
		rec.Count("directory_"+o.Kind+"_ops_over_a_loaded_corrupt_shard", 1)
	}
	if r.Crashes > 0 {
		rec.Count("directory_ops_reporting_crashes", 1)
	}
	wit := func() map[string]any {
		return map[string]any{"subject": c.s.Name, "subject_file": c.w.Subjects[c.k].File, "case_index": c.base + i, "corruption": describe(m, c.s.Bytes), "op": o.Name, "query": o.Q.String(),
			"corrupt_shard_loaded": loaded, "crashes_reported": r.Crashes, "subject_shard_b64": base64.StdEncoding.EncodeToString(c.s.Bytes)}
	}
	base := c.baseline[o.Name]
	if r.Err != "" {
		rec.Count("directory_ops_returned_error", 1)
		w := wit()
		w["error"] = r.Err
		w["healthy_results_expected"] = len(base.Healthy)
		rec.Violation(o.Kind+"/error-instead-of-healthy-results/"+errClass(r.Err),
			fmt.Sprintf("%s over {healthy shards + corrupt shard} returns the error %q and no results at all; without the corrupt shard it returns %d entries of the healthy repositories (shard %s, corruption %s)", o.Name, clip(r.Err, 200), len(base.Healthy), c.w.Subjects[c.k].File, m.ID), w)
		return
	}
	if d := diffStrings(base.Healthy, r.Healthy); d != "" {
		w := wit()
		w["difference"] = d
		rec.Violation(o.Kind+"/healthy-results-differ", fmt.Sprintf("%s: the entries of the healthy repositories differ from the run without the corrupt shard: %s (shard %s, corruption %s)", o.Name, clip(d, 300), c.w.Subjects[c.k].File, m.ID), w)
		return
	}
	rec.Count("directory_ops_healthy_results_equal", 1)
}

func diffStrings(want, got []string) string {
	ws, gs := map[string]int{}, map[string]int{}
	for _, s := range want {
		ws[s]++
	}
	for _, s := range got {
		gs[s]++
	}
	var miss, extra []string
	for s, n := range ws {
		if gs[s] < n {
			miss = append(miss, clip(s, 120))
		}
	}
	for s, n := range gs {
		if ws[s] < n {
			extra = append(extra, clip(s, 120))
		}
	}
	if len(miss)+len(extra) == 0 {
		return ""
	}
	sort.Strings(miss)
	sort.Strings(extra)
	return fmt.Sprintf("missing %d %q, unexpected %d %q", len(miss), miss[:min(3, len(miss))], len(extra), extra[:min(3, len(extra))])
}

// ---------------------------------------------------------------------------
// battery

type op struct {
	Name string
	Kind string // search | list
	Q    query.Q
	SO   zoekt.SearchOptions
	LO   *zoekt.ListOptions
}

type opResult struct {
	Err     string
	Crashes int
	Healthy []string // normalised entries of the healthy repositories
	Others  int      // entries attributed to other (the corrupt shard's) repositories
}

func mustParse(s string) query.Q {
	q, err := query.Parse(s)
	if err != nil {
		panic(fmt.Sprintf("battery query %q: %v", s, err))
	}
	return q
}

// battery: content substring, regexp, file name, symbol, branch, repository filters,
// type:repo, whole-content reads, both result formats; lists with every ListOptions
// value. The reduced battery runs when the corrupt shard was rejected at load.
func battery() (full, reduced []op) {
	whole := zoekt.SearchOptions{Whole: true}
	chunks := zoekt.SearchOptions{Whole: true, ChunkMatches: true, NumContextLines: 2}
	ctx := zoekt.SearchOptions{NumContextLines: 1, DebugScore: true}
	bm25 := zoekt.SearchOptions{UseBM25Scoring: true, ChunkMatches: true}
	ids := roaring.BitmapOf(healthyIDs[0], healthyIDs[2], subjectIDs[0], subjectIDs[1])
	s := func(name string, q query.Q, o zoekt.SearchOptions) {
		full = append(full, op{Name: name, Kind: "search", Q: q, SO: o})
	}
	s("content substring", mustParse("ab"), whole)
	s("content substring case-sensitive chunks", mustParse("case:yes Abc"), chunks)
	s("content regexp", mustParse("a.c|b+a"), whole)
	s("content regexp word chunks", mustParse(`\bab\b`), chunks)
	s("file name substring", mustParse(`f:ab`), whole)
	s("file name regexp chunks", mustParse(`f:\.go$|\.txt$`), chunks)
	s("symbol substring chunks", &query.Symbol{Expr: &query.Substring{Pattern: "bca"}}, chunks)
	s("symbol regexp", mustParse(`sym:b.a|abc`), ctx)
	s("branch", mustParse("b:dev abc"), whole)
	s("branch exact", &query.And{Children: []query.Q{&query.Branch{Pattern: "HEAD", Exact: true}, &query.Substring{Pattern: "ab"}}}, ctx)
	s("repo filter healthy", mustParse("r:healthy ab"), whole)
	s("repo filter subject", mustParse("r:subject|cmp abc"), chunks)
	s("repo ids", &query.And{Children: []query.Q{&query.RepoIDs{Repos: ids}, &query.Substring{Pattern: "abc"}}}, whole)
	s("repo set", &query.And{Children: []query.Q{&query.RepoSet{Set: map[string]bool{healthyNames[1]: true, healthyNames[3]: true, "subject/s0/first": true, "subject/s1/left": true}}, &query.Substring{Pattern: "ab"}}}, ctx)
	s("branches repos", &query.And{Children: []query.Q{&query.BranchesRepos{List: []query.BranchRepos{{Branch: "dev", Repos: ids}, {Branch: "HEAD", Repos: roaring.BitmapOf(healthyIDs[3], subjectIDs[2])}}}, &query.Substring{Pattern: "ab"}}}, whole)
	s("type:repo", mustParse("type:repo abc"), whole)
	s("type:file", mustParse("type:file abc"), ctx)
	s("everything whole", &query.Const{Value: true}, whole)
	s("everything chunks", &query.Const{Value: true}, chunks)
	s("language", mustParse("lang:go ab"), chunks)
	s("negation", mustParse("-abc ab"), whole)
	s("or of name and content", mustParse("f:only or bca"), chunks)
	s("raw config and meta", mustParse("archived:no fork:no (meta.k:ab or abc)"), ctx)
	s("bm25", mustParse("abc ab"), bm25)
	s("limits", mustParse("a"), zoekt.SearchOptions{ShardMaxMatchCount: 3, ChunkMatches: true, ShardRepoMaxMatchCount: 2})
	l := func(name string, q query.Q, o *zoekt.ListOptions) {
		full = append(full, op{Name: name, Kind: "list", Q: q, LO: o})
	}
	l("list all, nil options", &query.Const{Value: true}, nil)
	l("list all, repos", &query.Const{Value: true}, &zoekt.ListOptions{Field: zoekt.RepoListFieldRepos})
	l("list all, repos map", &query.Const{Value: true}, &zoekt.ListOptions{Field: zoekt.RepoListFieldReposMap})
	l("list repo regexp", mustParse("r:healthy|subject"), &zoekt.ListOptions{Field: zoekt.RepoListFieldRepos})
	l("list by content, repos map", mustParse("abc"), &zoekt.ListOptions{Field: zoekt.RepoListFieldReposMap})
	l("list by symbol and branch", mustParse("sym:bca b:HEAD"), &zoekt.ListOptions{})
	l("list repo ids", &query.RepoIDs{Repos: ids}, &zoekt.ListOptions{Field: zoekt.RepoListFieldReposMap})
	l("list unsupported field", &query.Const{Value: true}, &zoekt.ListOptions{Field: 1})
	for _, o := range full {
		switch o.Name {
		case "content substring", "everything chunks", "list all, nil options", "list by content, repos map":
			reduced = append(reduced, o)
		}
	}
	return
}

var c11bg = context.Background()

func hashOf(b []byte) string {
	h := sha1.Sum(b)
	return fmt.Sprintf("%x", h[:8])
}

// run executes one battery entry and normalises what it returns for the healthy
// repositories (order, scores and timings are not part of it).
func (c *child) run(s zoekt.Searcher, o op) (r opResult) {
	switch o.Kind {
	case "search":
		so := o.SO
		sr, err := s.Search(c11bg, o.Q, &so)
		if err != nil {
			r.Err = err.Error()
			return
		}
		r.Crashes = sr.Stats.Crashes
		for i := range sr.Files {
			f := sr.Files[i]
			if !c.healthyN[f.Repository] {
				r.Others++
				continue
			}
			f.Score, f.Debug, f.RepositoryPriority = 0, "", 0
			for j := range f.LineMatches {
				f.LineMatches[j].Score, f.LineMatches[j].DebugScore = 0, ""
			}
			for j := range f.ChunkMatches {
				f.ChunkMatches[j].Score, f.ChunkMatches[j].DebugScore, f.ChunkMatches[j].BestLineMatch = 0, "", 0
			}
			b, err := json.Marshal(&f)
			if err != nil {
				b = []byte(fmt.Sprintf("unmarshalable %v", err))
			}
			r.Healthy = append(r.Healthy, f.Repository+" "+f.FileName+" "+fmt.Sprint(f.Branches)+" "+hashOf(b))
		}
	case "list":
		if o.LO != nil && o.LO.Field == 1 {
			// the documented error of an unsupported field; it must stay that error
			_, err := s.List(c11bg, o.Q, o.LO)
			if err == nil {
				r.Healthy = []string{"no error"}
			} else {
				r.Healthy = []string{"error: " + err.Error()}
			}
			return
		}
		rl, err := s.List(c11bg, o.Q, o.LO)
		if err != nil {
			r.Err = err.Error()
			return
		}
		r.Crashes = rl.Crashes
		for _, e := range rl.Repos {
			if e == nil || !c.healthyN[e.Repository.Name] {
				r.Others++
				continue
			}
			b, _ := json.Marshal(e)
			r.Healthy = append(r.Healthy, "repos: "+e.Repository.Name+" "+hashOf(b))
		}
		for id, e := range rl.ReposMap {
			if !c.healthyI[id] {
				r.Others++
				continue
			}
			b, _ := json.Marshal(e)
			r.Healthy = append(r.Healthy, fmt.Sprintf("reposmap: %#x %s", id, b))
		}
	}
	sort.Strings(r.Healthy)
	return
}
