package rw

import (
	"context"
	"fmt"
	"os"
	"testing"

	"github.com/sourcegraph/zoekt"
)

func TestDebugC08(t *testing.T) {
	u := c08NewUniverse()
	cases, docs := c08CasesFor(u, 'i')
	content := map[string]string{}
	var names []string
	for _, d := range docs {
		if _, ok := content[d]; !ok {
			content[d] = d
			names = append(names, d)
			fmt.Printf("doc %q\n", d)
		}
	}
	dir, _ := os.MkdirTemp("", "builderJ-dbg")
	defer os.RemoveAll(dir)
	s, err := c08Build(dir, names, content)
	if err != nil {
		t.Fatal(err)
	}
	for _, cs := range cases {
		if len(cs.pattern) < 8 {
			continue
		}
		for _, form := range []string{"substring"} {
			q, _, _ := c08Query(form, cs.pattern, "content")
			sr, err := s.Search(context.Background(), q, &zoekt.SearchOptions{ChunkMatches: true, DebugScore: true})
			fmt.Printf("%s %q %s -> %d files %v stats %+v\n", cs.shape, cs.pattern, form, len(sr.Files), err, sr.Stats)
		}
	}
}
