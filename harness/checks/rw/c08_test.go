// Package rw holds black-box monitors of query rewriting / evaluation-form equivalence.
package rw

// C08: case-insensitive literal and regexp search agree on all Unicode text.
//
// The statement's specification is AGREEMENT: the same literal, searched case
// insensitively as query.Substring and as an equivalent query.Regexp, returns the same
// files with the same match ranges. Go's `(?i)`+QuoteMeta(p) is consulted only to say
// which side is off (it is written into the witness, it is not a second oracle).
//
// Forms of "the equivalent regular expression" (what zoekt does with each was read off
// index/eval.go regexpToMatchTreeRecursive and verified with regexp/syntax):
//
//	engine       x(?:)y(?:)z   concat of one-rune literals: no literal piece reaches the
//	                           trigram index, the regexp engine alone decides
//	prefiltered  ()xyz         regexp engine AND a substring pre-filter for "xyz" (how
//	                           every real regexp that contains a literal is evaluated)
//	collapsed    [x]yz         regexp/syntax turns it into the literal "xyz": zoekt
//	                           evaluates it with the substring matcher (isEqual)
//	captured     (xyz)         a capture around a literal: substring matcher as well
//	parsed       query.RegexpQuery(QuoteMeta(xyz)): the parser's literal optimisation
//
// Patterns shorter than 3 runes go to the regexp engine in both forms.
//
// Workload:
//	(1) EXHAUSTIVE single-rune sub-space: every rune r with a non-trivial SimpleFold
//	    orbit or ToLower/ToUpper/ToTitle != r, patterns r.. / .r. / ..r (pads "ab"),
//	    r / ra (< 3 runes) and the 8-rune patterns r+pad7, pad7+r (pads chosen and
//	    filler documents added so that the two trigrams zoekt selects do not contain r),
//	    against documents holding every partner c of r (SimpleFold orbit, To* images,
//	    and the runes that have r among theirs) at the same position, pads in lower and
//	    in upper case, as content and as file name.
//	(2) random multi-script strings over small per-shard alphabets of fold orbits.

import (
	"context"
	"fmt"
	grafanaregexp "github.com/grafana/regexp"
	"os"
	"path/filepath"
	"regexp"
	"regexp/syntax"
	"runtime"
	"sort"
	"strings"
	"sync"
	"testing"
	"time"
	"unicode"
	"unicode/utf8"

	"github.com/sourcegraph/zoekt"
	kit "github.com/sourcegraph/zoekt/internal/verifkit"
	"github.com/sourcegraph/zoekt/internal/verifkit/ix"
	"github.com/sourcegraph/zoekt/query"
)

func TestVerif_C08(t *testing.T) {
	rec := kit.Open("C08")
	defer rec.Done()
	u := c08NewUniverse()
	t0 := time.Now()
	c08Exhaustive(rec, u)
	c08Dense(rec, u)
	t1 := time.Now()
	c08Random(rec, u)
	// wall clock is reported for sizing only, no verdict depends on it
	rec.Note("phase_seconds", map[string]any{"exhaustive": t1.Sub(t0).Seconds(), "random": time.Since(t1).Seconds()})
}

// ---------------------------------------------------------------------------
// Unicode side: universe, partners, relation of a pattern rune to a content rune

type c08Universe struct {
	runes    []rune
	index    map[rune]int
	partners map[rune][]rune // symmetric, includes the rune itself, sorted
}

func c08Valid(r rune) bool { return r >= 0 && r <= unicode.MaxRune && (r < 0xd800 || r > 0xdfff) }

func c08Orbit(r rune) []rune {
	out := []rune{r}
	for c := unicode.SimpleFold(r); c != r; c = unicode.SimpleFold(c) {
		out = append(out, c)
	}
	return out
}

func c08InOrbit(p, c rune) bool {
	for _, x := range c08Orbit(p) {
		if x == c {
			return true
		}
	}
	return false
}

func c08NewUniverse() *c08Universe {
	u := &c08Universe{index: map[rune]int{}, partners: map[rune][]rune{}}
	set := map[rune]map[rune]bool{}
	add := func(a, b rune) {
		if set[a] == nil {
			set[a] = map[rune]bool{}
		}
		set[a][b] = true
	}
	for r := rune(0); r <= unicode.MaxRune; r++ {
		if !c08Valid(r) {
			continue
		}
		if unicode.SimpleFold(r) == r && unicode.ToLower(r) == r && unicode.ToUpper(r) == r && unicode.ToTitle(r) == r {
			continue
		}
		u.index[r] = len(u.runes)
		u.runes = append(u.runes, r)
		for _, c := range append(c08Orbit(r), unicode.ToLower(r), unicode.ToUpper(r), unicode.ToTitle(r)) {
			add(r, c)
			add(c, r)
		}
	}
	for r, m := range set {
		var l []rune
		for c := range m {
			l = append(l, c)
		}
		sort.Slice(l, func(i, j int) bool { return l[i] < l[j] })
		u.partners[r] = l
	}
	return u
}

// relation of a pattern rune p to a content rune c, most suspicious first.
var c08RelationOrder = []string{
	"same-lower-outside-fold-orbit", // ToLower agrees, SimpleFold does not (U+0130 / i)
	"fold-orbit-different-lower",    // SimpleFold agrees, ToLower does not (s / U+017F, sigma / final sigma)
	"case-image-outside-fold-orbit", // only ToUpper/ToTitle relates them (U+0131 / I)
	"unrelated",
	"fold-orbit-same-lower",
	"same-rune",
}

func c08Relation(p, c rune) string {
	var rel string
	switch {
	case p == c:
		return "same-rune"
	case c08InOrbit(p, c):
		rel = "fold-orbit-different-lower"
		if unicode.ToLower(p) == unicode.ToLower(c) {
			rel = "fold-orbit-same-lower"
		}
	case unicode.ToLower(p) == unicode.ToLower(c):
		rel = "same-lower-outside-fold-orbit"
	case unicode.ToUpper(p) == c || unicode.ToTitle(p) == c || unicode.ToUpper(c) == p || unicode.ToTitle(c) == p || unicode.ToLower(p) == c || unicode.ToLower(c) == p:
		rel = "case-image-outside-fold-orbit"
	default:
		return "unrelated"
	}
	if utf8.RuneLen(p) != utf8.RuneLen(c) {
		rel += "+width"
	}
	if unicode.IsTitle(p) || unicode.IsTitle(c) {
		rel += "+titlecase"
	}
	return rel
}

func c08RelRank(rel string) int {
	base := rel
	if i := strings.IndexByte(rel, '+'); i >= 0 {
		base = rel[:i]
	}
	for i, x := range c08RelationOrder {
		if x == base {
			return i
		}
	}
	return len(c08RelationOrder)
}

// c08Decisive aligns pattern p with text at byte offset off and returns the most
// suspicious rune relation among the aligned positions, with the runes involved.
func c08Decisive(p, text string, off int) (rel string, pr, cr rune) {
	if off < 0 || off > len(text) {
		return "unaligned", 0, 0
	}
	rest := text[off:]
	best := len(c08RelationOrder) + 1
	rel = "unaligned"
	for _, x := range p {
		if rest == "" {
			return "unaligned", x, 0
		}
		c, sz := utf8.DecodeRuneInString(rest)
		rest = rest[sz:]
		r := c08Relation(x, c)
		if k := c08RelRank(r); k < best {
			best, rel, pr, cr = k, r, x, c
		}
	}
	return rel, pr, cr
}

func c08U(r rune) string { return fmt.Sprintf("U+%04X", r) }

// ---------------------------------------------------------------------------
// queries

var c08Forms = []string{"engine", "prefiltered", "collapsed", "captured", "parsed"}

func c08Quote(s string) string { return regexp.QuoteMeta(s) }

func c08Parse(src string) (*syntax.Regexp, error) {
	return syntax.Parse(src, kit.RegexpFlags)
}

// c08Query builds one form of the case-insensitive search for literal p in scope
// ("content" | "name"). ok=false: the form does not apply to this pattern.
func c08Query(form, p, scope string) (q query.Q, ok bool, err error) {
	name := scope == "name"
	rs := []rune(p)
	mk := func(src string) (query.Q, bool, error) {
		re, err := c08Parse(src)
		if err != nil {
			return nil, false, fmt.Errorf("%q: %w", src, err)
		}
		return &query.Regexp{Regexp: re, FileName: name, Content: !name, CaseSensitive: false}, true, nil
	}
	switch form {
	case "substring":
		return &query.Substring{Pattern: p, FileName: name, Content: !name, CaseSensitive: false}, true, nil
	case "engine":
		var parts []string
		for _, r := range rs {
			parts = append(parts, c08Quote(string(r)))
		}
		if len(parts) == 1 {
			return mk(parts[0] + "(?:)")
		}
		return mk(strings.Join(parts, "(?:)"))
	case "prefiltered":
		if len(rs) < 3 {
			return nil, false, nil
		}
		return mk("()" + c08Quote(p))
	case "collapsed":
		if len(rs) < 3 || strings.ContainsRune(`\]^-[`, rs[0]) {
			return nil, false, nil
		}
		return mk("[" + string(rs[0]) + "]" + c08Quote(string(rs[1:])))
	case "captured":
		if len(rs) < 3 {
			return nil, false, nil
		}
		return mk("(" + c08Quote(p) + ")")
	case "parsed":
		q, err := query.RegexpQuery(c08Quote(p), !name, name)
		if err != nil {
			return nil, false, err
		}
		switch s := q.(type) {
		case *query.Substring:
			s.CaseSensitive = false
		case *query.Regexp:
			s.CaseSensitive = false
		}
		return q, true, nil
	}
	return nil, false, fmt.Errorf("unknown form %s", form)
}

type c08Hits map[string][]kit.IV // file name -> ranges in the scope's text

func c08Search(s zoekt.Searcher, q query.Q, scope string) (c08Hits, error) {
	var sr *zoekt.SearchResult
	var err error
	if msg, stack, p := kit.Guard(func() {
		sr, err = s.Search(context.Background(), q, &zoekt.SearchOptions{ChunkMatches: true})
	}); p {
		return nil, fmt.Errorf("panic at %s: %s", kit.PanicSite(stack), msg)
	}
	if err != nil {
		return nil, err
	}
	out := c08Hits{}
	for _, f := range ix.Normalise(sr) {
		if scope == "name" {
			out[f.Name] = append(out[f.Name], f.NameRanges...)
		} else {
			out[f.Name] = append(out[f.Name], f.Ranges...)
		}
	}
	return out, nil
}

func c08SameIVs(a, b []kit.IV) bool {
	if len(a) != len(b) {
		return false
	}
	for i := range a {
		if a[i] != b[i] {
			return false
		}
	}
	return true
}

// first interval that is in exactly one of the two sorted lists
func c08FirstDiff(a, b []kit.IV) (iv kit.IV, inA bool) {
	in := func(l []kit.IV, x kit.IV) bool {
		for _, y := range l {
			if y == x {
				return true
			}
		}
		return false
	}
	best := kit.IV{S: -1}
	for _, x := range a {
		if !in(b, x) && (best.S < 0 || x.S < best.S) {
			best, inA = x, true
		}
	}
	for _, x := range b {
		if !in(a, x) && (best.S < 0 || x.S < best.S) {
			best, inA = x, false
		}
	}
	return best, inA
}

type c08Finding struct {
	sig, what string
	witness   map[string]any
	pair      string
}

// c08EngineItselfDiffers: for one of the sources, github.com/grafana/regexp (the
// engine zoekt compiles its regexps with) returns exactly b on text while Go's regexp
// returns something else for the same source — the disagreement is inside the
// dependency and zoekt adds nothing to it.
func c08EngineItselfDiffers(srcs []string, text string, b []kit.IV) bool {
	for _, src := range srcs {
		g, err := grafanaregexp.Compile("(?i)" + src)
		if err != nil {
			continue
		}
		r, err := regexp.Compile("(?i)" + src)
		if err != nil {
			continue
		}
		var gi, ri []kit.IV
		for _, l := range g.FindAllStringIndex(text, -1) {
			gi = append(gi, kit.IV{S: l[0], E: l[1]})
		}
		for _, l := range r.FindAllStringIndex(text, -1) {
			ri = append(ri, kit.IV{S: l[0], E: l[1]})
		}
		if c08SameIVs(b, gi) && !c08SameIVs(gi, ri) {
			return true
		}
	}
	return false
}

func c08Reference(p, text string) []kit.IV {
	re := regexp.MustCompile("(?i)" + regexp.QuoteMeta(p))
	var out []kit.IV
	for _, l := range re.FindAllStringIndex(text, -1) {
		out = append(out, kit.IV{S: l[0], E: l[1]})
	}
	return out
}

func c08Workers() int { return max(2, min(12, runtime.GOMAXPROCS(0)-2)) }

// c08World is one shard with its model.
type c08World struct {
	s     zoekt.Searcher
	text  map[string]map[string]string // scope -> file name -> text searched in that scope
	order []string                     // file names in the order the documents were added
	part  string

	layoutOnce sync.Once
	docStart   map[string][2]int // file name -> absolute (rune, byte) offset of its content in the shard
	sampleByte []int             // absolute byte offset of rune 100*k of the concatenated contents
}

// c08RuneOffsetFrequency mirrors index.runeOffsetFrequency: the shard keeps the byte
// offset of every 100th rune of the concatenated contents.
const c08RuneOffsetFrequency = 100

// offsetWindow returns how many bytes lie between the sampled rune offset in front of
// byte offset off of document name and that offset. zoekt's contentProvider.findOffset
// reads 3*100 bytes after the sample point to walk the remaining (< 100) runes.
func (w *c08World) offsetWindow(name string, off int) int {
	w.layoutOnce.Do(func() {
		w.docStart = map[string][2]int{}
		runes, bytes := 0, 0
		for _, n := range w.order {
			w.docStart[n] = [2]int{runes, bytes}
			for i := range w.text["content"][n] {
				if runes%c08RuneOffsetFrequency == 0 {
					w.sampleByte = append(w.sampleByte, bytes+i)
				}
				runes++
			}
			bytes += len(w.text["content"][n])
		}
	})
	st, ok := w.docStart[name]
	text := w.text["content"][name]
	if !ok || off < 0 || off > len(text) {
		return -1
	}
	absRune := st[0] + utf8.RuneCountInString(text[:off])
	k := absRune / c08RuneOffsetFrequency
	if k >= len(w.sampleByte) {
		return -1
	}
	return st[1] + off - w.sampleByte[k]
}

// c08MinFold is regexp/syntax's minFoldRune: the smallest rune of the fold orbit.
func c08MinFold(r rune) rune {
	m := r
	for _, c := range c08Orbit(r) {
		m = min(m, c)
	}
	return m
}

// c08PrefixWidthRule predicts what github.com/grafana/regexp returns for a regexp that
// is exactly the case-folded literal p: it looks for the literal prefix (stored as the
// minimum fold runes) by comparing windows of len(prefix) BYTES with EqualFold, so an
// occurrence whose UTF-8 length differs from the folded pattern's is never found.
func c08PrefixWidthRule(p, text string) []kit.IV {
	var fb strings.Builder
	for _, r := range p {
		fb.WriteRune(c08MinFold(r))
	}
	fp := fb.String()
	n := len(fp)
	var out []kit.IV
	for pos := 0; pos+n <= len(text); {
		if strings.EqualFold(text[pos:pos+n], fp) && utf8.ValidString(text[pos:pos+n]) {
			out = append(out, kit.IV{S: pos, E: pos + n})
			pos += n
			continue
		}
		_, w := utf8.DecodeRuneInString(text[pos:])
		pos += w
	}
	return out
}

// c08Classify names the disagreement between the substring ranges a and the regexp
// ranges b on one text: kind, the rune relation class (root cause), the runes involved.
func c08Classify(p, text string, a, b, ref []kit.IV, srcs []string) (kind, class string, pr, cr rune) {
	// root cause "regexp-literal-prefix-byte-width": the regexp form returns exactly
	// what the prefix-width rule predicts, and that is not what (?i) means. The rule
	// models a regexp that is one folded literal; when the engine keeps threads alive
	// across prefix jumps it finds more than the rule says. The engine itself is the
	// exact witness then: zoekt's regexp form returns precisely what grafana/regexp
	// returns for the same source and text, and Go's regexp disagrees with it.
	if !c08SameIVs(b, ref) && (c08SameIVs(b, c08PrefixWidthRule(p, text)) || c08EngineItselfDiffers(srcs, text, b)) {
		loc, _ := c08FirstDiff(b, ref)
		_, pr, cr = c08Decisive(p, text, loc.S)
		// the culprit is the first aligned rune whose width differs from its folded form
		rest := text[min(max(loc.S, 0), len(text)):]
		for _, x := range p {
			if rest == "" {
				break
			}
			c, sz := utf8.DecodeRuneInString(rest)
			rest = rest[sz:]
			if utf8.RuneLen(c) != utf8.RuneLen(c08MinFold(x)) {
				pr, cr = x, c
				break
			}
		}
		return "regexp-misses", "regexp-literal-prefix-byte-width", pr, cr
	}
	loc, inA := c08FirstDiff(a, b)
	kind = "substring-misses"
	if inA {
		kind = "regexp-misses"
	}
	for _, x := range a {
		for _, y := range b {
			if x.S == y.S && x.E != y.E && x.S <= loc.S {
				kind, loc = "ranges-differ", x
			}
		}
	}
	class, pr, cr = c08Decisive(p, text, loc.S)
	return kind, class, pr, cr
}

// compare runs every form of pattern p in scope and compares each regexp form with
// the substring form. It returns the findings and the substring / engine hits.
func (w *c08World) compare(rec *kit.Rec, p, scope string, forms []string) (out []c08Finding, sub, eng c08Hits) {
	fail := func(form string, err error) {
		out = append(out, c08Finding{sig: "search-error/" + form + "/" + scope + "/" + kit.MsgClass(err.Error()), what: fmt.Sprintf("pattern %q (%s): %v", p, c08Runes(p), err),
			witness: map[string]any{"pattern": p, "pattern_runes": c08Runes(p), "form": form, "scope": scope, "part": w.part}})
	}
	sq, _, _ := c08Query("substring", p, scope)
	sub, err := c08Search(w.s, sq, scope)
	rec.Count("searches", 1)
	if err != nil {
		fail("substring", err)
		return out, nil, nil
	}
	engDiffers := map[string]bool{}
	for _, form := range forms {
		q, ok, err := c08Query(form, p, scope)
		if err != nil {
			fail(form, err)
			continue
		}
		if !ok {
			continue
		}
		if ps, isSub := q.(*query.Substring); isSub && form == "parsed" && *ps == *(sq.(*query.Substring)) {
			// query.RegexpQuery returned the very same substring query: nothing to compare
			rec.Count("parsed_form_is_the_identical_substring_query", 1)
			continue
		}
		got, err := c08Search(w.s, q, scope)
		rec.Count("searches", 1)
		rec.Count("comparisons_substring_vs_"+form, 1)
		if err != nil {
			fail(form, err)
			continue
		}
		if form == "engine" {
			eng = got
		}
		var sorted []string
		for n := range sub {
			sorted = append(sorted, n)
		}
		for n := range got {
			if _, dup := sub[n]; !dup {
				sorted = append(sorted, n)
			}
		}
		sort.Strings(sorted)
		for _, n := range sorted {
			a, b := sub[n], got[n]
			if c08SameIVs(a, b) {
				continue
			}
			if form == "engine" {
				engDiffers[n] = true
			}
			if form == "prefiltered" && engDiffers[n] && c08SameIVs(b, eng[n]) {
				// engine AND pre-filter answers what the engine alone answers: already reported
				rec.Count("prefiltered_disagreements_identical_to_engine_form", 1)
				continue
			}
			text := w.text[scope][n]
			ref := c08Reference(p, text)
			srcs := []string{regexp.QuoteMeta(p)}
			if rq, isRe := q.(*query.Regexp); isRe {
				srcs = append(srcs, rq.Regexp.String())
			}
			kind, class, pr, cr := c08Classify(p, text, a, b, ref, srcs)
			family := "fold"
			if scope == "content" && kind == "substring-misses" {
				// not a folding matter: the occurrence lies more than 300 bytes behind the
				// sampled rune offset, where zoekt's rune -> byte conversion runs out of data
				if loc, _ := c08FirstDiff(a, b); w.offsetWindow(n, loc.S) > 3*c08RuneOffsetFrequency {
					family, class = "offset", "rune-offset-window-over-300-bytes"
				}
			}
			refSays := "the reference (?i) engine does not match this text"
			if len(ref) > 0 {
				refSays = fmt.Sprintf("the reference (?i) engine matches at %v", ref)
			}
			pair := fmt.Sprintf("%s pattern vs %s content", c08U(pr), c08U(cr))
			out = append(out, c08Finding{
				sig:  family + "/" + kind + "/" + form + "/" + scope + "/" + class,
				pair: pair + " / " + kind + " / " + class,
				what: fmt.Sprintf("%s: case-insensitive %q (%s) in %s %q (%s): substring form %v, %s regexp form %s %v; %s", pair, p, c08Runes(p), scope, text, c08Runes(text),
					a, form, q, b, refSays),
				witness: map[string]any{"pattern": p, "pattern_runes": c08Runes(p), "text": text, "text_runes": c08Runes(text), "scope": scope, "form": form,
					"regexp_query": q.String(), "substring_ranges": a, "regexp_ranges": b, "reference_ranges": ref, "class": class,
					"pattern_rune": c08U(pr), "content_rune": c08U(cr), "part": w.part, "shard_documents": len(w.text["name"]),
					"replay": "index one document whose " + scope + " is `text`, search Substring{Pattern, CaseSensitive:false} and the regexp_query"},
			})
		}
	}
	return out, sub, eng
}

func c08Runes(s string) string {
	var l []string
	for _, r := range s {
		if r < 0x80 && r > 0x20 {
			l = append(l, string(r))
		} else {
			l = append(l, c08U(r))
		}
	}
	return strings.Join(l, " ")
}

// c08Build writes docs (name -> content) into one simple shard and opens it.
func c08Build(dir string, names []string, content map[string]string) (zoekt.Searcher, error) {
	if err := os.MkdirAll(dir, 0o755); err != nil {
		return nil, err
	}
	r := &kit.Repo{Name: "c08", ID: 8, Branches: []kit.BranchV{{Name: "main", Version: "0000000000000000000000000000000000000008"}}}
	for _, n := range names {
		r.Docs = append(r.Docs, &kit.Doc{Name: n, Content: content[n], Branches: []string{"main"}, Language: "Text"})
	}
	p, err := ix.BuildSimple(dir, r)
	if err != nil {
		return nil, err
	}
	return ix.Open(p)
}

// ---------------------------------------------------------------------------
// (1) exhaustive single-rune sub-space

const c08Pre, c08Post = "→ ", " ←" // non-folding multi-byte context: rune offset != byte offset

// pad7 is a pseudo-random, per-rune unique string of 7 non-folding ASCII symbols.
func c08Pad7(i int) string {
	const sym = "0123456789#%&=~@"
	x := uint32(i+1) * 2654435761 & (1<<28 - 1)
	var b [7]byte
	for k := 0; k < 7; k++ {
		b[k] = sym[x&15]
		x >>= 4
	}
	return string(b[:])
}

type c08Case struct {
	r       rune
	shape   string
	pattern string
	targets map[rune]([]string) // partner -> texts holding it at the pattern's position
}

// c08CasesFor lists the patterns for rune r and the documents they are aimed at.
func c08CasesFor(u *c08Universe, r rune) (cases []c08Case, docs []string) {
	i := u.index[r]
	pad, padB := c08Pad7(2*i), c08Pad7(2*i+1) // the two long shapes must not share trigrams
	mk := func(shape string, build func(c rune, upper bool) string, bothPadCases bool, filler string) {
		cs := c08Case{r: r, shape: shape, pattern: build(r, false), targets: map[rune][]string{}}
		for _, c := range u.partners[r] {
			for _, up := range []bool{false, true} {
				if up && !bothPadCases {
					continue
				}
				t := c08Pre + build(c, up) + c08Post
				cs.targets[c] = append(cs.targets[c], t)
				docs = append(docs, t)
			}
		}
		if filler != "" {
			docs = append(docs, filler)
		}
		cases = append(cases, cs)
	}
	ab := func(up bool) (string, string) {
		if up {
			return "A", "B"
		}
		return "a", "b"
	}
	mk("r..", func(c rune, up bool) string { a, b := ab(up); return string(c) + a + b }, true, "")
	mk(".r.", func(c rune, up bool) string { a, b := ab(up); return a + string(c) + b }, true, "")
	mk("..r", func(c rune, up bool) string { a, b := ab(up); return a + b + string(c) }, true, "")
	// shorter than a trigram: documents of the shapes above hold them already
	short := func(shape, pattern string, holds func(c rune) []string) {
		cs := c08Case{r: r, shape: shape, pattern: pattern, targets: map[rune][]string{}}
		for _, c := range u.partners[r] {
			for _, t := range holds(c) {
				cs.targets[c] = append(cs.targets[c], c08Pre+t+c08Post)
			}
		}
		cases = append(cases, cs)
	}
	short("r", string(r), func(c rune) []string { return []string{string(c) + "ab", "a" + string(c) + "b", "ab" + string(c)} })
	short("ra", string(r)+"a", func(c rune) []string { return []string{string(c) + "ab", string(c) + "AB"} })
	// 8 runes; fillers make every trigram that contains (or is next to) r frequent, so
	// that the two trigrams zoekt selects (the rarest) are pure padding
	pr := []rune(string(r) + pad)
	fill := func(idx ...int) string {
		var b strings.Builder
		for k := 0; k < 16; k++ {
			for _, i := range idx {
				b.WriteString(string(pr[i:i+3]) + " ")
			}
		}
		return b.String()
	}
	mk("r.......", func(c rune, _ bool) string { return string(c) + pad }, false, fill(0, 1, 3, 4))
	pr = []rune(padB + string(r))
	mk(".......r", func(c rune, _ bool) string { return padB + string(c) }, false, fill(1, 2, 4, 5))
	return cases, docs
}

func c08Exhaustive(rec *kit.Rec, u *c08Universe) {
	const batch = 64
	orbitSizes := map[int]int{}
	for _, r := range u.runes {
		orbitSizes[len(c08Orbit(r))]++
		rec.Seen("orbit_sizes_seen", fmt.Sprint(len(c08Orbit(r))))
		rec.Seen("partner_set_sizes_seen", fmt.Sprint(len(u.partners[r])))
	}
	nb := (len(u.runes) + batch - 1) / batch
	results := make([][]c08Finding, nb)
	errs := make([]error, nb)
	var wg sync.WaitGroup
	sem := make(chan struct{}, c08Workers())
	for b := 0; b < nb; b++ {
		wg.Add(1)
		sem <- struct{}{}
		go func(b int) {
			defer wg.Done()
			defer func() { <-sem }()
			lo, hi := b*batch, min((b+1)*batch, len(u.runes))
			results[b], errs[b] = c08ExhaustiveBatch(rec, u, u.runes[lo:hi], b)
		}(b)
	}
	wg.Wait()
	pairs := map[string]bool{}
	for b := 0; b < nb; b++ {
		if errs[b] != nil {
			rec.Violation("harness/build", errs[b].Error(), nil)
			continue
		}
		for _, f := range results[b] {
			rec.Violation(f.sig, f.what, f.witness)
			if f.pair != "" {
				pairs[f.pair] = true
			}
		}
	}
	var pl []string
	for p := range pairs {
		pl = append(pl, p)
	}
	sort.Strings(pl)
	if len(pl) > 600 {
		pl = append(pl[:600], fmt.Sprintf("… %d more", len(pl)-600))
	}
	rec.Note("exhaustive_single_rune_subspace", map[string]any{
		"exhaustive": true, "runes_covered": len(u.runes), "orbit_size_histogram": fmt.Sprint(orbitSizes),
		"definition":             "every rune with SimpleFold(r) != r or ToLower/ToUpper/ToTitle(r) != r, as pattern rune at every position of the shapes r.. .r. ..r r....... .......r (content and name), r (name), ra (content), against every partner rune (SimpleFold orbit, To* images, symmetric closure) at that position, in file content and in file name",
		"disagreeing_rune_pairs": pl,
	})
}

func c08ExhaustiveBatch(rec *kit.Rec, u *c08Universe, runes []rune, b int) ([]c08Finding, error) {
	var cases []c08Case
	seen := map[string]bool{}
	var names []string
	for _, r := range runes {
		cs, docs := c08CasesFor(u, r)
		cases = append(cases, cs...)
		for _, d := range docs {
			if !seen[d] {
				seen[d] = true
				names = append(names, d)
			}
		}
	}
	content := map[string]string{}
	for _, n := range names {
		content[n] = n // the same text is the file name and the content
	}
	dir := filepath.Join(rec.Work, fmt.Sprintf("c08x%d", b))
	defer os.RemoveAll(dir)
	s, err := c08Build(dir, names, content)
	if err != nil {
		return nil, fmt.Errorf("batch %d: %w", b, err)
	}
	defer s.Close()
	rec.Count("exhaustive_shards", 1)
	rec.Count("exhaustive_documents", int64(len(names)))
	w := &c08World{s: s, text: map[string]map[string]string{"content": content, "name": content}, order: names, part: "exhaustive"}
	var out []c08Finding
	for _, cs := range cases {
		forms := c08Forms
		if utf8.RuneCountInString(cs.pattern) < 3 {
			forms = []string{"engine", "parsed"}
		}
		scopes := []string{"content", "name"}
		switch cs.shape { // both forms use the regexp engine below 3 runes: one scope each
		case "r":
			scopes = []string{"name"}
		case "ra":
			scopes = []string{"content"}
		}
		for _, scope := range scopes {
			fs, sub, eng := w.compare(rec, cs.pattern, scope, forms)
			out = append(out, fs...)
			folded := false
			for c, texts := range cs.targets {
				rel := c08Relation(cs.r, c)
				for _, t := range texts {
					_, sh := sub[t]
					_, eh := eng[t]
					state := "neither_matches"
					switch {
					case sh && eh:
						state = "both_match"
					case sh:
						state = "only_substring_matches"
					case eh:
						state = "only_engine_matches"
					}
					if (sh || eh) && t != c08Pre+cs.pattern+c08Post && !strings.Contains(t, cs.pattern) {
						folded = true
					}
					rec.Count("pairs/"+rel+"/"+state, 1)
					if state == "neither_matches" && strings.HasPrefix(rel, "fold-orbit") || state == "neither_matches" && rel == "same-rune" {
						// both forms agree, so the property holds; (?i) would match: evidence only
						rec.Count("pairs_where_both_forms_miss_a_simple_fold_partner", 1)
					}
					rec.Count("pairs_judged", 1)
				}
			}
			rec.Case(fmt.Sprintf("x|%d|%s|%s", cs.r, cs.shape, scope), folded, func() any {
				return map[string]any{"part": "exhaustive", "rune": c08U(cs.r), "shape": cs.shape, "pattern": cs.pattern, "scope": scope,
					"partners": c08Runes(string(u.partners[cs.r])), "substring_files": len(sub), "engine_files": len(eng)}
			})
		}
		rec.Count("runes_x_shapes", 1)
	}
	rec.Count("runes_covered", int64(len(runes)))
	return out, nil
}

// ---------------------------------------------------------------------------
// (1b) directed: scripts whose letters take 4 bytes (Deseret, Osage, Adlam, ...) packed
// densely, so that match positions lie far (in bytes) behind the sampled rune offsets.

func c08Dense(rec *kit.Rec, u *c08Universe) {
	var wide []rune // upper-case runes of 4 bytes that fold to a 4-byte partner
	for _, r := range u.runes {
		if utf8.RuneLen(r) == 4 && unicode.IsUpper(r) && utf8.RuneLen(unicode.ToLower(r)) == 4 {
			wide = append(wide, r)
		}
	}
	rec.Count("dense_wide_runes", int64(len(wide)))
	if len(wide) < 3 {
		return
	}
	R := rec.Rand(70000)
	content := map[string]string{}
	var names []string
	type target struct{ name, pattern string }
	var targets []target
	for d := 0; d < 90; d++ {
		var b strings.Builder
		n := 40 + R.IntN(90)
		if d%3 == 2 {
			n = R.IntN(12) // short documents that start far behind a sampled offset
		}
		for i := 0; i < n; i++ {
			b.WriteRune(unicode.ToLower(wide[R.IntN(len(wide))]))
		}
		// the occurrence, in upper case, unique to this document through its ordinal
		i0 := R.IntN(len(wide))
		occ := []rune{wide[i0], wide[(i0+1+d)%len(wide)], wide[(i0+2+2*d)%len(wide)], rune('0' + d%10), rune('0' + d/10)}
		b.WriteString(string(occ))
		for i := 0; i < R.IntN(20); i++ {
			b.WriteRune(unicode.ToLower(wide[R.IntN(len(wide))]))
		}
		name := fmt.Sprintf("dense%02d", d)
		content[name] = b.String()
		names = append(names, name)
		pat := []rune(string(occ))
		for i := 0; i < 3; i++ {
			pat[i] = unicode.ToLower(pat[i])
		}
		targets = append(targets, target{name, string(pat)})
	}
	dir := filepath.Join(rec.Work, "c08dense")
	defer os.RemoveAll(dir)
	s, err := c08Build(dir, names, content)
	if err != nil {
		rec.Violation("harness/build", err.Error(), nil)
		return
	}
	defer s.Close()
	nameText := map[string]string{}
	for _, n := range names {
		nameText[n] = n
	}
	w := &c08World{s: s, text: map[string]map[string]string{"content": content, "name": nameText}, order: names, part: "dense-4-byte-script"}
	for _, t := range targets {
		fs, sub, eng := w.compare(rec, t.pattern, "content", []string{"engine", "prefiltered", "collapsed", "captured"})
		for _, f := range fs {
			rec.Violation(f.sig, f.what, f.witness)
		}
		off := strings.Index(content[t.name], strings.ToUpper(t.pattern))
		win := w.offsetWindow(t.name, off)
		rec.Max("max_dense_bytes_behind_sampled_rune_offset", int64(win))
		if win > 3*c08RuneOffsetFrequency {
			rec.Count("dense_occurrences_more_than_300_bytes_behind_sample", 1)
		}
		_, sh := sub[t.name]
		_, eh := eng[t.name]
		rec.Count(fmt.Sprintf("dense_targets/substring=%v/engine=%v", sh, eh), 1)
		rec.Case("dense|"+t.name, sh || eh, func() any {
			return map[string]any{"part": "dense", "pattern_runes": c08Runes(t.pattern), "document": t.name, "bytes_behind_sample": win}
		})
	}
}

// ---------------------------------------------------------------------------
// (2) random multi-script strings

var c08Special = [][]rune{
	{'i', 'I', 0x130, 0x131}, {'k', 'K', 0x212a}, {'s', 'S', 0x17f}, {0x3c3, 0x3c2, 0x3a3}, {0xb5, 0x3bc, 0x39c},
	{0xdf, 0x1e9e}, {0x1c4, 0x1c5, 0x1c6}, {0x3b8, 0x398, 0x3d1, 0x3f4}, {0x432, 0x412, 0x1c80}, {0x10400, 0x10428},
	{0x2c65, 0x23a}, {0xe5, 0xc5, 0x212b}, {0x1e61, 0x1e60, 0x1e9b}, {0x3b9, 0x399, 0x345, 0x1fbe},
}

func c08Random(rec *kit.Rec, u *c08Universe) {
	nShards := rec.N(20, 1000)
	perShard := 1000
	results := make([][]c08Finding, nShards)
	errs := make([]error, nShards)
	var wg sync.WaitGroup
	sem := make(chan struct{}, c08Workers())
	for k := 0; k < nShards; k++ {
		wg.Add(1)
		sem <- struct{}{}
		go func(k int) {
			defer wg.Done()
			defer func() { <-sem }()
			results[k], errs[k] = c08RandomShard(rec, u, k, perShard)
		}(k)
	}
	wg.Wait()
	for k := 0; k < nShards; k++ {
		if errs[k] != nil {
			rec.Violation("harness/build", errs[k].Error(), nil)
			continue
		}
		for _, f := range results[k] {
			rec.Violation(f.sig, f.what, f.witness)
		}
	}
}

func c08RandomShard(rec *kit.Rec, u *c08Universe, k, nPat int) ([]c08Finding, error) {
	R := rec.Rand(uint64(80000 + k))
	// alphabet: a few fold families, the ASCII pads and inert multi-byte runes
	var fold []rune
	for i := 0; i < 2+R.IntN(4); i++ {
		fold = append(fold, u.partners[u.runes[R.IntN(len(u.runes))]]...)
	}
	for i := 0; i < 1+R.IntN(3); i++ {
		fold = append(fold, c08Special[R.IntN(len(c08Special))]...)
	}
	inert := []rune{' ', '.', '_', '1', '→', '😀', '中'}
	pads := []rune{'a', 'b', 'A'}
	pick := func() rune {
		switch x := R.IntN(10); {
		case x < 6:
			return fold[R.IntN(len(fold))]
		case x < 8:
			return pads[R.IntN(len(pads))]
		default:
			return inert[R.IntN(len(inert))]
		}
	}
	str := func(n int) string {
		rs := make([]rune, n)
		for i := range rs {
			rs[i] = pick()
		}
		return string(rs)
	}
	content := map[string]string{}
	var names []string
	for len(names) < 160 {
		n := "n" + fmt.Sprint(len(names)) + "/" + str(3+R.IntN(12))
		content[n] = str(4 + R.IntN(36))
		names = append(names, n)
	}
	dir := filepath.Join(rec.Work, fmt.Sprintf("c08r%d", k))
	defer os.RemoveAll(dir)
	s, err := c08Build(dir, names, content)
	if err != nil {
		return nil, fmt.Errorf("random shard %d: %w", k, err)
	}
	defer s.Close()
	nameText := map[string]string{}
	for _, n := range names {
		nameText[n] = n
	}
	w := &c08World{s: s, text: map[string]map[string]string{"content": content, "name": nameText}, order: names, part: "random"}
	rec.Count("random_shards", 1)
	var out []c08Finding
	for pi := 0; pi < nPat; pi++ {
		scope := "content"
		if R.IntN(3) == 0 {
			scope = "name"
		}
		src := []rune(w.text[scope][names[R.IntN(len(names))]])
		n := 3 + R.IntN(7)
		if R.IntN(7) == 0 {
			n = 1 + R.IntN(2)
		}
		n = min(n, len(src))
		st := R.IntN(len(src) - n + 1)
		pr := append([]rune(nil), src[st:st+n]...)
		for i := range pr {
			if ps := u.partners[pr[i]]; len(ps) > 0 && R.IntN(2) == 0 {
				pr[i] = ps[R.IntN(len(ps))]
			}
		}
		if R.IntN(10) == 0 {
			pr[R.IntN(len(pr))] = pick()
		}
		p := string(pr)
		forms := []string{"engine", "prefiltered", "parsed"}
		if len(pr) < 3 {
			forms = []string{"engine", "parsed"}
		}
		fs, sub, eng := w.compare(rec, p, scope, forms)
		out = append(out, fs...)
		folded := false
		for _, hits := range []c08Hits{sub, eng} {
			for n, ivs := range hits {
				t := w.text[scope][n]
				for _, iv := range ivs {
					if iv.S >= 0 && iv.E <= len(t) && iv.S <= iv.E && t[iv.S:iv.E] != p {
						folded = true
					}
				}
			}
		}
		rec.Count("random_patterns", 1)
		if folded {
			rec.Count("random_patterns_matched_through_folding", 1)
		}
		rec.Case(fmt.Sprintf("r|%d|%s|%s", k, scope, p), folded, func() any {
			return map[string]any{"part": "random", "pattern": p, "pattern_runes": c08Runes(p), "scope": scope, "substring_files": len(sub), "engine_files": len(eng)}
		})
	}
	return out, nil
}
