package webui

// skel_test.go: the observer of C36. A served page is parsed with the HTML5 parser of
// golang.org/x/net/html (what a browser would build) and reduced to
//   - a skeleton: element names, attribute names, comment nodes, the *code* of every
//     <script> element and event-handler attribute with its string literals blanked,
//     the text of <style> elements and style attributes, and the class of the URL
//     scheme of every URL attribute;
//   - the list of places where a canary token (carried by every hostile value) shows up.
// A canary may show up in text, in ordinary attribute values, in the non-scheme part of
// a URL attribute and inside a JavaScript string literal; anywhere else it is reported.

import (
	"bytes"
	"fmt"
	"regexp"
	"sort"
	"strings"

	"golang.org/x/net/html"
)

// canaryRe matches the tokens made by canary(): Cnry<POS><payload#>x<serial>.
// Element and attribute names are lower-cased by the parser, hence (?i).
var canaryRe = regexp.MustCompile(`(?i)cnry([a-z]{2})(\d\d)x(\d+)e`)

type finding struct {
	sig  string // coarse, stable
	what string
}

type pageInfo struct {
	// itemTag: "table" on result pages (one per file), "tr" on repository lists (one
	// per repository), "" elsewhere. Items are taken out of the skeleton (which keeps
	// their number) and compared as a bag: their order and, on truncated listings,
	// their selection depend on ranking and on name order, not on escaping.
	itemTag   string
	inItem    bool
	items     []string
	itemNames []map[string]int
	skel     string
	names    map[string]int      // multiset of element names and "@attr" names
	findings []finding           // canary / scheme problems
	contexts map[string][]string // canary (upper-cased) -> contexts it was rendered in
	nScript  int
	nStyle   int
}

var urlAttrs = map[string]bool{"href": true, "src": true, "action": true, "formaction": true, "data": true, "poster": true,
	"background": true, "cite": true, "codebase": true, "longdesc": true, "manifest": true, "icon": true, "xlink:href": true, "srcset": true, "ping": true}

var safeSchemes = map[string]bool{"": true, "http": true, "https": true, "mailto": true}

var schemeRe = regexp.MustCompile(`^[a-zA-Z][a-zA-Z0-9+.\-]*:`)

// urlScheme extracts the scheme the way a browser's URL parser does: leading and
// trailing C0 controls and spaces are stripped, tab / CR / LF are removed everywhere.
func urlScheme(v string) string {
	v = strings.TrimFunc(v, func(r rune) bool { return r <= 0x20 })
	v = strings.NewReplacer("\t", "", "\n", "", "\r", "").Replace(v)
	m := schemeRe.FindString(v)
	if m == "" {
		return ""
	}
	return strings.ToLower(m[:len(m)-1])
}

// jsSkeleton blanks the string literals and returns the remaining code. Comments are
// kept (a value rendered inside a comment is one newline away from being code).
func jsSkeleton(src string) string {
	var b strings.Builder
	i := 0
	for i < len(src) {
		c := src[i]
		switch {
		case c == '"' || c == '\'' || c == '`':
			q := c
			i++
			closed := false
			for i < len(src) {
				d := src[i]
				if d == '\\' && i+1 < len(src) {
					i += 2
					continue
				}
				if d == q {
					i++
					closed = true
					break
				}
				if q != '`' && (d == '\n' || d == '\r') {
					break
				}
				i++
			}
			if closed {
				b.WriteString(string(q) + "S" + string(q))
			} else {
				b.WriteString(string(q) + "UNTERMINATED")
			}
		case c == '/' && i+1 < len(src) && src[i+1] == '/':
			j := strings.IndexAny(src[i:], "\n\r")
			if j < 0 {
				j = len(src) - i
			}
			b.WriteString(src[i : i+j])
			i += j
		case c == '/' && i+1 < len(src) && src[i+1] == '*':
			j := strings.Index(src[i+2:], "*/")
			if j < 0 {
				b.WriteString(src[i:])
				i = len(src)
			} else {
				b.WriteString(src[i : i+2+j+2])
				i += 2 + j + 2
			}
		default:
			b.WriteByte(c)
			i++
		}
	}
	// whitespace is not structure
	return strings.Join(strings.Fields(b.String()), " ")
}

func canaryPos(c string) string { return strings.ToUpper(c[4:6]) }

func (p *pageInfo) note(canary, ctx string) {
	k := strings.ToUpper(canary)
	p.contexts[k] = append(p.contexts[k], ctx)
}

func (p *pageInfo) bad(sig, what string) {
	p.findings = append(p.findings, finding{sig, what})
}

func textOf(n *html.Node) string {
	var b strings.Builder
	for c := n.FirstChild; c != nil; c = c.NextSibling {
		if c.Type == html.TextNode {
			b.WriteString(c.Data)
		}
	}
	return b.String()
}

func clip(s string) string {
	if len(s) > 160 {
		return s[:160] + "…"
	}
	return s
}

func (p *pageInfo) walk(n *html.Node) string {
	switch n.Type {
	case html.CommentNode:
		for _, c := range canaryRe.FindAllString(n.Data, -1) {
			p.note(c, "comment")
		}
		return "#comment"
	case html.TextNode:
		parent := "?"
		if n.Parent != nil {
			parent = n.Parent.Data
		}
		if parent != "script" && parent != "style" {
			for _, c := range canaryRe.FindAllString(n.Data, -1) {
				p.note(c, "text:"+parent)
			}
		}
		return ""
	case html.DoctypeNode:
		return ""
	case html.DocumentNode:
		var parts []string
		for c := n.FirstChild; c != nil; c = c.NextSibling {
			if s := p.walk(c); s != "" {
				parts = append(parts, s)
			}
		}
		return strings.Join(parts, " ")
	case html.ElementNode:
	default:
		return ""
	}
	name := n.Data
	if n.Namespace != "" {
		name = n.Namespace + ":" + name
	}
	if !p.inItem && p.itemTag != "" && name == p.itemTag && (name != "tr" || (n.Parent != nil && n.Parent.Data == "tbody")) {
		saved := p.names
		p.names = map[string]int{}
		p.inItem = true
		it := p.walk(n)
		p.inItem = false
		p.items = append(p.items, it)
		p.itemNames = append(p.itemNames, p.names)
		p.names = saved
		return "ITEM"
	}
	p.names[name]++
	for _, c := range canaryRe.FindAllString(name, -1) {
		p.bad("canary/element-name/"+canaryPos(c), fmt.Sprintf("canary %s is part of the element name <%s>", c, clip(name)))
	}
	var b strings.Builder
	b.WriteString(name)
	if len(n.Attr) > 0 {
		b.WriteByte('[')
		for i, a := range n.Attr {
			key := a.Key
			if a.Namespace != "" {
				key = a.Namespace + ":" + key
			}
			p.names["@"+key]++
			if i > 0 {
				b.WriteByte(',')
			}
			b.WriteString(key)
			for _, c := range canaryRe.FindAllString(key, -1) {
				p.bad("canary/attribute-name/"+canaryPos(c), fmt.Sprintf("canary %s is part of an attribute name of <%s>: %q", c, name, clip(key)))
			}
			cans := canaryRe.FindAllString(a.Val, -1)
			switch {
			case strings.HasPrefix(key, "on"):
				code := jsSkeleton(a.Val)
				b.WriteString("{js:" + code + "}")
				inCode := map[string]bool{}
				for _, c := range canaryRe.FindAllString(code, -1) {
					inCode[strings.ToUpper(c)] = true
					p.bad("canary/event-handler-code/"+canaryPos(c), fmt.Sprintf("canary %s is JavaScript code (not a string literal) in <%s %s=…>: %q", c, name, key, clip(a.Val)))
				}
				for _, c := range cans {
					if !inCode[strings.ToUpper(c)] {
						p.note(c, "jsstring:"+name+"."+key)
					}
				}
			case key == "style":
				b.WriteString("{" + a.Val + "}")
				for _, c := range cans {
					p.bad("canary/style-attribute/"+canaryPos(c), fmt.Sprintf("canary %s inside the style attribute of <%s>: %q", c, name, clip(a.Val)))
				}
			case key == "srcdoc":
				for _, c := range cans {
					p.bad("canary/srcdoc/"+canaryPos(c), fmt.Sprintf("canary %s inside srcdoc of <%s>", c, name))
				}
			case urlAttrs[key]:
				sch := urlScheme(a.Val)
				if !safeSchemes[sch] {
					b.WriteString("{scheme:" + sch + "}")
					pos := "static"
					if len(cans) > 0 {
						pos = canaryPos(cans[0])
					}
					p.bad("scheme/"+name+"."+key+"/"+canaryRe.ReplaceAllString(sch, "CANARY")+"/"+pos, fmt.Sprintf("<%s %s=%q> has URL scheme %q", name, key, clip(a.Val), sch))
				}
				for _, c := range canaryRe.FindAllString(sch, -1) {
					p.bad("canary/url-scheme/"+canaryPos(c), fmt.Sprintf("canary %s is the URL scheme of <%s %s=%q>", c, name, key, clip(a.Val)))
				}
				for _, c := range cans {
					p.note(c, "url:"+name+"."+key)
				}
			default:
				for _, c := range cans {
					p.note(c, "attr:"+name+"."+key)
				}
			}
		}
		b.WriteByte(']')
	}
	switch name {
	case "script":
		p.nScript++
		src := textOf(n)
		code := jsSkeleton(src)
		b.WriteString("{js:" + code + "}")
		inCode := map[string]bool{}
		for _, c := range canaryRe.FindAllString(code, -1) {
			inCode[strings.ToUpper(c)] = true
			p.bad("canary/script-code/"+canaryPos(c), fmt.Sprintf("canary %s is JavaScript code (not inside a string literal) of a <script> element: %q", c, clip(code)))
		}
		for _, c := range canaryRe.FindAllString(src, -1) {
			if !inCode[strings.ToUpper(c)] {
				p.note(c, "jsstring:script")
			}
		}
		return b.String()
	case "style":
		p.nStyle++
		css := textOf(n)
		b.WriteString("{css:" + strings.Join(strings.Fields(css), " ") + "}")
		for _, c := range canaryRe.FindAllString(css, -1) {
			p.bad("canary/style-element/"+canaryPos(c), fmt.Sprintf("canary %s inside a <style> element", c))
		}
		return b.String()
	}
	var kids []string
	var kidNames []string
	for c := n.FirstChild; c != nil; c = c.NextSibling {
		if s := p.walk(c); s != "" {
			kids = append(kids, s)
			kn := ""
			if c.Type == html.ElementNode {
				kn = c.Data
			}
			kidNames = append(kidNames, kn)
		}
	}
	// Result tables and repository rows come in ranking / name order, which is not
	// structure: runs of sibling <table> / <tr> elements are sorted.
	for i := 0; i < len(kids); {
		j := i
		for j < len(kids) && kidNames[j] == kidNames[i] && (kidNames[i] == "table" || kidNames[i] == "tr") {
			j++
		}
		if j > i+1 {
			sort.Strings(kids[i:j])
		}
		if j == i {
			j++
		}
		i = j
	}
	if len(kids) > 0 {
		b.WriteString("(" + strings.Join(kids, " ") + ")")
	}
	return b.String()
}

func analyse(body []byte, itemTag string) (*pageInfo, error) {
	doc, err := html.Parse(bytes.NewReader(body))
	if err != nil {
		return nil, err
	}
	p := &pageInfo{names: map[string]int{}, contexts: map[string][]string{}, itemTag: itemTag}
	p.skel = p.walk(doc)
	return p, nil
}

// skelDiff describes how hostile differs from inert: a coarse class for the
// signature and a readable excerpt.
func skelDiff(h, i *pageInfo) (class, what string) {
	if h.skel == i.skel {
		return "", ""
	}
	var plus, minus []string
	for k, n := range h.names {
		if n > i.names[k] {
			plus = append(plus, "+"+k)
		}
	}
	for k, n := range i.names {
		if n > h.names[k] {
			minus = append(minus, "-"+k)
		}
	}
	sort.Strings(plus)
	sort.Strings(minus)
	switch {
	case len(plus) > 0:
		class = strings.Join(plus, "")
	case len(minus) > 0:
		class = strings.Join(minus, "")
	default:
		class = "same-names-different-structure"
	}
	if len(class) > 80 {
		class = class[:80]
	}
	class = canaryRe.ReplaceAllString(class, "CANARY")
	// first divergence
	a, b := h.skel, i.skel
	k := 0
	for k < len(a) && k < len(b) && a[k] == b[k] {
		k++
	}
	s := k - 120
	if s < 0 {
		s = 0
	}
	ea, eb := k+200, k+200
	if ea > len(a) {
		ea = len(a)
	}
	if eb > len(b) {
		eb = len(b)
	}
	what = fmt.Sprintf("skeletons diverge at offset %d\n hostile: …%s\n inert:   …%s\n element/attribute count differences: %v %v", k, a[s:ea], b[s:eb], plus, minus)
	return class, what
}

func bag(l []string) map[string]int {
	m := map[string]int{}
	for _, s := range l {
		m[s]++
	}
	return m
}

func sameBag(a, b []string) bool {
	if len(a) != len(b) {
		return false
	}
	ma, mb := bag(a), bag(b)
	for k, n := range ma {
		if mb[k] != n {
			return false
		}
	}
	return true
}

// itemDiff checks that every item of the hostile page has the skeleton of some item
// the inert twin shows (allowed = items of the twin page and of its untruncated form).
func itemDiff(h *pageInfo, allowed []*pageInfo) (class, what string) {
	ok := map[string]bool{}
	known := map[string]bool{}
	for _, a := range allowed {
		for i, it := range a.items {
			ok[it] = true
			for k := range a.itemNames[i] {
				known[k] = true
			}
		}
	}
	for i, it := range h.items {
		if ok[it] {
			continue
		}
		var plus []string
		for k := range h.itemNames[i] {
			if !known[k] {
				plus = append(plus, "+"+k)
			}
		}
		sort.Strings(plus)
		class = strings.Join(plus, "")
		if class == "" {
			class = "item-structure"
		}
		if len(class) > 80 {
			class = class[:80]
		}
		class = canaryRe.ReplaceAllString(class, "CANARY")
		// closest allowed item = longest common prefix
		best, bl := "", -1
		for a := range ok {
			k := 0
			for k < len(a) && k < len(it) && a[k] == it[k] {
				k++
			}
			if k > bl {
				best, bl = a, k
			}
		}
		s := bl - 120
		if s < 0 {
			s = 0
		}
		e1, e2 := bl+200, bl+200
		if e1 > len(it) {
			e1 = len(it)
		}
		if e2 > len(best) {
			e2 = len(best)
		}
		what = fmt.Sprintf("<%s> item %d of the hostile page has a skeleton no item of the inert twin has; it diverges from the closest one at offset %d\n hostile: …%s\n inert:   …%s\n names only the hostile item has: %v", h.itemTag, i, bl, it[s:e1], best[s:e2], plus)
		return class, what
	}
	return "", ""
}
