// Package webui holds the black-box monitor of the HTML user interface (C36).
package webui

// C36: the web UI renders index and request text as text.
//
// Every case is one page of the real web UI (web.NewMux over a real directory searcher
// over shards written by the production builder), fetched twice: from a world whose
// index / request values are hostile (HTML / JS / URL / template payloads, each with a
// unique canary token) and from its twin, the same world with inert placeholders of the
// same shape. Both responses are parsed with the HTML5 parser; the hostile page must
// have the twin's DOM skeleton and its canaries must only sit in text, plain attribute
// values, the non-scheme part of URLs and JavaScript string literals (skel_test.go).
// A page that the twin renders must also render (HTTP 200, no template error, no
// panic) with the hostile values.

import (
	"context"
	"fmt"
	"math/rand/v2"
	"net/http"
	"net/http/httptest"
	"net/url"
	"os"
	"path/filepath"
	"regexp"
	"sort"
	"strings"
	"sync"
	"testing"

	"github.com/sourcegraph/zoekt"
	"github.com/sourcegraph/zoekt/index"
	kit "github.com/sourcegraph/zoekt/internal/verifkit"
	"github.com/sourcegraph/zoekt/internal/verifkit/ix"
	"github.com/sourcegraph/zoekt/query"
	"github.com/sourcegraph/zoekt/search"
	"github.com/sourcegraph/zoekt/web"
)

const (
	needle     = "zqneedle"
	nameNeedle = "zqname"
	repoNeedle = "zqrepo"
)

type wBranch struct{ name, version dual }

type wDoc struct {
	id       int
	name     dual
	content  dual
	lang     dual
	branches []int
}

type wRepo struct {
	id        uint32
	name, url dual
	fileTpl   dual
	fragTpl   dual
	commitTpl dual
	branches  []wBranch
	docs      []*wDoc
}

type world struct {
	r       *rand.Rand
	g       *kit.Gen
	serial  int
	hostile map[string]bool   // index positions that carry payloads in this world
	what    map[string]string // canary -> payload name
	repos   []*wRepo
	// content payloads that can be searched for (match fragment = payload)
	searchable []dual
	special    string
}

// slot makes one value for an index position: a payload when the position is hostile
// in this world, otherwise the same harmless token in both renderings.
func (w *world) slot(pos string) dual {
	w.serial++
	if !w.hostile[pos] {
		return lit(fmt.Sprintf("plain%d", w.serial))
	}
	return w.payload(pos)
}

func (w *world) payload(pos string) dual {
	for {
		pi := w.r.IntN(len(payloads))
		p := payloads[pi]
		switch {
		case p.f&fReqOnly != 0 && pos != posQuery && pos != posParam && pos != posRepoURL:
			continue
		case p.f&fContent != 0 && pos != posContent && pos != posQuery && pos != posParam:
			continue
		case p.f&fNoName != 0 && (pos == posFileName || pos == posRepoName || pos == posBranch || pos == posLanguage):
			continue
		}
		w.serial++
		w.what[canary(pos, pi, w.serial)] = p.name
		return p.inst(pos, pi, w.serial)
	}
}

func (w *world) tpl(pos string, list []tplPayload, variable string, benign []string) dual {
	if !w.hostile[pos] {
		return lit(benign[w.r.IntN(len(benign))])
	}
	w.serial++
	if w.r.IntN(4) == 0 {
		// an arbitrary payload printed by a template action
		d := w.payload(pos)
		return dual{tplQuote(d.H) + variable, tplQuote(d.I) + variable}
	}
	ti := w.r.IntN(len(list))
	t := list[ti]
	w.what[canary(pos, ti, w.serial)] = "tpl-" + t.name
	f := func(s, tok string) string {
		return strings.ReplaceAll(strings.ReplaceAll(s, "§", tok), "%P", variable)
	}
	return dual{f(t.h, canary(pos, ti, w.serial)), f(t.i, inertTok(pos, ti, w.serial))}
}

func (w *world) filler(n int) string {
	s := strings.ReplaceAll(w.g.Text(n), "\n", " ")
	return strings.ReplaceAll(s, "zq", "zz")
}

func newWorld(r *rand.Rand) *world {
	w := &world{r: r, g: kit.NewGen(r), hostile: map[string]bool{}, what: map[string]string{}}
	switch r.IntN(4) {
	case 0:
		for _, p := range indexPositions {
			w.hostile[p] = true
		}
	default:
		for k := 0; k < 1+r.IntN(3); k++ {
			w.hostile[indexPositions[r.IntN(len(indexPositions))]] = true
		}
	}
	if r.IntN(12) == 0 {
		w.special = "commit-template-needs-path"
	}
	docID := 0
	nr := 1 + r.IntN(3)
	for ri := 0; ri < nr; ri++ {
		var prev *wDoc
		rp := &wRepo{id: uint32(500 + ri)}
		rp.name = cat(lit(fmt.Sprintf("%s%d/", repoNeedle, ri)), w.slot(posRepoName))
		if w.hostile[posRepoURL] {
			rp.url = w.payload(posRepoURL)
			if r.IntN(2) == 0 {
				t := w.tpl(posRepoURL, urlTplPayloads[:11], "x", nil)
				rp.url = t
			}
		} else {
			rp.url = lit([]string{fmt.Sprintf("http://host%d.example/r", ri), ""}[r.IntN(2)])
		}
		rp.fileTpl = w.tpl(posFileURL, urlTplPayloads, "{{.Path}}", []string{"http://h.example/{{.Version}}/{{.Path}}", "", "{{URLJoinPath \"http://h.example\" .Version .Path}}"})
		rp.fragTpl = w.tpl(posLineFrag, fragTplPayloads, "{{.LineNumber}}", []string{"#L{{.LineNumber}}", "", ";l={{.LineNumber}}"})
		rp.commitTpl = w.tpl(posCommit, urlTplPayloads, "{{.Version}}", []string{"http://h.example/commit/{{.Version}}", "", "http://h.example/{{.Name}}/{{.Version}}"})
		if w.special == "commit-template-needs-path" && ri == 0 {
			// a valid template (zoekt accepts it at index time) that cannot be executed
			// with the data the repository list gives it
			rp.commitTpl = lit("http://h.example/{{.Path}}/{{.Version}}")
		}
		nb := 1 + r.IntN(3)
		for bi := 0; bi < nb; bi++ {
			b := wBranch{name: lit([]string{"main", "dev", "release/1"}[bi]), version: lit(fmt.Sprintf("%040x", r.Uint64()))}
			if w.hostile[posBranch] && r.IntN(3) > 0 {
				b.name = cat(w.slot(posBranch), lit(fmt.Sprint(bi)))
			}
			if w.hostile[posVersion] && r.IntN(3) > 0 {
				b.version = w.slot(posVersion)
			}
			rp.branches = append(rp.branches, b)
		}
		nd := 1 + r.IntN(4)
		for di := 0; di < nd; di++ {
			docID++
			d := &wDoc{id: docID}
			sep := []string{"/", "-", ".", "_/"}[r.IntN(4)]
			parts := []dual{lit(fmt.Sprintf("zqd%d%s", docID, sep)), w.slot(posFileName)}
			if r.IntN(2) == 0 {
				parts = append(parts, lit("."+nameNeedle+".go"))
			} else {
				parts = append(parts, lit([]string{".go", ".c", "", "/x.txt"}[r.IntN(4)]))
			}
			d.name = cat(parts...)
			d.lang = lit([]string{"Go", "C", "Text", "C++", "Objective-C"}[r.IntN(5)])
			if w.hostile[posLanguage] && r.IntN(4) > 0 {
				d.lang = w.slot(posLanguage)
			}
			for bi := range rp.branches {
				if r.IntN(2) == 0 {
					d.branches = append(d.branches, bi)
				}
			}
			if len(d.branches) == 0 {
				d.branches = []int{r.IntN(len(rp.branches))}
			}
			if prev != nil && r.IntN(6) == 0 {
				// duplicate result; which of the two is listed first depends on ranking,
				// so they get the same header shape
				d.content = prev.content
				d.branches = prev.branches
			} else {
				d.content = w.content()
			}
			prev = d
			rp.docs = append(rp.docs, d)
		}
		w.repos = append(w.repos, rp)
	}
	return w
}

// content makes the lines of one file. The needle is always surrounded by spaces so
// that both renderings score (and therefore order) alike.
func (w *world) content() dual {
	r := w.r
	var parts []dual
	nl := 1 + r.IntN(7)
	hasNeedle := false
	for li := 0; li < nl; li++ {
		k := r.IntN(10)
		if li == nl-1 && !hasNeedle {
			k = 1 + r.IntN(5)
		}
		// boundary holds n bytes: ASCII with a rune of 1..4 bytes (or a stray byte) at
		// one end, so that the 100-byte cut of the text before / after a match
		// (LimitPre / LimitPost) falls before, inside and after a multi-byte rune
		boundary := func(n int, runeLast bool) string {
			edge := []string{"a", "é", "€", "😀", "\xff", "\xa9"}[r.IntN(6)]
			if n < len(edge) {
				n = len(edge)
			}
			fill := strings.Repeat("ab c", n)[:n-len(edge)]
			if runeLast {
				return fill + edge
			}
			return edge + fill
		}
		pad := func() dual {
			if r.IntN(3) == 0 {
				return lit(w.filler(r.IntN(260)) + " ")
			}
			return lit(w.filler(r.IntN(12)) + " ")
		}
		cslot := func() dual {
			d := w.slot(posContent)
			if w.hostile[posContent] && !strings.ContainsAny(d.H, "\x00") && len(d.H) < 500 {
				w.searchable = append(w.searchable, d)
			}
			return d
		}
		switch k {
		case 0:
			parts = append(parts, lit(w.filler(r.IntN(30))))
		case 1:
			parts = append(parts, pad(), cslot(), lit(" "+needle+" "), pad())
			hasNeedle = true
		case 2:
			parts = append(parts, pad(), lit(" "+needle+" "), cslot(), pad())
			hasNeedle = true
		case 3:
			parts = append(parts, cslot(), lit(" "+needle+" "), cslot())
			hasNeedle = true
		case 4:
			parts = append(parts, lit(needle+" "), cslot(), lit(" "+needle+" "), pad(), lit(" "+needle))
			hasNeedle = true
		case 5:
			parts = append(parts, lit(needle))
			hasNeedle = true
		case 6, 7:
			parts = append(parts, cslot())
		case 8: // exactly 96..104 bytes after the match, the line ends there
			parts = append(parts, lit(w.filler(r.IntN(8))+" "+needle+" "+boundary(95+r.IntN(9), true)))
			hasNeedle = true
		case 9: // exactly 96..104 bytes before the match
			parts = append(parts, lit(boundary(95+r.IntN(9), false)+" "+needle+" "+w.filler(r.IntN(8))))
			hasNeedle = true
		}
		if li < nl-1 || r.IntN(2) == 0 {
			parts = append(parts, lit("\n"))
		}
	}
	return cat(parts...)
}

// build writes one rendering of the world into dir.
func (w *world) build(dir string, hostile bool) error {
	for ri, rp := range w.repos {
		zr := &zoekt.Repository{
			ID:                   rp.id,
			Name:                 rp.name.v(hostile),
			URL:                  rp.url.v(hostile),
			Source:               "/src",
			FileURLTemplate:      rp.fileTpl.v(hostile),
			LineFragmentTemplate: rp.fragTpl.v(hostile),
			CommitURLTemplate:    rp.commitTpl.v(hostile),
		}
		for _, b := range rp.branches {
			zr.Branches = append(zr.Branches, zoekt.RepositoryBranch{Name: b.name.v(hostile), Version: b.version.v(hostile)})
		}
		b, err := index.NewShardBuilder(zr)
		if err != nil {
			return fmt.Errorf("NewShardBuilder: %w", err)
		}
		for _, d := range rp.docs {
			kd := &kit.Doc{Name: d.name.v(hostile), Content: d.content.v(hostile), Language: d.lang.v(hostile)}
			for _, bi := range d.branches {
				kd.Branches = append(kd.Branches, rp.branches[bi].name.v(hostile))
			}
			if err := b.Add(ix.ZDoc(kd)); err != nil {
				return fmt.Errorf("Add: %w", err)
			}
		}
		if err := ix.WriteBuilder(b, filepath.Join(dir, fmt.Sprintf("c36r%d_v%d.%05d.zoekt", ri, index.IndexFormatVersion, 0))); err != nil {
			return err
		}
	}
	return nil
}

// side is one rendering of a world, served.
type side struct {
	dir      string
	s        zoekt.Streamer
	mux      *http.ServeMux // URL templates are used for links
	muxPrint *http.ServeMux // Print: links go to /print
	// names as stored in the index (zoekt replaces invalid UTF-8 in repository
	// metadata when it writes the JSON header)
	repoName map[uint32]string
	doc      map[int]docRef
}

type docRef struct {
	repo, file string
	branches   []string
}

var docIDRe = regexp.MustCompile(`^zqd(\d+)`)

func openSide(w *world, dir string, hostile bool) (*side, error) {
	if err := os.MkdirAll(dir, 0o755); err != nil {
		return nil, err
	}
	if err := w.build(dir, hostile); err != nil {
		return nil, err
	}
	s, err := search.NewDirectorySearcher(dir)
	if err != nil {
		return nil, err
	}
	sd := &side{dir: dir, s: s, repoName: map[uint32]string{}, doc: map[int]docRef{}}
	if sd.mux, err = web.NewMux(&web.Server{Searcher: s, Top: web.Top, HTML: true, Version: "verif"}); err != nil {
		sd.close()
		return nil, err
	}
	if sd.muxPrint, err = web.NewMux(&web.Server{Searcher: s, Top: web.Top, HTML: true, Print: true}); err != nil {
		sd.close()
		return nil, err
	}
	rl, err := s.List(context.Background(), &query.Const{Value: true}, nil)
	if err != nil {
		sd.close()
		return nil, err
	}
	for _, e := range rl.Repos {
		sd.repoName[e.Repository.ID] = e.Repository.Name
	}
	sr, err := s.Search(context.Background(), &query.Substring{Pattern: "zqd", FileName: true}, &zoekt.SearchOptions{})
	if err != nil {
		sd.close()
		return nil, err
	}
	for _, f := range sr.Files {
		if m := docIDRe.FindStringSubmatch(f.FileName); m != nil {
			var id int
			fmt.Sscan(m[1], &id)
			sd.doc[id] = docRef{repo: f.Repository, file: f.FileName, branches: f.Branches}
		}
	}
	return sd, nil
}

func (s *side) close() {
	if s.s != nil {
		s.s.Close()
	}
	os.RemoveAll(s.dir)
}

type response struct {
	code    int
	ctype   string
	nosniff bool
	body    []byte
	panic   string
	stack   string
}

func (r *response) isHTML() bool { return strings.HasPrefix(strings.ToLower(r.ctype), "text/html") }

func fetch(mux *http.ServeMux, target string) *response {
	out := &response{}
	msg, stack, p := kit.Guard(func() {
		req := httptest.NewRequest("GET", target, nil)
		rw := httptest.NewRecorder()
		mux.ServeHTTP(rw, req)
		res := rw.Result()
		out.code = res.StatusCode
		out.ctype = res.Header.Get("Content-Type")
		out.nosniff = strings.EqualFold(res.Header.Get("X-Content-Type-Options"), "nosniff")
		out.body = rw.Body.Bytes()
	})
	if p {
		out.panic, out.stack = msg, stack
	}
	return out
}

// request is one page asked of both sides. q is set when the request carries a
// query string whose hostile form may legitimately fail to parse.
type request struct {
	kind  string
	print bool
	path  string
	h, i  url.Values
	qH    string // hostile q if it has to parse for the page to exist ("" = plain q)
}

func vals(kv ...string) url.Values {
	v := url.Values{}
	for i := 0; i+1 < len(kv); i += 2 {
		if kv[i+1] != "\x00omit" {
			v.Set(kv[i], kv[i+1])
		}
	}
	return v
}

func both(kind string, print bool, path string, kv ...dual) request {
	rq := request{kind: kind, print: print, path: path, h: url.Values{}, i: url.Values{}}
	for i := 0; i+1 < len(kv); i += 2 {
		rq.h.Set(kv[i].H, kv[i+1].H)
		rq.i.Set(kv[i].I, kv[i+1].I)
	}
	return rq
}

func (w *world) requests(hs, is *side) []request {
	r := w.r
	var out []request
	n := lit(needle)
	rp := func() dual { return w.payload(posQuery) }
	pp := func() dual { return w.payload(posParam) }
	out = append(out,
		both("search", false, "/search", lit("q"), n),
		both("search-ctx", false, "/search", lit("q"), n, lit("ctx"), lit(fmt.Sprint(r.IntN(4))), lit("num"), lit(fmt.Sprint(1+r.IntN(3)))),
		both("search-printlinks", true, "/search", lit("q"), n, lit("ctx"), lit(fmt.Sprint(r.IntN(3)))),
		both("search-debug", r.IntN(2) == 0, "/search", lit("q"), n, lit("debug"), lit("1")),
		both("search-filename", r.IntN(2) == 0, "/search", lit("q"), lit("f:"+nameNeedle)),
		both("search-noresult", false, "/search", lit("q"), lit("zqnothingtofind")),
	)
	// hostile q that does not change the result: a negated literal nobody contains
	for k := 0; k < 3; k++ {
		p := rp()
		q := dual{needle + " -" + zq(regexp.QuoteMeta(p.H)), needle + " -" + zq(regexp.QuoteMeta(p.I))}
		rq := both("search-q-negated", k == 0, "/search", lit("q"), q, lit("num"), lit(fmt.Sprint(1+r.IntN(60))))
		rq.qH = q.H
		out = append(out, rq)
	}
	// raw hostile q over no repository (may not parse)
	for k := 0; k < 3; k++ {
		p := rp()
		q := dual{"r:zznorepo " + p.H, "r:zznorepo " + p.I}
		rq := both("search-q-raw", false, "/search", lit("q"), q)
		rq.qH = q.H
		out = append(out, rq)
	}
	// the match itself is the payload
	for k := 0; k < 2 && len(w.searchable) > 0; k++ {
		p := w.searchable[r.IntN(len(w.searchable))]
		q := dual{zq(regexp.QuoteMeta(p.H)), zq(regexp.QuoteMeta(p.I))}
		rq := both("search-q-is-payload", k == 0, "/search", lit("q"), q, lit("ctx"), lit(fmt.Sprint(r.IntN(3))))
		rq.qH = q.H
		out = append(out, rq)
	}
	// other request parameters
	{
		p := pp()
		out = append(out, both("search-param-num", false, "/search", lit("q"), n, lit("num"), p))
		p = pp()
		out = append(out, both("search-param-misc", false, "/search", lit("q"), n, lit("debug"), p, lit("format"), pp(), pp(), pp()))
		p = pp()
		out = append(out, both("search-param-ctx", false, "/search", lit("q"), n, lit("ctx"), p))
		out = append(out, both("repolist-param-order", false, "/search", lit("q"), lit("r:"+repoNeedle), lit("order"), pp()))
	}
	// repository lists
	orders := []string{"\x00omit", "name", "revname", "size", "revsize", "ram", "revram", "time", "revtime"}
	for k := 0; k < 2; k++ {
		o := orders[r.IntN(len(orders))]
		num := []string{"\x00omit", "1", "2", "0", "-3"}[r.IntN(5)]
		rq := request{kind: "repolist", path: "/search", h: vals("q", "r:"+repoNeedle, "order", o, "num", num)}
		rq.i = rq.h
		out = append(out, rq)
	}
	out = append(out, both("repolist-type", false, "/search", lit("q"), lit("type:repo "+needle)))
	{
		p := rp()
		q := dual{"r:" + repoNeedle + " -r:" + zq(regexp.QuoteMeta(p.H)), "r:" + repoNeedle + " -r:" + zq(regexp.QuoteMeta(p.I))}
		rq := both("repolist-q-negated", false, "/search", lit("q"), q, lit("num"), lit(fmt.Sprint(r.IntN(4))))
		rq.qH = q.H
		out = append(out, rq)
	}
	// machine-readable forms of the same data must not be served as HTML
	out = append(out, both("search-json", false, "/search", lit("q"), n, lit("format"), lit("json")))
	// entry and about page
	out = append(out, both("root", false, "/", lit("q"), rp()), both("about", false, "/about", lit("q"), rp()), both("root-plain", false, "/"))
	// file print view of documents the search lists
	var ids []int
	for id := range hs.doc {
		if _, ok := is.doc[id]; ok {
			ids = append(ids, id)
		}
	}
	sort.Ints(ids)
	r.Shuffle(len(ids), func(a, b int) { ids[a], ids[b] = ids[b], ids[a] })
	for k := 0; k < 3 && k < len(ids); k++ {
		hd, id := hs.doc[ids[k]], is.doc[ids[k]]
		q := lit(needle)
		if r.IntN(2) == 0 {
			q = rp()
		}
		rq := request{kind: "print", print: true, path: "/print",
			h: vals("r", hd.repo, "f", hd.file, "q", q.H),
			i: vals("r", id.repo, "f", id.file, "q", q.I)}
		if len(hd.branches) > 0 && len(id.branches) > 0 && r.IntN(3) > 0 {
			rq.h.Set("b", hd.branches[0])
			rq.i.Set("b", id.branches[0])
		}
		if r.IntN(3) == 0 {
			p := pp()
			rq.h.Set("num", p.H)
			rq.i.Set("num", p.I)
		}
		out = append(out, rq)
		if k == 0 {
			raw := request{kind: "print-raw", print: true, path: "/print", h: url.Values{}, i: url.Values{}}
			for key, v := range rq.h {
				raw.h[key] = v
			}
			for key, v := range rq.i {
				raw.i[key] = v
			}
			raw.h.Set("format", "raw")
			raw.i.Set("format", "raw")
			out = append(out, raw)
		}
	}
	return out
}

var tmplErrRe = regexp.MustCompile(`(^|[\s:])(html/)?template: ?[^\s]+:`)

func firstLine(b []byte) string {
	s := string(b)
	if i := strings.IndexByte(s, '\n'); i >= 0 {
		s = s[:i]
	}
	if len(s) > 300 {
		s = s[:300]
	}
	return s
}

func (w *world) payloadName(canary string) string {
	for c, n := range w.what {
		if strings.EqualFold(c, canary) {
			return n
		}
	}
	return "?"
}

func (w *world) witness(rq request, h, i *response, extra map[string]any) map[string]any {
	m := map[string]any{
		"page": rq.kind, "print_mode": rq.print,
		"hostile_request": rq.path + "?" + rq.h.Encode(), "inert_request": rq.path + "?" + rq.i.Encode(),
		"world": w.dump(), "hostile_status": h.code, "inert_status": i.code,
		"replay": "build the world's hostile rendering with index.NewShardBuilder/Add, serve web.NewMux(&web.Server{Searcher: search.NewDirectorySearcher(dir), Top: web.Top, HTML: true, Print: print_mode}) and GET hostile_request",
	}
	for k, v := range extra {
		m[k] = v
	}
	return m
}

func (w *world) dump() any {
	type dd struct{ Name, Content, Lang string }
	type rr struct {
		Name, URL, FileURLTemplate, LineFragmentTemplate, CommitURLTemplate string
		Branches                                                            [][2]string
		Docs                                                                []dd
	}
	q := func(s string) string {
		if len(s) > 700 {
			s = s[:350] + "…" + s[len(s)-350:]
		}
		return fmt.Sprintf("%q", s)
	}
	var out []rr
	for _, rp := range w.repos {
		x := rr{q(rp.name.H), q(rp.url.H), q(rp.fileTpl.H), q(rp.fragTpl.H), q(rp.commitTpl.H), nil, nil}
		for _, b := range rp.branches {
			x.Branches = append(x.Branches, [2]string{q(b.name.H), q(b.version.H)})
		}
		for _, d := range rp.docs {
			x.Docs = append(x.Docs, dd{q(d.name.H), q(d.content.H), q(d.lang.H)})
		}
		out = append(out, x)
	}
	return map[string]any{"note": "hostile rendering; strings are Go-quoted", "repos": out}
}

// judge evaluates one page pair.
func (w *world) judge(rec *kit.Rec, rq request, hs, is *side) {
	hm, im := hs.mux, is.mux
	if rq.print {
		hm, im = hs.muxPrint, is.muxPrint
	}
	h := fetch(hm, rq.path+"?"+rq.h.Encode())
	i := fetch(im, rq.path+"?"+rq.i.Encode())
	rec.Count("pages", 1)
	rec.Count("pages_"+rq.kind, 1)
	rec.Seen("status", fmt.Sprintf("%s: hostile %d / inert %d", rq.kind, h.code, i.code))

	trivial := func(why string) {
		rec.Count("trivial_"+why, 1)
		rec.Case(rq.kind+"|"+why, false, nil)
	}
	if h.panic != "" {
		rec.Case(rq.kind+"|panic", false, nil)
		rec.Violation("render/panic/"+rq.kind+"/"+kit.PanicSite(h.stack)+"/"+kit.MsgClass(h.panic), h.panic+"\n"+h.stack, w.witness(rq, h, i, nil))
		return
	}
	if i.panic != "" {
		rec.Case(rq.kind+"|panic", false, nil)
		rec.Violation("render/panic-inert/"+rq.kind+"/"+kit.PanicSite(i.stack)+"/"+kit.MsgClass(i.panic), i.panic+"\n"+i.stack, w.witness(rq, h, i, nil))
		return
	}
	if h.code != 200 && tmplErrRe.Match(h.body) {
		rec.Case(rq.kind+"|template-error", false, nil)
		cls := "hostile-only"
		if i.code != 200 {
			cls = "both"
		}
		msg := canaryRe.ReplaceAllString(firstLine(h.body), "CANARY")
		if k := strings.LastIndex(msg, ": "); k >= 0 {
			msg = msg[k+2:]
		}
		rec.Violation("render/template-error/"+strings.SplitN(rq.kind, "-", 2)[0]+"/"+cls+"/"+kit.MsgClass(msg),
			fmt.Sprintf("HTTP %d: %s", h.code, firstLine(h.body)), w.witness(rq, h, i, map[string]any{"special": w.special}))
		return
	}
	if h.code >= 500 {
		rec.Case(rq.kind+"|5xx", false, nil)
		rec.Violation(fmt.Sprintf("status/%s/%d", rq.kind, h.code), fmt.Sprintf("HTTP %d: %s", h.code, firstLine(h.body)), w.witness(rq, h, i, nil))
		return
	}
	// a response that is not an HTML page must not be sniffable as one when it echoes
	// request or index text
	if !h.isHTML() {
		if canaryRe.Match(h.body) {
			rec.Count("non_html_responses_echoing_a_canary", 1)
			ct := strings.ToLower(h.ctype)
			if !(strings.HasPrefix(ct, "text/plain") && h.nosniff) && !strings.HasPrefix(ct, "application/json") {
				rec.Violation("non-html/sniffable/"+rq.kind, fmt.Sprintf("HTTP %d with Content-Type %q nosniff=%v echoes a canary: %s", h.code, h.ctype, h.nosniff, firstLine(h.body)), w.witness(rq, h, i, nil))
			}
		}
	}
	iOK := i.code == 200 && i.isHTML()
	hOK := h.code == 200 && h.isHTML()
	switch {
	case !iOK && !hOK:
		trivial(fmt.Sprintf("both-refused-%d", h.code))
		return
	case !iOK && hOK:
		// the inert request is refused but the hostile one is served: the twin does not
		// have the same shape; a harness problem, never silently accepted
		rec.Case(rq.kind+"|twin-refused", false, nil)
		rec.Violation("harness/twin-refused/"+rq.kind, fmt.Sprintf("inert HTTP %d %s / hostile HTTP 200", i.code, firstLine(i.body)), w.witness(rq, h, i, nil))
		return
	case iOK && !hOK:
		if rq.qH != "" {
			if _, err := query.Parse(rq.qH); err != nil {
				// no search, no search result: the hostile text is not a query
				trivial("hostile-q-is-no-query")
				return
			}
		}
		rec.Case(rq.kind+"|refused", false, nil)
		msg := canaryRe.ReplaceAllString(firstLine(h.body), "CANARY")
		if k := strings.IndexAny(msg, "`[\""); k >= 0 {
			msg = msg[:k] // the echoed value is not part of the class
		}
		rec.Violation(fmt.Sprintf("status/%s/%d/%s", rq.kind, h.code, strings.TrimSpace(kit.MsgClass(msg))),
			fmt.Sprintf("the page is served for the inert twin but refused for the hostile values: HTTP %d %s", h.code, firstLine(h.body)), w.witness(rq, h, i, nil))
		return
	}
	itemTag := ""
	switch {
	case strings.HasPrefix(rq.kind, "search"):
		itemTag = "table"
	case strings.HasPrefix(rq.kind, "repolist"):
		itemTag = "tr"
	}
	hp, err := analyse(h.body, itemTag)
	if err != nil {
		rec.Violation("harness/html-parse", err.Error(), w.witness(rq, h, i, nil))
		return
	}
	ip, err := analyse(i.body, itemTag)
	if err != nil {
		rec.Violation("harness/html-parse", err.Error(), w.witness(rq, h, i, nil))
		return
	}
	// evidence: which value reached which template context
	var rendered []string
	for c, ctxs := range hp.contexts {
		for _, cx := range ctxs {
			t := canaryPos(c) + "@" + cx
			rec.Seen("position@context", t)
			rendered = append(rendered, t+"="+w.payloadName(c))
		}
		rec.Seen("payload@position", w.payloadName(c)+"@"+canaryPos(c))
	}
	sort.Strings(rendered)
	rendered = uniq(rendered)
	rec.Count("canaries_rendered", int64(len(hp.contexts)))
	rec.Max("max_script_elements", int64(hp.nScript))
	key := rq.kind + "|" + strings.Join(rendered, ";")
	if rq.print {
		key += "|print"
	}
	rec.Case(key, len(hp.contexts) > 0, func() any {
		l := rendered
		if len(l) > 12 {
			l = l[:12]
		}
		return map[string]any{"page": rq.kind, "request": clip(rq.path + "?" + rq.h.Encode()), "rendered": l, "bytes": len(h.body)}
	})
	if len(hp.contexts) > 0 {
		rec.Count("pages_with_hostile_values_"+rq.kind, 1)
	}
	if len(ip.findings) > 0 || len(ip.contexts) > 0 {
		rec.Violation("harness/inert-twin-not-inert/"+rq.kind, fmt.Sprintf("%v %v", ip.findings, ip.contexts), w.witness(rq, h, i, nil))
	}
	for _, f := range hp.findings {
		rec.Violation(f.sig+"/"+rq.kind, f.what, w.witness(rq, h, i, map[string]any{"payload": w.payloadsIn(f.what)}))
	}
	if cls, what := skelDiff(hp, ip); cls != "" {
		rec.Violation("skeleton/"+rq.kind+"/"+cls, what, w.witness(rq, h, i, nil))
		return
	}
	if !sameBag(hp.items, ip.items) {
		// ranking / name order picked other files or repositories for the truncated
		// listing: every hostile item must still look like some item of the twin
		rec.Count("pages_listing_other_items_than_twin", 1)
		allowed := []*pageInfo{ip}
		full := url.Values{}
		for k, v := range rq.i {
			full[k] = v
		}
		if itemTag == "table" {
			full.Set("num", "100000")
		} else {
			full.Del("num")
		}
		if f := fetch(im, rq.path+"?"+full.Encode()); f.code == 200 && f.isHTML() {
			if fp, err := analyse(f.body, itemTag); err == nil {
				allowed = append(allowed, fp)
			}
		}
		if cls, what := itemDiff(hp, allowed); cls != "" {
			rec.Violation("skeleton/"+rq.kind+"/item/"+cls, what, w.witness(rq, h, i, nil))
		}
	}
}

func (w *world) payloadsIn(s string) []string {
	var out []string
	for _, c := range canaryRe.FindAllString(s, -1) {
		out = append(out, c+"="+w.payloadName(c))
	}
	return uniq(out)
}

func uniq(l []string) []string {
	sort.Strings(l)
	out := l[:0]
	for i, s := range l {
		if i == 0 || s != l[i-1] {
			out = append(out, s)
		}
	}
	return out
}

func TestVerif_C36(t *testing.T) {
	rec := kit.Open("C36")
	defer rec.Done()
	nWorlds := rec.N(40, 600)
	// worlds are independent (own PRNG stream, own directories, own servers)
	const workers = 4
	var wg sync.WaitGroup
	next := make(chan int)
	for k := 0; k < workers; k++ {
		wg.Add(1)
		go func() {
			defer wg.Done()
			for wi := range next {
				if msg, stack, p := kit.Guard(func() { oneWorld(rec, wi) }); p {
					rec.Violation("harness/panic/"+kit.PanicSite(stack), msg+"\n"+stack, map[string]any{"world": wi})
				}
			}
		}()
	}
	for wi := 0; wi < nWorlds; wi++ {
		next <- wi
	}
	close(next)
	wg.Wait()
}

func oneWorld(rec *kit.Rec, wi int) {
	w := newWorld(rec.Rand(uint64(wi)))
	base := filepath.Join(rec.Work, fmt.Sprintf("w%d", wi))
	hs, err := openSide(w, base+"h", true)
	if err != nil {
		// zoekt refusing to index a hostile value is not a rendering matter
		rec.Count("worlds_rejected_by_indexer", 1)
		rec.Note("index-rejected", err.Error())
		os.RemoveAll(base + "h")
		return
	}
	defer hs.close()
	is, err := openSide(w, base+"i", false)
	if err != nil {
		rec.Violation("harness/build-inert", err.Error(), nil)
		return
	}
	defer is.close()
	rec.Count("worlds", 1)
	if w.special != "" {
		rec.Count("worlds_"+w.special, 1)
	}
	for p := range w.hostile {
		rec.Count("worlds_hostile_"+p, 1)
	}
	if len(hs.doc) != len(is.doc) || len(hs.repoName) != len(is.repoName) {
		rec.Violation("harness/twin-shape", fmt.Sprintf("hostile index lists %d repos / %d docs, inert %d / %d", len(hs.repoName), len(hs.doc), len(is.repoName), len(is.doc)), map[string]any{"world": w.dump()})
	}
	for _, rq := range w.requests(hs, is) {
		w.judge(rec, rq, hs, is)
	}
}
