package webui

import (
	"fmt"
	"strconv"
	"strings"
)

// A dual value is one template input in its two renderings: H is the hostile value,
// I the inert placeholder of the same shape (same byte length wherever that matters
// to zoekt: same NUL bytes, same line structure, same length).
type dual struct{ H, I string }

func lit(s string) dual { return dual{s, s} }

func cat(ds ...dual) dual {
	var h, i strings.Builder
	for _, d := range ds {
		h.WriteString(d.H)
		i.WriteString(d.I)
	}
	return dual{h.String(), i.String()}
}

func (d dual) v(hostile bool) string {
	if hostile {
		return d.H
	}
	return d.I
}

// Positions (two-letter codes, part of every canary).
const (
	posContent  = "FC"
	posFileName = "FN"
	posRepoName = "RN"
	posBranch   = "BN"
	posVersion  = "BV"
	posLanguage = "LG"
	posFileURL  = "FU"
	posLineFrag = "LF"
	posCommit   = "CU"
	posRepoURL  = "RU"
	posQuery    = "RQ" // request: q
	posParam    = "RP" // request: other parameters
)

var indexPositions = []string{posContent, posFileName, posRepoName, posBranch, posVersion, posLanguage, posFileURL, posLineFrag, posCommit, posRepoURL}

const (
	fNoName  = 1 << iota // not usable in file / repository / branch names and languages
	fReqOnly             // only in request parameters (contains a newline)
	fContent             // only in file content and requests (NUL)
)

type payload struct {
	name string
	h    string // § = canary
	i    string // § = inert token; "" means "§"
	f    int
}

// § is replaced by the canary (hostile) or by an inert token of the same length.
var payloads = []payload{
	{name: "script", h: "<script>alert(§)</script>"},
	{name: "img-onerror", h: `"><img src=x onerror=§>`},
	{name: "close-pre", h: "</pre><script>§</script>"},
	{name: "close-title", h: "</title><script>§</script>"},
	{name: "close-script", h: "</script><script>§</script>"},
	{name: "close-textarea-b-a", h: "</textarea></b></a></u><script>§</script>"},
	{name: "js-url", h: "javascript:§"},
	{name: "tmpl-dot", h: "{{.}}§"},
	{name: "tmpl-canary", h: "{{§}}"},
	{name: "tmpl-call", h: `{{template "head"}}§{{end}}`},
	{name: "squote", h: "'§'"},
	{name: "dquote", h: `"§"`},
	{name: "backtick", h: "`§`"},
	{name: "attr-squote", h: "' onmouseover='§"},
	{name: "attr-dquote", h: `" onfocus="§" autofocus="`},
	{name: "attr-backtick", h: "` onload=`§"},
	{name: "attr-unquoted", h: "x onmouseover=§ y"},
	{name: "attr-tab", h: "x\tonmouseover=§"},
	{name: "attr-slash", h: "x/onmouseover=§"},
	{name: "attr-eq-gt", h: "x=y>§<"},
	{name: "comment-close", h: "-->§<!--"},
	{name: "comment-open", h: "<!--§"},
	{name: "cdata", h: "<![CDATA[§]]>"},
	{name: "js-break-dq", h: `";alert(§);//`},
	{name: "js-break-sq", h: `');alert(§);//`},
	{name: "js-backslash", h: `\";alert(§);//`},
	{name: "js-backslash-end", h: `§\`},
	{name: "js-lineterm", h: "\u2028alert(§)\u2029//"},
	{name: "entity", h: "&lt;script&gt;§&lt;/script&gt;"},
	{name: "entity-num", h: "&#60;script&#62;§&#x27;"},
	{name: "js-uescape", h: `\u003cscript\u003e§\x3c`},
	{name: "svg-onload", h: "<svg/onload=§>"},
	{name: "anchor-js", h: `<a href="javascript:§">x</a>`},
	{name: "style-close", h: "</style><style>§{}</style>"},
	{name: "badutf8-overlong", h: "\xff\xfe§\xc0\xbcscript\xc0\xbe"},
	{name: "badutf8-truncated", h: "<§\xe2\x80"},
	{name: "badutf8-lt", h: "\xc0<script>§</script>"},
	{name: "nul", h: "\x00<b>§</b>", i: "\x00§", f: fContent},
	{name: "long", h: strings.Repeat("A", 3000) + "<script>§</script>" + strings.Repeat("B", 3000), i: strings.Repeat("A", 3000) + "§" + strings.Repeat("B", 3000), f: fNoName},
	{name: "long-lt-run", h: strings.Repeat("<", 300) + "§" + strings.Repeat(">", 300), i: strings.Repeat("a", 300) + "§" + strings.Repeat("a", 300)},
	{name: "url-params", h: "&num=§#x"},
	{name: "percent", h: "%3Cscript%3E§%0a%22"},
	{name: "plus", h: "a+b §"},
	{name: "data-url", h: "data:text/html,<script>§</script>"},
	{name: "vbscript", h: "vbscript:§"},
	{name: "js-url-space", h: " javascript:§"},
	{name: "js-url-case", h: "JaVaScRiPt:§"},
	{name: "js-url-tab", h: "java\tscript:§"},
	{name: "canary-scheme", h: "§:alert(1)"},
	{name: "newline", h: "x\n<script>§</script>", f: fReqOnly},
	{name: "crlf-header", h: "x\r\nContent-Type: text/html\r\n\r\n<script>§</script>", f: fReqOnly},
}

func canary(pos string, pi, serial int) string { return fmt.Sprintf("Cnry%s%02dx%de", pos, pi, serial) }
func inertTok(pos string, pi, serial int) string {
	return fmt.Sprintf("Inrt%s%02dx%de", pos, pi, serial)
}

func (p payload) inst(pos string, pi, serial int) dual {
	it := p.i
	if it == "" {
		it = "§"
	}
	return dual{strings.ReplaceAll(p.h, "§", canary(pos, pi, serial)), strings.ReplaceAll(it, "§", inertTok(pos, pi, serial))}
}

// URL-template payloads. All are valid Go text/templates (zoekt validates them when a
// shard is built). %P is the per-position variable part ({{.Path}} for file URLs,
// {{.Version}} for commit URLs, {{.LineNumber}} for fragments).
type tplPayload struct {
	name string
	h, i string
}

var urlTplPayloads = []tplPayload{
	{"js-url", "javascript:alert(§)//%P", "http://inert.example/§/%P"},
	{"attr-break", `http://h.example/%P"><script>§</script>`, "http://h.example/%P§"},
	{"attr-break-sq", "http://h.example/%P' onmouseover='§", "http://h.example/%P§"},
	{"data-url", "data:text/html,<script>§</script>%P", "http://inert.example/§/%P"},
	{"js-url-space", " javascript:§//%P", "http://inert.example/§/%P"},
	{"js-url-case", "JaVaScRiPt:§//%P", "http://inert.example/§/%P"},
	{"js-url-tab", "java\tscript:§//%P", "http://inert.example/§/%P"},
	{"js-url-nl", "java\nscript:§//%P", "http://inert.example/§/%P"},
	{"vbscript", "vbscript:§//%P", "http://inert.example/§/%P"},
	{"canary-scheme", "§:alert(1)//%P", "http://inert.example/§/%P"},
	{"proto-relative", "//evil.example/%P?§", "//inert.example/%P?§"},
	{"urljoin-js", `{{URLJoinPath "javascript:§" "x"}}%P`, `{{URLJoinPath "http://inert.example/§" "x"}}%P`},
	{"plain-with-canary", "http://h.example/§/%P", "http://h.example/§/%P"},
}

var fragTplPayloads = []tplPayload{
	{"attr-break", `#L%P" onmouseover="§`, "#L%P§"},
	{"js-url", "javascript:§//%P", "#L%P§"},
	{"script", "#'><script>§</script>%P", "#L%P§"},
	{"semicolon", ";§%P", ";§%P"},
	{"no-hash", "§%P", "§%P"},
}

// tplQuote wraps an arbitrary string into a template action that prints it.
func tplQuote(s string) string { return "{{" + strconv.Quote(s) + "}}" }

// zq quotes s for zoekt's query language as one literal atom.
func zq(s string) string {
	var b strings.Builder
	b.WriteByte('"')
	for i := 0; i < len(s); i++ {
		if s[i] == '"' || s[i] == '\\' {
			b.WriteByte('\\')
		}
		b.WriteByte(s[i])
	}
	b.WriteByte('"')
	return b.String()
}
