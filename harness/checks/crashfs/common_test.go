// Package crashfs holds the fault-enumeration monitors: a process that mutates an
// index directory (index.Builder.Finish, zoekt-merge-index merge/explode,
// index.SetTombstone) is killed in front of, or has sabotaged, every one of its
// filesystem mutations (internal/verifhook, build tag verif), and the directory it
// leaves behind is loaded with the production loader and judged.
//
// Fault model: the *process* dies (SIGKILL) or a single rename/remove fails. The
// operating system and its page cache survive, so every completed write/rename is
// visible and ordered. Power loss (no fsync anywhere in the writers) is not examined.
package crashfs

import (
	"bytes"
	"context"
	"crypto/sha1"
	"encoding/hex"
	"encoding/json"
	"errors"
	"fmt"
	"io"
	"os"
	"os/exec"
	"path/filepath"
	"regexp"
	"sort"
	"strconv"
	"strings"
	"sync"
	"syscall"
	"time"

	"github.com/sourcegraph/zoekt"
	"github.com/sourcegraph/zoekt/index"
	"github.com/sourcegraph/zoekt/query"
	"github.com/sourcegraph/zoekt/search"
)

// ---------------------------------------------------------------------------
// processes

type procResult struct {
	Args     []string `json:"args,omitempty"`
	Exit     int      `json:"exit"`
	Signal   string   `json:"signal,omitempty"`
	TimedOut bool     `json:"timed_out,omitempty"`
	Stdout   string   `json:"stdout,omitempty"`
	Stderr   string   `json:"stderr,omitempty"`
}

func clip(s string, n int) string {
	if len(s) <= n {
		return s
	}
	return s[:n/2] + "…[clipped]…" + s[len(s)-n/2:]
}

// runProc runs bin with args. env entries replace same-named inherited ones. The
// watchdog is wall-clock and generous; its firing makes the case inconclusive.
func runProc(bin string, args []string, stdin []byte, env []string, watchdog time.Duration) procResult {
	ctx, cancel := context.WithTimeout(context.Background(), watchdog)
	defer cancel()
	cmd := exec.CommandContext(ctx, bin, args...)
	drop := map[string]bool{}
	for _, e := range env {
		if i := strings.IndexByte(e, '='); i > 0 {
			drop[e[:i]] = true
		}
	}
	for _, e := range os.Environ() {
		if i := strings.IndexByte(e, '='); i > 0 && (drop[e[:i]] || strings.HasPrefix(e, "VERIF_FS_") || strings.HasPrefix(e, "VERIF_DELAY")) {
			continue
		}
		cmd.Env = append(cmd.Env, e)
	}
	cmd.Env = append(cmd.Env, env...)
	var so, se bytes.Buffer
	cmd.Stdout = &so
	cmd.Stderr = &se
	if stdin != nil {
		cmd.Stdin = bytes.NewReader(stdin)
	}
	cmd.SysProcAttr = &syscall.SysProcAttr{Setpgid: true}
	cmd.Cancel = func() error { return syscall.Kill(-cmd.Process.Pid, syscall.SIGKILL) }
	err := cmd.Run()
	res := procResult{Args: append([]string{filepath.Base(bin)}, args...), Stdout: clip(so.String(), 3000), Stderr: clip(se.String(), 3000)}
	if ctx.Err() != nil {
		res.TimedOut = true
	}
	var ee *exec.ExitError
	if errors.As(err, &ee) {
		res.Exit = ee.ExitCode()
		if ws, ok := ee.Sys().(syscall.WaitStatus); ok && ws.Signaled() {
			res.Signal = ws.Signal().String()
		}
	} else if err != nil {
		res.Exit = -2
		res.Stderr += "\n[harness] " + err.Error()
	}
	return res
}

// parallel runs the jobs on n workers.
func parallel(n int, jobs []func()) {
	ch := make(chan func())
	var wg sync.WaitGroup
	for i := 0; i < n; i++ {
		wg.Add(1)
		go func() {
			defer wg.Done()
			for j := range ch {
				j()
			}
		}()
	}
	for _, j := range jobs {
		ch <- j
	}
	close(ch)
	wg.Wait()
}

// ---------------------------------------------------------------------------
// FS trace of internal/verifhook

type fsEvent struct {
	N     int      // 0 when the event was not counted (VERIF_FS_FAIL_OPS filter)
	Op    string
	Paths []string // normalised base names
}

type fsTrace struct {
	Events []fsEvent
	KillAt int // counter value in front of which the process killed itself (0 = not killed)
	FailAt int // counter value of the sabotaged event (0 = none)
}

var tmpRand = regexp.MustCompile(`\.[0-9]+\.tmp`)

// normName makes a path comparable between runs: base name, random temp-file
// infix replaced.
func normName(p string) string {
	return tmpRand.ReplaceAllString(filepath.Base(p), ".*.tmp")
}

func readTrace(path string) fsTrace {
	var t fsTrace
	b, err := os.ReadFile(path)
	if err != nil {
		return t
	}
	for _, l := range strings.Split(string(b), "\n") {
		f := strings.Split(l, "\t")
		if len(f) < 2 {
			continue
		}
		switch f[0] {
		case "KILL":
			t.KillAt, _ = strconv.Atoi(f[1])
			continue
		case "FAIL":
			t.FailAt, _ = strconv.Atoi(f[1])
			continue
		}
		e := fsEvent{Op: f[1]}
		e.N, _ = strconv.Atoi(f[0])
		for _, p := range f[2:] {
			e.Paths = append(e.Paths, normName(p))
		}
		t.Events = append(t.Events, e)
	}
	return t
}

// executed returns the events whose operation was carried out: all but the one
// the process died in front of.
func (t fsTrace) executed() []fsEvent {
	if t.KillAt == 0 {
		return t.Events
	}
	for i, e := range t.Events {
		if e.N == t.KillAt {
			return t.Events[:i]
		}
	}
	return t.Events
}

// at returns the event with counter value n.
func (t fsTrace) at(n int) (fsEvent, bool) {
	for _, e := range t.Events {
		if e.N == n && n != 0 {
			return e, true
		}
	}
	return fsEvent{}, false
}

func (t fsTrace) count(ops ...string) int {
	n := 0
	for _, e := range t.Events {
		for _, o := range ops {
			if e.Op == o {
				n++
			}
		}
	}
	return n
}

func countOps(ev []fsEvent, ops ...string) int {
	n := 0
	for _, e := range ev {
		for _, o := range ops {
			if e.Op == o {
				n++
			}
		}
	}
	return n
}

// render gives the executed prefix as text (for witnesses and for the distinct
// op-prefix count).
func renderEvents(ev []fsEvent) []string {
	var out []string
	for _, e := range ev {
		out = append(out, e.Op+" "+strings.Join(e.Paths, " -> "))
	}
	return out
}

func shortHash(s string) string {
	h := sha1.Sum([]byte(s))
	return hex.EncodeToString(h[:6])
}

// ---------------------------------------------------------------------------
// directories

func copyDir(src, dst string) error {
	if err := os.MkdirAll(dst, 0o755); err != nil {
		return err
	}
	ents, err := os.ReadDir(src)
	if err != nil {
		return err
	}
	for _, e := range ents {
		if !e.Type().IsRegular() {
			continue
		}
		in, err := os.Open(filepath.Join(src, e.Name()))
		if err != nil {
			return err
		}
		out, err := os.Create(filepath.Join(dst, e.Name()))
		if err != nil {
			in.Close()
			return err
		}
		_, err = io.Copy(out, in)
		in.Close()
		if cerr := out.Close(); err == nil {
			err = cerr
		}
		if err != nil {
			return err
		}
	}
	return nil
}

// dirListing is the sorted list "name size" of the directory with temp-file
// names normalised.
func dirListing(dir string) []string {
	ents, _ := os.ReadDir(dir)
	var out []string
	for _, e := range ents {
		fi, err := e.Info()
		if err != nil {
			continue
		}
		if e.IsDir() {
			out = append(out, normName(e.Name())+"/")
			continue
		}
		out = append(out, fmt.Sprintf("%s %d", normName(e.Name()), fi.Size()))
	}
	sort.Strings(out)
	return out
}

// fileNames is the sorted list of real file names of the directory.
func fileNames(dir string) []string {
	ents, _ := os.ReadDir(dir)
	var out []string
	for _, e := range ents {
		out = append(out, e.Name())
	}
	sort.Strings(out)
	return out
}

// ---------------------------------------------------------------------------
// the view a searcher has of an index directory

type docView struct {
	Repo     string
	Name     string
	Content  string
	Branches []string
	Version  string
}

type repoView struct {
	Name      string
	ID        uint32
	Branches  []zoekt.RepositoryBranch
	Metadata  map[string]string `json:",omitempty"`
	RawConfig map[string]string `json:",omitempty"`
	Docs      int
	Shards    int `json:"-"` // how many loaded shards hold the repository alive (not part of equality)
}

type dirView struct {
	Docs    []docView
	Repos   []repoView
	Crashes int `json:",omitempty"`
}

func (v dirView) key() string {
	b, _ := json.Marshal(v)
	return string(b)
}

func (d docView) key() string {
	return d.Repo + "\x00" + d.Name + "\x00" + d.Content + "\x00" + strings.Join(d.Branches, ",") + "\x00" + d.Version
}

// loadView loads dir with the production loader (search.NewDirectorySearcher waits
// for the initial scan) and asks for everything.
func loadView(dir string) (dirView, error) {
	var v dirView
	ss, err := search.NewDirectorySearcher(dir)
	if err != nil {
		return v, err
	}
	defer ss.Close()
	ctx := context.Background()
	sr, err := ss.Search(ctx, &query.Const{Value: true}, &zoekt.SearchOptions{Whole: true})
	if err != nil {
		return v, fmt.Errorf("search: %w", err)
	}
	v.Crashes = sr.Stats.Crashes
	for i := range sr.Files {
		f := &sr.Files[i]
		v.Docs = append(v.Docs, docView{Repo: f.Repository, Name: f.FileName, Content: string(f.Content), Branches: append([]string(nil), f.Branches...), Version: f.Version})
	}
	sort.Slice(v.Docs, func(i, j int) bool { return v.Docs[i].key() < v.Docs[j].key() })
	rl, err := ss.List(ctx, &query.Const{Value: true}, nil)
	if err != nil {
		return v, fmt.Errorf("list: %w", err)
	}
	v.Crashes += rl.Crashes
	for _, e := range rl.Repos {
		r := e.Repository
		rv := repoView{Name: r.Name, ID: r.ID, Branches: append([]zoekt.RepositoryBranch(nil), r.Branches...), Docs: e.Stats.Documents, Shards: e.Stats.Shards}
		if len(r.Metadata) > 0 {
			rv.Metadata = r.Metadata
		}
		if len(r.RawConfig) > 0 {
			rv.RawConfig = r.RawConfig
		}
		v.Repos = append(v.Repos, rv)
	}
	sort.Slice(v.Repos, func(i, j int) bool {
		if v.Repos[i].Name != v.Repos[j].Name {
			return v.Repos[i].Name < v.Repos[j].Name
		}
		return v.Repos[i].ID < v.Repos[j].ID
	})
	return v, nil
}

// diffViews describes how got differs from want, briefly.
func diffViews(want, got dirView) string {
	w := map[string]int{}
	for _, d := range want.Docs {
		w[d.key()]++
	}
	g := map[string]int{}
	for _, d := range got.Docs {
		g[d.key()]++
	}
	var miss, extra []string
	show := func(k string) string {
		p := strings.Split(k, "\x00")
		return p[0] + ":" + p[1] + "@" + p[4]
	}
	for k, n := range w {
		if g[k] < n {
			miss = append(miss, show(k))
		}
	}
	for k, n := range g {
		if w[k] < n {
			extra = append(extra, show(k))
		}
	}
	sort.Strings(miss)
	sort.Strings(extra)
	s := fmt.Sprintf("docs missing=%v extra=%v", miss, extra)
	wr, _ := json.Marshal(want.Repos)
	gr, _ := json.Marshal(got.Repos)
	if string(wr) != string(gr) {
		s += fmt.Sprintf("; listing want=%s got=%s", wr, gr)
	}
	if got.Crashes != want.Crashes {
		s += fmt.Sprintf("; crashes=%d", got.Crashes)
	}
	return s
}

// aliveByFile opens every *.zoekt file of dir on its own (index.NewSearcher) and
// returns repository name -> files in which it is alive, plus the files that do
// not load.
func aliveByFile(dir string) (alive map[string][]string, unloadable []string) {
	alive = map[string][]string{}
	fs, _ := filepath.Glob(filepath.Join(dir, "*.zoekt"))
	sort.Strings(fs)
	for _, fn := range fs {
		f, err := os.Open(fn)
		if err != nil {
			unloadable = append(unloadable, filepath.Base(fn))
			continue
		}
		inf, err := index.NewIndexFile(f)
		if err != nil {
			f.Close()
			unloadable = append(unloadable, filepath.Base(fn))
			continue
		}
		s, err := index.NewSearcher(inf)
		if err != nil {
			inf.Close()
			unloadable = append(unloadable, filepath.Base(fn))
			continue
		}
		rl, err := s.List(context.Background(), &query.Const{Value: true}, nil)
		if err == nil {
			for _, e := range rl.Repos {
				alive[e.Repository.Name] = append(alive[e.Repository.Name], filepath.Base(fn))
			}
		}
		s.Close()
	}
	return alive, unloadable
}
