package crashfs

import (
	"fmt"
	"io"
	"log"
	"os"
	"path/filepath"
	"syscall"
	"testing"
	"time"

	kit "github.com/sourcegraph/zoekt/internal/verifkit"
)

func cpuNow() (self, children time.Duration) {
	var a, b syscall.Rusage
	syscall.Getrusage(syscall.RUSAGE_SELF, &a)
	syscall.Getrusage(syscall.RUSAGE_CHILDREN, &b)
	d := func(r syscall.Rusage) time.Duration {
		return time.Duration(r.Utime.Nano() + r.Stime.Nano())
	}
	return d(a), d(b)
}

// TestDebugTiming (development aid, CRASHFS_DEBUG=1): where does the time go.
func TestDebugTiming(t *testing.T) {
	if os.Getenv("VERIF_CHILD") == "c12build" {
		c12Child()
		return
	}
	if os.Getenv("CRASHFS_DEBUG") == "" {
		t.Skip()
	}
	log.SetOutput(io.Discard)
	r := kit.NewRand(1, 1)
	sc := c12Full(r, 0, 2, 3, false)
	base, _ := os.MkdirTemp("", "builderM-dbg-")
	defer os.RemoveAll(base)
	tpl := filepath.Join(base, "tpl")
	if err := c12Prepare(&sc, tpl); err != nil {
		t.Fatal(err)
	}
	s0, c0 := cpuNow()
	t0 := time.Now()
	for i := 0; i < 20; i++ {
		if _, err := loadView(tpl); err != nil {
			t.Fatal(err)
		}
	}
	s1, c1 := cpuNow()
	fmt.Printf("loadView x20: wall %v self-cpu %v child-cpu %v\n", time.Since(t0), s1-s0, c1-c0)
	t0 = time.Now()
	for i := 0; i < 20; i++ {
		aliveByFile(tpl)
	}
	s2, c2 := cpuNow()
	fmt.Printf("aliveByFile x20: wall %v self-cpu %v child-cpu %v\n", time.Since(t0), s2-s1, c2-c1)
	t0 = time.Now()
	for i := 0; i < 20; i++ {
		d := filepath.Join(base, fmt.Sprint("c", i))
		copyDir(tpl, d)
		os.RemoveAll(d)
	}
	s3, c3 := cpuNow()
	fmt.Printf("copyDir x20: wall %v self-cpu %v child-cpu %v\n", time.Since(t0), s3-s2, c3-c2)
	t0 = time.Now()
	for i := 0; i < 10; i++ {
		runProc(os.Args[0], []string{"-test.run", "^$"}, nil, []string{"GOMAXPROCS=2"}, time.Minute)
	}
	s4, c4 := cpuNow()
	fmt.Printf("spawn self x10: wall %v self-cpu %v child-cpu %v\n", time.Since(t0), s4-s3, c4-c3)
}
