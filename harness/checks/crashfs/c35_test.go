package crashfs

import (
	"fmt"
	"io"
	"log"
	"math/rand/v2"
	"os"
	"path/filepath"
	"sort"
	"strings"
	"sync"
	"testing"
	"time"

	"github.com/sourcegraph/zoekt/index"
	kit "github.com/sourcegraph/zoekt/internal/verifkit"
)

// C35: 'zoekt-merge-index merge' reports success only when a compound shard with
// every input repository is in place and every input shard is gone, 'explode' only
// when every repository is back in its own shard and the compound shard is gone;
// whether they fail or are killed, no repository is ever visible in two shards.
//
// The built binary ($VERIF_BIN/zoekt-merge-index, tag verif) is run on copies of a
// generated input directory: plainly, killed in front of every FS event, with every
// rename/remove sabotaged, and with invalid inputs. After each run the directory is
// examined file by file (index.NewSearcher) and through search.NewDirectorySearcher.

type c35Repo struct {
	Name    string
	ID      uint32
	Docs    []c12Doc
	Tomb    bool // (member of the compound input) tombstoned through the sidecar before merging
	Sidecar bool // (simple shard) has a sidecar written by a metadata-only delta build
}

type c35Set struct {
	Name     string
	Simple   []c35Repo // one simple shard each
	Compound []c35Repo // merged beforehand into a compound shard that is one more input
	Stdin    bool      // paths are passed on stdin ("merge -")
	TombIn   int       // index into live repos tombstoned in the merged compound before explode (-1: none)
	Order    []int     // order in which the inputs are named on the command line
}

func c35Sets(r *rand.Rand, n int) []c35Set {
	var out []c35Set
	for i := 0; i < n; i++ {
		s := c35Set{TombIn: -1}
		nSimple := 2 + r.IntN(4)
		id := uint32(100)
		mk := func(kind string, j int) c35Repo {
			id++
			name := fmt.Sprintf("m%d/%s%d", i, kind, j)
			return c35Repo{Name: name, ID: id, Docs: c12MkDocs(r, name, 1, c12Range(0, 1+r.IntN(3)))}
		}
		for j := 0; j < nSimple; j++ {
			rp := mk("s", j)
			rp.Sidecar = r.IntN(3) == 0
			s.Simple = append(s.Simple, rp)
		}
		if i%2 == 1 {
			for j := 0; j < 2+r.IntN(2); j++ {
				s.Compound = append(s.Compound, mk("c", j))
			}
			if r.IntN(3) != 0 {
				s.Compound[1].Tomb = true
			}
		}
		s.Stdin = i%4 == 3
		nIn := len(s.Simple)
		if len(s.Compound) > 0 {
			nIn++
		}
		s.Order = r.Perm(nIn)
		if r.IntN(2) == 0 {
			s.TombIn = r.IntN(2)
		}
		s.Name = fmt.Sprintf("set#%d: %d simple shards (%d with sidecar), compound input of %d (%d tombstoned), stdin=%v", i, len(s.Simple), c35CountSide(s.Simple), len(s.Compound), c35CountTomb(s.Compound), s.Stdin)
		out = append(out, s)
	}
	return out
}

func c35CountTomb(rs []c35Repo) (n int) {
	for _, r := range rs {
		if r.Tomb {
			n++
		}
	}
	return
}

func c35CountSide(rs []c35Repo) (n int) {
	for _, r := range rs {
		if r.Sidecar {
			n++
		}
	}
	return
}

func (r c35Repo) build(dir string) (string, error) {
	b := c12Build{Name: r.Name, ID: r.ID, Branches: c12Branches(1), Parallelism: 1, ShardMax: 1 << 16, Docs: r.Docs}
	if err := b.run(dir); err != nil {
		return "", err
	}
	p := filepath.Join(dir, strings.ReplaceAll(r.Name, "/", "%2F")+fmt.Sprintf("_v%d.00000.zoekt", index.IndexFormatVersion))
	if _, err := os.Stat(p); err != nil {
		return "", err
	}
	return p, nil
}

// c35Prepare writes the inputs of s into dir and returns the input paths in
// command-line order and the names of the live repositories.
func c35Prepare(s *c35Set, dir string) (inputs []string, live []string, err error) {
	if err := os.MkdirAll(dir, 0o755); err != nil {
		return nil, nil, err
	}
	var paths []string
	for _, r := range s.Simple {
		p, err := r.build(dir)
		if err != nil {
			return nil, nil, err
		}
		if r.Sidecar {
			// a metadata-only delta build leaves a sidecar next to the simple shard
			// (index.SetTombstone is for compound shards only: on a v16 simple shard it
			// writes a sidecar the reader rejects)
			mb := c12Build{Name: r.Name, ID: r.ID, Branches: c12Branches(2), Parallelism: 1, ShardMax: 1 << 16, IsDelta: true}
			if err := mb.run(dir); err != nil {
				return nil, nil, err
			}
			if _, err := os.Stat(p + ".meta"); err != nil {
				return nil, nil, fmt.Errorf("no sidecar after the metadata-only build: %w", err)
			}
		}
		live = append(live, r.Name)
		paths = append(paths, p)
	}
	if len(s.Compound) > 0 {
		scratch := dir + ".simple"
		if err := os.MkdirAll(scratch, 0o755); err != nil {
			return nil, nil, err
		}
		defer os.RemoveAll(scratch)
		var files []index.IndexFile
		defer func() {
			for _, f := range files {
				f.Close()
			}
		}()
		for _, r := range s.Compound {
			p, err := r.build(scratch)
			if err != nil {
				return nil, nil, err
			}
			f, err := os.Open(p)
			if err != nil {
				return nil, nil, err
			}
			inf, err := index.NewIndexFile(f)
			if err != nil {
				return nil, nil, err
			}
			files = append(files, inf)
		}
		tmp, dst, err := index.Merge(dir, files...)
		if err != nil {
			return nil, nil, err
		}
		if err := os.Rename(tmp, dst); err != nil {
			return nil, nil, err
		}
		for _, r := range s.Compound {
			if r.Tomb {
				if err := index.SetTombstone(dst, r.ID); err != nil {
					return nil, nil, err
				}
			} else {
				live = append(live, r.Name)
			}
		}
		paths = append(paths, dst)
	}
	for _, i := range s.Order {
		inputs = append(inputs, paths[i])
	}
	sort.Strings(live)
	return inputs, live, nil
}

type c35State struct {
	Files      []string            `json:"files"`
	Alive      map[string][]string `json:"alive_by_file"`
	Unloadable []string            `json:"unloadable,omitempty"`
	Listed     []string            `json:"listed_by_directory_searcher"`
	view       dirView
}

func c35Examine(dir string) (c35State, error) {
	st := c35State{Files: dirListing(dir)}
	st.Alive, st.Unloadable = aliveByFile(dir)
	v, err := loadView(dir)
	if err != nil {
		return st, err
	}
	st.view = v
	for _, r := range v.Repos {
		st.Listed = append(st.Listed, fmt.Sprintf("%s (shards=%d docs=%d)", r.Name, r.Shards, r.Docs))
	}
	return st, nil
}

// duplicates names the repositories that are visible in two shards.
func (st c35State) duplicates() []string {
	seen := map[string]bool{}
	for name, files := range st.Alive {
		if len(files) > 1 {
			seen[name] = true
		}
	}
	for _, r := range st.view.Repos {
		if r.Shards > 1 {
			seen[r.Name] = true
		}
	}
	docs := map[string]bool{}
	for _, d := range st.view.Docs {
		k := d.Repo + "\x00" + d.Name
		if docs[k] {
			seen[d.Repo] = true
		}
		docs[k] = true
	}
	var out []string
	for n := range seen {
		out = append(out, n)
	}
	sort.Strings(out)
	return out
}

// mergedOK: "" when a compound shard containing every live input repository is in
// place and every input file is gone.
func (st c35State) mergedOK(dir string, inputs, live []string) string {
	for _, in := range inputs {
		for _, p := range []string{in, in + ".meta"} {
			if _, err := os.Stat(p); err == nil {
				return "input file " + filepath.Base(p) + " is still there"
			}
		}
	}
	holder := ""
	for _, name := range live {
		fs := st.Alive[name]
		if len(fs) != 1 {
			return fmt.Sprintf("repository %s is alive in %d shards %v", name, len(fs), fs)
		}
		if !strings.HasPrefix(fs[0], "compound-") {
			return fmt.Sprintf("repository %s is in %s, not in a compound shard", name, fs[0])
		}
		if holder != "" && holder != fs[0] {
			return fmt.Sprintf("repositories are spread over %s and %s", holder, fs[0])
		}
		holder = fs[0]
	}
	return st.listedExactly(live)
}

func (st c35State) listedExactly(live []string) string {
	var got []string
	for _, r := range st.view.Repos {
		got = append(got, r.Name)
	}
	sort.Strings(got)
	if strings.Join(got, "\n") != strings.Join(live, "\n") {
		return fmt.Sprintf("the directory searcher lists %v, the live input repositories are %v", got, live)
	}
	return ""
}

// explodedOK: "" when every live repository is alone in its own shard and the
// compound shard is gone.
func (st c35State) explodedOK(compound string, live []string) string {
	for _, p := range []string{compound, compound + ".meta"} {
		if _, err := os.Stat(p); err == nil {
			return "compound file " + filepath.Base(p) + " is still there"
		}
	}
	perFile := map[string]int{}
	for _, fs := range st.Alive {
		for _, f := range fs {
			perFile[f]++
		}
	}
	for _, name := range live {
		fs := st.Alive[name]
		if len(fs) != 1 {
			return fmt.Sprintf("repository %s is alive in %d shards %v", name, len(fs), fs)
		}
		if perFile[fs[0]] != 1 || strings.HasPrefix(fs[0], "compound-") {
			return fmt.Sprintf("repository %s is not alone in its own shard (%s)", name, fs[0])
		}
	}
	return st.listedExactly(live)
}

type c35Stats struct {
	mu                                   sync.Mutex
	children, kills, fails, plain        int
	exit0, exitErr, invalid              int
	invalidRemoved                       int
	states, prefixes                     map[string]bool
	reposVisible, reposMissing, notFired int
	inconclusive                         int
}

func c35Bin() string { return filepath.Join(os.Getenv("VERIF_BIN"), "zoekt-merge-index") }

func TestVerif_C35(t *testing.T) {
	rec := kit.Open("C35")
	defer rec.Done()
	log.SetOutput(io.Discard)
	if st, err := os.Stat(c35Bin()); err != nil || !st.Mode().IsRegular() {
		rec.Violation("harness/no binary", "zoekt-merge-index was not built into $VERIF_BIN", nil)
		return
	}
	sets := c35Sets(rec.Rand(1), rec.N(4, 24))
	reps := rec.N(2, 3)
	rec.Count("input_sets", int64(len(sets)))
	st := &c35Stats{states: map[string]bool{}, prefixes: map[string]bool{}}
	only := os.Getenv("CRASHFS_ONLY") // development aid: run only the sets whose name contains this
	for i := range sets {
		if only != "" && !strings.Contains(sets[i].Name, only) {
			continue
		}
		base := filepath.Join(rec.Work, fmt.Sprintf("c35-%d", i))
		c35RunSet(rec, &sets[i], base, reps, st, rec.Rand(uint64(100+i)))
		os.RemoveAll(base)
	}
	rec.Count("children", int64(st.children))
	rec.Count("plain_runs", int64(st.plain))
	rec.Count("killed_runs", int64(st.kills))
	rec.Count("sabotaged_runs", int64(st.fails))
	rec.Count("invalid_input_runs", int64(st.invalid))
	rec.Count("invalid_input_runs_that_removed_inputs", int64(st.invalidRemoved))
	rec.Count("exit_0", int64(st.exit0))
	rec.Count("exit_nonzero", int64(st.exitErr))
	rec.Count("fault_not_reached", int64(st.notFired))
	rec.Count("inconclusive_children", int64(st.inconclusive))
	rec.Count("distinct_disk_states", int64(len(st.states)))
	rec.Count("distinct_op_prefixes", int64(len(st.prefixes)))
	rec.Count("states_with_every_repository_visible_once", int64(st.reposVisible))
	rec.Count("states_with_missing_repositories", int64(st.reposMissing))
}

type c35Run struct {
	cmd      string // merge | explode
	tpl      string
	args     func(dir string) (args []string, stdin []byte)
	inputs   func(dir string) []string
	compound func(dir string) string
	live     []string
	all      []string // repositories that may legitimately be visible
}

func c35RunSet(rec *kit.Rec, s *c35Set, base string, reps int, st *c35Stats, r *rand.Rand) {
	harness := func(what string, err any) {
		rec.Violation("harness/"+what, fmt.Sprintf("%s: %v", s.Name, err), s)
	}
	tplM := filepath.Join(base, "merge-tpl")
	inputs, live, err := c35Prepare(s, tplM)
	if err != nil {
		harness("prepare", err)
		return
	}
	rel := func(dir string, ps []string) []string {
		var out []string
		for _, p := range ps {
			out = append(out, filepath.Join(dir, filepath.Base(p)))
		}
		return out
	}
	mergeRun := &c35Run{cmd: "merge", tpl: tplM, live: live,
		args: func(dir string) ([]string, []byte) {
			ps := rel(dir, inputs)
			if s.Stdin {
				return []string{"merge", "-"}, []byte(strings.Join(ps, "\n") + "\n")
			}
			return append([]string{"merge"}, ps...), nil
		},
		inputs: func(dir string) []string { return rel(dir, inputs) },
	}
	mergedDir := c35Enumerate(rec, s, mergeRun, base, reps, st)
	if mergedDir == "" {
		return
	}
	defer os.RemoveAll(mergedDir)

	// invalid inputs for merge
	c35Invalid(rec, s, mergeRun, base, st, r, inputs)

	// explode the compound shard of the complete merge (after tombstoning one repository in it)
	cs, _ := filepath.Glob(filepath.Join(mergedDir, "compound-*.zoekt"))
	if len(cs) != 1 {
		harness("explode input", fmt.Sprintf("%d compound shards after the merge", len(cs)))
		return
	}
	liveX := append([]string(nil), live...)
	if s.TombIn >= 0 && s.TombIn < len(live) && len(live) > 2 {
		victim := live[s.TombIn]
		var id uint32
		for _, rp := range append(append([]c35Repo{}, s.Simple...), s.Compound...) {
			if rp.Name == victim {
				id = rp.ID
			}
		}
		if err := index.SetTombstone(cs[0], id); err != nil {
			harness("tombstone", err)
			return
		}
		liveX = nil
		for _, n := range live {
			if n != victim {
				liveX = append(liveX, n)
			}
		}
	}
	compoundBase := filepath.Base(cs[0])
	explodeRun := &c35Run{cmd: "explode", tpl: mergedDir, live: liveX,
		args:     func(dir string) ([]string, []byte) { return []string{"explode", filepath.Join(dir, compoundBase)}, nil },
		compound: func(dir string) string { return filepath.Join(dir, compoundBase) },
	}
	if d := c35Enumerate(rec, s, explodeRun, base, reps, st); d != "" {
		os.RemoveAll(d)
	}
	c35InvalidExplode(rec, s, explodeRun, base, st)
}

func c35Spawn(run *c35Run, dir string, env []string) (procResult, fsTrace) {
	tr := dir + ".trace"
	os.Remove(tr)
	args, stdin := run.args(dir)
	env = append([]string{"VERIF_FS_TRACE=" + tr, "GOMAXPROCS=1", "GOGC=off", "GOTRACEBACK=all"}, env...)
	pr := runProc(c35Bin(), args, stdin, env, 120*time.Second)
	trace := readTrace(tr)
	os.Remove(tr)
	return pr, trace
}

func (run *c35Run) success(st c35State, dir string) string {
	if run.cmd == "merge" {
		return st.mergedOK(dir, run.inputs(dir), run.live)
	}
	return st.explodedOK(run.compound(dir), run.live)
}

// c35Enumerate does the plain run and all kill / fail runs of one command. It
// returns the directory of the complete plain run ("" when that was not usable).
func c35Enumerate(rec *kit.Rec, s *c35Set, run *c35Run, base string, reps int, st *c35Stats) string {
	witness := func(dir string, pr procResult, state c35State, extra map[string]any) map[string]any {
		args, stdin := run.args("<dir>")
		w := map[string]any{"set": s, "command": args, "stdin": string(stdin), "files_before": dirListing(run.tpl), "after": state, "child": pr,
			"how": "build the set's shards with index.Builder (tombstones/sidecars through index.SetTombstone/UnsetTombstone), run zoekt-merge-index (built with -tags verif) with the environment given in `env`"}
		for k, v := range extra {
			w[k] = v
		}
		return w
	}
	pdir := filepath.Join(base, run.cmd+"-plain")
	if err := copyDir(run.tpl, pdir); err != nil {
		rec.Violation("harness/copy", err.Error(), nil)
		return ""
	}
	pr, clean := c35Spawn(run, pdir, nil)
	state, err := c35Examine(pdir)
	st.mu.Lock()
	st.children++
	st.plain++
	st.mu.Unlock()
	if err != nil {
		rec.Violation("harness/load", fmt.Sprintf("%s %s: %v", s.Name, run.cmd, err), nil)
		return ""
	}
	rec.Case(s.Name+"|"+run.cmd+"|plain", true, func() any {
		return map[string]any{"set": s.Name, "cmd": run.cmd, "mode": "plain", "exit": pr.Exit, "ops": renderEvents(clean.Events), "files_after": state.Files}
	})
	if pr.Exit != 0 || pr.Signal != "" {
		rec.Violation("harness/plain run failed", fmt.Sprintf("%s: %s exit=%d %s", s.Name, run.cmd, pr.Exit, pr.Stderr), witness(pdir, pr, state, nil))
		return ""
	}
	if why := run.success(state, pdir); why != "" {
		rec.Violation(run.cmd+"/plain/complete run/exit 0 but "+c35Why(why), fmt.Sprintf("%s: %s exited 0 without any fault, but %s", s.Name, run.cmd, why), witness(pdir, pr, state, nil))
		return ""
	}
	if d := state.duplicates(); len(d) > 0 {
		rec.Violation(run.cmd+"/plain/complete run/repository visible in two shards", fmt.Sprintf("%s: %v", s.Name, d), witness(pdir, pr, state, nil))
		return ""
	}
	K := len(clean.Events)
	firstRen := K + 1
	for _, e := range clean.Events {
		if e.Op == "rename" {
			firstRen = e.N
			break
		}
	}
	failOps := "remove,rename,rename-tmp"
	F := clean.count("remove", "rename", "rename-tmp")
	rec.Max("max_K_"+run.cmd, int64(K))
	rec.Count("fs_events_K_total_"+run.cmd, int64(K))

	var jobs []func()
	seq := 0
	add := func(mode string, k int) {
		seq++
		dir := filepath.Join(base, fmt.Sprintf("%s-w%d", run.cmd, seq))
		jobs = append(jobs, func() {
			defer os.RemoveAll(dir)
			if err := copyDir(run.tpl, dir); err != nil {
				rec.Violation("harness/copy", err.Error(), nil)
				return
			}
			var env []string
			switch mode {
			case "kill":
				env = []string{fmt.Sprintf("VERIF_FS_KILL_AT=%d", k)}
			case "kill+torn":
				env = []string{fmt.Sprintf("VERIF_FS_KILL_AT=%d", k), "VERIF_FS_TORN=1"}
			case "fail":
				env = []string{fmt.Sprintf("VERIF_FS_FAIL_AT=%d", k), "VERIF_FS_FAIL_OPS=" + failOps}
			}
			pr, trace := c35Spawn(run, dir, env)
			state, err := c35Examine(dir)
			st.mu.Lock()
			defer st.mu.Unlock()
			st.children++
			if pr.TimedOut {
				st.inconclusive++
				return
			}
			if err != nil {
				rec.Violation("harness/load", fmt.Sprintf("%s %s %s k=%d: %v", s.Name, run.cmd, mode, k, err), nil)
				return
			}
			var ev fsEvent
			fired := false
			m := "kill"
			if mode == "fail" {
				m = "fail"
				ev, _ = trace.at(k)
				fired = trace.FailAt == k
				st.fails++
			} else {
				ev, _ = trace.at(k)
				fired = trace.KillAt == k && pr.Signal != ""
				st.kills++
			}
			w := func() map[string]any {
				return witness(dir, pr, state, map[string]any{"env": env, "executed_ops": renderEvents(trace.executed()), "fault_at": ev})
			}
			if !fired {
				st.notFired++
				if !(pr.Exit == 0 && pr.Signal == "") && mode != "fail" {
					rec.Violation("harness/child ended unexpectedly", fmt.Sprintf("%s %s %s k=%d exit=%d signal=%q", s.Name, run.cmd, mode, k, pr.Exit, pr.Signal), w())
					return
				}
			}
			stateKey := shortHash(s.Name + run.cmd + strings.Join(state.Files, "\n"))
			prefixKey := shortHash(s.Name + run.cmd + strings.Join(renderEvents(trace.executed()), "\n"))
			st.states[stateKey] = true
			st.prefixes[prefixKey] = true
			rec.Seen("disk_states", stateKey)
			rec.Seen("op_prefixes", prefixKey)
			rec.Seen("fault_points", run.cmd+"/"+m+"/"+ev.Op)
			rec.Case(s.Name+"|"+run.cmd+"|"+mode+"|"+stateKey+"|"+prefixKey, fired, func() any {
				return map[string]any{"set": s.Name, "cmd": run.cmd, "mode": mode, "k": k, "op": ev.Op, "exit": pr.Exit, "signal": pr.Signal, "files_after": state.Files}
			})
			if pr.Exit == 0 && pr.Signal == "" {
				st.exit0++
			} else {
				st.exitErr++
			}
			if len(state.view.Repos) == len(run.live) {
				st.reposVisible++
			} else {
				st.reposMissing++
			}
			if d := state.duplicates(); len(d) > 0 {
				rec.Violation(fmt.Sprintf("%s/%s/%s/repository visible in two shards", run.cmd, m, ev.Op),
					fmt.Sprintf("%s: %s with %v (event %d: %s %s): %v alive in two shards: %v", s.Name, run.cmd, env, k, ev.Op, strings.Join(ev.Paths, " -> "), d, state.Alive), w())
			}
			if pr.Exit == 0 && pr.Signal == "" {
				if why := run.success(state, dir); why != "" {
					rec.Violation(fmt.Sprintf("%s/%s/%s/exit 0 but %s", run.cmd, m, ev.Op, c35Why(why)),
						fmt.Sprintf("%s: %s with %v (event %d: %s %s) exited 0, but %s", s.Name, run.cmd, env, k, ev.Op, strings.Join(ev.Paths, " -> "), why), w())
				}
			}
		})
	}
	for _, mode := range []string{"kill", "kill+torn"} {
		for k := 1; k <= K; k++ {
			if mode == "kill+torn" {
				// VERIF_FS_TORN truncates the *.tmp files named by the event; elsewhere it equals the plain kill
				e, _ := clean.at(k)
				tmp := false
				for _, p := range e.Paths {
					tmp = tmp || strings.HasSuffix(p, ".tmp")
				}
				if !tmp {
					continue
				}
			}
			n := 1
			if k > firstRen && run.cmd == "explode" && mode == "kill" {
				n = reps // Explode renames in Go map order
			}
			for i := 0; i < n; i++ {
				add(mode, k)
			}
		}
	}
	for k := 1; k <= F; k++ {
		add("fail", k)
	}
	parallel(16, jobs)
	note := map[string]any{"set": s.Name, "cmd": run.cmd, "K": K, "sabotageable_ops": F, "children": len(jobs) + 1, "live_repositories": len(run.live)}
	if rec.Quick() {
		note["ops_of_complete_run"] = renderEvents(clean.Events)
	}
	rec.Note("run", note)
	return pdir
}

// c35Why turns a success-condition failure into its stable class.
func c35Why(why string) string {
	switch {
	case strings.HasPrefix(why, "input file"):
		return "an input shard is still there"
	case strings.HasPrefix(why, "compound file"):
		return "the compound shard is still there"
	case strings.Contains(why, "is alive in 0 shards"):
		return "a repository is in no shard"
	case strings.Contains(why, "is alive in"):
		return "a repository is in several shards"
	case strings.Contains(why, "not in a compound shard"), strings.Contains(why, "spread over"):
		return "a repository is not in the compound shard"
	case strings.Contains(why, "not alone"):
		return "a repository is not in its own shard"
	case strings.Contains(why, "directory searcher lists"):
		return "the directory searcher does not list exactly the input repositories"
	}
	return "the success condition does not hold"
}

// c35Invalid: merge with an input that is missing / not a shard must not report
// success (nothing can have been merged).
func c35Invalid(rec *kit.Rec, s *c35Set, run *c35Run, base string, st *c35Stats, r *rand.Rand, inputs []string) {
	type variant struct {
		name, op string
		apply    func(path string) error
	}
	variants := []variant{
		{"missing", "open", func(p string) error { os.Remove(p + ".meta"); return os.Remove(p) }},
		{"garbage", "read", func(p string) error {
			b := make([]byte, 300)
			for i := range b {
				b[i] = byte(r.IntN(256))
			}
			return os.WriteFile(p, b, 0o644)
		}},
		{"empty", "read", func(p string) error { return os.WriteFile(p, nil, 0o644) }},
		{"directory", "read", func(p string) error {
			os.Remove(p + ".meta")
			if err := os.Remove(p); err != nil {
				return err
			}
			return os.Mkdir(p, 0o755)
		}},
	}
	var jobs []func()
	for vi, v := range variants {
		donePos := map[int]bool{}
		for _, pos := range []int{0, 1 + r.IntN(len(inputs)-1)} {
			if donePos[pos] {
				continue
			}
			donePos[pos] = true
			v, pos := v, pos
			dir := filepath.Join(base, fmt.Sprintf("merge-inv%d-%d", vi, pos))
			jobs = append(jobs, func() {
				defer os.RemoveAll(dir)
				if err := copyDir(run.tpl, dir); err != nil {
					rec.Violation("harness/copy", err.Error(), nil)
					return
				}
				victim := filepath.Join(dir, filepath.Base(inputs[pos]))
				if err := v.apply(victim); err != nil {
					rec.Violation("harness/invalid input", err.Error(), nil)
					return
				}
				before := fileNames(dir)
				pr, trace := c35Spawn(run, dir, nil)
				state, err := c35Examine(dir)
				st.mu.Lock()
				defer st.mu.Unlock()
				st.children++
				st.invalid++
				if pr.TimedOut {
					st.inconclusive++
					return
				}
				if err != nil {
					rec.Violation("harness/load", err.Error(), nil)
					return
				}
				after := map[string]bool{}
				for _, n := range fileNames(dir) {
					after[n] = true
				}
				var removed []string
				for _, n := range before {
					if !after[n] {
						removed = append(removed, n)
					}
				}
				if len(removed) > 0 {
					st.invalidRemoved++
				}
				rec.Seen("fault_points", "merge/plain/"+v.op+" ("+v.name+" input)")
				rec.Case(fmt.Sprintf("%s|merge|invalid|%s|%d", s.Name, v.name, pos), true, func() any {
					return map[string]any{"set": s.Name, "cmd": "merge", "mode": "invalid input: " + v.name, "position": pos, "exit": pr.Exit, "removed": removed}
				})
				args, stdin := run.args("<dir>")
				w := map[string]any{"set": s, "command": args, "stdin": string(stdin), "invalid_input": filepath.Base(victim), "variant": v.name, "position": pos,
					"files_before": before, "after": state, "removed": removed, "child": pr, "executed_ops": renderEvents(trace.Events)}
				if d := state.duplicates(); len(d) > 0 {
					rec.Violation("merge/plain/"+v.op+"/repository visible in two shards", fmt.Sprintf("%s: input #%d %s: %v", s.Name, pos, v.name, d), w)
				}
				if pr.Exit == 0 && pr.Signal == "" {
					st.exit0++
					rec.Violation("merge/plain/"+v.op+"/exit 0 although an input could not be used",
						fmt.Sprintf("%s: merge with input #%d (%s) %s exited 0 (stdout %q); files removed: %v; repositories listed afterwards: %v", s.Name, pos, filepath.Base(victim), v.name, pr.Stdout, removed, state.Listed), w)
				} else {
					st.exitErr++
				}
			})
		}
	}
	parallel(16, jobs)
}

func c35InvalidExplode(rec *kit.Rec, s *c35Set, run *c35Run, base string, st *c35Stats) {
	for vi, name := range []string{"missing", "garbage"} {
		dir := filepath.Join(base, fmt.Sprintf("explode-inv%d", vi))
		if err := copyDir(run.tpl, dir); err != nil {
			rec.Violation("harness/copy", err.Error(), nil)
			return
		}
		c := run.compound(dir)
		os.Remove(c + ".meta")
		os.Remove(c)
		op := "open"
		if name == "garbage" {
			op = "read"
			os.WriteFile(c, []byte(strings.Repeat("not a shard ", 30)), 0o644)
		}
		pr, trace := c35Spawn(run, dir, nil)
		st.mu.Lock()
		st.children++
		st.invalid++
		rec.Seen("fault_points", "explode/plain/"+op+" ("+name+" input)")
		rec.Case(fmt.Sprintf("%s|explode|invalid|%s", s.Name, name), true, nil)
		if pr.Exit == 0 && pr.Signal == "" && !pr.TimedOut {
			st.exit0++
			rec.Violation("explode/plain/"+op+"/exit 0 although the input could not be used", fmt.Sprintf("%s: explode of a %s compound shard exited 0", s.Name, name),
				map[string]any{"set": s, "variant": name, "child": pr, "files_after": dirListing(dir), "executed_ops": renderEvents(trace.Events)})
		} else {
			st.exitErr++
		}
		st.mu.Unlock()
		os.RemoveAll(dir)
	}
}
