package crashfs

import (
	"encoding/json"
	"fmt"
	"io"
	"log"
	"math/rand/v2"
	"os"
	"path/filepath"
	"sort"
	"strings"
	"sync"
	"testing"
	"time"

	"github.com/sourcegraph/zoekt"
	"github.com/sourcegraph/zoekt/index"
	kit "github.com/sourcegraph/zoekt/internal/verifkit"
)

// C12: a killed indexer leaves the old or the new index, never a mix; a run that
// reports success has installed the complete new index.
//
// A scenario is "an index directory holding version 1 of a repository" + "one
// index.Builder run that installs version 2". The run happens in a child process
// (this test binary re-executed). A counting run gives the K filesystem events
// of the run and view(v2); then the child is re-run on a fresh copy of the v1
// directory for every k in 1..K with VERIF_FS_KILL_AT=k (plain and with
// VERIF_FS_TORN=1) and for every rename/remove with VERIF_FS_FAIL_AT=k. Every k
// behind the first rename is repeated R times because Finish iterates Go maps. The
// directory left behind is loaded with search.NewDirectorySearcher and the view
// (all documents with content, branches and version + the repository listing) is
// compared with view(v1) and view(v2).

type c12Doc struct {
	Name     string
	Content  string
	Branches []string
}

type c12Build struct {
	Name         string
	ID           uint32
	Branches     []zoekt.RepositoryBranch
	Metadata     map[string]string
	ShardMax     int
	Parallelism  int
	IsDelta      bool `json:",omitempty"`
	ShardMerging bool `json:",omitempty"`
	Docs         []c12Doc
	Tomb         []string `json:",omitempty"` // MarkFileAsChangedOrRemoved
}

// run drives index.Builder exactly like an indexer does.
func (b c12Build) run(dir string) error {
	opts := index.Options{
		IndexDir: dir,
		RepositoryDescription: zoekt.Repository{
			Name: b.Name, ID: b.ID, Branches: b.Branches, Metadata: b.Metadata,
			URL: "http://" + b.Name, Source: "/src/" + b.Name,
		},
		DisableCTags: true,
		ShardMax:     b.ShardMax,
		Parallelism:  b.Parallelism,
		IsDelta:      b.IsDelta,
		ShardMerging: b.ShardMerging,
	}
	bld, err := index.NewBuilder(opts)
	if err != nil {
		return fmt.Errorf("NewBuilder: %w", err)
	}
	for _, f := range b.Tomb {
		bld.MarkFileAsChangedOrRemoved(f)
	}
	for _, d := range b.Docs {
		if err := bld.Add(index.Document{Name: d.Name, Content: []byte(d.Content), Branches: d.Branches}); err != nil {
			bld.Finish()
			return fmt.Errorf("Add: %w", err)
		}
	}
	return bld.Finish()
}

type c12Result struct {
	Err      string `json:"err"`
	Finished bool   `json:"finished"`
}

// c12Child is the indexer process.
func c12Child() {
	var b c12Build
	raw, err := os.ReadFile(os.Getenv("C12_SPEC"))
	if err == nil {
		err = json.Unmarshal(raw, &b)
	}
	if err != nil {
		fmt.Fprintln(os.Stderr, "c12 child: bad spec:", err)
		os.Exit(7)
	}
	res := c12Result{Finished: true}
	if err := b.run(os.Getenv("C12_DIR")); err != nil {
		res.Err = err.Error()
	}
	out, _ := json.Marshal(res)
	if err := os.WriteFile(os.Getenv("C12_RES"), out, 0o644); err != nil {
		os.Exit(8)
	}
}

// ---------------------------------------------------------------------------
// scenarios

type c12Scenario struct {
	Name      string
	Class     string     // part of the violation signature
	Setup     []c12Build // in-process builds that produce version 1
	MetaAfter *c12Build  // metadata-only delta run after Setup (leaves .meta sidecars)
	Compound  []c12Build // bystander repositories merged with the target into a compound shard
	TombBy    bool       // a bystander is tombstoned beforehand (compound sidecar exists)
	Run       c12Build   // the run under test
	WantDocs  map[string]c12Doc
	OldShards int // expected number of shard files of the target before the run (0 = in compound)
	NewShards int // expected number of shard files of the target after the run
}

const (
	c12NameLen    = 8
	c12ContentLen = 56
	c12DocSize    = c12NameLen + c12ContentLen
)

var c12Words = []string{"alpha", "beta", "gamma", "delta", "omega", "index", "shard", "merge", "zoekt", "query", "match", "rename", "atomic"}

func c12Name(i int) string { return fmt.Sprintf("f%03d.txt", i) }

func c12Content(r *rand.Rand, repo string, gen int, name string) string {
	s := fmt.Sprintf("%s gen%d %s", repo, gen, name)
	for len(s) < c12ContentLen {
		s += " " + c12Words[r.IntN(len(c12Words))]
	}
	return s[:c12ContentLen-1] + "\n"
}

func c12Branches(gen int) []zoekt.RepositoryBranch {
	return []zoekt.RepositoryBranch{{Name: "main", Version: fmt.Sprintf("m%d", gen)}, {Name: "dev", Version: fmt.Sprintf("d%d", gen)}}
}

func c12DocBranches(r *rand.Rand) []string {
	switch r.IntN(3) {
	case 0:
		return []string{"main"}
	case 1:
		return []string{"dev"}
	}
	return []string{"main", "dev"}
}

// c12MkDocs makes documents for the given name indices. All have the same size so
// that ShardMax = perShard*c12DocSize-1 gives exactly len/perShard shards.
func c12MkDocs(r *rand.Rand, repo string, gen int, idx []int) []c12Doc {
	var out []c12Doc
	for _, i := range idx {
		n := c12Name(i)
		out = append(out, c12Doc{Name: n, Content: c12Content(r, repo, gen, n), Branches: c12DocBranches(r)})
	}
	return out
}

func c12Range(from, n int) []int {
	var out []int
	for i := 0; i < n; i++ {
		out = append(out, from+i)
	}
	return out
}

func c12Base(repo string, id uint32, gen int, perShard int, par int) c12Build {
	return c12Build{Name: repo, ID: id, Branches: c12Branches(gen), Metadata: map[string]string{"gen": fmt.Sprint(gen)},
		ShardMax: perShard*c12DocSize - 1, Parallelism: par}
}

func shape(n int) string {
	if n == 1 {
		return "1"
	}
	return "N"
}

func plural(n int) string {
	if n == 1 {
		return "1 shard"
	}
	return "N shards"
}

func c12Model(model map[string]c12Doc, b c12Build) map[string]c12Doc {
	out := map[string]c12Doc{}
	if b.IsDelta {
		for k, v := range model {
			out[k] = v
		}
		for _, t := range b.Tomb {
			delete(out, t)
		}
	}
	for _, d := range b.Docs {
		out[d.Name] = d
	}
	return out
}

func c12Full(r *rand.Rand, no, s1, s2 int, meta bool) c12Scenario {
	const repo, id = "crash/repo", 7
	m1, m2 := 2+r.IntN(2), 2+r.IntN(2)
	par := 1
	if r.IntN(2) == 0 {
		par = 4
	}
	b1 := c12Base(repo, id, 1, m1, 1)
	b1.Docs = c12MkDocs(r, repo, 1, c12Range(0, s1*m1))
	b2 := c12Base(repo, id, 3, m2, par)
	b2.Docs = c12MkDocs(r, repo, 3, c12Range(r.IntN(3), s2*m2))
	sc := c12Scenario{Setup: []c12Build{b1}, Run: b2, OldShards: s1, NewShards: s2}
	sc.Class = fmt.Sprintf("full %s→%s shards", shape(s1), shape(s2))
	sc.Name = fmt.Sprintf("#%d full %d→%d shards par=%d", no, s1, s2, par)
	if meta {
		mb := c12Base(repo, id, 2, m1, 1)
		mb.IsDelta = true
		sc.MetaAfter = &mb
		sc.Class = fmt.Sprintf("full+meta %s→%s shards", shape(s1), shape(s2))
		sc.Name = fmt.Sprintf("#%d full %d(+.meta)→%d shards par=%d", no, s1, s2, par)
	}
	sc.WantDocs = c12Model(nil, b2)
	return sc
}

// c12Delta: version 1 is a full build of s1 shards (+ an earlier delta build when
// prior), the run is a delta build that adds sD shards (0 = metadata only) and
// rewrites the sidecars of all older shards.
func c12Delta(r *rand.Rand, no, s1 int, prior bool, sD int) c12Scenario {
	const repo, id = "crash/delta", 9
	m := 2 + r.IntN(2)
	b1 := c12Base(repo, id, 1, m, 1)
	b1.Docs = c12MkDocs(r, repo, 1, c12Range(0, s1*m))
	sc := c12Scenario{Setup: []c12Build{b1}}
	model := c12Model(nil, b1)
	next := s1 * m
	old := s1
	mkDelta := func(gen, shards int) c12Build {
		b := c12Base(repo, id, gen, 2, 1)
		b.IsDelta = true
		if shards == 0 {
			return b
		}
		var names []string
		for n := range model {
			names = append(names, n)
		}
		sort.Strings(names)
		r.Shuffle(len(names), func(i, j int) { names[i], names[j] = names[j], names[i] })
		want := shards * 2
		nChanged := 1 + r.IntN(want)
		if nChanged > len(names)-1 {
			nChanged = len(names) - 1
		}
		var idx []int
		for _, n := range names[:nChanged] {
			var i int
			fmt.Sscanf(n, "f%03d.txt", &i)
			idx = append(idx, i)
			b.Tomb = append(b.Tomb, n)
		}
		// one removed file
		b.Tomb = append(b.Tomb, names[nChanged])
		for len(idx) < want {
			idx = append(idx, next)
			next++
		}
		sort.Ints(idx)
		sort.Strings(b.Tomb)
		b.Docs = c12MkDocs(r, repo, gen, idx)
		return b
	}
	if prior {
		d := mkDelta(2, 1)
		sc.Setup = append(sc.Setup, d)
		model = c12Model(model, d)
		old++
	}
	run := mkDelta(3, sD)
	sc.Run = run
	sc.WantDocs = c12Model(model, run)
	sc.OldShards, sc.NewShards = old, old+sD
	if sD == 0 {
		sc.Class = "metadata-only delta over " + plural(old)
		sc.Name = fmt.Sprintf("#%d metadata-only delta over %d shards", no, old)
	} else {
		sc.Class = "delta over " + plural(old)
		sc.Name = fmt.Sprintf("#%d delta (+%d) over %d shards (prior delta: %v)", no, sD, old, prior)
	}
	return sc
}

// c12Compound: version 1 of the target lives in a compound shard together with
// two bystanders; the run is a full build with ShardMerging, which writes simple
// shards and tombstones the target in the compound shard.
func c12Compound(r *rand.Rand, no, s2 int, tombBy bool) c12Scenario {
	const repo, id = "crash/compound", 11
	m := 2 + r.IntN(2)
	b1 := c12Base(repo, id, 1, 4, 1)
	b1.Docs = c12MkDocs(r, repo, 1, c12Range(0, 3))
	b1.ShardMax = 1 << 16 // one shard; a small limit keeps the builder's preallocation small
	sc := c12Scenario{Setup: []c12Build{b1}, TombBy: tombBy}
	for j, n := range []string{"by/one", "by/two"} {
		bb := c12Base(n, uint32(21+j), 1, 4, 1)
		bb.ShardMax = 1 << 16
		bb.Docs = c12MkDocs(r, n, 1, c12Range(0, 2+r.IntN(2)))
		sc.Compound = append(sc.Compound, bb)
	}
	b2 := c12Base(repo, id, 3, m, 1)
	b2.ShardMerging = true
	b2.Docs = c12MkDocs(r, repo, 3, c12Range(r.IntN(2), s2*m))
	sc.Run = b2
	sc.WantDocs = c12Model(nil, b2)
	sc.OldShards, sc.NewShards = 0, s2
	sc.Class = "compound→" + plural(s2)
	sc.Name = fmt.Sprintf("#%d compound→%d shards (bystander tombstoned before: %v)", no, s2, tombBy)
	return sc
}

func c12Scenarios(r *rand.Rand, quick bool) []c12Scenario {
	var out []c12Scenario
	add := func(f func(no int) c12Scenario) { out = append(out, f(len(out))) }
	rounds := 1
	if !quick {
		rounds = 2
	}
	for round := 0; round < rounds; round++ {
		for s1 := 1; s1 <= 3; s1++ {
			for s2 := 1; s2 <= 3; s2++ {
				add(func(no int) c12Scenario { return c12Full(r, no, s1, s2, false) })
				if !quick || (s1 == 1 && s2 == 1) || (s1 == 1 && s2 == 3) || (s1 == 2 && s2 == 1) || (s1 == 3 && s2 == 2) {
					add(func(no int) c12Scenario { return c12Full(r, no, s1, s2, true) })
				}
			}
		}
		type dl struct {
			s1    int
			prior bool
			sD    int
		}
		ds := []dl{{1, false, 1}, {2, false, 1}, {2, true, 2}, {1, false, 0}, {3, false, 0}}
		if !quick {
			ds = append(ds, dl{1, false, 2}, dl{1, true, 1}, dl{3, false, 1}, dl{3, true, 1}, dl{2, true, 0}, dl{2, false, 2})
		}
		for _, d := range ds {
			add(func(no int) c12Scenario { return c12Delta(r, no, d.s1, d.prior, d.sD) })
		}
		add(func(no int) c12Scenario { return c12Compound(r, no, 1, false) })
		add(func(no int) c12Scenario { return c12Compound(r, no, 2, true) })
		if !quick {
			add(func(no int) c12Scenario { return c12Compound(r, no, 1, true) })
			add(func(no int) c12Scenario { return c12Compound(r, no, 3, false) })
		}
	}
	return out
}

// c12Prepare builds version 1 into dir.
func c12Prepare(sc *c12Scenario, dir string) error {
	if err := os.MkdirAll(dir, 0o755); err != nil {
		return err
	}
	if sc.Compound == nil {
		for _, b := range sc.Setup {
			if err := b.run(dir); err != nil {
				return fmt.Errorf("setup build: %w", err)
			}
		}
		if sc.MetaAfter != nil {
			if err := sc.MetaAfter.run(dir); err != nil {
				return fmt.Errorf("setup metadata build: %w", err)
			}
		}
		return nil
	}
	scratch := dir + ".simple"
	defer os.RemoveAll(scratch)
	if err := os.MkdirAll(scratch, 0o755); err != nil {
		return err
	}
	for _, b := range append(append([]c12Build{}, sc.Setup...), sc.Compound...) {
		if err := b.run(scratch); err != nil {
			return fmt.Errorf("setup build: %w", err)
		}
	}
	fs, _ := filepath.Glob(filepath.Join(scratch, "*.zoekt"))
	sort.Strings(fs)
	var files []index.IndexFile
	defer func() {
		for _, f := range files {
			f.Close()
		}
	}()
	for _, fn := range fs {
		f, err := os.Open(fn)
		if err != nil {
			return err
		}
		inf, err := index.NewIndexFile(f)
		if err != nil {
			return err
		}
		files = append(files, inf)
	}
	tmp, dst, err := index.Merge(dir, files...)
	if err != nil {
		return fmt.Errorf("setup merge: %w", err)
	}
	if err := os.Rename(tmp, dst); err != nil {
		return err
	}
	if sc.TombBy {
		if err := index.SetTombstone(dst, sc.Compound[len(sc.Compound)-1].ID); err != nil {
			return err
		}
	}
	return nil
}

// ---------------------------------------------------------------------------
// the monitor

const c12FailOps = "rename,remove,rename-meta"

type c12Ref struct {
	tpl      string
	spec     string
	old, new dirView
	oldKey   string
	newKey   string
	clean    fsTrace
	K        int // FS events of a complete run
	F        int // rename/remove/rename-meta events of a complete run
	renames  int
	removals int
	tombLoop bool
	firstRen int // counter value of the first rename
}

type c12Stats struct {
	mu                          sync.Mutex
	children                    int
	states, prefixes            map[string]bool
	old, new, neither           int
	failNil, failErr            int
	failErrOld, failErrNew      int
	failErrNeither, notReached  int
	inconclusive                int
	violations                  map[string]int
	failErrNeitherSamples       []string
}

func TestVerif_C12(t *testing.T) {
	if os.Getenv("VERIF_CHILD") == "c12build" {
		c12Child()
		return
	}
	rec := kit.Open("C12")
	defer rec.Done()
	log.SetOutput(io.Discard)

	reps := rec.N(2, 3)
	workers := 16
	r := rec.Rand(1)
	scs := c12Scenarios(r, rec.Quick())
	rec.Count("scenarios", int64(len(scs)))
	rec.Count("repetitions_per_volatile_k", int64(reps))

	only := os.Getenv("CRASHFS_ONLY") // development aid: run only the scenarios whose name contains this
	for i := range scs {
		sc := &scs[i]
		if only != "" && !strings.Contains(sc.Name, only) {
			continue
		}
		base := filepath.Join(rec.Work, fmt.Sprintf("c12-%d", i))
		c12RunScenario(rec, sc, base, reps, workers)
		os.RemoveAll(base)
	}
}

func c12Spawn(ref *c12Ref, dir string, env []string) (procResult, fsTrace, c12Result, bool) {
	tr := dir + ".trace"
	resp := dir + ".res"
	os.Remove(tr)
	os.Remove(resp)
	env = append([]string{"VERIF_CHILD=c12build", "C12_SPEC=" + ref.spec, "C12_DIR=" + dir, "C12_RES=" + resp,
		"VERIF_FS_TRACE=" + tr, "VERIF_OUT=" + os.DevNull, "GOMAXPROCS=1", "GOGC=off", "GOTRACEBACK=all"}, env...)
	pr := runProc(os.Args[0], []string{"-test.run", "^TestVerif_C12$", "-test.timeout", "0"}, nil, env, 120*time.Second)
	trace := readTrace(tr)
	var res c12Result
	have := false
	if b, err := os.ReadFile(resp); err == nil && json.Unmarshal(b, &res) == nil {
		have = res.Finished
	}
	os.Remove(tr)
	os.Remove(resp)
	return pr, trace, res, have
}

func c12Classify(ref *c12Ref, v dirView) string {
	switch v.key() {
	case ref.newKey:
		return "new"
	case ref.oldKey:
		return "old"
	}
	return "neither"
}

// c12Phase names where in Finish the executed prefix ends.
func c12Phase(ref *c12Ref, ex []fsEvent) (phase string, progress string) {
	rn := countOps(ex, "rename")
	rm := countOps(ex, "remove", "rename-meta")
	loop := "remove"
	if ref.tombLoop {
		loop = "tombstone"
	}
	switch {
	case rn == 0 && rm > 0:
		return loop + "/before any rename", fmt.Sprintf("0 of %d renames, %d of %d old files handled", ref.renames, rm, ref.removals)
	case rn == 0:
		return "write/nothing installed", fmt.Sprintf("0 of %d renames", ref.renames)
	case rn < ref.renames:
		return "rename/partial", fmt.Sprintf("%d of %d renames", rn, ref.renames)
	case rm < ref.removals:
		return loop + "/pending", fmt.Sprintf("all %d renames, %d of %d old files handled", ref.renames, rm, ref.removals)
	}
	return "done/complete", fmt.Sprintf("all %d renames, all %d old files handled", ref.renames, ref.removals)
}

func c12RunScenario(rec *kit.Rec, sc *c12Scenario, base string, reps, workers int) {
	harness := func(what string, err any) {
		rec.Violation("harness/"+what, fmt.Sprintf("%s: %v", sc.Name, err), sc)
	}
	ref := &c12Ref{tpl: filepath.Join(base, "tpl"), spec: filepath.Join(base, "spec.json")}
	if err := c12Prepare(sc, ref.tpl); err != nil {
		harness("prepare", err)
		return
	}
	raw, _ := json.Marshal(sc.Run)
	if err := os.WriteFile(ref.spec, raw, 0o644); err != nil {
		harness("prepare", err)
		return
	}
	countShards := func(dir string) (shards, metas int) {
		pre := strings.ReplaceAll(sc.Run.Name, "/", "%2F") + "_v"
		for _, n := range fileNames(dir) {
			if strings.HasPrefix(n, pre) && strings.HasSuffix(n, ".zoekt") {
				shards++
			}
			if strings.HasPrefix(n, pre) && strings.HasSuffix(n, ".zoekt.meta") {
				metas++
			}
		}
		return
	}
	if n, metas := countShards(ref.tpl); n != sc.OldShards || (sc.MetaAfter != nil && metas != n) {
		harness("layout", fmt.Sprintf("version 1 has %d shards %d sidecars, scenario wants %d: %v", n, metas, sc.OldShards, fileNames(ref.tpl)))
		return
	}
	var err error
	if ref.old, err = loadView(ref.tpl); err != nil {
		harness("load", err)
		return
	}
	ref.oldKey = ref.old.key()

	// counting run (complete)
	cdir := filepath.Join(base, "clean")
	if err := copyDir(ref.tpl, cdir); err != nil {
		harness("copy", err)
		return
	}
	pr, trace, res, have := c12Spawn(ref, cdir, nil)
	if !have || pr.Exit != 0 {
		harness("clean run died", pr)
		return
	}
	ref.clean = trace
	ref.K = len(trace.Events)
	ref.F = trace.count("rename", "remove", "rename-meta")
	ref.renames = trace.count("rename")
	ref.removals = trace.count("remove", "tombstone")
	ref.tombLoop = trace.count("tombstone") > 0
	for _, e := range trace.Events {
		if e.Op == "rename" {
			ref.firstRen = e.N
			break
		}
	}
	if ref.new, err = loadView(cdir); err != nil {
		harness("load", err)
		return
	}
	ref.newKey = ref.new.key()
	witnessBase := func() map[string]any {
		return map[string]any{"scenario": sc.Name, "class": sc.Class, "run": sc.Run, "setup": sc.Setup, "metadata_update_before": sc.MetaAfter,
			"compound_bystanders": sc.Compound, "v1_files": dirListing(ref.tpl), "complete_run_ops": renderEvents(ref.clean.Events),
			"how": "build v1 with the setup builds, then run `run` through index.NewBuilder/Add/Finish with VERIF_FS_KILL_AT / VERIF_FS_FAIL_AT as given"}
	}
	// a complete run that reports success must have installed exactly version 2
	if res.Err != "" {
		harness("clean run failed", res.Err)
		return
	}
	{
		got := map[string]c12Doc{}
		dup := false
		for _, d := range ref.new.Docs {
			if d.Repo != sc.Run.Name {
				continue
			}
			if _, ok := got[d.Name]; ok {
				dup = true
			}
			got[d.Name] = c12Doc{Name: d.Name, Content: d.Content, Branches: d.Branches}
		}
		wj, _ := json.Marshal(sc.WantDocs)
		gj, _ := json.Marshal(got)
		if dup || string(wj) != string(gj) {
			w := witnessBase()
			w["want_docs"], w["got_view"] = sc.WantDocs, ref.new
			rec.Violation(sc.Class+"/complete run/success reported but the documents are not those of the new version",
				fmt.Sprintf("%s: Finish returned nil without any fault; the loaded directory does not show the documents of version 2", sc.Name), w)
			return
		}
		for _, rv := range ref.new.Repos {
			if rv.Name == sc.Run.Name {
				bj, _ := json.Marshal(rv.Branches)
				wj, _ := json.Marshal(sc.Run.Branches)
				if string(bj) != string(wj) || rv.Metadata["gen"] != sc.Run.Metadata["gen"] {
					w := witnessBase()
					w["got_view"] = ref.new
					rec.Violation(sc.Class+"/complete run/success reported but the listing shows old repository metadata",
						fmt.Sprintf("%s: Finish returned nil without any fault; listing shows %s %v", sc.Name, bj, rv.Metadata), w)
					return
				}
			}
		}
	}
	if n, _ := countShards(cdir); n != sc.NewShards {
		harness("layout", fmt.Sprintf("version 2 has %d shards, scenario wants %d: %v", n, sc.NewShards, fileNames(cdir)))
		return
	}
	if ref.oldKey == ref.newKey {
		harness("trivial scenario", "view(v1) == view(v2)")
		return
	}
	os.RemoveAll(cdir)

	st := &c12Stats{states: map[string]bool{}, prefixes: map[string]bool{}, violations: map[string]int{}}
	var jobs []func()
	seq := 0
	addJob := func(mode string, k int) {
		seq++
		id := seq
		jobs = append(jobs, func() { c12OneFault(rec, sc, ref, st, witnessBase, filepath.Join(base, fmt.Sprintf("w%d", id)), mode, k) })
	}
	for _, mode := range []string{"kill", "kill+torn"} {
		for k := 1; k <= ref.K; k++ {
			if mode == "kill+torn" && !c12TornDiffers(ref, sc, k) {
				continue // VERIF_FS_TORN truncates only *.tmp files named by the event: same state as the plain kill
			}
			n := 1
			if k > ref.firstRen && mode == "kill" {
				n = reps // the torn variant exists for states with *.tmp files; the map-order variety comes from the plain kills
			}
			for i := 0; i < n; i++ {
				addJob(mode, k)
			}
		}
	}
	for k := 1; k <= ref.F; k++ {
		// which rename/remove is the k-th depends on the map order too; the quick
		// tier takes one order per k, the thorough tier two
		failReps := 1
		if reps > 2 {
			failReps = 2
		}
		for i := 0; i < failReps; i++ {
			addJob("fail", k)
		}
	}
	parallel(workers, jobs)

	rec.Count("children", int64(st.children))
	rec.Count("fs_events_K_total", int64(ref.K))
	rec.Max("max_K", int64(ref.K))
	rec.Count("view_old", int64(st.old))
	rec.Count("view_new", int64(st.new))
	rec.Count("view_neither", int64(st.neither))
	rec.Count("fail_finish_nil", int64(st.failNil))
	rec.Count("fail_finish_error", int64(st.failErr))
	rec.Count("fail_finish_error_view_old", int64(st.failErrOld))
	rec.Count("fail_finish_error_view_new", int64(st.failErrNew))
	rec.Count("fail_finish_error_view_neither", int64(st.failErrNeither))
	rec.Count("fault_not_reached", int64(st.notReached))
	rec.Count("inconclusive_children", int64(st.inconclusive))
	rec.Count("distinct_disk_states", int64(len(st.states)))
	rec.Count("distinct_op_prefixes", int64(len(st.prefixes)))
	rec.Seen("scenario_classes", sc.Class)
	note := map[string]any{"scenario": sc.Name, "class": sc.Class, "K": ref.K, "renames": ref.renames, "old_files_handled": ref.removals,
		"sabotageable_ops": ref.F, "children": st.children, "distinct_disk_states": len(st.states), "distinct_op_prefixes": len(st.prefixes),
		"view_old": st.old, "view_new": st.new, "view_neither": st.neither, "fail_error_view_neither": st.failErrNeither, "violations": st.violations}
	if len(st.failErrNeitherSamples) > 0 {
		note["fail_error_view_neither_samples"] = st.failErrNeitherSamples
	}
	rec.Note("scenario", note)
}

// c12TornDiffers: can the k-th event of a run name a *.tmp file? In the write
// phase of a parallel build the order of the events differs between runs, so every
// k in front of the first rename counts there.
func c12TornDiffers(ref *c12Ref, sc *c12Scenario, k int) bool {
	if sc.Run.Parallelism > 1 && k < ref.firstRen {
		return true
	}
	e, ok := ref.clean.at(k)
	if !ok {
		return true
	}
	for _, p := range e.Paths {
		if strings.HasSuffix(p, ".tmp") {
			return true
		}
	}
	return false
}

func c12OneFault(rec *kit.Rec, sc *c12Scenario, ref *c12Ref, st *c12Stats, witnessBase func() map[string]any, dir, mode string, k int) {
	defer os.RemoveAll(dir)
	if err := copyDir(ref.tpl, dir); err != nil {
		rec.Violation("harness/copy", err.Error(), nil)
		return
	}
	var env []string
	switch mode {
	case "kill":
		env = []string{fmt.Sprintf("VERIF_FS_KILL_AT=%d", k)}
	case "kill+torn":
		env = []string{fmt.Sprintf("VERIF_FS_KILL_AT=%d", k), "VERIF_FS_TORN=1"}
	case "fail":
		env = []string{fmt.Sprintf("VERIF_FS_FAIL_AT=%d", k), "VERIF_FS_FAIL_OPS=" + c12FailOps}
	}
	pr, trace, res, have := c12Spawn(ref, dir, env)
	listing := dirListing(dir)
	view, lerr := loadView(dir)

	st.mu.Lock()
	defer st.mu.Unlock()
	st.children++
	if pr.TimedOut {
		st.inconclusive++
		return
	}
	if lerr != nil {
		rec.Violation("harness/load", fmt.Sprintf("%s %s k=%d: %v", sc.Name, mode, k, lerr), nil)
		return
	}
	ex := trace.executed()
	stateKey := shortHash(sc.Name + "\n" + strings.Join(listing, "\n"))
	prefixKey := shortHash(sc.Name + "\n" + strings.Join(renderEvents(ex), "\n"))
	cls := c12Classify(ref, view)
	witness := func(extra map[string]any) map[string]any {
		w := witnessBase()
		w["mode"], w["k"], w["executed_ops"], w["files_after"] = mode, k, renderEvents(ex), listing
		w["view_after"], w["view_v1"], w["view_v2"] = view, ref.old, ref.new
		w["child"] = pr
		for a, b := range extra {
			w[a] = b
		}
		return w
	}
	fired := false
	switch mode {
	case "kill", "kill+torn":
		fired = trace.KillAt == k && pr.Signal != ""
		if !fired {
			if have && pr.Exit == 0 {
				// the run had fewer events than the counting run: it is a complete run
				st.notReached++
				if res.Err == "" && cls != "new" {
					rec.Violation(sc.Class+"/complete run/success reported but view is "+cls, fmt.Sprintf("%s: %s", sc.Name, diffViews(ref.new, view)), witness(nil))
				}
				return
			}
			rec.Violation("harness/child ended unexpectedly", fmt.Sprintf("%s %s k=%d: exit=%d signal=%q", sc.Name, mode, k, pr.Exit, pr.Signal), witness(nil))
			return
		}
		st.states[stateKey] = true
		st.prefixes[prefixKey] = true
		rec.Seen("disk_states", stateKey)
		rec.Seen("op_prefixes", prefixKey)
		phase, progress := c12Phase(ref, ex)
		killed, _ := trace.at(k)
		rec.Seen("kill_points", sc.Class+"/"+killed.Op+"/"+phase)
		rec.Case(sc.Name+"|"+mode+"|"+stateKey+"|"+prefixKey, true, func() any {
			return map[string]any{"scenario": sc.Name, "mode": mode, "k": k, "killed_in_front_of": killed.Op, "progress": progress, "files": listing, "view": cls}
		})
		switch cls {
		case "old":
			st.old++
		case "new":
			st.new++
		default:
			st.neither++
			sig := sc.Class + "/kill/" + phase
			st.violations[sig]++
			rec.Violation(sig, fmt.Sprintf("%s: killed in front of FS event %d (%s %s) after %s: the loaded directory is neither version 1 nor version 2. vs v1: %s || vs v2: %s",
				sc.Name, k, killed.Op, strings.Join(killed.Paths, " -> "), progress, diffViews(ref.old, view), diffViews(ref.new, view)), witness(map[string]any{"progress": progress}))
		}
	case "fail":
		fired = trace.FailAt == k
		if !have || pr.Exit != 0 {
			rec.Violation("harness/child ended unexpectedly", fmt.Sprintf("%s %s k=%d: exit=%d signal=%q", sc.Name, mode, k, pr.Exit, pr.Signal), witness(nil))
			return
		}
		if !fired {
			st.notReached++
			if res.Err == "" && cls != "new" {
				rec.Violation(sc.Class+"/complete run/success reported but view is "+cls, fmt.Sprintf("%s: %s", sc.Name, diffViews(ref.new, view)), witness(nil))
			}
			return
		}
		st.states[stateKey] = true
		st.prefixes[prefixKey] = true
		rec.Seen("disk_states", stateKey)
		rec.Seen("op_prefixes", prefixKey)
		failed, _ := trace.at(k)
		rec.Seen("fail_points", sc.Class+"/"+failed.Op)
		rec.Case(sc.Name+"|"+mode+"|"+stateKey+"|"+prefixKey, true, func() any {
			return map[string]any{"scenario": sc.Name, "mode": mode, "k": k, "failed": failed.Op, "finish_error": res.Err, "files": listing, "view": cls}
		})
		if res.Err == "" {
			st.failNil++
			switch cls {
			case "new":
				st.new++
			default:
				if cls == "old" {
					st.old++
				} else {
					st.neither++
				}
				sig := sc.Class + "/fail/" + failed.Op + "/success reported but view is " + cls
				st.violations[sig]++
				rec.Violation(sig, fmt.Sprintf("%s: %s %s was made to fail (ENOENT) and Finish returned nil, but the loaded directory is not version 2. vs v2: %s",
					sc.Name, failed.Op, strings.Join(failed.Paths, " -> "), diffViews(ref.new, view)), witness(map[string]any{"failed_op": failed}))
			}
			return
		}
		// Finish reported the failure. The statement promises nothing about the
		// directory in that case; what is left is recorded as evidence only.
		st.failErr++
		switch cls {
		case "old":
			st.failErrOld++
			st.old++
		case "new":
			st.failErrNew++
			st.new++
		default:
			st.failErrNeither++
			st.neither++
			if len(st.failErrNeitherSamples) < 3 {
				st.failErrNeitherSamples = append(st.failErrNeitherSamples, clip(fmt.Sprintf("failed %s %s; Finish returned an error; vs v1: %s", failed.Op, strings.Join(failed.Paths, " -> "), diffViews(ref.old, view)), 400))
			}
		}
	}
}
