// Package cfg holds the monitors of properties about process-wide configuration
// (environment variables read once per process / per shard load): C04 and C28.
// Every setting is exercised in its own child process (the test binary re-executes
// itself); the parent compares what the children answered.
package cfg

import (
	"encoding/hex"
	"encoding/json"
	"fmt"
	"hash/fnv"
	"os"
	"reflect"
	"sort"
	"strings"

	"github.com/sourcegraph/zoekt"
	kit "github.com/sourcegraph/zoekt/internal/verifkit"
	"github.com/sourcegraph/zoekt/internal/verifkit/ix"
)

func hash64(s string) uint64 {
	h := fnv.New64a()
	h.Write([]byte(s))
	return h.Sum64()
}

// fpFile is everything a search returned about one file, split into the classes a
// divergence is attributed to.
type fpFile struct {
	Key      string `json:"k"` // repo \x00 name \x00 checksum
	Branches string `json:"b"`
	Ranges   string `json:"r"` // normalised content and name match ranges
	Score    string `json:"s"` // score and debug string
	Rest     uint64 `json:"x"` // hash of the whole FileMatch (lines, context, content, urls …) without score
}

// fp is the comparable view of one answer. Files are in result order.
type fp struct {
	Err   string   `json:"e,omitempty"`
	Files []fpFile `json:"f"`
	Stats string   `json:"st"`
}

func fileKey(f *zoekt.FileMatch) string {
	return f.Repository + "\x00" + f.FileName + "\x00" + hex.EncodeToString(f.Checksum)
}

func showKey(k string) string {
	p := strings.SplitN(k, "\x00", 3)
	if len(p) < 3 {
		return k
	}
	return p[0] + ":" + p[1] + "#" + p[2]
}

func fingerprintFile(f *zoekt.FileMatch) fpFile {
	n := ix.NormFile(f)
	out := fpFile{
		Key:      fileKey(f),
		Branches: strings.Join(f.Branches, ","),
		Ranges:   fmt.Sprintf("%v|%v", n.Ranges, n.NameRanges),
		Score:    fmt.Sprintf("%v|%s", f.Score, f.Debug),
	}
	c := *f
	c.Score, c.Debug = 0, ""
	c.LineMatches = append([]zoekt.LineMatch(nil), f.LineMatches...)
	for i := range c.LineMatches {
		c.LineMatches[i].Score, c.LineMatches[i].DebugScore = 0, ""
	}
	c.ChunkMatches = append([]zoekt.ChunkMatch(nil), f.ChunkMatches...)
	for i := range c.ChunkMatches {
		c.ChunkMatches[i].Score, c.ChunkMatches[i].DebugScore = 0, ""
	}
	b, err := json.Marshal(&c)
	if err != nil {
		b = []byte(fmt.Sprintf("%+v", c))
	}
	out.Rest = hash64(string(b))
	// line / chunk scores belong to the score class
	var sc strings.Builder
	for i := range f.LineMatches {
		fmt.Fprintf(&sc, "|%v%s", f.LineMatches[i].Score, f.LineMatches[i].DebugScore)
	}
	for i := range f.ChunkMatches {
		fmt.Fprintf(&sc, "|%v%s", f.ChunkMatches[i].Score, f.ChunkMatches[i].DebugScore)
	}
	out.Score += sc.String()
	return out
}

// fingerprint turns (result, error) into the comparable view. Only counters that do
// not depend on timing are kept from the statistics.
func fingerprint(sr *zoekt.SearchResult, err error) fp {
	if err != nil {
		return fp{Err: "error: " + kit.MsgClass(err.Error())}
	}
	var out fp
	for i := range sr.Files {
		out.Files = append(out.Files, fingerprintFile(&sr.Files[i]))
	}
	s := sr.Stats
	out.Stats = fmt.Sprintf("files=%d matches=%d considered=%d loaded=%d skipped=%d shardfiles=%d scanned=%d shardsskipped=%d skippedfilter=%d crashes=%d ngram=%d regexps=%d content=%d",
		s.FileCount, s.MatchCount, s.FilesConsidered, s.FilesLoaded, s.FilesSkipped, s.ShardFilesConsidered, s.ShardsScanned, s.ShardsSkipped, s.ShardsSkippedFilter, s.Crashes, s.NgramMatches, s.RegexpsConsidered, s.ContentBytesLoaded)
	return out
}

func (a fp) equal(b fp) bool { return reflect.DeepEqual(a, b) }

func (a fp) hash() uint64 {
	b, _ := json.Marshal(a)
	return hash64(string(b))
}

// scoresTie reports whether two files of a carry the same score: the order of such
// files through the sharded searcher depends on which shard answers first.
func scoresTie(a fp) bool {
	seen := map[string]bool{}
	for _, f := range a.Files {
		s := strings.SplitN(f.Score, "|", 2)[0]
		if seen[s] {
			return true
		}
		seen[s] = true
	}
	return false
}

// diffFP names the first class in which got departs from want ("" = same answer).
// ordered: the order of the files is part of the answer.
func diffFP(want, got fp, ordered bool) (class, detail string) {
	if want.Err != got.Err {
		if strings.HasPrefix(got.Err, "panic") || strings.HasPrefix(want.Err, "panic") {
			return "panic", fmt.Sprintf("alone: %q, here: %q", want.Err, got.Err)
		}
		return "error", fmt.Sprintf("alone: %q, here: %q", want.Err, got.Err)
	}
	wm, gm := map[string][]fpFile{}, map[string][]fpFile{}
	for _, f := range want.Files {
		wm[f.Key] = append(wm[f.Key], f)
	}
	for _, f := range got.Files {
		gm[f.Key] = append(gm[f.Key], f)
	}
	var missing, extra []string
	for k, l := range wm {
		if len(gm[k]) < len(l) {
			missing = append(missing, showKey(k))
		}
	}
	for k, l := range gm {
		if len(wm[k]) < len(l) {
			extra = append(extra, showKey(k))
		}
	}
	sort.Strings(missing)
	sort.Strings(extra)
	if len(missing) > 0 {
		return "files missing", fmt.Sprintf("%d of %d files missing: %q (extra: %q)", len(missing), len(want.Files), clipList(missing, 6), clipList(extra, 6))
	}
	if len(extra) > 0 {
		return "files extra", fmt.Sprintf("%d extra files on top of %d: %q", len(extra), len(want.Files), clipList(extra, 6))
	}
	for _, w := range want.Files {
		g := gm[w.Key][0]
		if len(gm[w.Key]) > 1 {
			// same key several times on both sides: compare as sorted lists
			continue
		}
		switch {
		case w.Branches != g.Branches:
			return "branches", fmt.Sprintf("%s: alone [%s], here [%s]", showKey(w.Key), w.Branches, g.Branches)
		case w.Ranges != g.Ranges:
			return "ranges", fmt.Sprintf("%s: alone %s, here %s", showKey(w.Key), clip(w.Ranges, 300), clip(g.Ranges, 300))
		case w.Rest != g.Rest:
			return "match content", fmt.Sprintf("%s: same ranges, but lines / context / content / metadata of the file match differ", showKey(w.Key))
		case w.Score != g.Score:
			return "scores", fmt.Sprintf("%s: alone %s, here %s", showKey(w.Key), clip(w.Score, 300), clip(g.Score, 300))
		}
	}
	if ordered {
		for i := range want.Files {
			if want.Files[i] != got.Files[i] {
				return "order", fmt.Sprintf("position %d: alone %s, here %s", i, showKey(want.Files[i].Key), showKey(got.Files[i].Key))
			}
		}
	}
	if want.Stats != got.Stats {
		return "stats", fmt.Sprintf("alone {%s}, here {%s}", want.Stats, got.Stats)
	}
	return "", ""
}

func clipList(l []string, n int) []string {
	if len(l) > n {
		return append(append([]string{}, l[:n]...), fmt.Sprintf("… %d more", len(l)-n))
	}
	return l
}

func clip(s string, n int) string {
	if len(s) > n {
		return s[:n] + "…"
	}
	return s
}

// guardSearch runs one search and folds a panic into the fingerprint.
func guardSearch(f func() (*zoekt.SearchResult, error)) fp {
	var sr *zoekt.SearchResult
	var err error
	if msg, stack, p := kit.Guard(func() { sr, err = f() }); p {
		return fp{Err: "panic: " + kit.PanicSite(stack) + ": " + kit.MsgClass(msg)}
	}
	return fingerprint(sr, err)
}

func writeJSON(path string, v any) error {
	b, err := json.Marshal(v)
	if err != nil {
		return err
	}
	if err := os.WriteFile(path+".tmp", b, 0o644); err != nil {
		return err
	}
	return os.Rename(path+".tmp", path)
}

func readJSON(path string, v any) error {
	b, err := os.ReadFile(path)
	if err != nil {
		return err
	}
	return json.Unmarshal(b, v)
}
