package cfg

import (
	"context"
	"fmt"
	"os"
	"path/filepath"
	"regexp/syntax"
	"sort"
	"strconv"
	"strings"
	"sync"
	"testing"
	"time"
	"unicode/utf8"

	gregexp "github.com/grafana/regexp"
	re2regexp "github.com/wasilibs/go-re2"

	"github.com/sourcegraph/zoekt"
	"github.com/sourcegraph/zoekt/internal/syntaxutil"
	kit "github.com/sourcegraph/zoekt/internal/verifkit"
	"github.com/sourcegraph/zoekt/internal/verifkit/ix"
	"github.com/sourcegraph/zoekt/query"
)

// C28: the RE2 size threshold never changes search results.
//
// ZOEKT_RE2_THRESHOLD_BYTES is read once per process (internal/hybridre2: threshold),
// so every setting runs in its own child process. The parent writes the corpora
// (valid UTF-8 only, one simple shard each) once; every child opens them and answers
// the same seed-derived regexp battery in line and in chunk mode; the parent compares
// files and match ranges of every setting with those of the child that ran with the
// variable unset (grafana/regexp only).
//
// Which engine a child really used is observed, not assumed: a probe shard holds
// documents of 5 / 100 / 5000 bytes with one invalid byte (outside the property's
// domain, used as a tracer only): `[^a\n]` matches that byte under grafana/regexp
// and not under go-re2.

var c28Settings = []string{"unset", "0", "1", "64", "1000000000"}

func c28SettingsFor(rec *kit.Rec) []string {
	if rec.Quick() {
		return c28Settings
	}
	return append(append([]string{}, c28Settings...), "-1", "4096", "40000")
}

func c28Sizes(rec *kit.Rec) (corpora, regexes int) { return rec.N(40, 160), 60 }

// runes whose simple-fold orbit holds members of different UTF-8 length
var c28LengthChanging = []rune{0x212A /* KELVIN SIGN */, 0x017F /* LONG S */, 0x212B /* ANGSTROM SIGN */, 0x1E9E /* CAPITAL SHARP S */, 0x2126 /* OHM SIGN */}

func c28HasLengthChanging(s string) bool {
	for _, r := range s {
		for _, x := range c28LengthChanging {
			if r == x {
				return true
			}
		}
	}
	return false
}

var c28Runes = []rune{'a', 'b', 'c', 'k', 's', 'A', 'B', 'K', 'S', 'x', '1', '_', '.', ' ', ' ', '\n', '\n', '\t',
	0xE9 /* e acute */, 0xC9, 0x434 /* cyrillic de */, 0x414, 0x3C3 /* sigma */, 0x3C2 /* final sigma */, 0x3A3, 0x1C6 /* dz digraph */, 0x1C5, 0x1C4,
	0xB5 /* micro */, 0x3BC /* mu */, 0xE5 /* a ring */, 0xC5, 0xDF /* sharp s */, 0x3C9 /* omega */, 0x3A9, 0x20AC /* euro */, 0x1F600, 0x1F602,
	0xA0 /* no-break space */, 0x301 /* combining acute */, 0x130 /* dotted I */, 0x131 /* dotless i */, 0x663 /* arabic-indic digit three */}
var c28Words = []string{"abc", "ab", "ba", "kab", "sab", "Kab", "a_b", "a.b", "\u00e9a", "a\u00e9", "\u0434a", "ab\u0434", "\u03c3\u03b1\u03c2", "\u03a3\u03b1", "\u01c6a", "\u00e51", "\u00df", "stra\u00dfe", "\u03c9", "x1", "1x", "\U0001F600", "a\U0001F600b", "abab", "aab", "b a", "kk", "ss", "KS"}
var c28HostileWords = []string{"\u212aab", "a\u017f", "\u017fab", "\u212b", "a\u212bb", "stra\u1e9ee", "\u2126", "k\u212a", "s\u017f"}

func c28Text(g *kit.Gen, n int, hostile bool) string {
	var b strings.Builder
	for b.Len() < n {
		switch g.R.IntN(10) {
		case 0, 1, 2, 3:
			if hostile && g.R.IntN(3) == 0 {
				b.WriteString(c28HostileWords[g.R.IntN(len(c28HostileWords))])
			} else {
				b.WriteString(c28Words[g.R.IntN(len(c28Words))])
			}
		case 4, 5:
			b.WriteByte(' ')
		case 6:
			b.WriteByte('\n')
		default:
			if hostile && g.R.IntN(4) == 0 {
				b.WriteRune(c28LengthChanging[g.R.IntN(len(c28LengthChanging))])
			} else {
				b.WriteRune(c28Runes[g.R.IntN(len(c28Runes))])
			}
		}
	}
	return b.String()
}

// c28Exact makes valid UTF-8 text of exactly n bytes.
func c28Exact(g *kit.Gen, n int, hostile bool) string {
	s := c28Text(g, n, hostile)
	for len(s) > n {
		_, w := utf8.DecodeLastRuneInString(s)
		s = s[:len(s)-w]
	}
	for len(s) < n {
		s += "a"
	}
	return s
}

func c28Corpus(rec *kit.Rec, ci int) *kit.Corpus {
	g := kit.NewGen(rec.Rand(uint64(ci) + 28_000_000))
	hostile := ci%4 == 3
	r := &kit.Repo{Name: fmt.Sprintf("c28r%d", ci), ID: uint32(2800 + ci), Branches: []kit.BranchV{{Name: "HEAD", Version: fmt.Sprintf("%040x", ci)}},
		FileURL: "http://x/{{.Path}}", LineFrag: "#L{{.LineNumber}}"}
	sizes := []int{0, 1 + g.R.IntN(8), 40 + g.R.IntN(23), 63, 64, 65, 66 + g.R.IntN(40), 100 + g.R.IntN(300), 100 + g.R.IntN(300), g.R.IntN(64), g.R.IntN(200), 1 + g.R.IntN(128)}
	if ci%5 == 0 {
		sizes = append(sizes, 4000+g.R.IntN(2000), 33000+g.R.IntN(8000))
	}
	for i, n := range sizes {
		var content string
		switch {
		case n >= 4000:
			// long files: varied lines repeated, so that the index stays small but every
			// line is different from its neighbours
			var lines []string
			for k := 0; k < 40; k++ {
				lines = append(lines, strings.ReplaceAll(c28Text(g, 10+g.R.IntN(50), hostile), "\n", " "))
			}
			var b strings.Builder
			for b.Len() < n {
				b.WriteString(lines[g.R.IntN(len(lines))])
				b.WriteByte('\n')
			}
			content = b.String()
		case n == 63 || n == 64 || n == 65:
			content = c28Exact(g, n, hostile)
		default:
			content = c28Text(g, n, hostile)
			if g.R.IntN(8) == 0 {
				content = strings.ReplaceAll(content, "\n", "\r\n")
			}
			switch g.R.IntN(4) {
			case 0:
				content += "\n"
			case 1:
				content = strings.TrimRight(content, "\n")
			}
		}
		if !utf8.ValidString(content) {
			panic("c28: generator produced invalid UTF-8")
		}
		name := fmt.Sprintf("d%02d_%s.txt", i, []string{"ab", "kab", "éa", "x1"}[g.R.IntN(4)])
		r.Docs = append(r.Docs, &kit.Doc{Name: name, Content: content, Branches: []string{"HEAD"}, Language: "Text"})
	}
	return &kit.Corpus{Repos: []*kit.Repo{r}}
}

// ---------------------------------------------------------------------------
// regexp battery

type c28Q struct {
	Src   string
	Class string
	CS    bool // case sensitive
	Both  bool // file name and content
	Tmpl  int
	re    *syntax.Regexp
}

func (q c28Q) query() query.Q {
	r := &query.Regexp{Regexp: q.re, CaseSensitive: q.CS, Content: !q.Both}
	return r
}

func (q c28Q) folds() bool { return !q.CS || strings.Contains(q.Src, "(?i") }

// pattern is what zoekt hands to the engines (index/matchtree.go:newRegexpMatchTree).
func (q c28Q) pattern() string {
	p := syntaxutil.RegexpString(q.re)
	if !q.CS {
		p = "(?i)" + p
	}
	return p
}

type c28Tmpl struct {
	class string
	src   string // L = literal cut from a document, l = one letter
	ci    bool   // ask for a case-insensitive query
}

var c28Templates = []c28Tmpl{
	// empty matches
	{"empty-match", `(?:<L>)*`, false}, {"empty-match", `(?:<L>)?`, false}, {"empty-match", `<l>*`, false}, {"empty-match", `\b`, false},
	{"empty-match", `^`, false}, {"empty-match", `$`, false}, {"empty-match", `()`, false}, {"empty-match", `x*?`, false},
	{"empty-match", `(a|)`, false}, {"empty-match", `\B`, false}, {"empty-match", `[^\n]*`, false}, {"empty-match", `a*b*`, false},
	{"empty-match", `\b|a`, false}, {"empty-match", `$|^`, false}, {"empty-match", `<l>??`, false}, {"empty-match", `\s*`, false},
	{"empty-match", `(?:<L>)*$`, false}, {"empty-match", `^\s*`, true},
	// case folding outside ASCII (orbits whose members have the same UTF-8 length)
	{"fold-nonascii", `<L>`, true}, {"fold-nonascii", `(?i:<L>)`, false}, {"fold-nonascii", `(?i)[k-s]+`, false}, {"fold-nonascii", `(?i)[^k\n]+`, false},
	{"fold-nonascii", `(?i:é)`, false}, {"fold-nonascii", `σ+`, true}, {"fold-nonascii", `(?i:ǆ)a`, false}, {"fold-nonascii", `\x{b5}`, true},
	{"fold-nonascii", `(?i:\x{e5})\d`, false}, {"fold-nonascii", `Д`, true}, {"fold-nonascii", `[é-ё]`, true}, {"fold-nonascii", `ı|İ`, true},
	{"fold-nonascii", `(?i)a(?-i)É`, false}, {"fold-nonascii", `[^σ\n]{2}`, true}, {"fold-nonascii", `Σα`, true}, {"fold-nonascii", `ǅ`, true},
	// literals whose fold orbit changes UTF-8 length
	{"fold-length-changing-pattern", `k`, true}, {"fold-length-changing-pattern", `(?i:s)`, false}, {"fold-length-changing-pattern", `\x{212a}`, true},
	{"fold-length-changing-pattern", `(?i:\x{17f})a`, false}, {"fold-length-changing-pattern", `\x{e5}`, true}, {"fold-length-changing-pattern", `stra(?i:\x{df})e`, false},
	{"fold-length-changing-pattern", `\x{3c9}`, true}, {"fold-length-changing-pattern", `[k]ab`, true}, {"fold-length-changing-pattern", `(?i)a[sk]`, false},
	// classes
	{"class", `[[:alpha:]]+`, false}, {"class", `\w+`, false}, {"class", `\W+`, false}, {"class", `\d`, false}, {"class", `\D+`, false},
	{"class", `\s+`, false}, {"class", `\S+`, false}, {"class", `[^a]`, false}, {"class", `\pL+`, false}, {"class", `\p{Greek}+`, false},
	{"class", `\PL+`, false}, {"class", `[\p{Lu}]`, false}, {"class", `[^\x00-\x7f]+`, false}, {"class", `.`, false}, {"class", `\pN`, false},
	{"class", `[[:^space:]]+`, false}, {"class", `[[:word:]]+`, false}, {"class", `\p{Cyrillic}`, false}, {"class", `[a-cé]+`, false},
	{"class", `[^\pL\s]`, false}, {"class", `\p{Ll}\p{Lu}`, false}, {"class", `[[:upper:]]`, true}, {"class", `[[:punct:]]`, false},
	{"class", `\pZ`, false}, {"class", `\pM`, false}, {"class", `\p{So}`, false}, {"class", `\p{Nd}`, false}, {"class", `[^\n]`, false},
	{"class", `\p{Lt}`, false}, {"class", `[\t-\r]`, false},
	// lazy quantifiers
	{"lazy", `a.*?b`, false}, {"lazy", `<l>+?`, false}, {"lazy", `(a|ab)??c`, false}, {"lazy", `.{2,5}?x`, false}, {"lazy", `<L>.*?<L>`, false},
	{"lazy", `\w+?\b`, false}, {"lazy", `.*?$`, false}, {"lazy", `a*?`, false}, {"lazy", `(?U)a+`, false}, {"lazy", `(?U:b*)a`, false},
	{"lazy", `\s+?\S`, false}, {"lazy", `(?s).+?\n`, false},
	// word boundaries next to multi-byte runes
	{"wordb-multibyte", `\bé`, false}, {"wordb-multibyte", `é\b`, false}, {"wordb-multibyte", `\Bд`, false}, {"wordb-multibyte", `\b\w+\b`, false},
	{"wordb-multibyte", `a\bé`, false}, {"wordb-multibyte", `\b.`, false}, {"wordb-multibyte", `.\b`, false}, {"wordb-multibyte", `\bσ+\b`, false},
	{"wordb-multibyte", `\B.\B`, false}, {"wordb-multibyte", `é\B`, false}, {"wordb-multibyte", `\b😀`, false}, {"wordb-multibyte", `\b<L>\b`, false},
	{"wordb-multibyte", `\b<L>\b`, true}, {"wordb-multibyte", `[^a]\b`, false},
	// alternation order
	{"alternation", `a|ab`, false}, {"alternation", `ab|a`, false}, {"alternation", `(a|ab)(c|bcd)`, false}, {"alternation", `(?:abc|ab)x?`, false},
	{"alternation", `<L>|<L>`, false}, {"alternation", `(?:<L>|<L>)+`, false}, {"alternation", `a|b|`, false}, {"alternation", `(|a)b`, false},
	{"alternation", `(a*|b)`, false}, {"alternation", `(?:a|ab)*?c`, false}, {"alternation", `<L>|<l>`, true}, {"alternation", `(?:é|éa|a)+`, false},
	// anchors in multi-line files
	{"anchors", `^<L>`, false}, {"anchors", `<L>$`, false}, {"anchors", `^<L>$`, false}, {"anchors", `\A<L>`, false}, {"anchors", `<L>\z`, false},
	{"anchors", `^$`, false}, {"anchors", `(?s).+`, false}, {"anchors", `(?s)a.b`, false}, {"anchors", `$\n^`, false}, {"anchors", `\n$`, false},
	{"anchors", `^\n`, false}, {"anchors", `(?-m:^)<l>`, false}, {"anchors", `\r$`, false}, {"anchors", `^.*$`, false}, {"anchors", `^\s*$`, false},
	{"anchors", `\A\s*`, false}, {"anchors", `.\z`, false}, {"anchors", `(?-m:$)`, false}, {"anchors", `^<l>`, true}, {"anchors", `\n\z`, false},
	// counted repetition
	{"repeat", `a{2}`, false}, {"repeat", `(ab){1,3}`, false}, {"repeat", `a{0}`, false}, {"repeat", `(?:a{2}){2}`, false}, {"repeat", `x{2,}`, false},
	{"repeat", `.{3}`, false}, {"repeat", `\pL{2,4}`, false}, {"repeat", `(?:é|e){2}`, false}, {"repeat", `[ab]{2,}?`, false}, {"repeat", `.{0,3}$`, false},
	{"repeat", `(?:<L>){2}`, true},
	// four-byte runes, escapes
	{"astral-escape", `😀`, false}, {"astral-escape", `[😀-😂]`, false}, {"astral-escape", `.😀.`, false}, {"astral-escape", `\x{1F600}+`, false},
	{"astral-escape", `[^😀\n]`, false}, {"astral-escape", `😀?b`, false}, {"astral-escape", `\Qa.b\E`, false}, {"astral-escape", `\x41`, false},
	{"astral-escape", `\x{e9}`, false}, {"astral-escape", `\t`, false}, {"astral-escape", `[\]_]`, false}, {"astral-escape", `\x{a0}`, false},
	{"astral-escape", `\x{301}`, false}, {"astral-escape", `(?P<n>a)(b)?`, false},
}

type c28Gen struct {
	g *kit.Gen
	c *kit.Corpus
}

func (x *c28Gen) lit() string {
	R := x.g.R
	d := x.c.Repos[0].Docs[R.IntN(len(x.c.Repos[0].Docs))]
	rs := []rune(d.Content)
	if len(rs) == 0 || R.IntN(6) == 0 {
		return c28QuoteRe(c28Words[R.IntN(len(c28Words))])
	}
	if len(rs) > 600 {
		rs = rs[:600]
	}
	n := 1 + R.IntN(4)
	if n > len(rs) {
		n = len(rs)
	}
	st := R.IntN(len(rs) - n + 1)
	return c28QuoteRe(string(rs[st : st+n]))
}

func c28QuoteRe(s string) string {
	var b strings.Builder
	for _, c := range s {
		switch {
		case strings.ContainsRune(`\.+*?()|[]{}^$`, c):
			b.WriteByte('\\')
			b.WriteRune(c)
		case c == '\n':
			b.WriteString(`\n`)
		case c == '\r':
			b.WriteString(`\r`)
		case c == '\t':
			b.WriteString(`\t`)
		default:
			b.WriteRune(c)
		}
	}
	return b.String()
}

func (x *c28Gen) instantiate(t string) string {
	for strings.Contains(t, "<L>") {
		t = strings.Replace(t, "<L>", x.lit(), 1)
	}
	for strings.Contains(t, "<l>") {
		t = strings.Replace(t, "<l>", string([]rune{'a', 'b', 'k', 's', 0xE9, 0x3C3, 'x'}[x.g.R.IntN(7)]), 1)
	}
	return t
}

var c28Pieces = []string{".", ".*", "[ab]", `[^a\n]`, `\b`, "^", "$", "(ab|ba)", "a+", "b?", `\s`, `\w+`, "[a-c]*", ".+?", `\n`, `\pL`, `[^\pL]`, "é?", "(?i:k)", "(?i:é)", `\B`, "σ*", ".{1,3}", `\S`, "😀*", "(?:a|é)", `\d+`, "(?i:s)+", `[[:alpha:]]`, "a*?"}

func (x *c28Gen) random() string {
	R := x.g.R
	n := 1 + R.IntN(4)
	var b strings.Builder
	for i := 0; i < n; i++ {
		if R.IntN(3) == 0 {
			b.WriteString(x.lit())
		} else {
			b.WriteString(c28Pieces[R.IntN(len(c28Pieces))])
		}
	}
	return b.String()
}

// c28Battery is a pure function of (seed, corpus index).
func c28Battery(rec *kit.Rec, ci int, c *kit.Corpus, n int) []c28Q {
	g := kit.NewGen(rec.Rand(uint64(ci) + 28_500_000))
	x := &c28Gen{g: g, c: c}
	var out []c28Q
	for tries := 0; len(out) < n && tries < 20*n; tries++ {
		q := c28Q{Tmpl: -1, Class: "random", CS: g.R.IntN(2) == 0}
		if g.R.IntN(10) < 7 {
			q.Tmpl = g.R.IntN(len(c28Templates))
			t := c28Templates[q.Tmpl]
			q.Src, q.Class = x.instantiate(t.src), t.class
			if t.ci {
				q.CS = false
			} else if g.R.IntN(4) > 0 {
				q.CS = true
			}
		} else {
			q.Src = x.random()
		}
		q.Both = g.R.IntN(8) == 0
		re, err := syntax.Parse(q.Src, kit.RegexpFlags)
		if err != nil {
			continue
		}
		if _, err := gregexp.Compile(syntaxutil.RegexpString(re)); err != nil {
			continue
		}
		q.re = re
		out = append(out, q)
	}
	return out
}

// ---------------------------------------------------------------------------
// answers

type c28File struct {
	Key    string `json:"k"`
	Ranges string `json:"r"`
}

type c28Answer struct {
	Err     string    `json:"e,omitempty"`
	Files   []c28File `json:"f"`
	Regexps int       `json:"n"`
}

type c28Answers struct {
	Setting string               `json:"setting"`
	A       map[string]c28Answer `json:"a"`
	Probe   map[string]string    `json:"probe"` // size -> "grafana" | "re2"
}

func c28Ask(s zoekt.Searcher, q query.Q, chunk bool) c28Answer {
	var sr *zoekt.SearchResult
	var err error
	opts := zoekt.SearchOptions{ChunkMatches: chunk}
	if msg, stack, p := kit.Guard(func() { sr, err = s.Search(context.Background(), q, &opts) }); p {
		return c28Answer{Err: "panic: " + kit.PanicSite(stack) + ": " + kit.MsgClass(msg)}
	}
	if err != nil {
		return c28Answer{Err: "error: " + kit.MsgClass(err.Error())}
	}
	a := c28Answer{Regexps: sr.Stats.RegexpsConsidered}
	for _, f := range ix.Normalise(sr) {
		a.Files = append(a.Files, c28File{Key: f.Name, Ranges: fmt.Sprintf("%v|%v", f.Ranges, f.NameRanges)})
	}
	if sr.Stats.Crashes > 0 {
		a.Err = fmt.Sprintf("crashes=%d", sr.Stats.Crashes)
	}
	return a
}

func c28ShardPath(root string, ci int) string {
	return filepath.Join(root, fmt.Sprintf("c%d", ci))
}

var c28ProbeSizes = []int{5, 100, 5000}

func c28ProbeRepo() *kit.Repo {
	r := &kit.Repo{Name: "c28probe", ID: 2799, Branches: []kit.BranchV{{Name: "HEAD", Version: strings.Repeat("0", 40)}}}
	for _, n := range c28ProbeSizes {
		content := "aa\xffaa" + strings.Repeat("a", n-5)
		r.Docs = append(r.Docs, &kit.Doc{Name: fmt.Sprintf("probe%d", n), Content: content, Branches: []string{"HEAD"}, Language: "Text"})
	}
	return r
}

func c28ThresholdOf(setting string) int64 {
	if setting == "unset" {
		return -1
	}
	n, err := strconv.ParseInt(setting, 10, 64)
	if err != nil {
		return -1
	}
	return n
}

func c28UsesRE2(setting string, size int) bool {
	t := c28ThresholdOf(setting)
	return t >= 0 && int64(size) >= t
}

// ---------------------------------------------------------------------------

func TestVerif_C28(t *testing.T) {
	rec := kit.Open("C28")
	if kit.ChildMode() != "" {
		c28Child(rec, kit.ChildArg())
		rec.ChildDone()
		return
	}
	defer rec.Done()
	settings := c28SettingsFor(rec)
	nCorp, nRe := c28Sizes(rec)
	root := filepath.Join(rec.Work, "c28shards")
	defer os.RemoveAll(root)
	// build every corpus once (the variable under test only matters at search time)
	corpora := make([]*kit.Corpus, nCorp)
	{
		var wg sync.WaitGroup
		var mu sync.Mutex
		var first error
		ch := make(chan int)
		for k := 0; k < 8; k++ {
			wg.Add(1)
			go func() {
				defer wg.Done()
				for ci := range ch {
					c := c28Corpus(rec, ci)
					corpora[ci] = c
					dir := c28ShardPath(root, ci)
					os.MkdirAll(dir, 0o755)
					if _, err := ix.BuildSimple(dir, c.Repos[0]); err != nil {
						mu.Lock()
						if first == nil {
							first = err
						}
						mu.Unlock()
					}
				}
			}()
		}
		for ci := 0; ci < nCorp; ci++ {
			ch <- ci
		}
		close(ch)
		wg.Wait()
		if first != nil {
			rec.Violation("harness/build", first.Error(), nil)
			return
		}
	}
	probeDir := filepath.Join(root, "probe")
	os.MkdirAll(probeDir, 0o755)
	if _, err := ix.BuildSimple(probeDir, c28ProbeRepo()); err != nil {
		rec.Note("engine_probe", "probe shard cannot be built: "+err.Error())
	}
	for _, c := range corpora {
		for _, d := range c.Repos[0].Docs {
			for _, s := range settings {
				if c28UsesRE2(s, len(d.Content)) {
					rec.Count("documents_at_or_above_threshold(re2)/threshold="+s, 1)
				} else {
					rec.Count("documents_below_threshold_or_disabled(grafana)/threshold="+s, 1)
				}
			}
			rec.Max("max_document_bytes", int64(len(d.Content)))
		}
	}

	watchdog := time.Duration(rec.N(600, 3000)) * time.Second
	paths := make([]string, len(settings))
	results := make([]kit.ChildResult, len(settings))
	var wg sync.WaitGroup
	for i, s := range settings {
		paths[i] = filepath.Join(rec.Work, "c28-answers-"+s+".json")
		wg.Add(1)
		go func(i int, s string) {
			defer wg.Done()
			env := []string{"C28_ANSWERS=" + paths[i], "C28_SHARDS=" + root, "GOMAXPROCS=3"}
			if s != "unset" {
				env = append(env, "ZOEKT_RE2_THRESHOLD_BYTES="+s)
			}
			results[i] = rec.RunChild("TestVerif_C28", "c28", s, env, watchdog)
		}(i, s)
	}
	wg.Wait()
	all := map[string]*c28Answers{}
	for i, s := range settings {
		res := results[i]
		switch {
		case res.TimedOut:
			rec.Count("child_watchdog_fired", 1)
			rec.Note("inconclusive", "child threshold="+s+": watchdog fired, last case "+clip(res.LastCase, 300))
			continue
		case res.Crashed():
			rec.Violation("threshold="+s+"/process died/"+res.CrashClass(), "child process died: "+res.CrashClass(),
				map[string]any{"setting": s, "last_case": res.LastCase, "tail": clip(res.Tail, 6000)})
			continue
		}
		var a c28Answers
		if err := readJSON(paths[i], &a); err != nil {
			rec.Violation("harness/answers", "threshold="+s+": "+err.Error(), nil)
			continue
		}
		os.Remove(paths[i])
		all[s] = &a
		// which engine did the child really use?
		for _, n := range c28ProbeSizes {
			got := a.Probe[strconv.Itoa(n)]
			want := "grafana"
			if c28UsesRE2(s, n) {
				want = "re2"
			}
			rec.Seen("engine_observed_by_probe", fmt.Sprintf("threshold=%s document of %d bytes -> %s", s, n, got))
			if got != want {
				rec.Count("engine_probe_unexpected", 1)
				rec.Note("engine_probe_unexpected", fmt.Sprintf("threshold=%s size=%d: expected %s, observed %q", s, n, want, got))
			} else {
				rec.Count("engine_probe_as_expected", 1)
			}
		}
	}
	base := all["unset"]
	if base == nil {
		return
	}
	batteries := map[int][]c28Q{}
	for _, s := range settings {
		a := all[s]
		if a == nil || s == "unset" {
			continue
		}
		if len(a.A) != len(base.A) {
			rec.Violation("harness/case lists differ", fmt.Sprintf("threshold=%s answered %d searches, unset %d", s, len(a.A), len(base.A)), nil)
			continue
		}
		keys := make([]string, 0, len(base.A))
		for k := range base.A {
			keys = append(keys, k)
		}
		sort.Strings(keys)
		reported := map[string]bool{}
		for _, k := range keys {
			w, g := base.A[k], a.A[k]
			rec.Count("answers_compared/threshold="+s, 1)
			kind, file, detail := c28Diff(w, g)
			if kind == "" {
				continue
			}
			var ci, qi int
			var mode string
			fmt.Sscanf(strings.ReplaceAll(k, "/", " "), "%d %d %s", &ci, &qi, &mode)
			if batteries[ci] == nil {
				batteries[ci] = c28Battery(rec, ci, corpora[ci], nRe)
			}
			q := batteries[ci][qi]
			var doc *kit.Doc
			for _, d := range corpora[ci].Repos[0].Docs {
				if d.Name == file {
					doc = d
				}
			}
			class := c28Attribute(q, kind, doc, w, g, file)
			// the pair of settings is in the witness, not in the signature: one defect
			// shows under every threshold that activates RE2
			sig := "engine-difference/" + kind + "/" + class
			rec.Seen("divergent_settings", "unset vs "+s+": "+kind+"/"+class)
			rec.Count("divergent_answers", 1)
			if reported[sig] {
				continue
			}
			reported[sig] = true
			wit := map[string]any{"thresholds_compared": "unset vs " + s, "corpus_index": ci, "regexp_source": q.Src, "case_sensitive": q.CS, "pattern_given_to_the_engines": q.pattern(),
				"file_name_and_content": q.Both, "mode": mode, "file": file, "detail": detail, "feature_class": q.Class,
				"replay": fmt.Sprintf("VERIF_SEED=%d corpus %d regexp #%d", rec.Seed, ci, qi)}
			if doc != nil {
				wit["document_bytes"] = len(doc.Content)
				wit["engine_for_this_document"] = map[string]any{"unset": "grafana/regexp", s: map[bool]string{true: "go-re2", false: "grafana/regexp"}[c28UsesRE2(s, len(doc.Content))]}
				c28Explain(wit, q, doc.Content)
			}
			rec.Violation(sig, fmt.Sprintf("regexp %q (case sensitive %v) on corpus %d, %s mode: ZOEKT_RE2_THRESHOLD_BYTES=%s answers differently from unset: %s", q.Src, q.CS, ci, mode, s, detail), wit)
		}
	}
}

// c28Attribute names the class a divergence is reported under. The rules are facts
// about the divergence itself, checked in this order; only when none applies the
// class of the regexp's template is used:
//  1. empty-match-inside-rune: every content range that only one side reports is
//     empty and at least one of them lies inside a multi-byte rune of the document;
//  2. fold-length-changing: the regexp folds case and the document holds a rune whose
//     simple-fold orbit has members of different UTF-8 length (only every 4th corpus
//     holds such runes, so other case-folding differences keep their own class);
//  3. empty-match-only: every content range that only one side reports is empty.
func c28Attribute(q c28Q, kind string, doc *kit.Doc, w, g c28Answer, file string) string {
	onlyEmpty, insideRune := false, false
	if kind == "ranges" && doc != nil {
		get := func(a c28Answer) map[[2]int]bool {
			out := map[[2]int]bool{}
			for _, f := range a.Files {
				if f.Key != file {
					continue
				}
				content := strings.SplitN(f.Ranges, "|", 2)[0]
				for _, m := range c28RangeRe.FindAllStringSubmatch(content, -1) {
					s, _ := strconv.Atoi(m[1])
					e, _ := strconv.Atoi(m[2])
					out[[2]int{s, e}] = true
				}
			}
			return out
		}
		a, b := get(w), get(g)
		onlyEmpty = true
		n := 0
		for _, pair := range [][2]map[[2]int]bool{{a, b}, {b, a}} {
			for iv := range pair[0] {
				if pair[1][iv] {
					continue
				}
				n++
				if iv[0] != iv[1] {
					onlyEmpty = false
				} else if iv[0] < len(doc.Content) && !utf8.RuneStart(doc.Content[iv[0]]) {
					insideRune = true
				}
			}
		}
		if n == 0 {
			onlyEmpty = false // the difference is in the file-name ranges
		}
	}
	switch {
	case onlyEmpty && insideRune:
		return "empty-match-inside-rune"
	case q.folds() && doc != nil && c28HasLengthChanging(doc.Content):
		return "fold-length-changing"
	case onlyEmpty:
		return "empty-match-only"
	}
	return q.Class
}

var c28RangeRe = gregexp.MustCompile(`\{(\d+) (\d+)\}`)

// c28Diff: kind "" = same; otherwise "files", "ranges" or "error", the first file
// that differs and a description.
func c28Diff(w, g c28Answer) (kind, file, detail string) {
	if w.Err != g.Err {
		return "error", "", fmt.Sprintf("unset: %q, here: %q", w.Err, g.Err)
	}
	wm, gm := map[string]string{}, map[string]string{}
	for _, f := range w.Files {
		wm[f.Key] = f.Ranges
	}
	for _, f := range g.Files {
		gm[f.Key] = f.Ranges
	}
	var names []string
	for k := range wm {
		names = append(names, k)
	}
	for k := range gm {
		if _, ok := wm[k]; !ok {
			names = append(names, k)
		}
	}
	sort.Strings(names)
	for _, k := range names {
		_, a := wm[k]
		_, b := gm[k]
		if a != b {
			return "files", k, fmt.Sprintf("file %s returned with unset: %v, here: %v", k, a, b)
		}
	}
	for _, k := range names {
		if wm[k] != gm[k] {
			return "ranges", k, fmt.Sprintf("file %s: ranges with unset %s, here %s", k, clip(wm[k], 300), clip(gm[k], 300))
		}
	}
	return "", "", ""
}

var c28RE2Mu sync.Mutex

// c28Explain runs both engines directly on the document and shrinks the text to a
// short one on which they still disagree (witness only).
func c28Explain(wit map[string]any, q c28Q, text string) {
	defer func() {
		if e := recover(); e != nil {
			wit["explain_failed"] = fmt.Sprint(e)
		}
	}()
	c28RE2Mu.Lock()
	defer c28RE2Mu.Unlock()
	p := q.pattern()
	gre, err := gregexp.Compile(p)
	if err != nil {
		wit["explain_failed"] = err.Error()
		return
	}
	rre, err := re2regexp.Compile(p)
	if err != nil {
		wit["re2_compile_error"] = err.Error()
		return
	}
	differ := func(s string) bool {
		return fmt.Sprint(gre.FindAllIndex([]byte(s), -1)) != fmt.Sprint(rre.FindAllIndex([]byte(s), -1))
	}
	if !differ(text) {
		wit["engines_disagree_on_whole_document"] = false
		return
	}
	rs := []rune(text)
	budget := 4000
	for chunk := len(rs) / 2; chunk >= 1 && budget > 0; {
		removed := false
		for st := 0; st+chunk <= len(rs) && budget > 0; {
			budget--
			cand := append(append([]rune{}, rs[:st]...), rs[st+chunk:]...)
			if differ(string(cand)) {
				rs = cand
				removed = true
			} else {
				st += chunk
			}
		}
		if !removed || chunk > len(rs) {
			chunk /= 2
		}
	}
	s := string(rs)
	wit["minimal_text"] = fmt.Sprintf("%+q", s)
	wit["grafana_regexp_matches"] = fmt.Sprint(gre.FindAllIndex([]byte(s), -1))
	wit["go_re2_matches"] = fmt.Sprint(rre.FindAllIndex([]byte(s), -1))
}

// ---------------------------------------------------------------------------
// child

func c28Child(rec *kit.Rec, setting string) {
	want := ""
	if setting != "unset" {
		want = setting
	}
	if v, ok := os.LookupEnv("ZOEKT_RE2_THRESHOLD_BYTES"); v != want || ok != (setting != "unset") {
		rec.Violation("harness/environment", fmt.Sprintf("ZOEKT_RE2_THRESHOLD_BYTES=%q in child %s", v, setting), nil)
		return
	}
	root := os.Getenv("C28_SHARDS")
	nCorp, nRe := c28Sizes(rec)
	ans := &c28Answers{Setting: setting, A: map[string]c28Answer{}, Probe: map[string]string{}}
	// engine probe
	if paths, _ := filepath.Glob(filepath.Join(root, "probe", "*.zoekt")); len(paths) == 1 {
		if s, err := ix.Open(paths[0]); err == nil {
			re, _ := syntax.Parse(`[^a\n]`, kit.RegexpFlags)
			a := c28Ask(s, &query.Regexp{Regexp: re, Content: true, CaseSensitive: true}, false)
			got := map[string]bool{}
			for _, f := range a.Files {
				got[f.Key] = true
			}
			for _, n := range c28ProbeSizes {
				if got[fmt.Sprintf("probe%d", n)] {
					ans.Probe[strconv.Itoa(n)] = "grafana"
				} else {
					ans.Probe[strconv.Itoa(n)] = "re2"
				}
			}
			if a.Err != "" {
				rec.Note("engine_probe", "threshold="+setting+": "+a.Err)
			}
			s.Close()
		}
	}
	for ci := 0; ci < nCorp; ci++ {
		c := c28Corpus(rec, ci)
		paths, _ := filepath.Glob(filepath.Join(c28ShardPath(root, ci), "*.zoekt"))
		if len(paths) != 1 {
			rec.Violation("harness/world", fmt.Sprintf("corpus %d: %d shards", ci, len(paths)), nil)
			continue
		}
		s, err := ix.Open(paths[0])
		if err != nil {
			rec.Violation("harness/open", err.Error(), nil)
			continue
		}
		hostile := ci%4 == 3
		for qi, q := range c28Battery(rec, ci, c, nRe) {
			kit.LogCase(map[string]any{"corpus": ci, "regexp": q.Src, "cs": q.CS})
			zq := q.query()
			for _, chunk := range []bool{false, true} {
				mode := map[bool]string{false: "line", true: "chunk"}[chunk]
				a := c28Ask(s, zq, chunk)
				ans.A[fmt.Sprintf("%d/%d/%s", ci, qi, mode)] = a
				rec.Case(fmt.Sprintf("%s|%d|%v|%v|%s|%v|%s", q.Class, q.Tmpl, q.CS, q.Both, mode, hostile, c28Shape(q, a)), len(a.Files) > 0 && a.Regexps > 0, func() any {
					return map[string]any{"threshold": setting, "corpus": ci, "regexp": q.Src, "case_sensitive": q.CS, "class": q.Class, "mode": mode, "files": len(a.Files), "regexp_evaluations": a.Regexps}
				})
				rec.Count("searches", 1)
				if a.Regexps > 0 {
					rec.Count("searches_that_reached_the_regexp_engine", 1)
					rec.Count("regexp_engine_evaluations", int64(a.Regexps))
				}
				if a.Err != "" {
					rec.Count("searches_with_error", 1)
				}
			}
			rec.Seen("feature_classes", q.Class)
		}
		s.Close()
	}
	if p := os.Getenv("C28_ANSWERS"); p != "" {
		if err := writeJSON(p, ans); err != nil {
			rec.Violation("harness/answers", err.Error(), nil)
		}
	}
}

// c28Shape separates random regexps (no template) for the distinct count.
func c28Shape(q c28Q, a c28Answer) string {
	if q.Tmpl >= 0 {
		return ""
	}
	return fmt.Sprint(hash64(q.Src))
}
