package cfg

import (
	"context"
	"fmt"
	"os"
	"os/exec"
	"path/filepath"
	"reflect"
	"sort"
	"strconv"
	"strings"
	"sync"
	"testing"
	"time"

	"github.com/cespare/xxhash/v2"
	gregexp "github.com/grafana/regexp"

	"github.com/sourcegraph/zoekt"
	kit "github.com/sourcegraph/zoekt/internal/verifkit"
	"github.com/sourcegraph/zoekt/internal/verifkit/ix"
	"github.com/sourcegraph/zoekt/query"
	"github.com/sourcegraph/zoekt/search"
)

// C04: search results do not depend on earlier or concurrent searches.
//
// One child process per setting of ZOEKT_DOCMATCHTREE_CACHE (the variable is read
// when a shard is loaded). Inside a child, for every generated world (two compound
// shards + simple shards in one directory):
//   - sequential: a history of searches interleaved over three long-lived searchers
//     (bare searcher of compound shard A, of compound shard B, directory searcher);
//     every answer must equal the answer of the same search on a freshly opened
//     searcher of the same kind (files, branches, ranges, lines, scores, order, counters);
//   - concurrent: 8-32 goroutines issue searches from a battery on the same three
//     long-lived searchers; every answer must equal the solo-on-fresh answer; a
//     sequential pass over the battery follows on the same searchers.
//
// The parent additionally compares the solo-on-fresh answers of every setting with
// those of the child that ran with the variable unset.

var c04Settings = []string{"unset", "1", "2", "64"}

const (
	c04A   = 0
	c04B   = 1
	c04Dir = 2
)

var c04Kinds = []string{"shard", "shard", "directory"}

type c04Step struct {
	Target int
	// Q is the caller's query object. A step that repeats an earlier search passes
	// the SAME object again (callers may keep and reuse a query); the long-lived
	// searchers only ever see Q.
	Q query.Q
	// Pristine is a structural copy of Q taken before any search saw it. The
	// solo-on-fresh baseline searches a copy of Pristine, so a search that rewrites
	// the caller's query in place cannot carry that rewriting into the baseline.
	Pristine query.Q
	Opts     zoekt.SearchOptions
}

// c04Clone copies the composite nodes of q (and/or/not/type/boost ...); leaves are shared.
func c04Clone(q query.Q) query.Q { return query.Map(q, func(x query.Q) query.Q { return x }) }

func (s c04Step) show() map[string]any {
	return map[string]any{"searcher": []string{"compound shard A", "compound shard B", "directory"}[s.Target], "query": s.Q.String(), "opts": s.Opts.String()}
}

type c04Answers struct {
	Setting string        `json:"setting"`
	Fresh   map[string]fp `json:"fresh"` // "<history>/<step>" and "<history>/c<battery index>"
	Kind    map[string]string
	Query   map[string]string
}

func TestVerif_C04(t *testing.T) {
	rec := kit.Open("C04")
	if kit.ChildMode() != "" {
		c04Child(rec, kit.ChildArg())
		rec.ChildDone()
		return
	}
	defer rec.Done()
	settings := c04Settings
	if !rec.Quick() {
		settings = append(append([]string{}, settings...), "0", "3")
	}
	watchdog := time.Duration(rec.N(600, 3000)) * time.Second
	// white-box part in package search: query objects reused on a bare sharded searcher
	if bin := filepath.Join(os.Getenv("VERIF_BIN"), "c04wb.test"); os.Getenv("VERIF_BIN") != "" {
		if _, err := os.Stat(bin); err == nil {
			res := rec.RunChildBin(bin, "TestVerif_C04wb", "wb", "", nil, watchdog)
			switch {
			case res.TimedOut:
				rec.Count("whitebox_child_killed_by_watchdog(inconclusive)", 1)
			case res.Crashed() && res.Exit != 66:
				rec.Violation("harness/white-box child died", res.CrashClass(), map[string]any{"tail": res.Tail})
			}
		} else {
			rec.Violation("harness/white-box binary missing", bin, nil)
		}
	}
	// the worlds are built once, here; the variable under test is read when a shard is
	// loaded, not when it is written
	worlds := filepath.Join(rec.Work, "c04worlds")
	if err := c04BuildWorlds(rec, worlds); err != nil {
		rec.Violation("harness/build", err.Error(), nil)
		return
	}
	if os.Getenv("C04_DEBUG_KEEP") == "" { // manual debugging only
		defer os.RemoveAll(worlds)
	}
	type out struct {
		setting string
		path    string
		res     kit.ChildResult
	}
	outs := make([]out, len(settings))
	var wg sync.WaitGroup
	for i, s := range settings {
		outs[i] = out{setting: s, path: filepath.Join(rec.Work, "c04-answers-"+s+".json")}
		wg.Add(1)
		go func(i int, s string) {
			defer wg.Done()
			env := []string{"C04_ANSWERS=" + outs[i].path, "C04_WORLDS=" + worlds, "GOMAXPROCS=4"}
			if s != "unset" {
				env = append(env, "ZOEKT_DOCMATCHTREE_CACHE="+s)
			}
			outs[i].res = rec.RunChild("TestVerif_C04", "c04", s, env, watchdog)
		}(i, s)
	}
	wg.Wait()
	var base *c04Answers
	all := map[string]*c04Answers{}
	for _, o := range outs {
		switch {
		case o.res.TimedOut:
			rec.Count("child_watchdog_fired", 1)
			rec.Note("inconclusive", "child cache="+o.setting+": watchdog fired, last case "+clip(o.res.LastCase, 300))
			continue
		case o.res.Crashed() && o.res.Done && strings.Contains(o.res.Tail, "race detected during execution of test"):
			// the child ran to its end; package testing fails a test during which the
			// race detector reported something. The reports themselves are collected
			// from the race logs by the driver and become violations there.
			rec.Count("children_failed_by_race_detector", 1)
			os.Remove(o.res.LogPath)
		case o.res.Crashed():
			rec.Violation("cache="+o.setting+"/process died/"+o.res.CrashClass(), "child process died: "+o.res.CrashClass(),
				map[string]any{"setting": o.setting, "last_case": o.res.LastCase, "tail": clip(o.res.Tail, 6000)})
			continue
		}
		if o.res.Crashed() && !o.res.Done {
			continue
		}
		var a c04Answers
		if err := readJSON(o.path, &a); err != nil {
			rec.Violation("harness/answers", "cache="+o.setting+": "+err.Error(), nil)
			continue
		}
		all[o.setting] = &a
		if o.setting == "unset" {
			base = &a
		}
		os.Remove(o.path)
	}
	if base == nil {
		return
	}
	// solo-on-fresh answers must not depend on the setting either
	for _, s := range settings {
		a := all[s]
		if a == nil || s == "unset" {
			continue
		}
		// (a history stops at its first divergence, so a child with violations holds
		// fewer answers; only the common ones are compared)
		keys := make([]string, 0, len(base.Fresh))
		for k := range base.Fresh {
			keys = append(keys, k)
		}
		sort.Strings(keys)
		for _, k := range keys {
			w := base.Fresh[k]
			g, ok := a.Fresh[k]
			if !ok {
				continue
			}
			rec.Count("fresh_answers_compared_across_settings", 1)
			if base.Query[k] != a.Query[k] {
				rec.Violation("harness/case lists differ", fmt.Sprintf("%s: %q vs %q", k, base.Query[k], a.Query[k]), nil)
				break
			}
			kind := base.Kind[k]
			ordered := kind == "shard" || !scoresTie(w)
			if class, detail := diffFP(w, g, ordered); class != "" {
				rec.Violation("cache="+s+"/fresh-vs-unset/"+kind+"/"+class,
					fmt.Sprintf("a search alone on a freshly loaded %s searcher answers differently with ZOEKT_DOCMATCHTREE_CACHE=%s than with the variable unset: %s", kind, s, detail),
					map[string]any{"case": k, "query": base.Query[k], "detail": detail, "replay": fmt.Sprintf("VERIF_SEED=%d, history/step %s", rec.Seed, k)})
			}
		}
	}
}

// ---------------------------------------------------------------------------
// world

type c04World struct {
	dir    string
	c      *kit.Corpus
	ev     *kit.Evaluator
	groups [][]int // repository indices per shard; groups[0] = compound A, groups[1] = compound B
	paths  []string
	metas  [][2]string // pool of (field, value regexp source)
}

var c04MetaValues = []string{"^a$", "a", "^ab", "b", "^$", "c$", "abc|^b$", "^b"}
var c04MetaFields = []string{"team", "k", "x"}

func newC04World(rec *kit.Rec, h int, root string, build bool) (*c04World, error) {
	g := kit.NewGen(rec.Rand(uint64(h) + 4_000_000))
	g.SubRepos = true
	c := &kit.Corpus{}
	nr := 5 + g.R.IntN(4)
	for i := 0; i < nr; i++ {
		r := g.Repo(i)
		used := map[string]bool{}
		nd := 1 + g.R.IntN(7)
		for j := 0; j < nd; j++ {
			r.Docs = append(r.Docs, g.Doc(r, used))
		}
		// metadata: few keys, few values, so that predicates hold for some repositories only
		r.Metadata = map[string]string{}
		if g.R.IntN(4) > 0 {
			r.Metadata["team"] = []string{"a", "ab", "b", "abc"}[g.R.IntN(4)]
		}
		if g.R.IntN(2) == 0 {
			r.Metadata["k"] = []string{"a", "b", ""}[g.R.IntN(3)]
		}
		if g.R.IntN(4) == 0 {
			r.Metadata["x"] = "abc"
		}
		if len(r.Metadata) == 0 && g.R.IntN(2) == 0 {
			r.Metadata = nil
		}
		c.Repos = append(c.Repos, r)
	}
	w := &c04World{c: c, ev: kit.NewEvaluator(c)}
	// layout: A = 3.. repositories, B = 2.. repositories, the rest simple shards
	idx := g.R.Perm(nr)
	na := 3 + g.R.IntN(nr-4)
	nb := 2
	if nr-na > 2 {
		nb = 2 + g.R.IntN(nr-na-1)
	}
	w.groups = append(w.groups, idx[:na], idx[na:na+nb])
	for _, i := range idx[na+nb:] {
		w.groups = append(w.groups, []int{i})
	}
	// the first two repositories of each compound shard differ in "team", so that
	// meta.team:^a$ holds for some but not all repositories of the shard
	for _, grp := range w.groups[:2] {
		for k, v := range []string{"a", "b"} {
			r := c.Repos[grp[k]]
			if r.Metadata == nil {
				r.Metadata = map[string]string{}
			}
			r.Metadata["team"] = v
		}
	}
	// tombstones (never the two anchor repositories)
	for gi, grp := range w.groups {
		for k, i := range grp {
			r := c.Repos[i]
			if (gi >= 2 || k >= 2) && g.R.IntN(8) == 0 {
				r.Tombstone = true
			}
			if g.R.IntN(6) == 0 {
				r.FileTomb = map[string]bool{r.Docs[g.R.IntN(len(r.Docs))].Name: true}
			}
		}
	}
	// pool of metadata predicates: prefer those that are undecided in A or B
	type cand struct {
		f, v  string
		mixed int
	}
	var cands []cand
	for _, f := range c04MetaFields {
		for _, v := range c04MetaValues {
			cd := cand{f: f, v: v}
			for _, grp := range w.groups[:2] {
				if w.survives(f, v, grp) {
					cd.mixed++
				}
			}
			cands = append(cands, cd)
		}
	}
	g.R.Shuffle(len(cands), func(i, j int) { cands[i], cands[j] = cands[j], cands[i] })
	sort.SliceStable(cands, func(i, j int) bool { return cands[i].mixed > cands[j].mixed })
	np := 3 + g.R.IntN(3)
	for _, cd := range cands[:np] {
		w.metas = append(w.metas, [2]string{cd.f, cd.v})
	}
	// one predicate that folds away (holds for all or none), for contrast
	w.metas = append(w.metas, [2]string{cands[len(cands)-1].f, cands[len(cands)-1].v})

	// root == "": model only. build: write the shards (parent); otherwise use what the
	// parent wrote.
	if root == "" {
		return w, nil
	}
	w.dir = filepath.Join(root, fmt.Sprintf("w%d", h))
	if !build {
		if err := readJSON(filepath.Join(w.dir, "paths.json.verif"), &w.paths); err != nil {
			return nil, err
		}
		if len(w.paths) != len(w.groups) {
			return nil, fmt.Errorf("world %d: %d shards on disk, model has %d", h, len(w.paths), len(w.groups))
		}
		return w, nil
	}
	os.RemoveAll(w.dir)
	if err := os.MkdirAll(w.dir, 0o755); err != nil {
		return nil, err
	}
	paths, err := ix.BuildLayout(w.dir, c, ix.Layout{Groups: w.groups})
	if err != nil {
		os.RemoveAll(w.dir)
		return nil, err
	}
	w.paths = paths
	return w, writeJSON(filepath.Join(w.dir, "paths.json.verif"), paths)
}

func c04Sizes(rec *kit.Rec) (worlds, historiesPerWorld, concEvery int) {
	worlds = rec.N(8, 100)
	if v, err := strconv.Atoi(os.Getenv("C04_DEBUG_WORLDS")); err == nil && v > 0 { // manual debugging only
		worlds = v
	}
	return worlds, rec.N(5, 6), rec.N(2, 5)
}

// c04BuildWorlds writes every world's shards. This test binary is built with -race,
// under which one index.ShardBuilder costs seconds (its two 16 MB posting tables are
// range-checked by the race runtime), so the writing is done by the helper command
// zz-verif-c04-build (same generator output, handed over as JSON, built without
// -race). Without the helper (manual runs) the shards are written in-process.
func c04BuildWorlds(rec *kit.Rec, root string) error {
	n, _, _ := c04Sizes(rec)
	helper := filepath.Join(os.Getenv("VERIF_BIN"), "zz-verif-c04-build")
	if _, err := os.Stat(helper); err != nil || os.Getenv("VERIF_BIN") == "" {
		rec.Note("world_builder", "in-process (helper command not found)")
		for h := 0; h < n; h++ {
			if _, err := newC04World(rec, h, root, true); err != nil {
				return fmt.Errorf("world %d: %w", h, err)
			}
		}
		return nil
	}
	var dirs []string
	for h := 0; h < n; h++ {
		w, err := newC04World(rec, h, "", false)
		if err != nil {
			return err
		}
		dir := filepath.Join(root, fmt.Sprintf("w%d", h))
		if err := os.MkdirAll(dir, 0o755); err != nil {
			return err
		}
		if err := writeJSON(filepath.Join(dir, "world.json.verif"), map[string]any{"Corpus": w.c, "Groups": w.groups}); err != nil {
			return err
		}
		dirs = append(dirs, dir)
	}
	cmd := exec.Command(helper, dirs...)
	out, err := cmd.CombinedOutput()
	if err != nil {
		return fmt.Errorf("%s: %v: %s", helper, err, clip(string(out), 2000))
	}
	rec.Note("world_builder", "helper command zz-verif-c04-build (no -race)")
	return nil
}

// survives: the predicate holds for some but not all live repositories of the
// shard, so per-shard simplification keeps the atom and a docMatchTree is built.
func (w *c04World) survives(field, value string, grp []int) bool {
	re, err := gregexp.Compile(value)
	if err != nil {
		return false
	}
	alive, n := 0, 0
	for _, i := range grp {
		r := w.c.Repos[i]
		if r.Tombstone {
			continue
		}
		alive++
		if v, ok := r.Metadata[field]; ok && re.MatchString(v) {
			n++
		}
	}
	return n > 0 && n < alive
}

func (w *c04World) openOne(target int) (zoekt.Searcher, error) {
	if target == c04Dir {
		return search.NewDirectorySearcher(w.dir)
	}
	return ix.Open(w.paths[target])
}

type c04Set [3]zoekt.Searcher

func (w *c04World) open() (*c04Set, error) {
	var s c04Set
	for t := 0; t < 3; t++ {
		x, err := w.openOne(t)
		if err != nil {
			s.close()
			return nil, err
		}
		s[t] = x
	}
	return &s, nil
}

func (s *c04Set) close() {
	for _, x := range s {
		if x != nil {
			x.Close()
		}
	}
}

func c04Run(s zoekt.Searcher, st c04Step) fp {
	o := st.Opts
	return guardSearch(func() (*zoekt.SearchResult, error) { return s.Search(context.Background(), st.Q, &o) })
}

// fresh answers st alone on a searcher opened for this one search.
func (w *c04World) fresh(st c04Step) (fp, error) {
	s, err := w.openOne(st.Target)
	if err != nil {
		return fp{}, err
	}
	defer s.Close()
	if st.Pristine != nil {
		st.Q = c04Clone(st.Pristine)
	}
	return c04Run(s, st), nil
}

func (w *c04World) dump() map[string]any {
	return map[string]any{"corpus": ix.Dump(w.c), "shards": w.groups, "note": "shards[0] and shards[1] are compound shards A and B (repository indices into corpus), the others simple shards; all of them are in the directory"}
}

// ---------------------------------------------------------------------------
// step generator

type c04Gen struct {
	w    *c04World
	g    *kit.Gen
	qg   *kit.QGen
	prev []c04Step
}

func newC04Gen(w *c04World, g *kit.Gen) *c04Gen {
	qg := kit.NewQGen(g, w.c, kit.NewEvaluator(w.c))
	qg.MaxDepth = 2
	return &c04Gen{w: w, g: g, qg: qg}
}

func (x *c04Gen) meta() *query.Meta {
	R := x.g.R
	// skewed: the first entries of the pool are reused most
	i := R.IntN(len(x.w.metas))
	if j := R.IntN(len(x.w.metas)); j < i {
		i = j
	}
	m := x.w.metas[i]
	return &query.Meta{Field: m[0], Value: gregexp.MustCompile(m[1])}
}

// shardFilter: a top-level AND of a repository-level filter that names exactly the
// repositories of one or two whole shards (so that the sharded searcher's shard
// pre-selection and filter rewriting apply) and a text atom.
func (x *c04Gen) shardFilter() query.Q {
	R := x.g.R
	var repos []*kit.Repo
	for k := 0; k < 1+R.IntN(2); k++ {
		for _, i := range x.w.groups[R.IntN(len(x.w.groups))] {
			repos = append(repos, x.w.c.Repos[i])
		}
	}
	var ids []uint32
	var names []string
	for _, r := range repos {
		ids = append(ids, r.ID)
		names = append(names, r.Name)
	}
	var f query.Q
	switch R.IntN(3) {
	case 0:
		f = query.NewRepoIDs(ids...)
	case 1:
		f = query.NewRepoSet(names...)
	default:
		br := repos[0].Branches[R.IntN(len(repos[0].Branches))].Name
		if R.IntN(3) == 0 {
			br = "HEAD"
		}
		f = query.NewSingleBranchesRepos(br, ids...)
	}
	return query.NewAnd(f, x.qg.TextAtom())
}

func (x *c04Gen) query(dir bool) query.Q {
	R := x.g.R
	x.qg.AllowRepo = dir
	if dir && R.IntN(5) == 0 {
		return x.shardFilter()
	}
	if R.IntN(20) < 7 {
		return x.qg.Query()
	}
	switch R.IntN(12) {
	case 0:
		return x.meta()
	case 1, 2, 3:
		return query.NewAnd(x.meta(), x.qg.TextAtom())
	case 4, 5:
		return query.NewAnd(x.meta(), x.qg.Query())
	case 6:
		return query.NewOr(query.NewAnd(x.meta(), x.qg.TextAtom()), query.NewAnd(x.meta(), x.qg.TextAtom()))
	case 7:
		return query.NewAnd(&query.Not{Child: x.meta()}, x.qg.TextAtom())
	case 8:
		return query.NewOr(x.meta(), x.qg.TextAtom())
	case 9:
		return query.NewAnd(x.meta(), x.meta(), x.qg.Atom())
	case 10:
		return &query.Type{Type: query.TypeFileName, Child: query.NewAnd(x.meta(), x.qg.TextAtom())}
	default:
		return query.NewAnd(x.meta(), &query.Boost{Boost: 2, Child: x.qg.TextAtom()}, x.qg.FilterAtom())
	}
}

func (x *c04Gen) opts(dir bool) zoekt.SearchOptions {
	R := x.g.R
	var o zoekt.SearchOptions
	o.Whole = R.IntN(6) == 0
	o.ChunkMatches = R.IntN(2) == 0
	o.NumContextLines = []int{0, 0, 1, 3}[R.IntN(4)]
	if R.IntN(5) == 0 {
		o.ShardMaxMatchCount = 1 + R.IntN(5)
		// keep the total limit out of reach: reaching it cancels the other shards of a
		// directory search, and which ones depends on timing
		o.TotalMaxMatchCount = 1 << 30
	}
	if R.IntN(6) == 0 {
		o.ShardRepoMaxMatchCount = 1 + R.IntN(2)
	}
	o.UseBM25Scoring = R.IntN(6) == 0
	o.DebugScore = R.IntN(6) == 0
	o.EstimateDocCount = R.IntN(16) == 0
	if !dir {
		// display limits cut a list whose order among equal scores is only defined per shard
		if R.IntN(6) == 0 {
			o.MaxDocDisplayCount = 1 + R.IntN(3)
		}
		if R.IntN(6) == 0 {
			o.MaxMatchDisplayCount = 1 + R.IntN(3)
		}
	}
	return o
}

func (x *c04Gen) step() c04Step {
	R := x.g.R
	// repeat an earlier search verbatim, or its query with other options
	if len(x.prev) > 0 && R.IntN(4) == 0 {
		p := x.prev[R.IntN(len(x.prev))]
		if R.IntN(2) == 0 {
			p.Opts = x.opts(p.Target == c04Dir)
		}
		x.prev = append(x.prev, p)
		return p
	}
	t := []int{c04A, c04A, c04B, c04Dir, c04Dir}[R.IntN(5)]
	st := c04Step{Target: t, Q: x.query(t == c04Dir), Opts: x.opts(t == c04Dir)}
	st.Pristine = c04Clone(st.Q)
	x.prev = append(x.prev, st)
	return st
}

// ---------------------------------------------------------------------------
// cache observation (reflection on the unexported cache of a bare shard searcher;
// evidence only, never part of a verdict)

type c04CacheView struct {
	ok   bool
	max  int
	keys map[string]bool
}

func c04Cache(s zoekt.Searcher) (v c04CacheView) {
	defer func() {
		if recover() != nil {
			v = c04CacheView{}
		}
	}()
	rv := reflect.ValueOf(s)
	for rv.Kind() == reflect.Pointer || rv.Kind() == reflect.Interface {
		rv = rv.Elem()
	}
	f := rv.FieldByName("docMatchTreeCache")
	if !f.IsValid() || f.IsNil() {
		return
	}
	c := f.Elem()
	v.max = int(c.FieldByName("maxEntries").Int())
	v.keys = map[string]bool{}
	it := c.FieldByName("cache").MapRange()
	for it.Next() {
		k := it.Key()
		v.keys[k.Field(0).String()+"\x00"+k.Field(1).String()] = true
	}
	v.ok = true
	return
}

func c04MetaKey(m *query.Meta) string {
	h := xxhash.New()
	h.Write([]byte(m.Field))
	h.Write([]byte{':'})
	h.Write([]byte(m.Value.String()))
	return "Meta\x00" + fmt.Sprintf("%x", h.Sum64())
}

func c04Metas(q query.Q) []*query.Meta {
	var out []*query.Meta
	query.VisitAtoms(q, func(a query.Q) {
		if m, ok := a.(*query.Meta); ok {
			out = append(out, m)
		}
	})
	return out
}

// ---------------------------------------------------------------------------
// child

func c04Child(rec *kit.Rec, setting string) {
	want := ""
	if setting != "unset" {
		want = setting
	}
	if os.Getenv("ZOEKT_DOCMATCHTREE_CACHE") != want {
		rec.Violation("harness/environment", fmt.Sprintf("ZOEKT_DOCMATCHTREE_CACHE=%q in child %s", os.Getenv("ZOEKT_DOCMATCHTREE_CACHE"), setting), nil)
		return
	}
	ans := &c04Answers{Setting: setting, Fresh: map[string]fp{}, Kind: map[string]string{}, Query: map[string]string{}}
	nWorlds, perWorld, concEvery := c04Sizes(rec)
	root := os.Getenv("C04_WORLDS")
	build := false
	if root == "" { // run by hand, without the parent
		root, build = filepath.Join(rec.Work, "c04worlds"), true
	}
	for wi := 0; wi < nWorlds; wi++ {
		w, err := newC04World(rec, wi, root, build)
		if err != nil {
			rec.Violation("harness/world", err.Error(), nil)
			continue
		}
		for k := 0; k < perWorld; k++ {
			h := wi*perWorld + k
			kit.LogCase(map[string]any{"world": wi, "history": h})
			c04Sequential(rec, w, h, setting, ans)
		}
		if wi%concEvery == 0 {
			kit.LogCase(map[string]any{"world": wi, "concurrent": true})
			c04Concurrent(rec, w, wi, setting, ans)
		}
	}
	if p := os.Getenv("C04_ANSWERS"); p != "" {
		if err := writeJSON(p, ans); err != nil {
			rec.Violation("harness/answers", err.Error(), nil)
		}
	}
}

func c04Sig(setting, phase string, target int, class string) string {
	return "cache=" + setting + "/" + phase + "/" + c04Kinds[target] + "/" + class
}

func c04Sequential(rec *kit.Rec, w *c04World, h int, setting string, ans *c04Answers) {
	g := kit.NewGen(rec.Rand(uint64(h) + 4_100_000))
	x := newC04Gen(w, g)
	n := 5 + g.R.IntN(26)
	long, err := w.open()
	if err != nil {
		rec.Violation("harness/open", err.Error(), nil)
		return
	}
	defer long.close()
	var steps []c04Step
	for i := 0; i < n; i++ {
		st := x.step()
		steps = append(steps, st)
		var before c04CacheView
		if st.Target != c04Dir {
			before = c04Cache(long[st.Target])
		}
		got := c04Run(long[st.Target], st)
		if st.Target != c04Dir {
			c04ObserveCache(rec, w, st, before, c04Cache(long[st.Target]), setting)
		}
		want, err := w.fresh(st)
		if err != nil {
			rec.Violation("harness/open", err.Error(), nil)
			return
		}
		key := fmt.Sprintf("%d/%d", h, i)
		ans.Fresh[key], ans.Kind[key], ans.Query[key] = want, c04Kinds[st.Target], st.Q.String()
		ordered := st.Target != c04Dir || !scoresTie(want)
		class, detail := diffFP(want, got, ordered)
		nMeta := len(c04Metas(st.Q))
		rec.Case(fmt.Sprintf("seq|%s|%s|%s|%v", c04Kinds[st.Target], kit.Shape(st.Q), st.Opts.String(), i == 0), i > 0 && len(want.Files) > 0, func() any {
			return map[string]any{"phase": "sequential", "cache": setting, "position_in_history": i, "step": st.show(), "files": len(want.Files)}
		})
		rec.Count("sequential_searches_"+c04Kinds[st.Target], 1)
		if nMeta > 0 {
			rec.Count("sequential_searches_with_meta_atom", 1)
		}
		if st.Opts.ChunkMatches {
			rec.Count("sequential_searches_chunk_mode", 1)
		}
		if class == "" {
			continue
		}
		// shortest explanation: one earlier search of the history followed by this one,
		// on freshly opened searchers
		wit := w.dump()
		wit["cache_setting"] = setting
		wit["history"] = c04Show(steps)
		wit["divergent_step"] = i
		wit["detail"] = detail
		pair := -1
		for j := 0; j < i && pair < 0; j++ {
			if s2, err := w.open(); err == nil {
				c04Run(s2[steps[j].Target], steps[j])
				g2 := c04Run(s2[st.Target], st)
				if cl, _ := diffFP(want, g2, ordered); cl == class {
					pair = j
				}
				s2.close()
			}
		}
		if pair >= 0 {
			wit["minimal_history"] = c04Show([]c04Step{steps[pair], st})
		} else if s2, err := w.open(); err == nil {
			var g2 fp
			for _, p := range steps {
				g2 = c04Run(s2[p.Target], p)
			}
			cl, _ := diffFP(want, g2, ordered)
			wit["reproduced_by_replaying_the_whole_history"] = cl == class
			s2.close()
		}
		rec.Violation(c04Sig(setting, "sequential", st.Target, class),
			fmt.Sprintf("search #%d of a history on one long-lived %s searcher (ZOEKT_DOCMATCHTREE_CACHE=%s) answers differently from the same search alone on a freshly loaded searcher: %s; query %s", i, c04Kinds[st.Target], setting, detail, clip(st.Q.String(), 200)), wit)
		return // the searchers' state is suspect from here on
	}
	rec.Count("histories_completed", 1)
	rec.Max("max_history_length", int64(n))
}

func c04Show(steps []c04Step) []any {
	var out []any
	for _, s := range steps {
		out = append(out, s.show())
	}
	return out
}

var c04CacheNote sync.Once

func c04ObserveCache(rec *kit.Rec, w *c04World, st c04Step, before, after c04CacheView, setting string) {
	if !before.ok || !after.ok {
		c04CacheNote.Do(func() {
			rec.Note("cache_not_observable", "indexData.docMatchTreeCache not reachable through reflection")
		})
		return
	}
	rec.Max("max_cache_entries_seen", int64(len(after.keys)))
	rec.Seen("cache_capacity_of_loaded_shards", fmt.Sprintf("setting %s -> maxEntries %d", setting, after.max))
	mine := map[string]bool{}
	for _, m := range c04Metas(st.Q) {
		if !w.survives(m.Field, m.Value.String(), w.groups[st.Target]) {
			rec.Count("meta_atoms_folded_by_shard_simplification", 1)
			continue
		}
		rec.Count("meta_atoms_undecided_in_shard", 1)
		k := c04MetaKey(m)
		if before.keys[k] && !mine[k] {
			rec.Count("cache_hits(key_present_before_search)", 1)
		}
		mine[k] = true
	}
	for k := range after.keys {
		if !before.keys[k] {
			rec.Count("cache_inserts", 1)
			if !mine[k] {
				rec.Count("cache_inserts_with_unpredicted_key", 1)
			}
		}
	}
	for k := range before.keys {
		if !after.keys[k] {
			rec.Count("cache_evictions", 1)
		}
	}
	if after.max > 0 && len(after.keys) > after.max {
		rec.Count("cache_over_capacity", 1)
	}
}

// ---------------------------------------------------------------------------
// concurrent phase

func c04Concurrent(rec *kit.Rec, w *c04World, h int, setting string, ans *c04Answers) {
	r := rec.Rand(uint64(h) + 4_200_000)
	_, _, concEvery := c04Sizes(rec)
	G := []int{8, 32, 16}[(h/concEvery)%3]
	per := rec.N(50, 50)
	const nb = 36
	// every goroutine gets its own query objects; all batteries are identical
	mk := func() []c04Step {
		x := newC04Gen(w, kit.NewGen(rec.Rand(uint64(h)+4_300_000)))
		var out []c04Step
		for i := 0; i < nb; i++ {
			out = append(out, x.step())
		}
		return out
	}
	base := mk()
	want := make([]fp, nb)
	for i, st := range base {
		f, err := w.fresh(st)
		if err != nil {
			rec.Violation("harness/open", err.Error(), nil)
			return
		}
		want[i] = f
		key := fmt.Sprintf("%d/c%d", h, i)
		ans.Fresh[key], ans.Kind[key], ans.Query[key] = f, c04Kinds[st.Target], st.Q.String()
	}
	type plan struct {
		steps []c04Step
		order []int
	}
	plans := make([]plan, G)
	for gi := range plans {
		plans[gi].steps = mk()
		for k := range plans[gi].steps {
			if plans[gi].steps[k].Q.String() != base[k].Q.String() {
				rec.Violation("harness/battery not reproducible", fmt.Sprintf("%s vs %s", plans[gi].steps[k].Q, base[k].Q), nil)
				return
			}
		}
		for k := 0; k < per; k++ {
			// hot spots: half of the picks go to the first six entries
			if r.IntN(2) == 0 {
				plans[gi].order = append(plans[gi].order, r.IntN(6))
			} else {
				plans[gi].order = append(plans[gi].order, r.IntN(nb))
			}
		}
	}
	long, err := w.open()
	if err != nil {
		rec.Violation("harness/open", err.Error(), nil)
		return
	}
	defer long.close()
	type bad struct {
		g, k, i       int
		class, detail string
	}
	var mu sync.Mutex
	var bads []bad
	start := make(chan struct{})
	var wg sync.WaitGroup
	for gi := 0; gi < G; gi++ {
		wg.Add(1)
		go func(gi int) {
			defer wg.Done()
			<-start
			for k, i := range plans[gi].order {
				st := plans[gi].steps[i]
				got := c04Run(long[st.Target], st)
				ordered := st.Target != c04Dir || !scoresTie(want[i])
				if class, detail := diffFP(want[i], got, ordered); class != "" {
					mu.Lock()
					bads = append(bads, bad{gi, k, i, class, detail})
					mu.Unlock()
				}
			}
		}(gi)
	}
	close(start)
	wg.Wait()
	rec.Count("concurrent_rounds", 1)
	rec.Count("concurrent_searches", int64(G*per))
	rec.Max("max_goroutines", int64(G))
	for i, st := range base {
		rec.Case(fmt.Sprintf("conc|%s|%s|%s", c04Kinds[st.Target], kit.Shape(st.Q), st.Opts.String()), len(want[i].Files) > 0, func() any {
			return map[string]any{"phase": "concurrent", "cache": setting, "goroutines": G, "step": st.show(), "files": len(want[i].Files)}
		})
	}
	report := func(phase string, b bad, extra map[string]any) {
		st := base[b.i]
		wit := w.dump()
		wit["cache_setting"] = setting
		wit["goroutines"] = G
		wit["searches_per_goroutine"] = per
		wit["battery"] = c04Show(base)
		wit["divergent_battery_entry"] = b.i
		wit["detail"] = b.detail
		for k, v := range extra {
			wit[k] = v
		}
		rec.Violation(c04Sig(setting, phase, st.Target, b.class),
			fmt.Sprintf("a search issued while %d goroutines search the same long-lived %s searcher (ZOEKT_DOCMATCHTREE_CACHE=%s) answers differently from the same search alone on a freshly loaded searcher: %s; query %s", G, c04Kinds[st.Target], setting, b.detail, clip(st.Q.String(), 200)), wit)
	}
	sort.Slice(bads, func(i, j int) bool {
		if bads[i].class != bads[j].class {
			return bads[i].class < bads[j].class
		}
		if bads[i].i != bads[j].i {
			return bads[i].i < bads[j].i
		}
		return bads[i].g < bads[j].g
	})
	seen := map[string]bool{}
	for _, b := range bads {
		k := fmt.Sprintf("%s/%d", b.class, base[b.i].Target)
		if seen[k] {
			rec.Count("concurrent_divergences_not_reported_separately", 1)
			continue
		}
		seen[k] = true
		report("concurrent", b, map[string]any{"goroutine": b.g, "position_in_goroutine": b.k, "divergent_answers_in_this_round": len(bads)})
	}
	if len(bads) > 0 {
		return
	}
	// what the concurrent phase left behind: one sequential pass on the same searchers
	for i, st := range base {
		got := c04Run(long[st.Target], st)
		ordered := st.Target != c04Dir || !scoresTie(want[i])
		rec.Count("searches_after_concurrent_round", 1)
		if class, detail := diffFP(want[i], got, ordered); class != "" {
			report("concurrent", bad{-1, -1, i, class, detail}, map[string]any{"when": "sequential pass after the goroutines finished"})
			return
		}
	}
}
