package cmdx

import (
	"archive/tar"
	"archive/zip"
	"bytes"
	"compress/gzip"
	"encoding/json"
	"fmt"
	"math/rand/v2"
	"os"
	"path/filepath"
	"sort"
	"strings"
	"syscall"
	"testing"
	"time"

	kit "github.com/sourcegraph/zoekt/internal/verifkit"
)

// C15: Directory and archive indexers capture exactly the source files; indexing
// never crashes.
//
// The real binaries zoekt-index and zoekt-archive-index (built from the tree under
// test) run as child processes on generated directory trees and archives. Oracle:
// the generator's own model of which documents must exist (name + exact content,
// or the builder's NOT-INDEXED marker for documents the builder documents as
// skipped), compared as a multiset with what the directory searcher returns for
// `const true` with whole content on the produced index directory.

const (
	markTooLarge = "NOT-INDEXED: exceeds the maximum size limit"
	markTooSmall = "NOT-INDEXED: contains too few trigrams"
	markBinary   = "NOT-INDEXED: contains binary content"
)

// storedContent is what the index must hold for a document handed over with
// content c under a file size limit (the builder's documented skip rules; the
// generator never produces content near the trigram limit).
func storedContent(c []byte, limit int) (string, string) {
	switch {
	case len(c) > limit:
		return markTooLarge, "big"
	case len(c) == 0:
		return "", "empty"
	case len(c) < 3:
		return markTooSmall, "tiny"
	case bytes.IndexByte(c, 0) >= 0:
		return markBinary, "binary"
	}
	return string(c), "text"
}

const defaultFileLimit = 2 << 20

// ---------------------------------------------------------------------------------
// directory trees

type tEntry struct {
	Rel     string `json:"rel"`
	Kind    string `json:"kind"` // dir | file | symlink | fifo
	Content []byte `json:"-"`
	Shown   string `json:"content,omitempty"`
	Target  string `json:"target,omitempty"` // may contain $ROOT
	Class   string `json:"class,omitempty"`  // generator's class of the entry
}

type treeModel struct {
	RootName string   `json:"root_name"`
	Entries  []tEntry `json:"entries"`
	// IgnoreText is the text of the active ignore file ("" when none is active)
	IgnoreText   string `json:"active_ignore_file,omitempty"`
	IgnoreMode   string `json:"ignore_mode,omitempty"`
	ArgStyle     string `json:"arg_style"`
	OutsideBytes string `json:"outside_file_content"`
}

type treeCase struct {
	Trees      []*treeModel `json:"trees"`
	IgnoreDirs *string      `json:"ignore_dirs_flag"` // nil = flag not given
	FileLimit  int          `json:"file_limit,omitempty"`
	ShardLimit int          `json:"shard_limit,omitempty"`
	MetaName   string       `json:"meta_name,omitempty"`
}

var (
	plainNames = []string{"a", "b", "src", "lib", "foo", "foobar", "bar", "docs", "main.go", "a.go", "b.go", "x.txt", "a.txt",
		"data.json", "data.xml", "README", "v1.0", "util", "test", "Makefile", "c", "pkg"}
	oddNames = []string{"x y.txt", " lead", "trail ", "héllo.txt", "日本語.md", "ünï", ".hidden", "-dash", "a#b", "#hash", "tab\there",
		"new\nline", "q'uo\"te", "back\\slash", "*star", "[br]", "{cur}", "per%41cent", "dot.", "..dots", "a&b;c", "\xff\xfebad-utf8", "é", "~",
		"very-long-name-" + strings.Repeat("n", 120)}
	vcsNames = []string{".git", ".hg", ".svn"}
	texts    = []string{"hello world\n", "package main\n\nfunc main() {}\n", "abc", "line1\r\nline2\r\n", "no newline at end", "héllo wörld ünï\n",
		"日本語のテキスト\n", "\n\n\n", "   ", "x = 1;\ny = 2;\n", "TODO: fix\n", "{\"k\": 1}\n", "abc abc abc abc\n"}
)

func pick[T any](r *rand.Rand, l []T) T { return l[r.IntN(len(l))] }

type treeGen struct {
	r     *rand.Rand
	m     *treeModel
	files []string // rels of regular files so far
	dirs  []string
	big   bool // produce files above the file limit
	limit int
}

func (g *treeGen) name(used map[string]bool) string {
	for {
		var n string
		switch x := g.r.IntN(10); {
		case x < 6:
			n = pick(g.r, plainNames)
		case x < 8:
			n = pick(g.r, oddNames)
		default:
			n = pick(g.r, vcsNames)
		}
		if !used[n] {
			used[n] = true
			return n
		}
		if len(used) > 30 {
			n = fmt.Sprintf("n%d", len(used))
			used[n] = true
			return n
		}
	}
}

func (g *treeGen) fileContent() ([]byte, string) {
	switch x := g.r.IntN(20); {
	case x == 0:
		return nil, "empty"
	case x == 1:
		return []byte(pick(g.r, []string{"a", "ab", "\n", "é"})), "tiny"
	case x == 2:
		return []byte("bin\x00ary\x01\x02 data"), "binary"
	case x == 3 && g.big:
		return []byte(strings.Repeat("big file line\n", 1+g.limit/14+g.r.IntN(3))), "big"
	}
	c := pick(g.r, texts)
	if g.r.IntN(3) == 0 {
		c += pick(g.r, texts)
	}
	return []byte(c), "text"
}

func join(dir, name string) string {
	if dir == "" {
		return name
	}
	return dir + "/" + name
}

func relTo(fromDir, to string) string {
	up := 0
	if fromDir != "" {
		up = strings.Count(fromDir, "/") + 1
	}
	// common prefix elimination keeps targets short and varied
	f := strings.Split(fromDir, "/")
	t := strings.Split(to, "/")
	if fromDir == "" {
		f = nil
	}
	i := 0
	for i < len(f) && i < len(t)-1 && f[i] == t[i] {
		i++
	}
	up -= i
	return strings.Repeat("../", up) + strings.Join(t[i:], "/")
}

func (g *treeGen) symlink(dir, name string) tEntry {
	e := tEntry{Rel: join(dir, name), Kind: "symlink"}
	depth := 0
	if dir != "" {
		depth = strings.Count(dir, "/") + 1
	}
	switch x := g.r.IntN(10); {
	case x < 3 && len(g.files) > 0:
		e.Target, e.Class = relTo(dir, pick(g.r, g.files)), "symlink/file"
	case x < 5 && len(g.dirs) > 0:
		e.Target, e.Class = relTo(dir, pick(g.r, g.dirs)), "symlink/dir"
	case x == 5:
		e.Target, e.Class = strings.Repeat("../", depth+1)+"outside.txt", "symlink/outside"
	case x == 6 && len(g.files) > 0:
		e.Target, e.Class = "$ROOT/"+pick(g.r, g.files), "symlink/abs"
	case x == 7:
		e.Target, e.Class = pick(g.r, []string{"a", "..", "b"}), "symlink/short"
	case x == 8:
		e.Target, e.Class = pick(g.r, []string{name, "/etc/hostname", "/"}), "symlink/special"
		if len(e.Target) < 3 {
			e.Class = "symlink/short"
		}
	default:
		e.Target, e.Class = "no/such/file", "symlink/dangling"
	}
	return e
}

func (g *treeGen) dir(rel string, depth int) {
	n := g.r.IntN(5)
	if depth == 0 {
		n = 1 + g.r.IntN(7)
	}
	used := map[string]bool{}
	if depth == 0 {
		used[".sourcegraph"] = true
	}
	for i := 0; i < n; i++ {
		name := g.name(used)
		p := join(rel, name)
		isVCS := name == ".git" || name == ".hg" || name == ".svn"
		x := g.r.IntN(100)
		switch {
		case (isVCS && x < 75) || (!isVCS && x < 28 && depth < 3):
			g.m.Entries = append(g.m.Entries, tEntry{Rel: p, Kind: "dir", Class: "dir"})
			g.dirs = append(g.dirs, p)
			if isVCS && g.r.IntN(4) > 0 {
				// make sure ignored directories hold something that must not be indexed
				c := []byte("ref: refs/heads/main\n")
				g.m.Entries = append(g.m.Entries, tEntry{Rel: p + "/HEAD", Kind: "file", Content: c, Class: "file/text"})
			}
			g.dir(p, depth+1)
		case x < 72:
			c, cl := g.fileContent()
			g.m.Entries = append(g.m.Entries, tEntry{Rel: p, Kind: "file", Content: c, Class: "file/" + cl})
			g.files = append(g.files, p)
		case x < 98:
			g.m.Entries = append(g.m.Entries, g.symlink(rel, name))
		default:
			g.m.Entries = append(g.m.Entries, tEntry{Rel: p, Kind: "fifo", Class: "fifo"})
		}
	}
}

func patternSafe(s string) bool {
	if s == "" || strings.TrimSpace(s) != s || strings.HasPrefix(s, "#") {
		return false
	}
	return !strings.ContainsAny(s, "*?[]{}\\!,\n\r\t") && strings.ToValidUTF8(s, "") == s
}

func (g *treeGen) ignoreFile() string {
	var lines []string
	n := 1 + g.r.IntN(4)
	for i := 0; i < n; i++ {
		switch x := g.r.IntN(12); {
		case x < 3 && len(g.dirs) > 0:
			d := pick(g.r, g.dirs)
			if patternSafe(d) {
				lines = append(lines, pick(g.r, []string{d + "/", d, "/" + d + "/", "  " + d + "/  "}))
			}
		case x < 5 && len(g.files) > 0:
			f := pick(g.r, g.files)
			if patternSafe(f) {
				lines = append(lines, pick(g.r, []string{f, "/" + f}))
			}
		case x == 5:
			lines = append(lines, pick(g.r, []string{"*.go", "*.txt", "*.json"}))
		case x == 6:
			lines = append(lines, pick(g.r, []string{"**/*.go", "**/data.*", "**/*.txt", "**/README"}))
		case x == 7:
			lines = append(lines, pick(g.r, []string{"?.go", "src/*.go", "*/a.txt", "lib/**", "foo", "ba", "d"}))
		case x == 8:
			lines = append(lines, "# "+pick(g.r, plainNames))
		case x == 9:
			lines = append(lines, "")
		case x == 10 && len(g.dirs) > 0:
			d := pick(g.r, g.dirs)
			if patternSafe(d) {
				lines = append(lines, d+"/*")
			}
		default:
			lines = append(lines, pick(g.r, plainNames))
		}
	}
	sep := "\n"
	if g.r.IntN(6) == 0 {
		sep = "\r\n"
	}
	s := strings.Join(lines, sep)
	if g.r.IntN(2) == 0 {
		s += sep
	}
	return s
}

func genTreeModel(r *rand.Rand, rootName string, big bool, limit int) *treeModel {
	g := &treeGen{r: r, m: &treeModel{RootName: rootName, OutsideBytes: "OUTSIDE-SECRET-CONTENT\n"}, big: big, limit: limit}
	g.dir("", 0)
	if r.IntN(100) < 45 {
		txt := g.ignoreFile()
		mode := "regular"
		if x := r.IntN(12); x == 0 {
			mode = "symlink-file"
		} else if x == 1 {
			mode = "symlinked-dir"
		} else if x == 2 {
			mode = "ignore-is-dir"
		}
		g.m.IgnoreMode = mode
		switch mode {
		case "regular":
			g.m.IgnoreText = txt
			g.m.Entries = append(g.m.Entries,
				tEntry{Rel: ".sourcegraph", Kind: "dir", Class: "dir"},
				tEntry{Rel: ".sourcegraph/ignore", Kind: "file", Content: []byte(txt), Class: "file/ignorefile"})
		case "symlink-file":
			g.m.Entries = append(g.m.Entries,
				tEntry{Rel: ".sourcegraph", Kind: "dir", Class: "dir"},
				tEntry{Rel: ".sourcegraph/ignore", Kind: "symlink", Target: "../real-ignore", Class: "symlink/file"},
				tEntry{Rel: "real-ignore", Kind: "file", Content: []byte(txt), Class: "file/text"})
		case "symlinked-dir":
			g.m.Entries = append(g.m.Entries,
				tEntry{Rel: "sgdir", Kind: "dir", Class: "dir"},
				tEntry{Rel: "sgdir/ignore", Kind: "file", Content: []byte(txt), Class: "file/text"},
				tEntry{Rel: ".sourcegraph", Kind: "symlink", Target: "sgdir", Class: "symlink/dir"})
		case "ignore-is-dir":
			g.m.Entries = append(g.m.Entries,
				tEntry{Rel: ".sourcegraph", Kind: "dir", Class: "dir"},
				tEntry{Rel: ".sourcegraph/ignore", Kind: "dir", Class: "dir"},
				tEntry{Rel: ".sourcegraph/ignore/x.txt", Kind: "file", Content: []byte(txt + "xyz"), Class: "file/text"})
		}
	}
	g.m.ArgStyle = pick(r, []string{"abs", "abs", "rel", "trailing-slash", "dotted", "rel-dot"})
	for i := range g.m.Entries {
		e := &g.m.Entries[i]
		if e.Kind == "file" {
			e.Shown = show(e.Content)
			if len(e.Shown) > 200 {
				e.Shown = fmt.Sprintf("%s…(%d bytes)", e.Shown[:60], len(e.Content))
			}
		}
	}
	return g.m
}

func genTreeCase(r *rand.Rand) *treeCase {
	tc := &treeCase{}
	limit := defaultFileLimit
	if r.IntN(6) == 0 {
		tc.FileLimit = 40 + r.IntN(60)
		limit = tc.FileLimit
	}
	if r.IntN(6) == 0 {
		tc.ShardLimit = 60 + r.IntN(200)
	}
	switch r.IntN(10) {
	case 0:
		s := ""
		tc.IgnoreDirs = &s
	case 1:
		s := "src, lib,.git"
		tc.IgnoreDirs = &s
	case 2:
		s := "docs"
		tc.IgnoreDirs = &s
	}
	names := []string{"tree", "my repo", "répo", "proj.v2", "tree"}
	n1 := pick(r, names)
	tc.Trees = append(tc.Trees, genTreeModel(r, n1, tc.FileLimit > 0, limit))
	if r.IntN(10) == 0 {
		tc.Trees = append(tc.Trees, genTreeModel(r, n1+"-second", tc.FileLimit > 0, limit))
	} else if r.IntN(8) == 0 {
		tc.MetaName = pick(r, []string{"custom/name", "example.com/org/repo"})
	}
	return tc
}

// --- the oracle for ignore rules -------------------------------------------------

// ignorePatterns applies the documented parsing rules of the ignore file: one glob
// per line relative to the root, '#' comments and empty lines skipped, a leading
// '/' dropped, and an implicit trailing ** for lines without any of ".][*?".
func ignorePatterns(text string) []string {
	var out []string
	for _, line := range strings.Split(text, "\n") {
		line = strings.TrimSpace(line)
		if line == "" || strings.HasPrefix(line, "#") {
			continue
		}
		line = strings.TrimPrefix(line, "/")
		if !strings.ContainsAny(line, ".][*?") {
			line += "**"
		}
		out = append(out, line)
	}
	return out
}

// globMatch: '*' = any run of non-'/' runes, '**' = any run of runes, '?' = one
// non-'/' rune, everything else literal (the generator uses nothing else).
func globMatch(pat, s string) bool {
	p, t := []rune(pat), []rune(s)
	var m func(i, j int) bool
	m = func(i, j int) bool {
		for i < len(p) {
			switch {
			case p[i] == '*' && i+1 < len(p) && p[i+1] == '*':
				for i < len(p) && p[i] == '*' {
					i++
				}
				for k := j; k <= len(t); k++ {
					if m(i, k) {
						return true
					}
				}
				return false
			case p[i] == '*':
				for k := j; k <= len(t); k++ {
					if m(i+1, k) {
						return true
					}
					if k < len(t) && t[k] == '/' {
						break
					}
				}
				return false
			case p[i] == '?':
				if j >= len(t) || t[j] == '/' {
					return false
				}
				i, j = i+1, j+1
			default:
				if j >= len(t) || t[j] != p[i] {
					return false
				}
				i, j = i+1, j+1
			}
		}
		return j == len(t)
	}
	return m(0, 0)
}

// excluded says whether the entry at rel is outside the indexed set and why.
func excluded(rel string, isDir bool, ignoreDirs map[string]bool, pats []string) string {
	comps := strings.Split(rel, "/")
	for i := 1; i <= len(comps); i++ {
		p := strings.Join(comps[:i], "/")
		dir := i < len(comps) || isDir
		if dir && ignoreDirs[comps[i-1]] {
			return "ignored-dir"
		}
		for _, pat := range pats {
			if globMatch(pat, p) {
				return "ignore-pattern"
			}
		}
	}
	return ""
}

type expDoc struct {
	Key   docKey
	Class string
}

func (tc *treeCase) ignoreDirSet() map[string]bool {
	s := ".git,.hg,.svn"
	if tc.IgnoreDirs != nil {
		s = *tc.IgnoreDirs
	}
	m := map[string]bool{}
	for _, d := range strings.Split(s, ",") {
		if d = strings.TrimSpace(d); d != "" {
			m[d] = true
		}
	}
	return m
}

func (tc *treeCase) repoName(m *treeModel) string {
	if tc.MetaName != "" {
		return tc.MetaName
	}
	return m.RootName
}

// expected computes the documents the index must hold and, for every model path
// that must not be a document, the reason.
func (tc *treeCase) expected(caseDir string) (docs []expDoc, absent map[docKey]string) {
	limit := defaultFileLimit
	if tc.FileLimit > 0 {
		limit = tc.FileLimit
	}
	absent = map[docKey]string{}
	ign := tc.ignoreDirSet()
	for _, m := range tc.Trees {
		pats := ignorePatterns(m.IgnoreText)
		repo := tc.repoName(m)
		root := filepath.Join(caseDir, m.RootName)
		for _, e := range m.Entries {
			why := excluded(e.Rel, e.Kind == "dir", ign, pats)
			var raw []byte
			switch e.Kind {
			case "file":
				raw = e.Content
			case "symlink":
				raw = []byte(strings.ReplaceAll(e.Target, "$ROOT", root))
			default:
				if why == "" {
					why = e.Kind
				}
			}
			if why != "" {
				absent[docKey{Repo: repo, Name: e.Rel}] = why
				continue
			}
			c, cl := storedContent(raw, limit)
			class := e.Class
			if e.Kind == "file" && e.Class != "file/ignorefile" {
				class = "file/" + cl
			} else if e.Kind == "symlink" && cl != "text" {
				class = e.Class + "+" + cl
			}
			docs = append(docs, expDoc{Key: docKey{repo, e.Rel, c}, Class: class})
		}
	}
	return
}

func (tc *treeCase) materialise(caseDir string) error {
	for _, m := range tc.Trees {
		root := filepath.Join(caseDir, m.RootName)
		if err := os.MkdirAll(root, 0o755); err != nil {
			return err
		}
		if err := os.WriteFile(filepath.Join(caseDir, "outside.txt"), []byte(m.OutsideBytes), 0o644); err != nil {
			return err
		}
		for _, e := range m.Entries {
			p := filepath.Join(root, filepath.FromSlash(e.Rel))
			var err error
			switch e.Kind {
			case "dir":
				err = os.Mkdir(p, 0o755)
			case "file":
				err = os.WriteFile(p, e.Content, 0o644)
			case "symlink":
				err = os.Symlink(strings.ReplaceAll(e.Target, "$ROOT", root), p)
			case "fifo":
				err = syscall.Mkfifo(p, 0o644)
			}
			if err != nil {
				return fmt.Errorf("%s %q: %w", e.Kind, e.Rel, err)
			}
		}
	}
	return nil
}

func (tc *treeCase) args(caseDir, idx string) []string {
	a := []string{"-index", idx}
	if tc.IgnoreDirs != nil {
		a = append(a, "-ignore_dirs="+*tc.IgnoreDirs)
	}
	if tc.FileLimit > 0 {
		a = append(a, "-file_limit", fmt.Sprint(tc.FileLimit))
	}
	if tc.ShardLimit > 0 {
		a = append(a, "-shard_limit", fmt.Sprint(tc.ShardLimit))
	}
	if tc.MetaName != "" {
		a = append(a, "-meta", filepath.Join(caseDir, "meta.json"))
	}
	for _, m := range tc.Trees {
		abs := filepath.Join(caseDir, m.RootName)
		switch m.ArgStyle {
		case "rel":
			a = append(a, m.RootName)
		case "rel-dot":
			a = append(a, "./"+m.RootName+"/.")
		case "trailing-slash":
			a = append(a, abs+"/")
		case "dotted":
			a = append(a, caseDir+"/nonexistent/../"+m.RootName)
		default:
			a = append(a, abs)
		}
	}
	return a
}

// features summarises what a tree case exercises (for the case key / rule).
func (tc *treeCase) features(docs []expDoc, absent map[docKey]string) (key string, nontrivial bool) {
	cnt := map[string]int{}
	for _, d := range docs {
		cnt[d.Class]++
	}
	for _, why := range absent {
		cnt["absent:"+why]++
	}
	var parts []string
	for _, k := range sortedKeys(cnt) {
		parts = append(parts, fmt.Sprintf("%s=%d", k, cnt[k]))
	}
	flags := fmt.Sprintf("trees=%d ign=%v fl=%v sl=%v meta=%v", len(tc.Trees), tc.IgnoreDirs != nil, tc.FileLimit > 0, tc.ShardLimit > 0, tc.MetaName != "")
	for _, m := range tc.Trees {
		flags += " " + m.ArgStyle + "/" + m.IgnoreMode
	}
	hasLink, hasAbsent := false, false
	for k := range cnt {
		if strings.HasPrefix(k, "symlink/") {
			hasLink = true
		}
		if k == "absent:ignored-dir" || k == "absent:ignore-pattern" {
			hasAbsent = true
		}
	}
	return "dir|" + flags + "|" + strings.Join(parts, ","), len(docs) > 0 && (hasLink || hasAbsent)
}

type c15Result struct {
	Key        string
	Nontrivial bool
	Sample     any
	Counts     map[string]int64
	Seen       map[string][]string
	VSig       string
	VWhat      string
	VWitness   any
	Harness    string // harness-side failure (not a verdict)
}

func newC15Result() *c15Result {
	return &c15Result{Counts: map[string]int64{}, Seen: map[string][]string{}}
}

func (r *c15Result) seen(set, member string) { r.Seen[set] = append(r.Seen[set], member) }

// compareDocs classifies the first difference between expected and indexed documents.
func compareDocs(docs []expDoc, absent map[docKey]string, got map[docKey]int, pointee func(d expDoc) (string, bool)) (class string, detail []string) {
	want := map[docKey]int{}
	classOf := map[docKey]string{}
	byName := map[docKey][]expDoc{}
	for _, d := range docs {
		want[d.Key]++
		classOf[d.Key] = d.Class
		nk := docKey{Repo: d.Key.Repo, Name: d.Key.Name}
		byName[nk] = append(byName[nk], d)
	}
	gotByName := map[docKey][]string{}
	for k, n := range got {
		for i := 0; i < n; i++ {
			nk := docKey{Repo: k.Repo, Name: k.Name}
			gotByName[nk] = append(gotByName[nk], k.Content)
		}
	}
	var classes []string
	add := func(c, d string) {
		classes = append(classes, c)
		detail = append(detail, c+": "+d)
	}
	for k, n := range want {
		if got[k] >= n {
			continue
		}
		nk := docKey{Repo: k.Repo, Name: k.Name}
		if others, ok := gotByName[nk]; ok {
			cl := "content/" + classOf[k]
			if pointee != nil {
				if pc, ok := pointee(expDoc{Key: k, Class: classOf[k]}); ok {
					for _, o := range others {
						if o == pc && o != k.Content {
							cl = "content/symlink-followed"
						}
					}
				}
			}
			if len(others) != len(byName[nk]) {
				cl = "count/" + classOf[k]
			}
			add(cl, fmt.Sprintf("%q in %q: want content %q x%d, index has %q", k.Name, k.Repo, clip(k.Content, 120), n, others))
		} else {
			add("missing/"+classOf[k], fmt.Sprintf("%q in %q (content %q) is not in the index", k.Name, k.Repo, clip(k.Content, 120)))
		}
	}
	for k, n := range got {
		if want[k] >= n {
			continue
		}
		nk := docKey{Repo: k.Repo, Name: k.Name}
		if _, ok := byName[nk]; ok {
			if want[k] > 0 || len(gotByName[nk]) > len(byName[nk]) {
				add("count/"+byName[nk][0].Class, fmt.Sprintf("%q in %q indexed %d times, want %d", k.Name, k.Repo, len(gotByName[nk]), len(byName[nk])))
			}
			continue // content mismatch already reported from the want side
		}
		why, ok := absent[nk]
		if !ok {
			why = "not-in-model"
		}
		add("extra/"+why, fmt.Sprintf("%q in %q (content %q) must not be indexed", k.Name, k.Repo, clip(k.Content, 120)))
	}
	if len(classes) == 0 {
		return "", nil
	}
	sort.Strings(classes)
	sort.Strings(detail)
	if len(detail) > 12 {
		detail = detail[:12]
	}
	return classes[0], detail
}

func runTreeCase(work string, i int, tc *treeCase) *c15Result {
	res := newC15Result()
	caseDir := filepath.Join(work, fmt.Sprintf("t%d", i))
	defer os.RemoveAll(caseDir)
	os.RemoveAll(caseDir)
	if err := os.MkdirAll(caseDir, 0o755); err != nil {
		res.Harness = err.Error()
		return res
	}
	if err := tc.materialise(caseDir); err != nil {
		res.Harness = "materialise: " + err.Error()
		return res
	}
	if tc.MetaName != "" {
		b, _ := json.Marshal(map[string]any{"Name": tc.MetaName})
		os.WriteFile(filepath.Join(caseDir, "meta.json"), b, 0o644)
	}
	idx := filepath.Join(caseDir, "idx")
	docs, absent := tc.expected(caseDir)
	res.Key, res.Nontrivial = tc.features(docs, absent)
	for _, d := range docs {
		res.seen("dir_doc_classes", d.Class)
	}
	for _, why := range absent {
		res.seen("dir_absent_reasons", why)
	}
	for _, m := range tc.Trees {
		res.seen("dir_arg_styles", m.ArgStyle)
		if m.IgnoreMode != "" {
			res.seen("dir_ignore_modes", m.IgnoreMode)
		}
	}
	res.Sample = map[string]any{"kind": "dir", "entries": len(tc.Trees[0].Entries), "expected_docs": len(docs), "must_be_absent": len(absent), "key": res.Key}
	cr := runBin("zoekt-index", tc.args(caseDir, idx), caseDir, nil, []string{"HOME=" + caseDir}, 120*time.Second)
	res.Counts["dir_runs"]++
	res.Counts["dir_expected_docs"] += int64(len(docs))
	res.Counts["dir_must_be_absent"] += int64(len(absent))
	wit := func(extra map[string]any) any {
		w := map[string]any{"case": tc, "command": cr, "scratch": caseDir, "replay": "recreate the entries under <scratch>/<root_name> ($ROOT = that directory; outside.txt next to it) and run the command"}
		for k, v := range extra {
			w[k] = v
		}
		return w
	}
	switch {
	case cr.TimedOut:
		res.Counts["inconclusive_timeouts"]++
		res.Nontrivial = false
		return res
	case cr.crashed():
		res.VSig = "c15/dir/crash/" + cr.crashClass()
		res.VWhat = "zoekt-index crashed: " + lastLine(cr.Stderr, caseDir)
		res.VWitness = wit(nil)
		return res
	case cr.Exit != 0:
		res.Counts["dir_error_exits"]++
		res.VSig = "c15/dir/error-exit/" + msgClass(lastLine(cr.Stderr, caseDir))
		res.VWhat = fmt.Sprintf("zoekt-index exit %d on a supported tree: %s", cr.Exit, lastLine(cr.Stderr, caseDir))
		res.VWitness = wit(nil)
		return res
	}
	view, err := readIndex(idx)
	if err != nil {
		res.VSig = "c15/dir/unreadable-index"
		res.VWhat = err.Error()
		res.VWitness = wit(nil)
		return res
	}
	res.Counts["dir_docs_read_back"] += int64(len(view.Docs))
	// pointee content, to name the "followed the link" failure precisely
	pointee := func(d expDoc) (string, bool) {
		if !strings.HasPrefix(d.Class, "symlink/") {
			return "", false
		}
		for _, m := range tc.Trees {
			if tc.repoName(m) != d.Key.Repo {
				continue
			}
			root := filepath.Join(caseDir, m.RootName)
			b, err := os.ReadFile(filepath.Join(root, filepath.FromSlash(d.Key.Name)))
			if err == nil {
				return string(b), true
			}
		}
		return "", false
	}
	// the pointee must be read before the deferred RemoveAll; compareDocs runs here
	class, detail := compareDocs(docs, absent, view.Docs, pointee)
	if view.Crashes > 0 {
		class, detail = "shard-crash-on-read", []string{fmt.Sprintf("Stats.Crashes=%d", view.Crashes)}
	}
	if class != "" {
		res.VSig = "c15/dir/docs/" + class
		res.VWhat = strings.Join(detail, "; ")
		res.VWitness = wit(map[string]any{"differences": detail})
	}
	return res
}

// ---------------------------------------------------------------------------------
// archives

type aMember struct {
	Name    string `json:"name"`
	Type    string `json:"type"` // reg | dir | symlink | hardlink | fifo | xglobal | char
	Content []byte `json:"-"`
	Shown   string `json:"content,omitempty"`
	Link    string `json:"link,omitempty"`
}

type arcCase struct {
	Format      string    `json:"format"` // tar | tgz | zip
	TarFormat   string    `json:"tar_format,omitempty"`
	Members     []aMember `json:"members"`
	Prior       []aMember `json:"prior_archive_members,omitempty"` // indexed first under another commit
	Strip       int       `json:"strip_components"`
	Name        string    `json:"name"`
	Branch      string    `json:"branch"`
	Commit      string    `json:"commit,omitempty"`
	Incremental string    `json:"incremental_flag,omitempty"` // "" (default) | "false" | "true"
	Stdin       bool      `json:"via_stdin,omitempty"`
	Corrupt     string    `json:"corrupt,omitempty"`
	CorruptAt   int       `json:"corrupt_at,omitempty"`
	ShardLimit  int       `json:"shard_limit,omitempty"`
	FileLimit   int       `json:"file_limit,omitempty"`
	Shape       string    `json:"shape"`
	ArchiveHex  string    `json:"archive_hex,omitempty"` // filled for witnesses of small archives
}

var arcDirs = []string{"top", "repo-abc123", "src", "a", "lib", "x y", "dír", "deep"}
var arcFiles = []string{"a.txt", "main.go", "README", "b.go", "data.json", "x y.txt", "ünï.md", ".hidden", "Makefile", "f"}

func genMembers(r *rand.Rand, shape string) []aMember {
	var ms []aMember
	reg := func(name string) aMember {
		var c []byte
		switch x := r.IntN(15); {
		case x == 0:
		case x == 1:
			c = []byte("ab")
		case x == 2:
			c = []byte("\x00\x01binary\x00")
		default:
			c = []byte(pick(r, texts))
		}
		return aMember{Name: name, Type: "reg", Content: c}
	}
	path := func(minDepth, maxDepth int) string {
		d := minDepth
		if maxDepth > minDepth {
			d += r.IntN(maxDepth - minDepth + 1)
		}
		var parts []string
		for i := 0; i < d; i++ {
			parts = append(parts, pick(r, arcDirs))
		}
		return strings.Join(parts, "/")
	}
	switch shape {
	case "empty":
		return nil
	case "only-dirs":
		n := 1 + r.IntN(3)
		for i := 0; i < n; i++ {
			ms = append(ms, aMember{Name: path(1, 3) + "/", Type: "dir"})
		}
		return ms
	case "only-nonregular":
		ms = append(ms, aMember{Name: "top/", Type: "dir"}, aMember{Name: "top/link", Type: "symlink", Link: "elsewhere"})
		if r.IntN(2) == 0 {
			ms = append(ms, aMember{Name: "pax_global_header", Type: "xglobal"})
		}
		return ms
	}
	n := 1 + r.IntN(7)
	prefix := ""
	if r.IntN(3) > 0 {
		prefix = pick(r, arcDirs) // the typical single top-level directory of a code-host archive
	}
	if shape == "git-archive" {
		ms = append(ms, aMember{Name: "pax_global_header", Type: "xglobal"})
	}
	if prefix != "" && r.IntN(2) == 0 {
		ms = append(ms, aMember{Name: prefix + "/", Type: "dir"})
	}
	for i := 0; i < n; i++ {
		dir := prefix
		if sub := path(0, 2); sub != "" {
			dir = join(dir, sub)
		}
		name := join(dir, pick(r, arcFiles))
		switch x := r.IntN(20); {
		case x < 12:
			ms = append(ms, reg(name))
		case x == 12:
			ms = append(ms, aMember{Name: join(dir, "sub") + "/", Type: "dir"})
		case x == 13:
			ms = append(ms, aMember{Name: name + ".lnk", Type: "symlink", Link: pick(r, []string{"a.txt", "../outside", "/etc/passwd", "nowhere"})})
		case x == 14:
			tgt := name
			if len(ms) > 0 {
				tgt = ms[r.IntN(len(ms))].Name
			}
			ms = append(ms, aMember{Name: name + ".hard", Type: "hardlink", Link: tgt})
		case x == 15:
			ms = append(ms, aMember{Name: name + ".fifo", Type: pick(r, []string{"fifo", "char"})})
		case x == 16 && len(ms) > 0:
			// duplicate member name with other content
			d := reg(ms[r.IntN(len(ms))].Name)
			if !strings.HasSuffix(d.Name, "/") {
				ms = append(ms, d)
			}
		case x == 17:
			// shorter than any strip count
			ms = append(ms, reg(pick(r, arcFiles)))
		case x == 18:
			ms = append(ms, reg(pick(r, []string{"../escape.txt", "/abs/path.txt", "a//double.txt", "long/" + strings.Repeat("p", 110) + "/file.txt"})))
		default:
			ms = append(ms, reg(name))
		}
	}
	return ms
}

func genArcCase(r *rand.Rand) *arcCase {
	ac := &arcCase{Format: pick(r, []string{"tar", "tar", "tgz", "tgz", "zip"}), Strip: pick(r, []int{0, 0, 1, 1, 2}),
		Name: pick(r, []string{"arc", "github.com/org/repo", "name with space"}), Branch: pick(r, []string{"main", "HEAD", "v1.0"})}
	switch x := r.IntN(20); {
	case x == 0:
		ac.Shape = "empty"
	case x == 1:
		ac.Shape = "only-dirs"
	case x == 2:
		ac.Shape = "only-nonregular"
	case x < 6:
		ac.Shape = "git-archive"
	default:
		ac.Shape = "mixed"
	}
	ac.Members = genMembers(r, ac.Shape)
	if ac.Format != "zip" {
		ac.TarFormat = pick(r, []string{"", "", "pax", "gnu"})
	}
	if r.IntN(3) > 0 {
		ac.Commit = pick(r, []string{"deadbeefdeadbeefdeadbeefdeadbeefdeadbeef", "c1"})
	}
	switch r.IntN(6) {
	case 0:
		ac.Incremental = "false"
	case 1:
		ac.Incremental = "true"
	}
	if r.IntN(8) == 0 {
		ac.Stdin = true
	}
	if r.IntN(7) == 0 {
		ac.Prior = genMembers(r, "mixed")
		for i := range ac.Prior {
			ac.Prior[i].Name = "old-" + ac.Prior[i].Name
		}
		if ac.Commit == "" {
			ac.Commit = "c1"
		}
	}
	if r.IntN(10) == 0 {
		ac.ShardLimit = 50 + r.IntN(150)
	}
	if r.IntN(10) == 0 {
		ac.FileLimit = 20 + r.IntN(30)
	}
	if r.IntN(12) == 0 {
		ac.Corrupt = pick(r, []string{"truncate", "garbage", "flip"})
		ac.CorruptAt = r.IntN(1 << 20)
	}
	for _, l := range [][]aMember{ac.Members, ac.Prior} {
		for i := range l {
			if l[i].Type == "reg" {
				l[i].Shown = show(l[i].Content)
			}
		}
	}
	return ac
}

var arcTime = time.Date(2024, 3, 1, 12, 0, 0, 0, time.UTC)

func buildTar(ms []aMember, format string) ([]byte, error) {
	var buf bytes.Buffer
	tw := tar.NewWriter(&buf)
	for _, m := range ms {
		h := &tar.Header{Name: m.Name, Mode: 0o644, ModTime: arcTime}
		switch format {
		case "pax":
			h.Format = tar.FormatPAX
		case "gnu":
			h.Format = tar.FormatGNU
		}
		switch m.Type {
		case "reg":
			h.Typeflag = tar.TypeReg
			h.Size = int64(len(m.Content))
		case "dir":
			h.Typeflag = tar.TypeDir
			h.Mode = 0o755
		case "symlink":
			h.Typeflag = tar.TypeSymlink
			h.Linkname = m.Link
		case "hardlink":
			h.Typeflag = tar.TypeLink
			h.Linkname = m.Link
		case "fifo":
			h.Typeflag = tar.TypeFifo
		case "char":
			h.Typeflag = tar.TypeChar
			h.Devmajor, h.Devminor = 1, 3
		case "xglobal":
			h = &tar.Header{Typeflag: tar.TypeXGlobalHeader, Name: m.Name, Format: tar.FormatPAX,
				PAXRecords: map[string]string{"comment": "0123456789abcdef0123456789abcdef01234567"}}
		}
		if err := tw.WriteHeader(h); err != nil {
			return nil, fmt.Errorf("tar header %q: %w", m.Name, err)
		}
		if m.Type == "reg" {
			if _, err := tw.Write(m.Content); err != nil {
				return nil, err
			}
		}
	}
	if err := tw.Close(); err != nil {
		return nil, err
	}
	return buf.Bytes(), nil
}

func buildZip(ms []aMember, r *rand.Rand) ([]byte, error) {
	var buf bytes.Buffer
	zw := zip.NewWriter(&buf)
	for i, m := range ms {
		fh := &zip.FileHeader{Name: m.Name, Method: zip.Deflate, Modified: arcTime}
		if i%2 == 1 {
			fh.Method = zip.Store
		}
		var body []byte
		switch m.Type {
		case "reg":
			fh.SetMode(0o644)
			body = m.Content
		case "dir":
			fh.SetMode(os.ModeDir | 0o755)
			fh.Method = zip.Store
		case "symlink":
			fh.SetMode(os.ModeSymlink | 0o777)
			body = []byte(m.Link)
		case "fifo":
			fh.SetMode(os.ModeNamedPipe | 0o644)
		case "char":
			fh.SetMode(os.ModeDevice | os.ModeCharDevice | 0o644)
		default:
			continue // no zip equivalent (hard links, pax headers)
		}
		w, err := zw.CreateHeader(fh)
		if err != nil {
			return nil, fmt.Errorf("zip header %q: %w", m.Name, err)
		}
		if len(body) > 0 {
			if _, err := w.Write(body); err != nil {
				return nil, err
			}
		}
	}
	if err := zw.Close(); err != nil {
		return nil, err
	}
	return buf.Bytes(), nil
}

func gz(b []byte) []byte {
	var buf bytes.Buffer
	w := gzip.NewWriter(&buf)
	w.Write(b)
	w.Close()
	return buf.Bytes()
}

func (ac *arcCase) build(ms []aMember) ([]byte, error) {
	switch ac.Format {
	case "zip":
		return buildZip(ms, nil)
	case "tgz":
		b, err := buildTar(ms, ac.TarFormat)
		if err != nil {
			return nil, err
		}
		return gz(b), nil
	}
	return buildTar(ms, ac.TarFormat)
}

// zipDrops: member types that cannot be represented in a zip are left out there.
func (ac *arcCase) present(m aMember) bool {
	return !(ac.Format == "zip" && (m.Type == "hardlink" || m.Type == "xglobal"))
}

// stripName is the documented meaning of -strip_components: remove that many
// leading path elements; names with fewer elements are skipped.
func stripName(name string, n int) (string, bool) {
	parts := strings.Split(name, "/")
	if len(parts) <= n {
		return "", false
	}
	s := strings.Join(parts[n:], "/")
	return s, s != ""
}

func (ac *arcCase) expected() (docs []expDoc, absent map[docKey]string) {
	limit := defaultFileLimit
	if ac.FileLimit > 0 {
		limit = ac.FileLimit
	}
	absent = map[docKey]string{}
	for _, m := range ac.Members {
		if !ac.present(m) {
			continue
		}
		name, ok := stripName(m.Name, ac.Strip)
		if m.Type != "reg" {
			if ok {
				absent[docKey{Repo: ac.Name, Name: name}] = "member-" + m.Type
			}
			absent[docKey{Repo: ac.Name, Name: m.Name}] = "member-" + m.Type
			continue
		}
		if !ok {
			absent[docKey{Repo: ac.Name, Name: m.Name}] = "shorter-than-strip"
			continue
		}
		c, cl := storedContent(m.Content, limit)
		docs = append(docs, expDoc{Key: docKey{ac.Name, name, c}, Class: "reg/" + cl})
	}
	// a name that is expected is never "absent" (duplicates of mixed type)
	for _, d := range docs {
		delete(absent, docKey{Repo: d.Key.Repo, Name: d.Key.Name})
	}
	for _, m := range ac.Prior {
		if name, ok := stripName(m.Name, ac.Strip); ok {
			k := docKey{Repo: ac.Name, Name: name}
			if _, dup := absent[k]; !dup {
				absent[k] = "stale-from-previous-index"
			}
		}
	}
	for _, d := range docs {
		delete(absent, docKey{Repo: d.Key.Repo, Name: d.Key.Name})
	}
	return
}

func (ac *arcCase) features(docs []expDoc) (string, bool) {
	cnt := map[string]int{}
	names := map[string]int{}
	for _, m := range ac.Members {
		if ac.present(m) {
			cnt[m.Type]++
			if m.Type == "reg" {
				names[m.Name]++
				if _, ok := stripName(m.Name, ac.Strip); !ok {
					cnt["short"]++
				}
			}
		}
	}
	for _, n := range names {
		if n > 1 {
			cnt["dup"]++
		}
	}
	var parts []string
	nonreg := false
	for _, k := range sortedKeys(cnt) {
		parts = append(parts, fmt.Sprintf("%s=%d", k, cnt[k]))
		if k != "reg" {
			nonreg = true
		}
	}
	key := fmt.Sprintf("arc|%s/%s|strip=%d|stdin=%v|inc=%s|commit=%v|prior=%v|sl=%v|fl=%v|corrupt=%s|%s|docs=%d", ac.Format, ac.TarFormat, ac.Strip, ac.Stdin,
		ac.Incremental, ac.Commit != "", ac.Prior != nil, ac.ShardLimit > 0, ac.FileLimit > 0, ac.Corrupt, strings.Join(parts, ","), len(docs))
	nontrivial := cnt["reg"] == 0 || ac.Strip > 0 || nonreg || ac.Corrupt != ""
	return key, nontrivial
}

func (ac *arcCase) args(idx, archive, commit string) []string {
	a := []string{"-index", idx, "-name", ac.Name, "-branch", ac.Branch}
	if commit != "" {
		a = append(a, "-commit", commit)
	}
	if ac.Strip > 0 || len(ac.Members)%2 == 0 {
		a = append(a, "-strip_components", fmt.Sprint(ac.Strip))
	}
	if ac.Incremental != "" {
		a = append(a, "-incremental="+ac.Incremental)
	}
	if ac.ShardLimit > 0 {
		a = append(a, "-shard_limit", fmt.Sprint(ac.ShardLimit))
	}
	if ac.FileLimit > 0 {
		a = append(a, "-file_limit", fmt.Sprint(ac.FileLimit))
	}
	return append(a, archive)
}

func runArcCase(work string, i int, ac *arcCase) *c15Result {
	res := newC15Result()
	caseDir := filepath.Join(work, fmt.Sprintf("a%d", i))
	defer os.RemoveAll(caseDir)
	os.RemoveAll(caseDir)
	if err := os.MkdirAll(caseDir, 0o755); err != nil {
		res.Harness = err.Error()
		return res
	}
	idx := filepath.Join(caseDir, "idx")
	docs, absent := ac.expected()
	res.Key, res.Nontrivial = ac.features(docs)
	res.Sample = map[string]any{"kind": "archive", "key": res.Key}
	res.seen("arc_formats", ac.Format+"/"+ac.TarFormat)
	res.seen("arc_shapes", ac.Shape)
	for _, m := range ac.Members {
		if ac.present(m) {
			res.seen("arc_member_types", m.Type)
		}
	}
	data, err := ac.build(ac.Members)
	if err != nil {
		res.Harness = "build archive: " + err.Error()
		return res
	}
	switch ac.Corrupt {
	case "truncate":
		if len(data) > 1 {
			data = data[:1+ac.CorruptAt%(len(data)-1)]
		}
	case "garbage":
		g := make([]byte, 600+ac.CorruptAt%900)
		x := uint32(ac.CorruptAt)*2654435761 + 1
		for j := range g {
			x = x*1664525 + 1013904223
			g[j] = byte(x >> 24)
		}
		data = g
	case "flip":
		if len(data) > 0 {
			data = append([]byte(nil), data...)
			data[ac.CorruptAt%len(data)] ^= 0x5a
		}
	}
	ext := map[string]string{"tar": ".tar", "tgz": ".tar.gz", "zip": ".zip"}[ac.Format]
	apath := filepath.Join(caseDir, "input"+ext)
	if err := os.WriteFile(apath, data, 0o644); err != nil {
		res.Harness = err.Error()
		return res
	}
	if len(data) <= 4096 {
		ac.ArchiveHex = fmt.Sprintf("%x", data)
	}
	env := []string{"HOME=" + caseDir}
	wit := func(cr cmdResult, extra map[string]any) any {
		w := map[string]any{"case": ac, "command": cr, "replay": "write the archive (archive_hex, or rebuild from members with archive/tar|zip) and run the command"}
		for k, v := range extra {
			w[k] = v
		}
		return w
	}
	if ac.Prior != nil {
		pd, err := ac.build(ac.Prior)
		if err != nil {
			res.Harness = "build prior archive: " + err.Error()
			return res
		}
		pp := filepath.Join(caseDir, "prior"+ext)
		os.WriteFile(pp, pd, 0o644)
		pr := runBin("zoekt-archive-index", ac.args(idx, pp, "c0"), caseDir, nil, env, 120*time.Second)
		res.Counts["arc_prior_runs"]++
		if pr.crashed() {
			res.VSig = "c15/archive/crash/" + pr.crashClass()
			res.VWhat = "zoekt-archive-index crashed on the preparatory archive: " + lastLine(pr.Stderr, caseDir)
			res.VWitness = wit(pr, map[string]any{"note": "crash happened while indexing prior_archive_members"})
			return res
		}
	}
	args := ac.args(idx, apath, ac.Commit)
	var stdin []byte
	if ac.Stdin {
		args[len(args)-1] = "-"
		stdin = data
	}
	cr := runBin("zoekt-archive-index", args, caseDir, stdin, env, 120*time.Second)
	res.Counts["arc_runs"]++
	res.Counts["arc_expected_docs"] += int64(len(docs))
	switch {
	case cr.TimedOut:
		res.Counts["inconclusive_timeouts"]++
		res.Nontrivial = false
		return res
	case cr.crashed():
		nreg := 0
		for _, m := range ac.Members {
			if m.Type == "reg" && ac.present(m) {
				nreg++
			}
		}
		res.VSig = "c15/archive/crash/" + cr.crashClass()
		res.VWhat = fmt.Sprintf("zoekt-archive-index crashed (%s archive, %d regular members, corrupt=%q): %s", ac.Format, nreg, ac.Corrupt, firstCrashLine(cr.Stderr))
		res.VWitness = wit(cr, nil)
		return res
	case ac.Corrupt != "":
		// only "never crashes" is claimed for damaged input
		res.Counts["arc_corrupt_survived"]++
		res.seen("arc_corrupt_outcomes", fmt.Sprintf("%s exit=%d", ac.Corrupt, cr.Exit))
		return res
	case cr.Exit != 0 && ac.Stdin && ac.Format == "zip":
		// documented: "streaming zip files not supported"
		res.Counts["arc_documented_unsupported"]++
		return res
	case cr.Exit != 0 && len(docs) == 0:
		// nothing to capture and a clean error: nothing the property forbids
		res.Counts["arc_clean_error_without_regular_members"]++
		res.seen("arc_clean_errors", ac.Format+"/"+ac.Shape+": "+msgClass(lastLine(cr.Stderr, caseDir)))
		return res
	case cr.Exit != 0:
		res.VSig = "c15/archive/error-exit/" + msgClass(lastLine(cr.Stderr, caseDir))
		res.VWhat = fmt.Sprintf("zoekt-archive-index exit %d on a valid %s archive with %d regular members: %s", cr.Exit, ac.Format, len(docs), lastLine(cr.Stderr, caseDir))
		res.VWitness = wit(cr, nil)
		return res
	}
	view, err := readIndex(idx)
	if err != nil {
		res.VSig = "c15/archive/unreadable-index"
		res.VWhat = err.Error()
		res.VWitness = wit(cr, nil)
		return res
	}
	res.Counts["arc_docs_read_back"] += int64(len(view.Docs))
	class, detail := compareDocs(docs, absent, view.Docs, nil)
	if view.Crashes > 0 {
		class, detail = "shard-crash-on-read", []string{fmt.Sprintf("Stats.Crashes=%d", view.Crashes)}
	}
	if class != "" {
		res.VSig = "c15/archive/docs/" + class
		res.VWhat = strings.Join(detail, "; ")
		res.VWitness = wit(cr, map[string]any{"differences": detail})
	}
	return res
}

func firstCrashLine(stderr string) string {
	for _, l := range strings.Split(stderr, "\n") {
		if strings.HasPrefix(l, "panic:") || strings.HasPrefix(l, "fatal error:") {
			return l
		}
	}
	return lastLine(stderr, "")
}

// ---------------------------------------------------------------------------------

func TestVerif_C15(t *testing.T) {
	rec := kit.Open("C15")
	defer rec.Done()
	for _, b := range []string{"zoekt-index", "zoekt-archive-index"} {
		if !haveBin(b) {
			rec.Note("broken", "missing binary "+binPath(b))
			return
		}
	}
	work, err := filepath.EvalSymlinks(rec.Work)
	if err != nil {
		work = rec.Work
	}
	nTrees := rec.N(100, 1500)
	nArcs := rec.N(100, 1500)
	rt := rec.Rand(1)
	trees := make([]*treeCase, nTrees)
	for i := range trees {
		trees[i] = genTreeCase(rt)
	}
	ra := rec.Rand(2)
	arcs := make([]*arcCase, nArcs)
	for i := range arcs {
		arcs[i] = genArcCase(ra)
	}
	const workers = 12
	results := parallelMap(nTrees+nArcs, workers, func(i int) *c15Result {
		var res *c15Result
		msg, stack, p := kit.Guard(func() {
			if i < nTrees {
				res = runTreeCase(work, i, trees[i])
			} else {
				res = runArcCase(work, i-nTrees, arcs[i-nTrees])
			}
		})
		if p {
			res = newC15Result()
			res.Harness = "harness panic: " + msg + "\n" + stack
		}
		return res
	})
	for i, res := range results {
		if res.Harness != "" {
			rec.Count("harness_failures", 1)
			rec.Note("harness-failure", fmt.Sprintf("case %d: %s", i, clip(res.Harness, 1500)))
			continue
		}
		sample := res.Sample
		rec.Case(res.Key, res.Nontrivial, func() any { return sample })
		for k, v := range res.Counts {
			rec.Count(k, v)
		}
		for set, ms := range res.Seen {
			for _, m := range ms {
				rec.Seen(set, m)
			}
		}
		if res.VSig != "" {
			rec.Violation(res.VSig, res.VWhat, res.VWitness)
		}
	}
}
