package qlang

// gen_test.go: query *strings* generated from the EBNF of doc/query_syntax.md. The
// generator knows nothing about meaning; it only writes strings. In "judged" mode it
// stays inside the part of the grammar that has one documented reading (the doc
// interpreter is the judge of that, and the monitor counts what it refuses). In "wide"
// mode (C07) it also writes the forms the documentation leaves open.

import (
	"math/rand/v2"
	"strings"
	"unicode/utf8"

	kit "github.com/sourcegraph/zoekt/internal/verifkit"
)

type sgen struct {
	r    *rand.Rand
	g    *kit.Gen
	corp []*kit.Corpus
	wide bool
}

func newSGen(r *rand.Rand, corp []*kit.Corpus, wide bool) *sgen {
	return &sgen{r: r, g: kit.NewGen(r), corp: corp, wide: wide}
}

func (s *sgen) pick(l ...string) string { return l[s.r.IntN(len(l))] }

func (s *sgen) anyDoc() (*kit.Repo, *kit.Doc) {
	c := s.corp[s.r.IntN(len(s.corp))]
	r := c.Repos[s.r.IntN(len(c.Repos))]
	return r, r.Docs[s.r.IntN(len(r.Docs))]
}

var vocab = []string{"abc", "bca", "cab", "ab", "ba", "a", "b", "x1", "Abc", "aB", "éa", "aé", "дa", "É", "a_b", "a.b", "b a", "xx"}

func cutRunes(r *rand.Rand, src string, n int) string {
	rs := []rune(src)
	if len(rs) == 0 {
		return ""
	}
	if n > len(rs) {
		n = len(rs)
	}
	st := r.IntN(len(rs) - n + 1)
	return string(rs[st : st+n])
}

// lit picks literal text, mostly cut out of a corpus so that it hits.
func (s *sgen) lit(kind string) string {
	for try := 0; try < 8; try++ {
		n := 1 + s.r.IntN(4)
		if s.r.IntN(5) == 0 {
			n = 1 + s.r.IntN(8)
		}
		var p string
		rp, d := s.anyDoc()
		switch {
		case s.r.IntN(6) == 0:
			p = vocab[s.r.IntN(len(vocab))]
		case kind == "file":
			p = cutRunes(s.r, d.Name, n)
		case kind == "repo":
			p = cutRunes(s.r, rp.Name, n)
		case kind == "sym" && len(d.Syms()) > 0:
			sy := d.Syms()[s.r.IntN(len(d.Syms()))]
			p = cutRunes(s.r, d.Text()[sy.Start:sy.End], n)
		case kind == "text" && s.r.IntN(3) == 0:
			p = cutRunes(s.r, d.Name, n)
		default:
			p = cutRunes(s.r, d.Text(), n)
		}
		if p == "" || strings.ContainsAny(p, "\n\r\t") || !utf8.ValidString(p) {
			continue
		}
		if kind == "repo" || kind == "meta" {
			return strings.ToLower(p)
		}
		if s.r.IntN(6) == 0 { // flip the case of one rune
			rs := []rune(p)
			i := s.r.IntN(len(rs))
			flip := map[rune]rune{'a': 'A', 'A': 'a', 'b': 'B', 'B': 'b', 'c': 'C', 'é': 'É', 'É': 'é', 'x': 'X'}
			if f, ok := flip[rs[i]]; ok {
				rs[i] = f
			}
			p = string(rs)
		}
		return p
	}
	return "ab"
}

const reMeta = `\.+*?()|[]{}^$`

func escLit(s string) string {
	var b strings.Builder
	for _, c := range s {
		if strings.ContainsRune(reMeta, c) {
			b.WriteByte('\\')
		}
		b.WriteRune(c)
	}
	return b.String()
}

// pattern makes a regexp source. paren: regexp parentheses allowed. anchors: ^ $ allowed.
func (s *sgen) pattern(kind string, paren, anchors bool) string {
	l := func() string { return escLit(s.lit(kind)) }
	if s.r.IntN(100) < 55 {
		p := s.lit(kind)
		if s.r.IntN(4) > 0 {
			return escLit(p) // a literal, metacharacters escaped
		}
		// metacharacters left unescaped ("a.b" is then a regexp); parentheses only when allowed
		if strings.ContainsAny(p, "()[]{}*+?|^$\\") {
			return escLit(p)
		}
		return p
	}
	piece := func() string {
		switch s.r.IntN(20) {
		case 0:
			return "."
		case 1:
			return ".*"
		case 2:
			return "[ab]"
		case 3:
			return "[a-c]+"
		case 4:
			return "[^b]"
		case 5:
			return "a+"
		case 6:
			return "b?"
		case 7:
			return `\w+`
		case 8:
			return `\s`
		case 9:
			return `\b`
		case 10:
			if paren {
				return "(" + l() + "|" + l() + ")"
			}
			return l()
		case 11:
			if paren {
				return "(?:" + l() + ")?"
			}
			return `\d`
		case 12:
			if paren && s.r.IntN(3) == 0 {
				return "(?i:" + l() + ")"
			}
			return l()
		case 13:
			return "[A-C]"
		case 14:
			return `\.`
		case 15:
			return "a{2}"
		default:
			return l()
		}
	}
	var b strings.Builder
	if anchors && s.r.IntN(4) == 0 {
		b.WriteByte('^')
	}
	n := 1 + s.r.IntN(3)
	for i := 0; i < n; i++ {
		b.WriteString(piece())
	}
	if s.r.IntN(8) == 0 {
		b.WriteString("|" + l())
	}
	if anchors && s.r.IntN(4) == 0 {
		b.WriteByte('$')
	}
	return b.String()
}

func quoteText(p string) string {
	var b strings.Builder
	b.WriteByte('"')
	for i := 0; i < len(p); i++ {
		if p[i] == '"' || p[i] == '\\' {
			b.WriteByte('\\')
		}
		b.WriteByte(p[i])
	}
	b.WriteByte('"')
	return b.String()
}

// text renders a regexp-valued text: quoted or unquoted, kind "text" = bare.
func (s *sgen) text(kind string) string {
	anchors := kind == "file" || kind == "repo" || kind == "meta" || kind == "sym"
	quoted := s.r.IntN(10) < 3
	field := kind != "text"
	p := s.pattern(kind, quoted || field, anchors)
	if kind == "repo" || kind == "meta" {
		p = strings.ToLower(p)
	}
	if strings.Contains(p, `"`) {
		quoted = true
	}
	if !field && (p == "or" || strings.HasPrefix(p, "-") || strings.Contains(p, ":")) {
		quoted = true
	}
	if quoted {
		q := quoteText(p)
		if s.r.IntN(30) == 0 {
			// "a backslash escapes the next character": a needless escape of a plain letter
			if i := strings.IndexAny(q, "abcx"); i > 0 {
				q = q[:i] + `\` + q[i:]
			}
		}
		return q
	}
	// unquoted: spaces must be escaped
	return strings.ReplaceAll(p, " ", `\ `)
}

func (s *sgen) plainValue(v string) string {
	if s.r.IntN(6) == 0 {
		return quoteText(v)
	}
	if strings.ContainsAny(v, ` "()\`) {
		return quoteText(v)
	}
	return v
}

func (s *sgen) branchValue() string {
	switch s.r.IntN(8) {
	case 0, 1:
		return "HEAD"
	case 2:
		return s.pick("ma", "a", "nope", "release", "b", "e")
	default:
		r, d := s.anyDoc()
		if s.r.IntN(2) == 0 {
			return r.Branches[s.r.IntN(len(r.Branches))].Name
		}
		return d.Branches[s.r.IntN(len(d.Branches))]
	}
}

// atom writes one non-modifier expression without a group.
func (s *sgen) atom() string {
	neg := ""
	if s.r.IntN(5) == 0 {
		neg = "-"
	}
	switch x := s.r.IntN(100); {
	case x < 30:
		return neg + s.text("text")
	case x < 45:
		return neg + s.pick("content:", "c:") + s.text("content")
	case x < 57:
		return neg + s.pick("file:", "f:") + s.text("file")
	case x < 63:
		return neg + "regex:" + s.text("content")
	case x < 69:
		return neg + "sym:" + s.text("sym")
	case x < 75:
		return neg + s.pick("repo:", "r:") + s.text("repo")
	case x < 81:
		return neg + s.pick("branch:", "b:") + s.plainValue(s.branchValue())
	case x < 86:
		return neg + "lang:" + s.plainValue(s.pick("go", "Go", "c", "C", "java", "Java", "text", "Text", "python", "rust"))
	case x < 92:
		return neg + s.pick("archived:", "fork:", "public:") + s.pick("yes", "no")
	case x < 97:
		v := s.pick("a", "ab", "abc", "b", "^ab$", "b|c", "^a", "c$", ".", "a.")
		if s.r.IntN(4) == 0 {
			v = quoteText(v)
		}
		return neg + "meta." + s.pick("k", "team", "x", "nokey") + ":" + v
	default:
		// words that look like operators but are search terms by the documentation
		return neg + s.pick("and", "OR", `"or"`, "orx", "xor", `"and"`, "not")
	}
}

func (s *sgen) modifier() string {
	if s.r.IntN(2) == 0 {
		return "case:" + s.pick("yes", "no", "auto")
	}
	return s.pick("type:", "t:") + s.pick("repo", "repo", "repo", "file", "filename", "filematch")
}

// scope writes the inside of a `query`: clauses, expressions, modifiers.
func (s *sgen) scope(depth int) string {
	nc := 1
	switch x := s.r.IntN(10); {
	case x >= 9:
		nc = 3
	case x >= 6:
		nc = 2
	}
	var clauses [][]string
	for c := 0; c < nc; c++ {
		ne := 1 + s.r.IntN(2)
		if s.r.IntN(6) == 0 {
			ne = 3
		}
		var es []string
		for e := 0; e < ne; e++ {
			if depth < 4 && s.r.IntN(100) < 22-3*depth {
				es = append(es, s.group(depth+1))
			} else {
				es = append(es, s.atom())
			}
		}
		clauses = append(clauses, es)
	}
	// modifiers: inserted at random places of random clauses
	if s.r.IntN(100) < 35 {
		var mods []string
		m := s.modifier()
		mods = append(mods, m)
		for s.r.IntN(4) == 0 {
			if s.wide && s.r.IntN(3) == 0 {
				mods = append(mods, s.modifier()) // possibly conflicting
			} else if s.r.IntN(2) == 0 {
				mods = append(mods, m) // the same again
			} else {
				// one of the other family
				o := s.modifier()
				for strings.HasPrefix(o, "case:") == strings.HasPrefix(m, "case:") {
					o = s.modifier()
				}
				mods = append(mods, o)
				break
			}
		}
		for _, m := range mods {
			c := s.r.IntN(len(clauses))
			pos := s.r.IntN(len(clauses[c]) + 1)
			cl := append([]string{}, clauses[c][:pos]...)
			cl = append(cl, m)
			cl = append(cl, clauses[c][pos:]...)
			clauses[c] = cl
		}
	}
	var parts []string
	for _, cl := range clauses {
		parts = append(parts, strings.Join(cl, " "))
	}
	return strings.Join(parts, " or ")
}

func (s *sgen) group(depth int) string {
	neg := ""
	if s.r.IntN(5) == 0 {
		neg = "-"
	}
	in := s.scope(depth)
	// compact form "(a b)" as in the documentation's examples when the content cannot be
	// mistaken for a pattern: at least one structural space and no parenthesis
	// characters in the last expression; otherwise with inner spaces.
	if s.r.IntN(2) == 0 && strings.Contains(spaceOutsideQuotes(in), " ") && !strings.HasSuffix(in, ")") {
		return neg + "(" + in + ")"
	}
	if s.wide && s.r.IntN(6) == 0 {
		return neg + "(" + in + ")"
	}
	return neg + "( " + in + " )"
}

// Query writes one query string.
func (s *sgen) Query() string {
	q := s.scope(0)
	if s.r.IntN(12) == 0 {
		q = strings.ReplaceAll(q, " ", "  ") // runs of spaces
	}
	return q
}
