package qlang

import (
	"bytes"
	"context"
	"encoding/json"
	"fmt"
	"io"
	"math/rand/v2"
	"net/http"
	"net/http/httptest"
	"os"
	"path/filepath"
	"regexp"
	"runtime"
	"runtime/debug"
	"strconv"
	"strings"
	"sync"
	"syscall"
	"testing"
	"time"

	"github.com/sourcegraph/zoekt"
	zjson "github.com/sourcegraph/zoekt/internal/json"
	kit "github.com/sourcegraph/zoekt/internal/verifkit"
	"github.com/sourcegraph/zoekt/internal/verifkit/ix"
	"github.com/sourcegraph/zoekt/query"
	"github.com/sourcegraph/zoekt/search"
)

// C07: query parsing and JSON API decoding never crash; every query that parsing
// yields can be printed, converted to the wire format, simplified, searched and listed
// without panicking.
//
// All calls into zoekt happen in child processes (the test binary re-executed per
// batch). A panic caught by the child's own recover() and a dead child are both
// violations; the input is logged before the call.
func TestVerif_C07(t *testing.T) {
	rec := kit.Open("C07")
	if mode := kit.ChildMode(); mode != "" {
		c07Child(rec, mode, kit.ChildArg())
		rec.ChildDone()
		return
	}
	defer rec.Done()

	nStr := rec.N(32000, 1600000)
	nBody := rec.N(6000, 160000)
	batchS := rec.N(4000, 50000)
	batchB := rec.N(3000, 20000)
	type job struct {
		mode          string
		stream, count int
	}
	var jobs []job
	for k, left := 0, nStr; left > 0; k, left = k+1, left-batchS {
		jobs = append(jobs, job{"strings", k, min(batchS, left)})
	}
	for k, left := 0, nBody; left > 0; k, left = k+1, left-batchB {
		jobs = append(jobs, job{"json", k, min(batchB, left)})
	}
	// deep nesting (up to 5000): one child per syntactic form, they are the slow ones
	for k := 0; k < rec.N(1, 6); k++ {
		for f := range c07DeepForms {
			jobs = append(jobs, job{"deep", k*100 + f, 1})
		}
	}
	rec.Count("batches", int64(len(jobs)))
	world := filepath.Join(rec.Work, "c07world")
	if err := buildC07World(world, rec.Seed); err != nil {
		rec.Violation("harness/world", err.Error(), nil)
		return
	}
	// children are sequential programs; without this ten of them fight over the cores
	c07Env = []string{"C07_WORLD=" + world, "GOMAXPROCS=2"}
	watchdog := time.Duration(rec.N(300, 1500)) * time.Second

	ch := make(chan job)
	var wg sync.WaitGroup
	for w := 0; w < 12; w++ {
		wg.Add(1)
		go func() {
			defer wg.Done()
			for j := range ch {
				t0 := time.Now()
				c07RunBatch(rec, j.mode, j.stream, j.count, watchdog)
				// evidence only, never an oracle
				rec.Note("batch_wall_s", fmt.Sprintf("%s/%d: %.1f", j.mode, j.stream, time.Since(t0).Seconds()))
			}
		}()
	}
	for _, j := range jobs {
		ch <- j
	}
	close(ch)
	wg.Wait()
}

var c07Env []string

var c07EntryRe = regexp.MustCompile(`qlang\.c07E_(\w+)`)

// c07RunBatch runs one batch in a child and restarts behind every input that killed it.
func c07RunBatch(rec *kit.Rec, mode string, stream, count int, watchdog time.Duration) {
	start := 0
	for restarts := 0; start < count; restarts++ {
		if restarts > 25 {
			rec.Note("batch_abandoned", fmt.Sprintf("%s stream %d: more than 25 crashing inputs, rest of the batch (from %d) not run", mode, stream, start))
			rec.Count("inputs_not_run", int64(count-start))
			return
		}
		res := rec.RunChild("TestVerif_C07", mode, fmt.Sprintf("%d:%d:%d", stream, start, count), c07Env, watchdog)
		if res.TimedOut {
			rec.Count("child_watchdog_fired", 1)
			rec.Note("inconclusive", fmt.Sprintf("%s stream %d: watchdog fired, last case %s", mode, stream, clip(res.LastCase, 300)))
			return
		}
		if !res.Crashed() {
			return
		}
		var lc struct {
			I     int    `json:"i"`
			Class string `json:"class"`
			Stage string `json:"stage"`
			Q     string `json:"q"`
		}
		if json.Unmarshal([]byte(res.LastCase), &lc) != nil || res.LastCase == "" {
			rec.Violation("harness/child died before its first case", res.CrashClass(), map[string]any{"mode": mode, "stream": stream, "tail": clip(res.Tail, 4000)})
			return
		}
		entry := lc.Stage
		if m := c07EntryRe.FindStringSubmatch(res.Tail); m != nil {
			entry = m[1]
		}
		rec.Violation(entry+"/process died/"+res.CrashClass(),
			fmt.Sprintf("child process died (%s) on %s input %s", res.CrashClass(), lc.Class, clip(lc.Q, 300)),
			map[string]any{"mode": mode, "stream": stream, "index": lc.I, "class": lc.Class, "stage": lc.Stage, "input_go_quoted": lc.Q, "tail": clip(res.Tail, 6000)})
		start = lc.I + 1
	}
}

// ---------------------------------------------------------------------------
// child side

type c07World struct {
	dir  string
	corp *kit.Corpus
	dirS zoekt.Streamer
	bare []zoekt.Searcher // [0] simple shard, [1] compound shard of all three repositories
}

func (w *c07World) close() {
	if w.dirS != nil {
		w.dirS.Close()
	}
	for _, s := range w.bare {
		s.Close()
	}
}

func c07Corpus(seed uint64) *kit.Corpus {
	g := kit.NewGen(kit.NewRand(seed, 4242))
	g.MaxLen = 120
	g.SubRepos = true
	c := &kit.Corpus{}
	for i := 0; i < 3; i++ {
		r := g.Repo(i)
		used := map[string]bool{}
		n := 4 + g.R.IntN(5)
		for j := 0; j < n; j++ {
			r.Docs = append(r.Docs, g.Doc(r, used))
		}
		c.Repos = append(c.Repos, r)
	}
	// meta. predicates must match some but not all repositories
	c.Repos[0].Metadata = map[string]string{"k": "ab", "team": "a"}
	c.Repos[1].Metadata = map[string]string{"k": "b"}
	c.Repos[2].Metadata = nil
	return c
}

// buildC07World writes the three simple shards and the compound shard under root.
// The parent does this once; children only open the files.
func buildC07World(root string, seed uint64) error {
	corp := c07Corpus(seed)
	sdir, cdir := filepath.Join(root, "shards"), filepath.Join(root, "compound")
	for _, d := range []string{sdir, cdir} {
		if err := os.MkdirAll(d, 0o755); err != nil {
			return err
		}
	}
	for _, r := range corp.Repos {
		if _, err := ix.BuildSimple(sdir, r); err != nil {
			return err
		}
	}
	_, err := ix.BuildCompound(cdir, corp.Repos)
	return err
}

func openC07World(root string, seed uint64) (*c07World, error) {
	w := &c07World{dir: filepath.Join(root, "shards"), corp: c07Corpus(seed)}
	first, _ := filepath.Glob(filepath.Join(w.dir, "*.zoekt"))
	comp, _ := filepath.Glob(filepath.Join(root, "compound", "*.zoekt"))
	if len(first) != 3 || len(comp) != 1 {
		return nil, fmt.Errorf("world at %s: %d simple and %d compound shards", root, len(first), len(comp))
	}
	for _, p := range []string{first[0], comp[0]} {
		s, err := ix.Open(p)
		if err != nil {
			return nil, err
		}
		w.bare = append(w.bare, s)
	}
	ds, err := search.NewDirectorySearcher(w.dir)
	if err != nil {
		return nil, err
	}
	w.dirS = ds
	return w, nil
}

func c07Child(rec *kit.Rec, mode, arg string) {
	// unbounded allocation must show up as a dead child, not take the box down
	lim := syscall.Rlimit{Cur: 24 << 30, Max: 24 << 30}
	_ = syscall.Setrlimit(syscall.RLIMIT_AS, &lim)
	debug.SetMemoryLimit(6 << 30)

	var stream, start, count int
	if _, err := fmt.Sscanf(arg, "%d:%d:%d", &stream, &start, &count); err != nil {
		rec.Violation("harness/child arg", arg, nil)
		return
	}
	root := os.Getenv("C07_WORLD")
	if root == "" { // stand-alone replay of a child
		root = filepath.Join(rec.Work, "world")
		if err := buildC07World(root, rec.Seed); err != nil {
			rec.Violation("harness/world", err.Error(), nil)
			return
		}
	}
	w, err := openC07World(root, rec.Seed)
	if err != nil {
		rec.Violation("harness/world", err.Error(), nil)
		return
	}
	defer w.close()
	switch mode {
	case "strings":
		c07Strings(rec, w, stream, start, count)
	case "json":
		c07JSON(rec, w, stream, start, count)
	case "deep":
		c07Deep(rec, w, stream)
	}
}

// entry points: each lives in its own function so that a fatal error that recover()
// never sees still names the entry point in the child's stack dump.

func c07E_Parse(s string) (query.Q, error)     { return query.Parse(s) }
func c07E_String(q query.Q) string             { return q.String() }
func c07E_QToProto(q query.Q) (query.Q, error) { return query.QFromProto(query.QToProto(q)) }
func c07E_Simplify(q query.Q) query.Q          { return query.Simplify(q) }
func c07E_SearchDir(w *c07World, q query.Q, o *zoekt.SearchOptions) (*zoekt.SearchResult, error) {
	return w.dirS.Search(context.Background(), q, o)
}
func c07E_ListDir(w *c07World, q query.Q, o *zoekt.ListOptions) (*zoekt.RepoList, error) {
	return w.dirS.List(context.Background(), q, o)
}
func c07E_SearchBare(s zoekt.Searcher, q query.Q, o *zoekt.SearchOptions) (*zoekt.SearchResult, error) {
	return s.Search(context.Background(), q, o)
}
func c07E_ListBare(s zoekt.Searcher, q query.Q, o *zoekt.ListOptions) (*zoekt.RepoList, error) {
	return s.List(context.Background(), q, o)
}

type c07Run struct {
	rec   *kit.Rec
	class string
	input string
	idx   int
}

// sigEntry coarsens an entry point for signatures: the same root cause must not show
// up once per list field and shard kind.
func sigEntry(entry string) string {
	switch {
	case strings.HasPrefix(entry, "Search(bare"):
		return "Search(index)"
	case strings.HasPrefix(entry, "List(bare"):
		return "List(index)"
	case strings.HasPrefix(entry, "List(dir"):
		return "List(dir)"
	}
	return entry
}

func site(stack string) string { return strings.TrimPrefix(kit.PanicSite(stack), "/") }

// call runs one entry point under recover and classifies the outcome.
func (c *c07Run) call(entry string, f func() (crashes int, err error)) {
	var crashes int
	var err error
	msg, stack, p := kit.Guard(func() { crashes, err = f() })
	c.rec.Case(entry+"|"+c.class, true, func() any {
		return map[string]any{"entry": entry, "class": c.class, "input": clip(strconv.QuoteToASCII(c.input), 200)}
	})
	c.rec.Count("calls_"+entry, 1)
	wit := func() map[string]any {
		return map[string]any{"entry": entry, "class": c.class, "index": c.idx, "input_go_quoted": strconv.QuoteToASCII(c.input)}
	}
	switch {
	case p:
		m := wit()
		m["panic"] = msg
		m["stack"] = clip(stack, 5000)
		c.rec.Violation(sigEntry(entry)+"/"+site(stack)+"/"+kit.MsgClass(msg),
			fmt.Sprintf("%s panics with %q on %s input %s", entry, clip(msg, 200), c.class, clip(strconv.QuoteToASCII(c.input), 300)), m)
	case crashes > 0:
		m := wit()
		m["crashes"] = crashes
		c.rec.Violation(sigEntry(entry)+"/recovered shard panic (Crashes>0)",
			fmt.Sprintf("%s reports %d crashed shards (a panic recovered inside the sharded searcher) on %s input %s", entry, crashes, c.class, clip(strconv.QuoteToASCII(c.input), 300)), m)
	case err != nil:
		c.rec.Count("errors_"+entry, 1)
	}
}

func c07Strings(rec *kit.Rec, w *c07World, stream, start, count int) {
	g := newC07Gen(kit.NewRand(rec.Seed, 5000+uint64(stream)), w.corp)
	for i := 0; i < count; i++ {
		class, s := g.nextString(i)
		if i < start {
			continue
		}
		c07OneString(rec, w, class, s, i)
	}
}

// c07OneString parses s and, when it parses, does everything else with the query.
// It returns the number of heap allocations of query.Parse (a wall-clock free measure
// of its work).
func c07OneString(rec *kit.Rec, w *c07World, class, s string, i int) (parseMallocs uint64) {
	quoted := strconv.QuoteToASCII(s)
	if len(quoted) > 2000 {
		quoted = quoted[:1000] + fmt.Sprintf("\" ...(%d bytes in all)... \"", len(s)) + quoted[len(quoted)-600:]
	}
	kit.LogCase(map[string]any{"i": i, "class": class, "stage": "Parse", "q": quoted})
	run := &c07Run{rec: rec, class: class, input: s, idx: i}
	rec.Count("strings", 1)
	rec.Max("max_input_bytes", int64(len(s)))
	var q query.Q
	var perr error
	var m0, m1 runtime.MemStats
	if class == "deep-nesting" {
		runtime.ReadMemStats(&m0)
	}
	run.call("Parse", func() (int, error) {
		q, perr = c07E_Parse(s)
		return 0, perr
	})
	if class == "deep-nesting" {
		runtime.ReadMemStats(&m1)
		parseMallocs = m1.Mallocs - m0.Mallocs
	}
	if perr != nil || q == nil {
		return
	}
	rec.Count("parsed", 1)
	c07Use(run, w, q, i)
	return
}

// c07Deep: nesting depth up to 5000 in one syntactic form (stream%100) per child.
//
// Wall-clock is not an oracle, so the work of query.Parse is measured in heap
// allocations on a ladder of small depths first: a form whose allocation count grows
// geometrically with the depth (x16 from depth 5 to depth 7 on the unchanged tree)
// never returns for depth 50; it is reported from the ladder and the big depths are
// skipped for it instead of waiting for a watchdog.
func c07Deep(rec *kit.Rec, w *c07World, stream int) {
	f := stream % 100
	g := newC07Gen(kit.NewRand(rec.Seed, 7000+uint64(stream)), w.corp)
	t := g.term()
	form := c07DeepForms[f]
	idx := 0
	// ladder of small depths; stop at the first depth whose parse needs >= 3x the
	// allocations of the depth before (polynomial growth gives at most (d/(d-1))^2 <= 2.25
	// from depth 3 on).
	var ladder []uint64
	for n := 1; n <= 9; n++ {
		m := c07OneString(rec, w, "deep-nesting", form.gen(n, t), idx)
		idx++
		ladder = append(ladder, m)
		rec.Max("max_parse_mallocs_on_ladder", int64(m))
		if n >= 3 && m > 20000 && m >= 3*ladder[n-2] {
			rec.Count("deep_forms_with_exploding_parse", 1)
			rec.Violation("Parse/work grows geometrically with nesting depth/"+form.name,
				fmt.Sprintf("query.Parse(%q): heap allocations per call at nesting depth 1..%d = %v (x%.1f for the last level): the call does not return for depth 50, so neither a query nor an error is produced", form.gen(n, t), n, ladder, float64(m)/float64(ladder[n-2])),
				map[string]any{"form": form.name, "input": form.gen(n, t), "input_depth50_never_returns": form.gen(50, t), "parse_mallocs_by_depth_from_1": ladder})
			return
		}
	}
	depths := []int{50, 500, 2000}
	if !rec.Quick() {
		depths = append(depths, 5000)
	}
	for _, n := range depths {
		c07OneString(rec, w, "deep-nesting", form.gen(n, t), idx)
		rec.Max("max_nesting_depth_run", int64(n))
		idx++
	}
}

// c07Use: everything the statement says can be done with a parsed query.
func c07Use(run *c07Run, w *c07World, q query.Q, i int) {
	run.call("String", func() (int, error) { c07E_String(q); return 0, nil })
	run.call("QToProto", func() (int, error) { _, err := c07E_QToProto(q); return 0, err })
	run.call("Simplify", func() (int, error) { c07E_Simplify(q); return 0, nil })
	so := &zoekt.SearchOptions{}
	if i%2 == 1 {
		so = &zoekt.SearchOptions{ChunkMatches: true, NumContextLines: 1, Whole: i%4 == 1, DebugScore: i%8 == 1}
	}
	fields := []zoekt.RepoListField{zoekt.RepoListFieldRepos, zoekt.RepoListFieldReposMap}
	run.call("Search(dir)", func() (int, error) {
		sr, err := c07E_SearchDir(w, q, so)
		if sr != nil {
			return sr.Stats.Crashes, err
		}
		return 0, err
	})
	for _, f := range fields {
		run.call(fmt.Sprintf("List(dir,field=%d)", f), func() (int, error) {
			rl, err := c07E_ListDir(w, q, &zoekt.ListOptions{Field: f})
			if rl != nil {
				return rl.Crashes, err
			}
			return 0, err
		})
	}
	for bi, name := range []string{"bare", "bare-compound"} {
		s := w.bare[bi]
		run.call("Search("+name+")", func() (int, error) {
			sr, err := c07E_SearchBare(s, q, so)
			if sr != nil {
				return sr.Stats.Crashes, err
			}
			return 0, err
		})
		for _, f := range fields {
			run.call(fmt.Sprintf("List(%s,field=%d)", name, f), func() (int, error) {
				rl, err := c07E_ListBare(s, q, &zoekt.ListOptions{Field: f})
				if rl != nil {
					return rl.Crashes, err
				}
				return 0, err
			})
		}
	}
}

// ---------------------------------------------------------------------------
// JSON API

type panicCatcher struct {
	inner http.Handler
	mu    sync.Mutex
	msg   string
	stack string
}

func (h *panicCatcher) ServeHTTP(w http.ResponseWriter, r *http.Request) {
	defer func() {
		if e := recover(); e != nil {
			h.mu.Lock()
			h.msg, h.stack = fmt.Sprint(e), string(debug.Stack())
			h.mu.Unlock()
			// what net/http would do with the panic: abort the response
			panic(http.ErrAbortHandler)
		}
	}()
	h.inner.ServeHTTP(w, r)
}

func (h *panicCatcher) take() (string, string) {
	h.mu.Lock()
	defer h.mu.Unlock()
	m, s := h.msg, h.stack
	h.msg, h.stack = "", ""
	return m, s
}

func c07JSON(rec *kit.Rec, w *c07World, stream, start, count int) {
	g := newC07Gen(kit.NewRand(rec.Seed, 9000+uint64(stream)), w.corp)
	h := &panicCatcher{inner: zjson.JSONServer(w.dirS)}
	srv := httptest.NewServer(h)
	defer srv.Close()
	client := srv.Client()
	client.Timeout = 120 * time.Second
	for i := 0; i < count; i++ {
		class, method, path, body := g.nextJSON(i)
		if i < start {
			continue
		}
		entry := "JSON " + strings.SplitN(strings.TrimPrefix(path, "/"), "?", 2)[0]
		entry = strings.TrimSuffix(entry, "/")
		quoted := strconv.QuoteToASCII(string(body))
		kit.LogCase(map[string]any{"i": i, "class": class, "stage": entry, "q": method + " " + path + " " + quoted})
		rec.Count("requests", 1)
		rec.Max("max_body_bytes", int64(len(body)))
		rec.Case(entry+"|"+class, true, func() any {
			return map[string]any{"entry": entry, "class": class, "method": method, "path": path, "body": clip(quoted, 200)}
		})
		req, err := http.NewRequest(method, srv.URL+path, bytes.NewReader(body))
		if err != nil {
			rec.Count("requests_unbuildable", 1)
			continue
		}
		req.Header.Set("Content-Type", "application/json")
		resp, err := client.Do(req)
		var rbody []byte
		status := 0
		if err == nil {
			status = resp.StatusCode
			rbody, _ = io.ReadAll(io.LimitReader(resp.Body, 32<<20))
			resp.Body.Close()
		}
		msg, stack := h.take()
		wit := map[string]any{"entry": entry, "class": class, "index": i, "method": method, "path": path, "body_go_quoted": quoted}
		switch {
		case msg != "":
			wit["panic"], wit["stack"] = msg, clip(stack, 5000)
			rec.Violation(entry+"/"+site(stack)+"/"+kit.MsgClass(msg),
				fmt.Sprintf("handler of %s %s panics with %q on %s body %s", method, path, clip(msg, 200), class, clip(quoted, 300)), wit)
			continue
		case err != nil:
			if ue, ok := err.(interface{ Timeout() bool }); ok && ue.Timeout() {
				rec.Count("request_timeouts", 1)
				continue
			}
			wit["client_error"] = err.Error()
			rec.Violation(entry+"/no response", fmt.Sprintf("%s %s got no HTTP response (%v) on %s body %s", method, path, err, class, clip(quoted, 300)), wit)
			continue
		}
		rec.Count(fmt.Sprintf("status_%d", status), 1)
		var reply struct {
			Result *struct{ Crashes int }
			List   *struct{ Crashes int }
		}
		if json.Unmarshal(rbody, &reply) == nil {
			n := 0
			if reply.Result != nil {
				n += reply.Result.Crashes
			}
			if reply.List != nil {
				n += reply.List.Crashes
			}
			if n > 0 {
				wit["crashes"] = n
				rec.Violation(entry+"/recovered shard panic (Crashes>0)",
					fmt.Sprintf("%s %s answers with Crashes=%d on %s body %s", method, path, n, class, clip(quoted, 300)), wit)
			}
		}
	}
}

// ---------------------------------------------------------------------------
// input generators

type c07Gen struct {
	r  *rand.Rand
	sg *sgen
}

func newC07Gen(r *rand.Rand, c *kit.Corpus) *c07Gen {
	return &c07Gen{r: r, sg: newSGen(r, []*kit.Corpus{c}, true)}
}

func (g *c07Gen) pick(l ...string) string { return l[g.r.IntN(len(l))] }

const c07Special = `()"\-: .*[]|?+{}^$` + "\t\n"

func (g *c07Gen) oddByte() byte {
	switch g.r.IntN(4) {
	case 0:
		return byte(g.r.IntN(256))
	case 1:
		return "abcxAor"[g.r.IntN(7)]
	default:
		return c07Special[g.r.IntN(len(c07Special))]
	}
}

var c07Prefixes = []string{"archived:", "b:", "branch:", "c:", "case:", "content:", "f:", "file:", "fork:", "public:", "r:", "regex:", "repo:", "lang:", "sym:", "t:", "type:", "meta.", "meta.k:", "meta.team:", "foo:", "FILE:", "-", ""}

var c07OddValues = []string{"", `""`, `"`, `\`, `\\`, "(", ")", "()", "(a", "a)", "*", "+", "?", "[", "[a", "a{2,1}", "a{1001}", "(?", "(?i)", "(?P<n>a)", `\p{Greek}`, `\pN`, `\Q.\E`, "a|b", "(a|b)", "(a b)", "( a b )", "yes", "no", "auto", "repo", "file", "filename", "filematch", "HEAD", "-", "-a", "or", ":", "x:y", "a:", "é", "\xff", "\x00", " ", `a\ b`, `"a b"`, `"a\"b"`, ".*", ".", "^", "$", "^$", `\b`, "a**", "(?i:A)", "[[:alpha:]]", "[^\\n]", `\z`, `\A`, "ab", "abc", "Abc",
	// regexp corners: classes that match no rune, empty alternatives and groups, zero repeats, class edge cases
	`[^\d\D]`, `[^\s\S]`, `[^\w\W]`, `[^\x00-\x{10FFFF}]`, `a[^\d\D]b`, `(abc|[^\d\D])x`, `[^\pL\PL]`, `(|a)`, `(a|)`, `()`, `(?:)`, `a{0}`, `a{0,0}`, `(a{0}b)`, `[\x{10FFFF}]`, `[^\x{10FFFF}]`, `[z-a]`, `[a-\d]`, `[[:^alpha:]]`, `[[:word:]]`, `[\]]`, `[^\]]`, `[-a]`, `[a-]`, `[\-]`, `(?s:.)`, `(?U)a+`, `(?m:^a$)`, `(?i)[k]`, `\pZ`, `\PZ`, `\p{^Greek}`, `\C`, `\x{110000}`, `\8`, `(?P<>a)`, `(?<n>a)`, `x*?`, `x+?`, `x??`, `x{2,}?`, `\Qa.b`, `\E`, `[\Q]\E]`, "(?i:\u212a)", `a|`, `|`, `||`, `^*`, `$+`, `\b+`}

var c07Kinds = []string{"filematch", "filename", "file", "repo", "REPO", "", "x", `"repo"`}

func (g *c07Gen) term() string {
	return g.pick("a", "abc", "ab", "Abc", "é", "a.b", `"b a"`, "f:a", "c:ab", "r:repo", "b:main", "lang:go", "sym:a", "x1", ".*", "[ab]c")
}

func (g *c07Gen) nextString(i int) (class, s string) {
	switch k := i % 14; k {
	case 0:
		n := g.r.IntN(40)
		b := make([]byte, n)
		for j := range b {
			b[j] = g.oddByte()
		}
		return "random-bytes", string(b)
	case 1:
		s := g.sg.Query()
		bad := []string{"\xff", "\xc0", "\x80", "\xe2\x82", "\xed\xa0\x80", "\xf4\x90\x80\x80", "\xc3", "\xfe\xff"}
		for n := 1 + g.r.IntN(3); n > 0; n-- {
			p := g.r.IntN(len(s) + 1)
			s = s[:p] + g.pick(bad...) + s[p:]
		}
		return "invalid-utf8", s
	case 2, 3:
		return "grammar", g.sg.Query()
	case 4, 5, 6:
		s := g.sg.Query()
		for n := 1 + g.r.IntN(3); n > 0; n-- {
			s = g.mutate(s, k)
		}
		return []string{"mutated-insert", "mutated-delete", "mutated-duplicate"}[k-4], s
	case 7:
		return "unbalanced", g.unbalanced()
	case 8:
		return "dangling-operator", g.dangling()
	case 9:
		p := g.pick(c07Prefixes...)
		v := g.pick(c07OddValues...)
		s := p + v
		switch g.r.IntN(6) {
		case 0:
			s = "-" + s
		case 1:
			s = s + " " + g.term()
		case 2:
			s = g.term() + " or " + s
		case 3:
			s = "( " + s + " )"
		}
		return "field-odd-value", s
	case 10:
		return "type-kinds", g.typeForm()
	case 11:
		return "meta-forms", g.metaForm()
	case 12:
		return "sym-forms", g.symForm()
	default:
		return "case-forms", g.caseForm()
	}
}

func (g *c07Gen) mutate(s string, k int) string {
	switch k {
	case 4:
		p := g.r.IntN(len(s) + 1)
		return s[:p] + string([]byte{g.oddByte()}) + s[p:]
	case 5:
		if len(s) == 0 {
			return s
		}
		p := g.r.IntN(len(s))
		n := 1 + g.r.IntN(min(3, len(s)-p))
		return s[:p] + s[p+n:]
	default:
		if len(s) == 0 {
			return s
		}
		p := g.r.IntN(len(s))
		n := 1 + g.r.IntN(min(8, len(s)-p))
		return s[:p+n] + s[p:]
	}
}

func (g *c07Gen) unbalanced() string {
	s := g.sg.Query()
	switch g.r.IntN(7) {
	case 0, 1: // drop one parenthesis or quote
		var idx []int
		for i := 0; i < len(s); i++ {
			if s[i] == '(' || s[i] == ')' || s[i] == '"' {
				idx = append(idx, i)
			}
		}
		if len(idx) > 0 {
			p := idx[g.r.IntN(len(idx))]
			return s[:p] + s[p+1:]
		}
		return "(" + s
	case 2:
		p := g.r.IntN(len(s) + 1)
		return s[:p] + g.pick("(", ")", `"`, "( ", " )", `\"`, "((", "))") + s[p:]
	case 3:
		return strings.Repeat("(", 1+g.r.IntN(6)) + s
	case 4:
		return s + strings.Repeat(")", 1+g.r.IntN(6))
	case 5:
		return `"` + s
	default:
		return g.pick("(", ")", "((", "()", ")(", "( )", `"`, `""`, `"""`, `("`, `")`, `(")`, `"(`, "(()", "())", `( " )`, `a"`, `a"b`, `"a`, `f:"`, `(f:"a)`, `-(`, `-")`, `\(`, `(\)`)
	}
}

func (g *c07Gen) dangling() string {
	fixed := []string{"or", "or or", "a or", "or a", "a or or b", " or ", "-", "a -", "- a", "--a", "---", "-(", "-)", "( or )", "(or)", "a or )", "( a or )", "( or a )", "-or", "or-", "a or -", `-""`, `\`, `a\`, `"\`, `"a\"`, "a or(b c)", "(a b)or c", "-( )", "-()", "- -a", "a -or b", "or:a", "-case:yes", "-type:repo", "or case:yes", "type:repo or", "a or type:file", "-(-(-a))", "-(a or)", "", " ", "  ", "\t", "\n", "a\nb", "a\tor\tb"}
	if g.r.IntN(3) > 0 {
		return g.pick(fixed...)
	}
	s := g.sg.Query()
	switch g.r.IntN(5) {
	case 0:
		return s + " or"
	case 1:
		return "or " + s
	case 2:
		return s + " -"
	case 3:
		return "-" + s + " or or " + s
	default:
		return strings.ReplaceAll(s, " ", " or ")
	}
}

func (g *c07Gen) typeForm() string {
	k := g.pick(c07Kinds...)
	p := g.pick("type:", "t:")
	t := g.term()
	switch g.r.IntN(16) {
	case 0:
		return p + k
	case 1:
		return p + k + " " + t
	case 2:
		return t + " " + p + k
	case 3:
		return "-" + p + k
	case 4:
		return "-" + p + k + " " + t
	case 5:
		return t + " -" + p + k
	case 6:
		return p + k + " " + g.pick("type:", "t:") + g.pick(c07Kinds...) + " " + t
	case 7:
		return "( " + p + k + " )"
	case 8:
		return "( " + p + k + " ) " + t
	case 9:
		return t + " or " + p + k
	case 10:
		return p + k + " or " + t
	case 11:
		return p + k + " ( " + g.pick("type:", "t:") + g.pick(c07Kinds...) + " " + t + " )"
	case 12:
		return "-( " + p + k + " " + t + " )"
	case 13:
		return p + k + " -( " + p + k + " )"
	case 14:
		return "sym:" + p + k
	default:
		return p + k + " " + g.pick(c07Prefixes...) + g.pick(c07OddValues...)
	}
}

func (g *c07Gen) metaForm() string {
	forms := []string{"meta.", "meta.:", "meta.k", "meta.k:", "meta.:x", "meta.k:a", "meta.k:ab", "meta.k:^ab$", "meta.k:b|c", "meta.team:a", "meta.nokey:a", "meta.k:(", "meta.k:[", "meta.k:*", `meta.k:\`, "meta.a.b:c", "meta.k:a:b", "meta.k::", "meta..:a", "meta.k: a", `meta.k:"a b"`, `meta."k":a`, `"meta.k:a"`, "meta.k:.*", "meta.k:", "meta.é:é", "meta.k:\xff", "meta.K:AB", "meta.k:(?i)AB", "-meta.k:a", "-meta.", "meta.k:a meta.team:a", "meta.k:a or meta.k:b", "( meta.k:a )", "(meta.k:a)", "meta.k:a abc", "type:repo meta.k:a", "type:file meta.k:b", "case:yes meta.k:AB", "sym:meta.k:a", "meta.k:a -meta.k:ab", "-( meta.k:a or meta.team:b )", "meta.k:^$", "meta.x:", `meta.k:""`}
	s := g.pick(forms...)
	if g.r.IntN(4) == 0 {
		s += " " + g.term()
	}
	return s
}

func (g *c07Gen) symForm() string {
	forms := []string{"sym:", `sym:""`, "sym:a", "sym:a|b", "sym:(a|b)", "sym:(a|b)c", `sym:"a b"`, `sym:"a|b c"`, "sym:(foo or bar)", "sym:( foo bar )", "sym:(a b)", "sym:( a or b )", "sym:.*", "sym:.", "sym:a*", "sym:a?", "sym:()", "sym:(?:)", "sym:^", "sym:$", "sym:^$", `sym:\bfoo\b`, `sym:\ba`, "sym:(?i)x", "sym:(?i:AB)", "sym:[ab]", "sym:ab|", "sym:|", "sym:a||b", "-sym:a", "-sym:a|b", "sym:a sym:b", "sym:a or sym:b", "( sym:a or b )", "sym:sym:a", "sym:f:a", "sym:c:a", "sym:case:yes", "sym:type:repo", "sym:-a", `sym:\`, "sym:(", "sym:[", "case:yes sym:Ab", "case:no sym:AB", "type:repo sym:a", "type:file sym:a|b", "sym:é", "sym:\xff", "sym:aé|b", "sym:ab|abc|a", "sym:(a|b)|(c|x)", "sym:a.b", "sym:a.*b", "sym:x1|1x"}
	s := g.pick(forms...)
	switch g.r.IntN(6) {
	case 0:
		s += " " + g.term()
	case 1:
		s = g.term() + " or " + s
	case 2:
		lit := g.sg.lit("sym")
		s = "sym:" + escLit(lit) + "|" + escLit(g.sg.lit("sym"))
	case 3:
		s = "sym:" + g.sg.text("sym")
	}
	return s
}

func (g *c07Gen) caseForm() string {
	forms := []string{"case:", "case:yes", "case:no", "case:auto", "case:maybe", `case:"yes"`, "case:YES", "-case:yes", "-case:yes a", "a -case:no", "case:yes a", "a case:yes", "case:yes case:no a", "( case:yes )", "(case:yes)", "( case:yes ) a", "a or case:auto", "case:auto or a", "case:yes ( case:no Ab )", "-( case:yes Ab )", "case:yes -( case:no ( case:auto AB ) )", "case:yes type:repo a", "type:repo case:no A or b", "sym:case:yes", "case:yes sym:Ab|cD", "case:no f:AB c:ab r:AB b:MAIN lang:GO", "case:yes É", "case:auto é", "case:no (?i:a)B", "case:yes \"a B\"", "case:yes or", "case:yes or or", "case:yes -", "case:\xff"}
	s := g.pick(forms...)
	if g.r.IntN(4) == 0 {
		s += " " + g.term()
	}
	return s
}

// c07DeepForms: nesting of depth n in the syntactic positions of the grammar.
var c07DeepForms = []struct {
	name string
	gen  func(n int, t string) string
}{
	{"spaced groups", func(n int, t string) string { return strings.Repeat("( ", n) + t + " b" + strings.Repeat(" )", n) }},
	{"compact groups", func(n int, t string) string { return strings.Repeat("(", n) + t + " b" + strings.Repeat(")", n) }},
	{"regexp parentheses", func(n int, t string) string { return strings.Repeat("(", n) + "a" + strings.Repeat(")", n) }},
	{"negations", func(n int, t string) string { return strings.Repeat("-", n) + t }},
	{"negated groups", func(n int, t string) string { return strings.Repeat("-( ", n) + t + " b" + strings.Repeat(" )", n) }},
	{"right-nested or", func(n int, t string) string {
		return strings.Repeat("a or ( ", n) + t + " b" + strings.Repeat(" )", n)
	}},
	{"left-nested and", func(n int, t string) string { return strings.Repeat("( ", n) + t + strings.Repeat(" b ) c", n) }},
	{"nested type:repo", func(n int, t string) string { return strings.Repeat("( type:repo ", n) + t + strings.Repeat(" )", n) }},
	{"nested case:", func(n int, t string) string { return strings.Repeat("( case:yes ", n) + t + strings.Repeat(" )", n) }},
	{"unclosed groups", func(n int, t string) string { return strings.Repeat("( ", n) + t }},
	{"sym: regexp parentheses", func(n int, t string) string {
		return "sym:" + strings.Repeat("(", n) + "a|b" + strings.Repeat(")", n)
	}},
	{"flat chains", func(n int, t string) string { return strings.Repeat(t+" or ", n) + t + strings.Repeat(" -"+t, n) }},
	{"quotes", func(n int, t string) string { return strings.Repeat(`"a\"`, n) + strings.Repeat(` "`, n) }},
}

// ---- JSON bodies

var c07OddInts = []string{"0", "1", "-1", "2", "7", "100", "-100", "65536", "2147483647", "2147483648", "-2147483649", "4294967295", "4294967296", "9223372036854775807", "-9223372036854775808", "9223372036854775808", "18446744073709551616", "1e3", "1e18", "1e19", "1e400", "-1e400", "1.5", "0.0", "-0", "1E2", "00", "0x10", "NaN", "Infinity"}

var c07SearchOptInt = []string{"ShardMaxMatchCount", "TotalMaxMatchCount", "ShardRepoMaxMatchCount", "MaxWallTime", "FlushWallTime", "MaxDocDisplayCount", "MaxMatchDisplayCount", "NumContextLines"}
var c07SearchOptBool = []string{"EstimateDocCount", "Whole", "ChunkMatches", "UseBM25Scoring", "Trace", "DebugScore"}

func jstr(s string) string {
	b, _ := json.Marshal(s)
	return string(b)
}

func (g *c07Gen) validInt() string {
	return g.pick("0", "1", "-1", "2", "3", "10", "100", "-100", "1000000", "2147483647", "4611686018427387904", "9223372036854775807", "-9223372036854775808")
}

func (g *c07Gen) queryString() string {
	switch g.r.IntN(6) {
	case 0:
		return g.term()
	case 1:
		_, s := g.nextString(g.r.IntN(1000))
		if len(s) > 4000 {
			s = s[:4000]
		}
		return s
	case 2:
		return g.pick("", "type:repo a", "type:filematch a", "r:repo", "f:a c:b", "sym:a", "meta.k:a", "-a", "a or b", "lang:go", "b:HEAD", "case:yes A", "archived:no", ".*", "type:file .")
	default:
		return g.sg.Query()
	}
}

func (g *c07Gen) optsObject(list bool, wrong bool) string {
	var kv []string
	if list {
		v := g.pick("0", "2", "1", "3", "-1", "0", "2")
		if wrong {
			v = g.anyJSON(1)
		}
		kv = append(kv, `"Field":`+v)
		if g.r.IntN(4) == 0 {
			kv = append(kv, `"Minimal":true`)
		}
		return "{" + strings.Join(kv, ",") + "}"
	}
	for _, k := range c07SearchOptInt {
		if g.r.IntN(3) == 0 {
			v := g.validInt()
			if wrong && g.r.IntN(2) == 0 {
				v = g.pick(c07OddInts...)
				if g.r.IntN(3) == 0 {
					v = g.anyJSON(1)
				}
			}
			kv = append(kv, jstr(k)+":"+v)
		}
	}
	for _, k := range c07SearchOptBool {
		if g.r.IntN(3) == 0 {
			v := g.pick("true", "false", "true")
			if wrong && g.r.IntN(3) == 0 {
				v = g.anyJSON(1)
			}
			kv = append(kv, jstr(k)+":"+v)
		}
	}
	if g.r.IntN(5) == 0 {
		v := `{"a":"b","uber-trace-id":"1:2:3:4"}`
		if wrong {
			v = g.anyJSON(2)
		}
		kv = append(kv, `"SpanContext":`+v)
	}
	g.r.Shuffle(len(kv), func(i, j int) { kv[i], kv[j] = kv[j], kv[i] })
	return "{" + strings.Join(kv, ",") + "}"
}

func (g *c07Gen) repoIDs(wrong bool) string {
	if wrong {
		return g.pick(`"1"`, `{}`, `[ "1" ]`, `[-1]`, `[1.5]`, `[[1]]`, `[null]`, `[4294967296]`, `[1e400]`, `[true]`, `1`, `null`, `[]`, `[101,101,101]`, `[0]`)
	}
	var ids []string
	for n := g.r.IntN(4); n > 0; n-- {
		ids = append(ids, g.pick("101", "102", "103", "0", "9999", "4294967295"))
	}
	return "[" + strings.Join(ids, ",") + "]"
}

// anyJSON writes a random JSON value.
func (g *c07Gen) anyJSON(depth int) string {
	k := g.r.IntN(9)
	if depth <= 0 && k >= 7 {
		k = g.r.IntN(7)
	}
	switch k {
	case 0:
		return "null"
	case 1:
		return g.pick("true", "false")
	case 2:
		return g.pick(c07OddInts[:len(c07OddInts)-5]...)
	case 3:
		return jstr(g.queryString())
	case 4:
		return g.pick(`""`, `"a"`, `"\u0000"`, `"\ud800"`, `"\xff"`, `"é"`, `"yes"`)
	case 5:
		return g.validInt()
	case 6:
		return g.pick("[]", "{}", "[[]]", `{"":null}`)
	case 7:
		var l []string
		for n := g.r.IntN(4); n > 0; n-- {
			l = append(l, g.anyJSON(depth-1))
		}
		return "[" + strings.Join(l, ",") + "]"
	default:
		var l []string
		for n := g.r.IntN(4); n > 0; n-- {
			l = append(l, jstr(g.pick("Q", "Opts", "RepoIDs", "Field", "q", "opts", "x", "NumContextLines", "Whole", ""))+":"+g.anyJSON(depth-1))
		}
		return "{" + strings.Join(l, ",") + "}"
	}
}

func (g *c07Gen) wellFormed(list, wrong bool) string {
	var kv []string
	names := []string{"Q", "Opts", "RepoIDs"}
	if g.r.IntN(8) == 0 {
		names = []string{"q", "opts", "repoids"}
	}
	if g.r.IntN(10) > 0 {
		v := jstr(g.queryString())
		if wrong && g.r.IntN(3) == 0 {
			v = g.anyJSON(2)
		}
		kv = append(kv, jstr(names[0])+":"+v)
	}
	if g.r.IntN(3) > 0 {
		v := g.optsObject(list, wrong)
		if wrong && g.r.IntN(4) == 0 {
			v = g.anyJSON(2)
		}
		kv = append(kv, jstr(names[1])+":"+v)
	}
	if g.r.IntN(3) == 0 {
		kv = append(kv, jstr(names[2])+":"+g.repoIDs(wrong && g.r.IntN(2) == 0))
	}
	if g.r.IntN(12) == 0 {
		kv = append(kv, jstr(g.pick("Extra", "Q", "Opts"))+":"+g.anyJSON(1))
	}
	g.r.Shuffle(len(kv), func(i, j int) { kv[i], kv[j] = kv[j], kv[i] })
	return "{" + strings.Join(kv, ",") + "}"
}

func (g *c07Gen) nextJSON(i int) (class, method, path string, body []byte) {
	list := g.r.IntN(5) < 2
	path = "/search"
	if list {
		path = "/list"
	}
	method = "POST"
	switch g.r.IntN(40) {
	case 0:
		method = g.pick("GET", "PUT", "DELETE", "HEAD", "OPTIONS", "PATCH")
	case 1:
		path += g.pick("/", "?q=a", "/x", "?")
	case 2:
		path = g.pick("/", "/nosuch", "/search/list", "/List", "/SEARCH")
	}
	var b string
	switch k := i % 12; k {
	case 0, 1, 2:
		class, b = "well-formed", g.wellFormed(list, false)
	case 3, 4:
		class, b = "wrong-types", g.wellFormed(list, true)
	case 5:
		class = "huge-numbers"
		key := g.pick(c07SearchOptInt...)
		if list {
			key = "Field"
		}
		b = fmt.Sprintf(`{"Q":%s,"Opts":{%s:%s},"RepoIDs":[%s]}`, jstr(g.queryString()), jstr(key), g.pick(c07OddInts...), g.pick(c07OddInts...))
	case 6:
		class = "nulls"
		b = g.pick(`null`, `{"Q":null}`, `{"Q":"a","Opts":null}`, `{"Q":"a","RepoIDs":null}`, `{"Q":null,"Opts":null,"RepoIDs":null}`, `{"Q":"a","Opts":{"SpanContext":null}}`, `{"Q":"a","Opts":{"NumContextLines":null,"Whole":null}}`, `{"Q":"a","RepoIDs":[null]}`, `{"Q":"a","Opts":{"Field":null}}`, `{"Opts":{}}`, `{"RepoIDs":[101]}`, `{"Q":"","Opts":null}`, `{"Q":"type:repo a","Opts":null}`)
	case 7:
		class = "truncated"
		b = g.wellFormed(list, false)
		if len(b) > 0 {
			b = b[:g.r.IntN(len(b))]
		}
	case 8:
		class, b = "random-json", g.anyJSON(4)
	case 9:
		class = "random-bytes"
		n := g.r.IntN(60)
		bb := make([]byte, n)
		for j := range bb {
			if g.r.IntN(2) == 0 {
				const jsonish = `{}[]":,0123456789.eE-+ \tnulltruefalseQOptsRepoIDs`
				bb[j] = jsonish[g.r.IntN(len(jsonish))]
			} else {
				bb[j] = byte(g.r.IntN(256))
			}
		}
		b = string(bb)
	case 10:
		class = "deep-or-large"
		n := []int{10, 1000, 9999, 10001, 100000}[g.r.IntN(5)]
		switch g.r.IntN(5) {
		case 0:
			b = strings.Repeat("[", n) + strings.Repeat("]", n)
		case 1:
			b = `{"Q":"a","Opts":` + strings.Repeat(`{"SpanContext":`, n) + "null" + strings.Repeat("}", n) + "}"
		case 2:
			// (nested groups are left to the "deep" children: see c07Deep)
			b = `{"Q":` + jstr(strings.Repeat("-", min(n/4, 1500))+"a b"+strings.Repeat(" )", n/4)) + "}"
		case 3:
			ids := make([]string, n)
			for j := range ids {
				ids[j] = strconv.Itoa(100 + j%5)
			}
			b = `{"Q":"a","RepoIDs":[` + strings.Join(ids, ",") + "]}"
		default:
			b = `{"Q":` + jstr(strings.Repeat("a or ", min(n, 2000))+"b") + "}"
		}
	default:
		class = "edge-documents"
		b = g.pick("", " ", "{}", "[]", `""`, "0", "{", "}", `{"Q"`, `{"Q":`, `{"Q":"a"`, `{"Q":"a"}{"Q":"b"}`, `{"Q":"a"} x`, `{"Q":"a","Q":"b"}`, `{"q":"a","Q":"type:filematch b"}`, "\xef\xbb\xbf"+`{"Q":"a"}`, `{"Q":"a\u0000b"}`, `{"Q":"\ud800"}`, `{"Q":"a","Opts":{"Whole":true,"Whole":false}}`, `{"Q":"a","Opts":{"MaxWallTime":1}}`, `{"Q":"a","Opts":{"MaxWallTime":-1}}`, `{"Q":"a","Opts":{"FlushWallTime":-1,"MaxWallTime":1000000000}}`, `{"Q":"a","Opts":{"EstimateDocCount":true}}`, `{"Q":"a","Opts":{"MaxDocDisplayCount":-1}}`, `{"Q":"a","Opts":{"MaxDocDisplayCount":92233720368547758}}`, `{"Q":"a","Opts":{"MaxDocDisplayCount":1,"MaxMatchDisplayCount":-5,"ChunkMatches":true}}`, `{"Q":"a","Opts":{"NumContextLines":-1}}`, `{"Q":"a","Opts":{"NumContextLines":-1,"ChunkMatches":true}}`, `{"Q":"a","Opts":{"NumContextLines":4611686018427387904,"ChunkMatches":true}}`, `{"Q":"a","Opts":{"NumContextLines":4611686018427387904}}`, `{"Q":"a","Opts":{"ShardMaxMatchCount":-1,"TotalMaxMatchCount":-1,"ShardRepoMaxMatchCount":-1}}`)
	}
	return class, method, path, []byte(b)
}
