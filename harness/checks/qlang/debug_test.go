package qlang

import (
	"fmt"
	"os"
	"runtime"
	"testing"
	"time"

	kit "github.com/sourcegraph/zoekt/internal/verifkit"
	"github.com/sourcegraph/zoekt/query"
)

// TestQL_Debug is a replay helper for humans: QL_DEBUG='<query string>' shows both
// readings of one string and how it shrinks on the corpora of pool QL_POOL (default 1).
func TestQL_Debug(t *testing.T) {
	s := os.Getenv("QL_DEBUG")
	if s == "" {
		t.Skip("QL_DEBUG not set")
	}
	if os.Getenv("QL_PARSE_ONLY") != "" {
		var m0, m1 runtime.MemStats
		runtime.ReadMemStats(&m0)
		t0 := time.Now()
		zq, zerr := query.Parse(s)
		d := time.Since(t0)
		runtime.ReadMemStats(&m1)
		fmt.Printf("mallocs=%d ", m1.Mallocs-m0.Mallocs)
		str := ""
		if zq != nil {
			str = zq.String()
		}
		fmt.Printf("query.Parse took %v err=%v len(String)=%d\n", d, zerr, len(str))
		return
	}
	g, derr := docParse(s)
	fmt.Printf("string: %q\n", s)
	if derr != nil {
		fmt.Printf("documentation reading: %v\n", derr)
	} else {
		fmt.Printf("documentation reading: %s\nskeleton: %s\nclass: %s\n", g, g.skeleton(), classify(g, nil))
	}
	zq, zerr := query.Parse(s)
	fmt.Printf("query.Parse: %v err=%v\n", zq, zerr)
	var seed uint64 = 1
	fmt.Sscan(os.Getenv("QL_POOL"), &seed)
	for k := uint64(0); k < 20; k++ {
		pool := newC06Pool(kit.NewRand(seed, k))
		res := c06Compare(s, pool, []int{0, 1, 2})
		fmt.Printf("pool %d: %s %s\n", k, res.status, res.detail)
		if res.status == "disagree" {
			fmt.Printf("  doc %q content %q zoekt=%v documentation=%v\n", res.d.Name, res.d.Text(), res.zSel, res.mSel)
			small := shrinkString(s, func(c string) bool {
				r := c06Compare(c, pool, []int{res.ci}).status == res.status
				if r {
					fmt.Printf("  shrink -> %q\n", c)
				}
				return r
			})
			sr := c06Compare(small, pool, []int{res.ci})
			fmt.Printf("  minimal %q class %q\n", small, classify(sr.g, sr.zq))
			break
		}
	}
}
