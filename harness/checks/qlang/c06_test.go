package qlang

import (
	"fmt"
	"math/rand/v2"
	"sort"
	"strings"
	"sync"
	"testing"
	"unicode"

	kit "github.com/sourcegraph/zoekt/internal/verifkit"
	"github.com/sourcegraph/zoekt/internal/verifkit/ix"
	"github.com/sourcegraph/zoekt/query"
)

// C06: query strings mean what doc/query_syntax.md says.
//
// For every generated string with ONE documented reading: the documents selected by
// kit.Evaluator.Match(query.Parse(s)) must be the documents selected by the
// documentation interpreter (docinterp_test.go), on 3 random corpora.
func TestVerif_C06(t *testing.T) {
	rec := kit.Open("C06")
	defer rec.Done()
	const workers = 8
	per := rec.N(5000, 320000) / workers
	var wg sync.WaitGroup
	for w := 0; w < workers; w++ {
		wg.Add(1)
		go func(w int) {
			defer wg.Done()
			if msg, stack, p := kit.Guard(func() { c06Worker(rec, uint64(w), per) }); p {
				rec.Violation("harness/panic", msg+"\n"+stack, nil)
			}
		}(w)
	}
	wg.Wait()
}

type c06Pool struct {
	corp   []*kit.Corpus
	ev     []*kit.Evaluator
	totals []int
	gen    *sgen
}

func newC06Pool(r *rand.Rand) *c06Pool {
	g := kit.NewGen(r)
	g.MaxDocs, g.MaxLen = 9, 90
	p := &c06Pool{}
	for i := 0; i < 3; i++ {
		c := g.Corpus()
		p.corp = append(p.corp, c)
		p.ev = append(p.ev, kit.NewEvaluator(c))
		p.totals = append(p.totals, c.NumDocs())
	}
	p.gen = newSGen(r, p.corp, false)
	return p
}

func c06Worker(rec *kit.Rec, w uint64, n int) {
	r := rec.Rand(1000 + w)
	var pool *c06Pool
	for i := 0; i < n; i++ {
		if i%40 == 0 {
			pool = newC06Pool(r)
		}
		c06One(rec, pool, pool.gen.Query())
	}
}

type c06Res struct {
	status        string // agree | disagree | zoekt-rejects | unjudged | grammar | both-reject | zoekt-panics | ref-panic | doc-panic
	detail        string
	ci            int
	r             *kit.Repo
	d             *kit.Doc
	zSel, mSel    bool
	nontrivial    bool
	ambiguousDocs int
	g             *dGroup
	zq            query.Q
}

// c06Compare interprets s both ways on the corpora listed in cis.
func c06Compare(s string, pool *c06Pool, cis []int) (res c06Res) {
	g, derr := docParse(s)
	var zq query.Q
	var zerr error
	if msg, _, p := kit.Guard(func() { zq, zerr = query.Parse(s) }); p {
		return c06Res{status: "zoekt-panics", detail: msg}
	}
	if derr != nil {
		switch derr.Kind {
		case errRegex:
			if zerr != nil {
				return c06Res{status: "both-reject", detail: derr.Why}
			}
			return c06Res{status: "unjudged", detail: "regexp accepted by zoekt's parser but not by the standard library"}
		case errGrammar:
			return c06Res{status: "grammar", detail: derr.Why}
		}
		return c06Res{status: "unjudged", detail: derr.Why}
	}
	res.g, res.zq = g, zq
	if zerr != nil {
		res.status, res.detail = "zoekt-rejects", zerr.Error()
		return res
	}
	res.status = "agree"
	readings := []*reading{nil, {regexNames: true}, {parsedASCIICase: true}, {regexNames: true, parsedASCIICase: true}}
	evalAs := func(rd *reading, r *kit.Repo, d *kit.Doc) (m bool, msg, stack string, p bool) {
		g.setReading(rd)
		msg, stack, p = kit.Guard(func() { m = g.eval("auto", r, d) })
		return
	}
	for _, ci := range cis {
		c, ev := pool.corp[ci], pool.ev[ci]
		sel := 0
		for _, r := range c.Repos {
			for _, d := range r.Docs {
				var z bool
				if msg, stack, p := kit.Guard(func() { z = ev.Match(zq, r, d) }); p {
					return c06Res{status: "ref-panic", detail: msg + "\n" + stack, g: g, zq: zq}
				}
				var m [4]bool
				for i := 0; i < 2; i++ {
					var msg, stack string
					var p bool
					if m[i], msg, stack, p = evalAs(readings[i], r, d); p {
						return c06Res{status: "doc-panic", detail: msg + "\n" + stack, g: g, zq: zq}
					}
				}
				if z {
					sel++
				}
				if m[0] != m[1] {
					// the two documented readings of regex: differ on this document: not judged
					res.ambiguousDocs++
					continue
				}
				if z == m[0] {
					continue
				}
				// a disagreement. Is it exactly the known case:auto finding?
				for i := 2; i < 4; i++ {
					m[i], _, _, _ = evalAs(readings[i], r, d)
				}
				g.setReading(nil)
				known := z == m[2] || z == m[3]
				switch {
				case !known && res.status != "disagree":
					res.status = "disagree"
					res.ci, res.r, res.d, res.zSel, res.mSel = ci, r, d, z, m[0]
				case known && res.status == "agree":
					res.status = "known-case-auto"
					res.ci, res.r, res.d, res.zSel, res.mSel = ci, r, d, z, m[0]
				}
			}
		}
		g.setReading(nil)
		if sel > 0 && sel < pool.totals[ci] {
			res.nontrivial = true
		}
		if res.status == "disagree" {
			return res
		}
	}
	return res
}

// caseAutoClass names the construct that makes the parsed-ASCII rule and the documented
// rule of case:auto differ in g (priority: char-class, inline-flag, non-ascii-upper).
func caseAutoClass(g *dGroup) string {
	found := map[string]bool{}
	var walk func(g *dGroup)
	walk = func(g *dGroup) {
		for _, cl := range g.clauses {
			for _, e := range cl {
				if e.kind == kGroup {
					walk(e.group)
					continue
				}
				switch {
				case e.kind == kText, e.field == "content", e.field == "file", e.field == "regex", e.field == "sym":
				default:
					continue
				}
				if hasUpper(e.pat) == parsedASCIISensitive(e.pat) {
					continue
				}
				switch {
				case strings.Contains(e.pat, "(?i"):
					found["inline-flag"] = true
				case hasUpper(e.pat):
					found["non-ascii-upper"] = true
				default:
					found["char-class"] = true
				}
			}
		}
	}
	walk(g)
	for _, c := range []string{"char-class", "inline-flag", "non-ascii-upper"} {
		if found[c] {
			return "case-auto/" + c
		}
	}
	return "case-auto/unexplained"
}

func c06One(rec *kit.Rec, pool *c06Pool, s string) {
	res := c06Compare(s, pool, []int{0, 1, 2})
	rec.Count("strings", 1)
	rec.Count("status_"+res.status, 1)
	switch res.status {
	case "unjudged":
		rec.Case("unjudged", false, nil)
		rec.Seen("unjudged_reasons", firstWords(res.detail, 7))
		return
	case "grammar":
		rec.Case("grammar", false, nil)
		rec.Seen("generator_outside_grammar", firstWords(res.detail, 7))
		return
	case "both-reject", "zoekt-panics":
		// a panic of the parser is C07's business
		rec.Case(res.status, false, nil)
		return
	case "ref-panic", "doc-panic":
		rec.Case(res.status, false, nil)
		rec.Violation("harness/"+res.status+"/"+kit.MsgClass(firstLine(res.detail)), res.detail, map[string]any{"string": s})
		return
	}
	// judged
	rec.Count("judged", 1)
	if res.ambiguousDocs > 0 {
		rec.Count("documents_not_judged_regex_field_reading_ambiguous", int64(res.ambiguousDocs))
	}
	c06Coverage(rec, res.g, s)
	rec.Case(res.g.skeleton(), res.nontrivial && res.status != "zoekt-rejects", func() any {
		return map[string]any{"string": s, "zoekt": res.zq.String(), "documentation_reading": res.g.String()}
	})
	if res.status == "agree" {
		return
	}
	// shrink on the corpus where it went wrong (all three for a rejection)
	cis := []int{res.ci}
	if res.status == "zoekt-rejects" {
		cis = []int{0}
	}
	small := shrinkString(s, func(c string) bool {
		return c06Compare(c, pool, cis).status == res.status
	})
	sr := c06Compare(small, pool, cis)
	if sr.status != res.status {
		small, sr = s, res
	}
	class := classify(sr.g, sr.zq)
	wit := map[string]any{
		"string": small, "original_string": s,
		"documentation_reading": sr.g.String(),
	}
	if res.status == "zoekt-rejects" {
		wit["zoekt_error"] = sr.detail
		rec.Violation("rejected/"+class,
			fmt.Sprintf("query.Parse(%q) fails with %q but the string is in the documented grammar (reading: %s)", small, sr.detail, sr.g.String()), wit)
		return
	}
	if res.status == "known-case-auto" {
		// exactly the recorded finding: zoekt's answer is the documented reading with
		// case:auto decided on the ASCII letters of the parsed regular expression
		class = caseAutoClass(sr.g)
		wit["explained_by"] = "documented reading with case:auto decided on the parsed regexp's ASCII letters"
	}
	wit["zoekt_query"] = sr.zq.String()
	wit["repo"] = ix.Dump(&kit.Corpus{Repos: []*kit.Repo{sr.r}})
	wit["document"] = sr.d.Name
	wit["document_content"] = sr.d.Text()
	wit["zoekt_selects"] = sr.zSel
	wit["documentation_selects"] = sr.mSel
	rec.Violation(class,
		fmt.Sprintf("%q: query.Parse gives %s which selects=%v document %q (content %q) of repo %q; by doc/query_syntax.md it means %s which selects=%v",
			small, sr.zq.String(), sr.zSel, sr.d.Name, clip(sr.d.Text(), 80), sr.r.Name, sr.g.String(), sr.mSel), wit)
}

func clip(s string, n int) string {
	if len(s) > n {
		return s[:n] + "…"
	}
	return s
}

func firstLine(s string) string {
	if i := strings.IndexByte(s, '\n'); i >= 0 {
		return s[:i]
	}
	return s
}

func firstWords(s string, n int) string {
	f := strings.Fields(s)
	if len(f) > n {
		f = f[:n]
	}
	return strings.Join(f, " ")
}

// c06Coverage records which documented constructs the judged strings exercised.
func c06Coverage(rec *kit.Rec, g *dGroup, s string) {
	var f features
	g.collect(&f)
	for _, w := range f.fields {
		rec.Seen("fields_and_aliases", w)
	}
	for _, w := range f.mods {
		rec.Seen("modifiers", w)
	}
	mark := func(b bool, n string) {
		if b {
			rec.Count("with_"+n, 1)
		}
	}
	mark(f.or, "or")
	mark(f.group, "group")
	mark(f.neg, "negation")
	mark(f.caseMod, "case_modifier")
	mark(f.typeMod, "type_modifier")
	mark(f.quoted, "quoted_text")
	mark(f.escape, "backslash_escape")
	mark(f.upper, "uppercase_pattern")
	mark(f.nonASCIIUpper, "non_ascii_uppercase_pattern")
	mark(f.regexOps, "regexp_operators")
	mark(f.bare > 0, "bare_pattern")
	d, mods, nested := depthOf(g)
	rec.Max("max_nesting", int64(d))
	rec.Max("max_modifiers_in_one_group", int64(mods))
	mark(nested, "modifier_in_nested_group")
}

func depthOf(g *dGroup) (depth, mods int, nestedMod bool) {
	mods = g.nMods
	for _, cl := range g.clauses {
		for _, e := range cl {
			if e.kind == kGroup {
				d, m, n := depthOf(e.group)
				if d+1 > depth {
					depth = d + 1
				}
				if m > mods {
					mods = m
				}
				if n || e.group.nMods > 0 {
					nestedMod = true
				}
			}
		}
	}
	return
}

// ---------------------------------------------------------------------------
// shrinking: delete tokens (expressions, clauses, parentheses, '-', pattern runes)
// while the string keeps failing the same way.

type span struct{ a, b int }

func collectSpans(s string, g *dGroup, exprs *[]*dExpr, clauses *[][2]span, groups *[]*dExpr) {
	for ci, cl := range g.all {
		if len(g.all) > 1 && len(cl) > 0 {
			first, last := cl[0].span, cl[len(cl)-1].span
			var cut span
			if ci+1 < len(g.all) {
				cut = span{first[0], g.all[ci+1][0].span[0]}
			} else {
				prev := g.all[ci-1]
				cut = span{prev[len(prev)-1].span[1], last[1]}
			}
			*clauses = append(*clauses, [2]span{cut, {}})
		}
		for _, e := range cl {
			*exprs = append(*exprs, e)
			if e.kind == kGroup {
				*groups = append(*groups, e)
				collectSpans(s, e.group, exprs, clauses, groups)
			}
		}
	}
}

func cutSpan(s string, a, b int) string {
	out := s[:a] + s[b:]
	return out
}

// units splits a text value into deletable units (a rune, or a backslash pair).
func units(v string) []string {
	var out []string
	for i := 0; i < len(v); {
		if v[i] == '\\' && i+1 < len(v) {
			_, sz := utf8DecodeAt(v, i+1)
			out = append(out, v[i:i+1+sz])
			i += 1 + sz
			continue
		}
		_, sz := utf8DecodeAt(v, i)
		out = append(out, v[i:i+sz])
		i += sz
	}
	return out
}

func utf8DecodeAt(s string, i int) (rune, int) {
	for j, r := range s[i:] {
		_ = j
		return r, len(string(r))
	}
	return 0, 1
}

func shrinkCandidates(s string) []string {
	g, err := docParse(s)
	if err != nil {
		return nil
	}
	var exprs []*dExpr
	var clauses [][2]span
	var groups []*dExpr
	collectSpans(s, g, &exprs, &clauses, &groups)
	var out []string
	for _, c := range clauses {
		out = append(out, cutSpan(s, c[0].a, c[0].b))
	}
	// bigger expressions first
	sort.SliceStable(exprs, func(i, j int) bool {
		return exprs[i].span[1]-exprs[i].span[0] > exprs[j].span[1]-exprs[j].span[0]
	})
	for _, e := range exprs {
		out = append(out, cutSpan(s, e.span[0], e.span[1]))
	}
	for _, e := range groups {
		inner := strings.TrimSpace(s[e.group.open+1 : e.group.close])
		out = append(out, s[:e.span[0]]+inner+s[e.span[1]:])
	}
	for _, e := range exprs {
		if e.neg {
			out = append(out, cutSpan(s, e.span[0], e.span[0]+1))
		}
	}
	// pattern simplification
	for _, e := range exprs {
		if e.kind == kGroup || len(e.raw) == 0 {
			continue
		}
		switch e.field {
		case "case", "type", "archived", "fork", "public":
			continue
		}
		va, vb := e.span[1]-len(e.raw), e.span[1]
		raw := e.raw
		inner := raw
		q := ""
		if e.quoted {
			inner, q = raw[1:len(raw)-1], `"`
		}
		us := units(inner)
		if len(us) > 1 {
			for i := range us {
				n := strings.Join(us[:i], "") + strings.Join(us[i+1:], "")
				out = append(out, s[:va]+q+n+q+s[vb:])
			}
		}
		rank := len(simplePatterns)
		for i, sp := range simplePatterns {
			if sp == inner {
				rank = i
			}
		}
		for i, sp := range simplePatterns {
			if i < rank && len(sp) <= len(inner) {
				out = append(out, s[:va]+q+sp+q+s[vb:])
			}
		}
		if l := lowerNoEsc(inner); l != inner {
			out = append(out, s[:va]+q+l+q+s[vb:])
		}
		if e.quoted && !strings.ContainsAny(inner, " \"\\():") && inner != "or" && !strings.HasPrefix(inner, "-") {
			out = append(out, s[:va]+inner+s[vb:])
		}
	}
	return out
}

var simplePatterns = []string{"/", "a", "b", "c", "x", "1", "_", "A", "aa", "ab"}

// lowerNoEsc lower-cases letters that are not part of a backslash pair.
func lowerNoEsc(v string) string {
	var b strings.Builder
	for _, u := range units(v) {
		if strings.HasPrefix(u, `\`) {
			b.WriteString(u)
			continue
		}
		for _, r := range u {
			b.WriteRune(unicode.ToLower(r))
		}
	}
	return b.String()
}

func shrinkString(s string, fails func(string) bool) string {
	budget := 4000
	for changed := true; changed && budget > 0; {
		changed = false
		for _, c := range shrinkCandidates(s) {
			if c == s || len(c) > len(s) {
				continue
			}
			budget--
			if budget <= 0 {
				break
			}
			ok := false
			kit.Guard(func() { ok = fails(c) })
			if ok {
				s = c
				changed = true
				break
			}
		}
	}
	if t := strings.TrimSpace(s); t != s {
		ok := false
		kit.Guard(func() { ok = fails(t) })
		if ok {
			return t
		}
	}
	return s
}
