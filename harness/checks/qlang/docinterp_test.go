// Package qlang holds the query-language monitors (C06, C07).
package qlang

// docinterp_test.go: an interpreter of the query language written from
// /repo/doc/query_syntax.md (EBNF summary + prose) and the "Query parsing" section of
// /repo/doc/design.md ONLY. It does not share code or structure with query/parse.go:
// it is a character-level recursive-descent parser that produces its own small tree and
// evaluates that tree directly on the (repo, doc) model of the kit with Go's standard
// regexp engine.
//
// Three outcomes for a string:
//   - a tree (the string has exactly one documented reading),
//   - errGrammar: the string is not in the documented grammar,
//   - errUnjudged: the documentation is silent / ambiguous about this string; C06 must
//     not judge it (it is still an input of C07),
//   - errRegex: in the grammar, but a pattern is not a valid Go regular expression.

import (
	"fmt"
	"regexp"
	"regexp/syntax"
	"strings"
	"unicode"
	"unicode/utf8"

	kit "github.com/sourcegraph/zoekt/internal/verifkit"
	"github.com/sourcegraph/zoekt/query"
)

const (
	errGrammar  = "grammar"
	errUnjudged = "unjudged"
	errRegex    = "regex"
)

type docErr struct {
	Kind string
	Why  string
}

func (e *docErr) Error() string { return e.Kind + ": " + e.Why }

func gErr(f string, a ...any) *docErr { return &docErr{errGrammar, fmt.Sprintf(f, a...)} }
func uErr(f string, a ...any) *docErr { return &docErr{errUnjudged, fmt.Sprintf(f, a...)} }

type dKind int

const (
	kText dKind = iota
	kField
	kGroup
)

// dExpr is one `expression` of the EBNF.
type dExpr struct {
	neg     bool
	kind    dKind
	field   string // canonical field: content file repo branch type case lang sym regex archived fork public meta
	written string // the prefix as written ("f:", "file:", "meta.k:")
	metaKey string
	pat     string // the value: unquoted for quoted text, raw for unquoted text
	quoted  bool
	raw     string // the text exactly as written (including quotes)
	group   *dGroup
	span    [2]int // byte span of the whole expression in the input

	reS, reI *regexp.Regexp
	rd       *reading // nil = the primary documented reading
}

// reading selects one of the interpretations C06 evaluates a string under.
//
//   - regexNames: the documentation says of `regex:` "Matches content using a regular
//     expression" and says nothing else about it. Whether a file NAME that matches also
//     selects the document (as it does for a bare pattern) is not stated, so C06 evaluates
//     both readings and judges a document only when they agree.
//   - parsedASCIICase is NOT a documented reading: it is the behaviour recorded as known
//     finding "case-auto/*" (case:auto decided on the ASCII letters of the parsed regular
//     expression instead of the letters of the pattern). It is only used to decide whether
//     a disagreement is exactly that finding.
type reading struct {
	regexNames      bool
	parsedASCIICase bool
}

func (g *dGroup) setReading(rd *reading) {
	for _, cl := range g.clauses {
		for _, e := range cl {
			e.rd = rd
			if e.kind == kGroup {
				e.group.setReading(rd)
			}
		}
	}
}

// parsedASCIISensitive: does the pattern, parsed and simplified as a Go regular
// expression, hold a literal rune or a character-class bound in 'A'..'Z'?
func parsedASCIISensitive(p string) bool {
	re, err := syntax.Parse(p, syntax.ClassNL|syntax.PerlX|syntax.UnicodeGroups)
	if err != nil {
		return hasUpper(p)
	}
	var walk func(r *syntax.Regexp) bool
	walk = func(r *syntax.Regexp) bool {
		if r.Op == syntax.OpLiteral || r.Op == syntax.OpCharClass {
			for _, c := range r.Rune {
				if c >= 'A' && c <= 'Z' {
					return true
				}
			}
		}
		for _, s := range r.Sub {
			if walk(s) {
				return true
			}
		}
		return false
	}
	return walk(re.Simplify())
}

// dGroup is one `query`: or-separated conjunctions plus the modifiers of this scope.
type dGroup struct {
	clauses  [][]*dExpr // modifiers removed
	all      [][]*dExpr // as written, modifiers included (used for shrinking)
	caseMode string     // "" = no case: in this group
	typeRepo bool       // a type:repo in this group
	typeSeen bool
	open     int // byte offset of "(" (-1 for the top level)
	close    int
	nMods    int
}

// field prefixes of the documentation's table (field, alias).
var docPrefixes = []struct{ pref, field string }{
	{"archived:", "archived"},
	{"case:", "case"},
	{"content:", "content"}, {"c:", "content"},
	{"file:", "file"}, {"f:", "file"},
	{"fork:", "fork"},
	{"lang:", "lang"},
	{"public:", "public"},
	{"regex:", "regex"},
	{"repo:", "repo"}, {"r:", "repo"},
	{"sym:", "sym"},
	{"branch:", "branch"}, {"b:", "branch"},
	{"type:", "type"}, {"t:", "type"},
}

type dparser struct {
	s        string
	i        int
	maxDepth int
}

func (p *dparser) eof() bool { return p.i >= len(p.s) }

// docParse reads s according to the documentation.
func docParse(s string) (*dGroup, *docErr) {
	if !utf8.ValidString(s) {
		return nil, uErr("not valid UTF-8")
	}
	p := &dparser{s: s, maxDepth: 64}
	g, err := p.query(0, -1)
	if err != nil {
		return nil, err
	}
	if !p.eof() {
		return nil, gErr("unbalanced ) at %d", p.i)
	}
	g.close = len(s)
	return g, nil
}

func (p *dparser) skipSpaces() *docErr {
	for !p.eof() {
		switch p.s[p.i] {
		case ' ':
			p.i++
		case '\t', '\n', '\r', '\v', '\f':
			return uErr("white space other than a space (documentation only speaks of spaces)")
		default:
			return nil
		}
	}
	return nil
}

func (p *dparser) atDelim(i int) bool {
	return i >= len(p.s) || p.s[i] == ' ' || p.s[i] == ')'
}

func (p *dparser) query(depth, open int) (*dGroup, *docErr) {
	if depth > p.maxDepth {
		return nil, uErr("nesting deeper than the harness bound")
	}
	g := &dGroup{open: open}
	var all [][]*dExpr
	var cur []*dExpr
	lastOr := false
	for {
		if err := p.skipSpaces(); err != nil {
			return nil, err
		}
		if p.eof() || p.s[p.i] == ')' {
			break
		}
		if strings.HasPrefix(p.s[p.i:], "or") && p.atDelim(p.i+2) {
			if len(cur) == 0 {
				return nil, gErr("'or' without a left operand")
			}
			all = append(all, cur)
			cur = nil
			lastOr = true
			p.i += 2
			continue
		}
		e, err := p.expression(depth)
		if err != nil {
			return nil, err
		}
		cur = append(cur, e)
		lastOr = false
	}
	if len(cur) == 0 {
		if lastOr {
			return nil, gErr("'or' without a right operand")
		}
		return nil, gErr("empty query or group")
	}
	all = append(all, cur)
	g.all = all

	// modifiers of this scope: case: and type: "apply to the whole expression in its
	// current scope, including or clauses".
	caseVals := map[string]bool{}
	typeVals := map[string]bool{}
	for _, cl := range all {
		var rest []*dExpr
		for _, e := range cl {
			if e.kind == kField && (e.field == "case" || e.field == "type") {
				if e.neg {
					return nil, uErr("negated %s: has no documented meaning", e.field)
				}
				g.nMods++
				if e.field == "case" {
					caseVals[e.pat] = true
				} else {
					v := e.pat
					if v == "file" {
						v = "filename"
					}
					typeVals[v] = true
				}
				continue
			}
			rest = append(rest, e)
		}
		if len(rest) == 0 {
			return nil, uErr("a clause that consists of case:/type: only has no documented meaning")
		}
		g.clauses = append(g.clauses, rest)
	}
	if len(caseVals) > 1 {
		return nil, uErr("different case: values in one group (which one wins is not documented)")
	}
	for v := range caseVals {
		g.caseMode = v
	}
	if len(typeVals) > 0 {
		g.typeSeen = true
		if typeVals["repo"] {
			if len(typeVals) > 1 {
				return nil, uErr("type:repo together with another type: in one group (which one wins is not documented)")
			}
			g.typeRepo = true
		}
	}
	return g, nil
}

func (p *dparser) expression(depth int) (*dExpr, *docErr) {
	start := p.i
	neg := false
	if p.s[p.i] == '-' {
		neg = true
		p.i++
		if p.eof() || p.s[p.i] == ' ' || p.s[p.i] == ')' {
			return nil, gErr("'-' without an operand")
		}
		if p.s[p.i] == '-' {
			return nil, gErr("double negation is not in the EBNF")
		}
	}
	if p.s[p.i] == '(' {
		open := p.i
		p.i++
		g, err := p.query(depth+1, open)
		if err != nil {
			return nil, err
		}
		if p.eof() || p.s[p.i] != ')' {
			return nil, gErr("missing )")
		}
		g.close = p.i
		p.i++
		if !p.atDelim(p.i) {
			return nil, uErr("text glued to a closing parenthesis")
		}
		// design.md: "(abc def)" groups, "(abc\ def)" is a regexp: a parenthesis pair
		// that holds no unescaped space is read as regexp syntax. Only pairs with an
		// inner space have the single documented reading "grouping".
		if !strings.ContainsAny(spaceOutsideQuotes(p.s[open+1:g.close]), " ") {
			return nil, uErr("parentheses without an inner space: grouping or regexp syntax")
		}
		return &dExpr{neg: neg, kind: kGroup, group: g, span: [2]int{start, p.i}}, nil
	}
	e, err := p.word()
	if err != nil {
		return nil, err
	}
	e.neg = neg
	e.span = [2]int{start, p.i}
	if cerr := e.check(); cerr != nil {
		return nil, cerr
	}
	return e, nil
}

// spaceOutsideQuotes blanks out quoted sections and escaped characters so that only
// structural spaces remain.
func spaceOutsideQuotes(s string) string {
	var b strings.Builder
	inq := false
	for i := 0; i < len(s); i++ {
		c := s[i]
		switch {
		case c == '\\' && i+1 < len(s):
			b.WriteString("xx")
			i++
		case c == '"':
			inq = !inq
			b.WriteByte('x')
		case inq:
			b.WriteByte('x')
		default:
			b.WriteByte(c)
		}
	}
	return b.String()
}

func (p *dparser) word() (*dExpr, *docErr) {
	e := &dExpr{kind: kText}
	rest := p.s[p.i:]
	for _, fp := range docPrefixes {
		if strings.HasPrefix(rest, fp.pref) {
			e.kind, e.field, e.written = kField, fp.field, fp.pref
			p.i += len(fp.pref)
			break
		}
	}
	if e.kind == kText && strings.HasPrefix(rest, "meta.") {
		j := p.i + len("meta.")
		k := j
		for k < len(p.s) && (p.s[k] == '_' || p.s[k] >= '0' && p.s[k] <= '9' || p.s[k] >= 'a' && p.s[k] <= 'z' || p.s[k] >= 'A' && p.s[k] <= 'Z') {
			k++
		}
		if k == j || k >= len(p.s) || p.s[k] != ':' {
			return nil, uErr("meta. without a plain <field>: name")
		}
		e.kind, e.field, e.metaKey = kField, "meta", p.s[j:k]
		e.written = p.s[p.i : k+1]
		p.i = k + 1
	}
	pat, quoted, raw, err := p.text(e.kind == kField)
	if err != nil {
		return nil, err
	}
	e.pat, e.quoted, e.raw = pat, quoted, raw
	return e, nil
}

// text reads `text = quoted | unquoted`.
func (p *dparser) text(fieldValue bool) (pat string, quoted bool, raw string, err *docErr) {
	if p.atDelim(p.i) {
		return "", false, "", gErr("missing text")
	}
	start := p.i
	if p.s[p.i] == '"' {
		// "Inside a quoted value, a backslash escapes the next character."
		var b []byte
		j := p.i + 1
		for {
			if j >= len(p.s) {
				return "", false, "", gErr("unterminated quote")
			}
			c := p.s[j]
			if c == '\\' {
				if j+1 >= len(p.s) {
					return "", false, "", gErr("unterminated quote")
				}
				b = append(b, p.s[j+1])
				j += 2
				continue
			}
			if c == '"' {
				break
			}
			b = append(b, c)
			j++
		}
		p.i = j + 1
		if !p.atDelim(p.i) {
			return "", false, "", uErr("text glued to a closing quote")
		}
		return string(b), true, p.s[start:p.i], nil
	}
	depth, hasParen, hasColon := 0, false, false
loop:
	for !p.eof() {
		c := p.s[p.i]
		switch c {
		case '\\':
			if p.i+1 >= len(p.s) {
				return "", false, "", gErr("lone backslash")
			}
			p.i += 2
		case ' ':
			break loop
		case '\t', '\n', '\r', '\v', '\f':
			return "", false, "", uErr("white space other than a space")
		case '"':
			return "", false, "", uErr("quote inside unquoted text")
		case '(':
			hasParen = true
			depth++
			p.i++
		case ')':
			if depth == 0 {
				break loop
			}
			depth--
			p.i++
		case ':':
			hasColon = true
			p.i++
		default:
			p.i++
		}
	}
	if depth != 0 {
		return "", false, "", uErr("unbalanced parenthesis inside text")
	}
	raw = p.s[start:p.i]
	if hasParen {
		if !fieldValue {
			return "", false, "", uErr("parenthesis in bare text: grouping or regexp syntax")
		}
		if !p.eof() && p.s[p.i] == ')' {
			return "", false, "", uErr("text with parentheses directly before a closing parenthesis")
		}
	}
	if !fieldValue && hasColon {
		return "", false, "", uErr("colon in bare text (undocumented field?)")
	}
	if !fieldValue && strings.HasPrefix(raw, "meta.") {
		return "", false, "", uErr("meta. form")
	}
	return raw, false, raw, nil
}

var docLangs = map[string]string{"go": "Go", "c": "C", "java": "Java", "text": "Text"}

// languages that are certainly not a name or alias of a model language
var docAbsentLangs = map[string]bool{"python": true, "javascript": true, "rust": true, "ruby": true}

func hasUpper(s string) bool {
	for _, r := range s {
		if unicode.IsUpper(r) {
			return true
		}
	}
	return false
}

// check validates the value of one text / field expression and decides whether the
// documentation gives it one meaning.
func (e *dExpr) check() *docErr {
	f := e.field
	if e.kind == kText {
		f = "text"
	}
	switch f {
	case "archived", "fork", "public":
		if e.quoted || (e.pat != "yes" && e.pat != "no") {
			return gErr("%s wants yes|no", e.written)
		}
		return nil
	case "case":
		if e.quoted || (e.pat != "yes" && e.pat != "no" && e.pat != "auto") {
			return gErr("case: wants yes|no|auto")
		}
		return nil
	case "type":
		switch e.pat {
		case "filematch", "filename", "file", "repo":
			if !e.quoted {
				return nil
			}
		}
		return gErr("type: wants filematch|filename|file|repo")
	case "lang":
		if e.pat == "" {
			return uErr("empty value")
		}
		if !e.quoted && strings.Contains(e.pat, `\`) {
			return uErr("backslash in a Text field")
		}
		if docAbsentLangs[e.pat] {
			return nil
		}
		for lower, canon := range docLangs {
			if e.pat == lower || e.pat == canon {
				return nil
			}
		}
		return uErr("lang: value that is neither a model language (lower case / canonical) nor known absent: aliases are not documented")
	case "branch":
		if e.pat == "" {
			return uErr("empty value")
		}
		if !e.quoted && strings.Contains(e.pat, `\`) {
			return uErr("backslash in a Text field")
		}
		if e.pat != "HEAD" && hasUpper(e.pat) {
			return uErr("upper case in branch: (case rule for branch names is not documented)")
		}
		return nil
	}
	// regexp valued
	p := e.pat
	if p == "" {
		return uErr("empty pattern")
	}
	if !utf8.ValidString(p) {
		return uErr("pattern not valid UTF-8")
	}
	for i := 0; i < len(p); i++ {
		if p[i] != '\\' {
			continue
		}
		if i+1 >= len(p) {
			return &docErr{errRegex, "trailing backslash"}
		}
		c := p[i+1]
		i++
		switch {
		case c < utf8.RuneSelf && !(c >= '0' && c <= '9' || c >= 'a' && c <= 'z' || c >= 'A' && c <= 'Z'):
		case strings.IndexByte("wsdbnt", c) >= 0:
		default:
			return uErr("escape \\%c: only punctuation escapes and \\w \\s \\d \\b \\n \\t are judged (upper-case escape letters vs. the 'upper-case letter' rule of case:auto are not documented)", c)
		}
	}
	if i := strings.Index(p, "(?"); i >= 0 {
		for j := i; j >= 0 && j < len(p); {
			restp := p[j:]
			if !(strings.HasPrefix(restp, "(?:") || strings.HasPrefix(restp, "(?i:") || strings.HasPrefix(restp, "(?i)")) {
				return uErr("regexp flag group other than (?: (?i: (?i)")
			}
			k := strings.Index(p[j+2:], "(?")
			if k < 0 {
				break
			}
			j = j + 2 + k
		}
	}
	re, err := syntax.Parse(p, syntax.Perl)
	if err != nil {
		return &docErr{errRegex, err.Error()}
	}
	if f == "text" || f == "content" || f == "regex" {
		if hasAnchor(re) {
			return uErr("^ or $ in a pattern applied to file content (line or file anchors: not documented)")
		}
	}
	if f == "repo" || f == "meta" {
		if hasUpper(p) || strings.Contains(p, "(?i") {
			return uErr("upper case / (?i) in %s (whether case: applies to it is not documented)", e.written)
		}
	}
	return nil
}

func hasAnchor(re *syntax.Regexp) bool {
	switch re.Op {
	case syntax.OpBeginLine, syntax.OpEndLine, syntax.OpBeginText, syntax.OpEndText:
		return true
	}
	for _, s := range re.Sub {
		if hasAnchor(s) {
			return true
		}
	}
	return false
}

// ---------------------------------------------------------------------------
// evaluation

func (e *dExpr) regex(sensitive bool) *regexp.Regexp {
	if sensitive {
		if e.reS == nil {
			e.reS = regexp.MustCompile(e.pat)
		}
		return e.reS
	}
	if e.reI == nil {
		e.reI = regexp.MustCompile("(?i)" + e.pat)
	}
	return e.reI
}

// sensitive: "case:yes exact case, case:no case-insensitive, case:auto (default): if the
// pattern contains uppercase letters the search is case-sensitive".
func (e *dExpr) sensitive(mode string) bool {
	switch mode {
	case "yes":
		return true
	case "no":
		return false
	}
	if e.rd != nil && e.rd.parsedASCIICase {
		return parsedASCIISensitive(e.pat)
	}
	return hasUpper(e.pat)
}

func (g *dGroup) eval(inherited string, r *kit.Repo, d *kit.Doc) bool {
	mode := inherited
	if g.caseMode != "" {
		mode = g.caseMode
	}
	if g.typeRepo {
		// "type:repo … returns repository names": a repository is selected when one of
		// its documents satisfies the rest of the scope; then all its documents are.
		for _, d2 := range r.Docs {
			if r.Live(d2) && g.evalBody(mode, r, d2) {
				return true
			}
		}
		return false
	}
	return g.evalBody(mode, r, d)
}

func (g *dGroup) evalBody(mode string, r *kit.Repo, d *kit.Doc) bool {
	for _, cl := range g.clauses {
		ok := true
		for _, e := range cl {
			if !e.eval(mode, r, d) {
				ok = false
				break
			}
		}
		if ok {
			return true
		}
	}
	return false
}

func (e *dExpr) eval(mode string, r *kit.Repo, d *kit.Doc) bool {
	v := e.evalPos(mode, r, d)
	if e.neg {
		return !v
	}
	return v
}

func (e *dExpr) evalPos(mode string, r *kit.Repo, d *kit.Doc) bool {
	if e.kind == kGroup {
		return e.group.eval(mode, r, d)
	}
	f := e.field
	if e.kind == kText {
		f = "text"
	}
	switch f {
	case "text":
		re := e.regex(e.sensitive(mode))
		return re.MatchString(d.Name) || re.MatchString(d.Text())
	case "regex":
		re := e.regex(e.sensitive(mode))
		if e.rd != nil && e.rd.regexNames && re.MatchString(d.Name) {
			return true
		}
		return re.MatchString(d.Text())
	case "content":
		return e.regex(e.sensitive(mode)).MatchString(d.Text())
	case "file":
		return e.regex(e.sensitive(mode)).MatchString(d.Name)
	case "sym":
		re := e.regex(e.sensitive(mode))
		t := d.Text()
		for _, s := range d.Syms() {
			if re.MatchString(t[s.Start:s.End]) {
				return true
			}
		}
		return false
	case "repo":
		return e.regex(true).MatchString(r.Name)
	case "meta":
		v, ok := r.Metadata[e.metaKey]
		return ok && e.regex(true).MatchString(v)
	case "branch":
		if e.pat == "HEAD" {
			def := r.Branches[0].Name
			for _, b := range d.Branches {
				if b == def {
					return true
				}
			}
			return false
		}
		for _, b := range d.Branches {
			if strings.Contains(b, e.pat) {
				return true
			}
		}
		return false
	case "lang":
		return strings.EqualFold(d.Language, e.pat)
	case "archived", "fork", "public":
		return (r.RawConfig[f] == "1") == (e.pat == "yes")
	}
	panic("doc interpreter: unexpected field " + f)
}

// ---------------------------------------------------------------------------
// description, skeleton, features

func (g *dGroup) String() string {
	var cls []string
	for _, cl := range g.clauses {
		var es []string
		for _, e := range cl {
			es = append(es, e.String())
		}
		cls = append(cls, "and["+strings.Join(es, " ")+"]")
	}
	mod := ""
	if g.caseMode != "" {
		mod += " case=" + g.caseMode
	}
	if g.typeRepo {
		mod += " type=repo"
	} else if g.typeSeen {
		mod += " type=file(match|name)"
	}
	return "scope{" + strings.TrimSpace(mod+" or["+strings.Join(cls, " ")+"]") + "}"
}

func (e *dExpr) String() string {
	n := ""
	if e.neg {
		n = "not "
	}
	switch e.kind {
	case kGroup:
		return n + e.group.String()
	case kText:
		return fmt.Sprintf("%sname-or-content~%q", n, e.pat)
	}
	if e.field == "meta" {
		return fmt.Sprintf("%smeta[%s]~%q", n, e.metaKey, e.pat)
	}
	return fmt.Sprintf("%s%s~%q", n, e.field, e.pat)
}

func isLiteralPattern(p string) bool {
	re, err := syntax.Parse(p, syntax.Perl)
	if err != nil {
		return false
	}
	re = re.Simplify()
	return re.Op == syntax.OpLiteral && re.Flags&syntax.FoldCase == 0
}

func patClass(e *dExpr) string {
	c := "L"
	if !isLiteralPattern(e.pat) {
		c = "R"
	}
	if hasUpper(e.pat) {
		c += "u"
	}
	if strings.Contains(e.raw, `\`) {
		c += "e"
	}
	if e.quoted {
		c = "q(" + c + ")"
	}
	return c
}

// skeleton is the structural fingerprint used for the distinct count: operators,
// fields as written, modifiers in place, pattern classes instead of patterns.
func (g *dGroup) skeleton() string {
	var cls []string
	for _, cl := range g.clauses {
		var es []string
		for _, e := range cl {
			es = append(es, e.skeleton())
		}
		cls = append(cls, strings.Join(es, " "))
	}
	m := ""
	if g.caseMode != "" {
		m += "case:" + g.caseMode + " "
	}
	if g.typeRepo {
		m += "type:repo "
	} else if g.typeSeen {
		m += "type:f "
	}
	return m + strings.Join(cls, " or ")
}

func (e *dExpr) skeleton() string {
	n := ""
	if e.neg {
		n = "-"
	}
	switch e.kind {
	case kGroup:
		return n + "(" + e.group.skeleton() + ")"
	case kText:
		return n + patClass(e)
	}
	switch e.field {
	case "archived", "fork", "public", "lang", "branch":
		v := e.pat
		if e.field == "branch" && v != "HEAD" {
			v = "x"
		}
		if e.field == "lang" {
			v = "x"
		}
		return n + e.written + v
	case "meta":
		return n + "meta.k:" + patClass(e)
	}
	return n + e.written + patClass(e)
}

// features lists the documented constructs a (shrunk) string still uses.
type features struct {
	or, group, neg, caseMod, typeMod, quoted, escape, upper, nonASCIIUpper, regexOps, flagGroup bool
	fields                                                                                      []string // prefixes as written
	mods                                                                                        []string // case:/type: modifiers as written
	bare                                                                                        int
	atoms                                                                                       int
}

func (g *dGroup) collect(f *features) {
	if len(g.clauses) > 1 {
		f.or = true
	}
	if g.caseMode != "" {
		f.caseMod = true
	}
	if g.typeSeen {
		f.typeMod = true
	}
	for _, cl := range g.all {
		for _, e := range cl {
			if e.kind == kField && (e.field == "case" || e.field == "type") {
				f.mods = append(f.mods, e.written+e.pat)
			}
		}
	}
	for _, cl := range g.clauses {
		for _, e := range cl {
			if e.neg {
				f.neg = true
			}
			if e.kind == kGroup {
				f.group = true
				e.group.collect(f)
				continue
			}
			f.atoms++
			if e.kind == kText {
				f.bare++
			} else {
				w := e.written
				if e.field == "meta" {
					w = "meta."
				}
				f.fields = append(f.fields, w)
			}
			if e.quoted {
				f.quoted = true
			}
			if strings.Contains(e.raw, `\`) {
				f.escape = true
			}
			switch e.field {
			case "", "content", "file", "regex", "sym":
				if hasUpper(e.pat) {
					f.upper = true
					for _, r := range e.pat {
						if unicode.IsUpper(r) && r >= utf8.RuneSelf {
							f.nonASCIIUpper = true
						}
					}
				}
				if strings.Contains(e.pat, "(?i") {
					f.flagGroup = true
				}
				if !isLiteralPattern(e.pat) {
					f.regexOps = true
				}
			}
		}
	}
}

var aliasOf = map[string]bool{"c:": true, "f:": true, "r:": true, "b:": true, "t:": true}

// classify turns the constructs left in a shrunk disagreeing string into the coarse
// construct class used as violation signature. zq (zoekt's tree for the same string,
// may be nil) is only used to tell a case-sensitivity disagreement from a
// field-selection disagreement; it plays no part in the verdict.
func classify(g *dGroup, zq query.Q) string {
	var f features
	g.collect(&f)
	switch {
	case f.typeMod:
		return "type-scope"
	case f.caseMod:
		return "case-scope"
	case f.or:
		return "or-precedence"
	case f.group:
		return "grouping"
	case f.atoms > 1:
		if f.neg {
			return "negation"
		}
		return "juxtaposition"
	}
	e := g.clauses[0][0]
	atom := "bare pattern"
	if len(f.fields) > 0 {
		w := f.fields[0]
		if aliasOf[w] {
			atom = "alias " + w
		} else {
			atom = "field " + w
		}
	}
	// case:auto: does zoekt's atom carry another case flag than the documented rule gives?
	if zs, ok := zoektCase(zq); ok && (e.kind == kText || e.field == "content" || e.field == "file" || e.field == "regex" || e.field == "sym") {
		if zs != e.sensitive("auto") {
			switch {
			case f.flagGroup:
				return "case flag not explained by the known case:auto finding/inline-flag"
			case f.nonASCIIUpper:
				return "case flag not explained by the known case:auto finding/non-ascii-upper"
			case strings.Contains(e.pat, `\w`) || strings.Contains(e.pat, "["):
				return "case flag not explained by the known case:auto finding/char-class"
			}
			return "case flag not explained by the known case:auto finding"
		}
	}
	switch {
	case f.flagGroup:
		return "inline-flag"
	case f.escape && f.quoted:
		return "escape/quoted"
	case f.escape:
		return "escape"
	case f.quoted:
		return "quoting"
	}
	if f.neg {
		return atom + " (negated)"
	}
	return atom
}

func zoektCase(zq query.Q) (bool, bool) {
	switch a := zq.(type) {
	case *query.Not:
		return zoektCase(a.Child)
	case *query.Symbol:
		return zoektCase(a.Expr)
	case *query.Substring:
		return a.CaseSensitive, true
	case *query.Regexp:
		return a.CaseSensitive, true
	}
	return false, false
}
