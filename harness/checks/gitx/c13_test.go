package gitx

import (
	"bytes"
	"fmt"
	"math/rand/v2"
	"os"
	"path/filepath"
	"sort"
	"strings"
	"sync"
	"syscall"
	"testing"

	"github.com/sourcegraph/zoekt"
	"github.com/sourcegraph/zoekt/gitindex"
	"github.com/sourcegraph/zoekt/index"
	kit "github.com/sourcegraph/zoekt/internal/verifkit"
)

// C13: delta builds expose the same per-branch content as full builds.
//
// Workload: a git repository with 2-3 branches whose history is grown step by step
// (`git fast-import` M/D/R commands: add, modify, delete, rename, revert,
// copy-to-other-branch, same content on two branches, file moving between branches,
// chmod); after every step gitindex.IndexGitRepo runs with IsDelta chosen at random.
// Oracle: the generator's own record of every branch's head tree (cross-checked
// against `git ls-tree`). Observation: Search(branch=b exact AND const true, Whole)
// over the index directory, for every indexed branch, after every indexing run; the
// same for a fresh full build in another directory.

type c13File struct {
	Content string
	Exec    bool
	Link    string `json:",omitempty"` // non-empty: a gitlink (submodule commit id), not a document
}

type c13Tree map[string]c13File

func (t c13Tree) clone() c13Tree {
	c := c13Tree{}
	for k, v := range t {
		c[k] = v
	}
	return c
}

var c13Paths = []string{"a.txt", "b.go", "lib/c.txt", "lib/d.go", "lib/deep/e.md", "docs/f.md", "g.txt", "src/h.go", "src/i.go", "z/y/x.txt", "lib/c.txt.bak", "Ünï/ö.txt"}

var c13Pool = []string{
	"alpha beta gamma\n",
	"package main\n\nfunc main() {}\n",
	"shared content one\nline two\n",
	"shared content two\n",
	"# title\n\ntext here\n",
}

type c13Step struct {
	Ops        []string `json:"ops"`
	Delta      bool     `json:"delta_requested"`
	Taken      bool     `json:"delta_taken"`
	Fallback   string   `json:"fallback,omitempty"`
	Branches   []string `json:"indexed_branches"`
	ShardsPost int      `json:"shards_after"`
	Stream     string   `json:"fast_import"`
}

type c13World struct {
	r        *rand.Rand
	dir      string
	clock    int64
	branches []string
	tree     map[string]c13Tree
	snaps    map[string][]c13Tree
	fresh    int
	steps    []c13Step
	pathOps  []map[string][]string // step -> path -> "kind@branch"
	gitlinks bool // this history also replaces files by submodule links and back
	cur      map[string]*bytes.Buffer
	curOps   []string
	curPaths map[string][]string
}

func (w *c13World) frag(b string) *fiStream {
	if w.cur[b] == nil {
		w.cur[b] = &bytes.Buffer{}
	}
	return &fiStream{clock: &w.clock}
}

func (w *c13World) emit(b string, f func(s *fiStream)) {
	s := w.frag(b)
	f(s)
	w.cur[b].Write(s.buf.Bytes())
}

func (w *c13World) note(kind, b, path string) {
	w.curOps = append(w.curOps, fmt.Sprintf("%s@%s:%s", kind, b, path))
	w.curPaths[path] = append(w.curPaths[path], kind+"@"+b)
}

func (w *c13World) mode(f c13File) string {
	if f.Link != "" {
		return "160000"
	}
	if f.Exec {
		return "100755"
	}
	return "100644"
}

func (w *c13World) put(kind, b, path string, f c13File) {
	w.tree[b][path] = f
	w.emit(b, func(s *fiStream) {
		if f.Link != "" {
			fmt.Fprintf(&s.buf, "M 160000 %s %s\n", f.Link, fiQuote(path))
			return
		}
		s.modify(w.mode(f), path, []byte(f.Content))
	})
	w.note(kind, b, path)
}

func (w *c13World) remove(kind, b, path string) {
	delete(w.tree[b], path)
	w.emit(b, func(s *fiStream) { s.del(path) })
	w.note(kind, b, path)
}

func (w *c13World) content() string {
	if w.r.IntN(2) == 0 {
		return c13Pool[w.r.IntN(len(c13Pool))]
	}
	w.fresh++
	return fmt.Sprintf("fresh %d text\nsome more words %d\n", w.fresh, w.r.IntN(1000))
}

func sortedKeys[V any](m map[string]V) []string {
	l := make([]string, 0, len(m))
	for k := range m {
		l = append(l, k)
	}
	sort.Strings(l)
	return l
}

func (w *c13World) pickIn(b string) (string, bool) {
	var l []string
	for _, p := range sortedKeys(w.tree[b]) {
		if w.tree[b][p].Link == "" {
			l = append(l, p)
		}
	}
	if len(l) == 0 {
		return "", false
	}
	return l[w.r.IntN(len(l))], true
}

func (w *c13World) pickNotIn(bs ...string) (string, bool) {
	var l []string
	for _, p := range c13Paths {
		ok := true
		for _, b := range bs {
			if _, in := w.tree[b][p]; in {
				ok = false
			}
		}
		if ok {
			l = append(l, p)
		}
	}
	if len(l) == 0 {
		return "", false
	}
	return l[w.r.IntN(len(l))], true
}

func (w *c13World) other(b string) string {
	for {
		o := w.branches[w.r.IntN(len(w.branches))]
		if o != b {
			return o
		}
	}
}

var c13Kinds = []string{"to-gitlink", "from-gitlink", "add", "add", "modify", "modify", "modify", "delete", "delete", "rename", "revert", "copy-to-other", "same-on-two", "move-between", "chmod"}

// op applies one random change; it reports false when the drawn kind is not
// applicable to the current state.
func (w *c13World) op() bool {
	kind := c13Kinds[w.r.IntN(len(c13Kinds))]
	b := w.branches[w.r.IntN(len(w.branches))]
	if strings.HasSuffix(kind, "-gitlink") && !w.gitlinks {
		return false
	}
	switch kind {
	case "add":
		p, ok := w.pickNotIn(b)
		if !ok {
			return false
		}
		f := c13File{Content: w.content()}
		if o := w.other(b); w.r.IntN(3) == 0 {
			if of, in := w.tree[o][p]; in {
				f = of // the version another branch already has
			}
		}
		w.put(kind, b, p, f)
	case "modify":
		p, ok := w.pickIn(b)
		if !ok {
			return false
		}
		f := w.tree[b][p]
		nc := w.content()
		if o := w.other(b); w.r.IntN(4) == 0 {
			if of, in := w.tree[o][p]; in {
				nc = of.Content // converge to the other branch's version
			}
		}
		if nc == f.Content {
			return false
		}
		f.Content = nc
		w.put(kind, b, p, f)
	case "delete":
		p, ok := w.pickIn(b)
		if !ok || len(w.tree[b]) < 2 {
			return false
		}
		w.remove(kind, b, p)
	case "rename":
		p, ok := w.pickIn(b)
		q, ok2 := w.pickNotIn(b)
		if !ok || !ok2 {
			return false
		}
		f := w.tree[b][p]
		delete(w.tree[b], p)
		w.tree[b][q] = f
		w.emit(b, func(s *fiStream) { s.rename(p, q) })
		w.note("rename-from", b, p)
		w.note("rename-to", b, q)
	case "revert":
		sn := w.snaps[b]
		if len(sn) < 2 || len(w.cur[b].Bytes()) > 0 {
			return false
		}
		prev := sn[len(sn)-2]
		for _, p := range sortedKeys(w.tree[b]) {
			if pf, in := prev[p]; !in || pf != w.tree[b][p] {
				w.curPaths[p] = append(w.curPaths[p], "revert@"+b)
			}
		}
		for _, p := range sortedKeys(prev) {
			if _, in := w.tree[b][p]; !in {
				w.curPaths[p] = append(w.curPaths[p], "revert@"+b)
			}
		}
		w.tree[b] = prev.clone()
		w.emit(b, func(s *fiStream) {
			s.deleteall()
			for _, p := range sortedKeys(prev) {
				if prev[p].Link != "" {
					fmt.Fprintf(&s.buf, "M 160000 %s %s\n", prev[p].Link, fiQuote(p))
					continue
				}
				s.modify(w.mode(prev[p]), p, []byte(prev[p].Content))
			}
		})
		w.curOps = append(w.curOps, "revert@"+b)
	case "copy-to-other":
		p, ok := w.pickIn(b)
		o := w.other(b)
		if !ok || w.tree[o][p] == w.tree[b][p] {
			return false
		}
		w.put(kind, o, p, w.tree[b][p])
	case "same-on-two":
		o := w.other(b)
		p, ok := w.pickNotIn(b, o)
		if !ok {
			return false
		}
		f := c13File{Content: w.content()}
		w.put(kind, b, p, f)
		w.put(kind, o, p, f)
	case "move-between":
		p, ok := w.pickIn(b)
		o := w.other(b)
		if !ok || len(w.tree[b]) < 2 {
			return false
		}
		f := w.tree[b][p]
		w.remove("move-out", b, p)
		w.put("move-in", o, p, f)
	case "to-gitlink":
		// a file replaced, at the same path, by a submodule link (never a document)
		p, ok := w.pickIn(b)
		if !ok {
			return false
		}
		w.put(kind, b, p, c13File{Link: fmt.Sprintf("%040x", w.r.Uint64())})
	case "from-gitlink":
		var l []string
		for _, p := range sortedKeys(w.tree[b]) {
			if w.tree[b][p].Link != "" {
				l = append(l, p)
			}
		}
		if len(l) == 0 {
			return false
		}
		w.put(kind, b, l[w.r.IntN(len(l))], c13File{Content: w.content()})
	case "chmod":
		p, ok := w.pickIn(b)
		if !ok {
			return false
		}
		f := w.tree[b][p]
		f.Exec = !f.Exec
		w.put(kind, b, p, f)
	}
	return true
}

// commitStep turns the buffered per-branch fragments into one fast-import run.
func (w *c13World) commitStep(msg string) (string, error) {
	s := &fiStream{clock: &w.clock}
	for _, b := range w.branches {
		fr := w.cur[b]
		if fr == nil || fr.Len() == 0 {
			continue
		}
		from := ""
		if len(w.snaps[b]) > 0 {
			from = "refs/heads/" + b + "^0"
		}
		s.commit(b, msg, from)
		s.buf.Write(fr.Bytes())
		s.buf.WriteByte('\n')
	}
	if err := s.run(w.dir); err != nil {
		return s.buf.String(), err
	}
	for _, b := range w.branches {
		if fr := w.cur[b]; fr != nil && fr.Len() > 0 {
			w.snaps[b] = append(w.snaps[b], w.tree[b].clone())
		}
	}
	return s.buf.String(), nil
}

func (w *c13World) begin() {
	w.cur = map[string]*bytes.Buffer{}
	for _, b := range w.branches {
		w.cur[b] = &bytes.Buffer{}
	}
	w.curOps = nil
	w.curPaths = map[string][]string{}
}

// selfCheck compares the model with what git holds.
func (w *c13World) selfCheck() string {
	for _, b := range w.branches {
		got, err := lsTree(w.dir, "refs/heads/"+b)
		if err != nil {
			return err.Error()
		}
		want := map[string]string{}
		for p, f := range w.tree[b] {
			want[p] = w.mode(f) + " " + blobSHA([]byte(f.Content))
			if f.Link != "" {
				want[p] = "160000 " + f.Link
			}
		}
		if len(got) != len(want) {
			return fmt.Sprintf("branch %s: git has %d paths, model %d", b, len(got), len(want))
		}
		for p, v := range want {
			if got[p] != v {
				return fmt.Sprintf("branch %s path %q: git %q model %q", b, p, got[p], v)
			}
		}
	}
	return ""
}

type c13Diff struct {
	Kind, Path, Detail string
}

// c13Compare judges one branch view against the model's head tree.
func c13Compare(docs []seenDoc, want c13Tree) []c13Diff {
	got := map[string][]string{}
	for _, d := range docs {
		got[d.Name] = append(got[d.Name], d.Content)
	}
	var out []c13Diff
	files := c13Tree{}
	for p, f := range want {
		if f.Link == "" {
			files[p] = f
		}
	}
	want = files
	for _, p := range sortedKeys(want) {
		g := got[p]
		switch {
		case len(g) == 0:
			out = append(out, c13Diff{"missing", p, "no document for a path of the head tree"})
		case len(g) > 1:
			out = append(out, c13Diff{"duplicate", p, fmt.Sprintf("%d documents: %q", len(g), g)})
		case g[0] != want[p].Content:
			out = append(out, c13Diff{"stale", p, fmt.Sprintf("content %q, head has %q", clip(g[0], 80), clip(want[p].Content, 80))})
		}
	}
	for _, p := range sortedKeys(got) {
		if _, in := want[p]; !in {
			out = append(out, c13Diff{"extra", p, fmt.Sprintf("document for a path absent from the head: %q", got[p])})
		}
	}
	return out
}

// pattern renders what happened to path during the last two steps, relative to
// the failing branch.
func (w *c13World) pattern(path, branch string) string {
	part := func(i int) string {
		if i < 0 || i >= len(w.pathOps) {
			return "-"
		}
		set := map[string]bool{}
		for _, o := range w.pathOps[i][path] {
			kb := strings.SplitN(o, "@", 2)
			who := "other"
			if kb[1] == branch {
				who = "this"
			}
			set[kb[0]+"@"+who] = true
		}
		if len(set) == 0 {
			return "-"
		}
		return strings.Join(sortedKeys(set), "+")
	}
	n := len(w.pathOps)
	return "prev[" + part(n-2) + "] last[" + part(n-1) + "]"
}

func firstShardInode(dir string) uint64 {
	m, _ := filepath.Glob(filepath.Join(dir, "*.00000.zoekt"))
	if len(m) != 1 {
		return 0
	}
	fi, err := os.Stat(m[0])
	if err != nil {
		return 0
	}
	if st, ok := fi.Sys().(*syscall.Stat_t); ok {
		return st.Ino
	}
	return 0
}

func fallbackClass(logs string) string {
	i := strings.Index(logs, "falling back to normal build")
	if i < 0 {
		return ""
	}
	l := logs[i:]
	if j := strings.IndexByte(l, '\n'); j > 0 {
		l = l[:j]
	}
	switch {
	case strings.Contains(l, "no existing shards"):
		return "no-previous-index"
	case strings.Contains(l, "requested shard threshold"):
		return "shard-threshold"
	case strings.Contains(l, "branch set"):
		return "branch-set-changed"
	case strings.Contains(l, "index options"):
		return "options-changed"
	case strings.Contains(l, "not yet supported in delta"):
		return "ignore-file"
	}
	return "other: " + kit.MsgClass(clip(l, 120))
}

func TestVerif_C13(t *testing.T) {
	rec := kit.Open("C13")
	defer rec.Done()
	defer captureLogs()()
	nHist := rec.N(40, 1500)
	// histories are independent (own repository, own index directory, own PRNG
	// stream, own repository name in zoekt's log lines): run a few side by side
	var wg sync.WaitGroup
	next := make(chan int)
	for k := 0; k < 8; k++ {
		wg.Add(1)
		go func() {
			defer wg.Done()
			for hi := range next {
				c13History(rec, hi)
			}
		}()
	}
	for hi := 0; hi < nHist; hi++ {
		next <- hi
	}
	close(next)
	wg.Wait()
}

func c13History(rec *kit.Rec, hi int) {
	r := rec.Rand(uint64(1000 + hi))
	root := filepath.Join(rec.Work, fmt.Sprintf("c13-%d", hi))
	defer os.RemoveAll(root)
	w := &c13World{r: r, dir: filepath.Join(root, "repo"), tree: map[string]c13Tree{}, snaps: map[string][]c13Tree{}}
	idx := filepath.Join(root, "idx")
	if err := os.MkdirAll(w.dir, 0o755); err != nil {
		rec.Violation("harness/mkdir", err.Error(), nil)
		return
	}
	if _, err := git(w.dir, nil, "init", "-q", "-b", "main"); err != nil {
		rec.Violation("harness/git-init", err.Error(), nil)
		return
	}
	w.branches = []string{"main", "dev", "rel"}[:2+r.IntN(2)]
	w.gitlinks = hi%4 == 3
	for _, b := range w.branches {
		w.tree[b] = c13Tree{}
	}

	// history-wide configuration
	repoName := fmt.Sprintf("verif/c13-%d", hi)
	shardMax := []int{1 << 20, 1 << 20, 150, 400}[r.IntN(4)]
	threshold := []uint64{0, 0, 2, 4, 50}[r.IntN(5)]
	repoDir := w.dir
	if r.IntN(2) == 0 {
		repoDir = filepath.Join(w.dir, ".git")
	}
	idxBranches := append([]string(nil), w.branches...)
	if len(w.branches) == 3 && r.IntN(3) == 0 {
		idxBranches = idxBranches[:2] // the third branch changes but is not indexed
	}
	if r.IntN(3) == 0 {
		r.Shuffle(len(idxBranches), func(i, j int) { idxBranches[i], idxBranches[j] = idxBranches[j], idxBranches[i] })
	}
	nSteps := 3 + r.IntN(6)
	switchAt := -1
	if len(w.branches) == 3 && r.IntN(8) == 0 {
		switchAt = 1 + r.IntN(nSteps)
	}
	sizeSwitchAt := -1
	if r.IntN(12) == 0 {
		sizeSwitchAt = 1 + r.IntN(nSteps)
	}
	sizeMax := 0

	witness := func(extra map[string]any) any {
		m := map[string]any{"history": hi, "branches": w.branches, "shard_max": shardMax, "delta_shard_threshold": threshold,
			"repo_dir_is_dotgit": repoDir != w.dir, "steps": w.steps,
			"replay": "git init -q -b main; feed each step's fast_import text to `git fast-import`; after each step run gitindex.IndexGitRepo with the step's delta flag and indexed_branches"}
		heads := map[string]any{}
		for _, b := range w.branches {
			heads[b] = w.tree[b]
		}
		m["model_heads"] = heads
		for k, v := range extra {
			m[k] = v
		}
		return m
	}

	for si := 0; si <= nSteps; si++ {
		w.begin()
		if si == 0 {
			// setup: root commit on main, the other branches fork from it
			for i, n := 0, 3+r.IntN(3); i < n; i++ {
				if p, ok := w.pickNotIn("main"); ok {
					w.put("add", "main", p, c13File{Content: w.content()})
				}
			}
			stream, err := w.commitStep("setup")
			if err != nil {
				rec.Violation("harness/fast-import", err.Error(), stream)
				return
			}
			s := &fiStream{clock: &w.clock}
			for _, b := range w.branches[1:] {
				w.tree[b] = w.tree["main"].clone()
				s.commit(b, "fork "+b, "refs/heads/main^0")
				if r.IntN(2) == 0 {
					p := sortedKeys(w.tree[b])[0]
					f := w.tree[b][p]
					f.Content = w.content() + "forked\n"
					w.tree[b][p] = f
					s.modify(w.mode(f), p, []byte(f.Content))
					w.note("modify", b, p)
				}
				s.buf.WriteByte('\n')
				w.snaps[b] = append(w.snaps[b], w.tree[b].clone())
			}
			if err := s.run(w.dir); err != nil {
				rec.Violation("harness/fast-import", err.Error(), s.buf.String())
				return
			}
			w.steps = append(w.steps, c13Step{Ops: w.curOps, Stream: stream + s.buf.String()})
		} else {
			nOps := 1 + r.IntN(3)
			for done, tries := 0, 0; done < nOps && tries < 40; tries++ {
				if w.op() {
					done++
				}
			}
			stream, err := w.commitStep(fmt.Sprintf("step %d", si))
			if err != nil {
				rec.Violation("harness/fast-import", err.Error(), witness(map[string]any{"stream": stream}))
				return
			}
			w.steps = append(w.steps, c13Step{Ops: w.curOps, Stream: stream})
		}
		w.pathOps = append(w.pathOps, w.curPaths)
		st := &w.steps[len(w.steps)-1]
		if d := w.selfCheck(); d != "" {
			rec.Violation("harness/model-differs-from-git", d, witness(nil))
			return
		}
		for _, o := range w.curOps {
			rec.Count("ops/"+strings.SplitN(o, "@", 2)[0], 1)
		}
		if si == switchAt {
			if len(idxBranches) == 3 {
				idxBranches = idxBranches[:2]
			} else {
				idxBranches = append([]string(nil), w.branches...)
			}
		}
		if si == sizeSwitchAt {
			sizeMax = 1 << 20
		}

		// ---- the indexing run under observation
		delta := r.IntN(100) < 70
		mk := func(dir string, isDelta bool) gitindex.Options {
			return gitindex.Options{
				RepoDir:  repoDir,
				Branches: append([]string(nil), idxBranches...),
				BuildOptions: index.Options{
					IndexDir:              dir,
					RepositoryDescription: zoekt.Repository{Name: repoName, ID: 77},
					IsDelta:               isDelta,
					DisableCTags:          true,
					ShardMax:              shardMax,
					Parallelism:           1,
					SizeMax:               sizeMax,
				},
				DeltaShardNumberFallbackThreshold: threshold,
			}
		}
		shardsBefore := countShards(idx)
		firstShard := firstShardInode(idx)
		var ierr error
		msg, stack, panicked := kit.Guard(func() { _, ierr = gitindex.IndexGitRepo(mk(idx, delta)) })
		logs := captured.takeMatching(fmt.Sprintf("%q", repoName))
		st.Delta, st.Branches = delta, append([]string(nil), idxBranches...)
		st.Fallback = fallbackClass(logs)
		st.Taken = delta && st.Fallback == ""
		st.ShardsPost = countShards(idx)
		mode := "full"
		if delta {
			mode = "delta"
		}
		rec.Count("steps", 1)
		rec.Count("index_runs_"+mode+"_requested", 1)
		if panicked {
			rec.Violation("panic/"+mode+"/"+kit.PanicSite(stack)+"/"+kit.MsgClass(msg), msg, witness(map[string]any{"stack": stack}))
			return
		}
		if ierr != nil {
			rec.Violation("index error/"+mode+"/"+kit.MsgClass(ierr.Error()), ierr.Error(), witness(map[string]any{"log": clip(logs, 4000)}))
			return
		}
		// second, log-independent observation of "really a delta build": the first shard
		// file of the previous build is still the same file
		if same := firstShard != 0 && firstShardInode(idx) == firstShard; delta && same != st.Taken {
			rec.Violation("harness/delta-detection-disagrees", fmt.Sprintf("log says taken=%v, first shard kept=%v", st.Taken, same), witness(map[string]any{"log": logs}))
			return
		}
		if st.Taken {
			rec.Count("delta_builds_taken", 1)
			rec.Max("max_shards_stacked", int64(st.ShardsPost))
			if st.ShardsPost > shardsBefore {
				rec.Count("delta_builds_that_added_a_shard", 1)
			}
		} else if delta {
			rec.Count("fallback/"+st.Fallback, 1)
			rec.Seen("fallback_reasons", st.Fallback)
		}
		consecutive := 0
		for i := len(w.steps) - 1; i >= 0 && w.steps[i].Taken; i-- {
			consecutive++
		}
		rec.Max("max_consecutive_delta_builds", int64(consecutive))
		kinds := map[string]bool{}
		for _, o := range w.curOps {
			kinds[strings.SplitN(o, "@", 2)[0]] = true
		}
		key := fmt.Sprintf("%s|consec=%d|shards=%d|br=%d", strings.Join(sortedKeys(kinds), "+"), consecutive, shardsBefore, len(idxBranches))
		rec.Case(key, st.Taken && len(w.curOps) > 0, func() any {
			return map[string]any{"history": hi, "step": si, "ops": w.curOps, "delta_taken": st.Taken, "consecutive_deltas": consecutive,
				"shards_before": shardsBefore, "shards_after": st.ShardsPost, "indexed_branches": idxBranches}
		})

		// ---- observe: per-branch views of the index dir vs the model
		if !c13Views(rec, w, idx, idxBranches, "index-dir/"+mode, st.Taken, witness) {
			return
		}
		// ---- and of a fresh full build
		fresh := filepath.Join(root, "fresh")
		if si != nSteps && r.IntN(4) != 0 {
			continue // the cross-check against a fresh full build runs on the last step and on a quarter of the others
		}
		rec.Count("fresh_full_build_cross_checks", 1)
		msg, stack, panicked = kit.Guard(func() { _, ierr = gitindex.IndexGitRepo(mk(fresh, false)) })
		if panicked || ierr != nil {
			rec.Violation("index error/fresh-full/"+kit.MsgClass(msg+fmt.Sprint(ierr)), msg+fmt.Sprint(ierr), witness(map[string]any{"stack": stack}))
			os.RemoveAll(fresh)
			return
		}
		ok := c13Views(rec, w, fresh, idxBranches, "fresh-full", false, witness)
		os.RemoveAll(fresh)
		if !ok {
			return
		}
	}
}

// c13Views checks every indexed branch of dir against the model. It returns false
// after reporting a violation (the history is abandoned: later steps would only
// repeat it).
func c13Views(rec *kit.Rec, w *c13World, dir string, branches []string, what string, deltaTaken bool, witness func(map[string]any) any) bool {
	s, err := openDir(dir)
	if err != nil {
		rec.Violation("harness/open-index-dir", err.Error(), witness(nil))
		return false
	}
	defer s.Close()
	for _, b := range branches {
		docs, err := searchDocs(s, branchQuery(b))
		if err != nil {
			rec.Violation("search error/"+what+"/"+kit.MsgClass(err.Error()), err.Error(), witness(map[string]any{"branch": b}))
			return false
		}
		rec.Count("branch_views_checked", 1)
		diffs := c13Compare(docs, w.tree[b])
		if len(diffs) == 0 {
			continue
		}
		d := diffs[0]
		sig := fmt.Sprintf("%s view wrong/%s/%s", what, d.Kind, w.pattern(d.Path, b))
		if n := len(w.pathOps); n > 0 {
			// one stable signature for the file <-> submodule link transitions
			for _, o := range w.pathOps[n-1][d.Path] {
				switch o {
				case "to-gitlink@" + b:
					sig = fmt.Sprintf("%s view wrong/%s/file replaced by a gitlink at the same path", what, d.Kind)
				case "from-gitlink@" + b:
					sig = fmt.Sprintf("%s view wrong/%s/gitlink replaced by a file at the same path", what, d.Kind)
				}
			}
		}
		if strings.HasPrefix(what, "index-dir/") && !deltaTaken {
			sig = fmt.Sprintf("%s (full build taken) view wrong/%s", what, d.Kind)
		}
		rec.Violation(sig, fmt.Sprintf("branch %q path %q: %s", b, d.Path, d.Detail),
			witness(map[string]any{"failing_branch": b, "failing_path": d.Path, "all_differences": diffs, "view": docs, "observed_in": what}))
		return false
	}
	return true
}
