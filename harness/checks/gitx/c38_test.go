package gitx

import (
	"context"
	"fmt"
	"math/rand/v2"
	"os"
	"path/filepath"
	"reflect"
	"sort"
	"strings"
	"sync"
	"testing"
	"time"

	"github.com/sourcegraph/zoekt"
	"github.com/sourcegraph/zoekt/index"
	"github.com/sourcegraph/zoekt/internal/ctags"
	kit "github.com/sourcegraph/zoekt/internal/verifkit"
	"github.com/sourcegraph/zoekt/query"
)

// C38: incremental indexing skips only up-to-date repositories.
//
// A case is a pair (O1, O2) of build-option sets + repository descriptions. The
// index is built with O1 (index.Builder), then O2.IndexState() is asked. Oracles:
//  (1) differential, needs no knowledge of the option hash: when the verdict means
//      "no re-index" (equal or meta-mismatch) the index actually built with O2 must
//      expose the same searchable content (documents with content / skip markers and
//      branch lists, the repository's branch names+versions, HasSymbols);
//  (2) a change confined to the fields Repository.MergeMutable documents as mutable
//      must be classified meta-mismatch, and after the metadata merge (the sequence
//      indexserver's mergeMeta performs: ReadMetadataPath, MergeMutable, write .meta,
//      rename) the content is untouched, the new metadata is served and the verdict
//      becomes equal.

type c38Set struct {
	SizeMax, TrigramMax, ShardMax, Parallelism int
	LargeFiles                                 []string
	DisableCTags, CTagsMustSucceed             bool
	CTagsPath, ScipCTagsPath                   string
	LanguageMap                                ctags.LanguageMap
	ShardMerging                               bool

	Name                           string
	ID                             uint32
	Branches                       []zoekt.RepositoryBranch
	URL, CommitT, FileT, LineFragT string
	RawConfig                      map[string]string
	Rank                           uint16
	Metadata                       map[string]string
	Source                         string
	LatestCommit                   time.Time

	swap  bool     // Branch.order: first two branches exchanged
	roles []string // branch names by role (first, second, third-or-first), independent of the order
}

// class of a dimension change
const (
	clOption    = "option"     // build option; whether it affects content is decided by the differential
	clSymbol    = "symbol"     // symbol related build option
	clBranches  = "branches"   // branch names / versions / set / order
	clIdentity  = "identity"   // repository name / id
	clMeta      = "meta"       // documented mutable by MergeMutable
	clMetaOther = "meta-other" // description field MergeMutable does not mention, or a RawConfig key removal
)

type c38Dim struct {
	name   string
	n      int
	set    func(o *c38Set, v int)
	class  func(from, to int) string
	baseOK func(v int) bool
}

func constClass(c string) func(int, int) string { return func(int, int) string { return c } }

var c38Dims = []c38Dim{
	{name: "SizeMax", n: 3, class: constClass(clOption), set: func(o *c38Set, v int) { o.SizeMax = []int{0, 400, 800}[v] }},
	{name: "TrigramMax", n: 3, class: constClass(clOption), set: func(o *c38Set, v int) { o.TrigramMax = []int{0, 50, 150}[v] }},
	{name: "ShardMax", n: 2, class: constClass(clOption), set: func(o *c38Set, v int) { o.ShardMax = []int{0, 1500}[v] }},
	{name: "Parallelism", n: 2, class: constClass(clOption), set: func(o *c38Set, v int) { o.Parallelism = []int{0, 1}[v] }},
	{name: "LargeFiles", n: 5, class: constClass(clOption), set: func(o *c38Set, v int) {
		o.LargeFiles = [][]string{nil, {"*.big"}, {"big/**"}, {"*.big", "!keep.big"}, {"!keep.big", "*.big"}}[v]
	}},
	{name: "ShardMerging", n: 2, class: constClass(clOption), set: func(o *c38Set, v int) { o.ShardMerging = v == 1 }},
	{name: "DisableCTags", n: 2, class: constClass(clSymbol), set: func(o *c38Set, v int) { o.DisableCTags = v == 0 }},
	{name: "CTagsPath", n: 3, class: constClass(clSymbol), set: func(o *c38Set, v int) {
		o.CTagsPath = []string{"", "/nonexistent/verif/universal-ctags", "/nonexistent/verif/other/universal-ctags"}[v]
	}},
	{name: "ScipCTagsPath", n: 2, class: constClass(clSymbol), set: func(o *c38Set, v int) { o.ScipCTagsPath = []string{"", "/nonexistent/verif/scip-ctags"}[v] }},
	{name: "CTagsMustSucceed", n: 2, class: constClass(clSymbol), baseOK: func(v int) bool { return v == 0 }, set: func(o *c38Set, v int) { o.CTagsMustSucceed = v == 1 }},
	{name: "LanguageMap", n: 3, class: constClass(clSymbol), set: func(o *c38Set, v int) {
		o.LanguageMap = []ctags.LanguageMap{nil, {"go": ctags.NoCTags}, {"go": ctags.ScipCTags}}[v]
	}},

	{name: "Branch.version", n: 3, class: constClass(clBranches), set: func(o *c38Set, v int) {
		switch v {
		case 1:
			o.Branches[1].Version = "2222222222222222222222222222222222222222"
		case 2:
			o.Branches[0].Version = "3333333333333333333333333333333333333333"
		}
	}},
	{name: "Branch.name", n: 2, class: constClass(clBranches), set: func(o *c38Set, v int) {
		if v == 1 {
			o.Branches[0].Name = "trunk"
		}
	}},
	{name: "Branch.third", n: 2, class: constClass(clBranches), set: func(o *c38Set, v int) {
		if v == 1 {
			o.Branches = append(o.Branches, zoekt.RepositoryBranch{Name: "rel", Version: "4444444444444444444444444444444444444444"})
		}
	}},
	{name: "Branch.order", n: 2, class: constClass(clBranches), set: func(o *c38Set, v int) {
		o.swap = v == 1
	}},

	{name: "Name", n: 2, class: constClass(clIdentity), set: func(o *c38Set, v int) { o.Name = []string{"verif/c38", "verif/c38-renamed"}[v] }},
	{name: "ID", n: 2, class: constClass(clIdentity), set: func(o *c38Set, v int) { o.ID = []uint32{38, 39}[v] }},

	{name: "URL", n: 2, class: constClass(clMeta), set: func(o *c38Set, v int) {
		o.URL = []string{"https://example.com/verif/c38", "https://git.example.org/c38"}[v]
	}},
	{name: "CommitURLTemplate", n: 2, class: constClass(clMeta), set: func(o *c38Set, v int) {
		o.CommitT = []string{"{{.Version}}", "https://example.com/c/{{.Version}}"}[v]
	}},
	{name: "FileURLTemplate", n: 2, class: constClass(clMeta), set: func(o *c38Set, v int) {
		o.FileT = []string{"{{.Path}}", "https://example.com/b/{{.Version}}/{{.Path}}"}[v]
	}},
	{name: "LineFragmentTemplate", n: 2, class: constClass(clMeta), set: func(o *c38Set, v int) { o.LineFragT = []string{"#L{{.LineNumber}}", ";l={{.LineNumber}}"}[v] }},
	{name: "RawConfig.value", n: 3, class: constClass(clMeta), set: func(o *c38Set, v int) { o.RawConfig["public"] = []string{"1", "0", "2"}[v] }},
	{name: "RawConfig.key", n: 2, set: func(o *c38Set, v int) {
		if v == 1 {
			o.RawConfig["fork"] = "1"
		}
	}, class: func(from, to int) string {
		if to == 1 {
			return clMeta // key added
		}
		return clMetaOther // key removed: MergeMutable merges, it never deletes
	}},
	{name: "RawConfig.priority", n: 2, class: constClass(clMeta), set: func(o *c38Set, v int) { o.RawConfig["priority"] = []string{"10", "5000"}[v] }},

	{name: "Rank", n: 2, class: constClass(clMetaOther), set: func(o *c38Set, v int) { o.Rank = []uint16{0, 900}[v] }},
	{name: "Metadata", n: 2, class: constClass(clMetaOther), set: func(o *c38Set, v int) {
		if v == 1 {
			o.Metadata = map[string]string{"team": "search"}
		}
	}},
	{name: "Source", n: 2, class: constClass(clMetaOther), set: func(o *c38Set, v int) { o.Source = []string{"/src/a", "/src/b"}[v] }},
	{name: "LatestCommitDate", n: 2, class: constClass(clMetaOther), set: func(o *c38Set, v int) {
		o.LatestCommit = []time.Time{time.Unix(1700000000, 0).UTC(), time.Unix(1800000000, 0).UTC()}[v]
	}},
}

func c38Make(vals []int) *c38Set {
	o := &c38Set{
		Branches: []zoekt.RepositoryBranch{
			{Name: "main", Version: "1111111111111111111111111111111111111111"},
			{Name: "dev", Version: "1212121212121212121212121212121212121212"},
		},
		RawConfig: map[string]string{},
	}
	for i, d := range c38Dims {
		d.set(o, vals[i])
	}
	for _, b := range o.Branches {
		o.roles = append(o.roles, b.Name)
	}
	if len(o.roles) < 3 {
		o.roles = append(o.roles, o.roles[0])
	}
	if o.swap {
		o.Branches[0], o.Branches[1] = o.Branches[1], o.Branches[0]
	}
	return o
}

func (o *c38Set) options(dir string) index.Options {
	rc := map[string]string{}
	for k, v := range o.RawConfig {
		rc[k] = v
	}
	opts := index.Options{
		IndexDir: dir, SizeMax: o.SizeMax, TrigramMax: o.TrigramMax, ShardMax: o.ShardMax, Parallelism: o.Parallelism,
		LargeFiles: append([]string(nil), o.LargeFiles...), DisableCTags: o.DisableCTags, CTagsMustSucceed: o.CTagsMustSucceed,
		CTagsPath: o.CTagsPath, ScipCTagsPath: o.ScipCTagsPath, LanguageMap: o.LanguageMap, ShardMerging: o.ShardMerging,
		RepositoryDescription: zoekt.Repository{
			Name: o.Name, ID: o.ID, Branches: append([]zoekt.RepositoryBranch(nil), o.Branches...), URL: o.URL,
			CommitURLTemplate: o.CommitT, FileURLTemplate: o.FileT, LineFragmentTemplate: o.LineFragT, RawConfig: rc,
			Rank: o.Rank, Metadata: o.Metadata, Source: o.Source, LatestCommitDate: o.LatestCommit,
		},
	}
	opts.SetDefaults()
	return opts
}

// ---- corpus sensitive to every content option

type c38Doc struct {
	Name, Content string
	On            []int // branch roles: 0 first, 1 second, 2 third (the first one when there are only two)
}

func c38Filler(word string, n int) string {
	var b strings.Builder
	for b.Len() < n {
		b.WriteString(word)
		b.WriteString(" lorem ipsum\n")
	}
	return b.String()[:n]
}

func c38Alnum(r *rand.Rand, n int) string {
	const cs = "abcdefghijklmnopqrstuvwxyzABCDEFGHIJKLMNOPQRSTUVWXYZ0123456789"
	b := make([]byte, n)
	for i := range b {
		b[i] = cs[r.IntN(len(cs))]
	}
	return string(b)
}

func c38Corpus(r *rand.Rand) []c38Doc {
	w := []string{"quux", "zorb", "plim", "vasd"}[r.IntN(4)]
	return []c38Doc{
		{"small.txt", "hello small " + w + " file\n", []int{0, 1, 2}},
		{"s390.txt", c38Filler(w, 390), []int{0}},
		{"s401.txt", c38Filler(w, 401), []int{1}},
		{"s790.txt", c38Filler(w, 790), []int{0, 1}},
		{"s801.txt", c38Filler(w, 801), []int{0, 2}},
		{"tri110.txt", c38Alnum(r, 110), []int{0}},
		{"tri260.txt", c38Alnum(r, 260), []int{1}},
		{"x.big", c38Filler(w, 900), []int{0, 1}},
		{"keep.big", c38Filler(w+"k", 900), []int{0}},
		{"big/y.txt", c38Filler(w+"y", 900), []int{1}},
		{"tri.big", c38Alnum(r, 300), []int{0}},
		{"bin.dat", "abc\x00def " + w + "\x00\x01\x02", []int{0, 1}},
		{"dup.txt", "version on first " + w + "\n", []int{0}},
		{"dup.txt", "version on second " + w + "\n", []int{1}},
		{"main.go", "package main\n\nfunc " + w + "() {}\n", []int{0, 1, 2}},
	}
}

func c38Build(o *c38Set, dir string, corpus []c38Doc) error {
	b, err := index.NewBuilder(o.options(dir))
	if err != nil {
		return err
	}
	for _, d := range corpus {
		set := map[string]bool{}
		for _, i := range d.On {
			set[o.roles[i]] = true
		}
		if err := b.Add(index.Document{Name: d.Name, Content: []byte(d.Content), Branches: sortedKeys(set)}); err != nil {
			b.Finish()
			return err
		}
	}
	return b.Finish()
}

type c38Sig struct {
	Docs       []seenDoc
	Branches   []zoekt.RepositoryBranch
	HasSymbols bool
	Repo       zoekt.Repository `json:"-"`
}

func c38Read(dir, name string) (*c38Sig, error) {
	s, err := openDir(dir)
	if err != nil {
		return nil, err
	}
	defer s.Close()
	docs, err := searchDocs(s, &query.Const{Value: true})
	if err != nil {
		return nil, err
	}
	rl, err := s.List(context.Background(), &query.Const{Value: true}, nil)
	if err != nil {
		return nil, err
	}
	sig := &c38Sig{Docs: docs}
	n := 0
	for _, e := range rl.Repos {
		if e.Repository.Name == name {
			n++
			sig.Branches = e.Repository.Branches
			sig.HasSymbols = e.Repository.HasSymbols
			sig.Repo = e.Repository
		}
	}
	if n != 1 {
		return nil, fmt.Errorf("List returned %d entries for %q (of %d)", n, name, len(rl.Repos))
	}
	return sig, nil
}

func (a *c38Sig) diff(b *c38Sig) string {
	if !reflect.DeepEqual(a.Branches, b.Branches) {
		return fmt.Sprintf("repository branches %v vs %v", a.Branches, b.Branches)
	}
	if a.HasSymbols != b.HasSymbols {
		return fmt.Sprintf("HasSymbols %v vs %v", a.HasSymbols, b.HasSymbols)
	}
	key := func(d seenDoc) string { return d.Name + "\x00" + d.Content + "\x00" + strings.Join(d.Branches, ",") }
	am, bm := map[string]int{}, map[string]int{}
	for _, d := range a.Docs {
		am[key(d)]++
	}
	for _, d := range b.Docs {
		bm[key(d)]++
	}
	var l []string
	for _, d := range a.Docs {
		if bm[key(d)] != am[key(d)] {
			l = append(l, fmt.Sprintf("existing index: %s %v %q", d.Name, d.Branches, clip(d.Content, 50)))
		}
	}
	for _, d := range b.Docs {
		if bm[key(d)] != am[key(d)] {
			l = append(l, fmt.Sprintf("re-indexed: %s %v %q", d.Name, d.Branches, clip(d.Content, 50)))
		}
	}
	sort.Strings(l)
	return strings.Join(l, "; ")
}

// c38ApplyMeta performs the metadata merge the way indexserver's mergeMeta does,
// with the exported building blocks.
func c38ApplyMeta(o *index.Options) error {
	for _, fn := range o.FindAllShards() {
		repos, md, err := index.ReadMetadataPath(fn)
		if err != nil {
			return err
		}
		var repo *zoekt.Repository
		for _, c := range repos {
			if c.Name == o.RepositoryDescription.Name {
				repo = c
				break
			}
		}
		if repo == nil {
			return fmt.Errorf("repo not found in %s", fn)
		}
		if updated, err := repo.MergeMutable(&o.RepositoryDescription); err != nil {
			return err
		} else if !updated {
			continue
		}
		var merged any = repos
		if md.IndexFormatVersion < 17 {
			merged = repo // <= v16 sidecars hold a single repository, not a list
		}
		tmp, dst, err := index.JsonMarshalRepoMetaTemp(fn, merged)
		if err != nil {
			return err
		}
		if err := os.Rename(tmp, dst); err != nil {
			return err
		}
	}
	return nil
}

type c38Outcome struct {
	Class  string // "" = nothing to report
	Detail string
	State  index.IndexState
}

// c38Base is an index built once with the base option set; cases work on copies.
type c38Base struct {
	vals   []int
	dir    string
	corpus []c38Doc
	before *c38Sig
}

func copyDir(src, dst string) error {
	if err := os.MkdirAll(dst, 0o755); err != nil {
		return err
	}
	ents, err := os.ReadDir(src)
	if err != nil {
		return err
	}
	for _, e := range ents {
		b, err := os.ReadFile(filepath.Join(src, e.Name()))
		if err != nil {
			return err
		}
		if err := os.WriteFile(filepath.Join(dst, e.Name()), b, 0o644); err != nil {
			return err
		}
	}
	return nil
}

// c38Eval judges v2 against (a private copy of) the index built with the base set
// and applies every oracle.
func c38Eval(rec *kit.Rec, work string, base *c38Base, v2 []int, count bool) c38Outcome {
	v1, corpus := base.vals, base.corpus
	o1, o2 := c38Make(v1), c38Make(v2)
	dir := filepath.Join(work, "idx")
	dir2 := filepath.Join(work, "idx2")
	defer os.RemoveAll(work)
	if err := copyDir(base.dir, dir); err != nil {
		return c38Outcome{Class: "harness/copy base index", Detail: err.Error()}
	}
	q := o2.options(dir)
	state, _ := q.IndexState()
	out := c38Outcome{State: state}
	noReindex := state == index.IndexStateEqual || state == index.IndexStateMeta
	before := base.before

	classes := map[string]bool{}
	var changed []string
	for i, d := range c38Dims {
		if v1[i] != v2[i] {
			classes[d.class(v1[i], v2[i])] = true
			changed = append(changed, d.name)
		}
	}
	metaOnly := len(changed) > 0 && len(classes) == 1 && classes[clMeta]

	if noReindex {
		// (1) differential: what would a re-index with O2 have produced?
		if err := c38Build(o2, dir2, corpus); err != nil {
			if count {
				rec.Count("judged_uptodate_but_O2_not_buildable_here", 1)
			}
		} else {
			after, err := c38Read(dir2, o2.Name)
			if err != nil {
				return c38Outcome{Class: "harness/read O2 index", Detail: err.Error(), State: state}
			}
			if count {
				rec.Count("differential_rebuilds", 1)
			}
			if d := before.diff(after); d != "" {
				out.Class = "judged up to date but a re-index changes searchable content"
				out.Detail = d
				return out
			}
		}
	}
	if classes[clBranches] && noReindex {
		out.Class = "branch change judged up to date"
		out.Detail = fmt.Sprintf("index has %v, options ask %v", o1.Branches, o2.Branches)
		return out
	}
	if metaOnly && state != index.IndexStateMeta {
		out.Class = "metadata-only change not classified meta-mismatch"
		out.Detail = fmt.Sprintf("changed only %v", changed)
		return out
	}
	if state == index.IndexStateMeta {
		// (2) merge and re-observe
		if err := c38ApplyMeta(&q); err != nil {
			out.Class = "meta merge/error/" + kit.MsgClass(err.Error())
			out.Detail = err.Error()
			return out
		}
		if count {
			rec.Count("meta_merges_applied", 1)
		}
		merged, err := c38Read(dir, o1.Name)
		if err != nil {
			return c38Outcome{Class: "meta merge/index unreadable afterwards", Detail: err.Error() + " log: " + clip(captured.take(), 1500), State: state}
		}
		if d := before.diff(merged); d != "" {
			out.Class = "meta merge/content changed"
			out.Detail = d
			return out
		}
		want := map[string]string{}
		for k, v := range o1.RawConfig {
			want[k] = v
		}
		for k, v := range o2.RawConfig {
			want[k] = v
		}
		got := merged.Repo
		for _, f := range []struct{ n, g, w string }{
			{"URL", got.URL, o2.URL}, {"CommitURLTemplate", got.CommitURLTemplate, o2.CommitT},
			{"FileURLTemplate", got.FileURLTemplate, o2.FileT}, {"LineFragmentTemplate", got.LineFragmentTemplate, o2.LineFragT},
		} {
			if f.g != f.w {
				out.Class = "meta merge/not applied/" + f.n
				out.Detail = fmt.Sprintf("%s is %q after the merge, options say %q", f.n, f.g, f.w)
				return out
			}
		}
		for k, v := range want {
			if got.RawConfig[k] != v {
				out.Class = "meta merge/not applied/RawConfig"
				out.Detail = fmt.Sprintf("RawConfig[%q] is %q after the merge, want %q", k, got.RawConfig[k], v)
				return out
			}
		}
		if st2, _ := q.IndexState(); st2 != index.IndexStateEqual {
			out.Class = "meta merge/state afterwards " + string(st2)
			out.Detail = "IndexState after a successful metadata merge should be equal"
			return out
		}
	}
	return out
}

func c38Changed(v1, v2 []int) []string {
	var l []string
	for i, d := range c38Dims {
		if v1[i] != v2[i] {
			l = append(l, d.name)
		}
	}
	return l
}

func c38Describe(v []int) map[string]any {
	o := c38Make(v)
	return map[string]any{"SizeMax": o.SizeMax, "TrigramMax": o.TrigramMax, "ShardMax": o.ShardMax, "Parallelism": o.Parallelism,
		"LargeFiles": o.LargeFiles, "DisableCTags": o.DisableCTags, "CTagsPath": o.CTagsPath, "ScipCTagsPath": o.ScipCTagsPath,
		"CTagsMustSucceed": o.CTagsMustSucceed, "LanguageMap": o.LanguageMap, "ShardMerging": o.ShardMerging, "Name": o.Name, "ID": o.ID,
		"Branches": o.Branches, "URL": o.URL, "CommitURLTemplate": o.CommitT, "FileURLTemplate": o.FileT, "LineFragmentTemplate": o.LineFragT,
		"RawConfig": o.RawConfig, "Rank": o.Rank, "Metadata": o.Metadata, "Source": o.Source, "LatestCommitDate": o.LatestCommit}
}

func TestVerif_C38(t *testing.T) {
	rec := kit.Open("C38")
	defer rec.Done()
	defer captureLogs()()
	os.Unsetenv("CTAGS_COMMAND")
	os.Unsetenv("SCIP_CTAGS_COMMAND")
	nBase := rec.N(3, 30)
	for bi := 0; bi < nBase; bi++ {
		r := rec.Rand(uint64(3800 + bi))
		corpus := c38Corpus(r)
		base := make([]int, len(c38Dims))
		if bi > 0 {
			for i, d := range c38Dims {
				for {
					base[i] = r.IntN(d.n)
					if d.baseOK == nil || d.baseOK(base[i]) {
						break
					}
				}
			}
		}
		if bi%3 == 2 {
			// a base where option values interact: order-sensitive LargeFiles patterns (the
			// last matching pattern wins, "!" negates) next to a SizeMax that the exempted
			// files exceed, so that a change of the pattern ORDER alone changes the content
			for i, d := range c38Dims {
				switch d.name {
				case "LargeFiles":
					base[i] = 3 + r.IntN(2)
				case "SizeMax":
					base[i] = 1 + r.IntN(2)
				}
			}
		}
		root := filepath.Join(rec.Work, fmt.Sprintf("c38-%d", bi))
		bs := &c38Base{vals: base, dir: filepath.Join(root, "base"), corpus: corpus}
		if err := c38Build(c38Make(base), bs.dir, corpus); err != nil {
			rec.Violation("harness/base index not buildable", err.Error(), c38Describe(base))
			continue
		}
		var err error
		if bs.before, err = c38Read(bs.dir, c38Make(base).Name); err != nil {
			rec.Violation("harness/read base index", err.Error(), c38Describe(base))
			continue
		}
		var cases [][]int
		var memoMu sync.Mutex
		memo := map[string]string{} // single change "dim=value" -> outcome class (for reducing pairs)
		one := func(ci int, v2 []int) {
			work := filepath.Join(root, fmt.Sprintf("case-%d", ci))
			changed := c38Changed(base, v2)
			out := c38Eval(rec, work, bs, v2, true)
			rec.Count("pairs", 1)
			rec.Count("verdict/"+string(out.State), 1)
			if len(changed) == 1 {
				i := 0
				for j := range base {
					if base[j] != v2[j] {
						i = j
					}
				}
				rec.Seen("single_change_verdicts", fmt.Sprintf("%s[%s] -> %s", changed[0], c38Dims[i].class(base[i], v2[i]), out.State))
				if c := c38Dims[i].class(base[i], v2[i]); (c == clMetaOther || c == clSymbol) && (out.State == index.IndexStateEqual) {
					rec.Seen("not_judged_changes_reported_equal", changed[0])
				}
			}
			if len(changed) == 0 && out.State != index.IndexStateEqual {
				rec.Count("identical_options_not_judged_equal", 1)
			}
			rec.Case(fmt.Sprintf("base%d|%s|%v", bi, strings.Join(changed, "+"), v2), len(changed) > 0, func() any {
				return map[string]any{"base": bi, "changed": changed, "verdict": out.State}
			})
			if out.Class == "" {
				return
			}
			// reduce to the changed dimensions that reproduce the class on their own
			culprits := changed
			if len(changed) > 1 && !strings.HasPrefix(out.Class, "harness/") {
				var c []string
				for i := range base {
					if base[i] == v2[i] {
						continue
					}
					v := append([]int(nil), base...)
					v[i] = v2[i]
					mk := fmt.Sprintf("%d=%d", i, v2[i])
					memoMu.Lock()
					cl, done := memo[mk]
					memoMu.Unlock()
					if !done {
						cl = c38Eval(rec, fmt.Sprintf("%s-r%d", work, i), bs, v, false).Class
						memoMu.Lock()
						memo[mk] = cl
						memoMu.Unlock()
					}
					if cl == out.Class {
						c = append(c, c38Dims[i].name)
					}
				}
				if len(c) > 0 {
					culprits = c
				}
			}
			rec.Violation(out.Class+"/"+strings.Join(culprits, "+"), fmt.Sprintf("changed %v, IndexState=%s: %s", changed, out.State, out.Detail),
				map[string]any{"O1": c38Describe(base), "O2": c38Describe(v2), "changed": changed, "verdict": out.State, "detail": out.Detail,
					"corpus": corpus, "replay": "build O1 with index.Builder over corpus (a document's branch roles: 0 = main/trunk, 1 = dev, 2 = rel if indexed else role 0); call O2.IndexState() on that directory; build O2 into an empty directory and compare Search(const true, Whole) + List"})
		}
		cases = append(cases, append([]int(nil), base...)) // identical
		for i, d := range c38Dims {
			for v := 0; v < d.n; v++ {
				if v == base[i] {
					continue
				}
				v2 := append([]int(nil), base...)
				v2[i] = v
				cases = append(cases, v2)
			}
		}
		for i := range c38Dims {
			for j := i + 1; j < len(c38Dims); j++ {
				v2 := append([]int(nil), base...)
				for _, k := range []int{i, j} {
					for v2[k] == base[k] {
						v2[k] = r.IntN(c38Dims[k].n)
					}
				}
				cases = append(cases, v2)
			}
		}
		// the case list is fixed above; evaluation order does not matter
		var wg sync.WaitGroup
		next := make(chan int)
		for w := 0; w < 8; w++ {
			wg.Add(1)
			go func() {
				defer wg.Done()
				for ci := range next {
					one(ci, cases[ci])
				}
			}()
		}
		for ci := range cases {
			next <- ci
		}
		close(next)
		wg.Wait()
		os.RemoveAll(root)
	}
}
