// Package gitx holds the black-box monitors of the git indexing properties
// (C13 delta builds, C38 incremental skip). git_test.go: helpers shared by them —
// a scratch git repository driven through `git fast-import`, process-wide log
// capture, and reading back what an index directory exposes to searches.
package gitx

import (
	"bytes"
	"context"
	"crypto/sha1"
	"fmt"
	"log"
	"os"
	"os/exec"
	"path/filepath"
	"sort"
	"strings"
	"sync"

	"github.com/sourcegraph/zoekt"
	"github.com/sourcegraph/zoekt/query"
	"github.com/sourcegraph/zoekt/search"
)

// ---------------------------------------------------------------------------
// git

func gitEnv() []string {
	var env []string
	for _, e := range os.Environ() {
		if strings.HasPrefix(e, "GIT_") {
			continue
		}
		env = append(env, e)
	}
	return append(env,
		"GIT_CONFIG_GLOBAL=/dev/null",
		"GIT_CONFIG_NOSYSTEM=1",
		"GIT_AUTHOR_NAME=Verif", "GIT_AUTHOR_EMAIL=verif@example.com",
		"GIT_COMMITTER_NAME=Verif", "GIT_COMMITTER_EMAIL=verif@example.com",
		"GIT_AUTHOR_DATE=1700000000 +0000", "GIT_COMMITTER_DATE=1700000000 +0000",
		"LC_ALL=C",
	)
}

func git(dir string, stdin []byte, args ...string) (string, error) {
	cmd := exec.Command("git", args...)
	cmd.Dir = dir
	cmd.Env = gitEnv()
	if stdin != nil {
		cmd.Stdin = bytes.NewReader(stdin)
	}
	var out, errb bytes.Buffer
	cmd.Stdout = &out
	cmd.Stderr = &errb
	if err := cmd.Run(); err != nil {
		return out.String(), fmt.Errorf("git %s: %v: %s", strings.Join(args, " "), err, errb.String())
	}
	return out.String(), nil
}

// fiQuote renders a path for a fast-import command (always C-style quoted).
func fiQuote(p string) string {
	var b strings.Builder
	b.WriteByte('"')
	for i := 0; i < len(p); i++ {
		switch c := p[i]; c {
		case '"', '\\':
			b.WriteByte('\\')
			b.WriteByte(c)
		case '\n':
			b.WriteString("\\n")
		default:
			b.WriteByte(c)
		}
	}
	b.WriteByte('"')
	return b.String()
}

// fiStream builds one fast-import input.
type fiStream struct {
	buf   bytes.Buffer
	clock *int64
}

func (s *fiStream) data(b []byte) {
	fmt.Fprintf(&s.buf, "data %d\n", len(b))
	s.buf.Write(b)
	s.buf.WriteByte('\n')
}

// commit opens a commit on refs/heads/<branch>; from is "" for a root commit, else a
// commit-ish such as "refs/heads/main^0".
func (s *fiStream) commit(branch, msg, from string) {
	*s.clock++
	fmt.Fprintf(&s.buf, "commit refs/heads/%s\n", branch)
	fmt.Fprintf(&s.buf, "committer Verif <verif@example.com> %d +0000\n", 1700000000+*s.clock)
	s.data([]byte(msg))
	if from != "" {
		fmt.Fprintf(&s.buf, "from %s\n", from)
	}
}

func (s *fiStream) modify(mode, path string, content []byte) {
	fmt.Fprintf(&s.buf, "M %s inline %s\n", mode, fiQuote(path))
	s.data(content)
}
func (s *fiStream) del(path string)        { fmt.Fprintf(&s.buf, "D %s\n", fiQuote(path)) }
func (s *fiStream) rename(a, b string)     { fmt.Fprintf(&s.buf, "R %s %s\n", fiQuote(a), fiQuote(b)) }
func (s *fiStream) deleteall()             { s.buf.WriteString("deleteall\n") }
func (s *fiStream) run(dir string) error   { _, err := git(dir, s.buf.Bytes(), "fast-import", "--quiet"); return err }
func blobSHA(content []byte) string        { return fmt.Sprintf("%x", sha1.Sum(append([]byte(fmt.Sprintf("blob %d\x00", len(content))), content...))) }

// lsTree returns path -> "mode sha" of the tree of rev (recursive).
func lsTree(dir, rev string) (map[string]string, error) {
	out, err := git(dir, nil, "ls-tree", "-r", "-z", rev)
	if err != nil {
		return nil, err
	}
	m := map[string]string{}
	for _, rec := range strings.Split(out, "\x00") {
		if rec == "" {
			continue
		}
		tab := strings.IndexByte(rec, '\t')
		f := strings.Fields(rec[:tab])
		m[rec[tab+1:]] = f[0] + " " + f[2]
	}
	return m, nil
}

// ---------------------------------------------------------------------------
// log capture (zoekt reports delta fall-backs only through the std logger)

type logCapture struct {
	mu    sync.Mutex
	part  []byte
	lines []string
}

func (l *logCapture) Write(p []byte) (int, error) {
	l.mu.Lock()
	defer l.mu.Unlock()
	l.part = append(l.part, p...)
	for {
		i := bytes.IndexByte(l.part, '\n')
		if i < 0 {
			break
		}
		l.lines = append(l.lines, string(l.part[:i]))
		l.part = l.part[i+1:]
	}
	if len(l.lines) > 20000 {
		l.lines = l.lines[len(l.lines)-10000:]
	}
	return len(p), nil
}

// take returns and forgets everything captured so far.
func (l *logCapture) take() string {
	l.mu.Lock()
	defer l.mu.Unlock()
	s := strings.Join(l.lines, "\n")
	l.lines = nil
	return s
}

// takeMatching returns and forgets the captured lines that mention sub (workers
// running in parallel tell their lines apart by the repository name).
func (l *logCapture) takeMatching(sub string) string {
	l.mu.Lock()
	defer l.mu.Unlock()
	var hit, rest []string
	for _, x := range l.lines {
		if strings.Contains(x, sub) {
			hit = append(hit, x)
		} else {
			rest = append(rest, x)
		}
	}
	l.lines = rest
	return strings.Join(hit, "\n")
}

var captured = &logCapture{}

func captureLogs() func() {
	old := log.Writer()
	log.SetOutput(captured)
	return func() { log.SetOutput(old) }
}

// ---------------------------------------------------------------------------
// reading an index directory the way a user does

type seenDoc struct {
	Name     string
	Content  string
	Branches []string
}

func openDir(dir string) (zoekt.Streamer, error) { return search.NewDirectorySearcher(dir) }

func searchDocs(s zoekt.Searcher, q query.Q) ([]seenDoc, error) {
	res, err := s.Search(context.Background(), q, &zoekt.SearchOptions{Whole: true})
	if err != nil {
		return nil, err
	}
	if res.Stats.Crashes > 0 {
		return nil, fmt.Errorf("Stats.Crashes=%d", res.Stats.Crashes)
	}
	var out []seenDoc
	for _, f := range res.Files {
		br := append([]string(nil), f.Branches...)
		sort.Strings(br)
		out = append(out, seenDoc{Name: f.FileName, Content: string(f.Content), Branches: br})
	}
	sort.Slice(out, func(i, j int) bool {
		if out[i].Name != out[j].Name {
			return out[i].Name < out[j].Name
		}
		if out[i].Content != out[j].Content {
			return out[i].Content < out[j].Content
		}
		return strings.Join(out[i].Branches, ",") < strings.Join(out[j].Branches, ",")
	})
	return out, nil
}

func branchQuery(b string) query.Q {
	return query.NewAnd(&query.Branch{Pattern: b, Exact: true}, &query.Const{Value: true})
}

func countShards(dir string) int {
	m, _ := filepath.Glob(filepath.Join(dir, "*.zoekt"))
	return len(m)
}

func clip(s string, n int) string {
	if len(s) > n {
		return s[:n] + "…"
	}
	return s
}
