package sd

import (
	"fmt"
	"regexp"
	"strings"
	"unicode/utf8"

	kit "github.com/sourcegraph/zoekt/internal/verifkit"
	"github.com/sourcegraph/zoekt/query"
)

// Targeted C01 families: corpora and queries built around one anchored mechanism of
// the index (word-boundary fast path, same-line conjunction shortcut, trigram
// distance iterator, b-tree buckets). The oracle is the same reference evaluator as
// for the random trees; only the workload is aimed.

type c01Family struct {
	name    string
	corpus  func(g *kit.Gen, st *c01FamState) *kit.Corpus
	queries func(qg *kit.QGen, st *c01FamState) []query.Q
}

type c01FamState struct {
	lits []string
}

func c01Pick(g *kit.Gen, xs []string) string { return xs[g.R.IntN(len(xs))] }

// c01SelfOverlap: literals with a border (proper prefix == proper suffix), so that two
// occurrences can overlap; some with a non-word rune inside, so that the second of two
// overlapping occurrences can sit on a word boundary while the first does not.
func c01BorderLiteral(g *kit.Gen) string {
	cores := []string{"a", "ab", "aa", "a1", "b", "ba", "A", "é", "aé", "д"}
	seps := []string{".", " ", "-", "_", "", "é", "/", "..", "b", "д"}
	core := c01Pick(g, cores)
	n := 2 + g.R.IntN(2)
	parts := make([]string, n)
	for i := range parts {
		parts[i] = core
	}
	return strings.Join(parts, c01Pick(g, seps))
}

func c01TargetDoc(g *kit.Gen, r *kit.Repo, name, content string) *kit.Doc {
	d := &kit.Doc{Name: name, Content: content, Language: kit.Languages[g.R.IntN(len(kit.Languages))]}
	for _, b := range r.Branches {
		if g.R.IntN(2) == 0 {
			d.Branches = append(d.Branches, b.Name)
		}
	}
	if len(d.Branches) == 0 {
		d.Branches = []string{r.Branches[0].Name}
	}
	return d
}

// c01Glue concatenates pieces with random separators (word runes, non-word runes,
// newlines, multi-byte runes, nothing).
func c01Glue(g *kit.Gen, pieces []string) string {
	seps := []string{"", "", "x", "_", " ", ".", "\n", "é", "1", "д", "-", "\r\n", "  ", "a", "b"}
	var b strings.Builder
	b.WriteString(c01Pick(g, seps))
	for _, p := range pieces {
		b.WriteString(p)
		b.WriteString(c01Pick(g, seps))
	}
	return b.String()
}

func c01FamCorpus(g *kit.Gen, mk func(i int) (name, content string), nDocs int) *kit.Corpus {
	c := &kit.Corpus{}
	nr := 1 + g.R.IntN(2)
	for ri := 0; ri < nr; ri++ {
		r := g.Repo(ri)
		r.Tombstone = false
		used := map[string]bool{}
		for i := 0; i < nDocs; i++ {
			name, content := mk(i)
			for used[name] {
				name += "x"
			}
			used[name] = true
			r.Docs = append(r.Docs, c01TargetDoc(g, r, name, content))
		}
		c.Repos = append(c.Repos, r)
	}
	return c
}

var c01Families = []c01Family{
	{
		// \bLIT\b fast path (wordMatchTree): overlapping occurrences, occurrences at file
		// start / end, next to '_', digits, multi-byte runes.
		name: "word",
		corpus: func(g *kit.Gen, st *c01FamState) *kit.Corpus {
			st.lits = nil
			for i := 0; i < 3; i++ {
				st.lits = append(st.lits, c01BorderLiteral(g))
			}
			st.lits = append(st.lits, c01Pick(g, []string{"abc", "a_b", "ab", "x1", "aé", "a.a", "b a"}))
			return c01FamCorpus(g, func(i int) (string, string) {
				l := c01Pick(g, st.lits)
				var pieces []string
				for k := 0; k < 1+g.R.IntN(4); k++ {
					switch g.R.IntN(5) {
					case 0, 1: // the literal followed by one of its own tails: overlapping occurrences when the cut is a border
						rs := []rune(l)
						pieces = append(pieces, l+string(rs[1+g.R.IntN(len(rs)):]))
					case 2: // truncated literal (near miss)
						rs := []rune(l)
						pieces = append(pieces, string(rs[:len(rs)-1]))
					default:
						pieces = append(pieces, l)
					}
				}
				content := c01Glue(g, pieces)
				name := fmt.Sprintf("w%d", i)
				if g.R.IntN(3) == 0 {
					name = c01Glue(g, []string{strings.ReplaceAll(c01Pick(g, st.lits), "\n", "")}) + fmt.Sprint(i)
					name = strings.NewReplacer("\n", "", "\r", "").Replace(name)
				}
				return name, content
			}, 4+g.R.IntN(10))
		},
		queries: func(qg *kit.QGen, st *c01FamState) []query.Q {
			var out []query.Q
			for _, l := range st.lits {
				ql := regexp.QuoteMeta(l)
				for _, src := range []string{`\b` + ql + `\b`, `\b` + ql, ql + `\b`, `\b(?i:` + ql + `)\b`, `\b` + ql + `\b.*\b` + ql + `\b`, `\B` + ql + `\b`, `(\b` + ql + `\b)`, `\b` + ql + `\b|zzz`} {
					for _, cs := range []bool{true, false} {
						if re := qg.RegexpFromSrc(src, cs); re != nil {
							re.Content, re.FileName = c01Scope(qg)
							out = append(out, re)
						}
					}
				}
			}
			return out
		},
	},
	{
		// lit1.*lit2 (andLineMatchTree): literals on the same / adjacent / distant lines,
		// in both orders, overlapping, one literal spanning a newline.
		name: "sameline",
		corpus: func(g *kit.Gen, st *c01FamState) *kit.Corpus {
			pool := []string{"abc", "bca", "cab", "aé", "éa", "ab", "a_b", "xx", "abд", "дa", "a.b", "aab", "aba", "b a"}
			st.lits = []string{c01Pick(g, pool), c01Pick(g, pool), c01Pick(g, pool)}
			return c01FamCorpus(g, func(i int) (string, string) {
				a, b := c01Pick(g, st.lits), c01Pick(g, st.lits)
				fill := func() string { return strings.ReplaceAll(g.Text(g.R.IntN(12)), "\n", " ") }
				var content string
				switch g.R.IntN(9) {
				case 0:
					content = fill() + a + fill() + b + fill()
				case 1:
					content = fill() + b + fill() + a + fill() // wrong order only
				case 2:
					content = fill() + a + fill() + "\n" + fill() + b + fill()
				case 3:
					content = fill() + a + "\n" + b + fill()
				case 4: // overlapping: a's tail is b's head
					ra := []rune(a)
					content = fill() + a + string([]rune(b)[min(len([]rune(b)), 1):]) + fill() + string(ra[:len(ra)-1])
				case 5:
					content = fill() + a + "\n\n\n" + fill() + "\n" + b
				case 6:
					content = b + fill() + "\n" + a + fill() + b
				case 7:
					content = fill() + a + fill() + "\r\n" + b + "\r\n" + a + " " + b + "\r\n"
				default:
					content = g.Text(40) + a + g.Text(10) + b + g.Text(20)
				}
				return fmt.Sprintf("s%d.txt", i), content
			}, 5+g.R.IntN(12))
		},
		queries: func(qg *kit.QGen, st *c01FamState) []query.Q {
			var out []query.Q
			for _, a := range st.lits {
				for _, b := range st.lits {
					qa, qb := regexp.QuoteMeta(a), regexp.QuoteMeta(b)
					for _, src := range []string{qa + ".*" + qb, qa + ".+" + qb, qa + ".*?" + qb, qa + `[^\n]*` + qb, qa + `(.|\n)*` + qb, "(" + qa + "|zz).*" + qb, qa + ".*" + qb + ".*" + qa, qa + `\s*` + qb, "^" + qa + ".*" + qb + "$", qa + "(?s:.*)" + qb} {
						if re := qg.RegexpFromSrc(src, qg.G.R.IntN(2) == 0); re != nil {
							re.Content, re.FileName = true, false
							out = append(out, re)
						}
					}
				}
			}
			qg.G.R.Shuffle(len(out), func(i, j int) { out[i], out[j] = out[j], out[i] })
			if len(out) > 40 {
				out = out[:40]
			}
			return out
		},
	},
	{
		// distance iterator / candidate verification: patterns whose trigrams repeat or
		// overlap, over runs and periodic text with multi-byte runes shifting byte vs rune
		// offsets and documents longer than the 100-rune sampling interval.
		name: "periodic",
		corpus: func(g *kit.Gen, st *c01FamState) *kit.Corpus {
			units := []string{"a", "ab", "aab", "aé", "éa", "abc", "aA", "дa", "ba", "😀", "😀a", "𝒜𝒷", "€"}
			st.lits = nil
			return c01FamCorpus(g, func(i int) (string, string) {
				u := c01Pick(g, units)
				var b strings.Builder
				// length in runes, so that runs of 4-byte runes also cross 100-rune sample points
				for want := 20 + g.R.IntN(400); utf8.RuneCountInString(b.String()) < want; {
					switch g.R.IntN(10) {
					case 0:
						b.WriteString(c01Pick(g, []string{"é", "д", "É", "\n", " ", "x", "😀"}))
					case 1:
						b.WriteString(c01Pick(g, units))
					default:
						b.WriteString(u)
					}
				}
				s := b.String()
				rs := []rune(s)
				for k := 0; k < 3; k++ {
					n := 3 + g.R.IntN(6)
					if n > len(rs) {
						n = len(rs)
					}
					st0 := g.R.IntN(len(rs) - n + 1)
					if g.R.IntN(3) == 0 && len(rs) > 110 { // straddle a 100-rune sample point
						st0 = 100 - g.R.IntN(n+1)
					}
					if g.R.IntN(4) == 0 { // at the very end
						st0 = len(rs) - n
					}
					st.lits = append(st.lits, string(rs[st0:st0+n]))
				}
				name := fmt.Sprintf("p%d", i)
				if g.R.IntN(3) == 0 {
					name = strings.NewReplacer("\n", "", " ", "_").Replace(string(rs[:min(len(rs), 12+g.R.IntN(20))])) + fmt.Sprint(i)
				}
				return name, s
			}, 3+g.R.IntN(8))
		},
		queries: func(qg *kit.QGen, st *c01FamState) []query.Q {
			var out []query.Q
			qg.G.R.Shuffle(len(st.lits), func(i, j int) { st.lits[i], st.lits[j] = st.lits[j], st.lits[i] })
			for i, l := range st.lits {
				if i >= 14 || strings.ContainsAny(l, "\n") && qg.G.R.IntN(2) == 0 {
					continue
				}
				// near miss: one rune replaced
				m := []rune(l)
				m[qg.G.R.IntN(len(m))] = []rune("abAéд")[qg.G.R.IntN(5)]
				for _, p := range []string{l, string(m)} {
					for _, cs := range []bool{true, false} {
						s := &query.Substring{Pattern: p, CaseSensitive: cs}
						s.Content, s.FileName = c01Scope(qg)
						out = append(out, s)
					}
				}
			}
			return out
		},
	},
	{
		// b-tree buckets: a corpus with many distinct trigrams (bucket edges at 511..2049),
		// probing the smallest / largest / bucket-edge trigrams and absent neighbours.
		name: "btree",
		corpus: func(g *kit.Gen, st *c01FamState) *kit.Corpus {
			alpha := []rune("abcdefghijklmnopqrstuvwxyzABCDEFéдß0123456789_.")
			want := []int{500, 511, 512, 513, 1023, 1024, 1025, 1500, 2047, 2048, 2049, 3000}[g.R.IntN(12)]
			seen := map[string]bool{}
			st.lits = nil
			nd := 3 + g.R.IntN(3)
			return c01FamCorpus(g, func(i int) (string, string) {
				var rs []rune
				for len(seen) < want*(i+1)/nd && len(rs) < 6000 {
					rs = append(rs, alpha[g.R.IntN(len(alpha))])
					if n := len(rs); n >= 3 {
						seen[string(rs[n-3:])] = true
					}
				}
				if len(rs) < 3 {
					rs = append(rs, 'a', 'b', 'c')
				}
				for k := 0; k < 4; k++ {
					st0 := g.R.IntN(len(rs) - 2)
					st.lits = append(st.lits, string(rs[st0:st0+3]))
				}
				return fmt.Sprintf("t%d", i), string(rs)
			}, nd)
		},
		queries: func(qg *kit.QGen, st *c01FamState) []query.Q {
			var out []query.Q
			lits := append([]string{}, st.lits...)
			// extreme trigrams (may be absent): lowest and highest in rune order
			lits = append(lits, "...", "000", "___", "zzz", "ßßß", "ддд", "aaa", "999")
			qg.G.R.Shuffle(len(lits), func(i, j int) { lits[i], lits[j] = lits[j], lits[i] })
			for i, l := range lits {
				if i >= 24 {
					break
				}
				out = append(out, &query.Substring{Pattern: l, CaseSensitive: true, Content: true})
				if i%3 == 0 {
					out = append(out, &query.Substring{Pattern: l, CaseSensitive: false, Content: true})
				}
			}
			return out
		},
	},
}

func c01Scope(qg *kit.QGen) (content, fileName bool) {
	switch qg.G.R.IntN(4) {
	case 0:
		return false, true
	case 1:
		return false, false // both
	default:
		return true, false
	}
}

// c01Targeted runs n worlds per family; stream numbers are disjoint from the random
// worlds of TestVerif_C01.
func c01Targeted(rec *kit.Rec, n int) {
	for fi, fam := range c01Families {
		for i := 0; i < n; i++ {
			st := &c01FamState{}
			stream := uint64(1_000_000 + fi*100_000 + i)
			w, err := newWorld(rec, stream, worldOpt{corpus: func(g *kit.Gen) *kit.Corpus { return fam.corpus(g, st) }})
			if err != nil {
				rec.Violation("harness/build-targeted/"+fam.name, err.Error(), nil)
				continue
			}
			qg := kit.NewQGen(w.g, w.c, w.ev)
			total := liveDocs(w.c)
			for _, q := range fam.queries(qg, st) {
				mode := "index"
				if w.g.R.IntN(4) == 0 {
					mode = "sharded"
				}
				rec.Count("targeted_"+fam.name, 1)
				c01One(rec, w, q, total, mode)
				// and under a negation / conjunction, where pruning and noVisit paths differ
				if w.g.R.IntN(5) == 0 {
					c01One(rec, w, query.NewAnd(&query.Not{Child: q}, &query.Const{Value: true}), total, mode)
				}
			}
			w.close()
		}
	}
}
