package sd

import (
	"context"
	"fmt"
	"sort"
	"strings"
	"testing"
	"unicode/utf8"

	"github.com/sourcegraph/zoekt"
	kit "github.com/sourcegraph/zoekt/internal/verifkit"
	"github.com/sourcegraph/zoekt/internal/verifkit/ix"
	"github.com/sourcegraph/zoekt/query"
)

// C02: reported match ranges are real, ordered and complete.
// C03: match locations and context agree with the file content.
//
// Both look at the same search outputs (line / chunk mode × context lines), with
// independent oracles: C02 compares ranges with the reference evaluator's interval
// sets, C03 compares locations/lines/context with a line table computed by scanning
// the content.

func TestVerif_C02(t *testing.T) { runRangeChecks(t, "C02") }
func TestVerif_C03(t *testing.T) { runRangeChecks(t, "C03") }

func runRangeChecks(t *testing.T, id string) {
	rec := kit.Open(id)
	defer rec.Done()
	nCorp := rec.N(150, 5000)
	nQ := rec.N(30, 60)
	for ci := 0; ci < nCorp; ci++ {
		w, err := newWorld(rec, uint64(ci)+1_000_000, worldOpt{noDir: ci%4 != 0})
		if err != nil {
			rec.Violation("harness/build", err.Error(), nil)
			continue
		}
		qg := kit.NewQGen(w.g, w.c, w.ev)
		for qi := 0; qi < nQ; qi++ {
			var q query.Q
			switch qi % 3 {
			case 0:
				qg.OnlyText = true
				qg.MaxDepth = 0
				q = qg.Query() // single atom: exactness is judged
			case 1:
				qg.OnlyText = true
				qg.MaxDepth = 2
				q = qg.Query()
			default:
				qg.OnlyText = false
				qg.MaxDepth = 3
				q = qg.Query()
			}
			opts := zoekt.SearchOptions{Whole: true, ChunkMatches: w.g.R.IntN(2) == 0, NumContextLines: []int{0, 0, 1, 2, 5}[w.g.R.IntN(5)]}
			rangeOne(rec, id, w, q, opts)
		}
		w.close()
	}
	// the targeted families of C01 (word fast path, same-line shortcut, periodic text,
	// many trigrams): single atoms, so range exactness is judged too
	nFam := rec.N(8, 300)
	for fi, fam := range c01Families {
		for i := 0; i < nFam; i++ {
			st := &c01FamState{}
			w, err := newWorld(rec, uint64(3_000_000+fi*100_000+i), worldOpt{noDir: i%3 != 0, corpus: func(g *kit.Gen) *kit.Corpus { return fam.corpus(g, st) }})
			if err != nil {
				rec.Violation("harness/build-targeted/"+fam.name, err.Error(), nil)
				continue
			}
			qg := kit.NewQGen(w.g, w.c, w.ev)
			for _, q := range fam.queries(qg, st) {
				opts := zoekt.SearchOptions{Whole: true, ChunkMatches: w.g.R.IntN(2) == 0, NumContextLines: []int{0, 0, 1, 3}[w.g.R.IntN(4)]}
				rec.Count("targeted_"+fam.name, 1)
				rangeOne(rec, id, w, q, opts)
			}
			w.close()
		}
	}
}

func rangeOne(rec *kit.Rec, id string, w *world, q query.Q, opts zoekt.SearchOptions) {
	var sr *zoekt.SearchResult
	var err error
	useDir := w.dirS != nil && w.g.R.IntN(2) == 0
	msg, stack, p := kit.Guard(func() {
		if useDir {
			sr, err = w.dirS.Search(context.Background(), q, &opts)
		} else {
			sr, err = w.unionSearch(q, &opts)
		}
	})
	if p {
		rec.Violation("panic/"+kit.PanicSite(stack)+"/"+kit.MsgClass(msg), msg, witness(w, q, map[string]any{"opts": opts.String(), "stack": stack}))
		return
	}
	if err != nil {
		rec.Violation("search error/"+kit.MsgClass(err.Error()), err.Error(), witness(w, q, map[string]any{"opts": opts.String()}))
		return
	}
	mode := "line"
	if opts.ChunkMatches {
		mode = "chunk"
	}
	nranges := 0
	for i := range sr.Files {
		f := &sr.Files[i]
		r, d := findDoc(w.c, f)
		if d == nil {
			// C01's business; here we cannot judge ranges without the document
			continue
		}
		n := ix.NormFile(f)
		nranges += len(n.Ranges) + len(n.NameRanges)
		var probs []problem
		if id == "C02" {
			probs = c02File(w, q, r, d, f, n, mode)
		} else {
			probs = c03File(d, f, opts.NumContextLines, mode)
		}
		for _, pr := range probs {
			rec.Violation(pr.sig+"/"+mode, pr.what, witness(w, q, map[string]any{"opts": opts.String(), "file": f.FileName, "repo": f.Repository, "content": d.Text(), "ranges": n.Ranges, "name_ranges": n.NameRanges, "kind": shapeOf(q)}))
		}
	}
	rec.Count("ranges_checked", int64(nranges))
	rec.Count("files_checked", int64(len(sr.Files)))
	rec.Case(fmt.Sprintf("%s|ctx%d|%s", mode, opts.NumContextLines, kit.Shape(q)), nranges > 0, func() any {
		return map[string]any{"query": q.String(), "mode": mode, "context": opts.NumContextLines, "files": len(sr.Files), "ranges": nranges}
	})
}

func shapeOf(q query.Q) string { return kit.Shape(q) }

type problem struct{ sig, what string }

func findDoc(c *kit.Corpus, f *zoekt.FileMatch) (*kit.Repo, *kit.Doc) {
	for _, r := range c.Repos {
		if r.Name != f.Repository {
			continue
		}
		for _, d := range r.Docs {
			if d.Name == f.FileName && d.Text() == string(f.Content) {
				return r, d
			}
		}
	}
	return nil, nil
}

// ---------------------------------------------------------------------------
// C02

func c02File(w *world, q query.Q, r *kit.Repo, d *kit.Doc, f *zoekt.FileMatch, n ix.NFile, mode string) []problem {
	var out []problem
	text := d.Text()
	// (1) inside the content / name
	for _, iv := range n.Ranges {
		if iv.S < 0 || iv.E > len(text) || iv.S > iv.E {
			out = append(out, problem{"range outside content", fmt.Sprintf("range %v, content length %d", iv, len(text))})
			return out
		}
	}
	for _, iv := range n.NameRanges {
		if iv.S < 0 || iv.E > len(d.Name) || iv.S > iv.E {
			out = append(out, problem{"range outside name", fmt.Sprintf("range %v, name length %d", iv, len(d.Name))})
			return out
		}
	}
	// (2) order / overlap: inside every line match / chunk in increasing order, and
	// no two ranges of the file overlap
	for _, lm := range f.LineMatches {
		last := -1
		for _, lf := range lm.LineFragments {
			if int(lf.Offset) < last {
				out = append(out, problem{"ranges not increasing", fmt.Sprintf("line %d fragment at %d after end %d", lm.LineNumber, lf.Offset, last)})
			}
			last = int(lf.Offset) + lf.MatchLength
		}
	}
	for _, cm := range f.ChunkMatches {
		last := -1
		for _, rg := range cm.Ranges {
			if int(rg.Start.ByteOffset) < last {
				out = append(out, problem{"ranges not increasing", fmt.Sprintf("chunk range at %d after end %d", rg.Start.ByteOffset, last)})
			}
			last = int(rg.End.ByteOffset)
		}
	}
	for _, l := range [][]kit.IV{n.Ranges, n.NameRanges} {
		for i := 1; i < len(l); i++ {
			if l[i].S < l[i-1].E {
				out = append(out, problem{"ranges overlap", fmt.Sprintf("%v and %v", l[i-1], l[i])})
			}
		}
	}
	// (3) every range is a match of a positive atom at that position
	pos := w.ev.PositiveIVs(q, d)
	wholeName := kit.IV{S: 0, E: len(d.Name)}
	for _, iv := range n.NameRanges {
		if pos.Name[iv] {
			continue
		}
		if iv == wholeName && len(n.Ranges) == 0 && len(n.NameRanges) == 1 {
			continue // the documented "file-name match reports the file name" case (no atom produced a range)
		}
		if w.ev.RegexpMatchAt(q, d, iv, true) {
			continue
		}
		out = append(out, problem{"name range not matched by a positive atom", fmt.Sprintf("range %v %q", iv, d.Name[iv.S:iv.E])})
	}
	for _, iv := range n.Ranges {
		if pos.Content[iv] {
			continue
		}
		if mode == "line" && isNewlinePiece(pos.Content, iv, text) {
			continue
		}
		if w.ev.RegexpMatchAt(q, d, iv, false) {
			// another occurrence than the engine's successive matches, still a match of a
			// regexp atom that starts exactly here (literal-like regexps are evaluated as
			// substrings; overlap resolution between atoms may keep a later occurrence)
			continue
		}
		out = append(out, problem{"content range not matched by a positive atom", fmt.Sprintf("range %v %q", iv, text[iv.S:iv.E])})
	}
	// (4) exactness for a single content substring / single content regexp
	switch s := q.(type) {
	case *query.Substring:
		if s.Content && !s.FileName && s.Pattern != "" {
			want := kit.GreedyNonOverlapping(kit.Occurrences(text, s.Pattern, s.CaseSensitive))
			if mode == "line" {
				want = splitAtNewlines(want, text)
			}
			if !sameIVs(want, n.Ranges) {
				out = append(out, problem{"single substring: ranges are not the leftmost non-overlapping occurrences", fmt.Sprintf("want %v got %v", want, n.Ranges)})
			}
		}
	case *query.Regexp:
		if s.Content && !s.FileName {
			want := nonEmpty(w.ev.RegexpIVs(s, text))
			got := nonEmpty(n.Ranges)
			if mode == "line" {
				want = splitAtNewlines(want, text)
			}
			if !sameIVs(want, got) {
				out = append(out, problem{"single regexp: ranges are not the engine's non-empty matches", fmt.Sprintf("want %v got %v", want, got)})
			}
		}
	}
	return out
}

func nonEmpty(l []kit.IV) []kit.IV {
	var out []kit.IV
	for _, iv := range l {
		if iv.E > iv.S {
			out = append(out, iv)
		}
	}
	return out
}

func sameIVs(a, b []kit.IV) bool {
	if len(a) != len(b) {
		return false
	}
	for i := range a {
		if a[i] != b[i] {
			return false
		}
	}
	return true
}

// splitAtNewlines breaks intervals at '\n' bytes and drops empty pieces.
func splitAtNewlines(l []kit.IV, text string) []kit.IV {
	var out []kit.IV
	for _, iv := range l {
		s := iv.S
		for i := iv.S; i < iv.E; i++ {
			if text[i] == '\n' {
				if i > s {
					out = append(out, kit.IV{S: s, E: i})
				}
				s = i + 1
			}
		}
		if iv.E > s {
			out = append(out, kit.IV{S: s, E: iv.E})
		}
	}
	return out
}

// isNewlinePiece: iv is a maximal newline-free, non-empty piece of some interval of set.
func isNewlinePiece(set map[kit.IV]bool, iv kit.IV, text string) bool {
	if iv.E <= iv.S || strings.Contains(text[iv.S:iv.E], "\n") {
		return false
	}
	for big := range set {
		if big.S <= iv.S && iv.E <= big.E {
			leftOK := iv.S == big.S || text[iv.S-1] == '\n'
			rightOK := iv.E == big.E || text[iv.E] == '\n'
			if leftOK && rightOK {
				return true
			}
		}
	}
	return false
}

// ---------------------------------------------------------------------------
// C03

type lineTable struct {
	text   string
	starts []int // start offset of every line; a trailing "\n" does not open another line unless the file is empty
}

func newLineTable(text string) *lineTable {
	lt := &lineTable{text: text, starts: []int{0}}
	for i := 0; i < len(text); i++ {
		if text[i] == '\n' {
			lt.starts = append(lt.starts, i+1)
		}
	}
	return lt
}

// lineOf returns the 1-based number of the line containing offset off (an offset
// equal to len(text) right after a final newline belongs to the line opened there).
func (lt *lineTable) lineOf(off int) int {
	i := sort.Search(len(lt.starts), func(i int) bool { return lt.starts[i] > off })
	return i
}

// start of 1-based line n, clamped.
func (lt *lineTable) start(n int) int {
	if n < 1 {
		return 0
	}
	if n > len(lt.starts) {
		return len(lt.text)
	}
	return lt.starts[n-1]
}

func (lt *lineTable) isLineStart(off int) bool {
	return off == 0 || (off <= len(lt.text) && off > 0 && lt.text[off-1] == '\n')
}

func (lt *lineTable) isLineEnd(off int) bool {
	// a line boundary: end of file, or just after a newline, or at a newline
	return off == len(lt.text) || (off > 0 && off <= len(lt.text) && lt.text[off-1] == '\n') || (off < len(lt.text) && lt.text[off] == '\n')
}

// locOK: (line, column) is arithmetically consistent with byte offset off.
func (lt *lineTable) locOK(loc zoekt.Location) bool {
	off := int(loc.ByteOffset)
	if off > len(lt.text) || loc.LineNumber < 1 || loc.Column < 1 {
		return false
	}
	p := lt.start(int(loc.LineNumber))
	if int(loc.LineNumber) > len(lt.starts)+1 {
		return false
	}
	crossedNL := false
	for c := uint32(1); c < loc.Column; c++ {
		if p >= len(lt.text) || crossedNL {
			return false
		}
		r, sz := utf8.DecodeRuneInString(lt.text[p:])
		if r == '\n' {
			crossedNL = true
		}
		p += sz
	}
	return p == off
}

func c03File(d *kit.Doc, f *zoekt.FileMatch, ctxLines int, mode string) []problem {
	var out []problem
	text := d.Text()
	lt := newLineTable(text)
	add := func(sig, format string, a ...any) { out = append(out, problem{sig, fmt.Sprintf(format, a...)}) }
	for _, lm := range f.LineMatches {
		if lm.FileName {
			if string(lm.Line) != d.Name {
				add("file-name line match text is not the name", "Line=%q name=%q", lm.Line, d.Name)
			}
			continue
		}
		if lm.LineStart < 0 || lm.LineEnd > len(text) || lm.LineStart > lm.LineEnd {
			add("line offsets outside file", "start %d end %d len %d", lm.LineStart, lm.LineEnd, len(text))
			continue
		}
		if string(lm.Line) != text[lm.LineStart:lm.LineEnd] {
			add("Line != content[LineStart:LineEnd]", "Line=%q content=%q", lm.Line, text[lm.LineStart:lm.LineEnd])
		}
		if !lt.isLineStart(lm.LineStart) {
			add("LineStart is not a line start", "start %d", lm.LineStart)
		}
		if !lt.isLineEnd(lm.LineEnd) {
			add("LineEnd is not a line boundary", "end %d", lm.LineEnd)
		}
		wantNum := 1 + strings.Count(text[:lm.LineStart], "\n")
		if lm.LineNumber != wantNum {
			add("wrong LineNumber", "got %d want %d (LineStart %d)", lm.LineNumber, wantNum, lm.LineStart)
		}
		for _, lf := range lm.LineFragments {
			if lf.LineOffset != int(lf.Offset)-lm.LineStart {
				add("LineOffset != Offset-LineStart", "LineOffset %d Offset %d LineStart %d", lf.LineOffset, lf.Offset, lm.LineStart)
			}
			if int(lf.Offset) < lm.LineStart || int(lf.Offset)+lf.MatchLength > lm.LineEnd {
				add("fragment outside its line", "fragment [%d,%d) line [%d,%d)", lf.Offset, int(lf.Offset)+lf.MatchLength, lm.LineStart, lm.LineEnd)
			}
		}
		// context: exactly min(N, available) neighbouring lines
		firstLine := lt.lineOf(lm.LineStart)
		lastOff := lm.LineEnd - 1
		if lastOff < lm.LineStart {
			lastOff = lm.LineStart
		}
		lastLine := lt.lineOf(lastOff)
		if lastOff >= len(text) {
			lastLine = firstLine
		}
		wantBefore := text[lt.start(firstLine-ctxLines):lt.start(firstLine)]
		wantAfter := text[lt.start(lastLine+1):lt.start(lastLine+1+ctxLines)]
		if ctxLines == 0 {
			wantBefore, wantAfter = "", ""
		}
		if string(lm.Before) != wantBefore {
			add("wrong Before context", "N=%d line %d got %q want %q", ctxLines, lm.LineNumber, lm.Before, wantBefore)
		}
		if string(lm.After) != wantAfter {
			add("wrong After context", "N=%d line %d got %q want %q", ctxLines, lm.LineNumber, lm.After, wantAfter)
		}
	}
	type span struct{ s, e int }
	var spans []span
	for _, cm := range f.ChunkMatches {
		if cm.FileName {
			if string(cm.Content) != d.Name {
				add("file-name chunk text is not the name", "Content=%q name=%q", cm.Content, d.Name)
			}
			continue
		}
		s := int(cm.ContentStart.ByteOffset)
		e := s + len(cm.Content)
		if e > len(text) {
			add("chunk outside file", "chunk [%d,%d) len %d", s, e, len(text))
			continue
		}
		if string(cm.Content) != text[s:e] {
			add("chunk Content != file bytes at ContentStart", "Content=%q file=%q", cm.Content, text[s:e])
		}
		if !lt.isLineStart(s) || cm.ContentStart.Column != 1 {
			add("chunk does not start at a line start", "ContentStart %+v", cm.ContentStart)
		}
		if int(cm.ContentStart.LineNumber) != 1+strings.Count(text[:s], "\n") {
			add("wrong ContentStart.LineNumber", "ContentStart %+v", cm.ContentStart)
		}
		if !(e == len(text) || (e > 0 && text[e-1] == '\n')) {
			add("chunk does not end at a line end", "chunk [%d,%d)", s, e)
		}
		for _, rg := range cm.Ranges {
			if int(rg.Start.ByteOffset) < s || int(rg.End.ByteOffset) > e || rg.Start.ByteOffset > rg.End.ByteOffset {
				add("range outside its chunk", "range [%d,%d) chunk [%d,%d)", rg.Start.ByteOffset, rg.End.ByteOffset, s, e)
			}
			if !lt.locOK(rg.Start) {
				add("range Start line/column disagree with byte offset", "%+v", rg.Start)
			}
			if !lt.locOK(rg.End) {
				add("range End line/column disagree with byte offset", "%+v", rg.End)
			}
		}
		// (len(SymbolInfo) != len(Ranges) was observed for chunks mixing symbol and plain
		// ranges; the API comment promises equality but C03 does not state it: not judged.)
		spans = append(spans, span{s, e})
	}
	sort.Slice(spans, func(i, j int) bool { return spans[i].s < spans[j].s })
	for i := 1; i < len(spans); i++ {
		if spans[i].s < spans[i-1].e {
			add("chunks overlap", "[%d,%d) and [%d,%d)", spans[i-1].s, spans[i-1].e, spans[i].s, spans[i].e)
		}
	}
	_ = mode
	return out
}
