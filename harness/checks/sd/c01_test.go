package sd

import (
	"context"
	"fmt"
	"testing"

	"github.com/sourcegraph/zoekt"
	kit "github.com/sourcegraph/zoekt/internal/verifkit"
	"github.com/sourcegraph/zoekt/internal/verifkit/ix"
	"github.com/sourcegraph/zoekt/query"
)

// C01: Search returns exactly the documents the query matches.
//
// Oracle: reference evaluator (whole-file scanning) vs (a) the union of the bare
// per-shard searchers and (b) the directory searcher.
func TestVerif_C01(t *testing.T) {
	rec := kit.Open("C01")
	defer rec.Done()
	nCorp := rec.N(120, 4000)
	nQ := rec.N(40, 80)
	for ci := 0; ci < nCorp; ci++ {
		w, err := newWorld(rec, uint64(ci), worldOpt{skips: true})
		if err != nil {
			rec.Violation("harness/build", err.Error(), nil)
			continue
		}
		qg := kit.NewQGen(w.g, w.c, w.ev)
		total := liveDocs(w.c)
		for qi := 0; qi < nQ; qi++ {
			qg.AllowRepo = false
			c01One(rec, w, qg.Query(), total, "index")
			if qi%3 == 0 {
				// through the sharded searcher, where type:repo is legal
				qg.AllowRepo = true
				c01One(rec, w, qg.Query(), total, "sharded")
			}
		}
		w.close()
	}
	c01Targeted(rec, rec.N(12, 400))
}

func liveDocs(c *kit.Corpus) int {
	total := 0
	for _, r := range c.Repos {
		for _, d := range r.Docs {
			if r.Live(d) {
				total++
			}
		}
	}
	return total
}

// c01Probe evaluates q one way and classifies the outcome: "" = agrees with the
// reference.
func c01Probe(w *world, q query.Q, mode string) (class, detail string) {
	var want map[string]int
	if msg, stack, p := kit.Guard(func() { want = w.ev.Expected(q) }); p {
		return "harness/reference-panic", msg + "\n" + stack
	}
	opts := &zoekt.SearchOptions{Whole: true}
	var got *zoekt.SearchResult
	var err error
	msg, stack, p := kit.Guard(func() {
		if mode == "index" {
			got, err = w.unionSearch(q, opts)
		} else {
			got, err = w.dirS.Search(context.Background(), q, opts)
		}
	})
	switch {
	case p:
		return "panic/" + mode + "/" + kit.PanicSite(stack) + "/" + kit.MsgClass(msg), msg + "\n" + stack
	case err != nil:
		return "search error/" + mode + "/" + kit.MsgClass(err.Error()), err.Error()
	}
	if got.Stats.Crashes > 0 {
		return "shard crash/" + mode, fmt.Sprintf("Stats.Crashes=%d", got.Stats.Crashes)
	}
	gs := ix.FileSet(got)
	if d := ix.DiffSets(want, gs); d != "" {
		kind := "missing"
		for k, n := range gs {
			if want[k] < n {
				kind = "extra"
			}
		}
		return "wrong files/" + mode + "/" + kind, d
	}
	return "", ""
}

func c01One(rec *kit.Rec, w *world, q query.Q, total int, mode string) {
	n := 0
	kit.Guard(func() {
		for _, c := range w.ev.Expected(q) {
			n += c
		}
	})
	rec.Case(fmt.Sprintf("%s|%s|%d", mode, kit.Shape(q), w.c.NumDocs()), n > 0 && n < total, func() any {
		return map[string]any{"mode": mode, "query": q.String(), "matching_docs": n, "live_docs": total, "shards": len(w.paths)}
	})
	rec.Count("queries_"+mode, 1)
	class, detail := c01Probe(w, q, mode)
	if class == "" {
		return
	}
	small := kit.ShrinkQuery(q, func(c query.Q) bool {
		cl, _ := c01Probe(w, c, mode)
		return cl == class
	})
	_, d2 := c01Probe(w, small, mode)
	rec.Violation(class+"/"+kit.Shape(small), d2, witness(w, small, map[string]any{"original_query": q.String(), "original_detail": detail}))
}
