package sd

import (
	"bytes"
	"context"
	"encoding/json"
	"fmt"
	"hash/crc64"
	"os"
	"path/filepath"
	"reflect"
	"regexp/syntax"
	"sort"
	"strings"
	"testing"
	"unicode/utf8"

	"github.com/sourcegraph/zoekt"
	"github.com/sourcegraph/zoekt/index"
	kit "github.com/sourcegraph/zoekt/internal/verifkit"
	"github.com/sourcegraph/zoekt/internal/verifkit/ix"
	"github.com/sourcegraph/zoekt/query"
)

// C09: a written shard reads back every document and all metadata.

// hostileDoc makes documents aimed at the writer/reader: empty, invalid UTF-8, long
// lines, multi-byte runes at the sampling boundaries, many symbols, trigram-count
// edges, big posting deltas.
func hostileDoc(g *kit.Gen, r *kit.Repo, used map[string]bool) *kit.Doc {
	d := g.Doc(r, used)
	R := g.R
	switch R.IntN(12) {
	case 0:
		d.Content = ""
		d.Symbols = nil
	case 1: // invalid UTF-8
		b := []byte(g.Text(30 + R.IntN(100)))
		for k := 0; k < 1+R.IntN(4) && len(b) > 0; k++ {
			b[R.IntN(len(b))] = []byte{0xff, 0xc3, 0xe2, 0x80, 0xf0}[R.IntN(5)]
		}
		d.Content = string(b)
		d.Symbols = nil
	case 2: // one very long line
		d.Content = strings.Repeat(g.Text(40), 50+R.IntN(250))
		d.Content = strings.ReplaceAll(d.Content, "\n", " ")
		d.Symbols = g.SymbolsFor(d.Content)
	case 3: // runes of every width at rune indices 98..102 and 198..202
		rs := []rune(strings.Repeat("abcab ", 60))
		wide := []rune{'é', '€', '😀', 'д', 'a'}
		for _, i := range []int{97, 98, 99, 100, 101, 102, 197, 198, 199, 200, 201, 202} {
			rs[i] = wide[R.IntN(len(wide))]
		}
		d.Content = string(rs[:150+R.IntN(100)])
		d.Symbols = g.SymbolsFor(d.Content)
	case 4: // many symbols
		var b strings.Builder
		n := 50 + R.IntN(400)
		d.Symbols = nil
		for i := 0; i < n; i++ {
			st := b.Len()
			fmt.Fprintf(&b, "s%d", i)
			d.Symbols = append(d.Symbols, kit.Sym{Start: st, End: b.Len(), Kind: []string{"func", "var", ""}[i%3], Parent: fmt.Sprintf("p%d", i%7)})
			b.WriteString([]string{" ", "\n", " é "}[R.IntN(3)])
		}
		d.Content = b.String()
	case 5: // many distinct trigrams (b-tree bucket edges) and big offset deltas
		var b strings.Builder
		n := []int{500, 511, 512, 513, 1023, 1025, 2047, 2049}[R.IntN(8)]
		for i := 0; b.Len() < n*3; i++ {
			b.WriteRune(rune('a' + (i*7)%26))
			b.WriteRune(rune('A' + (i/26)%26))
			b.WriteRune(rune('0' + (i/676)%10))
		}
		d.Content = b.String()
		d.Symbols = nil
	case 6: // rare trigram with gaps >= 128 and >= 16384 between occurrences
		gap := []int{127, 128, 129, 16383, 16384, 16390}[R.IntN(6)]
		d.Content = "qzq" + strings.Repeat("a", gap) + "qzq" + strings.Repeat("b ", 10) + "qzq"
		d.Symbols = nil
	}
	return d
}

func hostileRepo(g *kit.Gen) *kit.Repo {
	r := g.Repo(0)
	used := map[string]bool{}
	n := 1 + g.R.IntN(10)
	for i := 0; i < n; i++ {
		r.Docs = append(r.Docs, hostileDoc(g, r, used))
	}
	return r
}

// c09Spice adds the writer-side corners that only a ShardBuilder caller can reach:
// documents that are rejected inside ShardBuilder.Add (caller-set skip reason, or a
// NUL byte found by Add itself) although they carry symbols and symbol metadata,
// followed by an accepted document with symbols; and more than 256 distinct languages
// in one shard (language codes are 16 bit). It returns the repository to hand to the
// builder: a copy in which the NUL-byte documents carry no skip reason, so that Add has
// to find it.
func c09Spice(g *kit.Gen, r *kit.Repo) *kit.Repo {
	R := g.R
	used := map[string]bool{}
	for _, d := range r.Docs {
		used[d.Name] = true
	}
	symDoc := func() *kit.Doc {
		d := g.Doc(r, used)
		d.Content = "fn alpha beta\nvar gamma = alpha\n" + g.Text(20+R.IntN(40))
		d.Symbols = []kit.Sym{{Start: 3, End: 8, Kind: "function", Parent: "pkg", ParentKind: "package"}, {Start: 18, End: 23, Kind: "variable"}}
		return d
	}
	byAdd := map[*kit.Doc]bool{}
	if R.IntN(3) == 0 {
		for k := 0; k < 1+R.IntN(2); k++ {
			d := symDoc()
			switch R.IntN(3) {
			case 0: // the caller says so
				d.Skip = []string{"toolarge", "toosmall", "binary", "trigrams"}[R.IntN(4)]
			default: // Add finds the NUL byte
				d.Content += "\x00" + g.Text(5)
				d.Skip = "binary"
				byAdd[d] = true
			}
			d.Marker = ix.SkipExplanation[d.Skip]
			// somewhere in the middle, and an accepted document with symbols after it
			at := R.IntN(len(r.Docs) + 1)
			r.Docs = append(r.Docs[:at], append([]*kit.Doc{d}, r.Docs[at:]...)...)
		}
		r.Docs = append(r.Docs, symDoc())
	}
	if R.IntN(8) == 0 {
		n := 257 + R.IntN(80)
		for i := 0; i < n; i++ {
			d := g.Doc(r, used)
			d.Content = fmt.Sprintf("language doc %d\n", i)
			d.Symbols = nil
			d.Language = fmt.Sprintf("L%03d", i)
			r.Docs = append(r.Docs, d)
		}
	}
	plain := *r
	plain.Docs = nil
	for _, d := range r.Docs {
		if byAdd[d] {
			c := *d
			c.Skip, c.Marker = "", ""
			plain.Docs = append(plain.Docs, &c)
		} else {
			plain.Docs = append(plain.Docs, d)
		}
	}
	return &plain
}

func crcISO(b []byte) []byte {
	h := crc64.New(crc64.MakeTable(crc64.ISO))
	h.Write(b)
	return h.Sum(nil)
}

// expectSkip is the documented skip rule of the builder, written independently.
func expectSkip(content string, sizeMax, trigramMax int) string {
	switch {
	case len(content) > sizeMax:
		return "toolarge"
	case len(content) == 0:
		return ""
	case len(content) < 3:
		return "toosmall"
	case strings.IndexByte(content, 0) >= 0:
		return "binary"
	}
	tri := map[[3]rune]bool{}
	rs := []rune(content) // invalid bytes decode to U+FFFD one by one, as utf8.DecodeRune does
	for i := 0; i+3 <= len(rs); i++ {
		tri[[3]rune{rs[i], rs[i+1], rs[i+2]}] = true
	}
	if len(tri) > trigramMax {
		return "trigrams"
	}
	return ""
}

func TestVerif_C09(t *testing.T) {
	rec := kit.Open("C09")
	defer rec.Done()
	n := rec.N(300, 12000)
	for i := 0; i < n; i++ {
		g := kit.NewGen(rec.Rand(uint64(i) + 9_000_000))
		g.SubRepos = true
		dir := filepath.Join(rec.Work, fmt.Sprintf("c09-%d", i))
		os.MkdirAll(dir, 0o755)
		mode := []string{"shardbuilder", "builder", "merge"}[i%3]
		func() {
			defer os.RemoveAll(dir)
			switch mode {
			case "shardbuilder":
				r := hostileRepo(g)
				p, err := ix.BuildSimple(dir, c09Spice(g, r))
				if err != nil {
					rec.Violation("write error/shardbuilder/"+kit.MsgClass(err.Error()), err.Error(), map[string]any{"corpus": ix.Dump(&kit.Corpus{Repos: []*kit.Repo{r}})})
					return
				}
				c09ReadBack(rec, mode, []string{p}, []*kit.Repo{r})
			case "builder":
				r := hostileRepo(g)
				sizeMax := []int{40, 200, 100000}[g.R.IntN(3)]
				triMax := []int{10, 60, 20000}[g.R.IntN(3)]
				if g.R.IntN(4) == 0 { // a NUL byte somewhere
					d := r.Docs[g.R.IntN(len(r.Docs))]
					d.Content = d.Content + "\x00x"
					d.Symbols = nil
				}
				for _, d := range r.Docs {
					if s := expectSkip(d.Content, sizeMax, triMax); s != "" {
						d.Skip, d.Marker = s, ix.SkipExplanation[s]
					}
				}
				// hand the documents over without a skip reason: the builder decides
				plain := *r
				plain.Docs = nil
				for _, d := range r.Docs {
					c := *d
					c.Skip, c.Marker = "", ""
					plain.Docs = append(plain.Docs, &c)
				}
				paths, err := ix.BuildWithBuilder(dir, &plain, ix.BuilderOpts{SizeMax: sizeMax, TrigramMax: triMax, ShardMax: []int{0, 300, 2000}[g.R.IntN(3)], Parallelism: 1 + g.R.IntN(4)})
				if err != nil {
					rec.Violation("write error/builder/"+kit.MsgClass(err.Error()), err.Error(), map[string]any{"corpus": ix.Dump(&kit.Corpus{Repos: []*kit.Repo{r}})})
					return
				}
				rec.Count("builder_shards", int64(len(paths)))
				c09ReadBack(rec, mode, paths, []*kit.Repo{r})
			case "merge":
				var rs, handed []*kit.Repo
				for k := 0; k < 2+g.R.IntN(3); k++ {
					r := hostileRepo(g)
					rs = append(rs, r)
					handed = append(handed, c09Spice(g, r))
				}
				p, err := ix.BuildCompound(dir, handed)
				if err != nil {
					rec.Violation("write error/merge/"+kit.MsgClass(err.Error()), err.Error(), map[string]any{"corpus": ix.Dump(&kit.Corpus{Repos: rs})})
					return
				}
				c09ReadBack(rec, mode, []string{p}, rs)
			}
		}()
	}
}

type readDoc struct {
	f    *zoekt.FileMatch
	syms []readSym
}
type readSym struct {
	iv   kit.IV
	info *zoekt.Symbol
}

func c09ReadBack(rec *kit.Rec, mode string, paths []string, repos []*kit.Repo) {
	corpus := &kit.Corpus{Repos: repos}
	wit := func(extra map[string]any) map[string]any {
		m := map[string]any{"mode": mode, "corpus": ix.Dump(corpus), "shards": len(paths)}
		for k, v := range extra {
			m[k] = v
		}
		return m
	}
	var all []zoekt.FileMatch
	symsOf := map[string][]readSym{}
	var listed []*zoekt.RepoListEntry
	anyRe, _ := syntax.Parse(".*", kit.RegexpFlags)
	for _, p := range paths {
		s, err := ix.Open(p)
		if err != nil {
			rec.Violation("read error/"+mode+"/"+kit.MsgClass(err.Error()), err.Error(), wit(nil))
			return
		}
		msg, stack, pn := kit.Guard(func() {
			sr, err := s.Search(context.Background(), &query.Const{Value: true}, &zoekt.SearchOptions{Whole: true})
			if err != nil {
				panic(err)
			}
			// copy: results point into the mmap
			for _, f := range sr.Files {
				f.Content = append([]byte(nil), f.Content...)
				f.Checksum = append([]byte(nil), f.Checksum...)
				all = append(all, f)
			}
			sr2, err := s.Search(context.Background(), &query.Symbol{Expr: &query.Regexp{Regexp: anyRe, Content: true}}, &zoekt.SearchOptions{ChunkMatches: true, Whole: true})
			if err != nil {
				panic(err)
			}
			for _, f := range sr2.Files {
				key := kit.DocKey(f.Repository, f.FileName, string(f.Content))
				for _, cm := range f.ChunkMatches {
					for i, rg := range cm.Ranges {
						rs := readSym{iv: kit.IV{S: int(rg.Start.ByteOffset), E: int(rg.End.ByteOffset)}}
						if i < len(cm.SymbolInfo) && cm.SymbolInfo[i] != nil {
							c := *cm.SymbolInfo[i]
							rs.info = &c
						}
						symsOf[key] = append(symsOf[key], rs)
					}
				}
			}
			rl, err := s.List(context.Background(), &query.Const{Value: true}, nil)
			if err != nil {
				panic(err)
			}
			for _, e := range rl.Repos {
				c := *e
				listed = append(listed, &c)
			}
		})
		s.Close()
		if pn {
			rec.Violation("read panic/"+mode+"/"+kit.PanicSite(stack)+"/"+kit.MsgClass(msg), msg, wit(map[string]any{"stack": stack}))
			return
		}
	}
	// index what was read
	got := map[string][]*zoekt.FileMatch{}
	for i := range all {
		f := &all[i]
		k := kit.DocKey(f.Repository, f.FileName, string(f.Content))
		got[k] = append(got[k], f)
	}
	ndocs, nsyms := 0, 0
	for _, r := range repos {
		for _, d := range r.Docs {
			ndocs++
			k := kit.DocKey(r.Name, d.Name, d.Text())
			fs := got[k]
			if len(fs) != 1 {
				what := "missing"
				if len(fs) > 1 {
					what = "duplicated"
				}
				kind := "indexed"
				if d.Skip != "" {
					kind = "skipped(" + d.Skip + ")"
				}
				rec.Violation("document "+what+"/"+mode+"/"+kind, fmt.Sprintf("%s:%s expected content %q; read back for this name: %s", r.Name, d.Name, trunc(d.Text(), 80), c09Names(all, r.Name, d.Name)), wit(nil))
				continue
			}
			delete(got, k)
			f := fs[0]
			if !reflect.DeepEqual(append([]string{}, f.Branches...), append([]string{}, orderedBranches(r, d)...)) {
				rec.Violation("branches differ/"+mode, fmt.Sprintf("%s:%s got %v want %v", r.Name, d.Name, f.Branches, orderedBranches(r, d)), wit(nil))
			}
			if !bytes.Equal(f.Checksum, crcISO([]byte(d.Text()))) {
				rec.Violation("checksum differs/"+mode, fmt.Sprintf("%s:%s", r.Name, d.Name), wit(nil))
			}
			if f.Language != d.Language {
				rec.Violation("language differs/"+mode, fmt.Sprintf("%s:%s got %q want %q", r.Name, d.Name, f.Language, d.Language), wit(nil))
			}
			wantSubName := ""
			if d.SubRepo != "" {
				wantSubName = r.SubRepos[d.SubRepo]
			}
			if f.SubRepositoryPath != d.SubRepo || f.SubRepositoryName != wantSubName {
				rec.Violation("sub-repository differs/"+mode, fmt.Sprintf("%s:%s got (%q,%q) want (%q,%q)", r.Name, d.Name, f.SubRepositoryPath, f.SubRepositoryName, d.SubRepo, wantSubName), wit(nil))
			}
			// symbols
			rs := symsOf[k]
			sort.Slice(rs, func(i, j int) bool { return rs[i].iv.S < rs[j].iv.S })
			want := d.Syms()
			nsyms += len(want)
			if len(rs) != len(want) {
				rec.Violation("symbol ranges differ/"+mode, fmt.Sprintf("%s:%s got %d ranges want %d", r.Name, d.Name, len(rs), len(want)), wit(map[string]any{"got": rs, "want": want}))
				continue
			}
			for i, ws := range want {
				if rs[i].iv.S != ws.Start || rs[i].iv.E != ws.End {
					rec.Violation("symbol ranges differ/"+mode, fmt.Sprintf("%s:%s #%d got %v want [%d,%d)", r.Name, d.Name, i, rs[i].iv, ws.Start, ws.End), wit(nil))
					break
				}
				si := rs[i].info
				if si == nil {
					rec.Violation("symbol info missing/"+mode, fmt.Sprintf("%s:%s #%d", r.Name, d.Name, i), wit(nil))
					break
				}
				if si.Kind != ws.Kind || si.Parent != ws.Parent || si.ParentKind != ws.ParentKind || si.Sym != d.Text()[ws.Start:ws.End] {
					rec.Violation("symbol info differs/"+mode, fmt.Sprintf("%s:%s #%d got %+v want %+v text %q", r.Name, d.Name, i, *si, ws, d.Text()[ws.Start:ws.End]), wit(nil))
					break
				}
			}
		}
	}
	for k := range got {
		rec.Violation("unexpected document/"+mode, trunc(strings.ReplaceAll(k, "\x00", ":"), 120), wit(nil))
	}
	// the search structures written next to the content (postings, rune-offset samples,
	// file boundaries) must point into the content that is read back: a literal cut out
	// of a document around its 100th / 200th rune and near its end is found in that
	// document at that byte offset
	c09Probe(rec, mode, paths, repos, wit)
	// repository metadata
	byName := map[string][]*zoekt.RepoListEntry{}
	for _, e := range listed {
		byName[e.Repository.Name] = append(byName[e.Repository.Name], e)
	}
	for _, r := range repos {
		es := byName[r.Name]
		if len(es) == 0 {
			rec.Violation("repository not listed/"+mode, r.Name, wit(nil))
			continue
		}
		want := ix.ZRepo(r)
		for _, e := range es {
			if d := repoDiff(want, &e.Repository); d != "" {
				rec.Violation("repository metadata differs/"+mode+"/"+strings.SplitN(d, ":", 2)[0], r.Name+": "+d, wit(nil))
			}
			if e.IndexMetadata.IndexFormatVersion == 0 || e.IndexMetadata.IndexTime.IsZero() || e.IndexMetadata.ID == "" {
				rec.Violation("index metadata missing/"+mode, fmt.Sprintf("%+v", e.IndexMetadata), wit(nil))
			}
		}
	}
	rec.Count("documents_read_back", int64(ndocs))
	rec.Count("symbols_read_back", int64(nsyms))
	rec.Seen("modes", mode)
	rec.Case(fmt.Sprintf("%s|%d|%d", mode, ndocs, nsyms), ndocs > 0, func() any {
		return map[string]any{"mode": mode, "repos": len(repos), "docs": ndocs, "symbols": nsyms, "shards": len(paths)}
	})
}

func c09Names(all []zoekt.FileMatch, repo, name string) string {
	var l []string
	for _, f := range all {
		if f.Repository == repo && f.FileName == name {
			l = append(l, fmt.Sprintf("%q", trunc(string(f.Content), 80)))
		}
	}
	return "[" + strings.Join(l, ", ") + "]"
}

func trunc(s string, n int) string {
	if len(s) <= n {
		return s
	}
	for n > 0 && !utf8.RuneStart(s[n]) {
		n--
	}
	return s[:n] + "…"
}

func orderedBranches(r *kit.Repo, d *kit.Doc) []string {
	var out []string
	for _, b := range r.Branches {
		for _, x := range d.Branches {
			if x == b.Name {
				out = append(out, x)
				break
			}
		}
	}
	return out
}

// repoDiff compares the repository description that went in with the one read back.
// Fields the writer derives itself (IndexOptions, HasSymbols, LatestCommitDate,
// priority) are not compared.
func repoDiff(want, got *zoekt.Repository) string {
	chk := func(name string, a, b any) string {
		ja, _ := json.Marshal(a)
		jb, _ := json.Marshal(b)
		if string(ja) != string(jb) {
			return fmt.Sprintf("%s: got %s want %s", name, jb, ja)
		}
		return ""
	}
	nm := func(m map[string]string) map[string]string {
		if len(m) == 0 {
			return nil
		}
		return m
	}
	for _, d := range []string{
		chk("Name", want.Name, got.Name), chk("ID", want.ID, got.ID), chk("TenantID", want.TenantID, got.TenantID),
		chk("URL", want.URL, got.URL), chk("Source", want.Source, got.Source), chk("Branches", want.Branches, got.Branches),
		chk("RawConfig", nm(want.RawConfig), nm(got.RawConfig)), chk("Metadata", nm(want.Metadata), nm(got.Metadata)),
		chk("Rank", want.Rank, rankIfSet(want, got)), chk("FileURLTemplate", want.FileURLTemplate, got.FileURLTemplate),
		chk("LineFragmentTemplate", want.LineFragmentTemplate, got.LineFragmentTemplate), chk("CommitURLTemplate", want.CommitURLTemplate, got.CommitURLTemplate),
		chk("Tombstone", want.Tombstone, got.Tombstone), chk("FileTombstones", len(want.FileTombstones), len(got.FileTombstones)),
		chk("SubRepoMap", subNames(want), subNames(got)),
	} {
		if d != "" {
			return d
		}
	}
	return ""
}

func subNames(r *zoekt.Repository) []string {
	var l []string
	for p, s := range r.SubRepoMap {
		if p == "" {
			continue
		}
		l = append(l, p+"="+s.Name)
	}
	sort.Strings(l)
	return l
}

var _ = index.IndexFormatVersion

// rankIfSet: a zero Rank is documented to be derived at load time (from the priority
// or the latest commit date), so it is only compared when the writer was given one.
func rankIfSet(want, got *zoekt.Repository) uint16 {
	if want.Rank == 0 {
		return 0
	}
	return got.Rank
}

// c09Probe: for up to four valid-UTF-8, indexed documents of at least 20 runes, search
// a case-sensitive literal of 5 runes taken at rune offsets around the sampling points
// and expect a match range at exactly that byte offset in that document.
func c09Probe(rec *kit.Rec, mode string, paths []string, repos []*kit.Repo, wit func(map[string]any) map[string]any) {
	type probe struct {
		r   *kit.Repo
		d   *kit.Doc
		off int // byte offset of the literal
		lit string
	}
	var probes []probe
	for _, r := range repos {
		if r.Tombstone {
			continue
		}
		for _, d := range r.Docs {
			if d.Skip != "" || !r.Live(d) || !utf8.ValidString(d.Content) || len(probes) >= 12 {
				continue
			}
			rs := []rune(d.Content)
			if len(rs) < 20 {
				continue
			}
			for _, at := range []int{len(rs) - 5, 96, 99, 100, 101, 198, 200, 301} {
				if at < 0 || at+5 > len(rs) {
					continue
				}
				lit := string(rs[at : at+5])
				if strings.ContainsAny(lit, "\n\x00") {
					continue
				}
				probes = append(probes, probe{r, d, len(string(rs[:at])), lit})
			}
		}
	}
	for _, pr := range probes {
		found := false
		for _, p := range paths {
			s, err := ix.Open(p)
			if err != nil {
				continue
			}
			kit.Guard(func() {
				sr, err := s.Search(context.Background(), &query.Substring{Pattern: pr.lit, CaseSensitive: true, Content: true}, &zoekt.SearchOptions{ChunkMatches: true, Whole: true})
				if err != nil {
					return
				}
				for _, f := range sr.Files {
					if f.Repository != pr.r.Name || f.FileName != pr.d.Name || string(f.Content) != pr.d.Text() {
						continue
					}
					for _, cm := range f.ChunkMatches {
						for _, rg := range cm.Ranges {
							// exactly there, or (self-overlapping text such as a run of one
							// letter: occurrences are reported non-overlapping from the left) an
							// occurrence of the same length that overlaps it
							st, en := int(rg.Start.ByteOffset), int(rg.End.ByteOffset)
							if en-st == len(pr.lit) && st > pr.off-len(pr.lit) && st < pr.off+len(pr.lit) && string(f.Content[st:en]) == pr.lit {
								found = true
							}
						}
					}
				}
			})
			s.Close()
		}
		rec.Count("content_probes", 1)
		if !found {
			rec.Violation("written search structures do not point into the content/"+mode,
				fmt.Sprintf("%s:%s literal %q at byte %d (rune %d) is not found there", pr.r.Name, pr.d.Name, pr.lit, pr.off, utf8.RuneCountInString(pr.d.Content[:pr.off])), wit(nil))
			return
		}
	}
}
