// Package sd holds the black-box search-differential monitors.
package sd

import (
	"context"
	"fmt"
	"os"
	"path/filepath"

	"github.com/sourcegraph/zoekt"
	kit "github.com/sourcegraph/zoekt/internal/verifkit"
	"github.com/sourcegraph/zoekt/internal/verifkit/ix"
	"github.com/sourcegraph/zoekt/query"
	"github.com/sourcegraph/zoekt/search"
)

// world is one generated corpus written to disk and opened every way.
type world struct {
	dir    string
	c      *kit.Corpus
	ev     *kit.Evaluator
	g      *kit.Gen
	paths  []string
	shards []zoekt.Searcher // one bare index searcher per shard file
	dirS   zoekt.Streamer   // directory (sharded) searcher, may be nil
	layout ix.Layout
}

func (w *world) close() {
	for _, s := range w.shards {
		s.Close()
	}
	if w.dirS != nil {
		w.dirS.Close()
	}
	os.RemoveAll(w.dir)
}

type worldOpt struct {
	noDir     bool
	skips     bool
	tenants   int
	configure func(g *kit.Gen)
	corpus    func(g *kit.Gen) *kit.Corpus // replaces g.Corpus()
}

func newWorld(rec *kit.Rec, stream uint64, o worldOpt) (*world, error) {
	g := kit.NewGen(rec.Rand(stream))
	g.Tombstones = true
	g.SubRepos = true
	g.Tenants = o.tenants
	if o.configure != nil {
		o.configure(g)
	}
	var c *kit.Corpus
	if o.corpus != nil {
		c = o.corpus(g)
	} else {
		c = g.Corpus()
	}
	if o.skips {
		ix.MarkSkips(g, c)
	}
	dir := filepath.Join(rec.Work, fmt.Sprintf("w%d", stream))
	os.RemoveAll(dir)
	if err := os.MkdirAll(dir, 0o755); err != nil {
		return nil, err
	}
	w := &world{dir: dir, c: c, g: g, ev: kit.NewEvaluator(c)}
	w.layout = ix.RandomLayout(g, c)
	paths, err := ix.BuildLayout(dir, c, w.layout)
	if err != nil {
		os.RemoveAll(dir)
		return nil, fmt.Errorf("build: %w", err)
	}
	w.paths = paths
	for _, p := range paths {
		s, err := ix.Open(p)
		if err != nil {
			w.close()
			return nil, fmt.Errorf("open %s: %w", p, err)
		}
		w.shards = append(w.shards, s)
	}
	if !o.noDir {
		ds, err := search.NewDirectorySearcher(dir)
		if err != nil {
			w.close()
			return nil, err
		}
		w.dirS = ds
	}
	return w, nil
}

// unionSearch runs q on every bare shard searcher and concatenates the files.
func (w *world) unionSearch(q query.Q, opts *zoekt.SearchOptions) (*zoekt.SearchResult, error) {
	var all zoekt.SearchResult
	for _, s := range w.shards {
		o := *opts
		sr, err := s.Search(context.Background(), q, &o)
		if err != nil {
			return nil, err
		}
		all.Files = append(all.Files, sr.Files...)
		all.Stats.Add(sr.Stats)
	}
	return &all, nil
}

func witness(w *world, q query.Q, extra map[string]any) map[string]any {
	m := map[string]any{"query": q.String(), "corpus": ix.Dump(w.c), "layout": w.layout.Groups}
	for k, v := range extra {
		m[k] = v
	}
	return m
}
