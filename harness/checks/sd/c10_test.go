package sd

import (
	"context"
	"fmt"
	"os"
	"path/filepath"
	"reflect"
	"sort"
	"strings"
	"testing"

	"github.com/sourcegraph/zoekt"
	"github.com/sourcegraph/zoekt/index"
	kit "github.com/sourcegraph/zoekt/internal/verifkit"
	"github.com/sourcegraph/zoekt/internal/verifkit/ix"
	"github.com/sourcegraph/zoekt/query"
	"github.com/sourcegraph/zoekt/search"
)

// Shared by C10 (build configuration), C16 (merge/explode) and C18 (sharded = union):
// run one query two ways and compare the normalised answers (files, contents,
// branches, languages, sub-repositories, match ranges).

type searchFn func(q query.Q, opts *zoekt.SearchOptions) (*zoekt.SearchResult, error)

func dirFn(s zoekt.Searcher) searchFn {
	return func(q query.Q, opts *zoekt.SearchOptions) (*zoekt.SearchResult, error) {
		return s.Search(context.Background(), q, opts)
	}
}

// diffResults returns "" when both results hold the same files with the same
// branches / language / sub-repository / ranges; otherwise a class and a description.
func diffResults(a, b *zoekt.SearchResult) (class, detail string) {
	class, detail, _ = diffResultsRepo(a, b)
	return
}

func diffResultsRepo(a, b *zoekt.SearchResult) (class, detail, repo string) {
	class, detail, repo, _ = diffResultsFile(a, b)
	return
}

func diffResultsFile(a, b *zoekt.SearchResult) (class, detail, repo, name string) {
	na, nb := ix.Normalise(a), ix.Normalise(b)
	// The same path may exist twice in one repository with the same content on
	// complementary branch sets (the generator makes such documents; two empty files are
	// the usual case). Files are therefore compared as multisets per (repository, name,
	// content): a different count on the two sides is a missing / extra file, equal
	// counts are compared pairwise in a canonical order.
	group := func(l []ix.NFile) (map[string][]ix.NFile, []string) {
		m := map[string][]ix.NFile{}
		var keys []string
		for _, f := range l {
			if _, ok := m[f.Key()]; !ok {
				keys = append(keys, f.Key())
			}
			m[f.Key()] = append(m[f.Key()], f)
		}
		for _, fs := range m {
			sort.SliceStable(fs, func(i, j int) bool {
				return fmt.Sprint(fs[i].Branches, fs[i].Version) < fmt.Sprint(fs[j].Branches, fs[j].Version)
			})
		}
		return m, keys
	}
	ma, ka := group(na)
	mb, kb := group(nb)
	for _, k := range kb {
		fs, xs := mb[k], ma[k]
		f := fs[0]
		switch {
		case len(xs) < len(fs):
			return "file only right", f.Repo + ":" + f.Name, f.Repo, f.Name
		case len(xs) > len(fs):
			return "file only left", f.Repo + ":" + f.Name, f.Repo, f.Name
		}
		for i := range fs {
			x, f := xs[i], fs[i]
			switch {
			case !reflect.DeepEqual(x.Branches, f.Branches):
				return "branches differ", fmt.Sprintf("%s:%s %v vs %v", f.Repo, f.Name, x.Branches, f.Branches), f.Repo, f.Name
			case x.Language != f.Language:
				return "language differs", fmt.Sprintf("%s:%s %q vs %q", f.Repo, f.Name, x.Language, f.Language), f.Repo, f.Name
			case x.SubRepo != f.SubRepo || x.SubPath != f.SubPath:
				return "sub-repository differs", fmt.Sprintf("%s:%s", f.Repo, f.Name), f.Repo, f.Name
			case x.Version != f.Version:
				return "version differs", fmt.Sprintf("%s:%s %q vs %q", f.Repo, f.Name, x.Version, f.Version), f.Repo, f.Name
			case !reflect.DeepEqual(x.Ranges, f.Ranges) || !reflect.DeepEqual(x.NameRanges, f.NameRanges):
				return "matches differ", fmt.Sprintf("%s:%s %v/%v vs %v/%v", f.Repo, f.Name, x.Ranges, x.NameRanges, f.Ranges, f.NameRanges), f.Repo, f.Name
			}
		}
	}
	for _, k := range ka {
		if _, ok := mb[k]; !ok {
			f := ma[k][0]
			return "file only left", f.Repo + ":" + f.Name, f.Repo, f.Name
		}
	}
	return "", "", "", ""
}

// probe runs q both ways; class "" = same.
func probePair(q query.Q, opts zoekt.SearchOptions, a, b searchFn) (class, detail string) {
	var ra, rb *zoekt.SearchResult
	var ea, eb error
	oa, ob := opts, opts
	if msg, stack, p := kit.Guard(func() { ra, ea = a(q, &oa) }); p {
		return "panic (left)/" + kit.PanicSite(stack), msg + "\n" + stack
	}
	if msg, stack, p := kit.Guard(func() { rb, eb = b(q, &ob) }); p {
		return "panic (right)/" + kit.PanicSite(stack), msg + "\n" + stack
	}
	if (ea != nil) != (eb != nil) {
		return "error on one side", fmt.Sprintf("left=%v right=%v", ea, eb)
	}
	if ea != nil {
		return "", ""
	}
	if ra.Stats.Crashes+rb.Stats.Crashes > 0 {
		return "shard crash", fmt.Sprintf("crashes %d/%d", ra.Stats.Crashes, rb.Stats.Crashes)
	}
	return diffResults(ra, rb)
}

// comparePair judges one query, shrinks on disagreement and records.
func comparePair(rec *kit.Rec, tag string, c *kit.Corpus, q query.Q, opts zoekt.SearchOptions, a, b searchFn, extra map[string]any) bool {
	class, detail := probePair(q, opts, a, b)
	if class == "" {
		return true
	}
	if (class == "matches differ" || class == "branches differ") && foldExplains(c, q, opts, a, b, class) {
		// the known layout-dependent rewriting: one coarse signature, no shrinking (it is
		// frequent, and shrinking every occurrence would dominate the run time)
		wit := map[string]any{"query": q.String(), "opts": opts.String(), "corpus": ix.Dump(c), "detail": detail}
		for k, v := range extra {
			wit[k] = v
		}
		rec.Violation(tag+"/"+class+" only through shard-dependent rewriting of a repository filter", detail, wit)
		return false
	}
	small := kit.ShrinkQuery(q, func(x query.Q) bool {
		cl, _ := probePair(x, opts, a, b)
		return cl == class
	})
	_, d2 := probePair(small, opts, a, b)
	sig := tag + "/" + class + "/" + kit.Shape(small)
	if (class == "matches differ" || class == "branches differ") && foldExplains(c, small, opts, a, b, class) {
		// one coarse signature per (comparison, class): this is the known, layout-dependent
		// query rewriting; anything it does not explain keeps its own signature
		sig = tag + "/" + class + " only through shard-dependent rewriting of a repository filter"
	}
	wit := map[string]any{"query": small.String(), "original_query": q.String(), "opts": opts.String(), "corpus": ix.Dump(c), "original_detail": detail}
	for k, v := range extra {
		wit[k] = v
	}
	rec.Violation(sig, d2, wit)
	return false
}

// foldExplains: zoekt folds a repository-level filter (repo, reposet, repoids, raw
// config, meta …) to a constant per shard when it holds for all / none of the shard's
// repositories, and then drops sibling text atoms by constant evaluation ((or TEXT
// FILTER) -> TRUE). Which shards do that depends on the layout. To attribute a
// "matches differ" to exactly that, the filters are replaced by their truth value for
// the repository of the differing file (so that no layout can fold any further) and
// the query is restricted to that repository: if both sides then agree, folding was
// the only cause.
func foldExplains(c *kit.Corpus, q query.Q, opts zoekt.SearchOptions, a, b searchFn, class string) bool {
	var ra, rb *zoekt.SearchResult
	oa, ob := opts, opts
	var ea, eb error
	kit.Guard(func() { ra, ea = a(q, &oa); rb, eb = b(q, &ob) })
	if ea != nil || eb != nil || ra == nil || rb == nil {
		return false
	}
	cl, _, repoName, fileName := diffResultsFile(ra, rb)
	if cl != class {
		return false
	}
	var repo *kit.Repo
	for _, r := range c.Repos {
		if r.Name == repoName {
			repo = r
		}
	}
	if repo == nil || len(repo.Docs) == 0 {
		return false
	}
	ev := kit.NewEvaluator(c)
	changed := false
	q2 := query.Map(q, func(x query.Q) query.Q {
		switch x.(type) {
		case *query.Repo, *query.RepoRegexp, *query.RepoSet, *query.RepoIDs, query.RawConfig, *query.Meta:
			changed = true
			return &query.Const{Value: ev.Match(x, repo, repo.Docs[0])}
		case *query.Language:
			// folded to FALSE in shards that hold no document of that language
			for _, d := range repo.Docs {
				if d.Name == fileName {
					changed = true
					return &query.Const{Value: d.Language == x.(*query.Language).Language}
				}
			}
		case *query.Type:
			// type:repo sub-queries are turned into a repository set before sharding
			if t := x.(*query.Type); t.Type == query.TypeRepo {
				changed = true
				return &query.Const{Value: ev.Match(x, repo, repo.Docs[0])}
			}
		case *query.BranchesRepos:
			// rewritten to exact branch queries when every repository of the searched
			// shards is in the set; spell that out for this repository
			changed = true
			var alts []query.Q
			for _, br := range x.(*query.BranchesRepos).List {
				if br.Repos.Contains(repo.ID) {
					alts = append(alts, &query.Branch{Pattern: br.Branch, Exact: true})
				}
			}
			if len(alts) == 0 {
				return &query.Const{Value: false}
			}
			return query.NewOr(alts...)
		}
		return x
	})
	if !changed {
		return false
	}
	q3 := query.NewAnd(query.NewRepoIDs(repo.ID), query.NewFileNameSet(fileName), q2)
	cl2, _ := probePair(q3, opts, a, b)
	return cl2 == ""
}

func randOpts(g *kit.Gen) zoekt.SearchOptions {
	return zoekt.SearchOptions{Whole: true, ChunkMatches: g.R.IntN(2) == 0, NumContextLines: g.R.IntN(2)}
}

// ---------------------------------------------------------------------------
// C10: results do not depend on how the index was built.

func TestVerif_C10(t *testing.T) {
	rec := kit.Open("C10")
	defer rec.Done()
	nCorp := rec.N(16, 600)
	nQ := rec.N(60, 100)
	for ci := 0; ci < nCorp; ci++ {
		g := kit.NewGen(rec.Rand(uint64(ci) + 10_000_000))
		g.SubRepos = true
		c := g.Corpus()
		ev := kit.NewEvaluator(c)
		base := filepath.Join(rec.Work, fmt.Sprintf("c10-%d", ci))
		func() {
			defer os.RemoveAll(base)
			dirA := filepath.Join(base, "a")
			os.MkdirAll(dirA, 0o755)
			// baseline: index.Builder with defaults (one shard per repository, model order)
			for _, r := range c.Repos {
				if _, err := ix.BuildWithBuilder(dirA, r, ix.BuilderOpts{ShardMax: 1 << 20, SizeMax: 1 << 20, TrigramMax: 1 << 20}); err != nil {
					rec.Violation("build error/baseline/"+kit.MsgClass(err.Error()), err.Error(), map[string]any{"corpus": ix.Dump(c)})
					return
				}
			}
			sa, err := search.NewDirectorySearcher(dirA)
			if err != nil {
				rec.Violation("harness/open", err.Error(), nil)
				return
			}
			defer sa.Close()
			nCfg := rec.N(4, 6)
			for k := 0; k < nCfg; k++ {
				dirB := filepath.Join(base, fmt.Sprintf("b%d", k))
				os.MkdirAll(dirB, 0o755)
				cfg := map[string]any{}
				nshards := 0
				if k%4 == 3 && len(c.Repos) > 1 {
					cfg["kind"] = "compound"
					if err := mergeDir(dirA, dirB); err != nil {
						rec.Violation("build error/compound/"+kit.MsgClass(err.Error()), err.Error(), map[string]any{"corpus": ix.Dump(c)})
						continue
					}
					nshards = 1
				} else {
					o := ix.BuilderOpts{ShardMax: []int{1 << 20, 300, 1200, 5000}[g.R.IntN(4)], Parallelism: []int{1, 2, 3, 4, 8, 16}[g.R.IntN(6)], SizeMax: 1 << 20, TrigramMax: 1 << 20}
					cfg["kind"], cfg["shardmax"], cfg["parallelism"] = "builder", o.ShardMax, o.Parallelism
					failed := false
					for _, r := range c.Repos {
						if g.R.IntN(2) == 0 {
							o.Order = g.R.Perm(len(r.Docs))
							cfg["permuted"] = true
						} else {
							o.Order = nil
						}
						paths, err := ix.BuildWithBuilder(dirB, r, o)
						if err != nil {
							rec.Violation("build error/builder/"+kit.MsgClass(err.Error()), err.Error(), map[string]any{"corpus": ix.Dump(c), "config": cfg})
							failed = true
							break
						}
						nshards += len(paths)
					}
					if failed {
						continue
					}
				}
				sb, err := search.NewDirectorySearcher(dirB)
				if err != nil {
					rec.Violation("harness/open", err.Error(), nil)
					continue
				}
				qg := kit.NewQGen(g, c, ev)
				qg.AllowRepo = true
				for qi := 0; qi < nQ; qi++ {
					q := qg.Query()
					opts := randOpts(g)
					ok := comparePair(rec, "build config", c, q, opts, dirFn(sa), dirFn(sb), map[string]any{"config": cfg, "shards": nshards})
					nt := false
					if ok {
						if r, err := sa.Search(context.Background(), q, &opts); err == nil {
							nt = len(r.Files) > 0
						}
					}
					rec.Case(fmt.Sprintf("%v|%d|%s", cfg["kind"], nshards, kit.Shape(q)), nt, func() any {
						return map[string]any{"config": cfg, "shards": nshards, "query": q.String()}
					})
				}
				rec.Max("max_shards_per_corpus", int64(nshards))
				rec.Seen("configs", fmt.Sprintf("%v/shardmax=%v", cfg["kind"], cfg["shardmax"]))
				sb.Close()
				os.RemoveAll(dirB)
			}
		}()
	}
}

// ---------------------------------------------------------------------------
// C16: merging and exploding shards preserves searchable content.

func listMeta(s zoekt.Searcher) (map[string]string, error) {
	rl, err := s.List(context.Background(), &query.Const{Value: true}, nil)
	if err != nil {
		return nil, err
	}
	out := map[string]string{}
	for _, e := range rl.Repos {
		r := e.Repository
		var subs []string
		for p, s := range r.SubRepoMap {
			subs = append(subs, p+"="+s.Name)
		}
		sort.Strings(subs)
		var raw, meta []string
		for k, v := range r.RawConfig {
			raw = append(raw, k+"="+v)
		}
		for k, v := range r.Metadata {
			meta = append(meta, k+"="+v)
		}
		sort.Strings(raw)
		sort.Strings(meta)
		key := r.Name
		val := fmt.Sprintf("id=%d tenant=%d url=%s branches=%v raw=%v meta=%v rank=%d file=%s line=%s commit=%s subs=%v docs=%d hasSymbols=%v",
			r.ID, r.TenantID, r.URL, r.Branches, raw, meta, r.Rank, r.FileURLTemplate, r.LineFragmentTemplate, r.CommitURLTemplate, subs, e.Stats.Documents, r.HasSymbols)
		if old, dup := out[key]; dup {
			val = old + " || " + val
		}
		out[key] = val
	}
	return out, nil
}

func TestVerif_C16(t *testing.T) {
	rec := kit.Open("C16")
	defer rec.Done()
	nCorp := rec.N(60, 2000)
	nQ := rec.N(25, 50)
	for ci := 0; ci < nCorp; ci++ {
		g := kit.NewGen(rec.Rand(uint64(ci) + 16_000_000))
		g.SubRepos = true
		g.MaxRepos = 6
		if ci%7 == 0 {
			g.MaxDocs = 3
		}
		c := g.Corpus()
		for len(c.Repos) < 2 {
			r := g.Repo(1)
			r.Docs = append(r.Docs, g.Doc(r, map[string]bool{}))
			c.Repos = append(c.Repos, r)
		}
		// some repositories are tombstoned through the sidecar before merging
		tomb := map[string]bool{}
		for _, r := range c.Repos {
			if g.R.IntN(5) == 0 {
				tomb[r.Name] = true
			}
		}
		base := filepath.Join(rec.Work, fmt.Sprintf("c16-%d", ci))
		func() {
			defer os.RemoveAll(base)
			dirA, dirB, dirC := filepath.Join(base, "a"), filepath.Join(base, "b"), filepath.Join(base, "c")
			for _, d := range []string{dirA, dirB, dirC} {
				os.MkdirAll(d, 0o755)
			}
			var files []index.IndexFile
			for _, r := range c.Repos {
				// a simple shard carries its tombstone in its own repository metadata
				r.Tombstone = tomb[r.Name]
				p, err := ix.BuildSimple(dirA, r)
				if err != nil {
					rec.Violation("harness/build", err.Error(), nil)
					return
				}
				f, err := ix.OpenFile(p)
				if err != nil {
					rec.Violation("harness/open", err.Error(), nil)
					return
				}
				files = append(files, f)
			}
			closeFiles := func() {
				for _, f := range files {
					f.Close()
				}
			}
			ev := kit.NewEvaluator(c)
			live := 0
			for _, r := range c.Repos {
				if !r.Tombstone {
					live++
				}
			}
			if live == 0 {
				closeFiles()
				return
			}
			tmpN, dstN, err := index.Merge(dirB, files...)
			closeFiles()
			if err != nil {
				rec.Violation("merge error/"+kit.MsgClass(err.Error()), err.Error(), map[string]any{"corpus": ix.Dump(c)})
				return
			}
			if err := os.Rename(tmpN, dstN); err != nil {
				rec.Violation("harness/rename", err.Error(), nil)
				return
			}
			sa, err := search.NewDirectorySearcher(dirA)
			if err != nil {
				rec.Violation("harness/open", err.Error(), nil)
				return
			}
			defer sa.Close()
			sb, err := search.NewDirectorySearcher(dirB)
			if err != nil {
				rec.Violation("harness/open", err.Error(), nil)
				return
			}
			qg := kit.NewQGen(g, c, ev)
			qg.AllowRepo = true
			var qs []query.Q
			qs = append(qs, &query.Const{Value: true})
			for qi := 0; qi < nQ; qi++ {
				qs = append(qs, qg.Query())
			}
			c16Compare(rec, "merge", c, g, qs, sa, sb, live)
			// a tombstoned repository must not survive in the compound shard at all
			if repos, _, err := index.ReadMetadataPath(dstN); err == nil {
				for _, r := range repos {
					if tomb[r.Name] {
						rec.Violation("merge/tombstoned repository kept", r.Name, map[string]any{"corpus": ix.Dump(c)})
					}
				}
			}
			// explode into dirC
			cp := filepath.Join(dirC, filepath.Base(dstN))
			if err := copyFile(dstN, cp); err != nil {
				rec.Violation("harness/copy", err.Error(), nil)
				sb.Close()
				return
			}
			if err := index.Explode(dirC, cp); err != nil {
				rec.Violation("explode error/"+kit.MsgClass(err.Error()), err.Error(), map[string]any{"corpus": ix.Dump(c)})
				sb.Close()
				return
			}
			if _, err := os.Stat(cp); err == nil {
				rec.Violation("explode/compound shard kept", cp, nil)
			}
			sc, err := search.NewDirectorySearcher(dirC)
			if err != nil {
				rec.Violation("harness/open", err.Error(), nil)
				sb.Close()
				return
			}
			c16Compare(rec, "explode", c, g, qs, sb, sc, live)
			sb.Close()
			sc.Close()
			if ci%2 == 0 && live >= 2 {
				c16SecondGeneration(rec, c, g, qs, sa, dstN, filepath.Join(base, "d"), live)
			}
		}()
	}
}

// c16SecondGeneration: the history a vacuum/re-merge cycle produces. The compound shard
// gets a sidecar (one repository is tombstoned through SetTombstone), is exploded,
// the tombstoned repository is indexed again, and everything is merged once more in
// the original order — compound shards are named after their repositories, so the new
// compound shard gets the old file name. The result must again answer like the
// original simple shards (every repository that was live there is live again).
func c16SecondGeneration(rec *kit.Rec, c *kit.Corpus, g *kit.Gen, qs []query.Q, sa zoekt.Searcher, compound, dir string, live int) {
	fail := func(sig string, err error) {
		rec.Violation(sig+"/"+kit.MsgClass(err.Error()), err.Error(), map[string]any{"corpus": ix.Dump(c)})
	}
	os.MkdirAll(dir, 0o755)
	cp := filepath.Join(dir, filepath.Base(compound))
	if err := copyFile(compound, cp); err != nil {
		rec.Violation("harness/copy", err.Error(), nil)
		return
	}
	var liveRepos []*kit.Repo
	for _, r := range c.Repos {
		if !r.Tombstone {
			liveRepos = append(liveRepos, r)
		}
	}
	victim := liveRepos[g.R.IntN(len(liveRepos))]
	if err := index.SetTombstone(cp, victim.ID); err != nil {
		fail("remerge/settombstone error", err)
		return
	}
	if err := index.Explode(dir, cp); err != nil {
		fail("remerge/explode error", err)
		return
	}
	// the tombstoned repository is indexed again
	if _, err := ix.BuildSimple(dir, victim); err != nil {
		rec.Violation("harness/build", err.Error(), nil)
		return
	}
	byName := map[string]string{}
	shards, _ := filepath.Glob(filepath.Join(dir, "*.zoekt"))
	for _, p := range shards {
		if repos, _, err := index.ReadMetadataPath(p); err == nil && len(repos) == 1 {
			byName[repos[0].Name] = p
		}
	}
	var files []index.IndexFile
	var inputs []string
	closeAll := func() {
		for _, f := range files {
			f.Close()
		}
	}
	for _, r := range liveRepos {
		p, ok := byName[r.Name]
		if !ok {
			closeAll()
			rec.Violation("remerge/exploded shard missing", r.Name, map[string]any{"corpus": ix.Dump(c), "victim": victim.Name})
			return
		}
		f, err := ix.OpenFile(p)
		if err != nil {
			closeAll()
			fail("remerge/open error", err)
			return
		}
		files = append(files, f)
		inputs = append(inputs, p)
	}
	tmpN, dstN, err := index.Merge(dir, files...)
	closeAll()
	if err != nil {
		fail("remerge/merge error", err)
		return
	}
	for _, p := range inputs { // what zoekt-merge-index does: inputs go, then the compound shard appears
		if paths, err := index.IndexFilePaths(p); err == nil {
			for _, x := range paths {
				os.Remove(x)
			}
		}
	}
	if err := os.Rename(tmpN, dstN); err != nil {
		rec.Violation("harness/rename", err.Error(), nil)
		return
	}
	rec.Count("second_generation_histories", 1)
	if filepath.Base(dstN) == filepath.Base(compound) {
		rec.Count("second_generation_reuses_compound_file_name", 1)
	}
	sd, err := search.NewDirectorySearcher(dir)
	if err != nil {
		rec.Violation("harness/open", err.Error(), nil)
		return
	}
	defer sd.Close()
	c16Compare(rec, "remerge", c, g, qs, sa, sd, live)
}

func c16Compare(rec *kit.Rec, tag string, c *kit.Corpus, g *kit.Gen, qs []query.Q, a, b zoekt.Searcher, live int) {
	for _, q := range qs {
		opts := randOpts(g)
		ok := comparePair(rec, tag, c, q, opts, dirFn(a), dirFn(b), nil)
		nt := false
		if ok {
			if r, err := a.Search(context.Background(), q, &opts); err == nil {
				nt = len(r.Files) > 0
			}
		}
		rec.Case(fmt.Sprintf("%s|%d|%s", tag, live, kit.Shape(q)), nt, func() any {
			return map[string]any{"step": tag, "live_repos": live, "query": q.String()}
		})
	}
	ma, ea := listMeta(a)
	mb, eb := listMeta(b)
	if ea != nil || eb != nil {
		rec.Violation(tag+"/list error", fmt.Sprintf("%v / %v", ea, eb), map[string]any{"corpus": ix.Dump(c)})
		return
	}
	if !reflect.DeepEqual(ma, mb) {
		var diffs []string
		for k, v := range ma {
			if mb[k] != v {
				diffs = append(diffs, fmt.Sprintf("%s: before {%s} after {%s}", k, v, mb[k]))
			}
		}
		for k, v := range mb {
			if _, ok := ma[k]; !ok {
				diffs = append(diffs, fmt.Sprintf("%s: only after {%s}", k, v))
			}
		}
		sort.Strings(diffs)
		rec.Violation(tag+"/listing metadata differs/"+metaField(diffs), strings.Join(diffs, "\n"), map[string]any{"corpus": ix.Dump(c)})
	}
	rec.Count("listings_compared_"+tag, 1)
}

// metaField names the first field that differs, for the signature.
func metaField(diffs []string) string {
	if len(diffs) == 0 {
		return "?"
	}
	d := diffs[0]
	i := strings.Index(d, "before {")
	j := strings.Index(d, "} after {")
	if i < 0 || j < 0 {
		return "presence"
	}
	before := strings.Fields(d[i+8 : j])
	after := strings.Fields(strings.TrimSuffix(d[j+9:], "}"))
	for k := range before {
		if k >= len(after) || before[k] != after[k] {
			return strings.SplitN(before[k], "=", 2)[0]
		}
	}
	return "?"
}

// mergeDir merges every shard of src into one compound shard in dst.
func mergeDir(src, dst string) error {
	paths, _ := filepath.Glob(filepath.Join(src, "*.zoekt"))
	sort.Strings(paths)
	var files []index.IndexFile
	defer func() {
		for _, f := range files {
			f.Close()
		}
	}()
	for _, p := range paths {
		f, err := ix.OpenFile(p)
		if err != nil {
			return err
		}
		files = append(files, f)
	}
	tmpN, dstN, err := index.Merge(dst, files...)
	if err != nil {
		return err
	}
	return os.Rename(tmpN, dstN)
}

func copyFile(src, dst string) error {
	b, err := os.ReadFile(src)
	if err != nil {
		return err
	}
	return os.WriteFile(dst, b, 0o644)
}
