package sd

import (
	"context"
	"fmt"
	"os"
	"path/filepath"
	"sort"
	"strings"
	"testing"

	"github.com/sourcegraph/zoekt"
	"github.com/sourcegraph/zoekt/index"
	"github.com/sourcegraph/zoekt/internal/tenant/systemtenant"
	"github.com/sourcegraph/zoekt/internal/tenant/tenanttest"
	kit "github.com/sourcegraph/zoekt/internal/verifkit"
	"github.com/sourcegraph/zoekt/internal/verifkit/ix"
	"github.com/sourcegraph/zoekt/query"
	"github.com/sourcegraph/zoekt/search"
)

// ---------------------------------------------------------------------------
// C17: tombstoned repositories and paths stay hidden.
//
// Sequential model id -> tombstoned; after every operation the shard is re-opened and
// a battery of searches and listings is compared with the reference evaluator under
// the model's liveness.

func TestVerif_C17(t *testing.T) {
	rec := kit.Open("C17")
	defer rec.Done()
	// fault part: SetTombstone/UnsetTombstone with the sidecar rename made to fail
	// (verif FS hook); a nil error must come with the requested state
	defer c17FaultRun(rec)
	nShards := rec.N(40, 1500)
	nOps := 12
	nQ := rec.N(8, 12)
	for si := 0; si < nShards; si++ {
		g := kit.NewGen(rec.Rand(uint64(si) + 17_000_000))
		g.MaxRepos = 5
		g.MaxDocs = 6
		g.SubRepos = true
		c := g.Corpus()
		for len(c.Repos) < 2 {
			r := g.Repo(1)
			r.Docs = append(r.Docs, g.Doc(r, map[string]bool{}))
			c.Repos = append(c.Repos, r)
		}
		for _, r := range c.Repos { // file tombstones on some repositories
			if g.R.IntN(3) == 0 {
				r.FileTomb = map[string]bool{r.Docs[g.R.IntN(len(r.Docs))].Name: true}
				if g.R.IntN(3) == 0 {
					r.FileTomb["no/such/path"] = true
				}
			}
		}
		dir := filepath.Join(rec.Work, fmt.Sprintf("c17-%d", si))
		os.MkdirAll(dir, 0o755)
		func() {
			defer os.RemoveAll(dir)
			path, err := ix.BuildCompound(dir, c.Repos)
			if err != nil {
				rec.Violation("harness/build", err.Error(), map[string]any{"corpus": ix.Dump(c)})
				return
			}
			ev := kit.NewEvaluator(c)
			qg := kit.NewQGen(g, c, ev)
			battery := []query.Q{&query.Const{Value: true}}
			for i := 0; i < nQ; i++ {
				if i%2 == 0 {
					battery = append(battery, qg.FilterAtom())
				} else {
					battery = append(battery, qg.Query())
				}
			}
			var hist []string
			check := func(step string) {
				c17Check(rec, c, ev, path, dir, battery, hist, step)
			}
			check("initial")
			for op := 0; op < nOps; op++ {
				r := c.Repos[g.R.IntN(len(c.Repos))]
				id := r.ID
				known := true
				if g.R.IntN(10) == 0 {
					id, known = 99999, false
				}
				set := g.R.IntN(2) == 0
				name := "unset"
				f := index.UnsetTombstone
				if set {
					name, f = "set", index.SetTombstone
				}
				hist = append(hist, fmt.Sprintf("%s(%d)", name, id))
				var err error
				msg, stack, p := kit.Guard(func() { err = f(path, id) })
				if p {
					rec.Violation("panic/"+name+"/"+kit.PanicSite(stack), msg, map[string]any{"history": hist, "corpus": ix.Dump(c), "stack": stack})
					return
				}
				if err != nil {
					// an operation may fail; then the model does not change
					rec.Count("ops_failed", 1)
					continue
				}
				if known {
					r.Tombstone = set
				}
				rec.Count("ops_"+name, 1)
				check(fmt.Sprintf("after %d ops", op+1))
			}
			nt := 0
			for _, r := range c.Repos {
				if r.Tombstone {
					nt++
				}
			}
			rec.Case(strings.Join(hist, ","), true, func() any {
				return map[string]any{"repos": len(c.Repos), "history": hist, "tombstoned_at_end": nt}
			})
		}()
	}
}

func c17Check(rec *kit.Rec, c *kit.Corpus, ev *kit.Evaluator, path, dir string, battery []query.Q, hist []string, step string) {
	wit := func(q query.Q, extra map[string]any) map[string]any {
		m := map[string]any{"history": append([]string{}, hist...), "step": step, "corpus": ix.Dump(c)}
		if q != nil {
			m["query"] = q.String()
		}
		for k, v := range extra {
			m[k] = v
		}
		return m
	}
	s, err := ix.Open(path) // a fresh load: the state must survive reloading
	if err != nil {
		rec.Violation("reload error/"+kit.MsgClass(err.Error()), err.Error(), wit(nil, nil))
		return
	}
	defer s.Close()
	ds, err := search.NewDirectorySearcher(dir)
	if err != nil {
		rec.Violation("harness/open", err.Error(), nil)
		return
	}
	defer ds.Close()
	for _, q := range battery {
		want := ev.Expected(q)
		for mode, sr := range map[string]zoekt.Searcher{"index": s, "sharded": ds} {
			var got *zoekt.SearchResult
			var err error
			if msg, stack, p := kit.Guard(func() { got, err = sr.Search(context.Background(), q, &zoekt.SearchOptions{Whole: true}) }); p {
				rec.Violation("panic/search/"+mode+"/"+kit.PanicSite(stack), msg, wit(q, map[string]any{"stack": stack}))
				continue
			}
			if err != nil {
				rec.Violation("search error/"+mode+"/"+kit.MsgClass(err.Error()), err.Error(), wit(q, nil))
				continue
			}
			if d := ix.DiffSets(want, ix.FileSet(got)); d != "" {
				kind := "live document missing"
				for i := range got.Files {
					f := &got.Files[i]
					for _, r := range c.Repos {
						if r.Name == f.Repository && r.Tombstone {
							kind = "tombstoned repository visible"
						}
						if r.Name == f.Repository && r.FileTomb[f.FileName] {
							kind = "tombstoned path visible"
						}
					}
				}
				rec.Violation("search/"+mode+"/"+kind, d, wit(q, nil))
			}
			rec.Count("searches", 1)
		}
	}
	// listings: exactly the live repositories (those the filter selects)
	for _, q := range []query.Q{&query.Const{Value: true}, battery[1]} {
		if !listable(q) {
			continue
		}
		for mode, sr := range map[string]zoekt.Searcher{"index": s, "sharded": ds} {
			for _, field := range []zoekt.RepoListField{zoekt.RepoListFieldRepos, zoekt.RepoListFieldReposMap} {
				rl, err := sr.List(context.Background(), q, &zoekt.ListOptions{Field: field})
				if err != nil {
					rec.Violation("list error/"+mode+"/"+kit.MsgClass(err.Error()), err.Error(), wit(q, nil))
					continue
				}
				// must be listed: live, selected by the filter, with a visible document;
				// may be listed: live and selected, but every document path-tombstoned
				// (the statement does not say); must not be listed: everything else
				want := map[string]bool{}
				optional := map[string]bool{}
				for _, r := range c.Repos {
					if r.Tombstone {
						continue
					}
					if ev.RepoHas(q, r) {
						want[r.Name] = true
					} else if len(r.Docs) > 0 && ev.Match(q, r, r.Docs[0]) {
						optional[r.Name] = true
					}
				}
				got := map[string]bool{}
				for _, e := range rl.Repos {
					got[e.Repository.Name] = true
				}
				for id := range rl.ReposMap {
					for _, r := range c.Repos {
						if r.ID == id {
							got[r.Name] = true
						}
					}
				}
				for n := range optional {
					if got[n] {
						want[n] = true
					}
				}
				if fmt.Sprint(keys(want)) != fmt.Sprint(keys(got)) {
					kind := "live repository not listed"
					for n := range got {
						if !want[n] {
							kind = "tombstoned repository listed"
						}
					}
					rec.Violation("list/"+mode+"/"+kind, fmt.Sprintf("field %d: got %v want %v", field, keys(got), keys(want)), wit(q, nil))
				}
				rec.Count("listings", 1)
			}
		}
	}
}

func keys(m map[string]bool) []string {
	var l []string
	for k := range m {
		l = append(l, k)
	}
	sort.Strings(l)
	return l
}

// listable: List accepts repository-level queries.
func listable(q query.Q) bool {
	switch q.(type) {
	case *query.Const, *query.Repo, *query.RepoRegexp, *query.RepoSet, *query.RepoIDs, query.RawConfig, *query.Meta:
		return true
	}
	return false
}

// ---------------------------------------------------------------------------
// C18: the sharded searcher returns the union of per-shard answers.

func TestVerif_C18(t *testing.T) {
	rec := kit.Open("C18")
	defer rec.Done()
	nCorp := rec.N(60, 2500)
	nQ := rec.N(40, 60)
	for ci := 0; ci < nCorp; ci++ {
		w, err := newWorld(rec, uint64(ci)+18_000_000, worldOpt{configure: func(g *kit.Gen) {
			g.HeadAnywhere = true
			g.MaxRepos = 6
			g.Tombstones = ci%3 == 0
			g.ZeroIDs = ci%4 == 1 // repositories without a numeric id
		}})
		if err != nil {
			rec.Violation("harness/build", err.Error(), nil)
			continue
		}
		// a multi-shard repository: one more repository written by index.Builder with a
		// tiny shard limit
		if ci%2 == 0 {
			r := w.g.Repo(99)
			used := map[string]bool{}
			for i := 0; i < 6+w.g.R.IntN(8); i++ {
				d := w.g.Doc(r, used)
				if len(d.Content) < 3 {
					d.Content += "abc"
					d.Symbols = nil
				}
				r.Docs = append(r.Docs, d)
			}
			paths, err := ix.BuildWithBuilder(w.dir, r, ix.BuilderOpts{ShardMax: 400, SizeMax: 1 << 20, TrigramMax: 1 << 20, Parallelism: 2})
			if err == nil {
				w.c.Repos = append(w.c.Repos, r)
				for _, p := range paths {
					if s, err := ix.Open(p); err == nil {
						w.shards = append(w.shards, s)
						w.paths = append(w.paths, p)
					}
				}
				rec.Max("max_shards_of_one_repo", int64(len(paths)))
				// reload the directory searcher so that it sees the new shards
				w.dirS.Close()
				w.dirS, err = search.NewDirectorySearcher(w.dir)
				if err != nil {
					rec.Violation("harness/open", err.Error(), nil)
					w.dirS = nil
					w.close()
					continue
				}
			}
		}
		qg := kit.NewQGen(w.g, w.c, w.ev)
		qg.AllowRepo = true
		union := func(q query.Q, opts *zoekt.SearchOptions) (*zoekt.SearchResult, error) {
			q2, err := c18ExpandTypeRepo(w, q)
			if err != nil {
				return nil, err
			}
			return w.unionSearch(q2, opts)
		}
		for qi := 0; qi < nQ; qi++ {
			var q query.Q
			if qi%4 == 3 {
				q = qg.Query()
			} else {
				// top level And of repository filters and content atoms
				var ch []query.Q
				nf := 1 + w.g.R.IntN(2)
				for i := 0; i < nf; i++ {
					ch = append(ch, c18Filter(w, qg))
				}
				for i := 0; i < w.g.R.IntN(3); i++ {
					ch = append(ch, qg.TextAtom())
				}
				w.g.R.Shuffle(len(ch), func(i, j int) { ch[i], ch[j] = ch[j], ch[i] })
				q = &query.And{Children: ch}
				if len(ch) == 1 && w.g.R.IntN(2) == 0 {
					q = ch[0]
				}
			}
			opts := randOpts(w.g)
			ok := comparePair(rec, "sharded vs per-shard union", w.c, q, opts, union, dirFn(w.dirS), map[string]any{"layout": w.layout.Groups})
			nt := false
			if ok {
				if r, err := w.dirS.Search(context.Background(), q, &opts); err == nil {
					nt = len(r.Files) > 0
				}
			}
			rec.Case(fmt.Sprintf("%d|%s", len(w.paths), kit.Shape(q)), nt, func() any {
				return map[string]any{"shards": len(w.paths), "query": q.String()}
			})
		}
		c18List(rec, w, qg)
		w.close()
	}
}

func c18Filter(w *world, qg *kit.QGen) query.Q {
	for {
		q := qg.FilterAtom()
		switch q.(type) {
		case *query.RepoSet, *query.RepoIDs, *query.BranchesRepos, *query.Repo, *query.Meta:
			return q
		case *query.RepoRegexp:
			return q
		}
		if w.g.R.IntN(6) == 0 {
			return &query.Type{Type: query.TypeRepo, Child: qg.TextAtom()}
		}
	}
}

// c18ExpandTypeRepo evaluates type:repo sub-queries the way the statement describes
// them — the repositories that have a match of the sub-query in some shard — using
// only per-shard searches, and substitutes the repository set.
func c18ExpandTypeRepo(w *world, q query.Q) (query.Q, error) {
	var ferr error
	out := query.Map(q, func(x query.Q) query.Q {
		t, ok := x.(*query.Type)
		if !ok || t.Type != query.TypeRepo {
			return x
		}
		// children were already expanded (Map is bottom-up)
		sr, err := w.unionSearch(t.Child, &zoekt.SearchOptions{})
		if err != nil {
			ferr = err
			return x
		}
		var names []string
		for _, f := range sr.Files {
			names = append(names, f.Repository)
		}
		return query.NewRepoSet(names...)
	})
	return out, ferr
}

// c18List: listing returns each repository once with statistics summed over shards.
func c18List(rec *kit.Rec, w *world, qg *kit.QGen) {
	qs := []query.Q{&query.Const{Value: true}}
	for i := 0; i < 4; i++ {
		q := qg.FilterAtom()
		if listable(q) {
			qs = append(qs, q)
		}
	}
	for _, q := range qs {
		type agg struct {
			shards, docs         int
			index, content       int64
			nl, defaultNL, other uint64
		}
		want := map[string]*agg{}
		failed := false
		for _, s := range w.shards {
			rl, err := s.List(context.Background(), q, nil)
			if err != nil {
				failed = true
				break
			}
			for _, e := range rl.Repos {
				a := want[e.Repository.Name]
				if a == nil {
					a = &agg{}
					want[e.Repository.Name] = a
				}
				a.shards += e.Stats.Shards
				a.docs += e.Stats.Documents
				a.index += e.Stats.IndexBytes
				a.content += e.Stats.ContentBytes
				a.nl += e.Stats.NewLinesCount
				a.defaultNL += e.Stats.DefaultBranchNewLinesCount
				a.other += e.Stats.OtherBranchesNewLinesCount
			}
		}
		if failed {
			continue
		}
		rl, err := w.dirS.List(context.Background(), q, nil)
		if err != nil {
			rec.Violation("list error/sharded/"+kit.MsgClass(err.Error()), err.Error(), witness(w, q, nil))
			continue
		}
		seen := map[string]int{}
		for _, e := range rl.Repos {
			seen[e.Repository.Name]++
			a := want[e.Repository.Name]
			if a == nil {
				rec.Violation("list/repository only in sharded listing", e.Repository.Name, witness(w, q, nil))
				continue
			}
			got := agg{e.Stats.Shards, e.Stats.Documents, e.Stats.IndexBytes, e.Stats.ContentBytes, e.Stats.NewLinesCount, e.Stats.DefaultBranchNewLinesCount, e.Stats.OtherBranchesNewLinesCount}
			if got != *a {
				rec.Violation("list/statistics are not the sum over shards", fmt.Sprintf("%s: got %+v want %+v", e.Repository.Name, got, *a), witness(w, q, nil))
			}
		}
		for n, k := range seen {
			if k > 1 {
				rec.Violation("list/repository listed twice", n, witness(w, q, nil))
			}
		}
		for n := range want {
			if seen[n] == 0 {
				rec.Violation("list/repository missing from sharded listing", n, witness(w, q, nil))
			}
		}
		rec.Count("listings_compared", 1)
	}
}

// ---------------------------------------------------------------------------
// C23: tenants never see another tenant's repositories (strict enforcement).

func TestVerif_C23(t *testing.T) {
	rec := kit.Open("C23")
	defer rec.Done()
	tenanttest.MockEnforce(t)
	nCorp := rec.N(60, 2500)
	nQ := rec.N(25, 40)
	const nTenants = 3
	tenanttest.ResetTestTenants()
	ctxs := map[int]context.Context{}
	for i := 1; i <= nTenants; i++ {
		ctxs[i] = tenanttest.NewTestContext() // tenant i
	}
	noTenant := context.Background()
	system := systemtenant.WithUnsafeContext(context.Background())
	for ci := 0; ci < nCorp; ci++ {
		w, err := newWorld(rec, uint64(ci)+23_000_000, worldOpt{tenants: nTenants, configure: func(g *kit.Gen) {
			g.MaxRepos = 6
			g.SameNames = true
			if ci%4 == 2 {
				// repositories without a numeric id, and ids shared between tenants; no
				// tombstones in these worlds (they are set by id through the sidecar)
				g.ZeroIDs, g.CollideIDs, g.Tombstones = true, true, false
			}
		}})
		if err != nil {
			rec.Violation("harness/build", err.Error(), nil)
			continue
		}
		// ownership: by repository id (ids are unique, names are not: two tenants may own
		// repositories of one name); a name (keys of RepoURLs / LineFragments, sub-repository
		// names) is visible to every tenant that owns a repository of that name
		owner := map[string]int{}
		own := c23Owners{byID: map[uint32]int{}, byName: map[string]map[int]bool{}, idTenants: map[uint32]map[int]bool{}, docs: map[string]map[int]bool{}}
		sameName := false
		for _, r := range w.c.Repos {
			if _, dup := owner[r.Name]; dup {
				sameName = true
			}
			owner[r.Name] = r.TenantID
			own.byID[r.ID] = r.TenantID
			if own.idTenants[r.ID] == nil {
				own.idTenants[r.ID] = map[int]bool{}
			}
			own.idTenants[r.ID][r.TenantID] = true
			for _, d := range r.Docs {
				k := fmt.Sprintf("%s\x00%d\x00%s", r.Name, r.ID, d.Name)
				if own.docs[k] == nil {
					own.docs[k] = map[int]bool{}
				}
				own.docs[k][r.TenantID] = true
			}
			for _, n := range append([]string{r.Name}, c23SubNames(r)...) {
				if own.byName[n] == nil {
					own.byName[n] = map[int]bool{}
				}
				own.byName[n][r.TenantID] = true
			}
		}
		if sameName {
			rec.Count("worlds_with_one_name_owned_by_two_tenants", 1)
		}
		qg := kit.NewQGen(w.g, w.c, w.ev)
		qg.AllowRepo = true
		for qi := 0; qi < nQ; qi++ {
			q := qg.Query()
			if qi%5 == 0 {
				q = &query.Const{Value: true}
			}
			opts := randOpts(w.g)
			for tid := 0; tid <= nTenants+1; tid++ {
				var ctx context.Context
				who := fmt.Sprintf("tenant %d", tid)
				switch {
				case tid == 0:
					ctx, who = noTenant, "no tenant"
				case tid == nTenants+1:
					ctx, who = system, "system"
				default:
					ctx = ctxs[tid]
				}
				c23Search(rec, w, q, opts, ctx, who, own.view(tid, tid == nTenants+1), tid == nTenants+1)
			}
			nt := false
			for _, r := range w.c.Repos {
				if r.TenantID != w.c.Repos[0].TenantID {
					nt = true
				}
			}
			rec.Case(fmt.Sprintf("%d|%s", len(w.paths), kit.Shape(q)), nt, func() any {
				return map[string]any{"query": q.String(), "tenants_of_repos": owner}
			})
		}
		w.close()
	}
}

type c23Owners struct {
	byID      map[uint32]int
	byName    map[string]map[int]bool
	idTenants map[uint32]map[int]bool // ids are not unique when CollideIDs / ZeroIDs is on
	docs      map[string]map[int]bool // (repository name, id, file name) -> tenants owning such a document
}

// c23View is what one caller may see.
type c23View struct {
	file     func(repo string, id uint32, file string) bool // a document of a repository (name, id)
	tenant   func(t int) bool                               // a repository that states its tenant
	id       func(id uint32) bool                           // a repository, identified by id
	name     func(name string) bool                         // a repository or sub-repository name
	dupNames bool                                           // some name is owned by more than one tenant
}

func (o c23Owners) view(tid int, system bool) c23View {
	dup := false
	for _, ts := range o.byName {
		if len(ts) > 1 {
			dup = true
		}
	}
	return c23View{
		dupNames: dup,
		file: func(repo string, id uint32, file string) bool {
			if system {
				return true
			}
			return tid != 0 && o.docs[fmt.Sprintf("%s\x00%d\x00%s", repo, id, file)][tid]
		},
		tenant: func(t int) bool { return system || (tid != 0 && t == tid) },
		id: func(id uint32) bool {
			if system {
				return true
			}
			// with shared ids: visible if the caller owns a repository of that id
			return tid != 0 && o.idTenants[id][tid]
		},
		name: func(n string) bool {
			if system {
				return true
			}
			return tid != 0 && o.byName[n][tid]
		},
	}
}

func c23SubNames(r *kit.Repo) []string {
	var out []string
	for _, n := range r.SubRepos {
		out = append(out, n)
	}
	sort.Strings(out)
	return out
}

func c23Search(rec *kit.Rec, w *world, q query.Q, opts zoekt.SearchOptions, ctx context.Context, who string, may c23View, isSystem bool) {
	allowed := may.name
	wit := func(extra map[string]any) map[string]any {
		return witness(w, q, map[string]any{"context": who, "opts": opts.String(), "extra": extra})
	}
	leak := func(channel, repo string) {
		rec.Violation("leak/"+channel, fmt.Sprintf("%s sees %q", who, repo), wit(nil))
	}
	inspect := func(api string, sr *zoekt.SearchResult) {
		for i := range sr.Files {
			f := &sr.Files[i]
			if !may.id(f.RepositoryID) || !allowed(f.Repository) || !may.file(f.Repository, f.RepositoryID, f.FileName) {
				leak(api+"/Files", fmt.Sprintf("%s (id %d)", f.Repository, f.RepositoryID))
			}
			if f.SubRepositoryName != "" && !allowed(f.SubRepositoryName) {
				leak(api+"/Files.SubRepositoryName", f.SubRepositoryName)
			}
		}
		for n := range sr.RepoURLs {
			if !allowed(n) {
				leak(api+"/RepoURLs", n)
			}
		}
		for n := range sr.LineFragments {
			if !allowed(n) {
				leak(api+"/LineFragments", n)
			}
		}
		rec.Count("results_inspected", 1)
	}
	searchers := map[string]zoekt.Streamer{"sharded": w.dirS}
	for name, s := range searchers {
		o := opts
		var sr *zoekt.SearchResult
		var err error
		if msg, stack, p := kit.Guard(func() { sr, err = s.Search(ctx, q, &o) }); p {
			rec.Violation("panic/"+name+"/"+kit.PanicSite(stack), msg, wit(map[string]any{"stack": stack}))
			continue
		}
		if err == nil {
			inspect(name+".Search", sr)
			if isSystem && hasTypeRepo(q) && may.dupNames {
				// type:repo is evaluated to a set of repository NAMES; with one name owned
				// by two tenants the system context (which sees both) selects both: a
				// matter of type:repo semantics, not of tenant visibility
				rec.Count("system_completeness_not_judged_type_repo_with_shared_names", 1)
			} else if isSystem {
				// the system context sees every tenant's repositories
				// only what is MISSING is this property's business (extra files are C01's;
				// with one name owned by two tenants type:repo selects by name)
				want, got := w.ev.Expected(q), ix.FileSet(sr)
				var missing []string
				for k, n := range want {
					if got[k] < n {
						missing = append(missing, strings.ReplaceAll(k, "\x00", ":"))
					}
				}
				if len(missing) > 0 {
					sort.Strings(missing)
					rec.Violation("system context misses repositories/"+name, fmt.Sprintf("missing=%q", missing), wit(nil))
				}
			}
		}
		o = opts
		var all zoekt.SearchResult
		err = s.StreamSearch(ctx, q, &o, zoekt.SenderFunc(func(r *zoekt.SearchResult) {
			all.Files = append(all.Files, r.Files...)
			for k, v := range r.RepoURLs {
				if all.RepoURLs == nil {
					all.RepoURLs = map[string]string{}
				}
				all.RepoURLs[k] = v
			}
			for k, v := range r.LineFragments {
				if all.LineFragments == nil {
					all.LineFragments = map[string]string{}
				}
				all.LineFragments[k] = v
			}
		}))
		if err == nil {
			inspect(name+".StreamSearch", &all)
		}
	}
	// bare shard searchers (type:repo is not evaluable there)
	if !hasTypeRepo(q) {
		for _, s := range w.shards {
			o := opts
			var sr *zoekt.SearchResult
			var err error
			if _, _, p := kit.Guard(func() { sr, err = s.Search(ctx, q, &o) }); !p && err == nil {
				inspect("index.Search", sr)
			}
		}
	}
	// listings
	lq := query.Q(&query.Const{Value: true})
	if listable(q) {
		lq = q
	}
	ls := []zoekt.Searcher{w.dirS}
	ls = append(ls, w.shards...)
	for i, s := range ls {
		api := "index.List"
		if i == 0 {
			api = "sharded.List"
		}
		for _, field := range []zoekt.RepoListField{zoekt.RepoListFieldRepos, zoekt.RepoListFieldReposMap} {
			rl, err := s.List(ctx, lq, &zoekt.ListOptions{Field: field})
			if err != nil {
				continue
			}
			for _, e := range rl.Repos {
				if !may.id(e.Repository.ID) || !allowed(e.Repository.Name) || !may.tenant(e.Repository.TenantID) {
					leak(api+"/Repos", fmt.Sprintf("%s (id %d, tenant %d)", e.Repository.Name, e.Repository.ID, e.Repository.TenantID))
				}
			}
			for id := range rl.ReposMap {
				if !may.id(id) {
					leak(api+"/ReposMap", fmt.Sprintf("id %d", id))
				}
			}
			if isSystem && i == 0 && field == zoekt.RepoListFieldRepos {
				got := map[string]bool{}
				for _, e := range rl.Repos {
					got[e.Repository.Name] = true
				}
				for _, r := range w.c.Repos {
					if !r.Tombstone && w.ev.RepoHas(lq, r) && !got[r.Name] {
						rec.Violation("system context misses repositories/list", r.Name, wit(nil))
					}
				}
			}
			rec.Count("listings_inspected", 1)
		}
	}
}

func hasTypeRepo(q query.Q) bool {
	found := false
	query.Map(q, func(x query.Q) query.Q {
		if t, ok := x.(*query.Type); ok && t.Type == query.TypeRepo {
			found = true
		}
		return x
	})
	return found
}
