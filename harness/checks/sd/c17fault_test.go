package sd

// C17, fault part: "an operation that reports success has taken effect", checked
// under failing sidecar renames. This file is self-contained (it uses nothing of
// the rest of the package) so that it can be copied next to TestVerif_C17 and
// called from there as c17FaultRun(rec).

import (
	"context"
	"fmt"
	"os"
	"path/filepath"
	"strings"

	"github.com/sourcegraph/zoekt"
	"github.com/sourcegraph/zoekt/index"
	"github.com/sourcegraph/zoekt/internal/verifhook"
	kit "github.com/sourcegraph/zoekt/internal/verifkit"
	"github.com/sourcegraph/zoekt/query"
)

// c17FaultRun builds compound shards and runs random SetTombstone/UnsetTombstone
// sequences on them while the rename of the sidecar ("rename-meta" event of
// internal/verifhook) is sabotaged for a random subset of the operations. After
// every operation the shard is re-opened: a nil error must come with the requested
// state; an error may leave the old state.
func c17FaultRun(rec *kit.Rec) {
	r := rec.Rand(1700)
	nShards := rec.N(12, 150)
	base := filepath.Join(rec.Work, "c17fault")
	defer os.RemoveAll(base)
	defer verifhook.SetFS(nil)
	for si := 0; si < nShards; si++ {
		dir := filepath.Join(base, fmt.Sprint(si))
		nRepos := 2 + r.IntN(3)
		shard, ids, err := c17FaultCompound(dir, si, nRepos)
		if err != nil {
			rec.Violation("harness/c17fault build", err.Error(), nil)
			return
		}
		state := map[uint32]bool{}
		var history []string
		for op := 0; op < 8; op++ {
			id := ids[r.IntN(len(ids))]
			set := r.IntN(2) == 0
			sabotage := r.IntN(2) == 0
			name := "UnsetTombstone"
			if set {
				name = "SetTombstone"
			}
			sabotaged := 0
			verifhook.SetFS(func(n int, op string, paths []string) {
				if sabotage && op == "rename-meta" {
					sabotaged++
					verifhook.Sabotage(op, paths)
				}
			})
			var opErr error
			if set {
				opErr = index.SetTombstone(shard, id)
			} else {
				opErr = index.UnsetTombstone(shard, id)
			}
			verifhook.SetFS(nil)
			step := fmt.Sprintf("%s(%d) rename-sabotaged=%v -> err=%v", name, id, sabotaged > 0, opErr)
			history = append(history, step)
			rec.Count("c17fault_ops", 1)
			if sabotaged > 0 {
				rec.Count("c17fault_ops_with_failed_rename", 1)
			}
			got, lerr := c17FaultState(shard)
			if lerr != nil {
				rec.Violation("settombstone/shard unreadable after operation", fmt.Sprintf("%s: %v", step, lerr), map[string]any{"history": history})
				break
			}
			changedWant := state[id] != set
			rec.Case(fmt.Sprintf("c17fault|%d|%s|sab=%v|chg=%v|side=%v", nRepos, name, sabotaged > 0, changedWant, op > 0), sabotaged > 0, func() any {
				return map[string]any{"op": step, "tombstoned_before": state[id], "tombstoned_after": got[id]}
			})
			switch {
			case opErr == nil && got[id] != set:
				rec.Count("c17fault_nil_error_without_effect", 1)
				rec.Violation("settombstone/nil-error-but-no-effect/rename-meta",
					fmt.Sprintf("%s on a compound shard of %d repositories returned nil while the rename of the sidecar failed; the re-opened shard shows tombstone=%v for repository %d", name, nRepos, got[id], id),
					map[string]any{"history": history, "repo_ids": ids, "tombstoned_before": state, "tombstoned_after": got,
						"how": "verifhook.SetFS(func(n, op, paths){ if op==\"rename-meta\" { verifhook.Sabotage(op, paths) } }) around the call; then index.ReadMetadataPath + List on the re-opened shard"})
			case opErr == nil:
				rec.Count("c17fault_nil_error_with_effect", 1)
			case got[id] == state[id]:
				rec.Count("c17fault_error_and_old_state", 1)
			default:
				rec.Count("c17fault_error_and_new_state", 1)
			}
			// every other repository must be untouched either way
			for _, o := range ids {
				if o != id && got[o] != state[o] {
					rec.Violation("settombstone/other repository changed", fmt.Sprintf("%s changed repository %d", step, o), map[string]any{"history": history})
				}
			}
			state = got
			if fs, _ := filepath.Glob(filepath.Join(dir, "*.verif-sabotaged")); len(fs) > 0 {
				for _, f := range fs {
					os.Remove(f)
				}
			}
		}
		os.RemoveAll(dir)
	}
}

// c17FaultState re-opens the shard and returns id -> tombstoned, cross-checked
// with what the shard's searcher lists.
func c17FaultState(shard string) (map[uint32]bool, error) {
	repos, _, err := index.ReadMetadataPath(shard)
	if err != nil {
		return nil, err
	}
	out := map[uint32]bool{}
	for _, rp := range repos {
		out[rp.ID] = rp.Tombstone
	}
	f, err := os.Open(shard)
	if err != nil {
		return nil, err
	}
	inf, err := index.NewIndexFile(f)
	if err != nil {
		f.Close()
		return nil, err
	}
	s, err := index.NewSearcher(inf)
	if err != nil {
		inf.Close()
		return nil, err
	}
	defer s.Close()
	rl, err := s.List(context.Background(), &query.Const{Value: true}, nil)
	if err != nil {
		return nil, err
	}
	listed := map[uint32]bool{}
	for _, e := range rl.Repos {
		listed[e.Repository.ID] = true
	}
	for id, tomb := range out {
		if tomb == listed[id] {
			return nil, fmt.Errorf("repository %d: metadata says tombstone=%v, listing shows it=%v", id, tomb, listed[id])
		}
	}
	return out, nil
}

func c17FaultCompound(dir string, no, nRepos int) (string, []uint32, error) {
	scratch := filepath.Join(dir, "simple")
	if err := os.MkdirAll(scratch, 0o755); err != nil {
		return "", nil, err
	}
	defer os.RemoveAll(scratch)
	var files []index.IndexFile
	defer func() {
		for _, f := range files {
			f.Close()
		}
	}()
	var ids []uint32
	for j := 0; j < nRepos; j++ {
		name := fmt.Sprintf("tomb%d/r%d", no, j)
		id := uint32(500 + j)
		ids = append(ids, id)
		b, err := index.NewBuilder(index.Options{IndexDir: scratch, DisableCTags: true, ShardMax: 1 << 16, Parallelism: 1,
			RepositoryDescription: zoekt.Repository{Name: name, ID: id, Branches: []zoekt.RepositoryBranch{{Name: "main", Version: "v"}}}})
		if err != nil {
			return "", nil, err
		}
		for d := 0; d < 2; d++ {
			if err := b.Add(index.Document{Name: fmt.Sprintf("f%d.txt", d), Content: []byte(strings.Repeat(name+" content ", 3) + "\n"), Branches: []string{"main"}}); err != nil {
				return "", nil, err
			}
		}
		if err := b.Finish(); err != nil {
			return "", nil, err
		}
	}
	fs, _ := filepath.Glob(filepath.Join(scratch, "*.zoekt"))
	for _, fn := range fs {
		f, err := os.Open(fn)
		if err != nil {
			return "", nil, err
		}
		inf, err := index.NewIndexFile(f)
		if err != nil {
			return "", nil, err
		}
		files = append(files, inf)
	}
	tmp, dst, err := index.Merge(dir, files...)
	if err != nil {
		return "", nil, err
	}
	return dst, ids, os.Rename(tmp, dst)
}
