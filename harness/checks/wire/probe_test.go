package wire

import (
	"fmt"
	"os"
	"regexp"
	"regexp/syntax"
	"testing"

	"github.com/sourcegraph/zoekt/internal/syntaxutil"
	"github.com/sourcegraph/zoekt/query"
)

func TestProbeRx(t *testing.T) {
	src := os.Getenv("RX")
	subj := os.Getenv("SUBJ")
	tree, err := syntax.Parse(src, queryRxFlags)
	fmt.Printf("src=%q err=%v\n", src, err)
	if err != nil {
		return
	}
	fmt.Printf("std=%q\nzoekt=%q\n", tree.String(), syntaxutil.RegexpString(tree))
	fresh, _ := syntax.Parse(src, queryRxFlags)
	opt := query.OptimizeRegexp(fresh, queryRxFlags)
	fmt.Printf("opt std=%q\nopt zoekt=%q\n", opt.String(), syntaxutil.RegexpString(opt))
	for _, s := range []string{"(?m)" + src, "(?m)" + syntaxutil.RegexpString(tree), syntaxutil.RegexpString(tree), opt.String(), syntaxutil.RegexpString(opt)} {
		re, err := regexp.Compile(s)
		if err != nil {
			fmt.Printf("%q: %v\n", s, err)
			continue
		}
		fmt.Printf("%-40q %v\n", s, re.FindAllStringIndex(subj, -1))
	}
}
