package wire

import (
	"encoding/hex"
	"fmt"
	"os"
	"runtime"
	"runtime/pprof"
	"testing"
	"time"
)

func TestProbeDec(t *testing.T) {
	in, _ := hex.DecodeString(os.Getenv("HEX"))
	if os.Getenv("CAP") != "" {
		c26SetMemCap()
	}
	var ms runtime.MemStats
	runtime.ReadMemStats(&ms)
	b := ms.TotalAlloc
	f, _ := os.Create("/tmp/wb/cpu.prof")
	pprof.StartCPUProfile(f)
	t0 := time.Now()
	out, err := c26Decode(os.Getenv("DEC"), in)
	pprof.StopCPUProfile()
	runtime.ReadMemStats(&ms)
	fmt.Println(out, err, time.Since(t0), ms.TotalAlloc-b)
}

func TestProbeBatch(t *testing.T) {
	cases := c26Batch(1, 1, 10000)
	if err := c26WriteBatch("/tmp/wb/batch1.json", cases); err != nil {
		t.Fatal(err)
	}
}
