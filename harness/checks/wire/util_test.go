// Package wire holds the black-box monitors for the conversion / encoding
// properties: C24 (wire conversion + gRPC totality), C26 (binary encodings),
// C27 (regexp printing and optimisation).
package wire

import (
	"fmt"
	"math"
	"math/rand/v2"
	"reflect"
	"sort"
	"strings"
	"time"
	"unicode/utf8"
)

// ---------------------------------------------------------------------------
// small random helpers (all randomness comes from a *rand.Rand handed down from
// rec.Rand / kit.NewRand)

var strRunes = []rune{'a', 'b', 'c', 'A', 'Z', '0', '9', '_', '-', '.', '/', ' ', '\n', '\t', '"', '\\', '{', '}', 'é', 'ß', 'д', '日', '😀', 0, 0x7f, 0x85, 0x2028, 0xFFFD, 0x10FFFF}

// rstr: a valid UTF-8 string (possibly empty, with NUL, multi-byte and
// non-printable runes).
func rstr(r *rand.Rand) string {
	switch r.IntN(8) {
	case 0:
		return ""
	case 1:
		return []string{"HEAD", "main", "github.com/a/b", "a", "foo.go", "priority"}[r.IntN(6)]
	}
	n := 1 + r.IntN(10)
	if r.IntN(20) == 0 {
		n = 200 + r.IntN(400)
	}
	var b strings.Builder
	for i := 0; i < n; i++ {
		b.WriteRune(strRunes[r.IntN(len(strRunes))])
	}
	return b.String()
}

// rbytes: arbitrary bytes (nil, empty, invalid UTF-8 included).
func rbytes(r *rand.Rand) []byte {
	switch r.IntN(8) {
	case 0:
		return nil
	case 1:
		return []byte{}
	case 2:
		return []byte(rstr(r))
	}
	n := 1 + r.IntN(24)
	b := make([]byte, n)
	for i := range b {
		b[i] = byte(r.IntN(256))
	}
	return b
}

// rbstr: a string that need not be valid UTF-8.
func rbstr(r *rand.Rand) string {
	if r.IntN(2) == 0 {
		return rstr(r)
	}
	return string(rbytes(r))
}

func rint64(r *rand.Rand) int64 {
	switch r.IntN(10) {
	case 0:
		return 0
	case 1:
		return math.MaxInt64
	case 2:
		return math.MinInt64
	case 3:
		return -1
	case 4:
		return int64(r.IntN(100))
	case 5:
		return 1 << uint(r.IntN(63))
	case 6:
		return -(1 << uint(r.IntN(63)))
	}
	return int64(r.Uint64())
}

func ruint64(r *rand.Rand) uint64 {
	switch r.IntN(6) {
	case 0:
		return 0
	case 1:
		return math.MaxUint64
	case 2:
		return uint64(r.IntN(100))
	case 3:
		return 1 << uint(r.IntN(64))
	}
	return r.Uint64()
}

func rfloat(r *rand.Rand) float64 {
	switch r.IntN(12) {
	case 0:
		return 0
	case 1:
		return math.Copysign(0, -1)
	case 2:
		return math.Inf(1)
	case 3:
		return math.Inf(-1)
	case 4:
		return math.MaxFloat64
	case 5:
		return math.SmallestNonzeroFloat64
	case 6:
		return float64(r.IntN(1000)) / 8
	case 7:
		return -float64(r.IntN(1000)) / 3
	}
	return math.Float64frombits(r.Uint64()&^(0x7ff<<52) | uint64(r.IntN(2046)+1)<<52) // finite, any sign
}

func rtime(r *rand.Rand) time.Time {
	switch r.IntN(9) {
	case 0:
		return time.Time{}
	case 1:
		return time.Unix(0, 0)
	case 2:
		return time.Unix(0, 0).UTC()
	case 3:
		return time.Date(9999, 12, 31, 23, 59, 59, 999999999, time.UTC)
	case 4:
		return time.Date(1, 1, 1, 0, 0, 0, 1, time.UTC)
	case 5:
		return time.Unix(r.Int64N(4e9)-2e9, r.Int64N(1e9)).In(time.FixedZone("x", (r.IntN(25)-12)*3600))
	case 6:
		return time.Unix(-r.Int64N(6e10), r.Int64N(1e9))
	}
	return time.Unix(1.7e9+r.Int64N(1e8), r.Int64N(1e9)).UTC()
}

// ---------------------------------------------------------------------------
// reflection-driven filling of API values

type filler struct {
	r *rand.Rand
	// special generators by type
	special map[reflect.Type]func(f *filler, depth int) reflect.Value
	// fields left at their zero value (off-wire by design), "Type.Field"
	skip map[string]bool
	// string fields that may carry non-UTF-8 bytes (bytes on the wire), "Type.Field"
	rawString map[string]bool
	// slices of pointers whose elements may be nil, "Type.Field"
	nilElems map[string]bool
	maxDepth int
}

var (
	tTime     = reflect.TypeOf(time.Time{})
	tDuration = reflect.TypeOf(time.Duration(0))
)

func (f *filler) fill(v reflect.Value, depth int, path string) {
	t := v.Type()
	if g, ok := f.special[t]; ok {
		v.Set(g(f, depth))
		return
	}
	switch t {
	case tTime:
		v.Set(reflect.ValueOf(rtime(f.r)))
		return
	case tDuration:
		v.SetInt(rint64(f.r))
		return
	}
	r := f.r
	switch t.Kind() {
	case reflect.Bool:
		v.SetBool(r.IntN(2) == 0)
	case reflect.Int, reflect.Int64:
		v.SetInt(rint64(r))
	case reflect.Int32:
		v.SetInt(int64(int32(rint64(r))))
	case reflect.Uint64:
		v.SetUint(ruint64(r))
	case reflect.Uint32:
		v.SetUint(uint64(uint32(ruint64(r))))
		if r.IntN(8) == 0 {
			v.SetUint(math.MaxUint32)
		}
	case reflect.Uint16:
		v.SetUint(uint64(uint16(ruint64(r))))
		if r.IntN(8) == 0 {
			v.SetUint(math.MaxUint16)
		}
	case reflect.Uint8:
		v.SetUint(uint64(uint8(ruint64(r))))
	case reflect.Float64:
		v.SetFloat(rfloat(r))
	case reflect.String:
		if f.rawString[path] {
			v.SetString(rbstr(r))
		} else {
			v.SetString(rstr(r))
		}
	case reflect.Slice:
		if t.Elem().Kind() == reflect.Uint8 {
			v.SetBytes(rbytes(r))
			return
		}
		n := 0
		switch r.IntN(6) {
		case 0:
			return // nil
		case 1:
			v.Set(reflect.MakeSlice(t, 0, 0))
			return
		case 2:
			n = 1
		default:
			n = 1 + r.IntN(4)
		}
		if depth >= f.maxDepth {
			n = min(n, 1)
		}
		s := reflect.MakeSlice(t, n, n)
		for i := 0; i < n; i++ {
			if t.Elem().Kind() == reflect.Pointer && f.nilElems[path] && r.IntN(3) == 0 {
				continue
			}
			f.fill(s.Index(i), depth+1, path)
		}
		v.Set(s)
	case reflect.Map:
		switch r.IntN(5) {
		case 0:
			return
		case 1:
			v.Set(reflect.MakeMap(t))
			return
		}
		n := 1 + r.IntN(3)
		if depth >= f.maxDepth {
			n = 1
		}
		m := reflect.MakeMap(t)
		for i := 0; i < n; i++ {
			k := reflect.New(t.Key()).Elem()
			f.fill(k, depth+1, path+"#key")
			e := reflect.New(t.Elem()).Elem()
			f.fill(e, depth+1, path)
			m.SetMapIndex(k, e)
		}
		v.Set(m)
	case reflect.Pointer:
		p := reflect.New(t.Elem())
		f.fill(p.Elem(), depth+1, path)
		v.Set(p)
	case reflect.Struct:
		for i := 0; i < t.NumField(); i++ {
			sf := t.Field(i)
			if !sf.IsExported() {
				continue
			}
			fp := t.Name() + "." + sf.Name
			if f.skip[fp] {
				continue
			}
			if sf.Type.Kind() == reflect.Pointer && sf.Type.Elem().Kind() == reflect.Struct && r.IntN(3) == 0 {
				continue // optional sub-message left nil
			}
			f.fill(v.Field(i), depth+1, fp)
		}
	default:
		panic("filler: unsupported kind " + t.String())
	}
}

// ---------------------------------------------------------------------------
// structural comparison up to nil ≡ empty collections

type differ struct {
	skip map[string]bool // "Type.Field" not compared
}

// diff returns "" when a and b are equal (nil and empty slices/maps are the same,
// times are compared as instants, floats bit-for-bit with NaN ≡ NaN), else the
// path of the first difference (without indices, so that it is a stable class)
// and a description.
func (d *differ) diff(a, b reflect.Value, path string) (string, string) {
	if a.Type() != b.Type() {
		return path, fmt.Sprintf("types %s vs %s", a.Type(), b.Type())
	}
	t := a.Type()
	if t == tTime {
		ta := timeOf(a)
		tb := timeOf(b)
		if !ta.Equal(tb) {
			return path, fmt.Sprintf("%v vs %v", ta, tb)
		}
		return "", ""
	}
	switch t.Kind() {
	case reflect.Bool:
		if a.Bool() != b.Bool() {
			return path, fmt.Sprintf("%v vs %v", a.Bool(), b.Bool())
		}
	case reflect.Int, reflect.Int8, reflect.Int16, reflect.Int32, reflect.Int64:
		if a.Int() != b.Int() {
			return path, fmt.Sprintf("%d vs %d", a.Int(), b.Int())
		}
	case reflect.Uint, reflect.Uint8, reflect.Uint16, reflect.Uint32, reflect.Uint64:
		if a.Uint() != b.Uint() {
			return path, fmt.Sprintf("%d vs %d", a.Uint(), b.Uint())
		}
	case reflect.Float32, reflect.Float64:
		x, y := a.Float(), b.Float()
		if !(math.Float64bits(x) == math.Float64bits(y) || (x != x && y != y)) {
			return path, fmt.Sprintf("%v vs %v", x, y)
		}
	case reflect.String:
		if a.String() != b.String() {
			return path, fmt.Sprintf("%q vs %q", a.String(), b.String())
		}
	case reflect.Slice:
		if a.Len() != b.Len() {
			return path, fmt.Sprintf("len %d vs %d", a.Len(), b.Len())
		}
		for i := 0; i < a.Len(); i++ {
			if p, w := d.diff(a.Index(i), b.Index(i), path+"[]"); p != "" {
				return p, fmt.Sprintf("[%d] %s", i, w)
			}
		}
	case reflect.Map:
		if a.Len() != b.Len() {
			return path, fmt.Sprintf("map len %d vs %d", a.Len(), b.Len())
		}
		it := a.MapRange()
		for it.Next() {
			bv := b.MapIndex(it.Key())
			if !bv.IsValid() {
				return path, fmt.Sprintf("key %v missing", it.Key())
			}
			if p, w := d.diff(it.Value(), bv, path+"{}"); p != "" {
				return p, fmt.Sprintf("{%v} %s", it.Key(), w)
			}
		}
	case reflect.Pointer, reflect.Interface:
		if a.IsNil() != b.IsNil() {
			desc := func(v reflect.Value) string {
				switch {
				case v.IsNil():
					return "nil"
				case v.Elem().IsZero():
					return "zero-value"
				}
				return "value"
			}
			// the leading "<x> vs <y>" is machine-read by the callers (direction of the loss)
			return path, fmt.Sprintf("%s vs %s (nil=%v vs nil=%v)", desc(a), desc(b), a.IsNil(), b.IsNil())
		}
		if a.IsNil() {
			return "", ""
		}
		return d.diff(a.Elem(), b.Elem(), path)
	case reflect.Struct:
		for i := 0; i < t.NumField(); i++ {
			sf := t.Field(i)
			fp := t.Name() + "." + sf.Name
			if d.skip[fp] {
				continue
			}
			if p, w := d.diff(a.Field(i), b.Field(i), path+"."+sf.Name); p != "" {
				return p, w
			}
		}
	default:
		return path, "uncomparable kind " + t.Kind().String()
	}
	return "", ""
}

// timeOf reads a time.Time out of a (possibly unexported) struct field.
func timeOf(v reflect.Value) time.Time {
	if v.CanInterface() {
		return v.Interface().(time.Time)
	}
	// copy through an addressable value
	c := reflect.New(v.Type()).Elem()
	c.Set(v) // panics for unexported; none of the API types has an unexported time
	return c.Interface().(time.Time)
}

// ---------------------------------------------------------------------------

func sortedKeys[V any](m map[string]V) []string {
	l := make([]string, 0, len(m))
	for k := range m {
		l = append(l, k)
	}
	sort.Strings(l)
	return l
}

func clip(s string, n int) string {
	if len(s) <= n {
		return s
	}
	for n > 0 && !utf8.RuneStart(s[n]) {
		n--
	}
	return s[:n] + "…"
}

func lenBucket(n int) string {
	switch {
	case n == 0:
		return "0"
	case n <= 4:
		return "1-4"
	case n <= 16:
		return "5-16"
	case n <= 64:
		return "17-64"
	case n <= 1024:
		return "65-1k"
	}
	return ">1k"
}
