package wire

import (
	"encoding/hex"
	"encoding/json"
	"fmt"
	"hash/fnv"
	"math"
	"math/rand/v2"
	"reflect"
	"regexp"
	"regexp/syntax"
	"strconv"
	"strings"
	"testing"

	"github.com/RoaringBitmap/roaring/v2"
	gregexp "github.com/grafana/regexp"
	"google.golang.org/protobuf/proto"

	"github.com/sourcegraph/zoekt"
	webserverv1 "github.com/sourcegraph/zoekt/grpc/protos/zoekt/webserver/v1"
	"github.com/sourcegraph/zoekt/internal/syntaxutil"
	kit "github.com/sourcegraph/zoekt/internal/verifkit"
	"github.com/sourcegraph/zoekt/query"
)

// C24 part 1: FromProto(ToProto(x)) == x (nil ≡ empty collections) for query trees
// of every node kind, SearchOptions, SearchResult, RepoList, ListOptions — both for
// the in-memory protobuf message and after proto.Marshal / proto.Unmarshal (what a
// peer actually receives). Part 2 (gRPC totality) is in c24_grpc_test.go.
var c24NilDir = regexp.MustCompile(`(nil|zero-value|value) vs (nil|zero-value|value) \(nil=`)

func TestVerif_C24(t *testing.T) {
	rec := kit.Open("C24")
	if kit.ChildMode() != "" {
		c24Child(rec)
		rec.ChildDone()
		return
	}
	defer rec.Done()
	c24RoundTrips(rec)
	c24Totality(rec)
}

// ---------------------------------------------------------------------------
// query generator (every node kind of package query that is exported)

var c24Kinds = []string{"RawConfig", "Regexp", "Symbol", "Language", "Const", "Repo", "RepoRegexp", "BranchesRepos", "RepoIDs", "RepoSet", "FileNameSet", "Type", "Substring", "And", "Or", "Not", "Branch", "Boost", "Meta"}

type c24Gen struct {
	r  *rand.Rand
	rx *rxGen
}

func (g *c24Gen) regexTree() *syntax.Regexp {
	for try := 0; try < 30; try++ {
		src, _ := g.rx.Source()
		re, err := syntax.Parse(src, queryRxFlags)
		if err != nil {
			continue
		}
		if g.r.IntN(2) == 0 {
			re = query.OptimizeRegexp(re, queryRxFlags) // what query.Parse produces
		}
		// the printout must be usable at all (C27 judges the printer; here we need a
		// tree that has a wire form)
		if _, err := syntax.Parse(syntaxutil.RegexpString(re), queryRxFlags); err != nil {
			continue
		}
		return re
	}
	re, _ := syntax.Parse("a.c", queryRxFlags)
	return re
}

func (g *c24Gen) gre() *gregexp.Regexp {
	srcs := []string{"", "a", "^github\\.com/a/b$", "(?i)foo|bar", "a.*b", "[^/]+/x", "\\pL+", "^$", "x{2,3}?", "(a)(?P<n>b)", "é|日"}
	return gregexp.MustCompile(srcs[g.r.IntN(len(srcs))])
}

func (g *c24Gen) bitmap() *roaring.Bitmap { return c26Bitmap(g.r) }

func (g *c24Gen) leaf(kind string) query.Q {
	r := g.r
	switch kind {
	case "RawConfig":
		return query.RawConfig(r.IntN(64))
	case "Regexp":
		return &query.Regexp{Regexp: g.regexTree(), FileName: r.IntN(2) == 0, Content: r.IntN(2) == 0, CaseSensitive: r.IntN(2) == 0}
	case "Language":
		return &query.Language{Language: rstr(r)}
	case "Const":
		return &query.Const{Value: r.IntN(2) == 0}
	case "Repo":
		return &query.Repo{Regexp: g.gre()}
	case "RepoRegexp":
		return &query.RepoRegexp{Regexp: g.gre()}
	case "BranchesRepos":
		q := &query.BranchesRepos{}
		switch n := r.IntN(5); n {
		case 0: // nil list
		case 1:
			q.List = []query.BranchRepos{}
		default:
			for i := 0; i < n-1; i++ {
				q.List = append(q.List, query.BranchRepos{Branch: rstr(r), Repos: g.bitmap()})
			}
		}
		return q
	case "RepoIDs":
		return &query.RepoIDs{Repos: g.bitmap()}
	case "RepoSet":
		q := &query.RepoSet{}
		switch n := r.IntN(5); n {
		case 0:
		case 1:
			q.Set = map[string]bool{}
		default:
			q.Set = map[string]bool{}
			for i := 0; i < n; i++ {
				q.Set[rstr(r)] = r.IntN(4) != 0
			}
		}
		return q
	case "FileNameSet":
		q := &query.FileNameSet{}
		switch n := r.IntN(5); n {
		case 0:
		case 1:
			q.Set = map[string]struct{}{}
		default:
			q.Set = map[string]struct{}{}
			for i := 0; i < n; i++ {
				q.Set[rstr(r)] = struct{}{}
			}
		}
		return q
	case "Substring":
		return &query.Substring{Pattern: rstr(r), CaseSensitive: r.IntN(2) == 0, FileName: r.IntN(2) == 0, Content: r.IntN(2) == 0}
	case "Branch":
		return &query.Branch{Pattern: rstr(r), Exact: r.IntN(2) == 0}
	case "Meta":
		return &query.Meta{Field: rstr(r), Value: g.gre()}
	}
	panic("leaf kind " + kind)
}

func (g *c24Gen) tree(depth int, kind string) query.Q {
	r := g.r
	if kind == "" {
		kind = c24Kinds[r.IntN(len(c24Kinds))]
	}
	child := func() query.Q {
		if depth <= 0 {
			return g.leaf([]string{"Substring", "Const", "Branch", "Language", "Regexp"}[r.IntN(5)])
		}
		return g.tree(depth-1, "")
	}
	children := func() []query.Q {
		switch n := r.IntN(6); n {
		case 0:
			return nil
		case 1:
			return []query.Q{}
		default:
			var l []query.Q
			for i := 0; i < n-1; i++ {
				l = append(l, child())
			}
			return l
		}
	}
	switch kind {
	case "Symbol":
		return &query.Symbol{Expr: child()}
	case "Type":
		return &query.Type{Type: uint8(r.IntN(3)), Child: child()}
	case "And":
		return &query.And{Children: children()}
	case "Or":
		return &query.Or{Children: children()}
	case "Not":
		return &query.Not{Child: child()}
	case "Boost":
		return &query.Boost{Boost: rfloat(r), Child: child()}
	}
	return g.leaf(kind)
}

func c24KindOf(q query.Q) string {
	if _, ok := q.(query.RawConfig); ok {
		return "RawConfig"
	}
	return strings.TrimPrefix(fmt.Sprintf("%T", q), "*query.")
}

func c24Kinds_(q query.Q, out map[string]bool) {
	out[c24KindOf(q)] = true
	switch s := q.(type) {
	case *query.And:
		for _, c := range s.Children {
			c24Kinds_(c, out)
		}
	case *query.Or:
		for _, c := range s.Children {
			c24Kinds_(c, out)
		}
	case *query.Not:
		c24Kinds_(s.Child, out)
	case *query.Type:
		c24Kinds_(s.Child, out)
	case *query.Boost:
		c24Kinds_(s.Child, out)
	case *query.Symbol:
		c24Kinds_(s.Expr, out)
	}
}

// c24WithoutMeta replaces Meta atoms (no wire form on the encode side, reported
// separately) so that the rest of the tree can still be judged.
func c24WithoutMeta(q query.Q) query.Q {
	return query.Map(q, func(q query.Q) query.Q {
		if m, ok := q.(*query.Meta); ok {
			return &query.Substring{Pattern: "meta:" + m.Field}
		}
		return q
	})
}

// ---------------------------------------------------------------------------
// query comparison

func stringerEq(a, b fmt.Stringer) bool {
	an, bn := a == nil || reflect.ValueOf(a).IsNil(), b == nil || reflect.ValueOf(b).IsNil()
	if an || bn {
		return an == bn
	}
	return a.String() == b.String()
}

// c24RegexpSame decides whether two regexp trees are the same expression: equal
// trees or equal printouts; otherwise the matched language is compared on subjects
// (a difference in print only is counted, not reported).
func c24RegexpSame(a, b *syntax.Regexp, r *rand.Rand, note func(string)) (bool, string) {
	if a == nil || b == nil {
		return a == b, "nil regexp"
	}
	if a.Equal(b) {
		return true, ""
	}
	pa, pb := syntaxutil.RegexpString(a), syntaxutil.RegexpString(b)
	if pa == pb {
		note("regexp_equal_by_printout_only")
		return true, ""
	}
	ra, err1 := regexp.Compile(pa)
	rb, err2 := regexp.Compile(pb)
	if err1 != nil || err2 != nil {
		return false, fmt.Sprintf("printouts %q / %q do not both compile", pa, pb)
	}
	for _, s := range rxSubjects(r, a, 40) {
		if fmt.Sprint(ra.FindAllStringIndex(s, -1)) != fmt.Sprint(rb.FindAllStringIndex(s, -1)) {
			return false, fmt.Sprintf("%q vs %q differ on subject %q", pa, pb, s)
		}
	}
	note("regexp_reprint_differs_language_same")
	return true, ""
}

// c24QDiff returns "" when a and b are the same query (nil ≡ empty collections),
// else a stable path and a description.
func c24QDiff(a, b query.Q, r *rand.Rand, note func(string)) (string, string) {
	ka, kb := "<nil>", "<nil>"
	if a != nil {
		ka = c24KindOf(a)
	}
	if b != nil {
		kb = c24KindOf(b)
	}
	if ka != kb {
		return ka, fmt.Sprintf("node kind %s became %s", ka, kb)
	}
	if a == nil {
		return "", ""
	}
	ne := func(field string, x, y any) (string, string) {
		return ka + "." + field, fmt.Sprintf("%v vs %v", x, y)
	}
	list := func(field string, x, y []query.Q) (string, string) {
		if len(x) != len(y) {
			return ne(field, fmt.Sprintf("%d children", len(x)), fmt.Sprintf("%d children", len(y)))
		}
		for i := range x {
			if p, w := c24QDiff(x[i], y[i], r, note); p != "" {
				return ka + "/" + p, w
			}
		}
		return "", ""
	}
	sub := func(x, y query.Q) (string, string) {
		if p, w := c24QDiff(x, y, r, note); p != "" {
			return ka + "/" + p, w
		}
		return "", ""
	}
	switch x := a.(type) {
	case query.RawConfig:
		if y := b.(query.RawConfig); x != y {
			return ne("mask", uint64(x), uint64(y))
		}
	case *query.Regexp:
		y := b.(*query.Regexp)
		if x.FileName != y.FileName {
			return ne("FileName", x.FileName, y.FileName)
		}
		if x.Content != y.Content {
			return ne("Content", x.Content, y.Content)
		}
		if x.CaseSensitive != y.CaseSensitive {
			return ne("CaseSensitive", x.CaseSensitive, y.CaseSensitive)
		}
		if ok, w := c24RegexpSame(x.Regexp, y.Regexp, r, note); !ok {
			return ka + ".Regexp", w
		}
	case *query.Symbol:
		return sub(x.Expr, b.(*query.Symbol).Expr)
	case *query.Language:
		if y := b.(*query.Language); x.Language != y.Language {
			return ne("Language", strconv.Quote(x.Language), strconv.Quote(y.Language))
		}
	case *query.Const:
		if y := b.(*query.Const); x.Value != y.Value {
			return ne("Value", x.Value, y.Value)
		}
	case *query.Repo:
		if y := b.(*query.Repo); !stringerEq(x.Regexp, y.Regexp) {
			return ne("Regexp", x.Regexp, y.Regexp)
		}
	case *query.RepoRegexp:
		if y := b.(*query.RepoRegexp); !stringerEq(x.Regexp, y.Regexp) {
			return ne("Regexp", x.Regexp, y.Regexp)
		}
	case *query.Meta:
		y := b.(*query.Meta)
		if x.Field != y.Field {
			return ne("Field", strconv.Quote(x.Field), strconv.Quote(y.Field))
		}
		if !stringerEq(x.Value, y.Value) {
			return ne("Value", x.Value, y.Value)
		}
	case *query.BranchesRepos:
		y := b.(*query.BranchesRepos)
		if len(x.List) != len(y.List) {
			return ne("List", len(x.List), len(y.List))
		}
		for i := range x.List {
			if x.List[i].Branch != y.List[i].Branch {
				return ne("List.Branch", strconv.Quote(x.List[i].Branch), strconv.Quote(y.List[i].Branch))
			}
			if !c26BitmapsEqual(x.List[i].Repos, y.List[i].Repos) {
				return ne("List.Repos", x.List[i].Repos, y.List[i].Repos)
			}
		}
	case *query.RepoIDs:
		if y := b.(*query.RepoIDs); !c26BitmapsEqual(x.Repos, y.Repos) {
			return ne("Repos", x.Repos, y.Repos)
		}
	case *query.RepoSet:
		y := b.(*query.RepoSet)
		d := differ{}
		if p, w := d.diff(reflect.ValueOf(x.Set), reflect.ValueOf(y.Set), "Set"); p != "" {
			return ka + "." + p, w
		}
	case *query.FileNameSet:
		y := b.(*query.FileNameSet)
		d := differ{}
		if p, w := d.diff(reflect.ValueOf(x.Set), reflect.ValueOf(y.Set), "Set"); p != "" {
			return ka + "." + p, w
		}
	case *query.Type:
		y := b.(*query.Type)
		if x.Type != y.Type {
			return ne("Type", x.Type, y.Type)
		}
		return sub(x.Child, y.Child)
	case *query.Substring:
		y := b.(*query.Substring)
		if *x != *y {
			return ne("fields", fmt.Sprintf("%+v", *x), fmt.Sprintf("%+v", *y))
		}
	case *query.And:
		return list("Children", x.Children, b.(*query.And).Children)
	case *query.Or:
		return list("Children", x.Children, b.(*query.Or).Children)
	case *query.Not:
		return sub(x.Child, b.(*query.Not).Child)
	case *query.Branch:
		if y := b.(*query.Branch); *x != *y {
			return ne("fields", fmt.Sprintf("%+v", *x), fmt.Sprintf("%+v", *y))
		}
	case *query.Boost:
		y := b.(*query.Boost)
		if math.Float64bits(x.Boost) != math.Float64bits(y.Boost) {
			return ne("Boost", x.Boost, y.Boost)
		}
		return sub(x.Child, y.Child)
	default:
		return ka, "harness: unhandled node kind"
	}
	return "", ""
}

// ---------------------------------------------------------------------------
// API value generator

var (
	tFlushReason   = reflect.TypeOf(zoekt.FlushReason(0))
	tRepoListField = reflect.TypeOf(zoekt.RepoListField(0))
	tRepository    = reflect.TypeOf(zoekt.Repository{})
	tSubRepoMap    = reflect.TypeOf(map[string]*zoekt.Repository{})
	tRepoEntries   = reflect.TypeOf([]*zoekt.RepoListEntry{})
)

// off-wire by design (passed separately / never sent)
var c24OffWire = map[string]bool{"SearchOptions.SpanContext": true}

func c24Filler(r *rand.Rand) *filler {
	f := &filler{r: r, maxDepth: 7, skip: map[string]bool{},
		rawString: map[string]bool{"FileMatch.FileName": true},
		nilElems:  map[string]bool{"ChunkMatch.SymbolInfo": true},
	}
	nest := 0
	f.special = map[reflect.Type]func(f *filler, depth int) reflect.Value{
		tFlushReason: func(f *filler, _ int) reflect.Value {
			return reflect.ValueOf([]zoekt.FlushReason{0, zoekt.FlushReasonTimerExpired, zoekt.FlushReasonFinalFlush, zoekt.FlushReasonMaxSize}[f.r.IntN(4)])
		},
		tRepoListField: func(f *filler, _ int) reflect.Value {
			return reflect.ValueOf([]zoekt.RepoListField{zoekt.RepoListFieldRepos, zoekt.RepoListFieldReposMap}[f.r.IntN(2)])
		},
		tSubRepoMap: func(f *filler, depth int) reflect.Value {
			// nil map, empty map, or 1-2 sub-repositories (no nil values: a nil
			// sub-repository has no meaning); nesting at most 2 deep
			if nest >= 2 || f.r.IntN(2) == 0 {
				if f.r.IntN(2) == 0 {
					return reflect.ValueOf(map[string]*zoekt.Repository(nil))
				}
				return reflect.ValueOf(map[string]*zoekt.Repository{})
			}
			nest++
			defer func() { nest-- }()
			m := map[string]*zoekt.Repository{}
			for n := 1 + f.r.IntN(2); n > 0; n-- {
				var rp zoekt.Repository
				f.fill(reflect.ValueOf(&rp).Elem(), depth+1, "")
				m[rstr(f.r)] = &rp
			}
			return reflect.ValueOf(m)
		},
		tRepository: func(f *filler, depth int) reflect.Value {
			// the unexported priority field travels on the wire; the only black-box way
			// to set it is the JSON decoder (RawConfig["priority"])
			var rp zoekt.Repository
			if f.r.IntN(3) != 0 {
				p := rfloat(f.r)
				js, _ := json.Marshal(map[string]any{"RawConfig": map[string]string{"priority": strconv.FormatFloat(p, 'g', -1, 64)}})
				_ = json.Unmarshal(js, &rp)
			}
			v := reflect.ValueOf(&rp).Elem()
			t := v.Type()
			for i := 0; i < t.NumField(); i++ {
				if t.Field(i).IsExported() {
					f.fill(v.Field(i), depth+1, "Repository."+t.Field(i).Name)
				}
			}
			return v
		},
		tRepoEntries: func(f *filler, depth int) reflect.Value {
			// no nil entries (a nil list entry has no meaning)
			switch n := f.r.IntN(5); n {
			case 0:
				return reflect.ValueOf([]*zoekt.RepoListEntry(nil))
			case 1:
				return reflect.ValueOf([]*zoekt.RepoListEntry{})
			default:
				var l []*zoekt.RepoListEntry
				for i := 0; i < n-1; i++ {
					e := &zoekt.RepoListEntry{}
					f.fill(reflect.ValueOf(e).Elem(), depth+1, "")
					l = append(l, e)
				}
				return reflect.ValueOf(l)
			}
		},
	}
	return f
}

func hashBytes(b []byte) string {
	h := fnv.New64a()
	h.Write(b)
	return strconv.FormatUint(h.Sum64(), 16)
}

func mustMarshal(m proto.Message) ([]byte, error) {
	return proto.MarshalOptions{Deterministic: true}.Marshal(m)
}

// ---------------------------------------------------------------------------

func c24RoundTrips(rec *kit.Rec) {
	nQ := rec.N(12000, 400000)
	nV := rec.N(2500, 80000)
	r := rec.Rand(2401)
	g := &c24Gen{r: r, rx: &rxGen{r: r}}
	note := func(s string) { rec.Count(s, 1) }

	// kit.QGen trees (patterns cut from a corpus) as a second source
	kg := kit.NewGen(rec.Rand(2402))
	corpus := kg.Corpus()
	qg := kit.NewQGen(kg, corpus, kit.NewEvaluator(corpus))
	qg.AllowRepo = true

	for i := 0; i < nQ; i++ {
		var q query.Q
		switch {
		case i < 4*len(c24Kinds):
			q = g.tree(1, c24Kinds[i%len(c24Kinds)]) // every kind at the root, several times
		case i%4 == 3:
			q = qg.Query()
		default:
			q = g.tree(1+r.IntN(3), "")
		}
		c24QueryRoundTrip(rec, q, r, note)
	}

	f := c24Filler(r)
	for i := 0; i < nV; i++ {
		c24ValueRoundTrip(rec, f, i%5)
	}
}

func c24QueryRoundTrip(rec *kit.Rec, q query.Q, r *rand.Rand, note func(string)) {
	kinds := map[string]bool{}
	c24Kinds_(q, kinds)
	for k := range kinds {
		rec.Seen("query_node_kinds", k)
	}
	rec.Count("query_roundtrips", 1)
	if kinds["Meta"] {
		// encode side: does the tree have a wire form at all?
		msg, stack, p := kit.Guard(func() { query.QToProto(q) })
		if p {
			rec.Count("query_trees_with_Meta_not_encodable", 1)
			rec.Violation("panic/QToProto/Meta", "query.QToProto panics on a tree containing *query.Meta (QFromProto accepts Q_Meta, so the node kind is part of the wire format): "+msg,
				map[string]any{"query": q.String(), "panic": msg, "stack": clip(stack, 2500), "replay": "query.QToProto(&query.Meta{Field: \"k\", Value: regexp.MustCompile(\"v\")})"})
			q = c24WithoutMeta(q)
		}
	}
	var p *webserverv1.Q
	if msg, stack, pn := kit.Guard(func() { p = query.QToProto(q) }); pn {
		rec.Case("q|panic|"+kit.Shape(q), true, nil)
		rec.Violation("panic/QToProto/"+kit.PanicSite(stack)+"/"+kit.MsgClass(msg), msg, map[string]any{"query": q.String(), "stack": clip(stack, 2500)})
		return
	}
	wire, err := mustMarshal(p)
	if err != nil {
		rec.Case("q|marshal-error|"+kit.Shape(q), true, nil)
		rec.Violation("marshal-error/Q/"+kit.MsgClass(err.Error()), err.Error(), map[string]any{"query": q.String()})
		return
	}
	rec.Case("q|"+string(wire), len(wire) > 0, func() any {
		return map[string]any{"query": clip(q.String(), 300), "wire_bytes": len(wire), "kinds": sortedKeys(kinds)}
	})
	check := func(path string, p *webserverv1.Q) {
		var back query.Q
		var err error
		if msg, stack, pn := kit.Guard(func() { back, err = query.QFromProto(p) }); pn {
			rec.Violation("panic/QFromProto("+path+")/"+kit.PanicSite(stack)+"/"+kit.MsgClass(msg), msg, map[string]any{"query": q.String(), "stack": clip(stack, 2500)})
			return
		}
		if err != nil {
			rec.Violation("roundtrip"+path+"/Q/error/"+kit.MsgClass(err.Error()), fmt.Sprintf("QFromProto(QToProto(q)) failed: %v", err), map[string]any{"query": q.String(), "proto": p.String()})
			return
		}
		if dp, w := c24QDiff(q, back, r, note); dp != "" {
			// the signature names the node kind and what of it changed, not where in the
			// tree the node sits (one lost field must not give one signature per tree shape)
			node := dp
			if i := strings.LastIndex(dp, "/"); i >= 0 {
				node = dp[i+1:]
			}
			rec.Violation("roundtrip"+path+"/Q/"+node, fmt.Sprintf("query changed by the round trip at %s: %s", dp, w),
				map[string]any{"query": q.String(), "after": back.String(), "difference": w, "wire_hex": hex.EncodeToString(wire[:min(len(wire), 2048)])})
		}
	}
	check("", p)
	p2 := &webserverv1.Q{}
	if err := proto.Unmarshal(wire, p2); err != nil {
		rec.Violation("unmarshal-error/Q", err.Error(), map[string]any{"query": q.String()})
		return
	}
	check("-marshalled", p2)
}

func c24ValueRoundTrip(rec *kit.Rec, f *filler, which int) {
	d := differ{skip: c24OffWire}
	type conv struct {
		name  string
		orig  any
		msg   func() proto.Message
		back  func(m proto.Message) any
		fresh func() proto.Message
	}
	var c conv
	switch which {
	case 0:
		var v *zoekt.SearchOptions
		if f.r.IntN(20) != 0 {
			v = &zoekt.SearchOptions{}
			f.fill(reflect.ValueOf(v).Elem(), 0, "")
		}
		c = conv{"SearchOptions", v, func() proto.Message { return v.ToProto() },
			func(m proto.Message) any { return zoekt.SearchOptionsFromProto(m.(*webserverv1.SearchOptions)) },
			func() proto.Message { return &webserverv1.SearchOptions{} }}
	case 1:
		var v *zoekt.ListOptions
		if f.r.IntN(6) != 0 {
			v = &zoekt.ListOptions{}
			f.fill(reflect.ValueOf(v).Elem(), 0, "")
		}
		c = conv{"ListOptions", v, func() proto.Message { return v.ToProto() },
			func(m proto.Message) any { return zoekt.ListOptionsFromProto(m.(*webserverv1.ListOptions)) },
			func() proto.Message { return &webserverv1.ListOptions{} }}
	case 2, 3:
		var v *zoekt.SearchResult
		if f.r.IntN(30) != 0 {
			v = &zoekt.SearchResult{}
			f.fill(reflect.ValueOf(v).Elem(), 0, "")
		}
		var urls, frags map[string]string
		if v != nil {
			urls, frags = v.RepoURLs, v.LineFragments // travel outside the message
		}
		if which == 2 {
			c = conv{"SearchResult", v, func() proto.Message { return v.ToProto() },
				func(m proto.Message) any {
					return zoekt.SearchResultFromProto(m.(*webserverv1.SearchResponse), urls, frags)
				},
				func() proto.Message { return &webserverv1.SearchResponse{} }}
		} else {
			c = conv{"SearchResult(stream)", v, func() proto.Message { return v.ToStreamProto() },
				func(m proto.Message) any {
					return zoekt.SearchResultFromStreamProto(m.(*webserverv1.StreamSearchResponse), urls, frags)
				},
				func() proto.Message { return &webserverv1.StreamSearchResponse{} }}
		}
	default:
		v := &zoekt.RepoList{}
		f.fill(reflect.ValueOf(v).Elem(), 0, "")
		c = conv{"RepoList", v, func() proto.Message { return v.ToProto() },
			func(m proto.Message) any { return zoekt.RepoListFromProto(m.(*webserverv1.ListResponse)) },
			func() proto.Message { return &webserverv1.ListResponse{} }}
	}
	rec.Count("value_roundtrips_"+c.name, 1)
	witness := func() string {
		b, err := json.Marshal(c.orig)
		if err != nil {
			return fmt.Sprintf("%+v", c.orig)
		}
		return clip(string(b), 6000)
	}
	var m proto.Message
	if msg, stack, pn := kit.Guard(func() { m = c.msg() }); pn {
		rec.Case(c.name+"|panic", true, nil)
		rec.Violation("panic/"+c.name+".ToProto/"+kit.PanicSite(stack), msg, map[string]any{"value": witness(), "stack": clip(stack, 2500)})
		return
	}
	isNil := reflect.ValueOf(c.orig).IsNil()
	var wire []byte
	if !isNil {
		var err error
		wire, err = mustMarshal(m)
		if err != nil {
			rec.Case(c.name+"|marshal-error", true, nil)
			rec.Violation("marshal-error/"+c.name+"/"+kit.MsgClass(err.Error()), err.Error(), map[string]any{"value": witness()})
			return
		}
	}
	rec.Case(c.name+"|"+string(wire), len(wire) > 0, func() any {
		return map[string]any{"type": c.name, "wire_bytes": len(wire), "value": clip(witness(), 400)}
	})
	check := func(path string, m proto.Message) {
		var back any
		if msg, stack, pn := kit.Guard(func() { back = c.back(m) }); pn {
			rec.Violation("panic/"+c.name+".FromProto("+path+")/"+kit.PanicSite(stack), msg, map[string]any{"value": witness(), "stack": clip(stack, 2500)})
			return
		}
		if dp, w := d.diff(reflect.ValueOf(c.orig), reflect.ValueOf(back), strings.TrimSuffix(c.name, "(stream)")); dp != "" {
			bj, _ := json.Marshal(back)
			// nil-ness differences carry their direction: "nil became a value" and "a
			// (zero) value became nil" are different defects at the same path
			dir := ""
			if m := c24NilDir.FindStringSubmatch(w); m != nil {
				dir = "/" + m[1] + "-becomes-" + m[2]
			}
			rec.Violation("roundtrip"+path+"/"+dp+dir, fmt.Sprintf("%s changed by the round trip at %s: %s", c.name, dp, w),
				map[string]any{"type": c.name, "value": witness(), "after": clip(string(bj), 6000), "difference": w})
		}
	}
	check("", m)
	if isNil {
		return
	}
	m2 := c.fresh()
	if err := proto.Unmarshal(wire, m2); err != nil {
		rec.Violation("unmarshal-error/"+c.name, err.Error(), map[string]any{"value": witness()})
		return
	}
	check("-marshalled", m2)
}
