package wire

import (
	"fmt"
	"regexp"
	"regexp/syntax"
	"sort"
	"strings"
	"sync"
	"testing"

	"github.com/sourcegraph/zoekt/internal/syntaxutil"
	kit "github.com/sourcegraph/zoekt/internal/verifkit"
	"github.com/sourcegraph/zoekt/query"
)

// C27: Regexp printing and optimisation preserve the matched language.
//
// Oracle: Go's standard regexp engine. For a source r from the query regexp
// grammar, parsed with the query flags (ClassNL|PerlX|UnicodeGroups):
//
//	A  = compile("(?m)"+r)                       -- r under the query flags
//	P  = syntaxutil.RegexpString(Parse(r))        -- zoekt's printer
//	B  = compile("(?m)"+P)                       -- printout parsed again with the query flags
//	B2 = compile(P)                              -- printout compiled the way index/matchtree.go does
//	O  = query.OptimizeRegexp(Parse(r), flags)
//	D  = compile(O.String())                     -- optimised tree through the *standard* printer
//	C  = compile(RegexpString(O))                -- optimised tree as the engine sees it
//
// and every subject s: FindAllStringIndex must agree between A and each of B, B2, D, C.
// "(?m)" clears OneLine, i.e. "(?m)"+x under syntax.Perl is x under the query
// flags; the harness checks that claim on every case (tree equality) and does not
// judge a case where it fails.
func TestVerif_C27(t *testing.T) {
	rec := kit.Open("C27")
	defer rec.Done()
	n := rec.N(24000, 900000)
	nSub := rec.N(20, 30)
	workers := 8
	per := (n + workers - 1) / workers
	var wg sync.WaitGroup
	for w := 0; w < workers; w++ {
		wg.Add(1)
		go func(w int) {
			defer wg.Done()
			r := rec.Rand(uint64(2700 + w))
			g := &rxGen{r: r}
			for i := 0; i < per; i++ {
				src, feats := g.Source()
				c27One(rec, src, feats, nSub, r.Uint64())
			}
		}(w)
	}
	wg.Wait()
}

type c27Variant struct {
	name string
	src  string // what is compiled
	re   *regexp.Regexp
}

// c27Compile builds the reference and the variants for src. problem != "" is a
// violation class found before any subject is tried.
func c27Compile(src string) (ref *regexp.Regexp, tree *syntax.Regexp, vars []c27Variant, skip string, problem, detail string) {
	tree, err := syntax.Parse(src, queryRxFlags)
	if err != nil {
		return nil, nil, nil, "parse-error", "", ""
	}
	// harness self-check: "(?m)"+src under Perl flags is src under the query flags
	pt, err := syntax.Parse("(?m)"+src, syntax.Perl)
	if err != nil || !pt.Equal(tree) {
		return nil, nil, nil, "prefix-not-equivalent", "", ""
	}
	ref, err = regexp.Compile("(?m)" + src)
	if err != nil {
		return nil, nil, nil, "compile-error", "", ""
	}
	var printed string
	if msg, stack, p := kit.Guard(func() { printed = syntaxutil.RegexpString(tree) }); p {
		return nil, tree, nil, "", "panic/RegexpString/" + kit.PanicSite(stack), msg + "\n" + stack
	}
	if _, err := syntax.Parse(printed, queryRxFlags); err != nil {
		return nil, tree, nil, "", "reparse-error/print/" + kit.MsgClass(errCode(err)), fmt.Sprintf("printout %q of %q does not parse: %v", printed, src, err)
	}
	add := func(name, s string) bool {
		re, err := regexp.Compile(s)
		if err != nil {
			problem, detail = "reparse-error/"+name+"/"+kit.MsgClass(errCode(err)), fmt.Sprintf("%s form %q of %q does not compile: %v", name, s, src, err)
			return false
		}
		vars = append(vars, c27Variant{name, s, re})
		return true
	}
	if !add("print", "(?m)"+printed) || !add("print-perlflags", printed) {
		return ref, tree, nil, "", problem, detail
	}
	// optimiser: on a fresh parse, so that it cannot disturb the reference tree
	fresh, _ := syntax.Parse(src, queryRxFlags)
	var opt *syntax.Regexp
	if msg, stack, p := kit.Guard(func() { opt = query.OptimizeRegexp(fresh, queryRxFlags) }); p {
		return ref, tree, nil, "", "panic/OptimizeRegexp/" + kit.PanicSite(stack), msg + "\n" + stack
	}
	if !add("optimize", opt.String()) {
		return ref, tree, nil, "", problem, detail
	}
	var optPrinted string
	if msg, stack, p := kit.Guard(func() { optPrinted = syntaxutil.RegexpString(opt) }); p {
		return ref, tree, nil, "", "panic/RegexpString/" + kit.PanicSite(stack), msg + "\n" + stack
	}
	if !add("optimize+print", optPrinted) {
		return ref, tree, nil, "", problem, detail
	}
	return ref, tree, vars, "", "", ""
}

func errCode(err error) string {
	if e, ok := err.(*syntax.Error); ok {
		return string(e.Code)
	}
	return err.Error()
}

// c27Disagree returns the first (variant, kind, subject) on which a variant differs
// from the reference.
func c27Disagree(ref *regexp.Regexp, vars []c27Variant, subjects []string) (v *c27Variant, kind, subject, detail string, matched, unmatched int) {
	for _, s := range subjects {
		want := ref.FindAllStringIndex(s, -1)
		if want == nil {
			unmatched++
		} else {
			matched++
		}
		if v != nil {
			continue
		}
		for i := range vars {
			got := vars[i].re.FindAllStringIndex(s, -1)
			if (want == nil) != (got == nil) {
				return &vars[i], "language", s, fmt.Sprintf("reference matches=%v, variant matches=%v", want != nil, got != nil), matched, unmatched
			}
			if fmt.Sprint(want) != fmt.Sprint(got) {
				v, kind, subject, detail = &vars[i], "extent", s, fmt.Sprintf("reference %v, variant %v", want, got)
				break
			}
		}
	}
	return
}

func c27One(rec *kit.Rec, src string, feats map[string]bool, nSub int, subSeed uint64) {
	ref, tree, vars, skip, problem, detail := c27Compile(src)
	if skip != "" {
		rec.Count("skipped_"+skip, 1)
		rec.Case("skip|"+src, false, nil)
		return
	}
	for f := range feats {
		rec.Seen("grammar_features", f)
	}
	ops := map[string]bool{}
	rxOps(tree, ops)
	for o := range ops {
		rec.Seen("parse_tree_ops", o)
	}
	if problem != "" {
		rec.Case(src, true, nil)
		rec.Violation(problem, detail, map[string]any{"regexp": src, "flags": "ClassNL|PerlX|UnicodeGroups"})
		return
	}
	subjects := rxSubjects(kit.NewRand(subSeed, 1), tree, nSub)
	v, kind, subject, det, matched, unmatched := c27Disagree(ref, vars, subjects)
	rec.Count("subjects", int64(len(subjects)))
	rec.Count("subjects_matched", int64(matched))
	if ops["Capture"] {
		rec.Count("regexps_with_capture", 1)
	}
	if vars[0].src != "(?m)"+src {
		rec.Count("printout_differs_from_source", 1)
	}
	if vars[2].src != vars[1].src {
		rec.Count("optimiser_changed_tree", 1)
	}
	rec.Case(src, matched > 0 && unmatched > 0, func() any {
		return map[string]any{"regexp": src, "printed": vars[1].src, "optimized_printed": vars[3].src, "subjects": len(subjects), "matched": matched, "example_subject": subjects[len(subjects)-1]}
	})
	if v == nil {
		return
	}
	// shrink: replace the regexp by sub-expressions (rendered by the standard
	// printer) while the same variant still disagrees in the same way
	name := v.name
	minSrc, minSubj, minDet := src, subject, det
	fails := func(cand string) (bool, string, string) {
		cref, ctree, cvars, cskip, cprob, _ := c27Compile(cand)
		if cskip != "" || cprob != "" {
			return false, "", ""
		}
		subs := append(rxSubjects(kit.NewRand(subSeed, 2), ctree, 4*nSub), subjects...)
		cv, ck, cs, cd, _, _ := c27Disagree(cref, cvars, subs)
		// the first disagreeing variant may be another one; look for ours
		if cv != nil && (cv.name != name || ck != kind) {
			for i := range cvars {
				if cvars[i].name == name {
					cv, ck, cs, cd, _, _ = c27Disagree(cref, cvars[i:i+1], subs)
				}
			}
		}
		return cv != nil && cv.name == name && ck == kind, cs, cd
	}
	for budget, changed := 60, true; changed && budget > 0; {
		changed = false
		mt, err := syntax.Parse(minSrc, queryRxFlags)
		if err != nil {
			break
		}
		for _, cand := range c27ShrinkCands(mt) {
			budget--
			if budget <= 0 {
				break
			}
			if len(cand) >= len(minSrc) {
				continue
			}
			if ok, cs, cd := fails(cand); ok {
				minSrc, minSubj, minDet = cand, cs, cd
				changed = true
				break
			}
		}
	}
	mt, _ := syntax.Parse(minSrc, queryRxFlags)
	mops := map[string]bool{}
	rxOps(mt, mops)
	var ol []string
	for o := range mops {
		ol = append(ol, o)
	}
	sort.Strings(ol)
	_, _, mvars, _, _, _ := c27Compile(minSrc)
	forms := map[string]string{}
	for _, mv := range mvars {
		forms[mv.name] = mv.src
	}
	rec.Violation(name+"/"+kind+"/"+strings.Join(ol, ","),
		fmt.Sprintf("regexp %q (query flags) and its %s form %q differ on subject %q: %s", minSrc, name, forms[name], minSubj, minDet),
		map[string]any{"regexp": minSrc, "variant": name, "variant_source": forms[name], "all_forms": forms, "subject": minSubj, "detail": minDet,
			"original_regexp": src, "original_subject": subject, "original_detail": det, "flags": "ClassNL|PerlX|UnicodeGroups; reference = regexp.Compile(\"(?m)\"+regexp)"})
}

// c27ShrinkCands: sources of smaller regexps derived from tree t: every proper
// sub-expression, and t with one child of a concat/alternate removed.
func c27ShrinkCands(t *syntax.Regexp) []string {
	var out []string
	seen := map[string]bool{}
	add := func(s string) {
		if !seen[s] {
			seen[s] = true
			out = append(out, s)
		}
	}
	var subs func(x *syntax.Regexp)
	subs = func(x *syntax.Regexp) {
		for _, s := range x.Sub {
			add(stdString(s))
			subs(s)
		}
	}
	subs(t)
	if t.Op == syntax.OpConcat || t.Op == syntax.OpAlternate {
		for i := range t.Sub {
			c := *t
			c.Sub = append(append([]*syntax.Regexp{}, t.Sub[:i]...), t.Sub[i+1:]...)
			if len(c.Sub) > 0 {
				add(stdString(&c))
			}
		}
	}
	sort.SliceStable(out, func(i, j int) bool { return len(out[i]) < len(out[j]) })
	return out
}

// stdString renders a tree parsed under the query flags as a source that means the
// same under the query flags: the standard printer assumes Perl flags, where ^/$
// default to text anchors, so its output is already explicit about (?m).
func stdString(t *syntax.Regexp) string { return t.String() }
