package wire

import (
	"fmt"
	"regexp"
	"regexp/syntax"
	"sort"
	"strings"
	"sync"
	"testing"

	"github.com/sourcegraph/zoekt/internal/syntaxutil"
	kit "github.com/sourcegraph/zoekt/internal/verifkit"
	"github.com/sourcegraph/zoekt/query"
)

// C27: Regexp printing and optimisation preserve the matched language.
//
// Oracle: Go's standard regexp engine. For a source r from the query regexp
// grammar, parsed with the query flags (ClassNL|PerlX|UnicodeGroups):
//
//	A  = compile("(?m)"+r)                       -- r under the query flags
//	P  = syntaxutil.RegexpString(Parse(r))        -- zoekt's printer
//	B  = compile("(?m)"+P)                       -- printout parsed again with the query flags
//	B2 = compile(P)                              -- printout compiled the way index/matchtree.go does
//	O  = query.OptimizeRegexp(Parse(r), flags)
//	D  = compile(O.String())                     -- optimised tree through the *standard* printer
//	C  = compile(RegexpString(O))                -- optimised tree as the engine sees it
//
// and every subject s: FindAllStringIndex must agree between A and each of B, B2, D, C.
// "(?m)" clears OneLine, i.e. "(?m)"+x under syntax.Perl is x under the query
// flags; the harness checks that claim on every case (tree equality) and does not
// judge a case where it fails.
func TestVerif_C27(t *testing.T) {
	rec := kit.Open("C27")
	defer rec.Done()
	n := rec.N(24000, 900000)
	nSub := rec.N(20, 30)
	workers := 8
	per := (n + workers - 1) / workers
	var wg sync.WaitGroup
	for w := 0; w < workers; w++ {
		wg.Add(1)
		go func(w int) {
			defer wg.Done()
			r := rec.Rand(uint64(2700 + w))
			g := &rxGen{r: r}
			for i := 0; i < per; i++ {
				src, feats := g.Source()
				c27One(rec, src, feats, nSub, r.Uint64())
			}
		}(w)
	}
	wg.Wait()
}

type c27Variant struct {
	name string
	src  string // what is compiled
	re   *regexp.Regexp
}

// c27Compile builds the reference and the variants for src. problem != "" is a
// violation class found before any subject is tried.
func c27Compile(src string) (ref *regexp.Regexp, tree *syntax.Regexp, vars []c27Variant, skip string, problem, detail string) {
	tree, err := syntax.Parse(src, queryRxFlags)
	if err != nil {
		return nil, nil, nil, "parse-error", "", ""
	}
	// harness self-check: "(?m)"+src under Perl flags is src under the query flags
	pt, err := syntax.Parse("(?m)"+src, syntax.Perl)
	if err != nil || !pt.Equal(tree) {
		return nil, nil, nil, "prefix-not-equivalent", "", ""
	}
	ref, err = regexp.Compile("(?m)" + src)
	if err != nil {
		return nil, nil, nil, "compile-error", "", ""
	}
	var printed string
	if msg, stack, p := kit.Guard(func() { printed = syntaxutil.RegexpString(tree) }); p {
		return nil, tree, nil, "", "panic/RegexpString/" + kit.PanicSite(stack), msg + "\n" + stack
	}
	if _, err := syntax.Parse(printed, queryRxFlags); err != nil {
		return nil, tree, nil, "", "reparse-error/print/" + kit.MsgClass(errCode(err)), fmt.Sprintf("printout %q of %q does not parse: %v", printed, src, err)
	}
	add := func(name, s string) bool {
		re, err := regexp.Compile(s)
		if err != nil {
			problem, detail = "reparse-error/"+name+"/"+kit.MsgClass(errCode(err)), fmt.Sprintf("%s form %q of %q does not compile: %v", name, s, src, err)
			return false
		}
		vars = append(vars, c27Variant{name, s, re})
		return true
	}
	if !add("print", "(?m)"+printed) || !add("print-perlflags", printed) {
		return ref, tree, nil, "", problem, detail
	}
	// optimiser: on a fresh parse, so that it cannot disturb the reference tree
	fresh, _ := syntax.Parse(src, queryRxFlags)
	var opt *syntax.Regexp
	if msg, stack, p := kit.Guard(func() { opt = query.OptimizeRegexp(fresh, queryRxFlags) }); p {
		return ref, tree, nil, "", "panic/OptimizeRegexp/" + kit.PanicSite(stack), msg + "\n" + stack
	}
	if !add("optimize", opt.String()) {
		return ref, tree, nil, "", problem, detail
	}
	var optPrinted string
	if msg, stack, p := kit.Guard(func() { optPrinted = syntaxutil.RegexpString(opt) }); p {
		return ref, tree, nil, "", "panic/RegexpString/" + kit.PanicSite(stack), msg + "\n" + stack
	}
	if !add("optimize+print", optPrinted) {
		return ref, tree, nil, "", problem, detail
	}
	return ref, tree, vars, "", "", ""
}

func errCode(err error) string {
	if e, ok := err.(*syntax.Error); ok {
		return string(e.Code)
	}
	return err.Error()
}

// c27Finding is one variant's disagreement with the reference.
type c27Finding struct {
	kind, subject, detail string
}

// c27Disagree compares every variant with the reference on every subject. Per
// variant the first "language" disagreement (subject matched by one, not by the
// other) wins over an "extent" disagreement (both match, positions differ).
func c27Disagree(ref *regexp.Regexp, vars []c27Variant, subjects []string) (found map[string]c27Finding, matched, unmatched int) {
	for _, s := range subjects {
		want := ref.FindAllStringIndex(s, -1)
		if want == nil {
			unmatched++
		} else {
			matched++
		}
		for i := range vars {
			name := vars[i].name
			if f, ok := found[name]; ok && f.kind == "language" {
				continue
			}
			got := vars[i].re.FindAllStringIndex(s, -1)
			var f c27Finding
			switch {
			case (want == nil) != (got == nil):
				f = c27Finding{"language", s, fmt.Sprintf("reference matches=%v, variant matches=%v", want != nil, got != nil)}
			case fmt.Sprint(want) != fmt.Sprint(got):
				if _, ok := found[name]; ok {
					continue
				}
				f = c27Finding{"extent", s, fmt.Sprintf("reference matches at %v, variant at %v", want, got)}
			default:
				continue
			}
			if found == nil {
				found = map[string]c27Finding{}
			}
			found[name] = f
		}
	}
	return
}

func c27One(rec *kit.Rec, src string, feats map[string]bool, nSub int, subSeed uint64) {
	ref, tree, vars, skip, problem, detail := c27Compile(src)
	if skip != "" {
		rec.Count("skipped_"+skip, 1)
		rec.Case("skip|"+src, false, nil)
		return
	}
	for f := range feats {
		rec.Seen("grammar_features", f)
	}
	ops := map[string]bool{}
	rxOps(tree, ops)
	for o := range ops {
		rec.Seen("parse_tree_ops", o)
	}
	if problem != "" {
		rec.Case(src, true, nil)
		rec.Violation(problem, detail, map[string]any{"regexp": src, "flags": "ClassNL|PerlX|UnicodeGroups"})
		return
	}
	subjects := rxSubjects(kit.NewRand(subSeed, 1), tree, nSub)
	found, matched, unmatched := c27Disagree(ref, vars, subjects)
	rec.Count("subjects", int64(len(subjects)))
	rec.Count("subjects_matched", int64(matched))
	if ops["Capture"] {
		rec.Count("regexps_with_capture", 1)
	}
	if vars[0].src != "(?m)"+src {
		rec.Count("printout_differs_from_source", 1)
	}
	if vars[2].src != tree.String() {
		rec.Count("optimiser_changed_tree", 1)
	}
	rec.Case(src, matched > 0 && unmatched > 0, func() any {
		return map[string]any{"regexp": src, "printed": vars[1].src, "optimized_printed": vars[3].src, "subjects": len(subjects), "matched": matched, "example_subject": subjects[len(subjects)-1]}
	})
	// one report per variant, most basic variant first (a printer defect also shows
	// in optimize+print; an optimiser defect also shows there)
	done := map[string]bool{}
	for _, v := range vars {
		f, ok := found[v.name]
		if !ok {
			continue
		}
		if (v.name == "print-perlflags" || v.name == "optimize+print") && len(done) > 0 {
			continue // already explained by the simpler variant
		}
		done[v.name] = true
		c27Report(rec, src, v.name, f, subjects, nSub, subSeed)
	}
}

// c27Fails evaluates cand and says whether variant name still disagrees.
func c27Fails(cand, name string, extra []string, nSub int, subSeed uint64) (c27Finding, bool) {
	cref, ctree, cvars, cskip, cprob, _ := c27Compile(cand)
	if cskip != "" || cprob != "" {
		return c27Finding{}, false
	}
	subs := append(rxSubjects(kit.NewRand(subSeed, 2), ctree, 6*nSub), extra...)
	found, _, _ := c27Disagree(cref, cvars, subs)
	f, ok := found[name]
	return f, ok
}

func c27Report(rec *kit.Rec, src, name string, f c27Finding, subjects []string, nSub int, subSeed uint64) {
	// shrink the regexp: one structural edit at a time (rendered by the standard
	// printer) while the same variant still disagrees
	minSrc, minF := src, f
	if f2, ok := c27Fails(src, name, subjects, nSub, subSeed); ok {
		minF = f2
	}
	for budget, changed := 600, true; changed && budget > 0; {
		changed = false
		mt, err := syntax.Parse(minSrc, queryRxFlags)
		if err != nil {
			break
		}
		for _, cand := range c27ShrinkCands(mt) {
			if budget--; budget <= 0 {
				break
			}
			if len(cand) > len(minSrc) || (len(cand) == len(minSrc) && cand >= minSrc) {
				continue
			}
			if f2, ok := c27Fails(cand, name, append([]string{minF.subject}, subjects...), nSub, subSeed); ok {
				minSrc, minF = cand, f2
				changed = true
				break
			}
		}
	}
	// shrink the subject
	mref, _, mvars, _, _, _ := c27Compile(minSrc)
	var mv []c27Variant
	for _, v := range mvars {
		if v.name == name {
			mv = append(mv, v)
		}
	}
	if mref != nil && len(mv) == 1 {
		for changed := true; changed; {
			changed = false
			rs := []rune(minF.subject)
			for i := range rs {
				cand := string(append(append([]rune{}, rs[:i]...), rs[i+1:]...))
				if fd, _, _ := c27Disagree(mref, mv, []string{cand}); fd != nil {
					if g := fd[name]; g.kind == "language" || minF.kind != "language" {
						minF = g
						changed = true
						break
					}
				}
			}
		}
	}
	mt, _ := syntax.Parse(minSrc, queryRxFlags)
	mops := map[string]bool{}
	if mt != nil {
		rxOps(mt, mops)
	}
	delete(mops, "Concat") // structural glue, not a feature
	var ol []string
	for o := range mops {
		ol = append(ol, o)
	}
	sort.Strings(ol)
	forms := map[string]string{}
	for _, v := range mvars {
		forms[v.name] = v.src
	}
	class := strings.Join(ol, ",")
	if mt != nil && c27GoFoldFactor(mt) {
		// one stable class for the one root cause we know: see c27GoFoldFactor
		class = "go-stdlib-factor-ignores-foldcase"
	}
	rec.Violation(name+"/"+minF.kind+"/"+class,
		fmt.Sprintf("regexp %q (query flags) and its %s form %q differ on subject %q: %s", minSrc, name, forms[name], minF.subject, minF.detail),
		map[string]any{"regexp": minSrc, "variant": name, "variant_source": forms[name], "all_forms": forms, "subject": minF.subject, "detail": minF.detail,
			"original_regexp": src, "original_subject": f.subject, "original_detail": f.detail, "flags": "ClassNL|PerlX|UnicodeGroups; reference = regexp.Compile(\"(?m)\"+regexp)"})
}

// c27GoFoldFactor recognises the shape that trips a defect of regexp/syntax in the
// Go toolchain pinned by go.mod (1.25): when an alternation is parsed, common
// single-rune prefixes are factored with Regexp.Equal, which ignores FoldCase for
// literals, so "K.|(?i:K)" becomes "K(?:.|)" and loses the case-insensitive branch
// (fixed in Go 1.26). The shape: after removing captures and simplifying (what
// zoekt's optimiser does before the expression is printed and parsed again), two
// branches of one alternation start with the same rune, one folded and one not.
func c27GoFoldFactor(t *syntax.Regexp) bool {
	var strip func(x *syntax.Regexp) *syntax.Regexp
	strip = func(x *syntax.Regexp) *syntax.Regexp {
		for x.Op == syntax.OpCapture {
			x = x.Sub[0]
		}
		c := *x
		c.Sub = make([]*syntax.Regexp, len(x.Sub))
		for i, s := range x.Sub {
			c.Sub[i] = strip(s)
		}
		return &c
	}
	var lead func(x *syntax.Regexp) (rune, bool, bool)
	lead = func(x *syntax.Regexp) (rune, bool, bool) {
		switch x.Op {
		case syntax.OpConcat:
			for _, s := range x.Sub {
				if s.Op == syntax.OpEmptyMatch {
					continue
				}
				return lead(s)
			}
		case syntax.OpLiteral:
			if len(x.Rune) > 0 {
				return x.Rune[0], x.Flags&syntax.FoldCase != 0, true
			}
		}
		return 0, false, false
	}
	var walk func(x *syntax.Regexp) bool
	walk = func(x *syntax.Regexp) bool {
		if x.Op == syntax.OpAlternate {
			seen := map[rune]bool{} // rune -> fold flag of the first branch starting with it
			for _, s := range x.Sub {
				if r, fold, ok := lead(s); ok {
					if f0, dup := seen[r]; dup && f0 != fold {
						return true
					}
					if _, dup := seen[r]; !dup {
						seen[r] = fold
					}
				}
			}
		}
		for _, s := range x.Sub {
			if walk(s) {
				return true
			}
		}
		return false
	}
	return walk(strip(t).Simplify())
}

func cloneRx(t *syntax.Regexp) *syntax.Regexp {
	c := *t
	c.Rune = append([]rune(nil), t.Rune...)
	c.Sub = make([]*syntax.Regexp, len(t.Sub))
	for i, s := range t.Sub {
		c.Sub[i] = cloneRx(s)
	}
	return &c
}

// c27ShrinkCands: sources of smaller regexps obtained from t by one edit at any
// depth: a node replaced by one of its children, one child of a concatenation /
// alternation dropped, a literal cut to one rune, a class replaced by its first
// rune, a repeat replaced by its operand; plus every proper sub-expression alone.
func c27ShrinkCands(t *syntax.Regexp) []string {
	var out []string
	seen := map[string]bool{}
	add := func(x *syntax.Regexp) {
		s := x.String()
		if !seen[s] {
			seen[s] = true
			out = append(out, s)
		}
	}
	// edits: walk the tree; at each node produce edited copies of the whole tree
	var walk func(path []int)
	at := func(root *syntax.Regexp, path []int) **syntax.Regexp {
		p := &root
		for _, i := range path {
			p = &(*p).Sub[i]
		}
		return p
	}
	walk = func(path []int) {
		n := *at(t, path)
		add(n) // the sub-expression alone
		for i := range n.Sub {
			c := cloneRx(t)
			p := at(c, path)
			*p = (*p).Sub[i]
			add(c)
		}
		if (n.Op == syntax.OpConcat || n.Op == syntax.OpAlternate) && len(n.Sub) > 1 {
			for i := range n.Sub {
				c := cloneRx(t)
				p := *at(c, path)
				p.Sub = append(p.Sub[:i:i], p.Sub[i+1:]...)
				add(c)
			}
		}
		if n.Op == syntax.OpLiteral && len(n.Rune) > 1 {
			for _, keep := range [][2]int{{0, 1}, {len(n.Rune) - 1, len(n.Rune)}, {0, len(n.Rune) / 2}, {len(n.Rune) / 2, len(n.Rune)}} {
				c := cloneRx(t)
				p := *at(c, path)
				p.Rune = p.Rune[keep[0]:keep[1]]
				add(c)
			}
		}
		if n.Op == syntax.OpCharClass && len(n.Rune) >= 2 {
			c := cloneRx(t)
			p := *at(c, path)
			p.Op = syntax.OpLiteral
			p.Rune = p.Rune[:1]
			add(c)
			if len(n.Rune) > 2 {
				c := cloneRx(t)
				p := *at(c, path)
				p.Rune = p.Rune[:2]
				add(c)
			}
		}
		if len(path) > 0 && n.Op != syntax.OpAnyCharNotNL && n.Op != syntax.OpEmptyMatch && n.Op != syntax.OpLiteral {
			// the simplest non-literal atoms in place of a sub-expression
			for _, op := range []syntax.Op{syntax.OpAnyCharNotNL, syntax.OpEmptyMatch} {
				c := cloneRx(t)
				p := at(c, path)
				*p = &syntax.Regexp{Op: op}
				add(c)
			}
		}
		if n.Op == syntax.OpLiteral && n.Flags&syntax.FoldCase != 0 {
			c := cloneRx(t)
			p := *at(c, path)
			p.Flags &^= syntax.FoldCase
			add(c)
		}
		for i := range n.Sub {
			walk(append(append([]int{}, path...), i))
		}
	}
	walk(nil)
	sort.Slice(out, func(i, j int) bool {
		if len(out[i]) != len(out[j]) {
			return len(out[i]) < len(out[j])
		}
		return out[i] < out[j]
	})
	return out
}

// stdString renders a tree parsed under the query flags as a source that means the
// same under the query flags: the standard printer assumes Perl flags, where ^/$
// default to text anchors, so its output is already explicit about (?m).
func stdString(t *syntax.Regexp) string { return t.String() }
