package wire

import (
	"fmt"
	"os"
	"regexp/syntax"
	"testing"

	"github.com/sourcegraph/zoekt/internal/syntaxutil"
)

func dumpRx(re *syntax.Regexp, ind string) {
	fmt.Printf("%s%v flags=%b rune=%q min=%d max=%d name=%q\n", ind, re.Op, re.Flags, string(re.Rune), re.Min, re.Max, re.Name)
	for _, s := range re.Sub {
		dumpRx(s, ind+"  ")
	}
}

func uncap(r *syntax.Regexp) *syntax.Regexp {
	if r.Op == syntax.OpCapture {
		r.Op = syntax.OpConcat
		r.Cap = 0
		r.Name = ""
	}
	for i, s := range r.Sub {
		r.Sub[i] = uncap(s)
	}
	return r
}

func TestProbeSteps(t *testing.T) {
	src := os.Getenv("RX")
	re, _ := syntax.Parse(src, queryRxFlags)
	s1 := syntaxutil.RegexpString(re)
	fmt.Println("s1", s1)
	r, _ := syntax.Parse(s1, queryRxFlags)
	dumpRx(r, "")
	r = uncap(r)
	s2 := syntaxutil.RegexpString(r)
	fmt.Println("s2", s2)
	r2, err := syntax.Parse(s2, queryRxFlags)
	fmt.Println(err)
	dumpRx(r2, "")
	fmt.Println("simplified", r2.Simplify().String())
}
