package wire

import (
	"bytes"
	"encoding/binary"
	"encoding/hex"
	"encoding/json"
	"fmt"
	"math"
	"math/rand/v2"
	"os"
	"path/filepath"
	"reflect"
	"runtime"
	"sort"
	"strconv"
	"strings"
	"sync/atomic"
	"syscall"
	"testing"
	"time"

	"github.com/RoaringBitmap/roaring/v2"

	"github.com/sourcegraph/zoekt"
	kit "github.com/sourcegraph/zoekt/internal/verifkit"
	"github.com/sourcegraph/zoekt/query"
)

// C26: Binary encodings round-trip and reject garbage safely.
//
// Part 1 (in process): UnmarshalBinary(MarshalBinary(v)) == v up to nil ≡ empty for
// ReposMap, BranchesRepos, FileNameSet.
// Part 2 (child processes with an address-space cap): UnmarshalBinary of hostile
// bytes must return (value or error): no panic, no fatal error, no allocation
// beyond c26AllocBound(len(input)), and it must return at all.

const (
	c26ExitStall = 97
	// "allocating unboundedly" is decided as: one decode allocates more than
	// 4 KiB per input byte plus 1 MiB. A well-behaved decoder of these formats
	// needs a small multiple of the input length (every entry costs >= 1 input byte).
	c26AllocPerByte = 4096
	c26AllocSlack   = 1 << 20
	c26MemCap       = 1 << 30 // address space a child may add to what it has at start (RLIMIT_AS)
)

func c26AllocBound(n int) uint64 { return uint64(n)*c26AllocPerByte + c26AllocSlack }

var c26Decoders = []string{"ReposMap", "BranchesRepos", "FileNameSet"}

// c26Decode runs the public decoder and summarises the outcome.
func c26Decode(dec string, in []byte) (outcome string, err error) {
	switch dec {
	case "ReposMap":
		var m zoekt.ReposMap
		err = m.UnmarshalBinary(in)
		outcome = fmt.Sprintf("entries=%d", len(m))
	case "BranchesRepos":
		var q query.BranchesRepos
		err = q.UnmarshalBinary(in)
		outcome = fmt.Sprintf("entries=%d", len(q.List))
	case "FileNameSet":
		var q query.FileNameSet
		err = q.UnmarshalBinary(in)
		outcome = fmt.Sprintf("entries=%d", len(q.Set))
	default:
		panic("unknown decoder " + dec)
	}
	return
}

// ---------------------------------------------------------------------------
// values

func c26Branches(r *rand.Rand, maxN int) []zoekt.RepositoryBranch {
	switch r.IntN(6) {
	case 0:
		return nil
	case 1:
		return []zoekt.RepositoryBranch{}
	}
	n := 1 + r.IntN(maxN)
	out := make([]zoekt.RepositoryBranch, n)
	for i := range out {
		out[i] = zoekt.RepositoryBranch{Name: rbstr(r), Version: rbstr(r)}
	}
	return out
}

func c26ID(r *rand.Rand) uint32 {
	switch r.IntN(8) {
	case 0:
		return 0
	case 1:
		return math.MaxUint32
	case 2:
		return math.MaxUint32 - uint32(r.IntN(4))
	case 3:
		return uint32(r.IntN(200))
	case 4:
		return 1 << uint(r.IntN(32))
	}
	return r.Uint32()
}

func c26ReposMap(r *rand.Rand, size int) zoekt.ReposMap {
	switch {
	case size < 0:
		return nil
	case size == 0:
		return zoekt.ReposMap{}
	}
	m := zoekt.ReposMap{}
	for i := 0; i < size; i++ {
		m[c26ID(r)] = zoekt.MinimalRepoListEntry{HasSymbols: r.IntN(2) == 0, Branches: c26Branches(r, 4), IndexTimeUnix: rint64(r)}
	}
	return m
}

func c26Bitmap(r *rand.Rand) *roaring.Bitmap {
	bm := roaring.New()
	switch r.IntN(8) {
	case 0:
		return bm // empty
	case 1:
		bm.Add(math.MaxUint32)
		bm.Add(0)
	case 2:
		bm.AddRange(uint64(r.IntN(1000)), uint64(1000+r.IntN(100000))) // run / bitmap containers
		if r.IntN(2) == 0 {
			bm.RunOptimize()
		}
	case 3:
		for i := 0; i < 5000; i++ {
			bm.Add(uint32(r.IntN(70000)))
		}
	default:
		for n := 1 + r.IntN(12); n > 0; n-- {
			bm.Add(c26ID(r))
		}
	}
	return bm
}

func c26BranchesRepos(r *rand.Rand, size int) query.BranchesRepos {
	switch {
	case size < 0:
		return query.BranchesRepos{}
	case size == 0:
		return query.BranchesRepos{List: []query.BranchRepos{}}
	}
	var q query.BranchesRepos
	for i := 0; i < size; i++ {
		q.List = append(q.List, query.BranchRepos{Branch: rbstr(r), Repos: c26Bitmap(r)})
	}
	return q
}

func c26FileNameSet(r *rand.Rand, size int) query.FileNameSet {
	switch {
	case size < 0:
		return query.FileNameSet{}
	case size == 0:
		return query.FileNameSet{Set: map[string]struct{}{}}
	}
	q := query.FileNameSet{Set: map[string]struct{}{}}
	for i := 0; i < size; i++ {
		s := rbstr(r)
		if size > 100 {
			s += strconv.Itoa(i)
		}
		q.Set[s] = struct{}{}
	}
	return q
}

func c26Size(r *rand.Rand, allowLarge bool) int {
	switch r.IntN(12) {
	case 0:
		return -1 // nil
	case 1:
		return 0
	case 2:
		return 1
	case 3:
		if allowLarge {
			return 2000 + r.IntN(9000)
		}
	}
	return 1 + r.IntN(12)
}

func c26BitmapsEqual(a, b *roaring.Bitmap) bool {
	if a == nil || b == nil {
		return (a == nil || a.IsEmpty()) && (b == nil || b.IsEmpty())
	}
	return a.Equals(b)
}

// c26RoundTrip encodes and decodes one random value of type dec; it returns the
// encoding, whether the value was non-empty, and a mismatch description.
func c26RoundTrip(dec string, r *rand.Rand, allowLarge bool) (enc []byte, size int, class, detail string) {
	size = c26Size(r, allowLarge)
	var err error
	switch dec {
	case "ReposMap":
		v := c26ReposMap(r, size)
		if enc, err = v.MarshalBinary(); err != nil {
			return enc, size, "encode-error", err.Error()
		}
		var got zoekt.ReposMap
		if err = got.UnmarshalBinary(enc); err != nil {
			return enc, size, "decode-error", err.Error()
		}
		d := differ{}
		if p, w := d.diff(reflect.ValueOf(v), reflect.ValueOf(got), "ReposMap"); p != "" {
			return enc, size, "mismatch/" + p, w
		}
	case "BranchesRepos":
		v := c26BranchesRepos(r, size)
		if enc, err = v.MarshalBinary(); err != nil {
			return enc, size, "encode-error", err.Error()
		}
		var got query.BranchesRepos
		if err = got.UnmarshalBinary(enc); err != nil {
			return enc, size, "decode-error", err.Error()
		}
		if len(got.List) != len(v.List) {
			return enc, size, "mismatch/List", fmt.Sprintf("len %d vs %d", len(v.List), len(got.List))
		}
		for i := range v.List {
			if v.List[i].Branch != got.List[i].Branch {
				return enc, size, "mismatch/List[].Branch", fmt.Sprintf("[%d] %q vs %q", i, v.List[i].Branch, got.List[i].Branch)
			}
			if !c26BitmapsEqual(v.List[i].Repos, got.List[i].Repos) {
				return enc, size, "mismatch/List[].Repos", fmt.Sprintf("[%d] %v vs %v", i, v.List[i].Repos, got.List[i].Repos)
			}
		}
	case "FileNameSet":
		v := c26FileNameSet(r, size)
		if enc, err = v.MarshalBinary(); err != nil {
			return enc, size, "encode-error", err.Error()
		}
		var got query.FileNameSet
		if err = got.UnmarshalBinary(enc); err != nil {
			return enc, size, "decode-error", err.Error()
		}
		d := differ{}
		if p, w := d.diff(reflect.ValueOf(v.Set), reflect.ValueOf(got.Set), "Set"); p != "" {
			return enc, size, "mismatch/" + p, w
		}
	}
	return enc, size, "", ""
}

// c26Valid returns the encoding of a small random valid value of type dec.
func c26Valid(dec string, r *rand.Rand) []byte {
	size := 1 + r.IntN(4)
	var enc []byte
	switch dec {
	case "ReposMap":
		v := c26ReposMap(r, size)
		enc, _ = v.MarshalBinary()
	case "BranchesRepos":
		var v query.BranchesRepos
		for i := 0; i < size; i++ { // small bitmaps here
			v.List = append(v.List, query.BranchRepos{Branch: rbstr(r), Repos: roaring.BitmapOf(c26ID(r), c26ID(r))})
		}
		enc, _ = v.MarshalBinary()
	case "FileNameSet":
		v := c26FileNameSet(r, size)
		enc, _ = v.MarshalBinary()
	}
	return enc
}

// ---------------------------------------------------------------------------
// hostile inputs

type c26Case struct {
	Dec   string
	Class string // generator class: decoder/kind[/bucket] — stable, used in signatures and for skipping
	In    []byte
}

func uv(x uint64) []byte {
	var b [binary.MaxVarintLen64]byte
	return append([]byte(nil), b[:binary.PutUvarint(b[:], x)]...)
}

// lengths spliced into the length positions: one that a decoder can still satisfy
// (the allocation is measured), ones it cannot (make fails / the process runs out of
// memory / the loop does not end), and ones that are negative as int.
var c26Lens = []uint64{1 << 16, 1 << 31, 1 << 40, 1 << 62, 1<<63 - 1, 1 << 63, 1<<64 - 1}

func c26LenBucket(l uint64) string {
	switch {
	case l <= 1<<16:
		return "len=2^16"
	case l <= 1<<40:
		return "len=2^31..2^40"
	case l < 1<<63:
		return "len=2^62..2^63-1"
	}
	return "len>=2^63"
}

// c26LengthDriven: generator kinds whose whole point is one absurd length; after
// such a class has stalled or killed a child once, the rest of the class is skipped.
func c26LengthDriven(class string) bool {
	for _, k := range []string{"/count", "/strlen", "/bitmaplen", "/allBranchesLen", "/entryBranches", "/v1-count", "/spliced"} {
		if strings.Contains(class, k) {
			return true
		}
	}
	return false
}

func c26Version(dec string) byte {
	if dec == "ReposMap" {
		return 2
	}
	return 1
}

// c26Batch is the deterministic list of hostile inputs of one batch.
func c26Batch(seed uint64, batch, size int) []c26Case {
	r := kit.NewRand(seed, uint64(26000+batch))
	var out []c26Case
	add := func(dec, kind string, in []byte) {
		out = append(out, c26Case{dec, dec + "/" + kind, in})
	}
	if batch == 0 {
		// systematic part: every decoder x every position of the length header x every length
		for _, dec := range c26Decoders {
			v := c26Version(dec)
			for _, l := range c26Lens {
				b := c26LenBucket(l)
				// entry count huge, nothing after it
				add(dec, "count/"+b, append([]byte{v}, uv(l)...))
				// entry count huge, zeros after it
				add(dec, "count+zeros/"+b, append(append([]byte{v}, uv(l)...), 0, 0, 0, 0, 0, 0, 0, 0))
				// one entry whose first string / bitmap length is huge
				switch dec {
				case "ReposMap":
					add(dec, "allBranchesLen/"+b, append(append([]byte{v, 0}, uv(l)...), 0))
					add(dec, "entryBranches/"+b, append([]byte{v, 1, 0, 7, 1, 0}, uv(l)...))
					add(dec, "strlen/"+b, append(append([]byte{v, 1, 1, 7, 1, 0, 1}, uv(l)...), 'x'))
					// version 1 layout
					add(dec, "v1-count/"+b, append([]byte{1}, uv(l)...))
				case "BranchesRepos":
					add(dec, "strlen/"+b, append(append([]byte{v, 1}, uv(l)...), 'x'))
					add(dec, "bitmaplen/"+b, append(append([]byte{v, 1, 1, 'b'}, uv(l)...), 0x3a, 0x30))
				case "FileNameSet":
					add(dec, "strlen/"+b, append(append([]byte{v, 1}, uv(l)...), 'x'))
				}
			}
			for _, in := range [][]byte{nil, {}, {0}, {v}, {v, 0}, {v, 0x80}, {v, 0xff, 0xff, 0xff, 0xff, 0xff, 0xff, 0xff, 0xff, 0xff, 0x7f}, {3}, {255}} {
				add(dec, "tiny", in)
			}
		}
	}
	for len(out) < size {
		dec := c26Decoders[r.IntN(len(c26Decoders))]
		v := c26Version(dec)
		switch r.IntN(10) {
		case 0, 1: // random bytes
			n := r.IntN(48)
			b := make([]byte, n)
			for i := range b {
				b[i] = byte(r.IntN(256))
			}
			if n > 0 && r.IntN(4) != 0 {
				b[0] = v
			}
			if n > 1 && r.IntN(2) == 0 {
				b[1] = byte(r.IntN(8)) // plausible small count so that the body is reached
			}
			add(dec, "random", b)
		case 2: // every truncation of a valid encoding
			enc := c26Valid(dec, r)
			for n := 0; n < len(enc); n++ {
				add(dec, "truncated", enc[:n:n])
			}
		case 3, 4: // single-byte substitutions in the header / varint positions
			enc := c26Valid(dec, r)
			for p := 0; p < len(enc) && p < 24; p++ {
				for _, x := range []byte{0, 1, 0x7f, 0x80, 0xff, byte(r.IntN(256))} {
					if enc[p] == x {
						continue
					}
					m := append([]byte(nil), enc...)
					m[p] = x
					add(dec, "substituted", m)
				}
			}
		case 5: // a varint somewhere replaced by a huge one
			enc := c26Valid(dec, r)
			if len(enc) < 2 {
				continue
			}
			p := 1 + r.IntN(min(len(enc)-1, 12))
			l := c26Lens[r.IntN(len(c26Lens))]
			m := append(append(append([]byte(nil), enc[:p]...), uv(l)...), enc[p+1:]...)
			add(dec, "spliced/"+c26LenBucket(l), m)
		case 6: // bit flip
			enc := c26Valid(dec, r)
			if len(enc) == 0 {
				continue
			}
			m := append([]byte(nil), enc...)
			m[r.IntN(len(m))] ^= 1 << uint(r.IntN(8))
			add(dec, "bitflip", m)
		case 7: // trailing garbage / doubled
			enc := c26Valid(dec, r)
			add(dec, "trailing", append(append([]byte(nil), enc...), rbytes(r)...))
		case 8: // huge count followed by a valid body
			enc := c26Valid(dec, r)
			if len(enc) < 2 {
				continue
			}
			l := c26Lens[r.IntN(len(c26Lens))]
			add(dec, "count+body/"+c26LenBucket(l), append(append([]byte{v}, uv(l)...), enc[2:]...))
		default: // another decoder's valid encoding
			other := c26Decoders[r.IntN(len(c26Decoders))]
			add(dec, "foreign", c26Valid(other, r))
		}
	}
	return out[:size]
}

// ---------------------------------------------------------------------------
// child

type c26Logged struct {
	Batch int    `json:"batch"`
	I     int    `json:"i"`
	Dec   string `json:"decoder"`
	Class string `json:"class"`
	Len   int    `json:"len"`
	Hex   string `json:"input_hex"`
}

type c26Arg struct {
	File       string // the batch, written by the parent before the child starts
	Batch      int
	Start, End int
	Skip       []string
	StallMS    int
}

func c26WriteBatch(path string, cases []c26Case) error {
	b, err := json.Marshal(cases)
	if err != nil {
		return err
	}
	return os.WriteFile(path, b, 0o644)
}

// c26SetMemCap caps the address space of this process at its current size plus
// c26MemCap, so that an absurd allocation fails (fatal error: out of memory) instead
// of taking the machine down.
func c26SetMemCap() {
	cur := uint64(0)
	if b, err := os.ReadFile("/proc/self/statm"); err == nil {
		if f := strings.Fields(string(b)); len(f) > 0 {
			if pages, err := strconv.ParseUint(f[0], 10, 64); err == nil {
				cur = pages * uint64(os.Getpagesize())
			}
		}
	}
	lim := syscall.Rlimit{Cur: cur + c26MemCap, Max: cur + c26MemCap}
	_ = syscall.Setrlimit(syscall.RLIMIT_AS, &lim)
}

func c26Child(rec *kit.Rec) {
	var a c26Arg
	if err := json.Unmarshal([]byte(kit.ChildArg()), &a); err != nil {
		panic(err)
	}
	var cases []c26Case
	if b, err := os.ReadFile(a.File); err != nil {
		panic(err)
	} else if err := json.Unmarshal(b, &cases); err != nil {
		panic(err)
	}
	c26SetMemCap()
	skip := map[string]bool{}
	for _, s := range a.Skip {
		skip[s] = true
	}
	// stall detector: a decode that does not return within the budget ends the child
	// with a distinctive exit code; the parent re-runs the case alone.
	var started atomic.Int64
	var current atomic.Int64
	current.Store(-1)
	go func() {
		for {
			time.Sleep(50 * time.Millisecond)
			if current.Load() >= 0 && time.Since(time.Unix(0, started.Load())) > time.Duration(a.StallMS)*time.Millisecond {
				fmt.Fprintf(os.Stderr, "VERIF-STALL case=%d after %dms\n", current.Load(), a.StallMS)
				os.Exit(c26ExitStall)
			}
		}
	}()
	allocViol := map[string]int{}
	var ms runtime.MemStats
	end := min(a.End, len(cases))
	for i := a.Start; i < end; i++ {
		// A child that dies loses the summary it has not written yet, so the summary is
		// written in instalments: a fresh record stream (same output file) every 250
		// cases, each closed with its own childdone record.
		if (i-a.Start)%250 == 249 {
			rec.ChildDone()
			rec = kit.Open("C26")
		}
		c := cases[i]
		if skip["dec:"+c.Dec] {
			rec.Count("hostile_skipped_encoder_does_not_round_trip", 1)
			continue
		}
		if skip[c.Class] || allocViol[c.Class] >= 2 {
			rec.Count("hostile_skipped_class_already_reported", 1)
			continue
		}
		h := c.In
		if len(h) > 512 {
			h = h[:512]
		}
		kit.LogCase(c26Logged{a.Batch, i, c.Dec, c.Class, len(c.In), hex.EncodeToString(h)})
		in := append([]byte(nil), c.In...)
		runtime.ReadMemStats(&ms)
		before := ms.TotalAlloc
		started.Store(time.Now().UnixNano())
		current.Store(int64(i))
		var outcome string
		var err error
		msg, stack, panicked := kit.Guard(func() { outcome, err = c26Decode(c.Dec, in) })
		current.Store(-1)
		runtime.ReadMemStats(&ms)
		delta := ms.TotalAlloc - before
		rec.Max("max_alloc_bytes_one_decode", int64(min(delta, math.MaxInt64)))
		rec.Case(c.Dec+"|"+string(c.In), len(c.In) > 0, func() any {
			return map[string]any{"decoder": c.Dec, "class": c.Class, "input_hex": hex.EncodeToString(h), "outcome": outcome, "error": fmt.Sprint(err), "alloc_bytes": delta}
		})
		rec.Count("hostile_decodes", 1)
		rec.Seen("hostile_classes", c.Class)
		w := map[string]any{"decoder": c.Dec, "class": c.Class, "input_hex": hex.EncodeToString(c.In), "input_len": len(c.In), "batch": a.Batch, "index": i,
			"replay": fmt.Sprintf("var v %s; v.UnmarshalBinary(<input_hex bytes>)", c26TypeName(c.Dec))}
		switch {
		case panicked:
			rec.Count("hostile_panics", 1)
			w["panic"] = msg
			w["stack"] = clip(stack, 3000)
			rec.Violation("panic/"+c.Dec+"/"+strings.TrimPrefix(kit.PanicSite(stack), "/")+"/"+c26PanicKind(msg), fmt.Sprintf("%s.UnmarshalBinary panicked on a %d-byte input (%s): %s", c26TypeName(c.Dec), len(c.In), c.Class, msg), w)
		case !bytes.Equal(in, c.In):
			rec.Violation("input-modified/"+c.Dec, "UnmarshalBinary modified its input slice", w)
		case err != nil:
			rec.Count("hostile_errors", 1)
		default:
			rec.Count("hostile_values", 1)
		}
		if delta > c26AllocBound(len(c.In)) {
			allocViol[c.Class]++
			w["alloc_bytes"] = delta
			w["bound_bytes"] = c26AllocBound(len(c.In))
			rec.Violation("alloc/"+c.Dec, fmt.Sprintf("%s.UnmarshalBinary allocated %d bytes for a %d-byte input (bound %d = %d*len+%d): allocation is driven by a length taken from the input",
				c26TypeName(c.Dec), delta, len(c.In), c26AllocBound(len(c.In)), c26AllocPerByte, c26AllocSlack), w)
		}
	}
	rec.ChildDone()
}

func c26TypeName(dec string) string {
	if dec == "ReposMap" {
		return "zoekt.ReposMap"
	}
	return "query." + dec
}

// ---------------------------------------------------------------------------
// parent

func TestVerif_C26(t *testing.T) {
	rec := kit.Open("C26")
	if kit.ChildMode() != "" {
		c26Child(rec)
		rec.ChildDone()
		return
	}
	defer rec.Done()

	// Part 1: round trips
	nRT := rec.N(6000, 200000)
	r := rec.Rand(2601)
	brokenRT := map[string]bool{}
	for i := 0; i < nRT; i++ {
		dec := c26Decoders[i%3]
		var enc []byte
		var size int
		var class, detail string
		// The decoder runs on its own encoder's output here, in the parent: with an encoder
		// that writes something else than the decoder reads this is a hostile decode, which
		// may not return. The round trip runs in a goroutine; when it has not returned after
		// 20 s (a decode of this size takes milliseconds) or has allocated 1 GiB, the
		// violation is recorded and the check ends there (the goroutine cannot be stopped).
		var msg, stack string
		var p bool
		done := make(chan struct{})
		go func() {
			defer close(done)
			msg, stack, p = kit.Guard(func() { enc, size, class, detail = c26RoundTrip(dec, r, i%50 == 0) })
		}()
		var ms0 runtime.MemStats
		runtime.ReadMemStats(&ms0)
		t0 := time.Now()
	wait:
		for {
			select {
			case <-done:
				break wait
			case <-time.After(200 * time.Millisecond):
				var ms runtime.MemStats
				runtime.ReadMemStats(&ms)
				if time.Since(t0) > 20*time.Second || ms.TotalAlloc-ms0.TotalAlloc > 1<<30 {
					rec.Violation("roundtrip/"+dec+"/no-return", fmt.Sprintf("%s: decoding the encoder's own output did not return within %v (allocated %d MiB so far); round trip %d of the run", c26TypeName(dec), time.Since(t0).Round(time.Second), (ms.TotalAlloc-ms0.TotalAlloc)>>20, i),
						map[string]any{"decoder": dec, "roundtrip_index": i, "seed": rec.Seed})
					rec.Note("stopped_early", "a round trip does not return: the rest of the check is not run")
					rec.Done()
					os.Exit(0)
				}
			}
		}
		if p {
			class, detail = "panic/"+kit.PanicSite(stack)+"/"+kit.MsgClass(msg), msg+"\n"+stack
		}
		rec.Count("roundtrips_"+dec, 1)
		rec.Max("max_roundtrip_entries", int64(size))
		rec.Case("rt|"+dec+"|"+string(enc), size > 0, func() any {
			return map[string]any{"roundtrip": dec, "entries": size, "encoding_len": len(enc), "encoding_hex_head": hex.EncodeToString(enc[:min(len(enc), 48)])}
		})
		if class != "" {
			// the hostile inputs are derived from valid encodings: with an encoder that does
			// not round-trip they mean nothing, and the decoder is not fed them
			brokenRT[dec] = true
			rec.Violation("roundtrip/"+dec+"/"+class, fmt.Sprintf("%s: %s", c26TypeName(dec), clip(detail, 600)),
				map[string]any{"decoder": dec, "entries": size, "encoding_hex": hex.EncodeToString(enc[:min(len(enc), 4096)]), "detail": clip(detail, 3000)})
		}
	}

	// Part 2: hostile decodes in children
	nBatches := rec.N(5, 60)
	batchSize := rec.N(10000, 20000)
	stall := 500                                       // ms: a decode slower than this ends the child; the case is then re-run alone
	confirm := rec.N(5000, 30000)                      // ms: budget of the re-run
	env := []string{"GOMEMLIMIT=3GiB", "GOMAXPROCS=2"} // 2 Ps: ReadMemStats stops the world twice per decode
	skip := map[string]bool{}
	for dec := range brokenRT {
		skip["dec:"+dec] = true
		rec.Note("hostile_part_skipped", dec+": its encoder does not round-trip (reported above)")
	}
	sightings := map[string]int{} // class -> stalls + deaths
	confirmed := map[string]int{} // decoder -> stalls re-run alone
	deaths, maxDeaths := 0, rec.N(90, 600)
	skipList := func() []string {
		l := make([]string, 0, len(skip))
		for k := range skip {
			l = append(l, k)
		}
		sort.Strings(l)
		return l
	}
batches:
	for b := 0; b < nBatches; b++ {
		cases := c26Batch(rec.Seed, b, batchSize)
		file := filepath.Join(rec.Work, fmt.Sprintf("c26-batch-%d.json", b))
		if err := c26WriteBatch(file, cases); err != nil {
			rec.Violation("harness/batch-file", err.Error(), nil)
			break
		}
		start := 0
		for start < batchSize {
			arg, _ := json.Marshal(c26Arg{File: file, Batch: b, Start: start, End: batchSize, Skip: skipList(), StallMS: stall})
			t0 := time.Now()
			res := rec.RunChild("TestVerif_C26", "decode", string(arg), env, 20*time.Minute)
			if os.Getenv("VERIF_DEBUG") != "" {
				fmt.Fprintf(os.Stderr, "child batch=%d start=%d took=%v exit=%d last=%s\n", b, start, time.Since(t0).Round(time.Millisecond), res.Exit, clip(res.LastCase, 150))
			}
			if res.TimedOut {
				rec.Note("child_watchdog", fmt.Sprintf("batch %d from %d: watchdog fired (inconclusive)", b, start))
				break
			}
			if !res.Crashed() {
				break
			}
			var lc c26Logged
			if err := json.Unmarshal([]byte(res.LastCase), &lc); err != nil {
				rec.Violation("harness/child-died-without-case", "child died before logging a case: "+res.CrashClass(), map[string]any{"tail": clip(res.Tail, 3000)})
				break
			}
			deaths++
			in := cases[lc.I].In
			w := map[string]any{"decoder": lc.Dec, "class": lc.Class, "input_hex": hex.EncodeToString(in[:min(len(in), 8192)]), "input_len": len(in), "batch": lc.Batch, "index": lc.I,
				"child_exit": res.Exit, "child_signal": res.Signal, "child_output": clip(res.Tail, 4000),
				"replay": fmt.Sprintf("var v %s; v.UnmarshalBinary(<input_hex bytes>)", c26TypeName(lc.Dec))}
			crash := func(res kit.ChildResult) {
				rec.Count("hostile_child_deaths", 1)
				w["child_output"] = clip(res.Tail, 4000)
				rec.Violation("crash/"+lc.Dec+"/"+c26CrashKind(res), fmt.Sprintf("%s.UnmarshalBinary killed the process on a %d-byte input of class %s (address space capped at start size + %d GiB): %s",
					c26TypeName(lc.Dec), len(in), lc.Class, c26MemCap>>30, res.CrashClass()), w)
			}
			switch {
			case res.Exit != c26ExitStall:
				crash(res)
			case confirmed[lc.Dec] >= 1:
				// the decoder's no-return behaviour is already on record; do not pay for
				// another confirmation
				rec.Count("hostile_stalls_not_rerun", 1)
			default:
				confirmed[lc.Dec]++
				arg1, _ := json.Marshal(c26Arg{File: file, Batch: lc.Batch, Start: lc.I, End: lc.I + 1, StallMS: confirm})
				t1 := time.Now()
				res1 := rec.RunChild("TestVerif_C26", "decode1", string(arg1), env, 20*time.Minute)
				if os.Getenv("VERIF_DEBUG") != "" {
					fmt.Fprintf(os.Stderr, "  confirm took=%v exit=%d\n", time.Since(t1).Round(time.Millisecond), res1.Exit)
				}
				switch {
				case res1.Exit == c26ExitStall:
					rec.Count("hostile_no_return", 1)
					rec.Violation("no-return/"+lc.Dec, fmt.Sprintf("%s.UnmarshalBinary did not return within %d ms on a %d-byte input of class %s when run alone in a fresh process (a valid decode of this size takes microseconds): loop counts / map sizes are taken from the input and a read error does not stop the loops",
						c26TypeName(lc.Dec), confirm, len(in), lc.Class), w)
				case res1.Crashed():
					crash(res1)
				default:
					confirmed[lc.Dec]--
					rec.Count("hostile_slow_but_returned", 1)
				}
			}
			sightings[lc.Class]++
			if c26LengthDriven(lc.Class) || sightings[lc.Class] >= 3 {
				skip[lc.Class] = true
			}
			start = lc.I + 1
			if deaths >= maxDeaths {
				rec.Note("stopped_early", fmt.Sprintf("%d children stalled or died: remaining hostile inputs not tried (inconclusive tail)", deaths))
				os.Remove(file)
				break batches
			}
		}
		os.Remove(file)
	}
	rec.Note("classes_skipped_after_stall_or_death", skipList())
}

// c26CrashKind is a coarse, stable class of a child death.
// c26PanicKind coarsens a panic message to its kind: one defect (a negative or
// oversized length reaching a slice expression) must not get one signature per
// spelling of the bounds ("[-#:]", "[:-#]", "[#:#]").
func c26PanicKind(msg string) string {
	switch {
	case strings.Contains(msg, "slice bounds out of range"):
		return "slice-bounds-out-of-range"
	case strings.Contains(msg, "index out of range"):
		return "index-out-of-range"
	case strings.Contains(msg, "makeslice") || strings.Contains(msg, "makemap") || strings.Contains(msg, "growslice"):
		return "allocation-size-out-of-range"
	case strings.Contains(msg, "nil pointer dereference"):
		return "nil-dereference"
	}
	return kit.MsgClass(msg)
}

func c26CrashKind(res kit.ChildResult) string {
	t := res.Tail
	switch {
	case strings.Contains(t, "out of memory") || strings.Contains(t, "cannot allocate memory"):
		return "out-of-memory"
	case strings.Contains(t, "checkptr"):
		return "checkptr"
	case strings.Contains(t, "fatal error:"):
		return kit.MsgClass(res.CrashClass())
	}
	return res.CrashClass()
}
