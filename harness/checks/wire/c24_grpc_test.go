package wire

// C24 part 2: the gRPC search service is total. A real server (the repository's
// default server construction grpc/defaults.NewServer = its interceptor chain, with
// cmd/zoekt-webserver/grpc/server.NewServer registered on it, over a real directory
// searcher on real shards) and a bufconn client live in a CHILD process. Every
// request is logged before it is sent; a dead child is the observation.

import (
	"context"
	"encoding/json"
	"errors"
	"fmt"
	"io"
	"math"
	"math/rand/v2"
	"net"
	"os"
	"path/filepath"
	"sort"
	"strings"
	"time"

	sglog "github.com/sourcegraph/log"
	"google.golang.org/grpc"
	"google.golang.org/grpc/codes"
	"google.golang.org/grpc/credentials/insecure"
	"google.golang.org/grpc/status"
	"google.golang.org/grpc/test/bufconn"
	"google.golang.org/protobuf/encoding/protojson"
	"google.golang.org/protobuf/proto"
	"google.golang.org/protobuf/types/known/durationpb"

	grpcserver "github.com/sourcegraph/zoekt/cmd/zoekt-webserver/grpc/server"
	"github.com/sourcegraph/zoekt/grpc/defaults"
	v1 "github.com/sourcegraph/zoekt/grpc/protos/zoekt/webserver/v1"
	kit "github.com/sourcegraph/zoekt/internal/verifkit"
	"github.com/sourcegraph/zoekt/internal/verifkit/ix"
	"github.com/sourcegraph/zoekt/query"
	"github.com/sourcegraph/zoekt/search"
)

type c24Req struct {
	Method string // Search | StreamSearch | List
	Base   string // what is unusual about the request (stable; used in signatures and for skipping)
	Class  string // Base plus position (@And, …) and the options class
	Msg    proto.Message
}

type c24Logged struct {
	Batch   int             `json:"batch"`
	I       int             `json:"i"`
	Method  string          `json:"method"`
	Base    string          `json:"base"`
	Class   string          `json:"class"`
	Request json.RawMessage `json:"request_protojson"`
	// OptsUnset: the request carries no options message
	OptsUnset bool `json:"opts_unset,omitempty"`
}

type c24Arg struct {
	Batch, Size, Start int
	Skip               []string
}

// ---------------------------------------------------------------------------
// request generator

func qOf(x any) *v1.Q {
	switch v := x.(type) {
	case *v1.RawConfig:
		return &v1.Q{Query: &v1.Q_RawConfig{RawConfig: v}}
	case *v1.Regexp:
		return &v1.Q{Query: &v1.Q_Regexp{Regexp: v}}
	case *v1.Symbol:
		return &v1.Q{Query: &v1.Q_Symbol{Symbol: v}}
	case *v1.Language:
		return &v1.Q{Query: &v1.Q_Language{Language: v}}
	case bool:
		return &v1.Q{Query: &v1.Q_Const{Const: v}}
	case *v1.Repo:
		return &v1.Q{Query: &v1.Q_Repo{Repo: v}}
	case *v1.RepoRegexp:
		return &v1.Q{Query: &v1.Q_RepoRegexp{RepoRegexp: v}}
	case *v1.BranchesRepos:
		return &v1.Q{Query: &v1.Q_BranchesRepos{BranchesRepos: v}}
	case *v1.RepoIds:
		return &v1.Q{Query: &v1.Q_RepoIds{RepoIds: v}}
	case *v1.RepoSet:
		return &v1.Q{Query: &v1.Q_RepoSet{RepoSet: v}}
	case *v1.FileNameSet:
		return &v1.Q{Query: &v1.Q_FileNameSet{FileNameSet: v}}
	case *v1.Type:
		return &v1.Q{Query: &v1.Q_Type{Type: v}}
	case *v1.Substring:
		return &v1.Q{Query: &v1.Q_Substring{Substring: v}}
	case *v1.And:
		return &v1.Q{Query: &v1.Q_And{And: v}}
	case *v1.Or:
		return &v1.Q{Query: &v1.Q_Or{Or: v}}
	case *v1.Not:
		return &v1.Q{Query: &v1.Q_Not{Not: v}}
	case *v1.Branch:
		return &v1.Q{Query: &v1.Q_Branch{Branch: v}}
	case *v1.Boost:
		return &v1.Q{Query: &v1.Q_Boost{Boost: v}}
	case *v1.Meta:
		return &v1.Q{Query: &v1.Q_Meta{Meta: v}}
	}
	panic(fmt.Sprintf("qOf %T", x))
}

type c24Mut struct {
	class string // base class
	q     *v1.Q
	pos   string // "" at the root, "@And" … below a well-formed parent
}

func bitmapBytes(ids ...uint32) []byte {
	b, _ := query.NewRepoIDs(ids...).Repos.ToBytes()
	return b
}

// c24QueryMutants: query protos with unset / nil / unknown / invalid parts. ok is a
// well-formed leaf used where a valid child is needed.
func c24QueryMutants(r *rand.Rand) []c24Mut {
	ok := func() *v1.Q { return qOf(&v1.Substring{Pattern: "a", Content: true}) }
	var l []c24Mut
	add := func(class string, q *v1.Q) { l = append(l, c24Mut{class, q, ""}) }

	add("query-unset", nil)
	add("query-oneof-unset", &v1.Q{})

	// composite nodes with nil / missing children
	add("Not-child-unset", qOf(&v1.Not{}))
	add("Type-child-unset", qOf(&v1.Type{Type: v1.Type_KIND_FILE_NAME}))
	add("Boost-child-unset", qOf(&v1.Boost{Boost: 2}))
	add("Symbol-expr-unset", qOf(&v1.Symbol{}))
	add("Not-child-oneof-unset", qOf(&v1.Not{Child: &v1.Q{}}))
	add("Type-child-oneof-unset", qOf(&v1.Type{Child: &v1.Q{}}))
	add("Boost-child-oneof-unset", qOf(&v1.Boost{Child: &v1.Q{}}))
	add("Symbol-expr-oneof-unset", qOf(&v1.Symbol{Expr: &v1.Q{}}))
	add("And-children-empty", qOf(&v1.And{}))
	add("Or-children-empty", qOf(&v1.Or{}))
	add("And-child-nil-element", qOf(&v1.And{Children: []*v1.Q{ok(), nil}}))
	add("Or-child-nil-element", qOf(&v1.Or{Children: []*v1.Q{nil, ok()}}))
	add("And-child-oneof-unset", qOf(&v1.And{Children: []*v1.Q{ok(), {}}}))
	add("Or-child-oneof-unset", qOf(&v1.Or{Children: []*v1.Q{{}}}))

	// oneof wrappers holding a typed nil message, and empty messages of every kind
	add("typed-nil/RawConfig", &v1.Q{Query: &v1.Q_RawConfig{}})
	add("typed-nil/Regexp", &v1.Q{Query: &v1.Q_Regexp{}})
	add("typed-nil/Symbol", &v1.Q{Query: &v1.Q_Symbol{}})
	add("typed-nil/Language", &v1.Q{Query: &v1.Q_Language{}})
	add("typed-nil/Repo", &v1.Q{Query: &v1.Q_Repo{}})
	add("typed-nil/RepoRegexp", &v1.Q{Query: &v1.Q_RepoRegexp{}})
	add("typed-nil/BranchesRepos", &v1.Q{Query: &v1.Q_BranchesRepos{}})
	add("typed-nil/RepoIds", &v1.Q{Query: &v1.Q_RepoIds{}})
	add("typed-nil/RepoSet", &v1.Q{Query: &v1.Q_RepoSet{}})
	add("typed-nil/FileNameSet", &v1.Q{Query: &v1.Q_FileNameSet{}})
	add("typed-nil/Type", &v1.Q{Query: &v1.Q_Type{}})
	add("typed-nil/Substring", &v1.Q{Query: &v1.Q_Substring{}})
	add("typed-nil/And", &v1.Q{Query: &v1.Q_And{}})
	add("typed-nil/Or", &v1.Q{Query: &v1.Q_Or{}})
	add("typed-nil/Not", &v1.Q{Query: &v1.Q_Not{}})
	add("typed-nil/Branch", &v1.Q{Query: &v1.Q_Branch{}})
	add("typed-nil/Boost", &v1.Q{Query: &v1.Q_Boost{}})
	add("typed-nil/Meta", &v1.Q{Query: &v1.Q_Meta{}})
	add("empty-message/RawConfig", qOf(&v1.RawConfig{}))
	add("empty-message/Regexp", qOf(&v1.Regexp{}))
	add("empty-message/Language", qOf(&v1.Language{}))
	add("empty-message/Repo", qOf(&v1.Repo{}))
	add("empty-message/RepoRegexp", qOf(&v1.RepoRegexp{}))
	add("empty-message/BranchesRepos", qOf(&v1.BranchesRepos{}))
	add("empty-message/RepoIds", qOf(&v1.RepoIds{}))
	add("empty-message/RepoSet", qOf(&v1.RepoSet{}))
	add("empty-message/FileNameSet", qOf(&v1.FileNameSet{}))
	add("empty-message/Substring", qOf(&v1.Substring{}))
	add("empty-message/Branch", qOf(&v1.Branch{}))
	add("empty-message/Meta", qOf(&v1.Meta{}))

	// unknown enum values
	for _, k := range []int32{0, 99, -1} {
		add("Type-kind-unknown", qOf(&v1.Type{Type: v1.Type_Kind(k), Child: ok()}))
	}
	add("RawConfig-flag-unknown", qOf(&v1.RawConfig{Flags: []v1.RawConfig_Flag{0}}))
	add("RawConfig-flag-unknown", qOf(&v1.RawConfig{Flags: []v1.RawConfig_Flag{99, 1}}))
	add("RawConfig-flag-unknown", qOf(&v1.RawConfig{Flags: []v1.RawConfig_Flag{-5, 3}}))

	// bitmaps: empty, garbage, truncated
	good := bitmapBytes(1, 2, 3, 100000)
	add("bitmap-empty/RepoIds", qOf(&v1.RepoIds{Repos: []byte{}}))
	add("bitmap-empty/BranchRepos", qOf(&v1.BranchesRepos{List: []*v1.BranchRepos{{Branch: "HEAD"}}}))
	add("bitmap-nil-entry/BranchesRepos", qOf(&v1.BranchesRepos{List: []*v1.BranchRepos{nil}}))
	add("bitmap-truncated/RepoIds", qOf(&v1.RepoIds{Repos: good[:len(good)/2]}))
	add("bitmap-truncated/BranchRepos", qOf(&v1.BranchesRepos{List: []*v1.BranchRepos{{Branch: "HEAD", Repos: good[:len(good)-3]}}}))
	for k := 0; k < 3; k++ {
		add("bitmap-garbage/RepoIds", qOf(&v1.RepoIds{Repos: rbytes(r)}))
		add("bitmap-garbage/BranchRepos", qOf(&v1.BranchesRepos{List: []*v1.BranchRepos{{Branch: "b", Repos: rbytes(r)}}}))
	}
	huge := append([]byte{0x3a, 0x30, 0, 0}, 0xff, 0xff, 0xff, 0x7f) // roaring cookie + absurd container count
	add("bitmap-garbage/RepoIds", qOf(&v1.RepoIds{Repos: huge}))

	// invalid regexps
	for _, bad := range []string{"(", "[a", "a{2,1}", `\C`, "(?P<x>a)(?P<x>b)", "a**", "a{1001}", `\8`, "(?z)", ")"} {
		add("regexp-invalid/Regexp", qOf(&v1.Regexp{Regexp: bad, Content: true}))
		add("regexp-invalid/Repo", qOf(&v1.Repo{Regexp: bad}))
		add("regexp-invalid/RepoRegexp", qOf(&v1.RepoRegexp{Regexp: bad}))
		add("regexp-invalid/Meta", qOf(&v1.Meta{Key: "k", Value: bad}))
	}
	add("Meta-valid", qOf(&v1.Meta{Key: "k", Value: "^a"}))
	add("Meta-valid", qOf(&v1.And{Children: []*v1.Q{qOf(&v1.Meta{Key: "team", Value: "b|c"}), ok()}}))

	// well-formed but unusual compositions
	add("Symbol-nontext-expr", qOf(&v1.Symbol{Expr: qOf(true)}))
	add("Symbol-nontext-expr", qOf(&v1.Symbol{Expr: qOf(&v1.And{Children: []*v1.Q{ok(), ok()}})}))
	add("Symbol-nontext-expr", qOf(&v1.Symbol{Expr: qOf(&v1.Repo{Regexp: "a"})}))
	add("Symbol-nontext-expr", qOf(&v1.Symbol{Expr: qOf(&v1.Symbol{Expr: ok()})}))
	add("Type-nested", qOf(&v1.Type{Type: v1.Type_KIND_REPO, Child: qOf(&v1.Type{Type: v1.Type_KIND_FILE_MATCH, Child: ok()})}))
	add("Type-filematch", qOf(&v1.Type{Type: v1.Type_KIND_FILE_MATCH, Child: ok()}))
	add("Type-repo", qOf(&v1.Type{Type: v1.Type_KIND_REPO, Child: ok()}))
	for _, b := range []float64{math.NaN(), math.Inf(1), math.Inf(-1), -1, 0} {
		add("Boost-odd-value", qOf(&v1.Boost{Boost: b, Child: ok()}))
	}
	deep := ok()
	for i := 0; i < 300; i++ {
		deep = qOf(&v1.Not{Child: deep})
	}
	add("deep-nesting", deep)
	add("Substring-empty-pattern", qOf(&v1.Substring{Pattern: "", Content: true}))
	add("Substring-empty-pattern", qOf(&v1.Substring{Pattern: "", FileName: true, CaseSensitive: true}))
	add("Regexp-empty-match", qOf(&v1.Regexp{Regexp: "a*", Content: true}))
	add("Regexp-empty-match", qOf(&v1.Regexp{Regexp: "", FileName: true}))
	add("Regexp-empty-match", qOf(&v1.Regexp{Regexp: `\b`, Content: true}))
	return l
}

func c24Wrap(r *rand.Rand, m c24Mut) c24Mut {
	// put the mutant under a well-formed parent
	ok := qOf(&v1.Substring{Pattern: "b", Content: true})
	if m.q == nil {
		return m
	}
	switch r.IntN(5) {
	case 0:
		return c24Mut{m.class, qOf(&v1.And{Children: []*v1.Q{ok, m.q}}), "@And"}
	case 1:
		return c24Mut{m.class, qOf(&v1.Or{Children: []*v1.Q{m.q, ok}}), "@Or"}
	case 2:
		return c24Mut{m.class, qOf(&v1.Not{Child: m.q}), "@Not"}
	case 3:
		return c24Mut{m.class, qOf(&v1.Type{Type: v1.Type_KIND_FILE_NAME, Child: m.q}), "@Type"}
	}
	return c24Mut{m.class, qOf(&v1.Boost{Boost: 1.5, Child: m.q}), "@Boost"}
}

func c24Opts(r *rand.Rand) (string, *v1.SearchOptions) {
	switch r.IntN(8) {
	case 0:
		return "opts-unset", nil
	case 1:
		return "opts-empty", &v1.SearchOptions{}
	case 2:
		// extreme values (still a well-formed message)
		o := &v1.SearchOptions{}
		x := []int64{math.MinInt64, -1, math.MaxInt64, 1 << 40}[r.IntN(4)]
		switch r.IntN(7) {
		case 0:
			o.ShardMaxMatchCount = x
		case 1:
			o.TotalMaxMatchCount = x
		case 2:
			o.ShardRepoMaxMatchCount = x
		case 3:
			o.MaxDocDisplayCount = x
		case 4:
			o.MaxMatchDisplayCount = x
		case 5:
			o.NumContextLines = []int64{math.MinInt64, -1, 1 << 20}[r.IntN(3)]
			o.ChunkMatches = r.IntN(2) == 0
		default:
			o.MaxWallTime = &durationpb.Duration{Seconds: []int64{-1, 1 << 62, math.MinInt64}[r.IntN(3)], Nanos: int32(r.IntN(3)-1) * 2000000000}
			o.FlushWallTime = &durationpb.Duration{Seconds: []int64{-1, 1 << 62, 0}[r.IntN(3)], Nanos: -5}
		}
		return "opts-extreme", o
	}
	// arbitrary subset of fields set
	o := &v1.SearchOptions{}
	set := func() bool { return r.IntN(2) == 0 }
	n := func() int64 { return int64(r.IntN(50)) }
	if set() {
		o.EstimateDocCount = true
	}
	if set() {
		o.Whole = true
	}
	if set() {
		o.ShardMaxMatchCount = n()
	}
	if set() {
		o.TotalMaxMatchCount = n()
	}
	if set() {
		o.ShardRepoMaxMatchCount = n()
	}
	if set() {
		o.MaxWallTime = durationpb.New(time.Duration(1+r.IntN(10)) * time.Second)
	}
	if set() {
		o.FlushWallTime = durationpb.New(time.Duration(r.IntN(3)) * time.Millisecond)
	}
	if set() {
		o.MaxDocDisplayCount = n()
	}
	if set() {
		o.MaxMatchDisplayCount = n()
	}
	if set() {
		o.NumContextLines = int64(r.IntN(4))
	}
	if set() {
		o.ChunkMatches = true
	}
	if set() {
		o.Trace = true
	}
	if set() {
		o.DebugScore = true
	}
	if set() {
		o.UseBm25Scoring = true
	}
	return "opts-subset", o
}

func c24ListOpts(r *rand.Rand) (string, *v1.ListOptions) {
	switch r.IntN(6) {
	case 0:
		return "opts-unset", nil
	case 1:
		return "opts-empty", &v1.ListOptions{}
	case 2:
		return "ListOptions-field-unknown", &v1.ListOptions{Field: v1.ListOptions_RepoListField([]int32{2, 99, -1, 4}[r.IntN(4)])}
	case 3:
		return "opts-repos-map", &v1.ListOptions{Field: v1.ListOptions_REPO_LIST_FIELD_REPOS_MAP}
	}
	return "opts-repos", &v1.ListOptions{Field: v1.ListOptions_REPO_LIST_FIELD_REPOS}
}

// c24Requests is the deterministic request list of one batch.
func c24Requests(seed uint64, batch, size int, valid []*v1.Q) []c24Req {
	r := kit.NewRand(seed, uint64(24500+batch))
	muts := c24QueryMutants(r)
	var out []c24Req
	build := func(method string, m c24Mut) c24Req {
		base := func(oc string) string {
			if m.class == "valid-query" {
				return m.class + "+" + oc // the options are what is unusual, if anything
			}
			return m.class
		}
		switch method {
		case "List":
			oc, o := c24ListOpts(r)
			return c24Req{method, base(oc), m.class + m.pos + "+" + oc, &v1.ListRequest{Query: m.q, Opts: o}}
		case "StreamSearch":
			oc, o := c24Opts(r)
			return c24Req{method, base(oc), m.class + m.pos + "+" + oc, &v1.StreamSearchRequest{Request: &v1.SearchRequest{Query: m.q, Opts: o}}}
		}
		oc, o := c24Opts(r)
		return c24Req{method, base(oc), m.class + m.pos + "+" + oc, &v1.SearchRequest{Query: m.q, Opts: o}}
	}
	methods := []string{"Search", "StreamSearch", "List"}
	if batch == 0 {
		// systematic: every mutant at the root for every method, and the requests with
		// top-level fields unset in every combination
		for _, method := range methods {
			for _, m := range muts {
				out = append(out, build(method, m))
			}
		}
		okq := func() *v1.Q { return qOf(&v1.Substring{Pattern: "a", Content: true}) }
		out = append(out,
			c24Req{"Search", "request-empty", "request-empty", &v1.SearchRequest{}},
			c24Req{"Search", "opts-unset", "query-only", &v1.SearchRequest{Query: okq()}},
			c24Req{"Search", "query-unset", "opts-only", &v1.SearchRequest{Opts: &v1.SearchOptions{}}},
			c24Req{"StreamSearch", "request-unset", "request-unset", &v1.StreamSearchRequest{}},
			c24Req{"StreamSearch", "request-empty", "request-empty", &v1.StreamSearchRequest{Request: &v1.SearchRequest{}}},
			c24Req{"StreamSearch", "opts-unset", "query-only", &v1.StreamSearchRequest{Request: &v1.SearchRequest{Query: okq()}}},
			c24Req{"StreamSearch", "query-unset", "opts-only", &v1.StreamSearchRequest{Request: &v1.SearchRequest{Opts: &v1.SearchOptions{ChunkMatches: true}}}},
			c24Req{"List", "request-empty", "request-empty", &v1.ListRequest{}},
			c24Req{"List", "opts-unset", "query-only", &v1.ListRequest{Query: qOf(true)}},
			c24Req{"List", "query-unset", "opts-only", &v1.ListRequest{Opts: &v1.ListOptions{}}},
		)
	}
	for len(out) < size {
		method := methods[r.IntN(3)]
		switch r.IntN(10) {
		case 0, 1, 2, 3: // a valid generated query, options varied
			q := valid[r.IntN(len(valid))]
			out = append(out, build(method, c24Mut{"valid-query", q, ""}))
		case 4, 5: // mutant at the root
			out = append(out, build(method, muts[r.IntN(len(muts))]))
		default: // mutant below a well-formed parent
			out = append(out, build(method, c24Wrap(r, muts[r.IntN(len(muts))])))
		}
	}
	return out[:size]
}

// c24ValidQueries: well-formed query protos from the tree generators (Meta built by
// hand: QToProto has no case for it).
func c24ValidQueries(seed uint64, c *kit.Corpus, g *kit.Gen) []*v1.Q {
	r := kit.NewRand(seed, 24400)
	cg := &c24Gen{r: r, rx: &rxGen{r: r}}
	qg := kit.NewQGen(g, c, kit.NewEvaluator(c))
	qg.AllowRepo = true
	var out []*v1.Q
	for len(out) < 400 {
		var q query.Q
		if len(out)%2 == 0 {
			q = qg.Query()
		} else {
			q = cg.tree(1+r.IntN(2), "")
		}
		q = c24WithoutMeta(q)
		var p *v1.Q
		if _, _, pn := kit.Guard(func() { p = query.QToProto(q) }); pn || p == nil {
			continue
		}
		out = append(out, p)
	}
	return out
}

// ---------------------------------------------------------------------------
// child: server + client

type c24Rig struct {
	client v1.WebserverServiceClient
	stop   func()
	corpus *kit.Corpus
	gen    *kit.Gen
}

func c24Start(rec *kit.Rec) (*c24Rig, error) {
	g := kit.NewGen(kit.NewRand(rec.Seed, 24300))
	g.MaxRepos, g.MaxDocs, g.MaxLen = 3, 6, 120
	c := g.Corpus()
	dir := filepath.Join(rec.Work, "index")
	if err := os.MkdirAll(dir, 0o755); err != nil {
		return nil, err
	}
	if _, err := ix.BuildLayout(dir, c, ix.RandomLayout(g, c)); err != nil {
		return nil, fmt.Errorf("build shards: %w", err)
	}
	streamer, err := search.NewDirectorySearcher(dir)
	if err != nil {
		return nil, err
	}
	logger := sglog.Scoped("verif-grpc")
	gs := defaults.NewServer(logger)
	v1.RegisterWebserverServiceServer(gs, grpcserver.NewServer(streamer))
	lis := bufconn.Listen(1 << 20)
	go func() { _ = gs.Serve(lis) }()
	cc, err := grpc.NewClient("passthrough:///bufnet",
		grpc.WithContextDialer(func(ctx context.Context, _ string) (net.Conn, error) { return lis.DialContext(ctx) }),
		grpc.WithTransportCredentials(insecure.NewCredentials()),
		grpc.WithDefaultCallOptions(grpc.MaxCallRecvMsgSize(64<<20)))
	if err != nil {
		return nil, err
	}
	return &c24Rig{client: v1.NewWebserverServiceClient(cc), corpus: c, gen: g, stop: func() {
		cc.Close()
		gs.Stop()
		streamer.Close()
	}}, nil
}

// call sends one request; it returns the gRPC status code (OK when a response
// arrived) and the number of response messages.
func (rig *c24Rig) call(q c24Req) (codes.Code, int, string) {
	ctx, cancel := context.WithTimeout(context.Background(), 60*time.Second)
	defer cancel()
	var err error
	n := 0
	switch q.Method {
	case "Search":
		var resp *v1.SearchResponse
		resp, err = rig.client.Search(ctx, q.Msg.(*v1.SearchRequest))
		if err == nil && resp != nil {
			n = 1
		}
	case "List":
		var resp *v1.ListResponse
		resp, err = rig.client.List(ctx, q.Msg.(*v1.ListRequest))
		if err == nil && resp != nil {
			n = 1
		}
	case "StreamSearch":
		var cs grpc.ServerStreamingClient[v1.StreamSearchResponse]
		cs, err = rig.client.StreamSearch(ctx, q.Msg.(*v1.StreamSearchRequest))
		if err == nil {
			for {
				_, e := cs.Recv()
				if errors.Is(e, io.EOF) {
					break
				}
				if e != nil {
					err = e
					break
				}
				n++
			}
		}
	}
	if err != nil {
		st, _ := status.FromError(err)
		return st.Code(), n, st.Message()
	}
	return codes.OK, n, ""
}

func c24Child(rec *kit.Rec) {
	var a c24Arg
	if err := json.Unmarshal([]byte(kit.ChildArg()), &a); err != nil {
		panic(err)
	}
	cb := sglog.Init(sglog.Resource{Name: "verif-c24"})
	defer cb.Sync()
	rig, err := c24Start(rec)
	if err != nil {
		rec.Violation("harness/grpc-rig", err.Error(), nil)
		return
	}
	defer rig.stop()
	skip := map[string]bool{}
	for _, s := range a.Skip {
		skip[s] = true
	}
	probeS := c24Req{"Search", "probe", "probe", &v1.SearchRequest{Query: qOf(&v1.Substring{Pattern: "a", Content: true}), Opts: &v1.SearchOptions{}}}
	probeL := c24Req{"List", "probe", "probe", &v1.ListRequest{Query: qOf(true), Opts: &v1.ListOptions{}}}
	kit.LogCase(c24Logged{a.Batch, -1, "Search", "probe", "initial-probe", nil, false})
	if code, _, msg := rig.call(probeS); code != codes.OK {
		rec.Violation("harness/initial-probe", fmt.Sprintf("%v %s", code, msg), nil)
		return
	}
	reqs := c24Requests(rec.Seed, a.Batch, a.Size, c24ValidQueries(rec.Seed, rig.corpus, rig.gen))
	for i := a.Start; i < len(reqs); i++ {
		q := reqs[i]
		if skip[q.Method+"|opts-unset"] && c24OptsUnset(q.Msg) {
			// unset options are already known to kill this method: they would mask what the
			// query of this request does, so the request is sent with empty options instead
			if q.Base == "opts-unset" || q.Base == "valid-query+opts-unset" {
				rec.Count("requests_skipped_class_already_reported", 1)
				continue
			}
			q.Msg = c24WithEmptyOpts(q.Msg)
			q.Class = strings.ReplaceAll(q.Class, "opts-unset", "opts-empty(substituted)")
			rec.Count("requests_sent_with_empty_instead_of_unset_options", 1)
		}
		if skip[q.Method+"|"+q.Base] {
			rec.Count("requests_skipped_class_already_reported", 1)
			continue
		}
		js, err := protojson.Marshal(q.Msg)
		if err != nil {
			js, _ = json.Marshal(fmt.Sprint(q.Msg))
		}
		wire, _ := mustMarshal(q.Msg)
		kit.LogCase(c24Logged{a.Batch, i, q.Method, q.Base, q.Class, js, c24OptsUnset(q.Msg)})
		code, n, msg := rig.call(q)
		rec.Count("requests_"+q.Method, 1)
		rec.Count("answers_"+code.String(), 1)
		rec.Max("max_stream_messages", int64(n))
		rec.Seen("request_classes", q.Base)
		rec.Seen("status_codes", code.String())
		nontrivial := q.Base != "valid-query+opts-subset" && !strings.HasPrefix(q.Base, "valid-query+opts-repos")
		rec.Case(q.Method+"|"+q.Class+"|"+string(wire), nontrivial, func() any {
			return map[string]any{"method": q.Method, "class": q.Class, "request": clip(string(js), 500), "answer": code.String(), "message": clip(msg, 200), "messages": n}
		})
		if code == codes.DeadlineExceeded {
			rec.Count("requests_deadline_exceeded_inconclusive", 1)
		}
		// the server must still serve a well-formed request
		probe := probeS
		if i%8 == 7 {
			probe = probeL
		}
		kit.LogCase(c24Logged{a.Batch, i, q.Method, q.Base, q.Class + " (probe after it)", js, c24OptsUnset(q.Msg)})
		if pc, _, pm := rig.call(probe); pc != codes.OK {
			rec.Violation("probe-failed/"+q.Base, fmt.Sprintf("after %s request of class %s (answered %v) the well-formed probe request failed: %v %s", q.Method, q.Class, code, pc, pm),
				map[string]any{"method": q.Method, "class": q.Class, "request_protojson": json.RawMessage(js)})
		}
		rec.Count("probes_ok", 1)
	}
}

// c24OptsUnset: a request that has a query but no options message (a request without
// a query never gets as far as its options).
func c24OptsUnset(m proto.Message) bool {
	switch v := m.(type) {
	case *v1.SearchRequest:
		return v.GetQuery() != nil && v.GetOpts() == nil
	case *v1.StreamSearchRequest:
		return v.GetRequest().GetQuery() != nil && v.GetRequest().GetOpts() == nil
	case *v1.ListRequest:
		return v.GetQuery() != nil && v.GetOpts() == nil
	}
	return false
}

func c24WithEmptyOpts(m proto.Message) proto.Message {
	m = proto.Clone(m)
	switch v := m.(type) {
	case *v1.SearchRequest:
		v.Opts = &v1.SearchOptions{}
	case *v1.StreamSearchRequest:
		if v.Request == nil {
			v.Request = &v1.SearchRequest{}
		}
		v.Request.Opts = &v1.SearchOptions{}
	case *v1.ListRequest:
		v.Opts = &v1.ListOptions{}
	}
	return m
}

// c24Cause names what about the request made the server die, from where it died: the
// handlers convert the query first (query.QFromProto) and the options afterwards, so a
// death outside QFromProto on a request without options is the missing options, whatever
// the query was. The cause, not the query class, goes into the signature.
func c24Cause(site, crash string, lc c24Logged) string {
	switch {
	case strings.HasSuffix(site, "QFromProto") && strings.Contains(crash, "unknown query node"):
		return "query-oneof-unset"
	case strings.HasSuffix(site, "QFromProto") && strings.Contains(crash, "nil pointer"):
		return "query-node-nil"
	case !strings.HasSuffix(site, "QFromProto") && lc.OptsUnset:
		return "opts-unset"
	}
	return lc.Base
}

// ---------------------------------------------------------------------------
// parent

func c24Totality(rec *kit.Rec) {
	nBatches := rec.N(3, 30)
	size := rec.N(1100, 5000)
	env := []string{"SRC_LOG_LEVEL=error", "SRC_LOG_FORMAT=logfmt", "GOMEMLIMIT=6GiB"}
	skip := map[string]bool{}
	perBase := map[string]int{}
	deaths, maxDeaths := 0, 300
	skipList := func() []string {
		l := make([]string, 0, len(skip))
		for k := range skip {
			l = append(l, k)
		}
		sort.Strings(l)
		return l
	}
	for b := 0; b < nBatches; b++ {
		start := 0
		for start < size {
			arg, _ := json.Marshal(c24Arg{Batch: b, Size: size, Start: start, Skip: skipList()})
			res := rec.RunChild("TestVerif_C24", "grpc", string(arg), env, 30*time.Minute)
			if res.TimedOut {
				rec.Note("child_watchdog", fmt.Sprintf("batch %d from %d: watchdog fired (inconclusive)", b, start))
				break
			}
			if !res.Crashed() {
				break
			}
			if res.Exit == 0 && res.Signal == "" {
				// the child ran to its end but its record stream has no final record: a
				// harness fault, never a server death
				rec.Violation("harness/child-record-lost", "child exited 0 without a childdone record", map[string]any{"tail": clip(res.Tail, 2000), "last": res.LastCase})
				break
			}
			var lc c24Logged
			if err := json.Unmarshal([]byte(res.LastCase), &lc); err != nil || lc.I < 0 {
				rec.Violation("harness/child-died-without-case", "child died before sending a request: "+res.CrashClass(), map[string]any{"tail": clip(res.Tail, 4000), "last": res.LastCase})
				break
			}
			rec.Count("server_deaths", 1)
			deaths++
			site := c24CrashSite(res)
			class := lc.Class
			cause := c24Cause(site, res.CrashClass(), lc)
			rec.Count("server_deaths_"+lc.Method+"_"+cause, 1)
			rec.Seen("request_classes_that_killed_the_server", lc.Method+" "+lc.Base+" -> "+cause+" @ "+site)
			rec.Violation("server-crash/"+site+"/"+cause,
				fmt.Sprintf("the gRPC server process died while handling a well-formed %s request (class %s): %s", lc.Method, class, res.CrashClass()),
				map[string]any{"method": lc.Method, "class": class, "request_protojson": lc.Request, "batch": lc.Batch, "index": lc.I,
					"child_exit": res.Exit, "child_signal": res.Signal, "child_output": clip(res.Tail, 5000),
					"replay": "send request_protojson (protojson of the request message) to " + lc.Method + " of a server built with grpc/defaults.NewServer + grpcserver.NewServer(search.NewDirectorySearcher(dir))"})
			if cause == "opts-unset" {
				// not this query class's doing: from now on this method gets empty options
				// where the generator left them unset, so that the class is still observed
				skip[lc.Method+"|opts-unset"] = true
			} else {
				perBase[lc.Method+"|"+lc.Base]++
				if !strings.HasPrefix(lc.Base, "valid-query") || perBase[lc.Method+"|"+lc.Base] >= 5 {
					skip[lc.Method+"|"+lc.Base] = true
				}
			}
			start = lc.I + 1
			if deaths >= maxDeaths {
				rec.Note("stopped_early", fmt.Sprintf("%d server deaths: remaining requests not sent (inconclusive tail)", deaths))
				break
			}
		}
		if deaths >= maxDeaths {
			break
		}
	}
	rec.Note("request_classes_skipped_after_first_server_death", skipList())
}

// c24CrashSite: the first zoekt frame below the panic, e.g. "query.QFromProto".
func c24CrashSite(res kit.ChildResult) string {
	cc := res.CrashClass()
	if i := strings.LastIndex(cc, " @ "); i >= 0 {
		s := strings.TrimPrefix(cc[i+3:], "/")
		return s
	}
	return kit.MsgClass(cc)
}
