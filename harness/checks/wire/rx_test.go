package wire

// rx_test.go: generator of regexp sources from the query regexp grammar and of
// subject strings derived from a regexp's own literals / class members. Shared by
// C27 (language preservation) and C24 (regexp atoms of query trees).

import (
	"fmt"
	"math/rand/v2"
	"regexp/syntax"
	"strings"
	"unicode"
	"unicode/utf8"
)

// queryRxFlags are the parse flags of query/parse.go (regexpFlags).
const queryRxFlags = syntax.ClassNL | syntax.PerlX | syntax.UnicodeGroups

type rxGen struct {
	r     *rand.Rand
	names int
	feats map[string]bool // grammar features used by the current source
}

func (g *rxGen) feat(s string) { g.feats[s] = true }

var rxLitRunes = []rune{'a', 'b', 'c', 'A', 'B', 'x', 'k', 'K', 's', 'S', '0', '1', '_', ' ', '-', 'é', 'É', 'ß', 'σ', 'ς', 'Σ', 'ſ', 'K', 'д', '日', '😀'}

// raw (unescaped) runes that are legal as literals although not printable
var rxOddRunes = []rune{'\t', '\n', '\r', 0x01, 0x7f, 0x85, 0xa0, 0x2028, 0xFFFD, 0x10FFFF, 0}

func (g *rxGen) litChar() string {
	r := g.r
	switch r.IntN(16) {
	case 0:
		g.feat("lit-escaped-meta")
		return `\` + string(`\.+*?()|[]{}^$-`[r.IntN(15)])
	case 1:
		g.feat("lit-nonprintable-raw")
		return string(rxOddRunes[r.IntN(len(rxOddRunes))])
	case 2:
		g.feat("lit-escape-seq")
		return []string{`\n`, `\t`, `\r`, `\f`, `\v`, `\a`, `\x00`, `\x7f`, `\x{7F}`, `\x{10FFFF}`, `\x{80}`, `\x41`, `\101`, `\x{e9}`, `\x{2028}`}[r.IntN(15)]
	case 3:
		g.feat("lit-quoted")
		return `\Q` + []string{"a.b", "[x]", "a|b", "^$", "(", "*+", "a b", `\`}[r.IntN(8)] + `\E`
	case 4:
		g.feat("lit-punct")
		return string(`#&,:;<=>@~'"/!%`[r.IntN(15)])
	}
	c := rxLitRunes[r.IntN(len(rxLitRunes))]
	if c >= utf8.RuneSelf {
		g.feat("lit-nonascii")
	}
	return string(c)
}

func (g *rxGen) classItem(first bool) string {
	r := g.r
	switch r.IntN(22) {
	case 0:
		g.feat("class-perl")
		return []string{`\d`, `\w`, `\s`, `\D`, `\W`, `\S`}[r.IntN(6)]
	case 1:
		g.feat("class-posix")
		return []string{`[:alpha:]`, `[:^digit:]`, `[:punct:]`, `[:upper:]`, `[:space:]`, `[:word:]`, `[:^alnum:]`, `[:xdigit:]`}[r.IntN(8)]
	case 2:
		g.feat("class-unicode")
		return []string{`\pL`, `\p{Greek}`, `\PN`, `\p{^Lu}`, `\p{Cyrillic}`, `\pZ`, `\P{Ll}`, `\p{Han}`}[r.IntN(8)]
	case 3:
		if first {
			g.feat("class-member-]")
			return `]`
		}
		g.feat("class-member-]")
		return `\]`
	case 4:
		g.feat("class-member--")
		if first {
			return `-`
		}
		return `\-`
	case 5:
		g.feat("class-member-^")
		if first {
			return `\^`
		}
		return `^`
	case 6:
		g.feat("class-range")
		return []string{`a-c`, `0-9`, `A-Z`, `a-z`, `x-z`, `é-ü`, `α-ω`, `\x00-\x1f`, `\x00-\x{10FFFF}`, ` -~`, `+--`, `--/`, `\x{80}-\x{ff}`, `Z-a`, `\--\-`}[r.IntN(15)]
	case 7:
		g.feat("class-escape")
		return []string{`\n`, `\t`, `\\`, `\[`, `\.`, `\x00`, `\x{10FFFF}`, `\x7f`, `\$`, `\|`}[r.IntN(10)]
	case 8:
		g.feat("class-nonprintable-raw")
		return string(rxOddRunes[r.IntN(len(rxOddRunes))])
	case 9:
		g.feat("class-meta-raw")
		return string(`.+*?()|{}$[`[r.IntN(11)])
	}
	c := rxLitRunes[r.IntN(len(rxLitRunes))]
	if c == '-' {
		return `\-`
	}
	return string(c)
}

func (g *rxGen) class() string {
	r := g.r
	var b strings.Builder
	b.WriteByte('[')
	neg := r.IntN(3) == 0
	if neg {
		g.feat("class-negated")
		b.WriteByte('^')
	}
	n := 1 + r.IntN(4)
	for i := 0; i < n; i++ {
		b.WriteString(g.classItem(i == 0))
	}
	if r.IntN(10) == 0 {
		g.feat("class-member--")
		b.WriteByte('-') // trailing '-' is a literal member
	}
	b.WriteByte(']')
	return b.String()
}

func (g *rxGen) atom(depth int) string {
	r := g.r
	k := r.IntN(30)
	switch {
	case k < 9:
		// a short literal run
		n := 1 + r.IntN(3)
		var b strings.Builder
		for i := 0; i < n; i++ {
			b.WriteString(g.litChar())
		}
		return b.String()
	case k < 10:
		g.feat("dot")
		return "."
	case k < 14:
		g.feat("class")
		return g.class()
	case k < 15:
		g.feat("perl-class")
		return []string{`\d`, `\w`, `\s`, `\D`, `\W`, `\S`}[r.IntN(6)]
	case k < 16:
		g.feat("unicode-class")
		return []string{`\pL`, `\p{Greek}`, `\PN`, `\p{^Lu}`, `\P{L}`, `\p{Lu}`, `\pN`}[r.IntN(7)]
	case k < 19:
		g.feat("anchor")
		a := []string{`^`, `$`, `\A`, `\z`, `\b`, `\B`}[r.IntN(6)]
		g.feat("anchor " + a)
		return a
	case k < 20:
		g.feat("empty-group")
		return []string{`()`, `(?:)`, `(|a)`, `(a|)`, `(?:|)`, `(?i:)`}[r.IntN(6)]
	case k < 21:
		g.feat("flag-toggle")
		return []string{`(?i)`, `(?s)`, `(?m)`, `(?-m)`, `(?U)`, `(?-i)`, `(?is)`, `(?i-s)`, `(?-s)`}[r.IntN(9)]
	}
	if depth <= 0 {
		return g.litChar()
	}
	inner := g.alt(depth - 1)
	switch r.IntN(10) {
	case 0, 1, 2:
		g.feat("capture")
		return "(" + inner + ")"
	case 3:
		g.feat("named-capture")
		g.names++
		if r.IntN(2) == 0 {
			return fmt.Sprintf("(?P<n%d>%s)", g.names, inner)
		}
		return fmt.Sprintf("(?<n%d>%s)", g.names, inner)
	case 4, 5:
		g.feat("noncapture")
		return "(?:" + inner + ")"
	case 6:
		g.feat("flag-group")
		g.feat("flag-group i")
		return "(?i:" + inner + ")"
	case 7:
		g.feat("flag-group")
		f := []string{"s", "m", "-m", "U", "-i", "i-s", "is", "-s", "mU", "-U"}[r.IntN(10)]
		g.feat("flag-group " + f)
		return "(?" + f + ":" + inner + ")"
	default:
		g.feat("capture")
		return "(" + inner + ")"
	}
}

func (g *rxGen) repeat(depth int) string {
	r := g.r
	a := g.atom(depth)
	if r.IntN(3) != 0 {
		return a
	}
	var op string
	switch r.IntN(9) {
	case 0, 1:
		op = "*"
	case 2, 3:
		op = "+"
	case 4:
		op = "?"
	case 5:
		op = fmt.Sprintf("{%d}", r.IntN(4))
	case 6:
		op = fmt.Sprintf("{%d,}", r.IntN(3))
	case 7:
		lo := r.IntN(3)
		op = fmt.Sprintf("{%d,%d}", lo, lo+r.IntN(3))
	default:
		op = []string{"{0}", "{0,0}", "{1}", "{1,1}", "{0,1}", "{2,5}", "{10}"}[r.IntN(7)]
	}
	g.feat("repeat " + strings.TrimRight(strings.Map(func(c rune) rune {
		if c >= '0' && c <= '9' {
			return 'n'
		}
		return c
	}, op), ""))
	if r.IntN(4) == 0 {
		g.feat("non-greedy")
		op += "?"
	}
	return a + op
}

func (g *rxGen) concat(depth int) string {
	n := 1 + g.r.IntN(4)
	if g.r.IntN(12) == 0 {
		n = 0
		g.feat("empty-alternative")
	}
	var b strings.Builder
	for i := 0; i < n; i++ {
		b.WriteString(g.repeat(depth))
	}
	return b.String()
}

func (g *rxGen) alt(depth int) string {
	n := 1
	switch g.r.IntN(6) {
	case 0, 1:
		n = 2
	case 2:
		n = 3
	}
	if n > 1 {
		g.feat("alternation")
	}
	var l []string
	for i := 0; i < n; i++ {
		l = append(l, g.concat(depth))
	}
	return strings.Join(l, "|")
}

// Source returns a regexp source and the grammar features it uses. It need not
// parse (the caller filters).
func (g *rxGen) Source() (string, map[string]bool) {
	g.names = 0
	g.feats = map[string]bool{}
	d := 1 + g.r.IntN(3)
	return g.alt(d), g.feats
}

// ---------------------------------------------------------------------------
// subjects

// rxAlphabet collects the runes a regexp talks about: literal runes, class range
// end points and their neighbours, with case variants.
func rxAlphabet(re *syntax.Regexp, out map[rune]bool) {
	add := func(c rune) {
		if c < 0 || c > unicode.MaxRune || (c >= 0xD800 && c <= 0xDFFF) {
			return
		}
		out[c] = true
	}
	switch re.Op {
	case syntax.OpLiteral:
		for _, c := range re.Rune {
			add(c)
			for f := unicode.SimpleFold(c); f != c; f = unicode.SimpleFold(f) {
				add(f)
			}
		}
	case syntax.OpCharClass:
		for i := 0; i+1 < len(re.Rune) && i < 16; i += 2 {
			lo, hi := re.Rune[i], re.Rune[i+1]
			add(lo)
			add(hi)
			add(lo - 1)
			add(hi + 1)
			if hi-lo > 2 {
				add(lo + (hi-lo)/2)
			}
		}
	}
	for _, s := range re.Sub {
		rxAlphabet(s, out)
	}
}

// rxSample derives a string that has a good chance of matching re (anchors and
// flags are not modelled: it is a workload heuristic, not an oracle).
func rxSample(r *rand.Rand, re *syntax.Regexp, b *strings.Builder, budget *int) {
	if *budget <= 0 {
		return
	}
	*budget--
	switch re.Op {
	case syntax.OpLiteral:
		for _, c := range re.Rune {
			if re.Flags&syntax.FoldCase != 0 && r.IntN(2) == 0 {
				c = unicode.SimpleFold(c)
			}
			b.WriteRune(c)
		}
	case syntax.OpCharClass:
		if len(re.Rune) >= 2 {
			i := 2 * r.IntN(len(re.Rune)/2)
			lo, hi := re.Rune[i], re.Rune[i+1]
			c := lo
			if hi > lo {
				switch r.IntN(3) {
				case 0:
					c = hi
				case 1:
					c = lo + rune(r.IntN(int(min(hi-lo, 64))+1))
				}
			}
			if c >= 0xD800 && c <= 0xDFFF {
				c = 'a'
			}
			b.WriteRune(c)
		}
	case syntax.OpAnyCharNotNL, syntax.OpAnyChar:
		b.WriteRune([]rune{'a', 'Z', ' ', 'é', '\n', '日'}[r.IntN(6)])
	case syntax.OpBeginLine, syntax.OpEndLine:
		if r.IntN(2) == 0 {
			b.WriteByte('\n')
		}
	case syntax.OpCapture:
		rxSample(r, re.Sub[0], b, budget)
	case syntax.OpStar:
		for n := r.IntN(4); n > 0; n-- {
			rxSample(r, re.Sub[0], b, budget)
		}
	case syntax.OpPlus:
		for n := 1 + r.IntN(3); n > 0; n-- {
			rxSample(r, re.Sub[0], b, budget)
		}
	case syntax.OpQuest:
		if r.IntN(2) == 0 {
			rxSample(r, re.Sub[0], b, budget)
		}
	case syntax.OpRepeat:
		hi := re.Max
		if hi < 0 {
			hi = re.Min + 2
		}
		n := re.Min
		if hi > re.Min {
			n += r.IntN(hi - re.Min + 1)
		}
		for ; n > 0; n-- {
			rxSample(r, re.Sub[0], b, budget)
		}
	case syntax.OpConcat:
		for _, s := range re.Sub {
			rxSample(r, s, b, budget)
		}
	case syntax.OpAlternate:
		rxSample(r, re.Sub[r.IntN(len(re.Sub))], b, budget)
	}
}

var rxNoise = []rune{'a', 'b', 'A', ' ', '\n', '_', '0', 'é', 'z', '-', ']', '^'}

// rxSubjects assembles n subject strings for re: samples of the regexp with noise
// around them, mutated samples, and random strings over the regexp's alphabet.
func rxSubjects(r *rand.Rand, re *syntax.Regexp, n int) []string {
	am := map[rune]bool{}
	rxAlphabet(re, am)
	alpha := make([]rune, 0, len(am)+len(rxNoise))
	for c := range am {
		alpha = append(alpha, c)
	}
	// deterministic order
	for i := 1; i < len(alpha); i++ {
		for j := i; j > 0 && alpha[j-1] > alpha[j]; j-- {
			alpha[j-1], alpha[j] = alpha[j], alpha[j-1]
		}
	}
	nOwn := len(alpha)
	alpha = append(alpha, rxNoise...)
	pick := func() rune {
		if nOwn > 0 && r.IntN(3) != 0 {
			return alpha[r.IntN(nOwn)]
		}
		return alpha[r.IntN(len(alpha))]
	}
	noise := func(max int) string {
		var b strings.Builder
		for k := r.IntN(max + 1); k > 0; k-- {
			b.WriteRune(pick())
		}
		return b.String()
	}
	out := make([]string, 0, n)
	out = append(out, "")
	for len(out) < n {
		var b strings.Builder
		switch r.IntN(8) {
		case 0, 1, 2: // sample with noise around
			b.WriteString(noise(3))
			budget := 60
			rxSample(r, re, &b, &budget)
			b.WriteString(noise(3))
		case 3: // two samples on separate lines / adjacent
			budget := 60
			rxSample(r, re, &b, &budget)
			b.WriteString([]string{"\n", "", " ", "\n\n"}[r.IntN(4)])
			rxSample(r, re, &b, &budget)
		case 4: // mutated sample
			var sb strings.Builder
			budget := 60
			rxSample(r, re, &sb, &budget)
			rs := []rune(sb.String())
			if len(rs) > 0 {
				i := r.IntN(len(rs))
				switch r.IntN(3) {
				case 0:
					rs[i] = pick()
				case 1:
					rs = append(rs[:i], rs[i+1:]...)
				default:
					rs = append(rs[:i], append([]rune{pick()}, rs[i:]...)...)
				}
			}
			b.WriteString(string(rs))
		case 5: // exact sample
			budget := 60
			rxSample(r, re, &b, &budget)
		default:
			b.WriteString(noise(10))
		}
		s := b.String()
		if !utf8.ValidString(s) {
			continue
		}
		out = append(out, s)
	}
	return out
}

// rxOps lists the op kinds of a parse tree.
func rxOps(re *syntax.Regexp, out map[string]bool) {
	out[re.Op.String()] = true
	if re.Flags&syntax.FoldCase != 0 && re.Op == syntax.OpLiteral {
		out["Literal/FoldCase"] = true
	}
	if re.Flags&syntax.NonGreedy != 0 {
		out[re.Op.String()+"/NonGreedy"] = true
	}
	if re.Op == syntax.OpEndText && re.Flags&syntax.WasDollar != 0 {
		out["EndText/WasDollar"] = true
	}
	if re.Op == syntax.OpCapture && re.Name != "" {
		out["Capture/Named"] = true
	}
	for _, s := range re.Sub {
		rxOps(s, out)
	}
}
