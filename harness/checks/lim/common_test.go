// Package lim holds the black-box monitors for limits, cancellation and ranking
// (C21, C22, C29).
package lim

import (
	"context"
	"fmt"
	"math"
	"os"
	"path/filepath"
	"reflect"
	"sort"
	"strings"

	"github.com/sourcegraph/zoekt"
	kit "github.com/sourcegraph/zoekt/internal/verifkit"
	"github.com/sourcegraph/zoekt/internal/verifkit/ix"
	"github.com/sourcegraph/zoekt/query"
	"github.com/sourcegraph/zoekt/search"
)

// world is one generated corpus written to disk: every layout group is built in its
// own directory (so that a directory searcher over exactly one shard exists) and all
// shard files are hard-linked into <dir>/all for the searcher over the whole corpus.
type world struct {
	dir    string
	c      *kit.Corpus
	ev     *kit.Evaluator
	g      *kit.Gen
	paths  []string         // one shard file per layout group
	gdirs  []string         // directory holding only paths[i]
	shards []zoekt.Searcher // bare index searchers
	dirS   zoekt.Streamer   // directory searcher over all shards
	dir1   []zoekt.Streamer // directory searcher over shard i only (opened on demand)
	layout ix.Layout
}

func (w *world) close() {
	for _, s := range w.shards {
		s.Close()
	}
	if w.dirS != nil {
		w.dirS.Close()
	}
	for _, s := range w.dir1 {
		if s != nil {
			s.Close()
		}
	}
	os.RemoveAll(w.dir)
}

type worldOpt struct {
	noDir     bool
	singles   bool // every repository in its own shard
	configure func(g *kit.Gen)
	mutate    func(g *kit.Gen, c *kit.Corpus)
}

func newWorld(rec *kit.Rec, stream uint64, o worldOpt) (*world, error) {
	g := kit.NewGen(rec.Rand(stream))
	g.Tombstones = true
	g.SubRepos = true
	if o.configure != nil {
		o.configure(g)
	}
	c := g.Corpus()
	if o.mutate != nil {
		o.mutate(g, c)
	}
	dir := filepath.Join(rec.Work, fmt.Sprintf("w%d", stream))
	os.RemoveAll(dir)
	all := filepath.Join(dir, "all")
	if err := os.MkdirAll(all, 0o755); err != nil {
		return nil, err
	}
	w := &world{dir: dir, c: c, g: g, ev: kit.NewEvaluator(c)}
	if o.singles {
		for i := range c.Repos {
			w.layout.Groups = append(w.layout.Groups, []int{i})
		}
	} else {
		w.layout = ix.RandomLayout(g, c)
	}
	for gi, grp := range w.layout.Groups {
		gd := filepath.Join(dir, fmt.Sprintf("g%d", gi))
		if err := os.MkdirAll(gd, 0o755); err != nil {
			w.close()
			return nil, err
		}
		ps, err := ix.BuildLayout(gd, c, ix.Layout{Groups: [][]int{grp}})
		if err != nil {
			w.close()
			return nil, fmt.Errorf("build: %w", err)
		}
		w.paths = append(w.paths, ps[0])
		w.gdirs = append(w.gdirs, gd)
		ents, err := os.ReadDir(gd)
		if err != nil {
			w.close()
			return nil, err
		}
		for _, e := range ents {
			if e.IsDir() {
				continue
			}
			if err := os.Link(filepath.Join(gd, e.Name()), filepath.Join(all, e.Name())); err != nil {
				w.close()
				return nil, err
			}
		}
	}
	for _, p := range w.paths {
		s, err := ix.Open(p)
		if err != nil {
			w.close()
			return nil, fmt.Errorf("open %s: %w", p, err)
		}
		w.shards = append(w.shards, s)
	}
	w.dir1 = make([]zoekt.Streamer, len(w.paths))
	if !o.noDir {
		ds, err := search.NewDirectorySearcher(all)
		if err != nil {
			w.close()
			return nil, err
		}
		w.dirS = ds
	}
	return w, nil
}

// single returns the directory searcher over shard i alone.
func (w *world) single(i int) (zoekt.Streamer, error) {
	if w.dir1[i] == nil {
		ds, err := search.NewDirectorySearcher(w.gdirs[i])
		if err != nil {
			return nil, err
		}
		w.dir1[i] = ds
	}
	return w.dir1[i], nil
}

func witness(w *world, q query.Q, extra map[string]any) map[string]any {
	m := map[string]any{"query": q.String(), "corpus": ix.Dump(w.c), "layout": w.layout.Groups}
	for k, v := range extra {
		m[k] = v
	}
	return m
}

// ---------------------------------------------------------------------------
// file identity and comparison

func fkey(f *zoekt.FileMatch) string {
	return kit.DocKey(f.Repository, f.FileName, string(f.Content))
}

func fname(f *zoekt.FileMatch) string { return f.Repository + ":" + f.FileName }

// nMatches counts what the display limits count: line fragments / chunk ranges.
func nMatches(f *zoekt.FileMatch) int {
	n := 0
	for i := range f.LineMatches {
		n += len(f.LineMatches[i].LineFragments)
	}
	for i := range f.ChunkMatches {
		n += len(f.ChunkMatches[i].Ranges)
	}
	return n
}

func totalMatches(fs []zoekt.FileMatch) int {
	n := 0
	for i := range fs {
		n += nMatches(&fs[i])
	}
	return n
}

// sameMatches: matches (all fields, scores included) and branches are identical.
// ignoreDebug drops the debug strings.
func sameMatches(a, b *zoekt.FileMatch, ignoreDebug bool) string {
	if !reflect.DeepEqual(a.Branches, b.Branches) {
		return fmt.Sprintf("branches differ: %q vs %q", a.Branches, b.Branches)
	}
	if len(a.LineMatches) != len(b.LineMatches) {
		return fmt.Sprintf("matches differ: %d line matches vs %d", len(a.LineMatches), len(b.LineMatches))
	}
	if len(a.ChunkMatches) != len(b.ChunkMatches) {
		return fmt.Sprintf("matches differ: %d chunk matches vs %d", len(a.ChunkMatches), len(b.ChunkMatches))
	}
	for i := range a.LineMatches {
		x, y := a.LineMatches[i], b.LineMatches[i]
		if ignoreDebug {
			x.DebugScore, y.DebugScore = "", ""
		}
		if !lineEq(&x, &y) {
			return fmt.Sprintf("matches differ: line match %d: %s vs %s", i, showLM(&x), showLM(&y))
		}
	}
	for i := range a.ChunkMatches {
		x, y := a.ChunkMatches[i], b.ChunkMatches[i]
		if ignoreDebug {
			x.DebugScore, y.DebugScore = "", ""
		}
		if !chunkEq(&x, &y) {
			return fmt.Sprintf("matches differ: chunk match %d: %s vs %s", i, showCM(&x), showCM(&y))
		}
	}
	return ""
}

// feq: float equality where NaN equals NaN (finiteness is judged separately).
func feq(a, b float64) bool {
	return a == b || (math.IsNaN(a) && math.IsNaN(b))
}

func lineEq(x, y *zoekt.LineMatch) bool {
	if !feq(x.Score, y.Score) {
		return false
	}
	a, b := *x, *y
	a.Score, b.Score = 0, 0
	return bytesEq(a.Line, b.Line) && bytesEq(a.Before, b.Before) && bytesEq(a.After, b.After) &&
		a.LineStart == b.LineStart && a.LineEnd == b.LineEnd && a.LineNumber == b.LineNumber && a.FileName == b.FileName &&
		a.DebugScore == b.DebugScore && reflect.DeepEqual(a.LineFragments, b.LineFragments)
}

func chunkEq(x, y *zoekt.ChunkMatch) bool {
	if !feq(x.Score, y.Score) {
		return false
	}
	return bytesEq(x.Content, y.Content) && x.ContentStart == y.ContentStart && x.FileName == y.FileName &&
		x.BestLineMatch == y.BestLineMatch && x.DebugScore == y.DebugScore &&
		reflect.DeepEqual(x.Ranges, y.Ranges) && symsEq(x.SymbolInfo, y.SymbolInfo)
}

func symsEq(a, b []*zoekt.Symbol) bool {
	if len(a) != len(b) {
		return false
	}
	for i := range a {
		if (a[i] == nil) != (b[i] == nil) {
			return false
		}
		if a[i] != nil && *a[i] != *b[i] {
			return false
		}
	}
	return true
}

func bytesEq(a, b []byte) bool { return string(a) == string(b) }

func showLM(m *zoekt.LineMatch) string {
	return fmt.Sprintf("{line %d [%d,%d) %q frags %v score %v}", m.LineNumber, m.LineStart, m.LineEnd, m.Line, m.LineFragments, m.Score)
}

func showCM(m *zoekt.ChunkMatch) string {
	var rs []string
	for _, r := range m.Ranges {
		rs = append(rs, fmt.Sprintf("[%d,%d)", r.Start.ByteOffset, r.End.ByteOffset))
	}
	return fmt.Sprintf("{start %+v content %q ranges %s score %v}", m.ContentStart, m.Content, strings.Join(rs, ""), m.Score)
}

// index of files by key (a key may occur more than once: same path and content on
// disjoint branch sets).
type fileIndex map[string][]*zoekt.FileMatch

func indexFiles(fs []zoekt.FileMatch) fileIndex {
	m := fileIndex{}
	for i := range fs {
		k := fkey(&fs[i])
		m[k] = append(m[k], &fs[i])
	}
	return m
}

// subsetProblem: every file of got is a file of base with identical matches and
// branches, no file more often than in base. Returns (what-differs, detail).
func subsetProblem(got []zoekt.FileMatch, base fileIndex) (string, string) {
	used := map[*zoekt.FileMatch]bool{}
	for i := range got {
		f := &got[i]
		cands := base[fkey(f)]
		if len(cands) == 0 {
			return "file not in the unlimited result", fname(f)
		}
		var firstDiff string
		found := false
		for _, c := range cands {
			if used[c] {
				continue
			}
			d := sameMatches(f, c, false)
			if d == "" {
				used[c] = true
				found = true
				break
			}
			if firstDiff == "" {
				firstDiff = d
			}
		}
		if !found {
			if firstDiff == "" {
				return "file returned more often than in the unlimited result", fname(f)
			}
			kind := "matches differ"
			if strings.HasPrefix(firstDiff, "branches") {
				kind = "branches differ"
			}
			return kind, fname(f) + ": " + firstDiff
		}
	}
	return "", ""
}

// cloneFiles copies everything the display truncator mutates.
func cloneFiles(fs []zoekt.FileMatch) []zoekt.FileMatch {
	out := make([]zoekt.FileMatch, len(fs))
	for i := range fs {
		f := fs[i]
		if f.LineMatches != nil {
			lm := make([]zoekt.LineMatch, len(f.LineMatches))
			copy(lm, f.LineMatches)
			for j := range lm {
				lm[j].LineFragments = append([]zoekt.LineFragmentMatch(nil), lm[j].LineFragments...)
			}
			f.LineMatches = lm
		}
		if f.ChunkMatches != nil {
			cm := make([]zoekt.ChunkMatch, len(f.ChunkMatches))
			copy(cm, f.ChunkMatches)
			for j := range cm {
				cm[j].Ranges = append([]zoekt.Range(nil), cm[j].Ranges...)
				if cm[j].SymbolInfo != nil {
					cm[j].SymbolInfo = append([]*zoekt.Symbol(nil), cm[j].SymbolInfo...)
				}
			}
			f.ChunkMatches = cm
		}
		out[i] = f
	}
	return out
}

// ---------------------------------------------------------------------------
// searching helpers

type collector struct {
	events []*zoekt.SearchResult
	onSend func(n int, r *zoekt.SearchResult)
}

func (c *collector) Send(r *zoekt.SearchResult) {
	c.events = append(c.events, r)
	if c.onSend != nil {
		c.onSend(len(c.events), r)
	}
}

func (c *collector) files() []zoekt.FileMatch {
	var out []zoekt.FileMatch
	for _, e := range c.events {
		out = append(out, e.Files...)
	}
	return out
}

func searchBare(s zoekt.Searcher, ctx context.Context, q query.Q, opts zoekt.SearchOptions) (*zoekt.SearchResult, error) {
	return s.Search(ctx, q, &opts)
}

func hasTies(fs []zoekt.FileMatch) bool {
	sc := make([]float64, len(fs))
	for i := range fs {
		sc[i] = fs[i].Score
	}
	sort.Float64s(sc)
	for i := 1; i < len(sc); i++ {
		if sc[i] == sc[i-1] {
			return true
		}
	}
	return false
}

func modeName(o *zoekt.SearchOptions) string {
	if o.ChunkMatches {
		return "chunk"
	}
	return "line"
}

// matchingQuery draws queries until one is expected (by the reference evaluator) to
// select at least min documents; gives up after tries and returns the last one.
func matchingQuery(qg *kit.QGen, w *world, min, tries int) (query.Q, int) {
	var q query.Q
	n := 0
	for t := 0; t < tries; t++ {
		q = qg.Query()
		n = 0
		kit.Guard(func() {
			for _, c := range w.ev.Expected(q) {
				n += c
			}
		})
		if n >= min {
			return q, n
		}
	}
	return q, n
}
