package lim

import (
	"context"
	"errors"
	"fmt"
	"runtime"
	"sync"
	"testing"
	"time"

	"github.com/sourcegraph/zoekt"
	kit "github.com/sourcegraph/zoekt/internal/verifkit"
	"github.com/sourcegraph/zoekt/query"
	"github.com/sourcegraph/zoekt/search"
)

// C21: match limits and cancellation only remove whole files.
//
// Oracle: the same searcher with the same query and options but without the limit /
// without cancellation. Every file returned under a limit or a cancelled context must
// be a file of that result with identical matches (all fields) and branches.
// Cancellation is enumerated: a context whose Done() channel closes on its n-th call
// (shard level), cancel() called from inside the Sender at the k-th event (sharded
// level), MaxWallTime 1ns / 1h.

const c21Huge = 1 << 40

var c21Values = []int{0, 1, 2, 5, 50, 1_000_000}

func TestVerif_C21(t *testing.T) {
	rec := kit.Open("C21")
	defer rec.Done()
	nCorp := rec.N(30, 500) // building a world costs ~0.7 s (shard builders)
	nQ := rec.N(20, 24)
	for ci := 0; ci < nCorp; ci++ {
		w, err := newWorld(rec, 21_000_000+uint64(ci), worldOpt{singles: ci%4 == 3})
		if err != nil {
			rec.Violation("harness/build", err.Error(), nil)
			continue
		}
		qg := kit.NewQGen(w.g, w.c, w.ev)
		qg.MaxDepth = 2
		for qi := 0; qi < nQ; qi++ {
			q, _ := matchingQuery(qg, w, 2, 5)
			base := zoekt.SearchOptions{Whole: true, ChunkMatches: w.g.R.IntN(2) == 0, NumContextLines: w.g.R.IntN(3)}
			c21Bare(rec, w, q, base)
			c21Sharded(rec, w, w.dirS, len(w.paths), q, base, false)
		}
		w.close()
	}
	c21ManyShards(rec, rec.N(3, 30))
}

type c21Out struct {
	sr  *zoekt.SearchResult
	err error
}

// c21Judge compares one limited/cancelled outcome with the baseline.
func c21Judge(rec *kit.Rec, w *world, q query.Q, kind, param string, opts zoekt.SearchOptions, base []zoekt.FileMatch, bi fileIndex, run func() c21Out, ctxErrOK bool) *zoekt.SearchResult {
	var out c21Out
	msg, stack, p := kit.Guard(func() { out = run() })
	wit := func(extra map[string]any) map[string]any {
		m := map[string]any{"kind": kind, "param": param, "opts": opts.String()}
		for k, v := range extra {
			m[k] = v
		}
		return witness(w, q, m)
	}
	if p {
		rec.Violation(kind+"/panic/"+kit.PanicSite(stack)+"/"+kit.MsgClass(msg), msg, wit(map[string]any{"stack": stack}))
		return nil
	}
	if out.err != nil {
		if ctxErrOK && (errors.Is(out.err, context.Canceled) || errors.Is(out.err, context.DeadlineExceeded)) {
			rec.Count("context_errors_returned", 1)
			return nil
		}
		rec.Violation(kind+"/search error/"+kit.MsgClass(out.err.Error()), out.err.Error(), wit(nil))
		return nil
	}
	if out.sr.Stats.Crashes > 0 {
		rec.Violation(kind+"/shard crash", fmt.Sprintf("Stats.Crashes=%d", out.sr.Stats.Crashes), wit(nil))
		return out.sr
	}
	what, detail := subsetProblem(out.sr.Files, bi)
	if what != "" {
		rec.Violation(kind+"/"+what, detail, wit(map[string]any{"unlimited_files": len(base), "returned_files": len(out.sr.Files)}))
	}
	kept, dropped := len(out.sr.Files), len(base)-len(out.sr.Files)
	rec.Count("files_kept", int64(kept))
	rec.Count("files_dropped", int64(dropped))
	rec.Case(fmt.Sprintf("%s|%s|%s|%s", kind, param, modeName(&opts), kit.Shape(q)), len(base) >= 2 && kept >= 1 && dropped >= 1, func() any {
		return map[string]any{"kind": kind, "param": param, "query": q.String(), "opts": opts.String(), "unlimited_files": len(base), "returned_files": kept}
	})
	rec.Count("outcomes_"+kind, 1)
	return out.sr
}

// ---------------------------------------------------------------------------
// bare shards: per-shard and per-repository limits, enumerated cancellation

func c21Bare(rec *kit.Rec, w *world, q query.Q, o zoekt.SearchOptions) {
	R := w.g.R
	for si, s := range w.shards {
		bo := o
		bo.ShardMaxMatchCount, bo.TotalMaxMatchCount = c21Huge, c21Huge
		var base *zoekt.SearchResult
		var err error
		if msg, stack, p := kit.Guard(func() { base, err = searchBare(s, context.Background(), q, bo) }); p {
			rec.Violation("unlimited/panic/"+kit.PanicSite(stack)+"/"+kit.MsgClass(msg), msg, witness(w, q, map[string]any{"opts": bo.String(), "stack": stack, "shard": si}))
			return
		}
		if err != nil {
			rec.Count("unlimited_search_errors", 1)
			return
		}
		bi := indexFiles(base.Files)
		rec.Max("max_unlimited_files_per_shard", int64(len(base.Files)))
		for _, v := range c21Values {
			lo := bo
			lo.ShardMaxMatchCount = v
			c21Judge(rec, w, q, "shard-limit", fmt.Sprint(v), lo, base.Files, bi, func() c21Out {
				sr, err := searchBare(s, context.Background(), q, lo)
				return c21Out{sr, err}
			}, false)
			lo = bo
			lo.ShardRepoMaxMatchCount = v
			c21Judge(rec, w, q, "repo-limit", fmt.Sprint(v), lo, base.Files, bi, func() c21Out {
				sr, err := searchBare(s, context.Background(), q, lo)
				return c21Out{sr, err}
			}, false)
		}
		for k := 0; k < 2; k++ {
			lo := bo
			lo.ShardMaxMatchCount = c21Values[R.IntN(len(c21Values))]
			lo.ShardRepoMaxMatchCount = c21Values[R.IntN(len(c21Values))]
			c21Judge(rec, w, q, "shard+repo-limit", fmt.Sprintf("%d+%d", lo.ShardMaxMatchCount, lo.ShardRepoMaxMatchCount), lo, base.Files, bi, func() c21Out {
				sr, err := searchBare(s, context.Background(), q, lo)
				return c21Out{sr, err}
			}, false)
		}
		c21CancelShard(rec, w, q, s, bo, base, bi)
	}
}

// pollCtx is a context whose Done() channel closes on its n-th call (n = 0: never).
type pollCtx struct {
	mu     sync.Mutex
	n      int
	calls  int
	ch     chan struct{}
	closed bool
}

func newPollCtx(n int) *pollCtx { return &pollCtx{n: n, ch: make(chan struct{})} }

func (c *pollCtx) Done() <-chan struct{} {
	c.mu.Lock()
	defer c.mu.Unlock()
	c.calls++
	if c.n > 0 && c.calls >= c.n && !c.closed {
		c.closed = true
		close(c.ch)
	}
	return c.ch
}

func (c *pollCtx) Err() error {
	c.mu.Lock()
	defer c.mu.Unlock()
	if c.closed {
		return context.Canceled
	}
	return nil
}
func (c *pollCtx) Deadline() (time.Time, bool) { return time.Time{}, false }
func (c *pollCtx) Value(any) any               { return nil }

func c21CancelShard(rec *kit.Rec, w *world, q query.Q, s zoekt.Searcher, bo zoekt.SearchOptions, base *zoekt.SearchResult, bi fileIndex) {
	// an uncancelled run under the counting context: number of polls P
	pc := newPollCtx(0)
	full := c21Judge(rec, w, q, "cancel-shard", "never", bo, base.Files, bi, func() c21Out {
		sr, err := searchBare(s, pc, q, bo)
		return c21Out{sr, err}
	}, false)
	if full == nil {
		return
	}
	if len(full.Files) != len(base.Files) {
		rec.Violation("cancel-shard/uncancelled run under a custom context returns fewer files", fmt.Sprintf("%d vs %d", len(full.Files), len(base.Files)), witness(w, q, map[string]any{"opts": bo.String()}))
	}
	P := pc.calls
	rec.Max("max_polls_per_shard_search", int64(P))
	var ns []int
	for n := 1; n <= P+1; n++ {
		if n <= 24 || n >= P || w.g.R.IntN(4) == 0 {
			ns = append(ns, n)
		}
	}
	for _, n := range ns {
		c := newPollCtx(n)
		bucket := fmt.Sprint(n)
		if n > 6 {
			bucket = "7+"
		}
		sr := c21Judge(rec, w, q, "cancel-shard", "poll"+bucket, bo, base.Files, bi, func() c21Out {
			sr, err := searchBare(s, c, q, bo)
			return c21Out{sr, err}
		}, true)
		if sr == nil {
			continue
		}
		rec.Count("shard_cancellation_points", 1)
		// bounded progress: every document considered was preceded by its own poll that
		// saw the context alive; n-1 polls did.
		if c.closed && sr.Stats.FilesConsidered > n-1 {
			rec.Violation("cancel-shard/documents considered after cancellation",
				fmt.Sprintf("Done() closed on poll %d, FilesConsidered=%d (uncancelled: %d polls, %d considered)", n, sr.Stats.FilesConsidered, P, full.Stats.FilesConsidered),
				witness(w, q, map[string]any{"opts": bo.String(), "n": n}))
		}
		if c.closed && len(sr.Files) < len(base.Files) {
			rec.Count("shard_cancellations_that_cut_the_result", 1)
		}
		if c.closed {
			// polls after the close: how long the search keeps running
			rec.Max("max_polls_after_cancellation", int64(c.calls-n))
		}
	}
}

// ---------------------------------------------------------------------------
// sharded searcher: total limit, combinations, cancellation from the sender, wall time

func c21Sharded(rec *kit.Rec, w *world, ds zoekt.Streamer, nshards int, q query.Q, o zoekt.SearchOptions, progress bool) {
	if ds == nil {
		return
	}
	R := w.g.R
	bo := o
	bo.ShardMaxMatchCount, bo.TotalMaxMatchCount = c21Huge, c21Huge
	var base *zoekt.SearchResult
	var err error
	if msg, stack, p := kit.Guard(func() { base, err = ds.Search(context.Background(), q, &bo) }); p {
		rec.Violation("unlimited/panic/"+kit.PanicSite(stack)+"/"+kit.MsgClass(msg), msg, witness(w, q, map[string]any{"opts": bo.String(), "stack": stack}))
		return
	}
	if err != nil {
		rec.Count("unlimited_search_errors", 1)
		return
	}
	if base.Stats.Crashes > 0 {
		rec.Violation("unlimited/shard crash", fmt.Sprintf("Stats.Crashes=%d", base.Stats.Crashes), witness(w, q, map[string]any{"opts": bo.String()}))
		return
	}
	bi := indexFiles(base.Files)
	rec.Max("max_unlimited_files_sharded", int64(len(base.Files)))
	search := func(ctx context.Context, lo zoekt.SearchOptions) func() c21Out {
		return func() c21Out {
			sr, err := ds.Search(ctx, q, &lo)
			return c21Out{sr, err}
		}
	}
	for _, v := range c21Values {
		lo := bo
		lo.TotalMaxMatchCount = v
		c21Judge(rec, w, q, "total-limit", fmt.Sprint(v), lo, base.Files, bi, search(context.Background(), lo), false)
	}
	for k := 0; k < 3; k++ {
		lo := bo
		lo.ShardMaxMatchCount = c21Values[R.IntN(len(c21Values))]
		lo.ShardRepoMaxMatchCount = c21Values[R.IntN(len(c21Values))]
		lo.TotalMaxMatchCount = c21Values[R.IntN(len(c21Values))]
		c21Judge(rec, w, q, "combined-limit", fmt.Sprintf("%d+%d+%d", lo.ShardMaxMatchCount, lo.ShardRepoMaxMatchCount, lo.TotalMaxMatchCount), lo, base.Files, bi, search(context.Background(), lo), false)
	}
	// wall time
	for _, d := range []time.Duration{time.Nanosecond, time.Hour} {
		lo := bo
		lo.MaxWallTime = d
		sr := c21Judge(rec, w, q, "walltime", d.String(), lo, base.Files, bi, search(context.Background(), lo), true)
		if sr != nil && d == time.Hour && len(sr.Files) == len(base.Files) {
			rec.Count("walltime_1h_complete", 1)
		}
		if sr != nil && d == time.Nanosecond && len(sr.Files) == 0 {
			rec.Count("walltime_1ns_empty", 1)
		}
	}
	// a context that is cancelled before the search starts
	{
		ctx, cancel := context.WithCancel(context.Background())
		cancel()
		c21Judge(rec, w, q, "cancel-search", "before", bo, base.Files, bi, search(ctx, bo), true)
	}
	// cancellation from inside the sender at the k-th event
	stream := func(ctx context.Context, lo zoekt.SearchOptions, col *collector) func() c21Out {
		return func() c21Out {
			err := ds.StreamSearch(ctx, q, &lo, col)
			sr := &zoekt.SearchResult{Files: col.files()}
			for _, e := range col.events {
				sr.Stats.Add(e.Stats)
			}
			return c21Out{sr, err}
		}
	}
	col0 := &collector{}
	full := c21Judge(rec, w, q, "cancel-stream", "never", bo, base.Files, bi, stream(context.Background(), bo, col0), false)
	if full == nil {
		return
	}
	if len(full.Files) != len(base.Files) {
		rec.Violation("cancel-stream/uncancelled stream returns other files than Search", fmt.Sprintf("%d vs %d", len(full.Files), len(base.Files)), witness(w, q, map[string]any{"opts": bo.String()}))
	}
	K := len(col0.events)
	rec.Max("max_stream_events", int64(K))
	workers := min(runtime.GOMAXPROCS(0), nshards)
	for k := 1; k <= K+1; k++ {
		ctx, cancel := context.WithCancel(context.Background())
		col := &collector{}
		col.onSend = func(n int, _ *zoekt.SearchResult) {
			if n == k {
				cancel()
			}
		}
		lo := bo
		if k%2 == 0 {
			lo.MaxWallTime = time.Hour
		}
		bucket := fmt.Sprint(k)
		if k > 6 {
			bucket = "7+"
		}
		sr := c21Judge(rec, w, q, "cancel-stream", "event"+bucket, lo, base.Files, bi, stream(ctx, lo, col), true)
		cancel()
		if sr == nil {
			continue
		}
		rec.Count("stream_cancellation_points", 1)
		if len(col.events) < k {
			continue // never cancelled
		}
		if len(sr.Files) < len(base.Files) {
			rec.Count("stream_cancellations_that_cut_the_result", 1)
		}
		after := 0
		for _, e := range col.events[k:] {
			if e.Stats.ShardsScanned > 0 {
				after += e.Stats.ShardsScanned
			}
		}
		rec.Max("max_shards_scanned_after_stream_cancel", int64(after))
		if progress {
			rec.Case(fmt.Sprintf("progress|%d|%d|%d", nshards, k, full.Stats.ShardsScanned), full.Stats.ShardsScanned-k > 2*workers+1, nil)
		}
		// bounded progress: results that were buffered (workers) or being computed
		// (workers) when cancel() was called may still arrive, plus the result whose
		// event did the cancelling; every other shard must see the cancelled context.
		if after > 2*workers+1 {
			rec.Violation("cancel-stream/shards searched after cancellation",
				fmt.Sprintf("cancel() inside event %d of %d, %d shards were scanned afterwards (workers=%d, shards=%d)", k, K, after, workers, nshards),
				witness(w, q, map[string]any{"opts": lo.String(), "k": k}))
		}
	}
}

// c21ManyShards: many single-repository shards under GOMAXPROCS(2), so that the
// bound on progress after cancellation (2*workers+1 = 5 shards) is far below the
// number of shards.
func c21ManyShards(rec *kit.Rec, n int) {
	old := runtime.GOMAXPROCS(2)
	defer runtime.GOMAXPROCS(old)
	for i := 0; i < n; i++ {
		w, err := newWorld(rec, 21_500_000+uint64(i), worldOpt{singles: true, noDir: true, configure: func(g *kit.Gen) {
			g.MaxRepos = 20
			g.MaxDocs = 4
			g.Tombstones = false
		}, mutate: func(g *kit.Gen, c *kit.Corpus) {
			for len(c.Repos) < 10 {
				r := g.Repo(len(c.Repos))
				used := map[string]bool{}
				for j := 0; j < 1+g.R.IntN(3); j++ {
					r.Docs = append(r.Docs, g.Doc(r, used))
				}
				c.Repos = append(c.Repos, r)
			}
		}})
		if err != nil {
			rec.Violation("harness/build", err.Error(), nil)
			continue
		}
		ds, err := search.NewDirectorySearcher(w.dir + "/all")
		if err != nil {
			rec.Violation("harness/open", err.Error(), nil)
			w.close()
			continue
		}
		w.dirS = ds
		rec.Max("max_shards_in_a_world", int64(len(w.paths)))
		qg := kit.NewQGen(w.g, w.c, w.ev)
		qg.MaxDepth = 1
		qs := []query.Q{&query.Const{Value: true}, &query.Substring{Pattern: "a", Content: true}}
		for k := 0; k < 4; k++ {
			q, _ := matchingQuery(qg, w, 6, 8)
			qs = append(qs, q)
		}
		for _, q := range qs {
			c21Sharded(rec, w, w.dirS, len(w.paths), q, zoekt.SearchOptions{Whole: true, ChunkMatches: w.g.R.IntN(2) == 0}, true)
		}
		w.close()
	}
}
