package lim

import (
	"context"
	"fmt"
	"math"
	"path"
	"strings"
	"testing"

	"github.com/sourcegraph/zoekt"
	"github.com/sourcegraph/zoekt/index"
	kit "github.com/sourcegraph/zoekt/internal/verifkit"
	"github.com/sourcegraph/zoekt/internal/verifkit/ix"
	"github.com/sourcegraph/zoekt/query"
	"github.com/sourcegraph/zoekt/search"
)

// C29: ranking is deterministic, finite and ordered.
//
// Monitors, per (corpus, query, scoring, mode):
//   - nondeterminism: the same searcher asked twice and a second searcher opened on
//     the same shard files return the same files in the same order with the same file
//     and match scores (bare shards: exactly; sharded: the same scored files, the same
//     order unless two files share a score);
//   - debugscore: DebugScore=true changes no score and no order;
//   - nonfinite: no NaN / Inf among file, line and chunk scores;
//   - order: line / chunk matches of a file have non-increasing scores; ranked file
//     lists (sharded Search, every stream event, index.SortFiles of a bare result)
//     have non-increasing scores, except one file with an extension that the first two
//     files do not have at index 2.

var c29Boosts = []float64{0, 1e-9, 0.5, 1, 3, 1e6, 1e18, 1e300}

func TestVerif_C29(t *testing.T) {
	rec := kit.Open("C29")
	defer rec.Done()
	nCorp := rec.N(32, 400) // building a world costs ~0.7 s (shard builders)
	nQ := rec.N(76, 100)
	for ci := 0; ci < nCorp; ci++ {
		kind := ci % 4
		o := worldOpt{}
		switch kind {
		case 1: // single-document shards, many empty files
			o.singles = true
			o.configure = func(g *kit.Gen) { g.MaxDocs = 1; g.MaxRepos = 6; g.Tombstones = false }
			o.mutate = func(g *kit.Gen, c *kit.Corpus) {
				for _, r := range c.Repos {
					for _, d := range r.Docs {
						if g.R.IntN(3) == 0 {
							d.Content, d.Symbols = "", nil
						}
					}
				}
			}
		case 2: // one shard whose documents are all empty
			o.singles = true
			o.configure = func(g *kit.Gen) { g.Tombstones = false }
			o.mutate = func(g *kit.Gen, c *kit.Corpus) {
				r := c.Repos[g.R.IntN(len(c.Repos))]
				for _, d := range r.Docs {
					d.Content, d.Symbols = "", nil
				}
			}
		case 3: // few large repositories: many files per shard, symbols
			o.configure = func(g *kit.Gen) { g.MaxRepos = 2; g.MaxDocs = 24 }
		}
		w, err := newWorld(rec, 29_000_000+uint64(ci), o)
		if err != nil {
			rec.Violation("harness/build", err.Error(), nil)
			continue
		}
		// second, independent searchers over the same files
		var fresh []zoekt.Searcher
		for _, p := range w.paths {
			s, err := ix.Open(p)
			if err != nil {
				rec.Violation("harness/open", err.Error(), nil)
				continue
			}
			fresh = append(fresh, s)
		}
		freshDir, err := search.NewDirectorySearcher(w.dir + "/all")
		if err != nil {
			rec.Violation("harness/open", err.Error(), nil)
		}
		if len(fresh) == len(w.shards) && freshDir != nil {
			qg := kit.NewQGen(w.g, w.c, w.ev)
			for qi := 0; qi < nQ; qi++ {
				q, class := c29Query(qg, w, qi)
				for _, bm25 := range []bool{false, true} {
					o := zoekt.SearchOptions{Whole: true, ChunkMatches: w.g.R.IntN(2) == 0, NumContextLines: w.g.R.IntN(3), UseBM25Scoring: bm25}
					c29One(rec, w, fresh, freshDir, q, class, o)
				}
			}
		}
		for _, s := range fresh {
			s.Close()
		}
		if freshDir != nil {
			freshDir.Close()
		}
		w.close()
	}
}

// c29Query draws a query; class names what is special about it (part of the case key
// and, for extreme boosts, of the signature).
func c29Query(qg *kit.QGen, w *world, qi int) (query.Q, string) {
	R := w.g.R
	var q query.Q
	class := "tree"
	switch qi % 4 {
	case 0:
		qg.MaxDepth, qg.OnlyText = 2, false
		q, _ = matchingQuery(qg, w, 2, 4)
	case 1: // several terms ORed: BM25 sums over terms
		class = "or-terms"
		qg.OnlyText = true
		var ch []query.Q
		for i := 0; i < 3+R.IntN(4); i++ {
			a := qg.TextAtom()
			if R.IntN(4) == 0 {
				a = &query.Boost{Boost: c29Boosts[R.IntN(len(c29Boosts)-1)], Child: a}
			}
			ch = append(ch, a)
		}
		q = &query.Or{Children: ch}
	case 2: // file names (the only way to reach empty files)
		class = "file-name"
		r := w.c.Repos[R.IntN(len(w.c.Repos))]
		d := r.Docs[R.IntN(len(r.Docs))]
		name := []rune(d.Name)
		n := 1 + R.IntN(len(name))
		st := R.IntN(len(name) - n + 1)
		var fq query.Q = &query.Substring{Pattern: string(name[st : st+n]), FileName: true}
		if R.IntN(3) == 0 {
			fq = &query.Or{Children: []query.Q{fq, qg.TextAtom()}}
		}
		if R.IntN(4) == 0 {
			fq = &query.Const{Value: true}
		}
		q = fq
	default:
		class = "atom"
		qg.OnlyText = true
		q = qg.TextAtom()
	}
	if R.IntN(3) == 0 {
		b := c29Boosts[R.IntN(len(c29Boosts))]
		q = &query.Boost{Boost: b, Child: q}
		class += "/boost"
	}
	if c29MaxBoost(q, 1) >= 1e290 {
		class += "/boost>=1e290"
	}
	return q, class
}

// c29MaxBoost is the largest product of boost weights on a path of q.
func c29MaxBoost(q query.Q, acc float64) float64 {
	m := acc
	up := func(x float64) {
		if x > m {
			m = x
		}
	}
	switch s := q.(type) {
	case *query.Boost:
		up(c29MaxBoost(s.Child, acc*s.Boost))
	case *query.And:
		for _, c := range s.Children {
			up(c29MaxBoost(c, acc))
		}
	case *query.Or:
		for _, c := range s.Children {
			up(c29MaxBoost(c, acc))
		}
	case *query.Not:
		up(c29MaxBoost(s.Child, acc))
	case *query.Type:
		up(c29MaxBoost(s.Child, acc))
	}
	return m
}

func c29One(rec *kit.Rec, w *world, fresh []zoekt.Searcher, freshDir zoekt.Streamer, q query.Q, class string, o zoekt.SearchOptions) {
	scoring := "default"
	if o.UseBM25Scoring {
		scoring = "bm25"
	}
	mode := modeName(&o)
	overflow := ""
	if strings.HasSuffix(class, "boost>=1e290") {
		overflow = "/boost>=1e290"
	}
	od := o
	od.DebugScore = true
	wit := func(extra map[string]any) map[string]any {
		m := map[string]any{"opts": o.String()}
		for k, v := range extra {
			m[k] = v
		}
		return witness(w, q, m)
	}
	// signature: <monitor>/<where>/<scoring>[/rounding][/boost>=1e290]; "~rounding" in
	// sig marks a score difference at floating-point rounding level, the boost suffix is
	// only attached to non-finite scores (overflow of an extreme weight).
	viol := func(sig, what string, extra map[string]any) {
		tail := ""
		if strings.Contains(sig, "~rounding") {
			sig = strings.Replace(sig, "~rounding", "", 1)
			tail = "/rounding"
		}
		if strings.HasPrefix(sig, "nonfinite/") {
			tail += overflow
		}
		rec.Violation(sig+"/"+scoring+tail, what, wit(extra))
	}
	run := func(name string, f func() ([]zoekt.FileMatch, error)) ([]zoekt.FileMatch, bool) {
		var fs []zoekt.FileMatch
		var err error
		if msg, stack, p := kit.Guard(func() { fs, err = f() }); p {
			viol("panic/"+kit.PanicSite(stack)+"/"+kit.MsgClass(msg), msg, map[string]any{"stack": stack, "run": name})
			return nil, false
		}
		if err != nil {
			rec.Count("search_errors", 1)
			return nil, false
		}
		return fs, true
	}
	bare := func(s zoekt.Searcher, o zoekt.SearchOptions) func() ([]zoekt.FileMatch, error) {
		return func() ([]zoekt.FileMatch, error) {
			sr, err := s.Search(context.Background(), q, &o)
			if err != nil {
				return nil, err
			}
			return sr.Files, nil
		}
	}
	sharded := func(s zoekt.Streamer, o zoekt.SearchOptions) func() ([]zoekt.FileMatch, error) {
		return func() ([]zoekt.FileMatch, error) {
			sr, err := s.Search(context.Background(), q, &o)
			if err != nil {
				return nil, err
			}
			if sr.Stats.Crashes > 0 {
				return nil, fmt.Errorf("shard crash")
			}
			return sr.Files, nil
		}
	}
	nfiles, nmatch := 0, 0
	judgeOne := func(where string, fs []zoekt.FileMatch, ranked bool) {
		if sig, what := c29Finite(fs); sig != "" {
			viol("nonfinite/"+sig, where+": "+what, nil)
			return // order is meaningless with NaN
		}
		if sig, what := c29InFileOrder(fs); sig != "" {
			viol("order/"+sig+"/"+mode, where+": "+what, nil)
		}
		if ranked {
			promoted, what := c29RankedOrder(fs)
			if what != "" {
				viol("order/files/"+where, what, map[string]any{"files": c22Show(fs)})
			}
			if promoted {
				rec.Count("promotions_seen", 1)
			}
		}
	}
	// bare shards -------------------------------------------------------------
	for si, s := range w.shards {
		a, ok := run("first", bare(s, o))
		if !ok {
			return
		}
		nfiles += len(a)
		nmatch += totalMatches(a)
		judgeOne("bare", a, false)
		if b, ok := run("second", bare(s, o)); ok {
			if sig, what := c29Exact(a, b, false); sig != "" {
				viol("nondeterminism/"+sig, "same bare searcher asked twice: "+what, map[string]any{"shard": si})
			}
		}
		if b, ok := run("fresh", bare(fresh[si], o)); ok {
			if sig, what := c29Exact(a, b, false); sig != "" {
				viol("nondeterminism/"+sig, "second bare searcher on the same shard file: "+what, map[string]any{"shard": si})
			}
		}
		if b, ok := run("debug", bare(s, od)); ok {
			if sig, what := c29Exact(a, b, true); sig != "" {
				// Is it the debug flag, or do plain (or debug) runs differ among themselves?
				// Debugging is blamed only if no plain run agrees with any debug run.
				plain, debug := [][]zoekt.FileMatch{a}, [][]zoekt.FileMatch{b}
				agree := false
				for t := 0; t < 8 && !agree; t++ {
					if x, ok := run("plain again", bare(s, o)); ok {
						plain = append(plain, x)
					}
					if y, ok := run("debug again", bare(s, od)); ok {
						debug = append(debug, y)
					}
					for _, x := range plain {
						for _, y := range debug {
							if d, _ := c29Exact(x, y, true); d == "" {
								agree = true
							}
						}
					}
				}
				if agree {
					rec.Count("debug_differences_explained_by_nondeterminism", 1)
					viol("nondeterminism/"+sig, "runs with and without DebugScore agree only sometimes: "+what, map[string]any{"shard": si})
				} else {
					viol("debugscore/"+sig, "bare: "+what, map[string]any{"shard": si})
				}
			}
			c29DebugSeen(rec, b)
		}
		// the public ranking function applied to one shard's result
		r := cloneFiles(a)
		index.SortFiles(r)
		judgeOne("sortfiles", r, true)
	}
	// sharded -----------------------------------------------------------------
	if a, ok := run("sharded first", sharded(w.dirS, o)); ok {
		judgeOne("sharded-search", a, true)
		if hasTies(a) {
			rec.Count("sharded_results_with_ties", 1)
		} else {
			rec.Count("sharded_results_without_ties", 1)
		}
		if b, ok := run("sharded second", sharded(w.dirS, o)); ok {
			if sig, what := c29Ranked(a, b, false); sig != "" {
				viol("nondeterminism/"+sig, "same sharded searcher asked twice: "+what, map[string]any{"a": c22Show(a), "b": c22Show(b)})
			}
		}
		if b, ok := run("sharded fresh", sharded(freshDir, o)); ok {
			if sig, what := c29Ranked(a, b, false); sig != "" {
				viol("nondeterminism/"+sig, "second sharded searcher on the same directory: "+what, map[string]any{"a": c22Show(a), "b": c22Show(b)})
			}
		}
		if b, ok := run("sharded debug", sharded(w.dirS, od)); ok {
			if sig, what := c29Ranked(a, b, true); sig != "" {
				plain, debug := [][]zoekt.FileMatch{a}, [][]zoekt.FileMatch{b}
				agree := false
				for t := 0; t < 8 && !agree; t++ {
					if x, ok := run("plain again", sharded(w.dirS, o)); ok {
						plain = append(plain, x)
					}
					if y, ok := run("debug again", sharded(w.dirS, od)); ok {
						debug = append(debug, y)
					}
					for _, x := range plain {
						for _, y := range debug {
							if d, _ := c29Ranked(x, y, true); d == "" {
								agree = true
							}
						}
					}
				}
				if agree {
					rec.Count("debug_differences_explained_by_nondeterminism", 1)
					viol("nondeterminism/"+sig, "sharded runs with and without DebugScore agree only sometimes: "+what, nil)
				} else {
					viol("debugscore/"+sig, "sharded: "+what, map[string]any{"a": c22Show(a), "b": c22Show(b)})
				}
			}
		}
		// stream events are ranked one by one
		col := &collector{}
		if _, ok := run("stream", func() ([]zoekt.FileMatch, error) {
			return nil, w.dirS.StreamSearch(context.Background(), q, &o, col)
		}); ok {
			var all []zoekt.FileMatch
			for _, e := range col.events {
				judgeOne("stream-event", e.Files, true)
				all = append(all, e.Files...)
			}
			index.SortFiles(all)
			if sig, what := c29Ranked(a, all, false); sig != "" {
				viol("nondeterminism/"+sig, "files streamed and ranked with index.SortFiles vs Search: "+what, map[string]any{"a": c22Show(a), "b": c22Show(all)})
			}
		}
	}
	fb, mb := nfiles, nmatch
	if fb > 3 {
		fb = 3
	}
	if mb > 6 {
		mb = 6
	}
	rec.Case(fmt.Sprintf("%s|%s|%s|ctx%d|%s|f%d|m%d|%d", scoring, mode, class, o.NumContextLines, kit.Shape(q), fb, mb, len(w.paths)), nfiles >= 2, func() any {
		return map[string]any{"query": q.String(), "opts": o.String(), "class": class, "files": nfiles, "matches": nmatch, "shards": len(w.paths)}
	})
	rec.Count("queries_"+scoring, 1)
	rec.Seen("query_classes", class)
	rec.Max("max_files", int64(nfiles))
}

func c29DebugSeen(rec *kit.Rec, fs []zoekt.FileMatch) {
	for i := range fs {
		if fs[i].Debug != "" {
			rec.Count("debug_strings_seen", 1)
			return
		}
	}
}

func c29Finite(fs []zoekt.FileMatch) (sig, what string) {
	bad := func(x float64) bool { return math.IsNaN(x) || math.IsInf(x, 0) }
	for i := range fs {
		f := &fs[i]
		if bad(f.Score) {
			return "file-score", fmt.Sprintf("%s: file score %v", fname(f), f.Score)
		}
		for j := range f.LineMatches {
			if bad(f.LineMatches[j].Score) {
				return "line-score", fmt.Sprintf("%s: line match %d score %v", fname(f), j, f.LineMatches[j].Score)
			}
		}
		for j := range f.ChunkMatches {
			if bad(f.ChunkMatches[j].Score) {
				return "chunk-score", fmt.Sprintf("%s: chunk match %d score %v", fname(f), j, f.ChunkMatches[j].Score)
			}
		}
	}
	return "", ""
}

func c29InFileOrder(fs []zoekt.FileMatch) (sig, what string) {
	for i := range fs {
		f := &fs[i]
		for j := 1; j < len(f.LineMatches); j++ {
			if f.LineMatches[j].Score > f.LineMatches[j-1].Score {
				return "line-matches", fmt.Sprintf("%s: line match %d score %v after %v", fname(f), j, f.LineMatches[j].Score, f.LineMatches[j-1].Score)
			}
		}
		for j := 1; j < len(f.ChunkMatches); j++ {
			if f.ChunkMatches[j].Score > f.ChunkMatches[j-1].Score {
				return "chunk-matches", fmt.Sprintf("%s: chunk match %d score %v after %v", fname(f), j, f.ChunkMatches[j].Score, f.ChunkMatches[j-1].Score)
			}
		}
	}
	return "", ""
}

// c29RankedOrder: non-increasing scores, except one file at index 2 whose extension
// is not an extension of the first two files.
func c29RankedOrder(fs []zoekt.FileMatch) (promoted bool, what string) {
	nonInc := func(skip int) (int, bool) {
		prev := math.Inf(1)
		for i := range fs {
			if i == skip {
				continue
			}
			if fs[i].Score > prev {
				return i, false
			}
			prev = fs[i].Score
		}
		return 0, true
	}
	at, ok := nonInc(-1)
	if ok {
		return false, ""
	}
	if len(fs) < 4 {
		return false, fmt.Sprintf("score increases at index %d of %d files", at, len(fs))
	}
	if at2, ok := nonInc(2); !ok {
		return false, fmt.Sprintf("score increases at index %d (and at %d when the file at index 2 is left out)", at, at2)
	}
	e := path.Ext(fs[2].FileName)
	if e == path.Ext(fs[0].FileName) || e == path.Ext(fs[1].FileName) {
		return false, fmt.Sprintf("the file at index 2 (%s) is out of order but its extension is not novel", fs[2].FileName)
	}
	return true, ""
}

// c29Rounding: two finite scores that differ by no more than a few units in the last
// place (what a different summation order of the same terms produces).
func c29Rounding(a, b float64) bool {
	if math.IsNaN(a) || math.IsNaN(b) || math.IsInf(a, 0) || math.IsInf(b, 0) {
		return false
	}
	return math.Abs(a-b) <= 1e-12*math.Max(math.Abs(a), math.Abs(b))
}

// c29MatchDiff classifies how two files (same document) differ.
func c29MatchDiff(a, b *zoekt.FileMatch, ignoreDebug bool) (sig, what string) {
	if !feq(a.Score, b.Score) {
		sig := "file-score"
		if c29Rounding(a.Score, b.Score) {
			sig += "~rounding"
		}
		return sig, fmt.Sprintf("%s: %v vs %v (difference %g)", fname(a), a.Score, b.Score, a.Score-b.Score)
	}
	d := sameMatches(a, b, ignoreDebug)
	if d == "" {
		return "", ""
	}
	// do they differ in scores only?
	x, y := cloneFiles([]zoekt.FileMatch{*a}), cloneFiles([]zoekt.FileMatch{*b})
	for _, f := range [][]zoekt.FileMatch{x, y} {
		for j := range f[0].LineMatches {
			f[0].LineMatches[j].Score = 0
		}
		for j := range f[0].ChunkMatches {
			f[0].ChunkMatches[j].Score = 0
		}
	}
	if sameMatches(&x[0], &y[0], ignoreDebug) == "" {
		sig := "match-score~rounding"
		for j := range a.LineMatches {
			if p, q := a.LineMatches[j].Score, b.LineMatches[j].Score; !feq(p, q) && !c29Rounding(p, q) {
				sig = "match-score"
			}
		}
		for j := range a.ChunkMatches {
			if p, q := a.ChunkMatches[j].Score, b.ChunkMatches[j].Score; !feq(p, q) && !c29Rounding(p, q) {
				sig = "match-score"
			}
		}
		return sig, fname(a) + ": " + d
	}
	return "matches", fname(a) + ": " + d
}

// c29Exact: same files in the same order with the same scores and matches.
func c29Exact(a, b []zoekt.FileMatch, ignoreDebug bool) (sig, what string) {
	if len(a) != len(b) {
		return "files", fmt.Sprintf("%d files vs %d", len(a), len(b))
	}
	for i := range a {
		if fkey(&a[i]) != fkey(&b[i]) {
			return "order", fmt.Sprintf("position %d: %s vs %s", i, fname(&a[i]), fname(&b[i]))
		}
		if sig, what := c29MatchDiff(&a[i], &b[i], ignoreDebug); sig != "" {
			return sig, what
		}
	}
	return "", ""
}

// c29Ranked: the same scored files; the same order when no two files share a score.
func c29Ranked(a, b []zoekt.FileMatch, ignoreDebug bool) (sig, what string) {
	if len(a) != len(b) {
		return "files", fmt.Sprintf("%d files vs %d", len(a), len(b))
	}
	bi := indexFiles(b)
	used := map[*zoekt.FileMatch]bool{}
	for i := range a {
		var firstSig, firstWhat string
		found := false
		cands := bi[fkey(&a[i])]
		for _, c := range cands {
			if used[c] {
				continue
			}
			s, wh := c29MatchDiff(&a[i], c, ignoreDebug)
			if s == "" {
				used[c] = true
				found = true
				break
			}
			if firstSig == "" {
				firstSig, firstWhat = s, wh
			}
		}
		if !found {
			if firstSig == "" {
				return "files", fname(&a[i]) + " is missing from the other result"
			}
			return firstSig, firstWhat
		}
	}
	if hasTies(a) {
		return "", ""
	}
	for i := range a {
		if fkey(&a[i]) != fkey(&b[i]) {
			return "order", fmt.Sprintf("position %d: %s vs %s (no two files share a score)", i, fname(&a[i]), fname(&b[i]))
		}
	}
	return "", ""
}
