package lim

import (
	"context"
	"fmt"
	"path"
	"sort"
	"strings"
	"testing"
	"time"

	"github.com/sourcegraph/zoekt"
	"github.com/sourcegraph/zoekt/index"
	kit "github.com/sourcegraph/zoekt/internal/verifkit"
	"github.com/sourcegraph/zoekt/query"
)

// C22: display limits return the top of the ranked result.
//
// Oracle: the result of the same searcher, query and options without display limits
// (U) against the result with them (L):
//   - bounds: len(L) <= MaxDocDisplayCount, matches(L) <= MaxMatchDisplayCount
//     (matches = line fragments / chunk ranges, what the truncator counts);
//   - every file of L is a file of U whose matches are the leading matches of that
//     file, only the last file is cut;
//   - L holds exactly what the limits allow (order independent where one limit is set);
//   - L is exactly the cut prefix of U where both come from one deterministic ranking
//     (truncator, single/stream) or where no two files of U share a score (collecting
//     searchers: */search, */stream-flush); ties across shards are order-unstable, then
//     only the order independent parts are judged;
//   - a chunk that lost ranges still starts where it started, consists of whole lines
//     of the file and ends with the line of its last remaining range plus the context.
//
// "via": truncator (index.SortAndTruncateFiles on the result of a bare shard: bare
// shards ignore display limits by design, they apply "after collating and sorting"),
// single/* (directory searcher over one shard, deterministic order), all/* (directory
// searcher over all shards; for all/stream only order independent parts are judged).

func TestVerif_C22(t *testing.T) {
	rec := kit.Open("C22")
	defer rec.Done()
	nCorp := rec.N(30, 400) // building a world costs ~0.7 s (shard builders), a query ~100 ms
	nQ := rec.N(9, 16)
	for ci := 0; ci < nCorp; ci++ {
		multiline := ci%3 == 1
		w, err := newWorld(rec, 22_000_000+uint64(ci), worldOpt{singles: ci%5 == 4, configure: func(g *kit.Gen) {
			g.Tombstones = false
		}, mutate: func(g *kit.Gen, c *kit.Corpus) {
			if !multiline {
				return
			}
			// documents whose matches span one, two or three lines, so that one chunk
			// holds ranges of different heights next to the display cut
			words := []string{"alpha", "beta", "alpha", "gamma x", "alpha beta", "beta", ""}
			for _, r := range c.Repos {
				for k := 0; k < 2; k++ {
					var b strings.Builder
					n := 6 + g.R.IntN(20)
					for i := 0; i < n; i++ {
						b.WriteString(words[g.R.IntN(len(words))])
						if i < n-1 || g.R.IntN(2) == 0 {
							b.WriteByte('\n')
						}
					}
					d := &kit.Doc{Name: fmt.Sprintf("ml/%s-%d.txt", strings.ReplaceAll(r.Name, "/", "_"), k), Content: b.String(), Language: "Text", Branches: []string{r.Branches[0].Name}}
					r.Docs = append(r.Docs, d)
				}
			}
		}})
		if err != nil {
			rec.Violation("harness/build", err.Error(), nil)
			continue
		}
		qg := kit.NewQGen(w.g, w.c, w.ev)
		if multiline {
			for _, src := range []string{`alpha(\nbeta)?`, `beta\n(alpha\n)?`, `alpha(\nbeta(\nalpha)?)?`, `a[a-z]+\n?`, `(alpha|beta)\n(alpha|beta)`} {
				if re := qg.RegexpFromSrc(src, true); re != nil {
					re.Content = true
					o := zoekt.SearchOptions{Whole: true, ChunkMatches: true, NumContextLines: w.g.R.IntN(3)}
					rec.Count("multiline_range_queries", 1)
					c22Query(rec, w, re, o)
				}
			}
		}
		for qi := 0; qi < nQ; qi++ {
			qg.MaxDepth = qi % 3
			qg.OnlyText = qi%3 != 2
			qg.NoFileName = qi%2 == 0
			q, _ := matchingQuery(qg, w, 2, 6)
			o := zoekt.SearchOptions{Whole: true, ChunkMatches: (ci+qi)%2 == 0, NumContextLines: w.g.R.IntN(4)}
			c22Query(rec, w, q, o)
		}
		w.close()
	}
}

type c22Via struct {
	name string
	// order: how the order of L relative to U is judged. "exact": L and U come from
	// the same deterministic ranking of the same input (ties included); "ranked": a
	// collecting searcher, judged when no two files of U share a score; "": not judged.
	order string
	run   func(o zoekt.SearchOptions) ([]zoekt.FileMatch, error)
	// events (collecting searchers): the file-carrying events the collector receives,
	// grouped by shard; the order of the groups is scheduling dependent.
	events func() [][][]zoekt.FileMatch
}

func c22Query(rec *kit.Rec, w *world, q query.Q, o zoekt.SearchOptions) {
	R := w.g.R
	var vias []c22Via
	for si := range w.shards {
		s := w.shards[si]
		vias = append(vias, c22Via{name: "truncator", order: "exact", run: func(o zoekt.SearchOptions) ([]zoekt.FileMatch, error) {
			sr, err := s.Search(context.Background(), q, &o)
			if err != nil {
				return nil, err
			}
			if sr.Stats.Crashes > 0 {
				return nil, fmt.Errorf("shard crash")
			}
			return index.SortAndTruncateFiles(cloneFiles(sr.Files), &o), nil
		}})
	}
	streamers := map[string]zoekt.Streamer{"all": w.dirS}
	if d1, err := w.single(R.IntN(len(w.paths))); err == nil {
		streamers["single"] = d1
	} else {
		rec.Violation("harness/open", err.Error(), nil)
	}
	repoGroup := map[string]int{}
	for gi, grp := range w.layout.Groups {
		for _, ri := range grp {
			repoGroup[w.c.Repos[ri].Name] = gi
		}
	}
	for _, name := range []string{"single", "all"} {
		ds := streamers[name]
		if ds == nil {
			continue
		}
		stream := func(o zoekt.SearchOptions) (*collector, error) {
			col := &collector{}
			err := ds.StreamSearch(context.Background(), q, &o, col)
			for _, e := range col.events {
				if e.Stats.Crashes > 0 {
					return nil, fmt.Errorf("shard crash")
				}
			}
			return col, err
		}
		events := func() [][][]zoekt.FileMatch {
			col, err := stream(o)
			if err != nil {
				return nil
			}
			byGroup := map[int][][]zoekt.FileMatch{}
			var order []int
			for _, e := range col.events {
				if len(e.Files) == 0 {
					continue
				}
				g := repoGroup[e.Files[0].Repository]
				if _, ok := byGroup[g]; !ok {
					order = append(order, g)
				}
				byGroup[g] = append(byGroup[g], e.Files)
			}
			var out [][][]zoekt.FileMatch
			for _, g := range order {
				out = append(out, byGroup[g])
			}
			return out
		}
		streamOrder := ""
		if name == "single" {
			streamOrder = "exact"
		}
		vias = append(vias,
			c22Via{name: name + "/search", order: "ranked", events: events, run: func(o zoekt.SearchOptions) ([]zoekt.FileMatch, error) {
				sr, err := ds.Search(context.Background(), q, &o)
				if err != nil {
					return nil, err
				}
				if sr.Stats.Crashes > 0 {
					return nil, fmt.Errorf("shard crash")
				}
				return sr.Files, nil
			}},
			c22Via{name: name + "/stream", order: streamOrder, run: func(o zoekt.SearchOptions) ([]zoekt.FileMatch, error) {
				col, err := stream(o)
				if err != nil {
					return nil, err
				}
				return col.files(), nil
			}},
			c22Via{name: name + "/stream-flush", order: "ranked", events: events, run: func(o zoekt.SearchOptions) ([]zoekt.FileMatch, error) {
				o.FlushWallTime = time.Hour
				col, err := stream(o)
				if err != nil {
					return nil, err
				}
				return col.files(), nil
			}},
		)
	}
	mode := modeName(&o)
	for _, v := range vias {
		var U []zoekt.FileMatch
		var err error
		if msg, stack, p := kit.Guard(func() { U, err = v.run(o) }); p {
			rec.Violation("unlimited/"+mode+"/panic/"+kit.PanicSite(stack)+"/"+kit.MsgClass(msg), msg, witness(w, q, map[string]any{"opts": o.String(), "stack": stack, "via": v.name}))
			continue
		}
		if err != nil {
			rec.Count("unlimited_search_errors", 1)
			continue
		}
		nF, nM := len(U), totalMatches(U)
		rec.Max("max_files", int64(nF))
		rec.Max("max_matches", int64(nM))
		if nF == 0 {
			rec.Case("empty|"+v.name, false, nil)
			continue
		}
		ties := hasTies(U)
		judgeOrder := v.order == "exact" || (v.order == "ranked" && !ties)
		var blocks [][][]zoekt.FileMatch // lazily fetched
		type lim struct{ d, m int }
		var lims []lim
		for _, d := range c22Pick(R, nF, 5, 2) {
			lims = append(lims, lim{d, 0})
		}
		for _, m := range c22Pick(R, nM, 6, 3) {
			lims = append(lims, lim{0, m})
		}
		for k := 0; k < 3; k++ {
			lims = append(lims, lim{1 + R.IntN(nF+1), 1 + R.IntN(nM+1)})
		}
		for _, l := range lims {
			lo := o
			lo.MaxDocDisplayCount, lo.MaxMatchDisplayCount = l.d, l.m
			kind := "doc+match-limit"
			if l.m == 0 {
				kind = "doc-limit"
			} else if l.d == 0 {
				kind = "match-limit"
			}
			var L []zoekt.FileMatch
			var err error
			wit := func(extra map[string]any) map[string]any {
				m := map[string]any{"via": v.name, "opts": lo.String(), "unlimited": c22Show(U), "limited": c22Show(L)}
				for k, x := range extra {
					m[k] = x
				}
				return witness(w, q, m)
			}
			if msg, stack, p := kit.Guard(func() { L, err = v.run(lo) }); p {
				pk := "doc-limit" // a panic is attributed to the match limit whenever one is set
				if l.m > 0 {
					pk = "match-limit"
				}
				rec.Violation(pk+"/"+mode+"/panic/"+kit.PanicSite(stack)+"/"+kit.MsgClass(msg), v.name+": "+msg, wit(map[string]any{"stack": stack}))
				rec.Count("panics", 1)
				continue
			}
			if err != nil {
				rec.Violation(kind+"/"+mode+"/search error/"+kit.MsgClass(err.Error()), err.Error(), wit(nil))
				continue
			}
			probs, orderProbs, cutChunks := c22Judge(U, L, lo, judgeOrder)
			if len(orderProbs) > 0 && v.events != nil {
				// A collecting searcher ranks and truncates its aggregate after every
				// event. Is L what that procedure yields for some arrival order of the
				// shards' events? Then the disagreement with the prefix of the unlimited
				// ranking is the one known consequence of doing so (a file promoted or
				// cut on a partial aggregate), reported under its own signature.
				if blocks == nil {
					blocks = v.events()
				}
				if c22ExplainedByPartialAggregates(blocks, L, l.d, l.m) {
					orderProbs = []c22Problem{{"display-limit", "result of ranking and truncating event by event is not the prefix of the unlimited ranking", orderProbs[0].what}}
					rec.Count("explained_by_partial_aggregates", 1)
				}
			}
			for _, p := range append(probs, orderProbs...) {
				k := kind
				if p.kind != "" {
					k = p.kind
				}
				m := mode
				if k == "display-limit" {
					m = "collected" // decided at run time, independent of limit kind and match mode
				}
				rec.Violation(k+"/"+m+"/"+p.sig, v.name+": "+p.what, wit(nil))
			}
			rec.Count("limited_results_"+v.name, 1)
			rec.Count("cut_chunks_checked", int64(cutChunks))
			if judgeOrder {
				rec.Count("judged_as_exact_prefix", 1)
			} else {
				rec.Count("judged_order_independent_only", 1)
			}
			dropped := nF - len(L)
			cut := totalMatches(L) < c22MatchesOfKeys(U, L)
			db, mb := l.d, l.m
			if db > 4 {
				db = 4
			}
			if mb > 6 {
				mb = 6
			}
			rec.Case(fmt.Sprintf("%s|%s|ctx%d|%s|d%d|m%d|%v|%v|%v", v.name, mode, o.NumContextLines, kit.Shape(q), db, mb, dropped > 0, cut, ties),
				nF >= 2 && (dropped > 0 || cut) && len(L) > 0, func() any {
					return map[string]any{"via": v.name, "query": q.String(), "opts": lo.String(), "unlimited_files": nF, "unlimited_matches": nM, "files": len(L), "matches": totalMatches(L), "last_file_cut": cut}
				})
			if cut {
				rec.Count("results_with_a_cut_file", 1)
			}
		}
	}
}

// ---------------------------------------------------------------------------
// reference model of "rank and truncate the aggregate after every event"

type c22Item struct {
	key, name string
	score     float64
	n         int // matches (still) held
}

func c22Items(fs []zoekt.FileMatch) []c22Item {
	out := make([]c22Item, len(fs))
	for i := range fs {
		out[i] = c22Item{fkey(&fs[i]), fs[i].FileName, fs[i].Score, nMatches(&fs[i])}
	}
	return out
}

// c22Rank: descending score, then the documented promotion: the first file after the
// top two whose extension the top two do not have and whose score is at least 0.9 of
// the third's moves to index 2.
func c22Rank(ms []c22Item) {
	sort.SliceStable(ms, func(i, j int) bool { return ms[i].score > ms[j].score })
	if len(ms) <= 3 {
		return
	}
	cands := ms[2:]
	minScore := cands[0].score * 0.9
	e0, e1 := path.Ext(ms[0].name), path.Ext(ms[1].name)
	for i := range cands {
		if cands[i].score < minScore {
			continue
		}
		if e := path.Ext(cands[i].name); e == e0 || e == e1 {
			continue
		}
		for ; i > 0; i-- {
			cands[i], cands[i-1] = cands[i-1], cands[i]
		}
		return
	}
}

func c22Truncate(ms []c22Item, dl, ml int) []c22Item {
	if dl > 0 && len(ms) > dl {
		ms = ms[:dl]
	}
	if ml > 0 {
		rem := ml
		for i := range ms {
			if ms[i].n >= rem {
				ms[i].n = rem
				return ms[:i+1]
			}
			rem -= ms[i].n
		}
	}
	return ms
}

func c22ExplainedByPartialAggregates(blocks [][][]zoekt.FileMatch, L []zoekt.FileMatch, dl, ml int) bool {
	if len(blocks) == 0 || len(blocks) > 7 {
		return false
	}
	want := c22Items(L)
	perm := make([]int, len(blocks))
	for i := range perm {
		perm[i] = i
	}
	var try func(k int) bool
	try = func(k int) bool {
		if k == len(perm) {
			var agg []c22Item
			for _, b := range perm {
				for _, ev := range blocks[b] {
					agg = append(agg, c22Items(ev)...)
					c22Rank(agg)
					agg = c22Truncate(agg, dl, ml)
				}
			}
			if len(agg) != len(want) {
				return false
			}
			for i := range agg {
				if agg[i].key != want[i].key || agg[i].n != want[i].n {
					return false
				}
			}
			return true
		}
		for i := k; i < len(perm); i++ {
			perm[k], perm[i] = perm[i], perm[k]
			if try(k + 1) {
				return true
			}
			perm[k], perm[i] = perm[i], perm[k]
		}
		return false
	}
	return try(0)
}

// c22Pick: limits 1..n+1; all when small, otherwise the first lo, k random ones and
// n-1, n, n+1.
func c22Pick(R interface{ IntN(int) int }, n, lo, k int) []int {
	set := map[int]bool{}
	for i := 1; i <= n+1 && i <= lo; i++ {
		set[i] = true
	}
	for _, i := range []int{n - 1, n, n + 1} {
		if i >= 1 {
			set[i] = true
		}
	}
	for i := 0; i < k && n > lo; i++ {
		set[1+R.IntN(n+1)] = true
	}
	var out []int
	for i := range set {
		out = append(out, i)
	}
	sort.Ints(out)
	return out
}

func c22MatchesOfKeys(U, L []zoekt.FileMatch) int {
	ui := indexFiles(U)
	n := 0
	for i := range L {
		if c := ui[fkey(&L[i])]; len(c) > 0 {
			n += nMatches(c[0])
		}
	}
	return n
}

func c22Show(fs []zoekt.FileMatch) []string {
	var out []string
	for i := range fs {
		f := &fs[i]
		var b strings.Builder
		fmt.Fprintf(&b, "%s score=%v matches=%d", fname(f), f.Score, nMatches(f))
		for j := range f.ChunkMatches {
			b.WriteString(" " + showCM(&f.ChunkMatches[j]))
		}
		for j := range f.LineMatches {
			fmt.Fprintf(&b, " {line %d frags %d}", f.LineMatches[j].LineNumber, len(f.LineMatches[j].LineFragments))
		}
		out = append(out, b.String())
		if len(out) >= 30 {
			break
		}
	}
	return out
}

type c22Problem struct{ kind, sig, what string }

func c22Judge(U, L []zoekt.FileMatch, o zoekt.SearchOptions, order bool) (probs, orderProbs []c22Problem, cutChunks int) {
	add := func(kind, sig, format string, a ...any) {
		probs = append(probs, c22Problem{kind, sig, fmt.Sprintf(format, a...)})
	}
	addOrder := func(sig, format string, a ...any) {
		orderProbs = append(orderProbs, c22Problem{"", sig, fmt.Sprintf(format, a...)})
	}
	dl, ml := o.MaxDocDisplayCount, o.MaxMatchDisplayCount
	// (1) bounds
	if dl > 0 && len(L) > dl {
		add("doc-limit", "more files than the limit", "%d files, MaxDocDisplayCount=%d", len(L), dl)
	}
	if ml > 0 && totalMatches(L) > ml {
		add("match-limit", "more matches than the limit", "%d matches, MaxMatchDisplayCount=%d", totalMatches(L), ml)
	}
	// (2) every file is a file of U with its leading matches; only the last is cut
	ui := indexFiles(U)
	used := map[*zoekt.FileMatch]bool{}
	for i := range L {
		l := &L[i]
		var u *zoekt.FileMatch
		for _, c := range ui[fkey(l)] {
			if !used[c] {
				u = c
				break
			}
		}
		if u == nil {
			add("", "file is not a file of the unlimited result", "%s", fname(l))
			continue
		}
		used[u] = true
		if l.Score != u.Score {
			add("", "file score differs from the unlimited result", "%s: %v vs %v", fname(l), l.Score, u.Score)
		}
		cut, what := c22FilePrefix(l, u, o.ChunkMatches)
		if what != "" {
			sig := "matches are not the leading matches of the file"
			if strings.HasPrefix(what, "no matches") {
				sig = "file returned with no matches left"
			}
			add("", sig, "%s: %s", fname(l), what)
			continue
		}
		if cut {
			if ml == 0 {
				add("doc-limit", "file cut without a match limit", "%s", fname(l))
			} else if i != len(L)-1 && order {
				addOrder("a file other than the last is cut", "%s at %d of %d", fname(l), i, len(L))
			}
			// chunk invariants of the chunk that lost ranges
			if o.ChunkMatches && len(l.ChunkMatches) > 0 {
				j := len(l.ChunkMatches) - 1
				if len(l.ChunkMatches[j].Ranges) < len(u.ChunkMatches[j].Ranges) {
					cutChunks++
					if sig, what := c22ChunkProblem(string(l.Content), &l.ChunkMatches[j], &u.ChunkMatches[j], o.NumContextLines); sig != "" {
						add("match-limit", sig, "%s: %s", fname(l), what)
					}
				}
			}
		}
	}
	// (3) exactly what the limits allow (order independent)
	switch {
	case dl > 0 && ml == 0:
		if want := min(dl, len(U)); len(L) < want {
			add("", "fewer files than the limit allows", "%d files, limit %d, unlimited %d", len(L), dl, len(U))
		}
	case dl == 0 && ml > 0:
		if want := min(ml, totalMatches(U)); totalMatches(L) < want {
			add("", "fewer matches than the limit allows", "%d matches, limit %d, unlimited %d", totalMatches(L), ml, totalMatches(U))
		}
	}
	if !order {
		return
	}
	// (4) L is the cut prefix of U
	wantN, per := c22Expect(U, dl, ml)
	if len(L) != wantN {
		addOrder("not the cut prefix of the unlimited ranking", "%d files, the prefix has %d", len(L), wantN)
		return
	}
	for i := range L {
		if fkey(&L[i]) != fkey(&U[i]) {
			addOrder("not the leading files of the unlimited ranking", "position %d holds %s, the unlimited ranking has %s", i, fname(&L[i]), fname(&U[i]))
			return
		}
		if nMatches(&L[i]) != per[i] {
			addOrder("not the cut prefix of the unlimited ranking", "%s keeps %d matches, the prefix keeps %d", fname(&L[i]), nMatches(&L[i]), per[i])
			return
		}
	}
	return
}

// c22Expect is the reference truncation of a ranked list: number of files and
// matches kept per file.
func c22Expect(U []zoekt.FileMatch, dl, ml int) (int, []int) {
	n := len(U)
	if dl > 0 && n > dl {
		n = dl
	}
	per := make([]int, n)
	for i := 0; i < n; i++ {
		per[i] = nMatches(&U[i])
	}
	if ml > 0 {
		rem := ml
		for i := 0; i < n; i++ {
			if per[i] >= rem {
				per[i] = rem
				return i + 1, per[:i+1]
			}
			rem -= per[i]
		}
	}
	return n, per
}

// c22FilePrefix: the matches of l are the leading matches of u.
func c22FilePrefix(l, u *zoekt.FileMatch, chunks bool) (cut bool, what string) {
	if !chunks {
		if len(l.LineMatches) == 0 && len(u.LineMatches) > 0 {
			return false, "no matches"
		}
		if len(l.LineMatches) > len(u.LineMatches) {
			return false, fmt.Sprintf("%d line matches, unlimited has %d", len(l.LineMatches), len(u.LineMatches))
		}
		for i := range l.LineMatches {
			x, y := l.LineMatches[i], u.LineMatches[i]
			if i == len(l.LineMatches)-1 && len(x.LineFragments) < len(y.LineFragments) {
				if len(x.LineFragments) == 0 {
					return false, "no matches left in the last line match"
				}
				y.LineFragments = y.LineFragments[:len(x.LineFragments)]
				cut = true
			}
			if !lineEq(&x, &y) {
				return false, fmt.Sprintf("line match %d: %s vs %s", i, showLM(&x), showLM(&u.LineMatches[i]))
			}
		}
		return cut || len(l.LineMatches) < len(u.LineMatches), ""
	}
	if len(l.ChunkMatches) == 0 && len(u.ChunkMatches) > 0 {
		return false, "no matches"
	}
	if len(l.ChunkMatches) > len(u.ChunkMatches) {
		return false, fmt.Sprintf("%d chunk matches, unlimited has %d", len(l.ChunkMatches), len(u.ChunkMatches))
	}
	for i := range l.ChunkMatches {
		x, y := l.ChunkMatches[i], u.ChunkMatches[i]
		if i == len(l.ChunkMatches)-1 && len(x.Ranges) < len(y.Ranges) {
			if len(x.Ranges) == 0 {
				return false, "no matches left in the last chunk"
			}
			n := len(x.Ranges)
			y.Ranges = y.Ranges[:n]
			switch {
			case y.SymbolInfo == nil:
			case len(y.SymbolInfo) >= n:
				if len(x.SymbolInfo) != n {
					return false, fmt.Sprintf("chunk %d: %d ranges but %d symbol infos", i, n, len(x.SymbolInfo))
				}
				y.SymbolInfo = y.SymbolInfo[:n]
			default:
				// the uncut chunk already has fewer symbol infos than ranges (chunks
				// mixing symbol and plain ranges): there is no leading part to compare
				x.SymbolInfo, y.SymbolInfo = nil, nil
			}
			// content is judged by c22ChunkProblem; BestLineMatch may point at a removed line
			y.Content = x.Content
			y.BestLineMatch = x.BestLineMatch
			cut = true
		}
		if !chunkEq(&x, &y) {
			return false, fmt.Sprintf("chunk %d: %s vs %s", i, showCM(&x), showCM(&u.ChunkMatches[i]))
		}
	}
	return cut || len(l.ChunkMatches) < len(u.ChunkMatches), ""
}

// c22KnownCut is the content that limitChunkMatches of the unchanged tree leaves of
// the uncut chunk orig when limit ranges remain: it drops, counted from the END of the
// content, as many newline-separated lines as the End line numbers of the old and the
// new last range differ (the rule behind the three recorded C22 chunk findings).
func c22KnownCut(orig *zoekt.ChunkMatch, limit int) ([]byte, bool) {
	if limit <= 0 || limit > len(orig.Ranges) {
		return nil, false
	}
	n := int(orig.Ranges[len(orig.Ranges)-1].End.LineNumber) - int(orig.Ranges[limit-1].End.LineNumber)
	c := orig.Content
	if n <= 0 {
		return c, true
	}
	for b := len(c) - 1; b >= 0; b-- {
		if c[b] == '\n' {
			n--
		}
		if n == 0 {
			return c[:b], true
		}
	}
	return nil, false
}

// c22Attribute keeps a chunk-cut signature that is a recorded finding only when the
// cut content is exactly what the recorded rule produces; any other wrong cut gets a
// signature of its own, so that the recorded findings cannot hide a different defect
// of the truncation.
func c22Attribute(sig string, cm, orig *zoekt.ChunkMatch) string {
	if want, ok := c22KnownCut(orig, len(cm.Ranges)); ok && string(want) == string(cm.Content) {
		return sig
	}
	return "cut chunk is neither the specified lines nor what the line-difference rule of limitChunkMatches leaves (" + sig + ")"
}

// c22ChunkProblem judges a chunk that lost ranges against the file content.
func c22ChunkProblem(text string, cm, orig *zoekt.ChunkMatch, ctx int) (sig, what string) {
	sig, what = c22ChunkProblemRaw(text, cm, orig, ctx)
	switch sig {
	case "cut chunk does not contain its remaining ranges",
		"cut chunk keeps one line too many (uncut chunk ends with a newline)",
		"cut chunk lacks context lines that exist after its last remaining range":
		sig = c22Attribute(sig, cm, orig)
	}
	return sig, what
}

func c22ChunkProblemRaw(text string, cm, orig *zoekt.ChunkMatch, ctx int) (sig, what string) {
	if cm.FileName {
		return "", ""
	}
	s := int(cm.ContentStart.ByteOffset)
	e := s + len(cm.Content)
	if e > len(text) || string(cm.Content) != text[s:e] {
		return "cut chunk is not the file content at its start", fmt.Sprintf("chunk [%d,%d) %q", s, e, cm.Content)
	}
	lineOf := func(off int) int { return 1 + strings.Count(text[:off], "\n") }
	startOf := func(line int) int { // byte offset of 1-based line, clamped
		if line <= 1 {
			return 0
		}
		off := 0
		for n := 1; n < line; n++ {
			i := strings.IndexByte(text[off:], '\n')
			if i < 0 {
				return len(text)
			}
			off += i + 1
		}
		return off
	}
	first := lineOf(int(cm.Ranges[0].Start.ByteOffset))
	lastEnd := 0
	for _, r := range cm.Ranges {
		if int(r.Start.ByteOffset) < s || int(r.End.ByteOffset) > e {
			return "cut chunk does not contain its remaining ranges", fmt.Sprintf("range [%d,%d) chunk [%d,%d)", r.Start.ByteOffset, r.End.ByteOffset, s, e)
		}
		a, b := int(r.Start.ByteOffset), int(r.End.ByteOffset)
		p := a
		if b-1 > a {
			p = b - 1
		}
		if l := lineOf(p); l > lastEnd {
			lastEnd = l
		}
	}
	if want := startOf(first - ctx); s != want {
		return "cut chunk does not start with the context of its first range", fmt.Sprintf("starts at %d, want %d", s, want)
	}
	wantE := startOf(lastEnd + ctx + 1)
	okE := e == wantE || (e == wantE-1 && wantE >= 1 && text[wantE-1] == '\n')
	if okE {
		return "", ""
	}
	origNL := len(orig.Content) > 0 && orig.Content[len(orig.Content)-1] == '\n'
	atBoundary := e == len(text) || (e > 0 && text[e-1] == '\n') || text[e] == '\n'
	desc := fmt.Sprintf("chunk is lines %d..%d %q, remaining ranges end on line %d, context %d: want lines up to %d; uncut chunk %q", lineOf(s), lineOf(max(s, e-1)), cm.Content, lastEnd, ctx, lastEnd+ctx, orig.Content)
	switch {
	case !atBoundary:
		return "cut chunk does not consist of whole lines", desc
	case e > wantE:
		extra := strings.Count(text[wantE:e], "\n")
		if e == len(text) || text[e-1] != '\n' {
			extra++
		}
		if extra == 1 && origNL {
			return "cut chunk keeps one line too many (uncut chunk ends with a newline)", desc
		}
		return "cut chunk keeps lines beyond its remaining ranges and context", desc
	default:
		return "cut chunk lacks context lines that exist after its last remaining range", desc
	}
}
