package index

// C37: symbol ranges derived from ctags are always valid.
//
// White-box runtime monitor: random contents x random go-ctags entry lists are fed to
// the real tagsToSections.Convert (one converter reused across cases, as parseSymbols
// does); the converted document is handed to the real ShardBuilder.Add, the shard is
// written, opened through the production loader and asked sym: queries.
//
// What the statement obliges (and nothing more is judged):
//   - Convert never fails / panics, whatever the entries are;
//   - the ranges it returns are sorted, pairwise non-overlapping, inside the file;
//   - every returned range belongs to one input entry (same name/kind/parent), lies on
//     that entry's line and its bytes are exactly the entry's name (which occurrence of
//     the name on the line is chosen is not judged);
//   - entries are only dropped when they cannot be placed: line out of range, name not on
//     the line, or an occurrence of the name on the line overlaps a kept range (empty
//     names may be kept or dropped);
//   - ShardBuilder.Add accepts the converted document;
//   - end to end: sym:.* returns exactly the kept non-empty ranges of every document and
//     sym:<name> (case sensitive) returns the kept ranges carrying that name, with the
//     entry's kind / parent metadata.

import (
	"context"
	"fmt"
	"math/rand/v2"
	"os"
	"path/filepath"
	"regexp/syntax"
	"runtime/debug"
	"sort"
	"strconv"
	"strings"
	"sync"
	"testing"
	"unicode/utf8"

	"github.com/sourcegraph/zoekt"
	"github.com/sourcegraph/zoekt/internal/ctags"
	kit "github.com/sourcegraph/zoekt/internal/verifkit"
	"github.com/sourcegraph/zoekt/query"
)

// c37Ent is the JSON-able form of one ctags entry (witnesses).
type c37Ent struct {
	Name       string
	Line       int
	Kind       string
	Parent     string
	ParentKind string
}

type c37Doc struct {
	Content string
	Ents    []c37Ent
	// filled by c37Convert
	secs []DocumentSection
	meta []*zoekt.Symbol
}

func (d *c37Doc) entries() []*ctags.Entry {
	out := make([]*ctags.Entry, 0, len(d.Ents))
	for _, e := range d.Ents {
		out = append(out, &ctags.Entry{Name: e.Name, Line: e.Line, Kind: e.Kind, Parent: e.Parent, ParentKind: e.ParentKind, Path: "f", Language: "Go"})
	}
	return out
}

type c37Line struct{ s, e int } // content[s:e] is the line without its '\n'

// c37Lines is the harness's own notion of the lines of a file: the text between
// newlines; a trailing newline does not open another line.
func c37Lines(content string) []c37Line {
	var out []c37Line
	s := 0
	for i := 0; i < len(content); i++ {
		if content[i] == '\n' {
			out = append(out, c37Line{s, i})
			s = i + 1
		}
	}
	if s < len(content) {
		out = append(out, c37Line{s, len(content)})
	}
	return out
}

// c37Feat are the input classes present in one case (bit mask).
const (
	c37BadLine = 1 << iota
	c37Absent
	c37Dup
	c37Empty
	c37Nested
	c37Multibyte
	c37LineEnd
	c37FileEnd
	c37Repeated // the name occurs more than once on its line
	c37CRLF
	c37NoTrailingNL
	c37InvalidUTF8
)

var c37FeatNames = []string{"badline", "absent", "dup", "empty", "nested", "multibyte", "line-end", "file-end", "repeated", "crlf", "no-trailing-nl", "invalid-utf8-content"}

func c37FeatString(m int) string {
	var l []string
	for i, n := range c37FeatNames {
		if m&(1<<i) != 0 {
			l = append(l, n)
		}
	}
	return strings.Join(l, ",")
}

var c37Kinds = []string{"function", "class", "variable", "", "method"}
var c37Vocab = []string{"abc", "ab", "a", "b", "bca", "é", "aé", "д", "xx", "a.b", "_", "Abc", "x1", "😀", "ab ", " "}

func c37GenContent(r *rand.Rand, g *kit.Gen) string {
	switch r.IntN(12) {
	case 0:
		return g.LongText()
	case 1:
		return strings.ReplaceAll(g.Text(r.IntN(100)), "\n", "\r\n")
	case 2:
		return g.Text(r.IntN(6))
	case 3, 4, 5:
		// many short lines, empty lines, with or without final newline
		var b strings.Builder
		n := 1 + r.IntN(8)
		for i := 0; i < n; i++ {
			if r.IntN(5) > 0 {
				b.WriteString(strings.ReplaceAll(g.Text(r.IntN(14)), "\n", ""))
			}
			if i < n-1 || r.IntN(2) == 0 {
				if r.IntN(8) == 0 {
					b.WriteByte('\r')
				}
				b.WriteByte('\n')
			}
		}
		return b.String()
	case 6:
		return []string{"", "\n", "\n\n", "a", "a\n", "\na", "é", "ab\r\n"}[r.IntN(8)]
	case 7:
		// a few invalid UTF-8 bytes in otherwise ordinary text
		b := []byte(g.Text(10 + r.IntN(60)))
		for k := 0; k < 1+r.IntN(3); k++ {
			b[r.IntN(len(b))] = []byte{0xff, 0xc3, 0xa9, 0xe2, 0x80}[r.IntN(5)]
		}
		return strings.ReplaceAll(string(b), "\x00", "a")
	default:
		return g.Text(r.IntN(120))
	}
}

// c37RuneSub picks a substring of s on rune boundaries.
func c37RuneSub(r *rand.Rand, s string, mode int) string {
	var b []int
	for i := range s {
		b = append(b, i)
	}
	b = append(b, len(s))
	if len(b) < 2 {
		return ""
	}
	switch mode {
	case 1: // whole
		return s
	case 2: // suffix (line end)
		i := r.IntN(len(b) - 1)
		if len(b)-1-i > 6 {
			i = len(b) - 1 - (1 + r.IntN(6))
		}
		return s[b[i]:]
	}
	i := r.IntN(len(b) - 1)
	j := i + 1 + r.IntN(min(5, len(b)-1-i))
	return s[b[i]:b[j]]
}

func c37GenEntries(r *rand.Rand, content string) []c37Ent {
	lines := c37Lines(content)
	n := r.IntN(8)
	switch r.IntN(6) {
	case 0:
		n = 8 + r.IntN(40)
	case 1:
		n = 1 + r.IntN(3)
	}
	var out []c37Ent
	meta := func(e c37Ent) c37Ent {
		e.Kind = c37Kinds[r.IntN(len(c37Kinds))]
		e.Parent = []string{"", "P", "abc"}[r.IntN(3)]
		e.ParentKind = []string{"", "class"}[r.IntN(2)]
		return e
	}
	validLine := func() (int, string) {
		if len(lines) == 0 {
			return 1, ""
		}
		// prefer a few lines so that entries collide
		li := r.IntN(len(lines))
		if len(out) > 0 && r.IntN(2) == 0 {
			if p := out[r.IntN(len(out))].Line; p >= 1 && p <= len(lines) {
				li = p - 1
			}
		}
		return li + 1, content[lines[li].s:lines[li].e]
	}
	for len(out) < n {
		ln, text := validLine()
		var e c37Ent
		switch r.IntN(20) {
		case 0:
			bad := []int{0, -1, -r.IntN(5), len(lines) + 1, len(lines) + 1 + r.IntN(5), 1 << 30, -(1 << 31)}
			e = c37Ent{Name: c37RuneSub(r, text, 0), Line: bad[r.IntN(len(bad))]}
			if e.Name == "" {
				e.Name = "ab"
			}
		case 1:
			e = c37Ent{Name: "", Line: ln}
		case 2, 3:
			e = c37Ent{Name: c37Vocab[r.IntN(len(c37Vocab))], Line: ln}
		case 4, 5:
			if len(out) == 0 {
				continue
			}
			e = out[r.IntN(len(out))]
			if r.IntN(2) == 0 {
				out = append(out, e) // exact duplicate, metadata included
				continue
			}
		case 6, 7:
			// nested / overlapping with an earlier entry: extend or shorten its name
			if len(out) == 0 {
				continue
			}
			p := out[r.IntN(len(out))]
			if p.Line < 1 || p.Line > len(lines) || p.Name == "" {
				continue
			}
			pt := content[lines[p.Line-1].s:lines[p.Line-1].e]
			at := strings.Index(pt, p.Name)
			if at < 0 {
				continue
			}
			switch r.IntN(4) {
			case 0: // longer to the right
				rest := pt[at+len(p.Name):]
				_, sz := utf8.DecodeRuneInString(rest)
				if r.IntN(2) == 0 && sz < len(rest) {
					_, sz2 := utf8.DecodeRuneInString(rest[sz:])
					sz += sz2
				}
				e = c37Ent{Name: p.Name + rest[:sz], Line: p.Line}
			case 1: // longer to the left
				_, sz := utf8.DecodeLastRuneInString(pt[:at])
				e = c37Ent{Name: pt[at-sz : at+len(p.Name)], Line: p.Line}
			case 2: // proper prefix / suffix / inner part
				e = c37Ent{Name: c37RuneSub(r, p.Name, 0), Line: p.Line}
			default: // straddles the end of p
				_, szl := utf8.DecodeLastRuneInString(p.Name)
				rest := pt[at+len(p.Name):]
				_, szr := utf8.DecodeRuneInString(rest)
				e = c37Ent{Name: p.Name[len(p.Name)-szl:] + rest[:szr], Line: p.Line}
			}
		case 8:
			e = c37Ent{Name: c37RuneSub(r, text, 1), Line: ln}
		case 9, 10:
			e = c37Ent{Name: c37RuneSub(r, text, 2), Line: ln}
		case 11:
			// a name taken from another line than the claimed one
			_, other := validLine()
			e = c37Ent{Name: c37RuneSub(r, other, 0), Line: ln}
		default:
			e = c37Ent{Name: c37RuneSub(r, text, 0), Line: ln}
		}
		if strings.ContainsAny(e.Name, "\n") || !utf8.ValidString(e.Name) {
			// ctags names are JSON strings on one line: valid UTF-8, no newline
			continue
		}
		out = append(out, meta(e))
	}
	switch r.IntN(3) {
	case 0:
		sort.SliceStable(out, func(i, j int) bool { return out[i].Line < out[j].Line })
	case 1:
		r.Shuffle(len(out), func(i, j int) { out[i], out[j] = out[j], out[i] })
	}
	return out
}

func c37Features(d *c37Doc) int {
	lines := c37Lines(d.Content)
	f := 0
	if strings.Contains(d.Content, "\r\n") {
		f |= c37CRLF
	}
	if d.Content != "" && !strings.HasSuffix(d.Content, "\n") {
		f |= c37NoTrailingNL
	}
	if !utf8.ValidString(d.Content) {
		f |= c37InvalidUTF8
	}
	type k struct {
		n string
		l int
	}
	seen := map[k]bool{}
	perLine := map[int][]string{}
	for _, e := range d.Ents {
		if e.Line < 1 || e.Line > len(lines) {
			f |= c37BadLine
			continue
		}
		if e.Name == "" {
			f |= c37Empty
			continue
		}
		t := d.Content[lines[e.Line-1].s:lines[e.Line-1].e]
		at := strings.Index(t, e.Name)
		if at < 0 {
			f |= c37Absent
			continue
		}
		if seen[k{e.Name, e.Line}] {
			f |= c37Dup
		}
		seen[k{e.Name, e.Line}] = true
		if len(e.Name) != utf8.RuneCountInString(e.Name) {
			f |= c37Multibyte
		}
		if at+len(e.Name) == len(t) {
			f |= c37LineEnd
			if lines[e.Line-1].e == len(d.Content) {
				f |= c37FileEnd
			}
		}
		if strings.Count(t, e.Name) > 1 {
			f |= c37Repeated
		}
		for _, o := range perLine[e.Line] {
			if o != e.Name && (strings.Contains(o, e.Name) || strings.Contains(e.Name, o)) {
				f |= c37Nested
			}
		}
		perLine[e.Line] = append(perLine[e.Line], e.Name)
	}
	return f
}

type c37Outcome struct {
	sig, what string
	kept      int
	dropBad   int
	dropAbs   int
	dropOvl   int
	dropEmpty int
	emptyKept int
}

func c37Overlap(aS, aE, bS, bE int) bool { return aS < bE && bS < aE }

// c37Convert runs the real conversion on d and judges its output; the converted
// sections are left in d.secs / d.meta.
func c37Convert(conv *tagsToSections, d *c37Doc) (o c37Outcome) {
	content := []byte(d.Content)
	ents := d.entries()
	var secs []DocumentSection
	var meta []*zoekt.Symbol
	var err error
	if msg, stack, p := kit.Guard(func() { secs, meta, err = conv.Convert(content, ents) }); p {
		o.sig, o.what = "convert/panic/"+kit.PanicSite(stack)+"/"+kit.MsgClass(msg), msg+"\n"+stack
		return
	}
	if err != nil {
		o.sig, o.what = "convert/error/"+kit.MsgClass(err.Error()), err.Error()
		return
	}
	if string(content) != d.Content {
		o.sig, o.what = "convert/modified-content", "Convert changed the content buffer"
		return
	}
	d.secs, d.meta = secs, meta
	if len(secs) != len(meta) {
		o.sig, o.what = "convert/len-mismatch", fmt.Sprintf("%d sections, %d metadata", len(secs), len(meta))
		return
	}
	lines := c37Lines(d.Content)
	in := map[c37Ent]int{}
	for _, e := range d.Ents {
		in[e]++
	}
	outc := map[c37Ent]int{}
	for i, s := range secs {
		if s.Start > s.End || int(s.End) > len(content) {
			o.sig, o.what = "convert/out-of-bounds", fmt.Sprintf("section %d = [%d,%d) in a file of %d bytes", i, s.Start, s.End, len(content))
			return
		}
		if i > 0 && secs[i-1].End > s.Start {
			o.sig = "convert/overlap"
			if secs[i-1].Start > s.Start {
				o.sig = "convert/unsorted"
			}
			o.what = fmt.Sprintf("sections %d=[%d,%d) and %d=[%d,%d)", i-1, secs[i-1].Start, secs[i-1].End, i, s.Start, s.End)
			return
		}
		if i > 0 && secs[i-1].Start > s.Start {
			o.sig, o.what = "convert/unsorted", fmt.Sprintf("sections %d=[%d,%d) and %d=[%d,%d)", i-1, secs[i-1].Start, secs[i-1].End, i, s.Start, s.End)
			return
		}
		m := meta[i]
		if m == nil {
			o.sig, o.what = "convert/nil-metadata", fmt.Sprintf("section %d has nil metadata", i)
			return
		}
		got := d.Content[s.Start:s.End]
		if got != m.Sym {
			o.sig, o.what = "convert/range-not-name", fmt.Sprintf("section %d = [%d,%d) covers %q, the symbol is %q", i, s.Start, s.End, got, m.Sym)
			return
		}
		ln := 1 + strings.Count(d.Content[:s.Start], "\n")
		if ln > len(lines) || int(s.End) > lines[ln-1].e {
			o.sig, o.what = "convert/crosses-line", fmt.Sprintf("section %d = [%d,%d) %q is not inside one line", i, s.Start, s.End, got)
			return
		}
		k := c37Ent{Name: m.Sym, Line: ln, Kind: m.Kind, Parent: m.Parent, ParentKind: m.ParentKind}
		outc[k]++
		if outc[k] > in[k] {
			o.sig = "convert/no-such-entry"
			o.what = fmt.Sprintf("section %d = [%d,%d) %q on line %d (kind %q parent %q/%q) does not belong to an input entry (wrong line, wrong metadata or emitted twice)", i, s.Start, s.End, got, ln, m.Kind, m.Parent, m.ParentKind)
			return
		}
		if s.Start == s.End {
			o.emptyKept++
		}
	}
	o.kept = len(secs)
	// every drop needs a reason
	for e, n := range in {
		dropped := n - outc[e]
		if dropped == 0 {
			continue
		}
		switch {
		case e.Line < 1 || e.Line > len(lines):
			o.dropBad += dropped
			continue
		case e.Name == "":
			o.dropEmpty += dropped
			continue
		}
		l := lines[e.Line-1]
		t := d.Content[l.s:l.e]
		if !strings.Contains(t, e.Name) {
			o.dropAbs += dropped
			continue
		}
		justified := false
		for at := 0; at+len(e.Name) <= len(t) && !justified; at++ {
			if !strings.HasPrefix(t[at:], e.Name) {
				continue
			}
			for _, s := range secs {
				if s.Start != s.End && c37Overlap(l.s+at, l.s+at+len(e.Name), int(s.Start), int(s.End)) {
					justified = true
					break
				}
			}
		}
		if !justified {
			o.sig = "convert/dropped-placeable"
			o.what = fmt.Sprintf("entry %+v was dropped although line %d exists, contains the name and no occurrence of it overlaps a kept range", e, e.Line)
			return
		}
		o.dropOvl += dropped
	}
	return
}

// c37Pool hands out ShardBuilders the way index.Builder does in production: the two
// postingsBuilders are kept, reset() and reused for the next shard (allocating them
// afresh costs ~20 MB per builder).
type c37Pool struct{ content, name *postingsBuilder }

func (p *c37Pool) builder() (*ShardBuilder, error) {
	if p.content == nil {
		p.content = newPostingsBuilder(defaultShardMax)
		p.name = newPostingsBuilder(defaultShardMax)
	} else {
		p.content.reset()
		p.name.reset()
	}
	b := newShardBuilderWithPostings(p.content, p.name)
	if err := b.setRepository(&zoekt.Repository{Name: "c37", ID: 37, Branches: []zoekt.RepositoryBranch{{Name: "main", Version: "v"}}}); err != nil {
		return nil, err
	}
	return b, nil
}

// c37W is one worker: its own builders, converter and scratch directory.
type c37W struct {
	shardPool c37Pool
	dir       string
	rec       *kit.Rec
}

func c37AddTo(b *ShardBuilder, name string, d *c37Doc) (sig, what string) {
	doc := Document{
		Name:            name,
		Content:         []byte(d.Content),
		Branches:        []string{"main"},
		Language:        "Go",
		Symbols:         append([]DocumentSection(nil), d.secs...),
		SymbolsMetaData: append([]*zoekt.Symbol(nil), d.meta...),
	}
	var err error
	if msg, stack, p := kit.Guard(func() { err = b.Add(doc) }); p {
		return "add/panic/" + kit.PanicSite(stack) + "/" + kit.MsgClass(msg), msg + "\n" + stack
	}
	if err != nil {
		return "add/error/" + kit.MsgClass(err.Error()), "ShardBuilder.Add rejected the converted document: " + err.Error()
	}
	return "", ""
}

// c37Shrink removes entries (then lines of content is left alone) while the same
// signature is produced.
func c37Shrink(d *c37Doc, sig string, fails func(*c37Doc) string) *c37Doc {
	cur := &c37Doc{Content: d.Content, Ents: append([]c37Ent(nil), d.Ents...)}
	for changed := true; changed; {
		changed = false
		for i := 0; i < len(cur.Ents); i++ {
			c := &c37Doc{Content: cur.Content}
			c.Ents = append(c.Ents, cur.Ents[:i]...)
			c.Ents = append(c.Ents, cur.Ents[i+1:]...)
			if fails(c) == sig {
				cur = c
				changed = true
				i--
			}
		}
	}
	return cur
}

type c37IV struct{ S, E uint32 }

// c37E2E writes docs (already converted and individually accepted) into one shard,
// opens it through the production loader and checks the sym: queries. idx is the
// document the complaint is about (-1: the shard as a whole).
func (w *c37W) e2e(docs []*c37Doc) (sig, what string, idx int) {
	dir, rec := w.dir, w.rec
	b, err := w.shardPool.builder()
	if err != nil {
		return "harness/new-builder", err.Error(), -1
	}
	for i, d := range docs {
		if s, w := c37AddTo(b, fmt.Sprintf("d%03d.go", i), d); s != "" {
			return s, w, i
		}
		rec.Count("add_accepted", 1)
	}
	p := filepath.Join(dir, "c37_v16.00000.zoekt")
	defer os.Remove(p)
	f, err := os.Create(p)
	if err != nil {
		return "harness/create", err.Error(), -1
	}
	var werr error
	msg, stack, pan := kit.Guard(func() { werr = b.Write(f) })
	f.Close()
	if pan {
		return "e2e/write-panic/" + kit.PanicSite(stack) + "/" + kit.MsgClass(msg), msg + "\n" + stack, -1
	}
	if werr != nil {
		return "e2e/write-error/" + kit.MsgClass(werr.Error()), werr.Error(), -1
	}
	rf, err := os.Open(p)
	if err != nil {
		return "harness/open", err.Error(), -1
	}
	ifile, err := NewIndexFile(rf)
	if err != nil {
		rf.Close()
		return "e2e/open-error/" + kit.MsgClass(err.Error()), err.Error(), -1
	}
	s, err := NewSearcher(ifile)
	if err != nil {
		ifile.Close()
		return "e2e/open-error/" + kit.MsgClass(err.Error()), err.Error(), -1
	}
	defer s.Close()

	search := func(q query.Q) (map[string]map[c37IV][]*zoekt.Symbol, string, string) {
		var sr *zoekt.SearchResult
		var err error
		if msg, stack, p := kit.Guard(func() {
			sr, err = s.Search(context.Background(), q, &zoekt.SearchOptions{ChunkMatches: true})
		}); p {
			return nil, "e2e/search-panic/" + kit.PanicSite(stack) + "/" + kit.MsgClass(msg), msg + "\n" + stack
		}
		if err != nil {
			return nil, "e2e/search-error/" + kit.MsgClass(err.Error()), q.String() + ": " + err.Error()
		}
		if sr.Stats.Crashes > 0 {
			return nil, "e2e/search-crash", q.String() + ": Stats.Crashes > 0"
		}
		out := map[string]map[c37IV][]*zoekt.Symbol{}
		for _, fm := range sr.Files {
			m := out[fm.FileName]
			if m == nil {
				m = map[c37IV][]*zoekt.Symbol{}
				out[fm.FileName] = m
			}
			for _, cm := range fm.ChunkMatches {
				if cm.FileName {
					continue
				}
				for i, r := range cm.Ranges {
					var si *zoekt.Symbol
					if i < len(cm.SymbolInfo) {
						si = cm.SymbolInfo[i]
					}
					iv := c37IV{r.Start.ByteOffset, r.End.ByteOffset}
					m[iv] = append(m[iv], si)
				}
			}
		}
		return out, "", ""
	}

	// (1) sym:.* must list exactly the kept non-empty sections of every document.
	all, err := syntax.Parse(".*", syntax.Perl)
	if err != nil {
		return "harness/regexp", err.Error(), -1
	}
	got, sg, wh := search(&query.Symbol{Expr: &query.Regexp{Regexp: all, Content: true, CaseSensitive: true}})
	if sg != "" {
		return sg, wh, -1
	}
	rec.Count("e2e_sym_queries", 1)
	names := map[string]bool{}
	for i, d := range docs {
		fn := fmt.Sprintf("d%03d.go", i)
		want := map[c37IV]*zoekt.Symbol{}
		for j, sc := range d.secs {
			if sc.Start == sc.End {
				continue
			}
			want[c37IV{sc.Start, sc.End}] = d.meta[j]
			names[d.meta[j].Sym] = true
		}
		g := got[fn]
		for iv, m := range want {
			sis, ok := g[iv]
			if !ok {
				return "e2e/sym-all/missing", fmt.Sprintf("sym:.* does not return section [%d,%d) %q of %s (returned: %v)", iv.S, iv.E, d.Content[iv.S:iv.E], fn, c37Keys(g)), i
			}
			rec.Count("e2e_ranges_checked", 1)
			if sg, wh := c37CheckInfo(sis, m, iv); sg != "" {
				return "e2e/sym-all/" + sg, fn + ": " + wh, i
			}
		}
		for iv := range g {
			if _, ok := want[iv]; !ok && iv.S != iv.E {
				return "e2e/sym-all/extra", fmt.Sprintf("sym:.* returns range [%d,%d) of %s which is not a converted section (sections: %v)", iv.S, iv.E, fn, d.secs), i
			}
		}
	}
	// (2) sym:<name>, case sensitive, returns every kept section carrying that name.
	var nl []string
	for n := range names {
		nl = append(nl, n)
	}
	sort.Strings(nl)
	for _, n := range nl {
		got, sg, wh := search(&query.Symbol{Expr: &query.Substring{Pattern: n, Content: true, CaseSensitive: true}})
		if sg != "" {
			return sg, wh, -1
		}
		rec.Count("e2e_sym_queries", 1)
		for i, d := range docs {
			fn := fmt.Sprintf("d%03d.go", i)
			for j, sc := range d.secs {
				if d.meta[j].Sym != n {
					continue
				}
				iv := c37IV{sc.Start, sc.End}
				sis, ok := got[fn][iv]
				if !ok {
					return "e2e/sym-name/missing", fmt.Sprintf("sym:%q (case sensitive) does not return section [%d,%d) of %s (returned: %v)", n, iv.S, iv.E, fn, c37Keys(got[fn])), i
				}
				rec.Count("e2e_ranges_checked", 1)
				if sg, wh := c37CheckInfo(sis, d.meta[j], iv); sg != "" {
					return "e2e/sym-name/" + sg, fn + ": " + wh, i
				}
			}
		}
	}
	return "", "", -1
}

func c37Keys(m map[c37IV][]*zoekt.Symbol) []c37IV {
	var l []c37IV
	for k := range m {
		l = append(l, k)
	}
	sort.Slice(l, func(i, j int) bool { return l[i].S < l[j].S })
	return l
}

func c37CheckInfo(sis []*zoekt.Symbol, want *zoekt.Symbol, iv c37IV) (string, string) {
	if len(sis) != 1 {
		return "duplicate-range", fmt.Sprintf("range [%d,%d) returned %d times", iv.S, iv.E, len(sis))
	}
	si := sis[0]
	if si == nil {
		return "no-symbolinfo", fmt.Sprintf("range [%d,%d) %q has no SymbolInfo", iv.S, iv.E, want.Sym)
	}
	if si.Sym != want.Sym || si.Kind != want.Kind || si.Parent != want.Parent || si.ParentKind != want.ParentKind {
		return "wrong-symbolinfo", fmt.Sprintf("range [%d,%d): SymbolInfo %+v, converted metadata %+v", iv.S, iv.E, *si, *want)
	}
	return "", ""
}

func c37Bucket(n int) string {
	switch {
	case n == 0:
		return "0"
	case n == 1:
		return "1"
	case n <= 3:
		return "2-3"
	case n <= 8:
		return "4-8"
	case n <= 12:
		return "9-12"
	default:
		return ">12"
	}
}

func TestVerif_C37(t *testing.T) {
	rec := kit.Open("C37")
	defer rec.Done()
	// the builders hold a 16 MB pointer array each; fewer GC cycles = less rescanning
	defer debug.SetGCPercent(debug.SetGCPercent(400))
	n := rec.N(20000, 800000)
	const workers = 4
	var wg sync.WaitGroup
	for wi := 0; wi < workers; wi++ {
		wg.Add(1)
		go func(wi int) {
			defer wg.Done()
			// the case list of worker wi is a pure function of (seed, tier, wi)
			if msg, stack, p := kit.Guard(func() { c37Worker(rec, wi, n/workers) }); p {
				rec.Violation("harness/panic/"+kit.PanicSite(stack), msg+"\n"+stack, nil)
			}
		}(wi)
	}
	wg.Wait()
}

func c37Worker(rec *kit.Rec, wi, n int) {
	const batch = 16
	r := rec.Rand(uint64(100 + 2*wi))
	g := kit.NewGen(rec.Rand(uint64(101 + 2*wi)))
	conv := &tagsToSections{} // reused across documents, like parseSymbols does
	w := &c37W{dir: filepath.Join(rec.Work, fmt.Sprintf("c37-%d", wi)), rec: rec}
	if err := os.MkdirAll(w.dir, 0o755); err != nil {
		rec.Violation("harness/mkdir", err.Error(), nil)
		return
	}
	defer os.RemoveAll(w.dir)

	convSig := func(d *c37Doc) string {
		c := &c37Doc{Content: d.Content, Ents: d.Ents}
		return c37Convert(&tagsToSections{}, c).sig
	}
	var pending []*c37Doc
	flush := func() {
		if len(pending) == 0 {
			return
		}
		docs := pending
		pending = nil
		rec.Count("e2e_shards", 1)
		sig, what, idx := w.e2e(docs)
		if sig == "" {
			return
		}
		// shrink: fewer documents in the shard, then fewer entries per document
		shardSig := func(ds []*c37Doc) (string, string) {
			var cs []*c37Doc
			for _, d := range ds {
				c := &c37Doc{Content: d.Content, Ents: d.Ents}
				if o := c37Convert(&tagsToSections{}, c); o.sig != "" {
					return o.sig, o.what
				}
				cs = append(cs, c)
			}
			s, wh, _ := w.e2e(cs)
			return s, wh
		}
		cur := docs
		for changed := true; changed && len(cur) > 1; {
			changed = false
			for i := 0; i < len(cur) && len(cur) > 1; i++ {
				c := append(append([]*c37Doc(nil), cur[:i]...), cur[i+1:]...)
				if s, _ := shardSig(c); s == sig {
					cur = c
					changed = true
					i--
				}
			}
		}
		for i := range cur {
			i := i
			cur[i] = c37Shrink(cur[i], sig, func(c *c37Doc) string {
				ds := append([]*c37Doc(nil), cur...)
				ds[i] = c
				s, _ := shardSig(ds)
				return s
			})
		}
		if s, wh := shardSig(cur); s == sig {
			what = wh
		}
		var all []map[string]any
		plain := true
		for _, d := range cur {
			c := &c37Doc{Content: d.Content, Ents: d.Ents}
			c37Convert(&tagsToSections{}, c)
			for _, sc := range c.secs {
				if sc.Start == sc.End {
					plain = false
				}
			}
			all = append(all, map[string]any{"content_go_quoted": strconv.QuoteToASCII(d.Content), "entries": d.Ents, "sections": c.secs})
		}
		if strings.HasPrefix(sig, "add/") {
			// input class for the signature: which kind of section trips the builder
			if plain {
				sig += "/plain"
			} else {
				sig += "/with-empty-name"
			}
		}
		wit := map[string]any{"docs_in_original_shard": len(docs), "complaint_about_doc": idx, "shard_docs": all}
		rec.Violation(sig, what, wit)
	}

	for ci := 0; ci < n; ci++ {
		d := &c37Doc{Content: c37GenContent(r, g)}
		d.Ents = c37GenEntries(r, d.Content)
		feat := c37Features(d)
		o := c37Convert(conv, d)
		dropped := len(d.Ents) - o.kept
		nontrivial := o.sig == "" && o.kept > 0 && dropped > 0
		key := fmt.Sprintf("f=%s|lines=%s|ents=%s|kept=%s|drop=b%v,a%v,o%v", c37FeatString(feat), c37Bucket(len(c37Lines(d.Content))), c37Bucket(len(d.Ents)), c37Bucket(o.kept), o.dropBad > 0, o.dropAbs > 0, o.dropOvl > 0)
		rec.Case(key, nontrivial, func() any {
			return map[string]any{"content": d.Content, "entries": d.Ents, "sections": d.secs, "features": c37FeatString(feat)}
		})
		rec.Count("entries", int64(len(d.Ents)))
		rec.Count("entries_kept", int64(o.kept))
		rec.Count("dropped_bad_line", int64(o.dropBad))
		rec.Count("dropped_name_absent", int64(o.dropAbs))
		rec.Count("dropped_overlap", int64(o.dropOvl))
		rec.Count("dropped_empty_name", int64(o.dropEmpty))
		rec.Count("kept_empty_name", int64(o.emptyKept))
		rec.Max("max_sections_in_doc", int64(o.kept))
		for i, nm := range c37FeatNames {
			if feat&(1<<i) != 0 {
				rec.Count("cases_with_"+nm, 1)
			}
		}
		if o.sig != "" {
			small := c37Shrink(d, o.sig, convSig)
			c := &c37Doc{Content: small.Content, Ents: small.Ents}
			o2 := c37Convert(&tagsToSections{}, c)
			what := o.what
			if o2.sig == o.sig {
				what = o2.what
			}
			rec.Violation(o.sig, what, map[string]any{"content_go_quoted": strconv.QuoteToASCII(small.Content), "entries": small.Ents, "sections": c.secs, "original_entries": len(d.Ents)})
			continue
		}
		if !utf8.ValidString(d.Content) && os.Getenv("VERIF_C37_MIX_INVALID_UTF8") == "" {
			// Documents with invalid UTF-8 get a shard of their own: in a shared shard a
			// document ending in a truncated multi-byte sequence shifts the rune->byte
			// mapping of its neighbours (contentProvider.findOffset decodes across the
			// document boundary) - a search defect unrelated to symbol conversion.
			rest := pending
			pending = []*c37Doc{d}
			flush()
			pending = rest
			continue
		}
		pending = append(pending, d)
		if len(pending) == batch {
			flush()
		}
	}
	flush()
}
