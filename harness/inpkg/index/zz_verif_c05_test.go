package index

// C05: query rewriting preserves meaning.
//
// "Meaning" of a query = the set of (live) documents it selects, decided by the
// reference evaluator of the kit (whole-file scanning, no index, no zoekt evaluation
// code). Match ranges are NOT part of the statement and are not compared.
//
// Three monitors, all in this white-box file because the per-shard simplifier
// (indexData.simplify) is unexported and a check has one test binary:
//
//	(A) pure:   random trees q  ->  Ref(q) == Ref(rewrite(q)) on every live document of
//	            three corpora, for the exported rewrites query.Simplify (evalConstants,
//	            evalAndOrConstants, flatten), query.Map(q, query.ExpandFileContent) and
//	            their two compositions as used by indexData.Search / cmd/zoekt.
//	(B) shard:  real shards (simple and compound, live and tombstoned repositories)
//	            -> Ref(q) == Ref(d.simplify(q)) on every live document of that shard.
//	(C) e2e:    Search(q) vs Search(hide(q)) on those shards, where hide() replaces every
//	            constant and every RepoSet/RepoIDs atom by an equivalent atom that neither
//	            query.Simplify nor indexData.simplify can fold (so the right-hand side is
//	            the real evaluation of the un-folded query), plus Search(q) vs
//	            Search(Simplify(q)) / Search(Map(q, ExpandFileContent)); FILE SETS only.

import (
	"context"
	"fmt"
	"math/rand/v2"
	"os"
	"path/filepath"
	"regexp/syntax"
	"runtime"
	"sort"
	"strings"
	"sync"
	"testing"

	"github.com/RoaringBitmap/roaring/v2"
	gregexp "github.com/grafana/regexp"

	"github.com/sourcegraph/zoekt"
	kit "github.com/sourcegraph/zoekt/internal/verifkit"
	"github.com/sourcegraph/zoekt/query"
)

func TestVerif_C05(t *testing.T) {
	rec := kit.Open("C05")
	defer rec.Done()
	c05Pure(rec)
	c05Shards(rec)
}

// ---------------------------------------------------------------------------
// tree generator

type c05Gen struct {
	r      *rand.Rand
	qg     *kit.QGen
	repos  []*kit.Repo // repositories the directed repository atoms are aimed at
	noRepo bool        // no type:repo nodes (a bare shard cannot evaluate them)
	noSym  bool
}

func c05EmptyRegexp(src string) *syntax.Regexp {
	re, err := syntax.Parse(src, kit.RegexpFlags)
	if err != nil {
		panic(err)
	}
	return re
}

func (g *c05Gen) scope() (fn, ct bool) {
	switch g.r.IntN(3) {
	case 0:
		fn = true
	case 1:
		ct = true
	}
	return
}

// degenerate atoms: the ones evalConstants folds, and their nearest neighbours that
// must not be folded.
func (g *c05Gen) degenerate() query.Q {
	R := g.r
	switch R.IntN(14) {
	case 0:
		fn, ct := g.scope()
		return &query.Substring{Pattern: "", CaseSensitive: R.IntN(2) == 0, FileName: fn, Content: ct}
	case 1:
		fn, ct := g.scope()
		return &query.Regexp{Regexp: c05EmptyRegexp(""), CaseSensitive: R.IntN(2) == 0, FileName: fn, Content: ct}
	case 2:
		return &query.Branch{Pattern: "", Exact: R.IntN(2) == 0}
	case 3:
		return &query.RepoSet{Set: map[string]bool{}}
	case 4:
		return &query.RepoIDs{Repos: roaring.New()}
	case 5:
		return &query.BranchesRepos{}
	case 6:
		return &query.BranchesRepos{List: []query.BranchRepos{{Branch: "main", Repos: roaring.New()}, {Branch: "HEAD", Repos: roaring.New()}}}
	case 7:
		return &query.FileNameSet{Set: map[string]struct{}{}}
	case 8: // one empty, one non-empty bitmap: must not fold
		bm := roaring.New()
		for _, r := range g.repos {
			if R.IntN(2) == 0 {
				bm.Add(r.ID)
			}
		}
		bm.Add(424242)
		return &query.BranchesRepos{List: []query.BranchRepos{{Branch: "main", Repos: roaring.New()}, {Branch: g.anyBranch(), Repos: bm}}}
	case 9: // matches everything but is not OpEmptyMatch
		fn, ct := g.scope()
		return &query.Regexp{Regexp: c05EmptyRegexp("()"), CaseSensitive: true, FileName: fn, Content: ct}
	case 10:
		return query.NewRepoSet("no/such/repo")
	case 11:
		return query.NewRepoIDs(424242)
	case 12:
		return query.NewFileNameSet("no/such/file")
	default:
		return query.RawConfig(0) // no restriction at all
	}
}

func (g *c05Gen) anyBranch() string {
	if len(g.repos) == 0 {
		return "main"
	}
	r := g.repos[g.r.IntN(len(g.repos))]
	return r.Branches[g.r.IntN(len(r.Branches))].Name
}

// repoAtom aims a repository predicate at a chosen subset of g.repos: only the
// tombstoned ones, only the live ones, all, none, one, or a random subset.
func (g *c05Gen) repoAtom() query.Q {
	R := g.r
	if len(g.repos) == 0 {
		return g.qg.FilterAtom()
	}
	var pick []*kit.Repo
	switch R.IntN(6) {
	case 0:
		for _, r := range g.repos {
			if r.Tombstone {
				pick = append(pick, r)
			}
		}
	case 1:
		for _, r := range g.repos {
			if !r.Tombstone {
				pick = append(pick, r)
			}
		}
	case 2:
		pick = g.repos
	case 3:
	case 4:
		pick = []*kit.Repo{g.repos[R.IntN(len(g.repos))]}
	default:
		for _, r := range g.repos {
			if R.IntN(2) == 0 {
				pick = append(pick, r)
			}
		}
	}
	var names []string
	var ids []uint32
	for _, r := range pick {
		names = append(names, r.Name)
		ids = append(ids, r.ID)
	}
	stranger := R.IntN(4) == 0
	switch R.IntN(6) {
	case 0:
		if stranger || len(names) == 0 {
			names = append(names, "no/such/repo")
		}
		return query.NewRepoSet(names...)
	case 1:
		if stranger || len(ids) == 0 {
			ids = append(ids, 424242)
		}
		return query.NewRepoIDs(ids...)
	case 2, 3:
		var alts []string
		for _, n := range names {
			alts = append(alts, gregexp.QuoteMeta(n))
		}
		src := "^(" + strings.Join(alts, "|") + ")$"
		if len(alts) == 0 {
			src = "^no such repo$"
		}
		re := gregexp.MustCompile(src)
		if R.IntN(2) == 0 {
			return &query.Repo{Regexp: re}
		}
		return &query.RepoRegexp{Regexp: re}
	case 4:
		bm := roaring.BitmapOf(ids...)
		br := &query.BranchesRepos{List: []query.BranchRepos{{Branch: g.anyBranch(), Repos: bm}}}
		if R.IntN(2) == 0 {
			br.List = append(br.List, query.BranchRepos{Branch: g.anyBranch(), Repos: roaring.BitmapOf(ids...)})
		}
		return br
	default:
		// data-dependent predicates: metadata and raw config of one picked repository
		if len(pick) > 0 {
			r := pick[R.IntN(len(pick))]
			var keys []string
			for k := range r.Metadata {
				keys = append(keys, k)
			}
			sort.Strings(keys) // map order must not steer the generator
			for _, k := range keys {
				if R.IntN(2) == 0 {
					return &query.Meta{Field: k, Value: gregexp.MustCompile("^" + gregexp.QuoteMeta(r.Metadata[k]) + "$")}
				}
			}
		}
		return g.qg.FilterAtom()
	}
}

func (g *c05Gen) leaf() query.Q {
	R := g.r
	switch R.IntN(12) {
	case 0, 1:
		return &query.Const{Value: R.IntN(2) == 0}
	case 2, 3:
		return g.degenerate()
	case 4, 5:
		return g.repoAtom()
	case 6, 7:
		return g.qg.FilterAtom()
	default:
		for {
			a := g.qg.TextAtom()
			if _, isSym := a.(*query.Symbol); isSym && g.noSym {
				continue
			}
			return a
		}
	}
}

func (g *c05Gen) typeKind() uint8 {
	for {
		k := uint8(g.r.IntN(3))
		if k == query.TypeRepo && g.noRepo {
			continue
		}
		return k
	}
}

func (g *c05Gen) children(depth int) []query.Q {
	n := 2 + g.r.IntN(2)
	switch g.r.IntN(8) {
	case 0:
		n = 0
	case 1, 2:
		n = 1
	}
	out := []query.Q{}
	for i := 0; i < n; i++ {
		out = append(out, g.tree(depth-1))
	}
	return out
}

func (g *c05Gen) tree(depth int) query.Q {
	R := g.r
	if depth <= 0 || R.IntN(5) == 0 {
		return g.leaf()
	}
	switch R.IntN(15) {
	case 0, 1, 2:
		return &query.And{Children: g.children(depth)}
	case 3, 4, 5:
		return &query.Or{Children: g.children(depth)}
	case 6, 7:
		return &query.Not{Child: g.tree(depth - 1)}
	case 8:
		return &query.Not{Child: &query.Not{Child: g.tree(depth - 2)}}
	case 9, 10:
		return &query.Type{Type: g.typeKind(), Child: g.tree(depth - 1)}
	case 11:
		return &query.Boost{Boost: []float64{0, 0.5, 2, 1e6}[R.IntN(4)], Child: g.tree(depth - 1)}
	case 12: // Type / Boost directly around a constant or a degenerate atom
		var c query.Q = &query.Const{Value: R.IntN(2) == 0}
		if R.IntN(2) == 0 {
			c = g.degenerate()
		}
		if R.IntN(2) == 0 {
			return &query.Boost{Boost: 2, Child: c}
		}
		return &query.Type{Type: g.typeKind(), Child: c}
	case 13: // same operator nested directly (flatten)
		if R.IntN(2) == 0 {
			return &query.And{Children: []query.Q{&query.And{Children: g.children(depth - 1)}, g.tree(depth - 2)}}
		}
		return &query.Or{Children: []query.Q{g.tree(depth - 2), &query.Or{Children: g.children(depth - 1)}}}
	default:
		return g.leaf()
	}
}

func c05Depth(q query.Q) int {
	switch s := q.(type) {
	case *query.And:
		m := 0
		for _, c := range s.Children {
			m = max(m, c05Depth(c))
		}
		return m + 1
	case *query.Or:
		m := 0
		for _, c := range s.Children {
			m = max(m, c05Depth(c))
		}
		return m + 1
	case *query.Not:
		return 1 + c05Depth(s.Child)
	case *query.Type:
		return 1 + c05Depth(s.Child)
	case *query.Boost:
		return 1 + c05Depth(s.Child)
	}
	return 0
}

// c05Features names the structural features of a tree the statement lists.
func c05Features(q query.Q, under string, out map[string]bool) {
	switch s := q.(type) {
	case *query.And:
		out[fmt.Sprintf("and/%d-children", min(len(s.Children), 2))] = true
		for _, c := range s.Children {
			if _, same := c.(*query.And); same {
				out["and-in-and"] = true
			}
			c05Features(c, "and", out)
		}
	case *query.Or:
		out[fmt.Sprintf("or/%d-children", min(len(s.Children), 2))] = true
		for _, c := range s.Children {
			if _, same := c.(*query.Or); same {
				out["or-in-or"] = true
			}
			c05Features(c, "or", out)
		}
	case *query.Not:
		if _, nn := s.Child.(*query.Not); nn {
			out["not-not"] = true
		}
		c05Features(s.Child, "not", out)
	case *query.Type:
		c05Features(s.Child, fmt.Sprintf("type%d", s.Type), out)
	case *query.Boost:
		c05Features(s.Child, "boost", out)
	case *query.Const:
		out[fmt.Sprintf("const-%v-under-%s", s.Value, under)] = true
	default:
		if c, ok := query.Simplify(q).(*query.Const); ok {
			out[fmt.Sprintf("folding-%s-to-%v-under-%s", kit.Shape(q), c.Value, under)] = true
		}
	}
}

// ---------------------------------------------------------------------------
// reference side

type c05Doc struct {
	corpus int
	r      *kit.Repo
	d      *kit.Doc
}

func c05LiveDocs(corpora []*kit.Corpus) []c05Doc {
	var out []c05Doc
	for ci, c := range corpora {
		for _, r := range c.Repos {
			for _, d := range r.Docs {
				if r.Live(d) {
					out = append(out, c05Doc{ci, r, d})
				}
			}
		}
	}
	return out
}

// c05Verdicts evaluates q on every document with the reference evaluator.
func c05Verdicts(ev *kit.Evaluator, q query.Q, docs []c05Doc) (v []bool, panicMsg string) {
	v = make([]bool, len(docs))
	msg, stack, p := kit.Guard(func() {
		for i, d := range docs {
			v[i] = ev.Match(q, d.r, d.d)
		}
	})
	if p {
		return nil, msg + "\n" + stack
	}
	return v, ""
}

func c05FirstDiff(a, b []bool) int {
	for i := range a {
		if a[i] != b[i] {
			return i
		}
	}
	return -1
}

type c05Rewrite struct {
	name string
	f    func(query.Q) query.Q
}

func c05Expand(q query.Q) query.Q { return query.Map(q, query.ExpandFileContent) }

var c05Rewrites = []c05Rewrite{
	{"Simplify", query.Simplify},
	{"ExpandFileContent", c05Expand},
	{"Simplify-after-Expand", func(q query.Q) query.Q { return query.Simplify(c05Expand(q)) }}, // cmd/zoekt
	{"Expand-after-Simplify", func(q query.Q) query.Q { return c05Expand(query.Simplify(q)) }}, // indexData.Search
}

// c05Apply runs one rewrite; class != "" describes a failure of the rewrite itself.
func c05Apply(rw c05Rewrite, q query.Q) (out query.Q, class, detail string) {
	before := q.String()
	msg, stack, p := kit.Guard(func() { out = rw.f(q) })
	if p {
		return nil, "panic/" + kit.PanicSite(stack) + "/" + kit.MsgClass(msg), msg + "\n" + stack
	}
	if out == nil {
		return nil, "nil-result", "the rewrite returned a nil query"
	}
	if after := q.String(); after != before {
		return nil, "input-mutated", "the rewrite changed its argument in place: " + before + " became " + after
	}
	return out, "", ""
}

// c05Probe: "" when the rewrite preserves the verdict of q on every document.
func c05Probe(ev *kit.Evaluator, rw c05Rewrite, q query.Q, docs []c05Doc) (class, detail string) {
	want, pm := c05Verdicts(ev, q, docs)
	if pm != "" {
		return "harness/reference-panic", pm
	}
	out, class, detail := c05Apply(rw, q)
	if class != "" {
		return class, detail
	}
	got, pm := c05Verdicts(ev, out, docs)
	if pm != "" {
		return "harness/reference-panic-on-rewritten", pm
	}
	if i := c05FirstDiff(want, got); i >= 0 {
		kind := "selects-more"
		if want[i] {
			kind = "selects-less"
		}
		d := docs[i]
		return kind, fmt.Sprintf("%s: original %s is %v, rewritten %s is %v on corpus %d repo %q (tombstone=%v) file %q content %q",
			rw.name, q, want[i], out, got[i], d.corpus, d.r.Name, d.r.Tombstone, d.d.Name, c05Short(d.d.Text()))
	}
	return "", ""
}

func c05Short(s string) string {
	if len(s) > 80 {
		return s[:80] + "…"
	}
	return s
}

func c05Report(rec *kit.Rec, where string, q query.Q, class, detail string, refail func(query.Q) (string, string), extra map[string]any) {
	small := q
	if !strings.HasPrefix(class, "harness/") {
		small = kit.ShrinkQuery(q, func(c query.Q) bool {
			cl, _ := refail(c)
			return cl == class
		})
	}
	if cl, d2 := refail(small); cl == class {
		detail = d2
	}
	w := map[string]any{"query": small.String(), "original_query": q.String(), "detail": detail}
	for k, v := range extra {
		w[k] = v
	}
	rec.Violation(where+"/"+class+"/"+kit.Shape(small), detail, w)
}

// ---------------------------------------------------------------------------
// (A) pure

// c05Parallel runs f(0..n-1) on a few goroutines. Every world has its own PRNG stream,
// so what is generated and judged does not depend on the schedule (only which witness
// of a signature is written first does).
func c05Parallel(n int, f func(i int)) {
	workers := max(2, min(12, runtime.GOMAXPROCS(0)-2))
	var wg sync.WaitGroup
	next := make(chan int)
	for w := 0; w < workers; w++ {
		wg.Add(1)
		go func() {
			defer wg.Done()
			for i := range next {
				f(i)
			}
		}()
	}
	for i := 0; i < n; i++ {
		next <- i
	}
	close(next)
	wg.Wait()
}

func c05Pure(rec *kit.Rec) {
	nWorlds := rec.N(100, 2500)
	nTrees := rec.N(200, 400)
	c05Parallel(nWorlds, func(wi int) {
		gr := rec.Rand(uint64(1000 + wi))
		var corpora []*kit.Corpus
		kg := kit.NewGen(gr)
		kg.Tombstones = true
		kg.SubRepos = true
		kg.MaxDocs = 8
		kg.MaxLen = 100
		for i := 0; i < 3; i++ {
			corpora = append(corpora, kg.Corpus())
		}
		docs := c05LiveDocs(corpora)
		ev := kit.NewEvaluator(corpora[0])
		var repos []*kit.Repo
		for _, c := range corpora {
			repos = append(repos, c.Repos...)
		}
		g := &c05Gen{r: gr, repos: repos}
		for ti := 0; ti < nTrees; ti++ {
			// patterns are cut from a different corpus each time
			g.qg = kit.NewQGen(kg, corpora[ti%3], ev)
			q := g.tree(1 + gr.IntN(6))
			c05PureOne(rec, ev, q, docs, corpora)
		}
	})
}

func c05PureOne(rec *kit.Rec, ev *kit.Evaluator, q query.Q, docs []c05Doc, corpora []*kit.Corpus) {
	rec.Count("pure_trees", 1)
	rec.Max("max_depth", int64(c05Depth(q)))
	feats := map[string]bool{}
	c05Features(q, "root", feats)
	for f := range feats {
		rec.Seen("tree_features", f)
	}
	want, pm := c05Verdicts(ev, q, docs)
	if pm != "" {
		rec.Violation("harness/reference-panic", pm, map[string]any{"query": q.String()})
		return
	}
	nTrue := 0
	for _, b := range want {
		if b {
			nTrue++
		}
	}
	mixed := nTrue > 0 && nTrue < len(want)
	if mixed {
		rec.Count("pure_trees_selecting_some_but_not_all_documents", 1)
	}
	shape := kit.Shape(q)
	for _, rw := range c05Rewrites {
		rw := rw
		out, class, detail := c05Apply(rw, q)
		changed := false
		if class == "" {
			changed = out.String() != q.String()
			if c, isConst := out.(*query.Const); isConst {
				rec.Count(fmt.Sprintf("pure_%s_folded_whole_tree_to_%v", rw.name, c.Value), 1)
			}
			got, pm := c05Verdicts(ev, out, docs)
			switch {
			case pm != "":
				class, detail = "harness/reference-panic-on-rewritten", pm
			case c05FirstDiff(want, got) >= 0:
				class, detail = c05Probe(ev, rw, q, docs)
			}
		}
		rec.Case("pure|"+rw.name+"|"+shape, changed, func() any {
			return map[string]any{"part": "pure", "rewrite": rw.name, "query": q.String(), "rewritten": out.String(),
				"documents": len(docs), "selected": nTrue}
		})
		rec.Count("pure_evaluations_"+rw.name, 1)
		if changed {
			rec.Count("pure_rewrite_changed_tree_"+rw.name, 1)
		}
		if class != "" {
			var dump []any
			for _, c := range corpora {
				dump = append(dump, c05Dump(c))
			}
			c05Report(rec, "pure/"+rw.name, q, class, detail, func(c query.Q) (string, string) { return c05Probe(ev, rw, c, docs) },
				map[string]any{"rewrite": rw.name, "corpora": dump})
		}
	}
}

// ---------------------------------------------------------------------------
// shard building (copies of the kitix helpers: package index cannot import kitix)

func c05ZRepo(r *kit.Repo) *zoekt.Repository {
	z := &zoekt.Repository{
		TenantID: r.TenantID, ID: r.ID, Name: r.Name, URL: "http://" + r.Name, Source: "/src/" + r.Name, Rank: r.Rank,
		FileURLTemplate: r.FileURL, LineFragmentTemplate: r.LineFrag, Tombstone: r.Tombstone,
	}
	for _, b := range r.Branches {
		z.Branches = append(z.Branches, zoekt.RepositoryBranch{Name: b.Name, Version: b.Version})
	}
	if r.RawConfig != nil {
		z.RawConfig = map[string]string{}
		for k, v := range r.RawConfig {
			z.RawConfig[k] = v
		}
	}
	if r.Metadata != nil {
		z.Metadata = map[string]string{}
		for k, v := range r.Metadata {
			z.Metadata[k] = v
		}
	}
	if len(r.SubRepos) > 0 {
		z.SubRepoMap = map[string]*zoekt.Repository{}
		for p, n := range r.SubRepos {
			sub := &zoekt.Repository{Name: n, URL: "http://" + n}
			for _, b := range r.Branches {
				sub.Branches = append(sub.Branches, zoekt.RepositoryBranch{Name: b.Name, Version: "sub" + b.Version[3:]})
			}
			z.SubRepoMap[p] = sub
		}
	}
	if len(r.FileTomb) > 0 {
		z.FileTombstones = map[string]struct{}{}
		for k := range r.FileTomb {
			z.FileTombstones[k] = struct{}{}
		}
	}
	return z
}

func c05BuildSimple(dir string, r *kit.Repo, n int) (string, error) {
	b, err := NewShardBuilder(c05ZRepo(r))
	if err != nil {
		return "", err
	}
	for _, d := range r.Docs {
		doc := Document{Name: d.Name, Content: []byte(d.Content), Branches: append([]string(nil), d.Branches...),
			SubRepositoryPath: d.SubRepo, Language: d.Language}
		for _, s := range d.Symbols {
			doc.Symbols = append(doc.Symbols, DocumentSection{Start: uint32(s.Start), End: uint32(s.End)})
			doc.SymbolsMetaData = append(doc.SymbolsMetaData, &zoekt.Symbol{Kind: s.Kind, Parent: s.Parent, ParentKind: s.ParentKind})
		}
		if err := b.Add(doc); err != nil {
			return "", fmt.Errorf("add %q: %w", d.Name, err)
		}
	}
	p := filepath.Join(dir, fmt.Sprintf("c05-%d_v%d.00000.zoekt", n, IndexFormatVersion))
	f, err := os.Create(p)
	if err != nil {
		return "", err
	}
	if err := b.Write(f); err != nil {
		f.Close()
		return "", err
	}
	return p, f.Close()
}

func c05OpenFile(p string) (IndexFile, error) {
	f, err := os.Open(p)
	if err != nil {
		return nil, err
	}
	return NewIndexFile(f)
}

// c05BuildCompound merges simple shards of repos into one compound shard; repositories
// marked Tombstone in the model are tombstoned afterwards through the production
// sidecar (merging drops tombstoned repositories).
func c05BuildCompound(dir string, repos []*kit.Repo) (string, error) {
	tmp, err := os.MkdirTemp(dir, "simple-*")
	if err != nil {
		return "", err
	}
	defer os.RemoveAll(tmp)
	var files []IndexFile
	defer func() {
		for _, f := range files {
			f.Close()
		}
	}()
	for i, r := range repos {
		rr := *r
		rr.Tombstone = false
		p, err := c05BuildSimple(tmp, &rr, i)
		if err != nil {
			return "", err
		}
		f, err := c05OpenFile(p)
		if err != nil {
			return "", err
		}
		files = append(files, f)
	}
	tmpName, dstName, err := Merge(dir, files...)
	if err != nil {
		return "", err
	}
	if err := os.Rename(tmpName, dstName); err != nil {
		return "", err
	}
	for _, r := range repos {
		if r.Tombstone {
			if err := SetTombstone(dstName, r.ID); err != nil {
				return "", err
			}
		}
	}
	return dstName, nil
}

func c05Dump(c *kit.Corpus) any {
	type dd struct {
		Name, Content string
		Branches      []string
		Lang          string
	}
	type rr struct {
		Name     string
		ID       uint32
		Branches []string
		Raw      map[string]string `json:",omitempty"`
		Meta     map[string]string `json:",omitempty"`
		Tomb     bool              `json:",omitempty"`
		FileTomb []string          `json:",omitempty"`
		Docs     []dd
	}
	var out []rr
	for _, r := range c.Repos {
		x := rr{Name: r.Name, ID: r.ID, Branches: r.BranchNames(), Raw: r.RawConfig, Meta: r.Metadata, Tomb: r.Tombstone}
		for k := range r.FileTomb {
			x.FileTomb = append(x.FileTomb, k)
		}
		for _, d := range r.Docs {
			x.Docs = append(x.Docs, dd{d.Name, d.Content, d.Branches, d.Language})
		}
		out = append(out, x)
	}
	return out
}

// ---------------------------------------------------------------------------
// (B) per-shard simplification and (C) end to end

type c05Shard struct {
	path  string
	repos []*kit.Repo // model of what the shard holds
	d     *indexData
	docs  []c05Doc // live documents of this shard
	kind  string
}

func c05Shards(rec *kit.Rec) {
	nWorlds := rec.N(60, 1500)
	nTrees := rec.N(120, 160)
	c05Parallel(nWorlds, func(wi int) {
		gr := rec.Rand(uint64(500000 + wi))
		kg := kit.NewGen(gr)
		kg.Tombstones = true
		kg.SubRepos = true
		kg.MaxRepos = 6
		kg.MaxDocs = 6
		kg.MaxLen = 80
		c := kg.Corpus()
		// more tombstones than the generator's default, including shards in which every
		// repository is tombstoned
		mode := gr.IntN(4)
		for _, r := range c.Repos {
			switch mode {
			case 0:
				r.Tombstone = gr.IntN(2) == 0
			case 1:
				r.Tombstone = gr.IntN(4) == 0
			case 2:
				r.Tombstone = false
			}
		}
		dir := filepath.Join(rec.Work, fmt.Sprintf("c05w%d", wi))
		os.RemoveAll(dir)
		if err := os.MkdirAll(dir, 0o755); err != nil {
			rec.Violation("harness/mkdir", err.Error(), nil)
			return
		}
		shards, err := c05BuildWorld(gr, dir, c)
		if err != nil {
			rec.Violation("harness/build", err.Error(), map[string]any{"corpus": c05Dump(c)})
			os.RemoveAll(dir)
			return
		}
		ev := kit.NewEvaluator(c)
		for _, sh := range shards {
			g := &c05Gen{r: gr, repos: sh.repos, noRepo: true, noSym: false}
			// atoms are cut from the whole corpus: repositories of other shards are the
			// "predicate holds for none" case of this shard
			g.qg = kit.NewQGen(kg, c, ev)
			nt, nl := 0, 0
			for _, r := range sh.repos {
				if r.Tombstone {
					nt++
				} else {
					nl++
				}
			}
			rec.Seen("shard_population", fmt.Sprintf("%s live=%d tombstoned=%d", sh.kind, min(nl, 3), min(nt, 3)))
			for ti := 0; ti < nTrees; ti++ {
				q := g.tree(1 + gr.IntN(5))
				c05ShardOne(rec, ev, sh, q, c)
			}
		}
		for _, sh := range shards {
			sh.d.Close()
		}
		os.RemoveAll(dir)
	})
}

func c05BuildWorld(gr *rand.Rand, dir string, c *kit.Corpus) ([]*c05Shard, error) {
	idx := gr.Perm(len(c.Repos))
	var shards []*c05Shard
	n := 0
	for len(idx) > 0 {
		k := 1
		if gr.IntN(3) > 0 {
			k = 1 + gr.IntN(len(idx))
		}
		grp := idx[:k]
		idx = idx[k:]
		sh := &c05Shard{}
		for _, i := range grp {
			sh.repos = append(sh.repos, c.Repos[i])
		}
		sub := filepath.Join(dir, fmt.Sprintf("s%d", n))
		n++
		if err := os.MkdirAll(sub, 0o755); err != nil {
			return nil, err
		}
		var err error
		if len(grp) == 1 {
			sh.kind = "simple"
			sh.path, err = c05BuildSimple(sub, sh.repos[0], 0)
		} else {
			sh.kind = "compound"
			sh.path, err = c05BuildCompound(sub, sh.repos)
		}
		if err != nil {
			return nil, err
		}
		f, err := c05OpenFile(sh.path)
		if err != nil {
			return nil, err
		}
		s, err := NewSearcher(f)
		if err != nil {
			f.Close()
			return nil, err
		}
		sh.d = s.(*indexData)
		for _, r := range sh.repos {
			for _, d := range r.Docs {
				if r.Live(d) {
					sh.docs = append(sh.docs, c05Doc{0, r, d})
				}
			}
		}
		// the loaded shard must carry the tombstones of the model (harness self-check)
		tomb := map[string]bool{}
		for i := range sh.d.repoMetaData {
			tomb[sh.d.repoMetaData[i].Name] = sh.d.repoMetaData[i].Tombstone
		}
		for _, r := range sh.repos {
			if got, ok := tomb[r.Name]; !ok || got != r.Tombstone {
				return nil, fmt.Errorf("shard %s: repository %q tombstone=%v in the model, loaded %v (present=%v)", sh.path, r.Name, r.Tombstone, got, ok)
			}
		}
		shards = append(shards, sh)
	}
	return shards, nil
}

// c05MetaClasses records, for every repository predicate of q, over how much of the
// shard's metadata it holds: none / some / all of the live repositories, and whether
// it holds for a tombstoned one.
func c05MetaClasses(rec *kit.Rec, ev *kit.Evaluator, sh *c05Shard, q query.Q) {
	query.VisitAtoms(q, func(a query.Q) {
		switch a.(type) {
		case *query.Repo, *query.RepoRegexp, *query.RepoSet, *query.RepoIDs, query.RawConfig, *query.Meta:
		default:
			return
		}
		live, liveHit, tombHit := 0, 0, 0
		probe := &kit.Doc{Name: "probe", Branches: []string{"main"}}
		for _, r := range sh.repos {
			hit := false
			kit.Guard(func() { hit = ev.Match(a, r, probe) })
			if r.Tombstone {
				if hit {
					tombHit++
				}
				continue
			}
			live++
			if hit {
				liveHit++
			}
		}
		cl := "some-live"
		switch {
		case live == 0:
			cl = "no-live-repository"
		case liveHit == 0:
			cl = "no-live"
		case liveHit == live:
			cl = "all-live"
		}
		if tombHit > 0 {
			cl += "+tombstoned"
			if liveHit == 0 {
				cl = "only-tombstoned"
			}
		}
		rec.Seen("metadata_predicate_classes", strings.TrimPrefix(fmt.Sprintf("%T", a), "*query.")+"/"+cl)
	})
}

func (sh *c05Shard) simplifyRewrite() c05Rewrite {
	return c05Rewrite{"indexData.simplify", func(q query.Q) query.Q { return sh.d.simplify(q) }}
}

func c05ShardOne(rec *kit.Rec, ev *kit.Evaluator, sh *c05Shard, q query.Q, c *kit.Corpus) {
	rec.Count("shard_trees", 1)
	c05MetaClasses(rec, ev, sh, q)
	rw := sh.simplifyRewrite()
	shape := kit.Shape(q)
	wit := func() map[string]any {
		var names []string
		for _, r := range sh.repos {
			names = append(names, fmt.Sprintf("%s(id=%d,tombstone=%v)", r.Name, r.ID, r.Tombstone))
		}
		return map[string]any{"shard_kind": sh.kind, "shard_repositories": names, "corpus": c05Dump(c)}
	}

	// (B)
	out, class, detail := c05Apply(rw, q)
	changed := false
	if class == "" {
		changed = out.String() != query.Simplify(q).String() // the metadata made a difference
		if k, isConst := out.(*query.Const); isConst {
			rec.Count(fmt.Sprintf("shard_simplify_folded_whole_tree_to_%v", k.Value), 1)
		}
		class, detail = c05Probe(ev, rw, q, sh.docs)
	}
	rec.Case("shard|"+sh.kind+"|"+shape, changed && len(sh.docs) > 0, func() any {
		return map[string]any{"part": "shard", "query": q.String(), "simplified": out.String(), "live_documents": len(sh.docs), "shard": wit()["shard_repositories"]}
	})
	if changed {
		rec.Count("shard_simplify_used_metadata", 1)
	}
	if class != "" {
		c05Report(rec, "shard-simplify", q, class, detail, func(cq query.Q) (string, string) { return c05Probe(ev, rw, cq, sh.docs) }, wit())
		return
	}

	// (C)
	variants := []c05Rewrite{
		{"hidden-constants", func(q query.Q) query.Q { return c05Hide(q, c) }},
		{"Simplify", query.Simplify},
		{"ExpandFileContent", c05Expand},
	}
	base, bclass, bdetail := c05Search(sh, q)
	for _, v := range variants {
		v := v
		probe := func(cq query.Q) (string, string) {
			b, bc, bd := base, bclass, bdetail
			if cq != q {
				b, bc, bd = c05Search(sh, cq)
			}
			vq, cl, dt := c05Apply(v, cq)
			if cl != "" {
				return cl, dt
			}
			got, gc, gd := c05Search(sh, vq)
			switch {
			case bc != gc:
				return "outcome-differs", fmt.Sprintf("Search(%s): %s %s; Search(%s): %s %s", cq, c05OrOK(bc), bd, vq, c05OrOK(gc), gd)
			case bc != "":
				return "", "" // both fail the same way: not a difference between the two
			}
			if d := c05DiffSets(b, got); d != "" {
				return "files-differ", fmt.Sprintf("Search(%s) vs Search(%s): %s", cq, vq, d)
			}
			return "", ""
		}
		rec.Count("e2e_pairs_"+v.name, 1)
		if bclass == "" && len(base) > 0 && len(base) < len(sh.docs) {
			rec.Count("e2e_pairs_selecting_some_but_not_all_"+v.name, 1)
		}
		if cl, dt := probe(q); cl != "" {
			c05Report(rec, "e2e/"+v.name, q, cl, dt, probe, wit())
		}
	}
	if bclass != "" {
		rec.Seen("e2e_search_failures_same_on_both_sides", bclass)
	}
}

func c05OrOK(s string) string {
	if s == "" {
		return "ok"
	}
	return s
}

// c05Hide replaces what the simplifiers can fold by equivalent atoms they cannot:
// TRUE -> not(file name in {a name no document has}), FALSE -> that file name set,
// RepoSet/RepoIDs -> BranchesRepos over every branch name of the corpus (every
// document is on at least one branch of its repository).
func c05Hide(q query.Q, c *kit.Corpus) query.Q {
	never := func() query.Q { return query.NewFileNameSet("\x00c05/no such file") }
	branches := map[string]bool{}
	for _, r := range c.Repos {
		for _, b := range r.Branches {
			branches[b.Name] = true
		}
	}
	var names []string
	for b := range branches {
		names = append(names, b)
	}
	sort.Strings(names)
	byIDs := func(has func(*kit.Repo) bool) query.Q {
		bm := roaring.New()
		for _, r := range c.Repos {
			if has(r) {
				bm.Add(r.ID)
			}
		}
		if bm.IsEmpty() {
			return never()
		}
		br := &query.BranchesRepos{}
		for _, b := range names {
			br.List = append(br.List, query.BranchRepos{Branch: b, Repos: bm})
		}
		return br
	}
	return query.Map(q, func(a query.Q) query.Q {
		switch s := a.(type) {
		case *query.Const:
			if s.Value {
				return &query.Not{Child: never()}
			}
			return never()
		case *query.RepoSet:
			return byIDs(func(r *kit.Repo) bool { return s.Set[r.Name] })
		case *query.RepoIDs:
			return byIDs(func(r *kit.Repo) bool { return s.Repos.Contains(r.ID) })
		}
		return a
	})
}

func c05Search(sh *c05Shard, q query.Q) (files map[string]int, class, detail string) {
	var sr *zoekt.SearchResult
	var err error
	msg, stack, p := kit.Guard(func() {
		sr, err = sh.d.Search(context.Background(), q, &zoekt.SearchOptions{Whole: true})
	})
	switch {
	case p:
		return nil, "panic/" + kit.PanicSite(stack) + "/" + kit.MsgClass(msg), msg
	case err != nil:
		return nil, "error/" + kit.MsgClass(err.Error()), err.Error()
	}
	files = map[string]int{}
	for i := range sr.Files {
		f := &sr.Files[i]
		files[kit.DocKey(f.Repository, f.FileName, string(f.Content))]++
	}
	return files, "", ""
}

func c05DiffSets(a, b map[string]int) string {
	var onlyA, onlyB []string
	for k, n := range a {
		if b[k] < n {
			onlyA = append(onlyA, strings.ReplaceAll(c05Short(k), "\x00", ":"))
		}
	}
	for k, n := range b {
		if a[k] < n {
			onlyB = append(onlyB, strings.ReplaceAll(c05Short(k), "\x00", ":"))
		}
	}
	if len(onlyA) == 0 && len(onlyB) == 0 {
		return ""
	}
	sort.Strings(onlyA)
	sort.Strings(onlyB)
	return fmt.Sprintf("only-left=%q only-right=%q", onlyA, onlyB)
}
