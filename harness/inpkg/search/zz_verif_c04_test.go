package search

// White-box part of C04 (run as a child of the cfg check through $VERIF_BIN/c04wb.test):
// histories on a bare shardedSearcher — the zoekt.Searcher that NewDirectorySearcher
// wraps — in which the caller passes the SAME query object again. The exported
// wrapper (typeRepoSearcher) copies the composite nodes of a query before the sharded
// searcher sees it, so a sharded searcher that rewrites its caller's query in place is
// only observable here.

import (
	"context"
	"fmt"
	"os"
	"path/filepath"
	"sort"
	"strings"
	"testing"

	"github.com/sourcegraph/zoekt"
	kit "github.com/sourcegraph/zoekt/internal/verifkit"
	"github.com/sourcegraph/zoekt/internal/verifkit/ix"
	"github.com/sourcegraph/zoekt/query"
)

func c04wbFiles(sr *zoekt.SearchResult) []string {
	var out []string
	for _, f := range sr.Files {
		out = append(out, fmt.Sprintf("%s:%s:%v", f.Repository, f.FileName, f.Branches))
	}
	sort.Strings(out)
	return out
}

func c04wbLoad(paths []string) (*shardedSearcher, func(), error) {
	ss := newShardedSearcher(4)
	shards := map[string]zoekt.Searcher{}
	for _, p := range paths {
		s, err := ix.Open(p)
		if err != nil {
			return nil, nil, err
		}
		shards[p] = s
	}
	ss.replace(shards)
	ss.markReady()
	return ss, func() { ss.Close() }, nil
}

func c04wbClone(q query.Q) query.Q { return query.Map(q, func(x query.Q) query.Q { return x }) }

func TestVerif_C04wb(t *testing.T) {
	if kit.ChildMode() == "" {
		t.Skip("child of TestVerif_C04")
	}
	rec := kit.Open("C04")
	defer rec.ChildDone()
	nWorlds := rec.N(12, 200)
	for wi := 0; wi < nWorlds; wi++ {
		g := kit.NewGen(rec.Rand(uint64(wi) + 4_700_000))
		g.MaxRepos = 6
		g.MaxDocs = 5
		c := g.Corpus()
		for len(c.Repos) < 3 {
			r := g.Repo(len(c.Repos))
			r.Docs = append(r.Docs, g.Doc(r, map[string]bool{}))
			c.Repos = append(c.Repos, r)
		}
		dir := filepath.Join(rec.Work, fmt.Sprintf("c04wb-%d", wi))
		os.MkdirAll(dir, 0o755)
		layout := ix.RandomLayout(g, c)
		paths, err := ix.BuildLayout(dir, c, layout)
		if err != nil {
			rec.Violation("harness/build", err.Error(), nil)
			os.RemoveAll(dir)
			continue
		}
		long, closeLong, err := c04wbLoad(paths)
		if err != nil {
			rec.Violation("harness/open", err.Error(), nil)
			os.RemoveAll(dir)
			continue
		}
		qg := kit.NewQGen(g, c, kit.NewEvaluator(c))
		qg.AllowRepo = false
		var pool []query.Q
		for k := 0; k < 10; k++ {
			// a repository-level filter naming the repositories of one or two whole shards,
			// next to a text atom; or a random tree
			var repos []*kit.Repo
			for j := 0; j < 1+g.R.IntN(2); j++ {
				for _, i := range layout.Groups[g.R.IntN(len(layout.Groups))] {
					repos = append(repos, c.Repos[i])
				}
			}
			var ids []uint32
			var names []string
			for _, r := range repos {
				ids = append(ids, r.ID)
				names = append(names, r.Name)
			}
			var q query.Q
			switch g.R.IntN(5) {
			case 0:
				q = query.NewAnd(query.NewRepoIDs(ids...), qg.TextAtom())
			case 1:
				q = query.NewAnd(query.NewRepoSet(names...), qg.TextAtom())
			case 2, 3:
				br := repos[0].Branches[g.R.IntN(len(repos[0].Branches))].Name
				q = query.NewAnd(query.NewSingleBranchesRepos(br, ids...), qg.TextAtom())
			default:
				q = qg.Query()
			}
			pool = append(pool, q)
		}
		pristine := make([]query.Q, len(pool))
		for i, q := range pool {
			pristine[i] = c04wbClone(q)
		}
		var history []string
		bad := false
		for step := 0; step < 30 && !bad; step++ {
			i := g.R.IntN(len(pool))
			before := pool[i].String()
			history = append(history, before)
			opts := zoekt.SearchOptions{}
			got, err := long.Search(context.Background(), pool[i], &opts) // the caller's object, again and again
			if err != nil {
				continue
			}
			fresh, closeFresh, err := c04wbLoad(paths)
			if err != nil {
				rec.Violation("harness/open", err.Error(), nil)
				break
			}
			opts = zoekt.SearchOptions{}
			want, err := fresh.Search(context.Background(), c04wbClone(pristine[i]), &opts)
			closeFresh()
			if err != nil {
				continue
			}
			a, b := c04wbFiles(want), c04wbFiles(got)
			rec.Count("whitebox_sharded_searches", 1)
			rec.Case(fmt.Sprintf("wb|%s|%d", kit.Shape(pool[i]), step), step > 0 && len(a) > 0, func() any {
				return map[string]any{"phase": "sharded searcher, reused query objects", "step": step, "query": before, "files": len(a)}
			})
			if strings.Join(a, "\n") != strings.Join(b, "\n") {
				class := "files missing"
				if len(b) > len(a) {
					class = "files extra"
				}
				rec.Violation("cache=unset/sequential/sharded(query object reused)/"+class,
					fmt.Sprintf("search #%d of a history on one long-lived sharded searcher, passing the same query object again, answers differently from the same search alone on a freshly loaded searcher: want %d files, got %d; query as first built %s, query object now %s", step, len(a), len(b), pristine[i].String(), pool[i].String()),
					map[string]any{"history": history, "want": a, "got": b, "corpus": ix.Dump(c), "layout": layout.Groups,
						"query_object_changed_by_searching": pool[i].String() != pristine[i].String()})
				bad = true
			}
		}
		closeLong()
		os.RemoveAll(dir)
	}
}
