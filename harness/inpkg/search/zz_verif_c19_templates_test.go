package search

// C19 (part 3): shard files.
//
// Building a shard allocates two 16 MiB posting tables (index.newShardBuilder); doing
// that 2 000 times per run inside a -race child with a GC goroutine costs minutes. The
// parent therefore lets the production indexer (cmd/zoekt-index, built without -race
// into $VERIF_BIN) write ONE template shard per (key, format, document count) with the
// placeholder version 8675309, and a child derives version v by patching the
// fixed-width version digits (document names, first and last line of every document,
// branch version and RawConfig["c19ver"] of the repository description) and the crc64
// checksums of the documents. Lengths and therefore every offset table stay valid;
// the only stale parts are the posting lists of trigrams that overlap the patched
// digits, and no query of this check contains such a trigram. Every answer is compared
// byte for byte with the expected content, so a broken patch would show up as false
// alarms on the unchanged tree, not as blindness.

import (
	"bytes"
	"encoding/json"
	"fmt"
	"os"
	"os/exec"
	"path/filepath"
	"sync"

	kit "github.com/sourcegraph/zoekt/internal/verifkit"
)

func c19TemplateName(k, fm, n, ballastLines int) string {
	if k == c19BallastKey {
		return fmt.Sprintf("c19t-k99-b%d", ballastLines)
	}
	return fmt.Sprintf("c19t-k%d-m%d-n%d", k, fm, n)
}

func c19TemplatePath(dir, name string) string {
	return filepath.Join(dir, name+"_v16.00000.zoekt")
}

var c19BallastChoices = []int{0, 0, 150, 600}

// c19BuildTemplates runs in the parent.
func c19BuildTemplates(rec *kit.Rec) (string, error) {
	bin := filepath.Join(os.Getenv("VERIF_BIN"), "zoekt-index")
	if _, err := os.Stat(bin); err != nil {
		return "", fmt.Errorf("zoekt-index binary: %w", err)
	}
	dir := filepath.Join(rec.Work, "templates")
	src := filepath.Join(rec.Work, "template-src")
	if err := os.MkdirAll(dir, 0o755); err != nil {
		return "", err
	}
	defer os.RemoveAll(src)
	type job struct{ name, srcdir, meta string }
	var jobs []job
	prepare := func(k, fm, n, ballast int) error {
		name := c19TemplateName(k, fm, n, ballast)
		sd := filepath.Join(src, name)
		if err := os.MkdirAll(sd, 0o755); err != nil {
			return err
		}
		for i := 0; i < n; i++ {
			if err := os.WriteFile(filepath.Join(sd, c19DocName(k, c19PH, fm, i, n)), c19GenContent(k, c19PH, fm, i, n), 0o644); err != nil {
				return err
			}
		}
		b, err := json.Marshal(c19Repo(k, c19PH, fm))
		if err != nil {
			return err
		}
		mp := filepath.Join(src, name+".meta.json")
		if err := os.WriteFile(mp, b, 0o644); err != nil {
			return err
		}
		jobs = append(jobs, job{name, sd, mp})
		return nil
	}
	for k := range c19ClassOrder {
		fms := []int{16}
		if c19ClassOrder[k] == "F" {
			fms = []int{16, 17, 18}
		}
		for _, fm := range fms {
			for n := 3; n <= 6; n++ {
				if err := prepare(k, fm, n, 0); err != nil {
					return "", err
				}
			}
		}
	}
	for _, lines := range c19BallastChoices {
		if lines == 0 {
			continue
		}
		c19BallastLines = lines // only the parent's sequential preparation reads it
		if err := prepare(c19BallastKey, 16, 2, lines); err != nil {
			return "", err
		}
	}
	c19BallastLines = 0
	var (
		wg    sync.WaitGroup
		mu    sync.Mutex
		first error
		sem   = make(chan struct{}, 8)
	)
	for _, j := range jobs {
		wg.Add(1)
		sem <- struct{}{}
		go func(j job) {
			defer wg.Done()
			defer func() { <-sem }()
			cmd := exec.Command(bin, "-index", dir, "-shard_prefix_override", j.name, "-meta", j.meta, "-parallelism", "1", "-disable_ctags", j.srcdir)
			out, err := cmd.CombinedOutput()
			if err == nil {
				_, err = os.Stat(c19TemplatePath(dir, j.name))
			}
			if err != nil {
				mu.Lock()
				if first == nil {
					first = fmt.Errorf("zoekt-index %s: %v: %s", j.name, err, out)
				}
				mu.Unlock()
			}
		}(j)
	}
	wg.Wait()
	return dir, first
}

type c19Template struct {
	raw    []byte
	n      int
	verPos []int
	crcPos []int // by document index
}

var c19Templates sync.Map // name -> *c19Template

func c19AllIndex(b, sep []byte) []int {
	var out []int
	for off := 0; ; {
		i := bytes.Index(b[off:], sep)
		if i < 0 {
			return out
		}
		out = append(out, off+i)
		off += i + len(sep)
	}
}

// c19GetTemplate runs in a child (C19_TEMPLATES names the directory).
func c19GetTemplate(k, fm, n int) (*c19Template, error) {
	name := c19TemplateName(k, fm, n, c19BallastLines)
	if t, ok := c19Templates.Load(name); ok {
		return t.(*c19Template), nil
	}
	raw, err := os.ReadFile(c19TemplatePath(os.Getenv("C19_TEMPLATES"), name))
	if err != nil {
		return nil, err
	}
	t := &c19Template{raw: raw, n: n}
	if k != c19BallastKey {
		t.verPos = c19AllIndex(raw, []byte(c19Ver(c19PH)))
		// per document: name, first line, last line; repository: branch version, c19ver
		if len(t.verPos) != 3*n+2 {
			return nil, fmt.Errorf("template %s: placeholder version found %d times, expected %d", name, len(t.verPos), 3*n+2)
		}
		for i := 0; i < n; i++ {
			pos := c19AllIndex(raw, c19Expected(k, c19PH, fm, i, n).crc)
			if len(pos) != 1 {
				return nil, fmt.Errorf("template %s: checksum of document %d found %d times", name, i, len(pos))
			}
			t.crcPos = append(t.crcPos, pos[0])
		}
	}
	c19Templates.Store(name, t)
	return t, nil
}

func (t *c19Template) patch(k, v, fm int) []byte {
	out := bytes.Clone(t.raw)
	if k == c19BallastKey {
		return out
	}
	ver := c19Ver(v)
	for _, p := range t.verPos {
		copy(out[p:], ver)
	}
	for i, p := range t.crcPos {
		copy(out[p:], c19Expected(k, v, fm, i, t.n).crc)
	}
	return out
}
