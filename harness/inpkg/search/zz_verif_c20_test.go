package search

// C20: the search scheduler bounds concurrency and never leaks slots.
//
// Runtime monitor for search/sched.go (multiScheduler / sema / process). Three
// workloads drive the real code; the monitor keeps its own occupancy counters that
// are updated at the client boundary only:
//
//	enter(q)  AFTER  Acquire / a moving Yield returned       (slot is certainly held)
//	leave(q)  BEFORE Release / a Yield that will move starts (slot is certainly still held)
//
// so the monitor's occupancy is a lower bound of the real one: monitor > capacity
// proves that more than `capacity` searches held a slot of that queue at once.
//
//	stress    4..64 goroutines: acquire -> k x yield -> release on two multiScheduler
//	          values (interactiveDuration 0 and 1h) that share the same two semas,
//	          capacities 1..4, contexts cancelled at random logical points.
//	directed  deterministic scripts that saturate a queue with gated holders, let
//	          others queue behind them (observed through the sema's own "queued"
//	          gauge), cancel a subset while queued, then drain.
//	sharded   real shardedSearcher Search/StreamSearch/List over fake shards with
//	          capacity 1..2; the fake shards count the requests that are inside a
//	          shard call (= hold a slot) per queue.
//
// At every quiescent point the sema's own state is read white-box: the weighted
// semaphore must be completely free (TryAcquire(capacity)), the running/queued
// gauges must be back at their base and the running counter must have advanced by
// exactly the number of acquisitions seen at the client boundary.
//
// Wall-clock is never a verdict: the only timers are stall watchdogs whose firing
// makes the scenario inconclusive (everything is cancelled and the quiescence
// checks, which are logical, still run).

import (
	"context"
	"fmt"
	"math/rand/v2"
	"runtime"
	"sort"
	"strings"
	"sync"
	"sync/atomic"
	"testing"
	"time"

	"github.com/prometheus/client_golang/prometheus"
	dto "github.com/prometheus/client_model/go"

	"github.com/sourcegraph/zoekt"
	kit "github.com/sourcegraph/zoekt/internal/verifkit"
	"github.com/sourcegraph/zoekt/query"
)

const (
	c20I = 0 // interactive queue
	c20B = 1 // batch queue
)

var c20QName = [2]string{"interactive", "batch"}

func c20Gauge(g prometheus.Gauge) int64 {
	var m dto.Metric
	_ = g.Write(&m)
	return int64(m.GetGauge().GetValue())
}

func c20Counter(c prometheus.Counter) int64 {
	var m dto.Metric
	_ = c.Write(&m)
	return int64(m.GetCounter().GetValue())
}

// c20Mon is the monitor of one scenario (one pair of semas).
type c20Mon struct {
	rec  *kit.Rec
	kind string
	cap  [2]int64
	sem  [2]*sema

	occ [2]atomic.Int64
	max [2]atomic.Int64
	acq [2]atomic.Int64
	rel [2]atomic.Int64

	acqFailed, cancelQueuedI, yieldMoved, yieldFailed, yieldFailedQueued, yieldNoop atomic.Int64
	preCancelled, betweenCancelled                                                  atomic.Int64

	baseRunning, baseQueued, baseRunTotal [2]int64

	desc func() any // witness (scenario description)
}

func c20NewMon(rec *kit.Rec, kind string, capI, capB int64) *c20Mon {
	return c20NewMonSemas(rec, kind, capI, capB, newSema(capI, "interactive"), newSema(capB, "batch"))
}

func c20NewMonSemas(rec *kit.Rec, kind string, capI, capB int64, semI, semB *sema) *c20Mon {
	m := &c20Mon{rec: rec, kind: kind, cap: [2]int64{capI, capB}}
	m.sem[c20I] = semI
	m.sem[c20B] = semB
	m.rebase()
	return m
}

// rebase reads the (process-global, per queue type) prometheus state of the semas;
// only called at quiescence.
func (m *c20Mon) rebase() {
	for q := 0; q < 2; q++ {
		m.baseRunning[q] = c20Gauge(m.sem[q].metricRunning.gauge)
		m.baseQueued[q] = c20Gauge(m.sem[q].metricQueued.gauge)
		m.baseRunTotal[q] = c20Counter(m.sem[q].metricRunning.counter)
	}
}

func (m *c20Mon) queued(q int) int64 { return c20Gauge(m.sem[q].metricQueued.gauge) - m.baseQueued[q] }
func (m *c20Mon) running(q int) int64 {
	return c20Gauge(m.sem[q].metricRunning.gauge) - m.baseRunning[q]
}

func (m *c20Mon) witness(extra map[string]any) any {
	w := map[string]any{"kind": m.kind, "cap_interactive": m.cap[0], "cap_batch": m.cap[1]}
	if m.desc != nil {
		w["scenario"] = m.desc()
	}
	for k, v := range extra {
		w[k] = v
	}
	return w
}

func (m *c20Mon) enter(q int) {
	v := m.occ[q].Add(1)
	m.acq[q].Add(1)
	for {
		old := m.max[q].Load()
		if v <= old || m.max[q].CompareAndSwap(old, v) {
			break
		}
	}
	if v > m.cap[q] {
		m.rec.Violation("occupancy above capacity/"+c20QName[q]+"/"+m.kind,
			fmt.Sprintf("%d searches hold a %s slot at the same time, capacity is %d", v, c20QName[q], m.cap[q]),
			m.witness(map[string]any{"occupancy": v}))
	}
}

func (m *c20Mon) leave(q int) {
	m.rel[q].Add(1)
	m.occ[q].Add(-1)
}

// quiesce runs the checks that are only meaningful when no process exists.
func (m *c20Mon) quiesce(where string) {
	for q := 0; q < 2; q++ {
		if v := m.occ[q].Load(); v != 0 || m.acq[q].Load() != m.rel[q].Load() {
			m.rec.Violation("harness/monitor occupancy non-zero at quiescence", fmt.Sprintf("%s: occ=%d acq=%d rel=%d", c20QName[q], v, m.acq[q].Load(), m.rel[q].Load()), m.witness(nil))
		}
		// the weighted semaphore itself: completely free <=> TryAcquire(capacity).
		if m.sem[q].sem.TryAcquire(m.cap[q]) {
			m.sem[q].sem.Release(m.cap[q])
		} else {
			m.rec.Violation("slot leaked at quiescence/"+c20QName[q]+"/"+m.kind,
				fmt.Sprintf("%s: after every process called Release the %s semaphore is not completely free (TryAcquire(%d) failed)", where, c20QName[q], m.cap[q]),
				m.witness(map[string]any{"where": where}))
		}
		if r, w := m.running(q), m.queued(q); r != 0 || w != 0 {
			m.rec.Violation("sema counters non-zero at quiescence/"+c20QName[q]+"/"+m.kind,
				fmt.Sprintf("%s: %s sema reports running=%d queued=%d at quiescence (acquired-released per the sema's own gauge)", where, c20QName[q], r, w),
				m.witness(map[string]any{"where": where, "running": r, "queued": w}))
		}
		if d := c20Counter(m.sem[q].metricRunning.counter) - m.baseRunTotal[q]; d != m.acq[q].Load() {
			m.rec.Violation("acquisitions disagree with client boundary/"+c20QName[q]+"/"+m.kind,
				fmt.Sprintf("%s: the %s sema granted %d slots, the clients saw %d successful acquisitions", where, c20QName[q], d, m.acq[q].Load()),
				m.witness(map[string]any{"where": where}))
		}
	}
}

func (m *c20Mon) evidence() {
	r := m.rec
	r.Max("max_occ_interactive_"+m.kind, m.max[c20I].Load())
	r.Max("max_occ_batch_"+m.kind, m.max[c20B].Load())
	if m.max[c20I].Load() == m.cap[c20I] {
		r.Count("scenarios_interactive_saturated", 1)
	}
	if m.max[c20B].Load() == m.cap[c20B] {
		r.Count("scenarios_batch_saturated", 1)
	}
	r.Count("acquired_interactive", m.acq[c20I].Load())
	r.Count("acquired_batch", m.acq[c20B].Load())
	r.Count("released_interactive", m.rel[c20I].Load())
	r.Count("released_batch", m.rel[c20B].Load())
	r.Count("acquire_failed", m.acqFailed.Load())
	r.Count("cancel_while_queued_interactive", m.cancelQueuedI.Load())
	r.Count("cancel_before_acquire", m.preCancelled.Load())
	r.Count("cancel_between_yields", m.betweenCancelled.Load())
	r.Count("yield_moved_to_batch", m.yieldMoved.Load())
	r.Count("yield_failed", m.yieldFailed.Load())
	r.Count("yield_failed_cancel_while_queued_batch", m.yieldFailedQueued.Load())
	r.Count("yield_noop", m.yieldNoop.Load())
}

// ---------------------------------------------------------------------------------
// workers

const (
	c20StIdle int32 = iota
	c20StInAcquire
	c20StRunning
	c20StAtGate
	c20StDone
)

// c20Plan is the (seed-determined) behaviour of one process.
type c20Plan struct {
	Dur0       bool   `json:"dur0"`   // which of the two schedulers: interactiveDuration 0 / 1h
	K          int    `json:"yields"` // number of Yield calls
	Cancel     string `json:"cancel"` // "", "before", "inAcquire", "between", "inYield", "ext"
	J          int    `json:"j"`      // yield index for between / inYield
	Delay      int    `json:"delay"`  // Gosched rounds of the asynchronous canceller
	Spin       int    `json:"spin"`
	RetryYield bool   `json:"retry_yield"` // keep calling Yield after it failed (streamSearch does)
	Gate       string `json:"gate"`        // "", "afterAcquire", "afterYield"
	// YieldOwnCtx: Yield is called with a context of its own that stays live while the
	// plan cancels the context Acquire was called with (streamSearch passes its own
	// context to every Yield; Acquire and Yield take separate context arguments)
	YieldOwnCtx bool `json:"yield_own_ctx"`
}

type c20Worker struct {
	id     int
	plan   c20Plan
	ctx    context.Context // passed to Acquire
	yctx   context.Context // passed to Yield (== ctx unless plan.YieldOwnCtx)
	cancel context.CancelFunc
	// cancelPlan is what the plan's cancellation points call: the Acquire context only
	cancelPlan context.CancelFunc
	st         atomic.Int32
	yields     atomic.Int32 // number of Yield calls started
	gate       chan struct{}

	acqErr   bool
	yieldErr bool
}

func c20Spin(n int) {
	for i := 0; i < n; i++ {
		runtime.Gosched()
	}
}

func c20PanicViolation(m *c20Mon, w *c20Worker, op, msg, stack string) {
	m.rec.Violation("panic/"+op+"/"+kit.PanicSite(stack)+"/"+kit.MsgClass(msg),
		fmt.Sprintf("%s panicked: %s", op, msg), m.witness(map[string]any{"worker": w.id, "plan": w.plan, "stack": c20Trim(stack)}))
}

func c20Trim(s string) string {
	if len(s) > 3000 {
		return s[:3000]
	}
	return s
}

// run is one process: acquire -> k x yield -> release.
func (w *c20Worker) run(m *c20Mon, scheds [2]*multiScheduler) {
	defer w.st.Store(c20StDone)
	p := w.plan
	sched := scheds[1]
	if p.Dur0 {
		sched = scheds[0]
	}
	if p.Cancel == "before" {
		w.cancelPlan()
		m.preCancelled.Add(1)
	}
	c20Spin(p.Spin)
	w.st.Store(c20StInAcquire)
	var proc *process
	var err error
	if msg, stack, pan := kit.Guard(func() { proc, err = sched.Acquire(w.ctx) }); pan {
		c20PanicViolation(m, w, "Acquire", msg, stack)
		return
	}
	if err != nil {
		w.acqErr = true
		m.acqFailed.Add(1)
		if w.ctx.Err() == nil {
			m.rec.Violation("Acquire failed with live context/"+m.kind, fmt.Sprintf("Acquire returned %v while ctx.Err()==nil", err), m.witness(map[string]any{"worker": w.id, "plan": p}))
		}
		if p.Cancel == "inAcquire" || p.Cancel == "ext" {
			m.cancelQueuedI.Add(1)
		}
		return
	}
	held := c20I
	m.enter(c20I)
	w.st.Store(c20StRunning)
	if p.Gate == "afterAcquire" {
		w.st.Store(c20StAtGate)
		<-w.gate
		w.st.Store(c20StRunning)
	}
	for j := 0; j < p.K; j++ {
		c20Spin(p.Spin)
		if p.Cancel == "between" && p.J == j {
			w.cancelPlan()
			m.betweenCancelled.Add(1)
		}
		// process fields are owned by the goroutine that may call Yield; reading
		// them here is what the code itself does at the top of Yield.
		timerLive := proc.yieldTimer != nil
		willMove := timerLive && p.Dur0
		if willMove && held == c20I {
			m.leave(c20I) // Yield is about to give the interactive slot back
			held = -1
		}
		w.yields.Add(1)
		var yerr error
		if msg, stack, pan := kit.Guard(func() { yerr = proc.Yield(w.yctx) }); pan {
			c20PanicViolation(m, w, "Yield", msg, stack)
			return
		}
		moved := timerLive && proc.yieldTimer == nil
		switch {
		case yerr != nil:
			w.yieldErr = true
			m.yieldFailed.Add(1)
			if p.Cancel == "inYield" || p.Cancel == "ext" {
				m.yieldFailedQueued.Add(1)
			}
			if w.yctx.Err() == nil {
				m.rec.Violation("Yield failed with live context/"+m.kind, fmt.Sprintf("Yield returned %v while the context passed to Yield is live (ctx.Err()==nil; own context: %v)", yerr, p.YieldOwnCtx), m.witness(map[string]any{"worker": w.id, "plan": p}))
			}
			if held == c20I {
				// a Yield we did not expect to move anything failed: it can only
				// have failed after giving the interactive slot back.
				m.leave(c20I)
			}
			if held == c20B {
				m.leave(c20B)
			}
			held = -1
		case moved:
			if held == c20I { // moved although the time slice is 1h (not judged, tracked)
				m.leave(c20I)
				m.rec.Count("yield_moved_before_timeslice", 1)
			}
			m.yieldMoved.Add(1)
			held = c20B
			m.enter(c20B)
		default:
			m.yieldNoop.Add(1)
			if held == -1 && timerLive && !w.yieldErr {
				// interactiveDuration 0 but the timer had not fired: still interactive.
				held = c20I
				m.enter(c20I)
				m.rec.Count("yield_dur0_timer_not_exceeded", 1)
			}
		}
		if p.Gate == "afterYield" && j == 0 {
			w.st.Store(c20StAtGate)
			<-w.gate
			w.st.Store(c20StRunning)
		}
		if yerr != nil && !p.RetryYield {
			break
		}
	}
	c20Spin(p.Spin)
	if held >= 0 {
		m.leave(held)
	}
	if msg, stack, pan := kit.Guard(func() { proc.Release() }); pan {
		c20PanicViolation(m, w, "Release", msg, stack)
	}
}

// canceller cancels w at the logical point its plan names.
func (w *c20Worker) canceller() {
	switch w.plan.Cancel {
	case "inAcquire":
		for w.st.Load() < c20StInAcquire {
			runtime.Gosched()
		}
	case "inYield":
		for int(w.yields.Load()) <= w.plan.J && w.st.Load() != c20StDone {
			runtime.Gosched()
		}
	default:
		return
	}
	c20Spin(w.plan.Delay)
	w.cancelPlan()
}

func c20NewWorker(id int, p c20Plan, gate chan struct{}) *c20Worker {
	w := &c20Worker{id: id, plan: p, gate: gate}
	var root context.Context
	root, w.cancel = context.WithCancel(context.Background()) // rescue / end of scenario: everything
	w.ctx, w.cancelPlan = context.WithCancel(root)
	w.yctx = w.ctx
	if p.YieldOwnCtx {
		w.yctx = root
	}
	return w
}

const c20Stall = 20 * time.Second

// c20WaitUntil polls cond (a logical condition); false = stalled (inconclusive).
func c20WaitUntil(cond func() bool) bool {
	deadline := time.Now().Add(c20Stall)
	for i := 1; !cond(); i++ {
		if i%256 == 0 {
			if time.Now().After(deadline) {
				return false
			}
			time.Sleep(20 * time.Microsecond)
		} else {
			runtime.Gosched()
		}
	}
	return true
}

func c20WaitGroup(wg *sync.WaitGroup) bool {
	ch := make(chan struct{})
	go func() { wg.Wait(); close(ch) }()
	select {
	case <-ch:
		return true
	case <-time.After(c20Stall):
		return false
	}
}

func c20Scheds(m *c20Mon) [2]*multiScheduler {
	return [2]*multiScheduler{
		{semInteractive: m.sem[c20I], semBatch: m.sem[c20B], interactiveDuration: 0},
		{semInteractive: m.sem[c20I], semBatch: m.sem[c20B], interactiveDuration: time.Hour},
	}
}

// c20Abort is set when goroutines could not be brought to quiescence; the run stops.
var c20Abort atomic.Bool

// c20Stalls counts stalled scenarios. Stalls are inconclusive, and each costs a full
// watchdog period, so the run stops after the third one (or after the first one once
// a violation is on record: the broken scheduler is then the likely cause).
var c20Stalls atomic.Int64

func c20NoteStall(rec *kit.Rec) {
	n := c20Stalls.Add(1)
	if n >= 3 || rec.Violations() > 0 {
		c20Abort.Store(true)
	}
}

// c20Rescue is called when a scenario stalled: cancel everything, open the gates and
// wait once more so that the (logical) quiescence checks can still run.
func c20Rescue(m *c20Mon, ws []*c20Worker, gates []chan struct{}, wg *sync.WaitGroup, where string) (quiescent bool) {
	m.rec.Count("stalled_scenarios", 1)
	m.rec.Note("stall", map[string]any{"where": where, "scenario": m.witness(nil)})
	defer c20NoteStall(m.rec)
	for _, w := range ws {
		w.cancel()
	}
	for _, g := range gates {
		select {
		case <-g:
		default:
			close(g)
		}
	}
	if !c20WaitGroup(wg) {
		c20Abort.Store(true)
		m.rec.Note("abort", "goroutines still blocked after cancelling every context: "+where)
		return false
	}
	return true
}

func c20RandPlan(r *rand.Rand) c20Plan {
	p := c20Plan{Dur0: r.IntN(2) == 0, K: r.IntN(5), Spin: r.IntN(4), Delay: r.IntN(6), RetryYield: r.IntN(3) == 0}
	switch x := r.IntN(10); {
	case x < 4:
	case x == 4:
		p.Cancel = "before"
	case x < 7:
		p.Cancel = "inAcquire"
	case x < 9:
		if p.K == 0 {
			p.K = 1 + r.IntN(3)
		}
		p.Cancel = "between"
		p.J = r.IntN(p.K)
		p.YieldOwnCtx = r.IntN(2) == 0
	default:
		p.Dur0 = true
		if p.K == 0 {
			p.K = 1 + r.IntN(3)
		}
		p.Cancel = "inYield"
		p.J = 0
	}
	return p
}

func c20PlanDigest(ps []c20Plan) string {
	h := map[string]int{}
	k := 0
	for _, p := range ps {
		c := p.Cancel
		if c == "" {
			c = "none"
		}
		if p.Dur0 {
			c += "0"
		}
		h[c]++
		k += p.K
	}
	var ks []string
	for c, n := range h {
		ks = append(ks, fmt.Sprintf("%s:%d", c, n))
	}
	sort.Strings(ks)
	return fmt.Sprintf("%s/k%d", strings.Join(ks, ","), k)
}

// c20Stress is the random workload.
func c20Stress(rec *kit.Rec, r *rand.Rand, no int) {
	capI, capB := int64(1+r.IntN(4)), int64(1+r.IntN(4))
	n := 4 + r.IntN(61)
	var m *c20Mon
	var scheds [2]*multiScheduler
	if r.IntN(4) == 0 {
		// the production constructor: batch capacity = max(1, interactive/4)
		capI = int64(1 + r.IntN(8))
		ms := newMultiScheduler(capI)
		capB = max(1, capI/4)
		m = c20NewMonSemas(rec, "stress", capI, capB, ms.semInteractive, ms.semBatch)
		scheds = c20Scheds(m)
		ms.interactiveDuration = time.Hour
		scheds[1] = ms
		rec.Count("stress_newMultiScheduler", 1)
	} else {
		m = c20NewMon(rec, "stress", capI, capB)
		scheds = c20Scheds(m)
	}
	plans := make([]c20Plan, n)
	ws := make([]*c20Worker, n)
	for i := range ws {
		plans[i] = c20RandPlan(r)
		ws[i] = c20NewWorker(i, plans[i], nil)
	}
	m.desc = func() any { return map[string]any{"scenario_no": no, "goroutines": n, "plans": plans} }
	var wg sync.WaitGroup
	for _, w := range ws {
		wg.Add(1)
		go func() { defer wg.Done(); w.run(m, scheds) }()
		if w.plan.Cancel == "inAcquire" || w.plan.Cancel == "inYield" {
			wg.Add(1)
			go func() { defer wg.Done(); w.canceller() }()
		}
	}
	if !c20WaitGroup(&wg) {
		if !c20Rescue(m, ws, nil, &wg, "stress") {
			return
		}
	}
	for _, w := range ws {
		w.cancel()
	}
	m.quiesce("stress")
	m.evidence()
	events := m.cancelQueuedI.Load() + m.yieldMoved.Load() + m.yieldFailed.Load()
	rec.Case(fmt.Sprintf("stress|%d|%d|%d|%s", capI, capB, n, c20PlanDigest(plans)),
		m.max[c20I].Load() == capI && events > 0,
		func() any {
			return map[string]any{"kind": "stress", "cap": m.cap, "goroutines": n, "max_occ": []int64{m.max[0].Load(), m.max[1].Load()},
				"cancel_while_queued": m.cancelQueuedI.Load(), "yield_moved": m.yieldMoved.Load(), "yield_failed": m.yieldFailed.Load()}
		})
}

// c20Directed saturates first the interactive and then the batch queue with gated
// holders and cancels processes that are certainly queued behind them.
func c20Directed(rec *kit.Rec, r *rand.Rand, no int) {
	capI, capB := int64(1+r.IntN(4)), int64(1+r.IntN(4))
	m := c20NewMon(rec, "directed", capI, capB)
	scheds := c20Scheds(m)
	var all []*c20Worker
	var plans []c20Plan
	m.desc = func() any { return map[string]any{"scenario_no": no, "plans": plans} }
	var wg sync.WaitGroup
	start := func(p c20Plan, gate chan struct{}) *c20Worker {
		w := c20NewWorker(len(all), p, gate)
		all = append(all, w)
		plans = append(plans, p)
		wg.Add(1)
		go func() { defer wg.Done(); w.run(m, scheds) }()
		return w
	}
	atGate := func(ws []*c20Worker) func() bool {
		return func() bool {
			for _, w := range ws {
				if w.st.Load() != c20StAtGate {
					return false
				}
			}
			return true
		}
	}
	done := func(ws []*c20Worker) func() bool {
		return func() bool {
			for _, w := range ws {
				if w.st.Load() != c20StDone {
					return false
				}
			}
			return true
		}
	}
	gateA, gateB := make(chan struct{}), make(chan struct{})
	gates := []chan struct{}{gateA, gateB}
	fail := func(where string) {
		if c20Rescue(m, all, gates, &wg, "directed/"+where) {
			m.quiesce("directed/" + where + "/after stall")
			m.evidence()
		}
	}

	// ---- phase A: interactive queue full, cancel while queued ----
	var holders []*c20Worker
	for i := int64(0); i < capI; i++ {
		holders = append(holders, start(c20Plan{Dur0: false, K: r.IntN(2), Gate: "afterAcquire", Spin: r.IntN(3)}, gateA))
	}
	if !c20WaitUntil(atGate(holders)) {
		fail("A/holders")
		return
	}
	nW := 1 + r.IntN(int(capI)+3)
	var waiters, cancelled []*c20Worker
	for i := 0; i < nW; i++ {
		p := c20Plan{Dur0: r.IntN(2) == 0, K: r.IntN(3), Spin: r.IntN(3)}
		if r.IntN(2) == 0 {
			p.Cancel = "ext"
		}
		w := start(p, nil)
		waiters = append(waiters, w)
		if p.Cancel == "ext" {
			cancelled = append(cancelled, w)
		}
	}
	if !c20WaitUntil(func() bool { return m.queued(c20I) == int64(nW) }) {
		fail("A/queue")
		return
	}
	for _, w := range cancelled {
		w.cancel()
	}
	if !c20WaitUntil(done(cancelled)) {
		fail("A/cancelled waiters return")
		return
	}
	for _, w := range cancelled {
		if !w.acqErr {
			rec.Violation("cancelled while queued but acquired/directed", "a process cancelled while every interactive slot was held came back from Acquire without error", m.witness(map[string]any{"worker": w.id}))
		}
	}
	close(gateA)
	if !c20WaitGroup(&wg) {
		fail("A/drain")
		return
	}
	m.quiesce("directed/A")

	// ---- phase B: batch queue full, cancel while queued for batch ----
	holders = nil
	for i := int64(0); i < capB; i++ {
		holders = append(holders, start(c20Plan{Dur0: true, K: 1 + r.IntN(2), Gate: "afterYield", Spin: r.IntN(3)}, gateB))
	}
	if !c20WaitUntil(atGate(holders)) {
		fail("B/holders")
		return
	}
	nY := 1 + r.IntN(int(capI)+2)
	if r.IntN(2) == 0 && int64(nY) > capI {
		nY = int(capI)
	}
	var yielders []*c20Worker
	cancelled = nil
	for i := 0; i < nY; i++ {
		p := c20Plan{Dur0: true, K: 1 + r.IntN(3), Spin: r.IntN(3), RetryYield: r.IntN(2) == 0}
		if r.IntN(2) == 0 {
			p.Cancel = "ext"
		}
		w := start(p, nil)
		yielders = append(yielders, w)
		if p.Cancel == "ext" {
			cancelled = append(cancelled, w)
		}
	}
	if !c20WaitUntil(func() bool { return m.queued(c20B) == int64(nY) }) {
		fail(fmt.Sprintf("B/queue(yielders %s interactive capacity)", map[bool]string{true: "<=", false: ">"}[int64(nY) <= capI]))
		return
	}
	// Every yielder has entered the batch queue. A process that was moved there has
	// given its interactive slot back before it started to wait (sema.Release
	// precedes semBatch.Acquire), so the interactive sema must be idle now.
	rec.Count("directed_moved_while_batch_full", int64(nY))
	if run := m.running(c20I); run != 0 {
		rec.Violation("interactive slot still held while queued for batch/directed",
			fmt.Sprintf("%d processes wait in the batch queue, nothing else runs, but the interactive sema still reports %d running", nY, run),
			m.witness(map[string]any{"yielders": nY}))
	} else if m.sem[c20I].sem.TryAcquire(capI) {
		m.sem[c20I].sem.Release(capI)
	} else {
		rec.Violation("interactive slot still held while queued for batch/directed",
			fmt.Sprintf("%d processes wait in the batch queue, nothing else runs, but the interactive semaphore is not free", nY), m.witness(map[string]any{"yielders": nY}))
	}
	for _, w := range cancelled {
		w.cancel()
	}
	if !c20WaitUntil(done(cancelled)) {
		fail("B/cancelled yielders return")
		return
	}
	for _, w := range cancelled {
		if !w.yieldErr {
			rec.Violation("cancelled while queued for batch but moved/directed", "a process cancelled while every batch slot was held came back from Yield without error", m.witness(map[string]any{"worker": w.id}))
		}
	}
	close(gateB)
	if !c20WaitGroup(&wg) {
		fail("B/drain")
		return
	}
	for _, w := range all {
		w.cancel()
	}
	m.quiesce("directed/B")
	m.evidence()
	rec.Case(fmt.Sprintf("directed|%d|%d|%d|%d|%s", capI, capB, nW, nY, c20PlanDigest(plans)),
		m.cancelQueuedI.Load()+m.yieldFailedQueued.Load() > 0,
		func() any {
			return map[string]any{"kind": "directed", "cap": m.cap, "queued_interactive": nW, "queued_batch": nY,
				"cancel_while_queued_interactive": m.cancelQueuedI.Load(), "cancel_while_queued_batch": m.yieldFailedQueued.Load()}
		})
}

// ---------------------------------------------------------------------------------
// real shardedSearcher over fake shards

type c20ReqKey struct{}

type c20Req struct {
	id        int
	queue     int // the queue whose slot the request holds while its shards run
	inflight  int
	seen      int
	cancelAt  int // cancel when the cancelAt-th shard call of this request starts (0 = never)
	cancel    context.CancelFunc
	cancelled bool
}

type c20ShardMon struct {
	m      *c20Mon
	mu     sync.Mutex
	active [2]int
	max    [2]int
	calls  int
}

func (sm *c20ShardMon) enter(rq *c20Req) {
	sm.mu.Lock()
	sm.calls++
	rq.seen++
	if rq.inflight == 0 {
		sm.active[rq.queue]++
		if sm.active[rq.queue] > sm.max[rq.queue] {
			sm.max[rq.queue] = sm.active[rq.queue]
		}
		if int64(sm.active[rq.queue]) > sm.m.cap[rq.queue] {
			sm.m.rec.Violation("occupancy above capacity/"+c20QName[rq.queue]+"/sharded",
				fmt.Sprintf("%d requests of a shardedSearcher run shards under a %s slot at the same time, capacity is %d", sm.active[rq.queue], c20QName[rq.queue], sm.m.cap[rq.queue]),
				sm.m.witness(map[string]any{"active": sm.active[rq.queue]}))
		}
	}
	rq.inflight++
	fire := rq.cancelAt > 0 && rq.seen == rq.cancelAt
	sm.mu.Unlock()
	if fire {
		rq.cancel()
	}
}

func (sm *c20ShardMon) leave(rq *c20Req) {
	sm.mu.Lock()
	rq.inflight--
	if rq.inflight == 0 {
		sm.active[rq.queue]--
	}
	sm.mu.Unlock()
}

type c20Shard struct {
	sm   *c20ShardMon
	name string
	id   uint32
	spin int
}

func (s *c20Shard) track(ctx context.Context) func() {
	rq, _ := ctx.Value(c20ReqKey{}).(*c20Req)
	// A request whose context is done may legitimately run without a slot (Yield
	// failed, streamSearch carries on to let the shards see the cancellation).
	if rq == nil || ctx.Err() != nil {
		return func() {}
	}
	s.sm.enter(rq)
	c20Spin(s.spin)
	return func() { s.sm.leave(rq) }
}

func (s *c20Shard) Search(ctx context.Context, q query.Q, opts *zoekt.SearchOptions) (*zoekt.SearchResult, error) {
	defer s.track(ctx)()
	if ctx.Err() != nil {
		return &zoekt.SearchResult{Stats: zoekt.Stats{ShardsSkipped: 1}}, nil
	}
	return &zoekt.SearchResult{
		Stats: zoekt.Stats{ShardsScanned: 1, FileCount: 1, MatchCount: 1},
		Files: []zoekt.FileMatch{{FileName: s.name + ".txt", Repository: s.name, RepositoryID: s.id}},
	}, nil
}

func (s *c20Shard) List(ctx context.Context, q query.Q, opts *zoekt.ListOptions) (*zoekt.RepoList, error) {
	defer s.track(ctx)()
	return &zoekt.RepoList{Repos: []*zoekt.RepoListEntry{{Repository: zoekt.Repository{Name: s.name, ID: s.id}}}}, nil
}

func (s *c20Shard) Close()         {}
func (s *c20Shard) String() string { return "c20shard:" + s.name }

type c20ReqPlan struct {
	Op       string `json:"op"` // search | stream | list
	Dur0     bool   `json:"dur0"`
	Cancel   string `json:"cancel"` // "", "before", "atShard"
	CancelAt int    `json:"cancel_at"`
	Flush    bool   `json:"flush_wall_time"`
}

func c20Sharded(rec *kit.Rec, r *rand.Rand, no int) {
	capI, capB := int64(1+r.IntN(2)), int64(1+r.IntN(2))
	m := c20NewMon(rec, "sharded", capI, capB)
	scheds := c20Scheds(m)
	sm := &c20ShardMon{m: m}
	nShards := 1 + r.IntN(6)
	shards := map[string]zoekt.Searcher{}
	for i := 0; i < nShards; i++ {
		name := fmt.Sprintf("repo%02d", i)
		shards[name] = &c20Shard{sm: sm, name: name, id: uint32(i + 1), spin: r.IntN(4)}
	}
	var sss [2]*shardedSearcher
	for i := range sss {
		sss[i] = &shardedSearcher{shards: make(map[string]*rankedShard), sched: scheds[i]}
		sss[i].replace(shards)
		sss[i].markReady()
	}
	nG := 4 + r.IntN(21)
	plans := make([][]c20ReqPlan, nG)
	for g := range plans {
		for k := 1 + r.IntN(3); k > 0; k-- {
			p := c20ReqPlan{Op: []string{"search", "stream", "list"}[r.IntN(3)], Dur0: r.IntN(2) == 0, Flush: r.IntN(2) == 0}
			switch r.IntN(5) {
			case 0:
				p.Cancel = "before"
			case 1, 2:
				p.Cancel = "atShard"
				p.CancelAt = 1 + r.IntN(nShards)
			}
			plans[g] = append(plans[g], p)
		}
	}
	m.desc = func() any {
		return map[string]any{"scenario_no": no, "shards": nShards, "goroutines": nG, "plans": plans}
	}
	var failed, okReq atomic.Int64
	var wg sync.WaitGroup
	var cancels []context.CancelFunc
	var cmu sync.Mutex
	for g := 0; g < nG; g++ {
		wg.Add(1)
		go func() {
			defer wg.Done()
			for k, p := range plans[g] {
				rq := &c20Req{id: g*10 + k, queue: c20I}
				ss := sss[1]
				if p.Dur0 {
					ss = sss[0]
					if p.Op != "list" {
						// interactiveDuration 0: streamSearch yields (moves to batch)
						// before it hands out the first shard.
						rq.queue = c20B
					}
				}
				ctx, cancel := context.WithCancel(context.WithValue(context.Background(), c20ReqKey{}, rq))
				rq.cancel = cancel
				cmu.Lock()
				cancels = append(cancels, cancel)
				cmu.Unlock()
				if p.Cancel == "atShard" {
					rq.cancelAt = p.CancelAt
				}
				if p.Cancel == "before" {
					cancel()
				}
				q := &query.Substring{Pattern: "needle"}
				opts := &zoekt.SearchOptions{}
				if p.Flush {
					opts.FlushWallTime = time.Hour
				}
				var err error
				msg, stack, pan := kit.Guard(func() {
					switch p.Op {
					case "search":
						_, err = ss.Search(ctx, q, opts)
					case "stream":
						err = ss.StreamSearch(ctx, q, opts, zoekt.SenderFunc(func(*zoekt.SearchResult) {}))
					default:
						_, err = ss.List(ctx, q, nil)
					}
				})
				if pan {
					rec.Violation("panic/sharded "+p.Op+"/"+kit.PanicSite(stack)+"/"+kit.MsgClass(msg), msg, m.witness(map[string]any{"plan": p, "stack": c20Trim(stack)}))
				}
				if err != nil {
					failed.Add(1)
					if ctx.Err() == nil {
						rec.Violation("request failed with live context/sharded", fmt.Sprintf("%s returned %v while ctx.Err()==nil", p.Op, err), m.witness(map[string]any{"plan": p}))
					}
				} else {
					okReq.Add(1)
				}
				cancel()
			}
		}()
	}
	if !c20WaitGroup(&wg) {
		rec.Count("stalled_scenarios", 1)
		rec.Note("stall", map[string]any{"where": "sharded", "scenario": m.witness(nil)})
		defer c20NoteStall(rec)
		cmu.Lock()
		for _, c := range cancels {
			c()
		}
		cmu.Unlock()
		if !c20WaitGroup(&wg) {
			c20Abort.Store(true)
			return
		}
	}
	// the monitor did not see the acquisitions of this workload; take them from the
	// sema so that the generic quiescence check compares like with like.
	for q := 0; q < 2; q++ {
		d := c20Counter(m.sem[q].metricRunning.counter) - m.baseRunTotal[q]
		m.acq[q].Store(d)
		m.rel[q].Store(d)
	}
	m.quiesce("sharded")
	rec.Max("max_occ_interactive_sharded", int64(sm.max[c20I]))
	rec.Max("max_occ_batch_sharded", int64(sm.max[c20B]))
	rec.Count("sharded_requests_ok", okReq.Load())
	rec.Count("sharded_requests_failed_ctx", failed.Load())
	rec.Count("sharded_shard_calls_under_slot", int64(sm.calls))
	rec.Count("sharded_slots_interactive", m.acq[c20I].Load())
	rec.Count("sharded_slots_batch", m.acq[c20B].Load())
	var kinds []string
	for _, ps := range plans {
		for _, p := range ps {
			kinds = append(kinds, fmt.Sprintf("%s%v%s%d", p.Op[:2], p.Dur0, p.Cancel, p.CancelAt))
		}
	}
	sort.Strings(kinds)
	rec.Case(fmt.Sprintf("sharded|%d|%d|%d|%s", capI, capB, nShards, strings.Join(kinds, ",")),
		int64(sm.max[c20I]) == capI || int64(sm.max[c20B]) == capB,
		func() any {
			return map[string]any{"kind": "sharded", "cap": m.cap, "shards": nShards, "goroutines": nG,
				"max_requests_under_slot": sm.max, "ok": okReq.Load(), "failed_ctx": failed.Load()}
		})
}

func TestVerif_C20(t *testing.T) {
	rec := kit.Open("C20")
	defer rec.Done()
	nStress := rec.N(400, 20000)
	nDirected := rec.N(150, 5000)
	nSharded := rec.N(60, 2000)
	rs, rd, rh := rec.Rand(1), rec.Rand(2), rec.Rand(3)
	// the scenarios run one after the other: the sema gauges are process-global per
	// queue type, and quiescence must be global to read them.
	for i := 0; i < nStress && !c20Abort.Load(); i++ {
		c20Stress(rec, rs, i)
		if i*nDirected/nStress != (i+1)*nDirected/nStress && !c20Abort.Load() {
			c20Directed(rec, rd, i)
		}
		if i*nSharded/nStress != (i+1)*nSharded/nStress && !c20Abort.Load() {
			c20Sharded(rec, rh, i)
		}
	}
	if c20Abort.Load() {
		rec.Note("aborted", "scenarios stalled or could not be brought to quiescence; remaining scenarios skipped (inconclusive)")
	}
}
