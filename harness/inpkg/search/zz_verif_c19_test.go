package search

// C19: shard reloads are safe under concurrent search and converge to disk.
//
// One case = one segment of one stress run; every run is a child process (a read of
// unmapped shard memory is a fatal SIGSEGV, not a panic). A run wires the production
// pieces white-box exactly like newDirectorySearcher does (shardedSearcher + loader +
// DirectoryWatcher + typeRepoSearcher/directorySearcher wrappers) and then runs
//
//	mutators   1-3 goroutines, each owning some of 4-8 shard keys: create, replace by
//	           rename (followed, like Builder.Finish, by the removal of a stale .meta),
//	           delete (shard and .meta in either order), sidecar update (.meta written
//	           by temp + rename, toggling a tombstone or rewriting RawConfig); one key
//	           also has _v17 and _v18 files next to its _v16 file. Every file version
//	           gets its own strictly increasing mtime (logical clock, os.Chtimes).
//	scanner    explicit mode: a goroutine calling DirectoryWatcher.scan() in a loop;
//	           fsnotify mode (every 4th run): the real watcher goroutines.
//	searchers  8-16 goroutines: Search / StreamSearch / List with Whole, line, chunk,
//	           limited and flush options; some keep the answer while a replace and two
//	           GC cycles happen, some are slow consumers inside Send. After the call
//	           returned every byte of the answer is read and compared with the bytes
//	           of the version the file names.
//	gc         runtime.GC() in a loop with SetGCPercent(1..100): drives the finalizers
//	           that munmap replaced shards.
//
// Per answer: each repository shows exactly one complete version (replace-only keys:
// never absent; create/delete/tombstone keys: absent or one complete version), never a
// _v18 file, no crashed shard, no error. Per segment (mutators joined, i.e. the
// directory stopped changing): ONE scan() and then the loaded set, the versions, the
// sidecar state and the watcher's timestamps must equal the disk; at the end of the
// run the answers of a fixed battery must equal those of a freshly loaded searcher.
// Nothing is decided by wall-clock; timers only bound waits (inconclusive when hit).

import (
	"bytes"
	"context"
	"fmt"
	"io"
	"log"
	"math/rand/v2"
	"os"
	"path/filepath"
	"runtime"
	"runtime/debug"
	"sort"
	"strconv"
	"strings"
	"sync"
	"sync/atomic"
	"testing"
	"time"
	"weak"

	sglog "github.com/sourcegraph/log"

	"github.com/sourcegraph/zoekt"
	"github.com/sourcegraph/zoekt/index"
	"github.com/sourcegraph/zoekt/internal/verifhook"
	kit "github.com/sourcegraph/zoekt/internal/verifkit"
	"github.com/sourcegraph/zoekt/query"
)

// c19Cfg is the seed-determined configuration of one run (also the witness header).
type c19Cfg struct {
	Run       int      `json:"run"`
	Seed      uint64   `json:"seed"`
	Tier      string   `json:"tier"`
	Keys      int      `json:"keys"`
	Classes   []string `json:"classes"`
	Searchers int      `json:"searchers"`
	Mutators  int      `json:"mutators"`
	Mode      string   `json:"mode"` // explicit | fsnotify
	Procs     int      `json:"gomaxprocs"`
	Segs      int      `json:"segments"`
	SegOps    int      `json:"ops_per_segment"`
	Ballast   int      `json:"ballast_lines"`
	GCPercent int      `json:"gc_percent"`
	GCPauseUS int      `json:"gc_pause_us"`
	PStore    int      `json:"permille_delay_replace_store"`
	PLoaded   int      `json:"permille_wait_at_search_loaded"`
	PPublish  int      `json:"permille_delay_loader_publish"`
	PBetween  int      `json:"permille_delay_scan_between"`
	// SlowLoad: the initial load batch is stalled once for longer than the 5 s progress
	// interval of loader.load, so that the shards loaded so far are published early
	// and the rest of the batch later (the partial publish path)
	SlowLoad bool `json:"stall_initial_load_batch_beyond_5s"`
}

var c19ClassOrder = []string{"R", "D", "M", "T", "F", "R", "D", "M"}

func c19MakeCfg(seed uint64, run int, tier string) c19Cfg {
	r := kit.NewRand(seed, uint64(5000+run))
	c := c19Cfg{Run: run, Seed: seed, Tier: tier}
	c.Keys = 4 + r.IntN(5)
	c.Classes = c19ClassOrder[:c.Keys]
	c.Searchers = 8 + r.IntN(9)
	c.Mutators = 1 + r.IntN(3)
	c.Mode = "explicit"
	if run%4 == 3 {
		c.Mode = "fsnotify"
	}
	c.Procs = []int{2, 4, 8}[r.IntN(3)]
	c.Segs = 8
	c.SegOps = 250
	c.Ballast = c19BallastChoices[r.IntN(len(c19BallastChoices))]
	c.GCPercent = []int{5, 25, 100}[r.IntN(3)]
	c.GCPauseUS = []int{5000, 10000, 25000}[r.IntN(3)]
	c.PStore = r.IntN(300)
	c.PLoaded = 5 + r.IntN(40)
	c.PPublish = r.IntN(300)
	c.PBetween = r.IntN(500)
	c.SlowLoad = run%4 == 1
	if v, err := strconv.Atoi(os.Getenv("C19_SEGS")); err == nil && v > 0 { // development aid
		c.Segs = v
	}
	return c
}

type c19MetaState struct {
	Seq     int  `json:"seq"`
	BaseVer int  `json:"base_ver"`
	Tomb    bool `json:"tombstone"`
}

type c19FileState struct {
	path   string
	fm     int // format version in the file name: 16, 17, 18
	exists bool
	ver    int
	meta   *c19MetaState
}

type c19Key struct {
	k        int
	class    string
	owner    int
	files    []*c19FileState
	nextVer  int
	nextMeta int
	maxVer   atomic.Int64

	hmu  sync.Mutex
	hist []string
}

func (key *c19Key) note(s string) {
	key.hmu.Lock()
	key.hist = append(key.hist, s)
	if len(key.hist) > 12 {
		key.hist = key.hist[len(key.hist)-12:]
	}
	key.hmu.Unlock()
}

func (key *c19Key) history() []string {
	key.hmu.Lock()
	defer key.hmu.Unlock()
	return append([]string(nil), key.hist...)
}

type c19World struct {
	rec  *kit.Rec
	cfg  c19Cfg
	dir  string
	keys []*c19Key

	ss *shardedSearcher
	tl *loader
	dw *DirectoryWatcher
	sr zoekt.Streamer

	tick       atomic.Int64
	replaceSeq atomic.Int64
	coinCtr    atomic.Uint64
	stopSearch atomic.Bool
	stopGC     atomic.Bool
	mutating   atomic.Bool
	abort      atomic.Bool

	trackMu sync.Mutex
	tracked map[weak.Pointer[rankedShard]]struct{}

	// counters
	ops                                  sync.Map // kind -> *atomic.Int64
	nSearch, nStream, nList              atomic.Int64
	nOverlap, nHeldOver, nConsumerOver   atomic.Int64
	nWaitHit, nWaitMiss, nPointLoaded    atomic.Int64
	nLoaderKey, nSlowLoads               atomic.Int64
	nScans, nBytes, nFiles, nRegress     atomic.Int64
	nAbsentOK, nVersionsWritten, nGC     atomic.Int64
	nErrLogs, nScanStarts, nKeyChecks    atomic.Int64
	nKeyCheckExpired, nsOps, nsKeyChecks atomic.Int64
	verSeen                              sync.Map // [2]int{k,v} -> struct{}
	overlapSeen                          sync.Map // string -> struct{}
	sum                                  atomic.Uint64
	errLogMu                             sync.Mutex
	errLogs                              []string
}

func (w *c19World) op(kind string) {
	c, _ := w.ops.LoadOrStore(kind, new(atomic.Int64))
	c.(*atomic.Int64).Add(1)
}

func (w *c19World) coin(permille int) (bool, uint64) {
	x := w.coinCtr.Add(1)*0x9E3779B97F4A7C15 + w.cfg.Seed*0xD1B54A32D192ED03 + uint64(w.cfg.Run)
	x ^= x >> 31
	x *= 0xBF58476D1CE4E5B9
	x ^= x >> 29
	return int(x%1000) < permille, x >> 12
}

func (w *c19World) harnessErr(what string, err error) {
	w.abort.Store(true)
	w.rec.Violation("harness/"+what, fmt.Sprintf("%s: %v", what, err), map[string]any{"cfg": w.cfg})
}

func (w *c19World) mtime() time.Time {
	return time.Unix(1_700_000_000+w.tick.Add(1), 0)
}

// ---------------------------------------------------------------------------------
// directory mutations

func (w *c19World) writeShard(key *c19Key, f *c19FileState, v int) bool {
	k := key.k
	n := c19DocCount(k, v)
	tp, err := c19GetTemplate(k, f.fm, n)
	if err != nil {
		w.harnessErr("shard template", err)
		return false
	}
	tmp := f.path + "." + strconv.Itoa(v) + ".tmp"
	if err := os.WriteFile(tmp, tp.patch(k, v, f.fm), 0o644); err != nil {
		w.harnessErr("write tmp shard", err)
		return false
	}
	t := w.mtime()
	if err := os.Chtimes(tmp, t, t); err != nil {
		w.harnessErr("chtimes tmp shard", err)
		return false
	}
	key.maxVer.Store(int64(v)) // before the version can become visible
	if err := os.Rename(tmp, f.path); err != nil {
		w.harnessErr("rename shard into place", err)
		return false
	}
	w.nVersionsWritten.Add(1)
	if v > 24 && k != c19BallastKey {
		c19Forget(k, v-24, 16)
		c19Forget(k, v-24, 17)
		c19Forget(k, v-24, 18)
	}
	return true
}

// put creates the file or replaces it by rename; like Builder.Finish it then removes
// a .meta left from the replaced version.
func (w *c19World) put(key *c19Key, f *c19FileState, r *rand.Rand) {
	key.nextVer++
	v := key.nextVer
	kind := "create"
	if f.exists {
		kind = "replace"
	}
	if !w.writeShard(key, f, v) {
		return
	}
	f.exists, f.ver = true, v
	if f.meta != nil {
		kind += "+rmmeta"
		for j := r.IntN(3); j > 0; j-- {
			runtime.Gosched()
		}
		if err := os.Remove(f.path + ".meta"); err != nil {
			w.harnessErr("remove stale sidecar", err)
		}
		f.meta = nil
	}
	w.op(kind)
	key.note(fmt.Sprintf("t%d %s m%d -> v%d", w.tick.Load(), kind, f.fm, v))
}

func (w *c19World) del(key *c19Key, f *c19FileState, r *rand.Rand) {
	kind := "delete"
	metaFirst := f.meta != nil && r.IntN(2) == 0
	if f.meta != nil {
		kind = "delete+meta"
	}
	if metaFirst {
		kind = "delete+meta(first)"
		if err := os.Remove(f.path + ".meta"); err != nil {
			w.harnessErr("remove sidecar", err)
		}
		f.meta = nil
		runtime.Gosched()
	}
	if err := os.Remove(f.path); err != nil {
		w.harnessErr("remove shard", err)
	}
	if f.meta != nil {
		if err := os.Remove(f.path + ".meta"); err != nil {
			w.harnessErr("remove sidecar", err)
		}
		f.meta = nil
	}
	f.exists = false
	w.op(kind)
	key.note(fmt.Sprintf("t%d %s m%d (was v%d)", w.tick.Load(), kind, f.fm, f.ver))
}

// sidecar writes <shard>.meta the way setTombstone / mergeMeta do: JSON of the
// repository description of the current version, temp file + rename.
func (w *c19World) sidecar(key *c19Key, f *c19FileState, tomb bool) {
	key.nextMeta++
	seq := key.nextMeta
	repo := c19Repo(key.k, f.ver, f.fm)
	repo.RawConfig["c19meta"] = strconv.Itoa(seq)
	repo.Tombstone = tomb
	tmp, final, err := index.JsonMarshalRepoMetaTemp(f.path, repo)
	if err != nil {
		w.harnessErr("write sidecar", err)
		return
	}
	t := w.mtime()
	if err := os.Chtimes(tmp, t, t); err != nil {
		w.harnessErr("chtimes sidecar", err)
		return
	}
	if err := os.Rename(tmp, final); err != nil {
		w.harnessErr("rename sidecar", err)
		return
	}
	f.meta = &c19MetaState{Seq: seq, BaseVer: f.ver, Tomb: tomb}
	kind := "sidecar"
	if tomb {
		kind = "sidecar-tombstone"
	}
	w.op(kind)
	key.note(fmt.Sprintf("t%d %s m%d seq%d for v%d", w.tick.Load(), kind, f.fm, seq, f.ver))
}

func (w *c19World) doOp(key *c19Key, r *rand.Rand) {
	x := r.IntN(10)
	f := key.files[0]
	switch key.class {
	case "R":
		w.put(key, f, r)
	case "M":
		if x < 6 {
			w.put(key, f, r)
		} else {
			w.sidecar(key, f, false)
		}
	case "T":
		if x < 5 {
			w.put(key, f, r)
		} else {
			w.sidecar(key, f, !(f.meta != nil && f.meta.Tomb))
		}
	case "D":
		switch {
		case !f.exists:
			w.put(key, f, r)
		case x < 4:
			w.put(key, f, r)
		case x < 7:
			w.del(key, f, r)
		default:
			w.sidecar(key, f, r.IntN(3) == 0)
		}
	case "F":
		switch {
		case x < 3:
			w.put(key, f, r)
		case x < 8:
			f = key.files[1]
			y := r.IntN(10)
			switch {
			case !f.exists || y < 4:
				w.put(key, f, r)
			case y < 7:
				w.del(key, f, r)
			default:
				w.sidecar(key, f, r.IntN(4) == 0)
			}
		default:
			f = key.files[2]
			if !f.exists || r.IntN(2) == 0 {
				w.put(key, f, r)
			} else {
				w.del(key, f, r)
			}
		}
	}
}

// ---------------------------------------------------------------------------------
// hooks, GC, tracking

// waitReplaceGC: mode 1 = two GC cycles; mode 2 = first wait (bounded, only while the
// directory is being mutated) until another replace() published, then two GC cycles.
// Afterwards the finalizer goroutine is given a chance to run.
func (w *c19World) waitReplaceGC(mode int) {
	if mode == 0 {
		return
	}
	if mode == 2 && w.mutating.Load() {
		s := w.replaceSeq.Load()
		deadline := time.Now().Add(20 * time.Millisecond)
		hit := false
		for i := 0; w.mutating.Load(); i++ {
			if w.replaceSeq.Load() > s {
				hit = true
				break
			}
			if i%8 == 7 && time.Now().After(deadline) {
				break
			}
			time.Sleep(100 * time.Microsecond)
		}
		if hit {
			w.nWaitHit.Add(1)
		} else {
			w.nWaitMiss.Add(1)
		}
	}
	runtime.GC()
	runtime.GC()
	w.nGC.Add(2)
	time.Sleep(100 * time.Microsecond)
}

func (w *c19World) point(name string) {
	switch name {
	case "replace.store":
		w.replaceSeq.Add(1)
		if yes, x := w.coin(w.cfg.PStore); yes {
			for j := x % 24; j > 0; j-- {
				runtime.Gosched()
			}
		}
	case "search.loaded":
		w.nPointLoaded.Add(1)
		if yes, _ := w.coin(w.cfg.PLoaded); yes && w.mutating.Load() {
			w.waitReplaceGC(2)
		}
	case "loader.publish":
		if yes, x := w.coin(w.cfg.PPublish); yes {
			time.Sleep(time.Duration(x%300) * time.Microsecond)
		}
	case "scan.between":
		if yes, x := w.coin(w.cfg.PBetween); yes {
			time.Sleep(time.Duration(x%500) * time.Microsecond)
		}
	case "loader.key":
		// third key of the first batch: two shards are loaded, the rest follows after
		// the stall (the real clock is the only way to reach this path: time.Since in load)
		if w.cfg.SlowLoad && w.nLoaderKey.Add(1) == 3 {
			time.Sleep(5200 * time.Millisecond)
			w.nSlowLoads.Add(1)
		}
	}
}

func (w *c19World) track() {
	w.trackMu.Lock()
	w.ss.mu.Lock()
	for _, r := range w.ss.shards {
		w.tracked[weak.Make(r)] = struct{}{}
	}
	w.ss.mu.Unlock()
	w.trackMu.Unlock()
}

func (w *c19World) gcLoop(done chan struct{}) {
	defer close(done)
	for !w.stopGC.Load() {
		runtime.GC()
		w.nGC.Add(1)
		w.track()
		if w.cfg.GCPauseUS > 0 {
			time.Sleep(time.Duration(w.cfg.GCPauseUS) * time.Microsecond)
		} else {
			runtime.Gosched()
		}
	}
}

func (w *c19World) scanLoop(stop *atomic.Bool, done chan struct{}) {
	defer close(done)
	for !stop.Load() {
		w.nScanStarts.Add(1)
		if err := w.dw.scan(); err != nil {
			w.harnessErr("scan", err)
			return
		}
		w.nScans.Add(1)
		w.track()
		_, x := w.coin(0)
		time.Sleep(time.Duration(500+x%2500) * time.Microsecond)
	}
}

type c19LogFilter struct{ w *c19World }

func (l c19LogFilter) Write(p []byte) (int, error) {
	if bytes.Contains(p, []byte("[ERROR]")) || bytes.Contains(p, []byte("WARN")) {
		l.w.nErrLogs.Add(1)
		l.w.errLogMu.Lock()
		if len(l.w.errLogs) < 5 {
			l.w.errLogs = append(l.w.errLogs, strings.TrimSpace(string(p)))
		}
		l.w.errLogMu.Unlock()
	}
	return len(p), nil
}

// ---------------------------------------------------------------------------------
// searchers

func (w *c19World) keyByNo(k int) *c19Key {
	if k >= 0 && k < len(w.keys) {
		return w.keys[k]
	}
	return nil
}

func (w *c19World) absentOK(k int) bool {
	if k == c19BallastKey {
		return false
	}
	c := w.keys[k].class
	return c != "R" && c != "M"
}

func (w *c19World) maxVer(k int) int {
	if key := w.keyByNo(k); key != nil {
		return int(key.maxVer.Load())
	}
	return 1 << 30
}

func (w *c19World) report(where string, p *c19Plan, faults []c19Fault) {
	for _, f := range faults {
		hist := map[string]any{}
		for _, key := range w.keys {
			hist[fmt.Sprintf("key%d(%s)", key.k, key.class)] = key.history()
		}
		w.rec.Violation(f.sig, where+": "+f.what, map[string]any{"cfg": w.cfg, "plan": p, "detail": f.detail, "recent_ops_per_key": hist, "tick": w.tick.Load()})
	}
}

func c19SetSig(a *c19Answer) string {
	var l []string
	for k, o := range a.keys {
		for v := range o.vers {
			l = append(l, fmt.Sprintf("%d:%d", k, v))
		}
	}
	sort.Strings(l)
	return strings.Join(l, ",")
}

func (w *c19World) oneSearch(p *c19Plan, last map[int]int) {
	var onFiles func()
	var consumerOver atomic.Bool // Send may run on the flush timer's goroutine
	if p.Consumer > 0 {
		onFiles = func() {
			s := w.replaceSeq.Load()
			w.waitReplaceGC(p.Consumer)
			if w.replaceSeq.Load() > s {
				consumerOver.Store(true)
			}
		}
	}
	before := w.replaceSeq.Load()
	var (
		files []zoekt.FileMatch
		stats zoekt.Stats
		rl    *zoekt.RepoList
		err   error
	)
	msg, stack, pan := kit.Guard(func() { files, stats, rl, err = c19Run(w.sr, p, onFiles) })
	mid := w.replaceSeq.Load()
	if pan {
		w.rec.Violation("panic/"+p.Op+"/"+kit.PanicSite(stack)+"/"+kit.MsgClass(msg), "a search panicked: "+msg, map[string]any{"cfg": w.cfg, "plan": p, "stack": stack})
		return
	}
	if err != nil {
		w.report("concurrent "+p.kind(), p, []c19Fault{{"search returned an error/" + p.Op, fmt.Sprintf("%s returned %v with a live context", p.kind(), err), nil}})
		return
	}
	// the client keeps the answer while shards are replaced and collected
	w.waitReplaceGC(p.Hold)
	after := w.replaceSeq.Load()
	switch p.Op {
	case "search":
		w.nSearch.Add(1)
	case "stream":
		w.nStream.Add(1)
	default:
		w.nList.Add(1)
	}
	if mid > before {
		w.nOverlap.Add(1)
	}
	if after > mid {
		w.nHeldOver.Add(1)
	}
	if consumerOver.Load() {
		w.nConsumerOver.Add(1)
	}
	if p.Op == "list" {
		w.report("concurrent "+p.kind(), p, w.judgeList(p, rl, false))
		return
	}
	a, faults := c19ReadFiles(p, files)
	faults = append(faults, c19JudgeAnswer(p, a, len(w.keys), w.cfg.Ballast > 0, w.absentOK, w.maxVer)...)
	if stats.Crashes > 0 {
		faults = append(faults, c19Fault{"answer reports a crashed shard/" + p.Op, fmt.Sprintf("Stats.Crashes = %d after the initial load completed", stats.Crashes), nil})
	}
	w.report("concurrent "+p.kind(), p, faults)
	w.nBytes.Add(int64(a.bytes))
	w.nFiles.Add(int64(a.files))
	w.sum.Add(a.sum)
	for k, o := range a.keys {
		for v := range o.vers {
			w.verSeen.LoadOrStore([2]int{k, v}, struct{}{})
			if v < last[k] && w.keyByNo(k) != nil && w.keyByNo(k).class != "F" {
				// observed, not judged: the statement promises no order (F keys
				// legitimately fall back to an older file when the _v17 file goes)
				w.nRegress.Add(1)
			}
			last[k] = v
		}
	}
	if p.Limit == 0 {
		for k := 0; k < len(w.keys); k++ {
			if p.covers(k) && a.keys[k] == nil {
				w.nAbsentOK.Add(1)
			}
		}
	}
	if mid > before && p.Q == "all" {
		w.overlapSeen.LoadOrStore(fmt.Sprintf("%s|%x", p.kind(), c19Hash(c19SetSig(a))), struct{}{})
	}
}

func c19Hash(s string) uint32 {
	var h uint32 = 2166136261
	for i := 0; i < len(s); i++ {
		h = (h ^ uint32(s[i])) * 16777619
	}
	return h
}

// judgeList checks a List answer. exact = the directory is quiescent and converged
// (then the caller compares with the model separately).
func (w *c19World) judgeList(p *c19Plan, rl *zoekt.RepoList, exact bool) []c19Fault {
	var faults []c19Fault
	if rl == nil {
		return []c19Fault{{"search returned an error/list", "List returned a nil result without error", nil}}
	}
	if rl.Crashes > 0 {
		faults = append(faults, c19Fault{"answer reports a crashed shard/list", fmt.Sprintf("RepoList.Crashes = %d after the initial load completed", rl.Crashes), nil})
	}
	seen := map[int]bool{}
	var a c19Answer
	one := func(name string, id uint32, branches []zoekt.RepositoryBranch, e *zoekt.RepoListEntry) {
		k := int(id) - 1
		seen[k] = true
		c19TouchString(&a, name)
		for _, b := range branches {
			c19TouchString(&a, b.Name)
			c19TouchString(&a, b.Version)
		}
		if !p.covers(k) {
			faults = append(faults, c19Fault{"answer holds a repository the query excludes/list", fmt.Sprintf("key %d listed by %s", k, p.kind()), nil})
		}
		if e == nil {
			return
		}
		if e.Stats.Shards != 1 {
			faults = append(faults, c19Fault{"two versions of one repository in one answer/list", fmt.Sprintf("key %d is listed with Stats.Shards = %d (one shard file per repository exists)", k, e.Stats.Shards), nil})
		}
		key := w.keyByNo(k)
		if key != nil && key.class == "R" && len(branches) == 1 {
			// no sidecar is ever written for R keys: metadata and statistics of one
			// entry come from the same shard version.
			v, err := strconv.Atoi(strings.TrimPrefix(branches[0].Version, "v"))
			if err != nil || e.Stats.Documents != c19DocCount(k, v) {
				faults = append(faults, c19Fault{"partial version in one answer/list", fmt.Sprintf("key %d listed at branch version %q with %d documents", k, branches[0].Version, e.Stats.Documents), nil})
			}
		}
	}
	for _, e := range rl.Repos {
		one(e.Repository.Name, e.Repository.ID, e.Repository.Branches, e)
	}
	for id, e := range rl.ReposMap {
		one("", id, e.Branches, nil)
	}
	for k := 0; k < len(w.keys); k++ {
		if p.covers(k) && !seen[k] && !w.absentOK(k) {
			faults = append(faults, c19Fault{"replace-only repository absent from an answer/list", fmt.Sprintf("key %d is not listed by %s", k, p.kind()), nil})
		}
	}
	if w.cfg.Ballast > 0 && p.covers(c19BallastKey) && !seen[c19BallastKey] {
		faults = append(faults, c19Fault{"replace-only repository absent from an answer/list", "the never-touched ballast repository is not listed", nil})
	}
	w.sum.Add(a.sum)
	return faults
}

func (w *c19World) searcher(id int, done *sync.WaitGroup) {
	defer done.Done()
	r := kit.NewRand(w.cfg.Seed, uint64(900000+w.cfg.Run*100+id))
	last := map[int]int{}
	for !w.stopSearch.Load() {
		p := c19RandPlan(r, len(w.keys), w.cfg.Ballast > 0)
		w.oneSearch(&p, last)
		time.Sleep(time.Duration(2000+r.IntN(18000)) * time.Microsecond) // pacing: the mutators set the length of a run
	}
}

// ---------------------------------------------------------------------------------
// convergence

type c19Want struct {
	key *c19Key // nil for the ballast
	f   *c19FileState
}

func (w *c19World) ballastPath() string {
	return filepath.Join(w.dir, fmt.Sprintf("%s_v%d.00000.zoekt", c19RepoName(c19BallastKey), 16))
}

// expectLoaded: per key the newest-format (<= NextIndexFormatVersion) existing file.
func (w *c19World) expectLoaded(only *c19Key) map[string]c19Want {
	out := map[string]c19Want{}
	keys := w.keys
	if only != nil {
		keys = []*c19Key{only}
	}
	for _, key := range keys {
		var best *c19FileState
		for _, f := range key.files {
			if f.exists && f.fm <= index.NextIndexFormatVersion && (best == nil || f.fm > best.fm) {
				best = f
			}
		}
		if best != nil {
			out[best.path] = c19Want{key, best}
		}
	}
	if w.cfg.Ballast > 0 && only == nil {
		out[w.ballastPath()] = c19Want{nil, &c19FileState{path: w.ballastPath(), fm: 16, exists: true, ver: c19PH}}
	}
	return out
}

func (w *c19World) fileByPath(p string) (*c19Key, *c19FileState) {
	for _, key := range w.keys {
		for _, f := range key.files {
			if f.path == p {
				return key, f
			}
		}
	}
	return nil, nil
}

// diff compares the loaded state with the model of the disk. only == nil: every key
// (no mutator may run); only != nil: that key alone (called by the mutator that owns
// it, which is the only writer of its model). timestamps may only be read when no
// other goroutine scans.
func (w *c19World) diff(timestamps bool, only *c19Key) []c19Fault {
	var out []c19Fault
	add := func(sig, what string, detail any) { out = append(out, c19Fault{"convergence/" + sig, what, detail}) }
	// keys whose loaded state is already refuted white-box: the client's view of them
	// is a consequence and is not reported under a second signature.
	explained := map[int]bool{}
	explain := func(p string) {
		if key, _ := w.fileByPath(p); key != nil {
			explained[key.k] = true
		} else {
			explained[c19BallastKey] = true
		}
	}
	w.ss.mu.Lock()
	loaded := make(map[string]*rankedShard, len(w.ss.shards))
	for k, v := range w.ss.shards {
		loaded[k] = v
	}
	w.ss.mu.Unlock()
	ranked := w.ss.getLoaded().shards
	inRanked := map[*rankedShard]bool{}
	for _, r := range ranked {
		inRanked[r] = true
	}
	same := len(ranked) == len(loaded)
	for _, r := range loaded {
		same = same && inRanked[r]
	}
	if !same && only == nil {
		add("published shard list differs from the shard map", fmt.Sprintf("shards map holds %d shards, the published ranked list %d (or other instances)", len(loaded), len(ranked)), nil)
	}
	exp := w.expectLoaded(only)
	base := filepath.Base
	mine := func(p string) bool {
		if only == nil {
			return true
		}
		for _, f := range only.files {
			if f.path == p {
				return true
			}
		}
		return false
	}
	addp := func(p, sig, what string, detail any) { explain(p); add(sig, what, detail) }
	for p, want := range exp {
		if loaded[p] == nil {
			what := "newest-format shard file on disk is not loaded"
			if want.key != nil && len(want.key.files) > 1 {
				what += "/multi-format key"
			}
			addp(p, what, fmt.Sprintf("%s (version %d) is on disk but not in the loaded set", base(p), want.f.ver), nil)
		}
	}
	for p, r := range loaded {
		if !mine(p) {
			continue
		}
		want, ok := exp[p]
		if !ok {
			_, f := w.fileByPath(p)
			switch {
			case f == nil:
				addp(p, "unknown file loaded", base(p), nil)
			case !f.exists:
				addp(p, "deleted shard file still loaded", fmt.Sprintf("%s was removed but is still in the loaded set", base(p)), nil)
			case f.fm > index.NextIndexFormatVersion:
				addp(p, "future-format shard file loaded", fmt.Sprintf("%s is loaded", base(p)), nil)
			default:
				addp(p, "older-format shard file still loaded next to a newer one", fmt.Sprintf("%s is loaded although a newer format of the same name exists", base(p)), nil)
			}
			continue
		}
		f := want.f
		wantTomb := f.meta != nil && f.meta.Tomb
		if r.repos == nil {
			addp(p, "loaded shard without cached repository list", base(p), nil)
			continue
		}
		if wantTomb {
			if len(r.repos) != 0 {
				addp(p, "sidecar on disk not applied", fmt.Sprintf("%s.meta (seq %d) tombstones the repository, the loaded shard still lists it (c19meta=%q)", base(p), f.meta.Seq, r.repos[0].RawConfig["c19meta"]), f.meta)
			}
			continue
		}
		if len(r.repos) == 0 {
			if f.meta == nil {
				addp(p, "removed sidecar still applied", fmt.Sprintf("%s has no .meta on disk, the loaded shard (content version %d on disk) is still tombstoned", base(p), f.ver), nil)
			} else {
				addp(p, "older sidecar still applied", fmt.Sprintf("%s.meta (seq %d) does not tombstone, the loaded shard is tombstoned", base(p), f.meta.Seq), f.meta)
			}
			continue
		}
		repo := r.repos[0]
		gotMeta, wantMeta, wantBase := repo.RawConfig["c19meta"], "", f.ver
		if f.meta != nil {
			wantMeta, wantBase = strconv.Itoa(f.meta.Seq), f.meta.BaseVer
		}
		switch {
		case gotMeta == wantMeta:
		case wantMeta == "":
			addp(p, "removed sidecar still applied", fmt.Sprintf("%s has no .meta on disk, the loaded shard carries the metadata of sidecar seq %s (branch version %s, disk content version %d)", base(p), gotMeta, repo.Branches[0].Version, f.ver), nil)
		case gotMeta == "":
			addp(p, "sidecar on disk not applied", fmt.Sprintf("%s.meta (seq %s) is on disk, the loaded shard carries the shard's own metadata", base(p), wantMeta), f.meta)
		default:
			addp(p, "older sidecar still applied", fmt.Sprintf("%s.meta is seq %s on disk, the loaded shard carries seq %s", base(p), wantMeta, gotMeta), f.meta)
		}
		if gotMeta == wantMeta && repo.RawConfig["c19ver"] != c19Ver(wantBase) {
			addp(p, "stale repository metadata loaded", fmt.Sprintf("%s: loaded metadata is of version %s, disk says %d", base(p), repo.RawConfig["c19ver"], wantBase), nil)
		}
		// content version: ask the loaded shard itself
		sr, err := r.Searcher.Search(context.Background(), &query.Substring{Pattern: "c19 key=", Content: true, CaseSensitive: true}, &zoekt.SearchOptions{})
		if err != nil || len(sr.Files) == 0 {
			addp(p, "loaded shard cannot be searched", fmt.Sprintf("%s: err=%v", base(p), err), nil)
			continue
		}
		_, v, _, _, _, ok := c19ParseName(sr.Files[0].FileName)
		if !ok || v != f.ver {
			addp(p, "stale content version loaded", fmt.Sprintf("%s: loaded content is version %d, the file on disk is version %d", base(p), v, f.ver), nil)
		}
	}
	if timestamps && only == nil {
		for p := range exp {
			if _, ok := w.dw.timestamps[p]; !ok {
				add("watcher timestamps differ from disk", fmt.Sprintf("%s is on disk but has no timestamp entry", base(p)), nil)
			}
		}
		for p := range w.dw.timestamps {
			if _, ok := exp[p]; !ok {
				add("watcher timestamps differ from disk", fmt.Sprintf("%s has a timestamp entry but is not a newest-format file on disk", base(p)), nil)
			}
		}
	}
	// the client's view
	p := c19Plan{Op: "search", Q: "all", Whole: true}
	if only != nil {
		p = c19Plan{Op: "search", Q: "key", K: only.k, Whole: true}
	}
	files, stats, _, err := c19Run(w.sr, &p, nil)
	if err != nil || stats.Crashes > 0 {
		add("search fails at quiescence", fmt.Sprintf("err=%v crashes=%d", err, stats.Crashes), nil)
		return out
	}
	a, faults := c19ReadFiles(&p, files)
	faults = append(faults, c19JudgeAnswer(&p, a, len(w.keys), w.cfg.Ballast > 0, func(int) bool { return true }, nil)...)
	out = append(out, faults...)
	visible := map[int]*c19FileState{}
	for _, want := range exp {
		if want.f.meta != nil && want.f.meta.Tomb {
			continue
		}
		k := c19BallastKey
		if want.key != nil {
			k = want.key.k
		}
		visible[k] = want.f
	}
	for k, f := range visible {
		if explained[k] {
			continue
		}
		o := a.keys[k]
		if o == nil {
			add("search answer differs from disk/repository missing", fmt.Sprintf("key %d (version %d on disk, not tombstoned) is absent from a search at quiescence", k, f.ver), nil)
			continue
		}
		if o.vers[f.ver] == 0 {
			add("search answer differs from disk/stale version", fmt.Sprintf("key %d: search at quiescence shows versions %v, disk holds %d", k, c19SortedInts(o.vers), f.ver), nil)
		}
		wantFV := "v" + c19Ver(f.ver)
		if f.meta != nil {
			wantFV = "v" + c19Ver(f.meta.BaseVer)
		}
		if o.fversion[wantFV] == 0 {
			add("search answer differs from disk/stale branch version", fmt.Sprintf("key %d: files carry branch versions %v, disk metadata says %s", k, o.fversion, wantFV), nil)
		}
	}
	for k := range a.keys {
		if visible[k] == nil && !explained[k] {
			add("search answer differs from disk/repository should be invisible", fmt.Sprintf("key %d is deleted or tombstoned on disk but a search at quiescence returns it", k), nil)
		}
	}
	if only != nil {
		return out
	}
	lp := c19Plan{Op: "list", Q: "listall"}
	_, _, rl, err := c19Run(w.sr, &lp, nil)
	if err != nil {
		add("search fails at quiescence", fmt.Sprintf("List: %v", err), nil)
		return out
	}
	listed := map[int]bool{}
	for _, e := range rl.Repos {
		listed[int(e.Repository.ID)-1] = true
	}
	for k := range visible {
		if !listed[k] && !explained[k] {
			add("list answer differs from disk/repository missing", fmt.Sprintf("key %d", k), nil)
		}
	}
	for k := range listed {
		if visible[k] == nil && !explained[k] {
			add("list answer differs from disk/repository should be invisible", fmt.Sprintf("key %d", k), nil)
		}
	}
	return out
}

func (w *c19World) diskDump() any {
	out := map[string]any{}
	for _, key := range w.keys {
		for _, f := range key.files {
			if f.exists {
				out[filepath.Base(f.path)] = map[string]any{"version": f.ver, "meta": f.meta}
			}
		}
	}
	return out
}

func (w *c19World) reportDiff(where string, diffs []c19Fault) {
	for i := range diffs {
		diffs[i].detail = map[string]any{"detail": diffs[i].detail, "disk": w.diskDump(), "mode": w.cfg.Mode}
	}
	w.report(where, nil, diffs)
}

// checkpoint: the mutators are joined (the directory stopped changing). Returns
// whether convergence was judged.
func (w *c19World) checkpoint(label string) bool {
	if w.cfg.Mode == "explicit" {
		w.nScanStarts.Add(1)
		if err := w.dw.scan(); err != nil {
			w.harnessErr("scan", err)
			return false
		}
		w.nScans.Add(1)
		w.track()
		w.reportDiff("after one scan() at quiescence ("+label+")", w.diff(true, nil))
		return true
	}
	// fsnotify: the watcher has to get there by itself; a generous watchdog bounds the
	// wait and its firing is inconclusive (the final explicit scan decides).
	deadline := time.Now().Add(15 * time.Second)
	for {
		w.track()
		if len(w.diff(false, nil)) == 0 {
			w.rec.Count("fsnotify_checkpoints_converged_by_watcher", 1)
			return true
		}
		if time.Now().After(deadline) {
			w.rec.Count("fsnotify_checkpoints_not_converged_within_watchdog", 1)
			return false
		}
		time.Sleep(2 * time.Millisecond)
	}
}

// keyCheck is the per-key form of the convergence claim (explicit mode): the owner
// of key stops changing it, waits until one complete scan() that STARTED after the
// last change has returned, and then that key must be loaded exactly as it is on
// disk, whatever the other keys are doing. The wait is logical (scan counters); the
// timer only bounds it.
func (w *c19World) keyCheck(key *c19Key) {
	s0 := w.nScanStarts.Load()
	deadline := time.Now().Add(20 * time.Second)
	for i := 0; w.nScans.Load() < s0+1; i++ {
		if w.abort.Load() {
			return
		}
		if i%64 == 63 && time.Now().After(deadline) {
			w.nKeyCheckExpired.Add(1)
			return
		}
		time.Sleep(100 * time.Microsecond)
	}
	w.nKeyChecks.Add(1)
	diffs := w.diff(false, key)
	for i := range diffs {
		var files []any
		for _, f := range key.files {
			if f.exists {
				files = append(files, map[string]any{"file": filepath.Base(f.path), "version": f.ver, "meta": f.meta})
			}
		}
		diffs[i].detail = map[string]any{"detail": diffs[i].detail, "key": key.k, "class": key.class, "disk": files}
	}
	w.report(fmt.Sprintf("key %d unchanged since tick %d and a complete scan() started and returned since", key.k, w.tick.Load()), nil, diffs)
}

func (w *c19World) newWatcherLiteral(tl *loader) *DirectoryWatcher {
	var proto DirectoryWatcher // the value type of timestamps is zoekt's business
	return &DirectoryWatcher{dir: w.dir, timestamps: c19EmptyLike(proto.timestamps), loader: tl,
		ready: make(chan struct{}), quit: make(chan struct{}), stopped: make(chan struct{})}
}

func c19EmptyLike[M ~map[string]V, V any](M) M { return M{} }

func c19MappedRegions(dir string) int {
	b, err := os.ReadFile("/proc/self/maps")
	if err != nil {
		return -1
	}
	return strings.Count(string(b), dir)
}

// ---------------------------------------------------------------------------------
// one run (child process)

func c19Child(rec *kit.Rec) {
	run, _ := strconv.Atoi(kit.ChildArg())
	cfg := c19MakeCfg(rec.Seed, run, rec.Tier)
	// a child must not outlive a parent that was killed by the driver's watchdog
	go func(pp int) {
		for {
			time.Sleep(time.Second)
			if os.Getppid() != pp {
				os.Exit(3)
			}
		}
	}(os.Getppid())
	kit.LogCase(map[string]any{"run": run, "phase": "setup", "cfg": cfg})
	runtime.GOMAXPROCS(cfg.Procs)
	debug.SetGCPercent(cfg.GCPercent)
	c19BallastLines = cfg.Ballast
	shardRecoveryLogger = sglog.NoOp
	w := &c19World{rec: rec, cfg: cfg, dir: filepath.Join(rec.Work, "idx"), tracked: map[weak.Pointer[rankedShard]]struct{}{}}
	log.SetOutput(c19LogFilter{w})
	defer log.SetOutput(io.Discard)
	if err := os.MkdirAll(w.dir, 0o755); err != nil {
		w.harnessErr("mkdir", err)
		return
	}
	defer os.RemoveAll(w.dir)
	r0 := kit.NewRand(cfg.Seed, uint64(700000+run))
	for k, class := range cfg.Classes {
		key := &c19Key{k: k, class: class, owner: k % cfg.Mutators}
		for _, fm := range []int{16, 17, 18} {
			key.files = append(key.files, &c19FileState{fm: fm, path: filepath.Join(w.dir, fmt.Sprintf("%s_v%d.00000.zoekt", c19RepoName(k), fm))})
			if class != "F" {
				break
			}
		}
		w.keys = append(w.keys, key)
		if class != "D" || r0.IntN(2) == 0 {
			w.put(key, key.files[0], r0)
		}
	}
	if cfg.Ballast > 0 {
		bk := &c19Key{k: c19BallastKey}
		w.writeShard(bk, &c19FileState{fm: 16, path: w.ballastPath()}, c19PH)
	}
	if w.abort.Load() {
		return
	}

	// the wiring of newDirectorySearcher
	kit.LogCase(map[string]any{"run": run, "phase": "initial load", "cfg": cfg})
	verifhook.SetPoint(w.point)
	defer verifhook.SetPoint(nil)
	w.ss = newShardedSearcher(int64(cfg.Procs))
	w.tl = &loader{ss: w.ss}
	if cfg.Mode == "explicit" {
		w.dw = w.newWatcherLiteral(w.tl)
		if err := w.dw.scan(); err != nil {
			w.harnessErr("initial scan", err)
			return
		}
	} else {
		dw, err := newDirectoryWatcher(w.dir, w.tl)
		if err == nil {
			err = dw.WaitUntilReady()
		}
		if err != nil {
			w.harnessErr("newDirectoryWatcher", err)
			return
		}
		w.dw = dw
	}
	w.sr = &typeRepoSearcher{Streamer: &directorySearcher{Streamer: w.ss, directoryWatcher: w.dw}}
	if !w.ss.Ready() {
		rec.Violation("not ready after the initial load", "shardedSearcher.Ready() is false after the initial scan returned", map[string]any{"cfg": cfg})
	}
	w.track()
	w.reportDiff("after the initial load", w.diff(cfg.Mode == "explicit", nil))

	gcDone := make(chan struct{})
	go w.gcLoop(gcDone)
	var swg sync.WaitGroup
	for i := 0; i < cfg.Searchers; i++ {
		swg.Add(1)
		go w.searcher(i, &swg)
	}

	mrs := make([]*rand.Rand, cfg.Mutators)
	for m := range mrs {
		mrs[m] = kit.NewRand(cfg.Seed, uint64(800000+run*10+m))
	}
	judgedAll := true
	for seg := 0; seg < cfg.Segs && !w.abort.Load(); seg++ {
		kit.LogCase(map[string]any{"run": run, "phase": fmt.Sprintf("segment %d: mutators + scanner + %d searchers + gc", seg, cfg.Searchers), "cfg": cfg})
		ov0, held0, scans0, rep0 := w.nOverlap.Load(), w.nHeldOver.Load(), w.nScans.Load(), w.replaceSeq.Load()
		var stopScan atomic.Bool
		scanDone := make(chan struct{})
		w.mutating.Store(true)
		if cfg.Mode == "explicit" {
			go w.scanLoop(&stopScan, scanDone)
		} else {
			close(scanDone)
		}
		var mwg sync.WaitGroup
		for m := 0; m < cfg.Mutators; m++ {
			var mine []*c19Key
			for _, key := range w.keys {
				if key.owner == m {
					mine = append(mine, key)
				}
			}
			mwg.Add(1)
			go func(r *rand.Rand, n int) {
				defer mwg.Done()
				for i := 0; i < n && !w.abort.Load(); i++ {
					key := mine[r.IntN(len(mine))]
					t0 := time.Now()
					w.doOp(key, r)
					t1 := time.Now()
					if cfg.Mode == "explicit" && r.IntN(20) == 0 {
						w.keyCheck(key)
					}
					w.nsOps.Add(int64(t1.Sub(t0)))
					w.nsKeyChecks.Add(int64(time.Since(t1)))
					if r.IntN(3) == 0 {
						runtime.Gosched()
					}
				}
			}(mrs[m], cfg.SegOps/cfg.Mutators)
		}
		mwg.Wait()
		w.mutating.Store(false)
		stopScan.Store(true)
		<-scanDone
		kit.LogCase(map[string]any{"run": run, "phase": fmt.Sprintf("checkpoint after segment %d", seg), "cfg": cfg})
		judged := w.checkpoint(fmt.Sprintf("segment %d", seg))
		ov, held := w.nOverlap.Load()-ov0, w.nHeldOver.Load()-held0
		var digest []string
		for _, key := range w.keys {
			digest = append(digest, fmt.Sprintf("%d%s%d.%d", key.k, key.class, key.nextVer, key.nextMeta))
		}
		rec.Case(fmt.Sprintf("run%d|seg%d|%s|k%d s%d m%d p%d b%d|%s", run, seg, cfg.Mode, cfg.Keys, cfg.Searchers, cfg.Mutators, cfg.Procs, cfg.Ballast, strings.Join(digest, ",")),
			judged && ov > 0,
			func() any {
				return map[string]any{"run": run, "segment": seg, "mode": cfg.Mode, "keys": cfg.Classes, "searchers": cfg.Searchers, "mutators": cfg.Mutators,
					"searches_overlapping_a_replace": ov, "answers_held_over_a_replace": held, "scans": w.nScans.Load() - scans0, "replace_calls": w.replaceSeq.Load() - rep0, "versions": digest}
			})
		if !judged {
			judgedAll = false
			break // fsnotify did not get there within the watchdog: go to the deciding explicit scan
		}
	}

	kit.LogCase(map[string]any{"run": run, "phase": "final: stop searchers, Stop(), one scan(), fresh searcher differential", "cfg": cfg})
	w.stopSearch.Store(true)
	swg.Wait()
	if cfg.Mode == "fsnotify" {
		w.dw.Stop() // waits for the watcher's scan goroutine
		rec.Count("fsnotify_runs", 1)
		if judgedAll {
			rec.Count("fsnotify_runs_converged_by_watcher_at_every_checkpoint", 1)
		}
	}
	if !w.abort.Load() {
		if err := w.dw.scan(); err != nil {
			w.harnessErr("final scan", err)
		}
		w.track()
		final := w.diff(true, nil)
		w.reportDiff("after Stop() and one scan() at the end of the run", final)
		if len(final) == 0 {
			w.freshDifferential()
		} else {
			rec.Count("fresh_differentials_skipped(final state already refuted)", 1)
		}
	}
	w.stopGC.Store(true)
	<-gcDone

	// evidence
	for i := 0; i < 3; i++ {
		runtime.GC()
		time.Sleep(time.Millisecond)
	}
	mappedLive := c19MappedRegions(w.dir)
	w.trackMu.Lock()
	collected := 0
	for wp := range w.tracked {
		if wp.Value() == nil {
			collected++
		}
	}
	nTracked := len(w.tracked)
	w.trackMu.Unlock()
	w.ss.Close()
	for i := 0; i < 4; i++ {
		runtime.GC()
		time.Sleep(2 * time.Millisecond)
	}
	rec.Count("runs", 1)
	rec.Count("runs_"+cfg.Mode, 1)
	w.ops.Range(func(k, v any) bool { rec.Count("op_"+k.(string), v.(*atomic.Int64).Load()); return true })
	rec.Count("searches_Search", w.nSearch.Load())
	rec.Count("searches_StreamSearch", w.nStream.Load())
	rec.Count("searches_List", w.nList.Load())
	rec.Count("searches_overlapping_a_replace", w.nOverlap.Load())
	rec.Count("answers_held_by_client_over_a_replace_and_gc", w.nHeldOver.Load())
	rec.Count("slow_consumer_sends_over_a_replace_and_gc", w.nConsumerOver.Load())
	rec.Count("waits_for_replace_hit", w.nWaitHit.Load())
	rec.Count("waits_for_replace_expired", w.nWaitMiss.Load())
	rec.Count("point_search_loaded", w.nPointLoaded.Load())
	rec.Count("initial_load_batches_stalled_beyond_5s(partial publish)", w.nSlowLoads.Load())
	rec.Count("mutator_ms_in_directory_operations", w.nsOps.Load()/1e6)
	rec.Count("mutator_ms_in_per_key_checks", w.nsKeyChecks.Load()/1e6)
	rec.Count("scans", w.nScans.Load())
	rec.Count("per_key_convergence_checks", w.nKeyChecks.Load())
	rec.Count("per_key_convergence_checks_expired(inconclusive)", w.nKeyCheckExpired.Load())
	rec.Count("replace_calls", w.replaceSeq.Load())
	rec.Count("gc_cycles_forced", w.nGC.Load())
	rec.Count("result_bytes_read", w.nBytes.Load())
	rec.Count("result_files_read", w.nFiles.Load())
	rec.Count("versions_written", w.nVersionsWritten.Load())
	rec.Count("ranked_shards_tracked", int64(nTracked))
	rec.Count("ranked_shards_collected(finalizer closes)", int64(collected))
	rec.Count("answers_where_a_deletable_key_was_absent", w.nAbsentOK.Load())
	rec.Count("unjudged_version_regressions_seen_by_one_goroutine", w.nRegress.Load())
	rec.Count("zoekt_error_or_warn_log_lines", w.nErrLogs.Load())
	rec.Max("max_mapped_shard_regions_at_end_of_run", int64(mappedLive))
	rec.Max("max_mapped_shard_regions_after_close_and_gc", int64(c19MappedRegions(w.dir)))
	nSeen := 0
	perKey := map[int]int{}
	w.verSeen.Range(func(k, _ any) bool { nSeen++; perKey[k.([2]int)[0]]++; return true })
	rec.Count("versions_observed_by_searches", int64(nSeen))
	for k, n := range perKey {
		rec.Max(fmt.Sprintf("max_versions_observed_in_one_run_key%d", k), int64(n))
	}
	w.overlapSeen.Range(func(k, _ any) bool {
		rec.Seen("overlaps(search kind|loaded set)", fmt.Sprintf("r%d|%s", run, k.(string)))
		return true
	})
	rec.Seen("modes", cfg.Mode)
	w.errLogMu.Lock()
	if len(w.errLogs) > 0 {
		rec.Note("zoekt_error_logs", map[string]any{"run": run, "first": w.errLogs})
	}
	w.errLogMu.Unlock()
	_ = w.sum.Load()
}

// freshDifferential: a fixed battery on the long-lived searcher and on a searcher
// that loads the same directory now.
func (w *c19World) freshDifferential() {
	ss2 := newShardedSearcher(int64(w.cfg.Procs))
	dw2 := w.newWatcherLiteral(&loader{ss: ss2})
	if err := dw2.scan(); err != nil {
		w.harnessErr("fresh scan", err)
		return
	}
	defer ss2.Close()
	fresh := &typeRepoSearcher{Streamer: &directorySearcher{Streamer: ss2, directoryWatcher: dw2}}
	n := 0
	for _, p := range c19Battery(len(w.keys)) {
		f1, s1, l1, e1 := c19Run(w.sr, &p, nil)
		f2, s2, l2, e2 := c19Run(fresh, &p, nil)
		n++
		if e1 != nil || e2 != nil || s1.Crashes != s2.Crashes {
			w.reportDiff("fresh differential", []c19Fault{{"convergence/answers differ from a freshly loaded searcher/error", fmt.Sprintf("%s: err %v vs %v, crashes %d vs %d", p.kind(), e1, e2, s1.Crashes, s2.Crashes), nil}})
			continue
		}
		var a, b []string
		if p.Op == "list" {
			a, b = c19NormalList(l1), c19NormalList(l2)
		} else {
			a, b = c19Normal(f1), c19Normal(f2)
			_, faults := c19ReadFiles(&p, f1)
			w.report("fresh differential "+p.kind(), &p, faults)
		}
		if strings.Join(a, "\n") != strings.Join(b, "\n") {
			w.reportDiff("fresh differential", []c19Fault{{"convergence/answers differ from a freshly loaded searcher/" + p.Op,
				fmt.Sprintf("%s: the long-lived searcher and a searcher loaded now from the same directory answer differently", p.kind()),
				map[string]any{"plan": p, "long_lived": c19Head(a), "fresh": c19Head(b)}}})
		}
	}
	w.rec.Count("fresh_differential_queries", int64(n))
}

func c19Head(l []string) []string {
	if len(l) > 12 {
		return l[:12]
	}
	return l
}

// ---------------------------------------------------------------------------------
// parent

func TestVerif_C19(t *testing.T) {
	if kit.ChildMode() != "" {
		rec := kit.Open("C19")
		c19Child(rec)
		rec.ChildDone()
		return
	}
	rec := kit.Open("C19")
	defer rec.Done()
	tdir, err := c19BuildTemplates(rec)
	if err != nil {
		rec.Violation("harness/cannot build the shard templates", err.Error(), nil)
		return
	}
	defer os.RemoveAll(tdir)
	env := []string{"C19_TEMPLATES=" + tdir}
	runs := rec.N(12, 400)
	first := 0
	if v, err := strconv.Atoi(os.Getenv("C19_RUNS")); err == nil && v > 0 { // development aid: "first,count" via C19_FIRST / C19_RUNS
		runs = v
		first, _ = strconv.Atoi(os.Getenv("C19_FIRST"))
	}
	par := 6
	sem := make(chan struct{}, par)
	var wg sync.WaitGroup
	var mu sync.Mutex
	for run := first; run < first+runs; run++ {
		sem <- struct{}{}
		wg.Add(1)
		go func(run int) {
			defer wg.Done()
			defer func() { <-sem }()
			cfg := c19MakeCfg(rec.Seed, run, rec.Tier)
			res := rec.RunChild("TestVerif_C19", "run", strconv.Itoa(run), env, 12*time.Minute)
			mu.Lock()
			defer mu.Unlock()
			switch {
			case res.TimedOut:
				rec.Count("children_killed_by_watchdog(inconclusive)", 1)
				rec.Note("child_watchdog", map[string]any{"run": run, "cfg": cfg, "last_phase": res.LastCase})
			case res.Done && (res.Exit == 0 || res.Exit == 66) && res.Signal == "":
				if res.Exit == 66 {
					rec.Count("children_with_race_reports", 1) // the driver turns the reports into violations
				}
			default:
				sig := c19CrashSig(res.Tail)
				tail := res.Tail
				if len(tail) > 6000 {
					tail = tail[:6000]
				}
				rec.Violation("crash/"+sig, fmt.Sprintf("child process of run %d died (exit %d, signal %q): %s", run, res.Exit, res.Signal, sig),
					map[string]any{"cfg": cfg, "last_phase": res.LastCase, "output": tail})
			}
		}(run)
	}
	wg.Wait()
}
