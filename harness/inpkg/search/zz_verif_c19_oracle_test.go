package search

// C19 (part 2): self-describing shard contents, search plans and the per-answer oracle.
//
// Every version v of every shard key k is written so that each document names
// (k, v, file format, i, n) in its file name AND in its content, and the whole
// content is a pure function of that tuple. An answer therefore says exactly which
// version of which shard file it was read from, whether the version is complete, and
// whether the bytes handed to the client are the bytes of that version (bytes that
// alias an mmap which was unmapped fault; bytes that alias a re-used mapping differ).

import (
	"bytes"
	"context"
	"encoding/binary"
	"fmt"
	"hash/crc32"
	"hash/crc64"
	"math/rand/v2"
	"regexp/syntax"
	"sort"
	"strconv"
	"strings"
	"sync"
	"time"
	"unsafe"

	grafanaregexp "github.com/grafana/regexp"

	"github.com/sourcegraph/zoekt"
	"github.com/sourcegraph/zoekt/query"
)

const c19BallastKey = 99

// c19BallastLines is the number of matching lines per ballast document (set once per
// child before any goroutine starts).
var c19BallastLines int

func c19RepoName(k int) string { return "c19repo-" + strconv.Itoa(k) }

// c19DocCount is the known document count of version v.
func c19DocCount(k, v int) int {
	if k == c19BallastKey {
		return 2
	}
	return 3 + v%4
}

// c19Ver renders a version number with fixed width: shard versions are derived from a
// template written by the production indexer by patching these digits (see
// c19Template), so every version of a key has the same layout.
func c19Ver(v int) string { return fmt.Sprintf("%07d", v) }

// c19PH is the version number the templates are built with.
const c19PH = 8675309

func c19DocName(k, v, fm, i, n int) string {
	return fmt.Sprintf("k%d_v%s_m%d_f%dof%d.txt", k, c19Ver(v), fm, i, n)
}

func c19ParseName(name string) (k, v, fm, i, n int, ok bool) {
	if !strings.HasPrefix(name, "k") || !strings.HasSuffix(name, ".txt") {
		return
	}
	p := strings.Split(strings.TrimSuffix(name[1:], ".txt"), "_")
	if len(p) != 4 || len(p[1]) < 2 || len(p[2]) < 2 || len(p[3]) < 2 || p[1][0] != 'v' || p[2][0] != 'm' || p[3][0] != 'f' {
		return
	}
	of := strings.Split(p[3][1:], "of")
	if len(of) != 2 {
		return
	}
	var err [5]error
	k, err[0] = strconv.Atoi(p[0])
	v, err[1] = strconv.Atoi(p[1][1:])
	fm, err[2] = strconv.Atoi(p[2][1:])
	i, err[3] = strconv.Atoi(of[0])
	n, err[4] = strconv.Atoi(of[1])
	for _, e := range err {
		if e != nil {
			return
		}
	}
	ok = true
	return
}

// c19GenContent is the content of document i/n of version v of key k: the first and
// the last line name the version, the filler depends on (k, i, n) only.
func c19GenContent(k, v, fm, i, n int) []byte {
	b := make([]byte, 0, 512)
	ver := c19Ver(v)
	head := func(extra string) {
		b = append(b, "c19 key="...)
		b = strconv.AppendInt(b, int64(k), 10)
		b = append(b, " ver="...)
		b = append(b, ver...)
		b = append(b, " fmt="...)
		b = strconv.AppendInt(b, int64(fm), 10)
		b = append(b, " doc="...)
		b = strconv.AppendInt(b, int64(i), 10)
		b = append(b, '/')
		b = strconv.AppendInt(b, int64(n), 10)
		b = append(b, extra...)
		b = append(b, '\n')
	}
	if k == c19BallastKey {
		for l := 0; l < c19BallastLines; l++ {
			head(" line=" + strconv.Itoa(l))
		}
		return b
	}
	head("")
	x := uint64(k)*1000003 + uint64(n)*7919 + uint64(i)*104729 + 17
	lines := int(x % 10)
	if (k+i+n)%5 == 0 {
		lines += 120 // some documents span several pages of the mapping
	}
	for l := 0; l < lines; l++ {
		x = x*6364136223846793005 + 1442695040888963407
		b = append(b, "filler "...)
		b = strconv.AppendInt(b, int64(k), 10)
		b = append(b, ' ')
		b = strconv.AppendUint(b, x, 16)
		for z := uint64(0); z < x>>59; z++ {
			b = append(b, 'z')
		}
		b = append(b, '\n')
	}
	b = append(b, "c19end key="...)
	b = strconv.AppendInt(b, int64(k), 10)
	b = append(b, " ver="...)
	b = append(b, ver...)
	b = append(b, '\n')
	return b
}

type c19Exp struct {
	content []byte
	crc     []byte
}

var (
	c19ExpCache sync.Map // [5]int -> *c19Exp
	c19CRCTable = crc64.MakeTable(crc64.ISO)
)

func c19Expected(k, v, fm, i, n int) *c19Exp {
	key := [5]int{k, v, fm, i, n}
	if e, ok := c19ExpCache.Load(key); ok {
		return e.(*c19Exp)
	}
	c := c19GenContent(k, v, fm, i, n)
	var sum [8]byte
	binary.BigEndian.PutUint64(sum[:], crc64.Checksum(c, c19CRCTable))
	e := &c19Exp{content: c, crc: sum[:]}
	c19ExpCache.Store(key, e)
	return e
}

func c19Forget(k, v, fm int) {
	n := c19DocCount(k, v)
	for i := 0; i < n; i++ {
		c19ExpCache.Delete([5]int{k, v, fm, i, n})
	}
}

// c19Repo is the repository description stored in version v of key k.
func c19Repo(k, v, fm int) *zoekt.Repository {
	prio := 100 + k
	if k == c19BallastKey {
		prio = 0 // searched last
	}
	return &zoekt.Repository{
		ID:                   uint32(k + 1),
		Name:                 c19RepoName(k),
		URL:                  "http://c19/" + c19RepoName(k),
		Branches:             []zoekt.RepositoryBranch{{Name: "HEAD", Version: "v" + c19Ver(v)}},
		FileURLTemplate:      "http://c19/{{.Path}}",
		LineFragmentTemplate: "#L{{.LineNumber}}",
		RawConfig: map[string]string{
			"priority": strconv.Itoa(prio),
			"c19ver":   c19Ver(v),
			"c19fmt":   strconv.Itoa(fm),
		},
	}
}

// ---------------------------------------------------------------------------------
// plans

type c19Plan struct {
	Op       string `json:"op"` // search | stream | list
	Q        string `json:"q"`  // all | key | repo | reposet | regex | fname | listall | listrepo
	K        int    `json:"k"`
	Set      []int  `json:"set,omitempty"`
	Whole    bool   `json:"whole"`
	Chunk    bool   `json:"chunk"`
	Ctx      int    `json:"ctx"`
	Limit    int    `json:"limit"`
	Flush    int    `json:"flush"`    // 0: none, 1: 1ns, 2: 1h
	Consumer int    `json:"consumer"` // stream: 0 fast, 1 GC in Send, 2 wait for a replace then GC in Send
	Hold     int    `json:"hold"`     // after the call returned: 0 / 1 GC / 2 wait for a replace then GC; then read every byte
	MapField bool   `json:"map_field"`
}

func (p *c19Plan) kind() string {
	s := p.Op + "/" + p.Q
	if p.Whole {
		s += "/whole"
	}
	if p.Chunk {
		s += "/chunk"
	}
	if p.Limit > 0 {
		s += "/limit"
	}
	if p.Flush > 0 {
		s += "/flush" + strconv.Itoa(p.Flush)
	}
	return s
}

func (p *c19Plan) covers(k int) bool {
	if k == c19BallastKey {
		return p.Q == "all" || p.Q == "regex" || p.Q == "fname" || p.Q == "listall"
	}
	switch p.Q {
	case "all", "regex", "fname", "listall":
		return true
	case "key", "repo", "listrepo":
		return k == p.K
	case "reposet":
		for _, x := range p.Set {
			if x == k {
				return true
			}
		}
	}
	return false
}

func c19RandPlan(r *rand.Rand, nKeys int, ballast bool) c19Plan {
	var p c19Plan
	switch x := r.IntN(20); {
	case x < 8:
		p.Op = "search"
	case x < 17:
		p.Op = "stream"
	default:
		p.Op = "list"
	}
	p.K = r.IntN(nKeys)
	if p.Op == "list" {
		p.Q = []string{"listall", "listrepo"}[r.IntN(2)]
		p.MapField = r.IntN(3) == 0
		return p
	}
	qs := []string{"all", "all", "all", "key", "repo", "reposet", "regex", "fname"}
	p.Q = qs[r.IntN(len(qs))]
	if p.Q == "reposet" {
		for k := 0; k < nKeys; k++ {
			if r.IntN(2) == 0 {
				p.Set = append(p.Set, k)
			}
		}
		if len(p.Set) == 0 {
			p.Set = []int{p.K}
		}
	}
	p.Whole = r.IntN(2) == 0
	p.Chunk = r.IntN(2) == 0
	p.Ctx = r.IntN(3)
	if r.IntN(12) == 0 {
		p.Limit = 1 + r.IntN(6)
	}
	if p.Op == "stream" {
		p.Flush = r.IntN(3)
		if r.IntN(12) == 0 {
			p.Consumer = 1 + r.IntN(2)
		}
	}
	if r.IntN(15) == 0 {
		p.Hold = 1 + r.IntN(2)
	}
	return p
}

var c19DocRe = func() *syntax.Regexp {
	re, err := syntax.Parse(`doc=[0-9]+/[0-9]+`, syntax.Perl)
	if err != nil {
		panic(err)
	}
	return re
}()

func (p *c19Plan) query() query.Q {
	content := func(pat string) query.Q { return &query.Substring{Pattern: pat, Content: true, CaseSensitive: true} }
	switch p.Q {
	case "all":
		return content("c19 key=")
	case "key":
		return content("c19 key=" + strconv.Itoa(p.K) + " ver=")
	case "repo":
		return query.NewAnd(&query.Repo{Regexp: grafanaregexp.MustCompile("^" + c19RepoName(p.K) + "$")}, content("c19 key="))
	case "reposet":
		var names []string
		for _, k := range p.Set {
			names = append(names, c19RepoName(k))
		}
		return query.NewAnd(query.NewRepoSet(names...), content("c19 key="))
	case "regex":
		return &query.Regexp{Regexp: c19DocRe, Content: true, CaseSensitive: true}
	case "fname":
		return &query.Substring{Pattern: "_f0of", FileName: true, CaseSensitive: true}
	case "listall":
		return &query.Const{Value: true}
	case "listrepo":
		return &query.Repo{Regexp: grafanaregexp.MustCompile("^" + c19RepoName(p.K) + "$")}
	}
	panic("c19: unknown query kind " + p.Q)
}

func (p *c19Plan) opts() *zoekt.SearchOptions {
	o := &zoekt.SearchOptions{Whole: p.Whole, ChunkMatches: p.Chunk, NumContextLines: p.Ctx, MaxDocDisplayCount: p.Limit}
	switch p.Flush {
	case 1:
		o.FlushWallTime = time.Nanosecond
	case 2:
		o.FlushWallTime = time.Hour
	}
	return o
}

// ---------------------------------------------------------------------------------
// the per-answer oracle

// c19KeyObs is what one answer showed of one key.
type c19KeyObs struct {
	vers     map[int]int    // content version -> number of files
	docs     map[[2]int]int // (version, doc index) -> occurrences
	n        map[int]int    // version -> n named by the files
	fversion map[string]int // FileMatch.Version values
	fmts     map[int]int
}

type c19Answer struct {
	keys  map[int]*c19KeyObs
	bytes uint64 // number of result bytes read
	sum   uint64 // their sum (forces the reads)
	files int
}

type c19Fault struct {
	sig, what string
	detail    any
}

// c19TouchBytes reads every byte of b (hardware crc: one pass, no per-byte race
// instrumentation); bytes that alias unmapped memory fault here.
func c19TouchBytes(a *c19Answer, b []byte) {
	a.sum += uint64(crc32.ChecksumIEEE(b))
	a.bytes += uint64(len(b))
}

func c19TouchString(a *c19Answer, s string) {
	a.sum += uint64(crc32.ChecksumIEEE(unsafe.Slice(unsafe.StringData(s), len(s))))
	a.bytes += uint64(len(s))
}

// c19ContextOK: before must be the text that ends right in front of the line, after
// the text that starts right behind it (with or without the separating newline).
func c19ContextOK(content []byte, lineStart, lineEnd int, before, after []byte) bool {
	head, tail := content[:lineStart], content[lineEnd:]
	okB := len(before) == 0 || bytes.HasSuffix(head, before) || bytes.HasSuffix(bytes.TrimSuffix(head, []byte{'\n'}), before)
	okA := len(after) == 0 || bytes.HasPrefix(tail, after) || bytes.HasPrefix(bytes.TrimPrefix(tail, []byte{'\n'}), after)
	return okB && okA
}

func c19Clip(b []byte) string {
	if len(b) > 160 {
		return string(b[:160]) + "…"
	}
	return string(b)
}

// c19ReadFiles reads every byte of every file of an answer and checks each file
// against the (key, version, doc) it names. It does not need any shared state.
func c19ReadFiles(p *c19Plan, files []zoekt.FileMatch) (*c19Answer, []c19Fault) {
	a := &c19Answer{keys: map[int]*c19KeyObs{}}
	var faults []c19Fault
	fault := func(sig, what string, f *zoekt.FileMatch, extra any) {
		faults = append(faults, c19Fault{sig, what, map[string]any{"file": f.FileName, "repo": f.Repository, "version": f.Version, "detail": extra}})
	}
	for fi := range files {
		f := &files[fi]
		a.files++
		c19TouchString(a, f.FileName)
		c19TouchString(a, f.Repository)
		c19TouchString(a, f.Version)
		c19TouchString(a, f.Language)
		for _, b := range f.Branches {
			c19TouchString(a, b)
		}
		c19TouchBytes(a, f.Content)
		c19TouchBytes(a, f.Checksum)
		k, v, fm, i, n, ok := c19ParseName(f.FileName)
		if !ok {
			fault("answer holds a file that no version ever contained", fmt.Sprintf("file name %q is not a name the workload wrote", c19Clip([]byte(f.FileName))), f, nil)
			continue
		}
		if f.Repository != c19RepoName(k) || f.RepositoryID != uint32(k+1) {
			fault("file attributed to another repository", fmt.Sprintf("file %s reported for repository %q id %d", f.FileName, f.Repository, f.RepositoryID), f, nil)
		}
		if n != c19DocCount(k, v) || i < 0 || i >= n {
			fault("answer holds a file that no version ever contained", fmt.Sprintf("file name %q is inconsistent (version %d has %d documents)", f.FileName, v, c19DocCount(k, v)), f, nil)
			continue
		}
		exp := c19Expected(k, v, fm, i, n)
		if p.Whole && !bytes.Equal(f.Content, exp.content) {
			fault("result bytes differ from the version the file names/content", fmt.Sprintf("Whole content of %s is not the content of key %d version %d doc %d", f.FileName, k, v, i), f,
				map[string]any{"got": c19Clip(f.Content), "want": c19Clip(exp.content), "got_len": len(f.Content), "want_len": len(exp.content)})
		}
		if len(f.Checksum) > 0 && !bytes.Equal(f.Checksum, exp.crc) {
			fault("result bytes differ from the version the file names/checksum", fmt.Sprintf("checksum of %s is not the checksum of key %d version %d doc %d", f.FileName, k, v, i), f, nil)
		}
		for li := range f.LineMatches {
			lm := &f.LineMatches[li]
			c19TouchBytes(a, lm.Line)
			c19TouchBytes(a, lm.Before)
			c19TouchBytes(a, lm.After)
			if lm.FileName {
				if string(lm.Line) != f.FileName {
					fault("result bytes differ from the version the file names/line", fmt.Sprintf("file-name line match of %s holds %q", f.FileName, c19Clip(lm.Line)), f, nil)
				}
				continue
			}
			okLine := lm.LineStart >= 0 && lm.LineStart <= lm.LineEnd && lm.LineEnd <= len(exp.content) && bytes.Equal(exp.content[lm.LineStart:lm.LineEnd], lm.Line)
			if !okLine || !c19ContextOK(exp.content, lm.LineStart, lm.LineEnd, lm.Before, lm.After) {
				fault("result bytes differ from the version the file names/line", fmt.Sprintf("line match [%d,%d) of %s is not that range of key %d version %d doc %d", lm.LineStart, lm.LineEnd, f.FileName, k, v, i), f,
					map[string]any{"line": c19Clip(lm.Line), "before": c19Clip(lm.Before), "after": c19Clip(lm.After)})
			}
		}
		for ci := range f.ChunkMatches {
			cm := &f.ChunkMatches[ci]
			c19TouchBytes(a, cm.Content)
			if cm.FileName {
				if string(cm.Content) != f.FileName {
					fault("result bytes differ from the version the file names/chunk", fmt.Sprintf("file-name chunk of %s holds %q", f.FileName, c19Clip(cm.Content)), f, nil)
				}
				continue
			}
			off := int(cm.ContentStart.ByteOffset)
			if off < 0 || off+len(cm.Content) > len(exp.content) || !bytes.Equal(exp.content[off:off+len(cm.Content)], cm.Content) {
				fault("result bytes differ from the version the file names/chunk", fmt.Sprintf("chunk at byte %d (+%d) of %s is not that range of key %d version %d doc %d", off, len(cm.Content), f.FileName, k, v, i), f,
					map[string]any{"chunk": c19Clip(cm.Content)})
			}
		}
		o := a.keys[k]
		if o == nil {
			o = &c19KeyObs{vers: map[int]int{}, docs: map[[2]int]int{}, n: map[int]int{}, fversion: map[string]int{}, fmts: map[int]int{}}
			a.keys[k] = o
		}
		o.vers[v]++
		o.docs[[2]int{v, i}]++
		o.n[v] = n
		o.fversion[f.Version]++
		o.fmts[fm]++
	}
	return a, faults
}

func c19SortedInts(m map[int]int) []int {
	var l []int
	for k := range m {
		l = append(l, k)
	}
	sort.Ints(l)
	return l
}

// c19JudgeAnswer applies the "exactly one complete version" rules to what
// c19ReadFiles extracted. absentOK says per covered key whether the repository may
// be missing from an answer.
func c19JudgeAnswer(p *c19Plan, a *c19Answer, nKeys int, ballast bool, absentOK func(k int) bool, maxVer func(k int) int) []c19Fault {
	var faults []c19Fault
	kind := p.Op
	for k, o := range a.keys {
		if !p.covers(k) {
			faults = append(faults, c19Fault{"answer holds a repository the query excludes/" + kind, fmt.Sprintf("key %d is in the answer of a query restricted to other repositories (%s)", k, p.kind()), nil})
		}
		if len(o.vers) > 1 {
			faults = append(faults, c19Fault{"two versions of one repository in one answer/" + kind,
				fmt.Sprintf("key %d: one answer holds documents of versions %v", k, c19SortedInts(o.vers)), map[string]any{"versions": o.vers}})
			continue
		}
		if len(o.fversion) > 1 {
			faults = append(faults, c19Fault{"two metadata versions of one repository in one answer/" + kind,
				fmt.Sprintf("key %d: the files of one answer carry branch versions %v", k, o.fversion), nil})
		}
		if o.fmts[18] > 0 {
			faults = append(faults, c19Fault{"future-format shard served/" + kind, fmt.Sprintf("key %d: an answer was read from a _v18 file", k), nil})
		}
		v := c19SortedInts(o.vers)[0]
		if k != c19BallastKey && maxVer != nil && v > maxVer(k) {
			faults = append(faults, c19Fault{"harness/version observed before it was written", fmt.Sprintf("key %d version %d > %d", k, v, maxVer(k)), nil})
		}
		for d, c := range o.docs {
			if c > 1 {
				faults = append(faults, c19Fault{"document twice in one answer/" + kind, fmt.Sprintf("key %d version %d doc %d appears %d times in one answer", k, v, d[1], c), nil})
			}
		}
		if p.Limit > 0 {
			continue
		}
		n := o.n[v]
		want := n
		if p.Q == "fname" {
			want = 1
		}
		if len(o.docs) != want {
			var have []int
			for d := range o.docs {
				have = append(have, d[1])
			}
			sort.Ints(have)
			faults = append(faults, c19Fault{"partial version in one answer/" + kind,
				fmt.Sprintf("key %d version %d has %d documents, the answer (%s) holds documents %v", k, v, n, p.kind(), have), nil})
		}
	}
	if p.Limit > 0 {
		return faults
	}
	check := func(k int) {
		if a.keys[k] == nil && !absentOK(k) {
			faults = append(faults, c19Fault{"replace-only repository absent from an answer/" + kind,
				fmt.Sprintf("key %d exists on disk for the whole run and is only ever replaced by rename, but an answer (%s) holds no document of it", k, p.kind()), nil})
		}
	}
	for k := 0; k < nKeys; k++ {
		if p.covers(k) {
			check(k)
		}
	}
	if ballast && p.covers(c19BallastKey) {
		check(c19BallastKey)
	}
	return faults
}

// c19Collect is the client side of StreamSearch: it keeps every event.
type c19Collect struct {
	mu      sync.Mutex
	files   []zoekt.FileMatch
	stats   zoekt.Stats
	events  int
	onFiles func() // called (once) from inside Send at the first event with files
	fired   bool
}

func (c *c19Collect) Send(r *zoekt.SearchResult) {
	c.mu.Lock()
	c.events++
	c.stats.Add(r.Stats)
	c.files = append(c.files, r.Files...)
	fire := !c.fired && len(r.Files) > 0 && c.onFiles != nil
	if fire {
		c.fired = true
	}
	c.mu.Unlock()
	if fire {
		c.onFiles()
	}
}

// c19Normal renders an answer for the fresh-searcher differential.
func c19Normal(files []zoekt.FileMatch) []string {
	var out []string
	for i := range files {
		f := &files[i]
		var m []string
		for _, lm := range f.LineMatches {
			m = append(m, fmt.Sprintf("L%d:%d-%d", lm.LineNumber, lm.LineStart, lm.LineEnd))
		}
		for _, cm := range f.ChunkMatches {
			m = append(m, fmt.Sprintf("C%d+%d", cm.ContentStart.ByteOffset, len(cm.Content)))
		}
		out = append(out, fmt.Sprintf("%s|%s|%s|%v|%d|%x|%s", f.Repository, f.FileName, f.Version, f.Branches, len(f.Content), f.Checksum, strings.Join(m, ",")))
	}
	sort.Strings(out)
	return out
}

func c19NormalList(rl *zoekt.RepoList) []string {
	var out []string
	for _, e := range rl.Repos {
		var rc []string
		for k, v := range e.Repository.RawConfig {
			rc = append(rc, k+"="+v)
		}
		sort.Strings(rc)
		out = append(out, fmt.Sprintf("%s|%d|%v|%s|shards=%d|docs=%d", e.Repository.Name, e.Repository.ID, e.Repository.Branches, strings.Join(rc, ","), e.Stats.Shards, e.Stats.Documents))
	}
	for id, e := range rl.ReposMap {
		out = append(out, fmt.Sprintf("map|%d|%v", id, e.Branches))
	}
	sort.Strings(out)
	return out
}

// c19Battery is the fixed list of plans of the final differential.
func c19Battery(nKeys int) []c19Plan {
	var ps []c19Plan
	for _, q := range []string{"all", "regex", "fname"} {
		ps = append(ps, c19Plan{Op: "search", Q: q, Whole: true}, c19Plan{Op: "stream", Q: q, Chunk: true, Ctx: 1, Flush: 2})
	}
	for k := 0; k < nKeys; k++ {
		ps = append(ps, c19Plan{Op: "search", Q: "key", K: k, Whole: true, Chunk: true}, c19Plan{Op: "stream", Q: "repo", K: k}, c19Plan{Op: "list", Q: "listrepo", K: k})
	}
	all := make([]int, nKeys)
	for k := range all {
		all[k] = k
	}
	ps = append(ps, c19Plan{Op: "search", Q: "reposet", Set: all, Whole: true}, c19Plan{Op: "list", Q: "listall"}, c19Plan{Op: "list", Q: "listall", MapField: true})
	return ps
}

// c19Run executes a plan against s. For streams, onFiles is the slow consumer.
func c19Run(s zoekt.Streamer, p *c19Plan, onFiles func()) (files []zoekt.FileMatch, stats zoekt.Stats, rl *zoekt.RepoList, err error) {
	ctx := context.Background()
	switch p.Op {
	case "search":
		var sr *zoekt.SearchResult
		sr, err = s.Search(ctx, p.query(), p.opts())
		if sr != nil {
			files, stats = sr.Files, sr.Stats
		}
	case "stream":
		c := &c19Collect{onFiles: onFiles}
		err = s.StreamSearch(ctx, p.query(), p.opts(), c)
		c.mu.Lock()
		files, stats = c.files, c.stats
		c.mu.Unlock()
	case "list":
		var lo *zoekt.ListOptions
		if p.MapField {
			lo = &zoekt.ListOptions{Field: zoekt.RepoListFieldReposMap}
		}
		rl, err = s.List(ctx, p.query(), lo)
	}
	return
}

// c19CrashSig classifies the output of a dead child: fault class and the first
// zoekt frame of the goroutine that died.
func c19CrashSig(tail string) string {
	lines := strings.Split(tail, "\n")
	class := ""
	at := -1
	for i, l := range lines {
		switch {
		case strings.HasPrefix(l, "[signal SIGSEGV"), strings.Contains(l, "unexpected fault address") && class == "":
			class, at = "SIGSEGV unexpected fault address", i
		case strings.HasPrefix(l, "[signal SIGBUS"):
			class, at = "SIGBUS", i
		case strings.HasPrefix(l, "fatal error:") && class == "":
			class, at = strings.TrimSpace(l), i
		case strings.HasPrefix(l, "panic:") && class == "":
			class, at = "panic", i
		}
		if strings.HasPrefix(l, "[signal ") {
			break
		}
	}
	if at < 0 {
		return "no fault message"
	}
	if strings.HasPrefix(class, "fatal error: fault") {
		class = "SIGSEGV unexpected fault address"
	}
	// the first goroutine block after the message is the faulting one
	inBlock := false
	for _, l := range lines[at:] {
		if strings.HasPrefix(l, "goroutine ") {
			if inBlock {
				break
			}
			inBlock = true
			continue
		}
		if !inBlock {
			continue
		}
		m := strings.TrimSpace(l)
		if strings.HasPrefix(m, "github.com/sourcegraph/zoekt") {
			if j := strings.LastIndex(m, "("); j > 0 {
				m = m[:j]
			}
			m = strings.TrimPrefix(m, "github.com/sourcegraph/zoekt")
			if strings.Contains(m, "c19Touch") || strings.Contains(m, "c19ReadFiles") {
				return class + " @ client reads result bytes after the call returned"
			}
			if strings.Contains(m, ".c19") {
				return class + " @ harness " + m
			}
			return class + " @ " + m
		}
	}
	return class
}
